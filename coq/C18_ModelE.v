(* C18 -- the cache's ENVIRONMENT at construction and destruction (third scenario mode of the check).

   One cache object at a time (a GlobalSimpleStringCache, or a SimpleStringInternalCache wired by hand the same way) over a
   base string allocator U, in an environment that the scenario scripts:

     which malloc allocator is current      EMal k      setCurrentMallocAllocator(default | M1 | M2) -- before the object is
                                                        constructed, in between, before it is destroyed
     another string allocator ON TOP        ETop        SimpleString::setStringAllocator(T), T remembers what it found
                                            EUntop      T's owner takes it out again IF it is still the current one
     an underlying allocator that           e_rf, e_ra  U builds a SimpleString of rf bytes inside free_memory, of ra bytes inside
     RE-ENTERS the string allocator                     alloc_memory (not while it is already doing so), through whatever
                                                        string allocator is in force at that moment

   and five allocators with their own books: D = defaultMallocAllocator(), M1, M2 (recording malloc allocators), U, T.
   Every allocator call is an event that names the allocator; block ids are ordinals over all allocators together.

   What the code does (src/CppUTest/SimpleStringInternalCache.cpp), mirrored here:
     constructor   the node table comes from defaultMallocAllocator() whatever malloc allocator is current; the cache
                   takes the string allocator it found installed (U) for its blocks; the adaptor is installed
     destructor    FIRST SimpleString::setStringAllocator(originalAllocator) -- whatever is installed on top is dropped --,
                   THEN clearAllIncludingCurrentlyUsedMemory (so a string U builds while a block goes back is served by U
                   itself, not by the cache being emptied), then the node table goes back to defaultMallocAllocator()
     alloc         hasFreeBlocksOfSize is read first; the two alloc_memory calls of createSimpleStringMemoryBlock follow, each
                   possibly re-entering the cache (a string lives and dies inside it); the new block is linked afterwards
                   (cached: in front of the used list as it is THEN; non-cached: in front of the list as it was on entry)
     dealloc       the block is unlinked first, the two free_memory calls follow, each possibly re-entering the cache
   The cache's own functions are those of C18_Model (alloc, dealloc, clear_all) and C18_ModelG (need, alloc_hit).
   No proofs in this file. *)
From Coq Require Import NArith Arith Bool List.
From CppUVerif Require Import gen.Gen_C18 C18_Model C18_ModelG.
Import ListNotations.
Local Open Scope N_scope.

(* ---------------------------------------------------------------- allocators and events *)
Definition who_D : N := 0.      (* defaultMallocAllocator() *)
Definition who_U : N := 3.      (* the base string allocator *)
Definition who_T : N := 4.      (* the string allocator installed on top *)
(* 1, 2: the recording malloc allocators M1, M2 *)

Inductive xev :=
| XA (who id sz : N)            (* allocator who: alloc_memory(sz) returned block number id *)
| XF (who id sz : N)            (* allocator who: free_memory(start of block id, sz) *)
| XR (id off n : N).            (* the string U builds for itself got its n-byte buffer at offset off of block id *)
Definition xu (e : ev) : xev := match e with EA id sz => XA who_U id sz | EF id sz => XF who_U id sz end.

Record eitem := { ei_evs : list xev; ei_ret : option (N * N); ei_warn : bool }.
Definition eobs := list eitem.

Inductive force := FU | FC | FT.      (* the string allocator in force: U, the cache's adaptor, T *)
Definition force_eqb (a b : force) : bool :=
  match a, b with FU, FU | FC, FC | FT, FT => true | _, _ => false end.

Inductive eop :=
| EMal (k : N)                  (* setCurrentMallocAllocator: 0 default, 1 M1, 2 M2 *)
| EPush (kind : N)              (* construct: 0 GlobalSimpleStringCache, 1 cache + adaptor wired by hand *)
| EPop                          (* destroy it *)
| ETop                          (* install T on top of what is in force *)
| EUntop                        (* T's owner removes it if it is still the current string allocator *)
| EAlloc (n : N)                (* a request to the string allocator in force (raw, or a string with an n-byte buffer) *)
| ERel (k : nat).               (* the buffer of the k-th request goes back, with its size, to the allocator in force *)
Record escenario := { e_rf : option N; e_ra : option N; e_ops : list eop }.

(* ---------------------------------------------------------------- the string U builds for itself *)
Definition set_next (st : state) (nx : N) : state :=
  {| s_cache := s_cache st; s_non := s_non st; s_warned := s_warned st; s_next := nx |}.

(* ... while the cache is in force: alloc(r), then dealloc of that buffer with r; U does not re-enter while it reports *)
Definition life (r : N) (st : state) (nx : N) : state * N * list xev :=
  match alloc (set_next st nx) r with
  | (st1, x1) =>
      match o_ret x1 with
      | Some p =>
          match dealloc st1 (PId p) r with
          | (st2, x2) => (st2, s_next st2, map xu (o_evs x1) ++ XR p 0 r :: map xu (o_evs x2))
          end
      | None => (st1, s_next st1, map xu (o_evs x1))
      end
  end.
Definition olife (r : option N) (st : state) (nx : N) : state * N * list xev :=
  match r with Some r' => life r' st nx | None => (st, nx, []) end.
(* ... while U itself is in force: a block of its own *)
Definition dlife (r : option N) (nx : N) : list xev * N :=
  match r with
  | Some r' => ([XA who_U nx r'; XR nx 0 r'; XF who_U nx r'], nx + 1)
  | None => ([], nx)
  end.

(* ---------------------------------------------------------------- the cache over a re-entering U *)
(* the new block is linked: cached -> usedMemoryHead_ re-read; non-cached -> createSimpleStringMemoryBlock was given the
   list head as it was before the calls *)
Definition link (st0 st2 : state) (n h m : N) : state :=
  let b := {| b_hdr := h; b_mem := m |} in
  if is_cached n then
    let i := index_for (s_cache st2) n in
    let nd := nth i (s_cache st2) dnode in
    with_cache st2 (set_nth i {| n_size := n_size nd; n_free := n_free nd; n_used := b :: n_used nd |} (s_cache st2))
  else {| s_cache := s_cache st2; s_non := b :: s_non st0; s_warned := s_warned st2; s_next := s_next st2 |}.

Definition r_alloc (ra : option N) (st : state) (nx n : N) : state * N * N * list xev :=
  match need st n with
  | None => match alloc_hit st n with (st', p) => (st', nx, p, []) end
  | Some sz =>
      match olife ra st (nx + 1) with
      | (st1, nx1, e1) =>
          match olife ra st1 (nx1 + 1) with
          | (st2, nx2, e2) => (link st st2 n nx nx1, nx2, nx1, XA who_U nx block_hdr_size :: e1 ++ XA who_U nx1 sz :: e2)
          end
      end
  end.

(* the free_memory calls of an operation that has already updated the lists, each followed by U's string *)
Fixpoint frees_with_lives (rf : option N) (st : state) (nx : N) (l : list ev) : state * N * list xev :=
  match l with
  | [] => (st, nx, [])
  | EF id sz :: r =>
      match olife rf st nx with
      | (st1, nx1, e1) =>
          match frees_with_lives rf st1 nx1 r with
          | (st2, nx2, e2) => (st2, nx2, XF who_U id sz :: e1 ++ e2)
          end
      end
  | EA _ _ :: r => frees_with_lives rf st nx r
  end.
Definition r_dealloc (rf : option N) (st : state) (nx : N) (p : ptr) (n : N) : state * N * list xev * bool :=
  match dealloc st p n with
  | (st', x) => match frees_with_lives rf st' nx (o_evs x) with (st2, nx2, e) => (st2, nx2, e, o_warn x) end
  end.
(* the same calls with U itself in force (the destructor has taken the cache out first) *)
Fixpoint direct_frees (rf : option N) (nx : N) (l : list ev) : list xev * N :=
  match l with
  | [] => ([], nx)
  | EF id sz :: r =>
      match dlife rf nx with
      | (e1, nx1) => match direct_frees rf nx1 r with (e2, nx2) => (XF who_U id sz :: e1 ++ e2, nx2) end
      end
  | EA _ _ :: r => direct_frees rf nx r
  end.

(* ---------------------------------------------------------------- the world *)
(* ew_obj: the lists of the object's cache and the block id of its node table; ew_res: per request the block and the size *)
Record eworld := { ew_obj : option (state * N); ew_nx : N; ew_cur : force; ew_tsv : force; ew_res : list (N * N) }.
Definition mk_ei (e : list xev) (r : option N) (w : bool) : eitem :=
  {| ei_evs := e; ei_ret := match r with Some id => Some (id, 0) | None => None end; ei_warn := w |}.
Definition ei_none : eitem := mk_ei [] None false.

Definition estep (rf ra : option N) (w : eworld) (o : eop) : eworld * eitem :=
  match o with
  | EMal _ => (w, ei_none)          (* neither the constructor nor the destructor looks at the current malloc allocator *)
  | EPush _ =>
      ({| ew_obj := Some (fresh_cache, ew_nx w); ew_nx := ew_nx w + 1; ew_cur := FC; ew_tsv := ew_tsv w; ew_res := ew_res w |},
       mk_ei [XA who_D (ew_nx w) node_array_size] None false)
  | EPop =>
      match ew_obj w with
      | None => (w, ei_none)
      | Some (st, tab) =>
          match clear_all st with
          | (_, x) =>
              match direct_frees rf (ew_nx w) (o_evs x) with
              | (e, nx') =>
                  ({| ew_obj := None; ew_nx := nx'; ew_cur := FU; ew_tsv := ew_tsv w; ew_res := ew_res w |},
                   mk_ei (e ++ [XF who_D tab node_array_size]) None false)
              end
          end
      end
  | ETop => ({| ew_obj := ew_obj w; ew_nx := ew_nx w; ew_cur := FT; ew_tsv := ew_cur w; ew_res := ew_res w |}, ei_none)
  | EUntop =>
      ({| ew_obj := ew_obj w; ew_nx := ew_nx w; ew_cur := match ew_cur w with FT => ew_tsv w | c => c end;
          ew_tsv := ew_tsv w; ew_res := ew_res w |}, ei_none)
  | EAlloc n =>
      match ew_cur w, ew_obj w with
      | FC, Some (st, tab) =>
          match r_alloc ra st (ew_nx w) n with
          | (st', nx', p, e) =>
              ({| ew_obj := Some (st', tab); ew_nx := nx'; ew_cur := FC; ew_tsv := ew_tsv w; ew_res := ew_res w ++ [(p, n)] |},
               mk_ei e (Some p) false)
          end
      | FT, _ =>
          ({| ew_obj := ew_obj w; ew_nx := ew_nx w + 1; ew_cur := FT; ew_tsv := ew_tsv w; ew_res := ew_res w ++ [(ew_nx w, n)] |},
           mk_ei [XA who_T (ew_nx w) n] (Some (ew_nx w)) false)
      | _, _ =>
          match dlife ra (ew_nx w + 1) with
          | (e, nx') =>
              ({| ew_obj := ew_obj w; ew_nx := nx'; ew_cur := ew_cur w; ew_tsv := ew_tsv w; ew_res := ew_res w ++ [(ew_nx w, n)] |},
               mk_ei (XA who_U (ew_nx w) n :: e) (Some (ew_nx w)) false)
          end
      end
  | ERel k =>
      match nth_error (ew_res w) k with
      | None => (w, ei_none)
      | Some (id, n) =>
          match ew_cur w, ew_obj w with
          | FC, Some (st, tab) =>
              match r_dealloc rf st (ew_nx w) (PId id) n with
              | (st', nx', e, wn) =>
                  ({| ew_obj := Some (st', tab); ew_nx := nx'; ew_cur := FC; ew_tsv := ew_tsv w; ew_res := ew_res w |}, mk_ei e None wn)
              end
          | FT, _ => (w, mk_ei [XF who_T id n] None false)
          | _, _ =>
              match dlife rf (ew_nx w) with
              | (e, nx') =>
                  ({| ew_obj := ew_obj w; ew_nx := nx'; ew_cur := ew_cur w; ew_tsv := ew_tsv w; ew_res := ew_res w |},
                   mk_ei (XF who_U id n :: e) None false)
              end
          end
      end
  end.

(* an object still alive at the end of the scenario is destroyed *)
Fixpoint erun_ops (rf ra : option N) (w : eworld) (ops : list eop) : eobs :=
  match ops with
  | [] => match ew_obj w with Some _ => [snd (estep rf ra w EPop)] | None => [] end
  | o :: r => match estep rf ra w o with (w1, x) => x :: erun_ops rf ra w1 r end
  end.
Definition eworld0 : eworld := {| ew_obj := None; ew_nx := 0; ew_cur := FU; ew_tsv := FU; ew_res := [] |}.
Definition erun (s : escenario) : eobs := erun_ops (e_rf s) (e_ra s) eworld0 (e_ops s).

(* ---------------------------------------------------------------- the script of the environment, read off the scenario
   alone (used by validity and by the oracle): which string allocator is in force, whether the object is alive (its serial),
   and per request who served it while the buffer is in use.  Tags: 0 = U, 1 = T, 2 + serial = the cache object. *)
Record env := { v_cur : force; v_tsv : force; v_obj : option N; v_nser : N }.
Definition env0 : env := {| v_cur := FU; v_tsv := FU; v_obj := None; v_nser := 0 |}.
Definition tag_of (v : env) : N :=
  match v_cur v with
  | FU => 0
  | FT => 1
  | FC => match v_obj v with Some ser => 2 + ser | None => 0 end
  end.
Definition env_step (v : env) (o : eop) : env :=
  match o with
  | EPush _ => {| v_cur := FC; v_tsv := v_tsv v; v_obj := Some (v_nser v); v_nser := v_nser v + 1 |}
  | EPop => {| v_cur := FU; v_tsv := v_tsv v; v_obj := None; v_nser := v_nser v |}
  | ETop => {| v_cur := FT; v_tsv := v_cur v; v_obj := v_obj v; v_nser := v_nser v |}
  | EUntop => {| v_cur := match v_cur v with FT => v_tsv v | c => c end; v_tsv := v_tsv v; v_obj := v_obj v; v_nser := v_nser v |}
  | _ => v
  end.

(* validity: one object at a time, constructed over U (nothing on top at that moment); T is installed only when it is not in
   force; a release names a buffer still in use, served by the allocator in force now (a buffer of a destroyed object is
   gone with it), and goes back with its size *)
Fixpoint kill_tag (t : N) (l : list (option N)) : list (option N) :=
  match l with
  | [] => []
  | Some t' :: r => (if t' =? t then None else Some t') :: kill_tag t r
  | None :: r => None :: kill_tag t r
  end.
Fixpoint evalid_ops (v : env) (reqs : list (option N)) (ops : list eop) : bool :=
  match ops with
  | [] => true
  | o :: r =>
      match o with
      | EMal k => (k <=? 2) && evalid_ops v reqs r
      | EPush kind =>
          (kind <=? 1) && match v_obj v with None => true | Some _ => false end && force_eqb (v_cur v) FU
          && evalid_ops (env_step v o) reqs r
      | EPop =>
          match v_obj v with
          | Some ser => evalid_ops (env_step v o) (kill_tag (2 + ser) reqs) r
          | None => false
          end
      | ETop => negb (force_eqb (v_cur v) FT) && evalid_ops (env_step v o) reqs r
      | EUntop => evalid_ops (env_step v o) reqs r
      | EAlloc _ => evalid_ops v (reqs ++ [Some (tag_of v)]) r
      | ERel k =>
          match nth_error reqs k with
          | Some (Some t) => (t =? tag_of v) && evalid_ops v (set_nth_opt k reqs) r
          | _ => false
          end
      end
  end.
Definition evalid (s : escenario) : bool := evalid_ops env0 [] (e_ops s).

(* ---------------------------------------------------------------- spec: the property for these histories, as a model-free
   oracle over the observation.  The books of ALL allocators together: per block id the allocator it came from and its size,
   the ids given back, the size class of the first buffer handed out in a block.
     a block goes back only to the allocator it came from, only once, with its size (above the cached bound: the size the
     caller gave, or 0 from a clear), never while a buffer in it is in use;
     a buffer handed out -- to the scenario, or to the string the underlying allocator builds for itself (XR) -- lies inside a
     block that has been obtained and NOT given back, is large enough, overlaps no buffer in use, and a block is only reused
     for requests of the size class it was first used for;
     nothing warns;
     when the object is gone, every block obtained from any allocator since its construction began has been given back,
     except the blocks of buffers in use that were NOT served by the object's cache. *)
Record xbk := { xo : list (N * N); xf : list N; xs : list (N * option N) }.
Definition xszof (o : list (N * N)) (id : N) : option (N * N) :=
  if id <? N.of_nat (length o) then nth_error o (N.to_nat id) else None.

Definition handout (live : list lentry) (b : xbk) (id off n : N) : option xbk :=
  match xszof (xo b) id with
  | None => None                                                         (* not memory anybody obtained *)
  | Some (_, a) =>
      if memN id (xf b) then None                                        (* inside memory already given back *)
      else if negb (off + n <=? a) then None                             (* capacity *)
      else if existsb (overlaps id off n) (map le3 live) then None       (* overlaps a buffer in use *)
      else match seen_cls (xs b) id with
           | Some c => if optN_eqb c (cls n) then Some b else None       (* reuse only within the size class *)
           | None => Some {| xo := xo b; xf := xf b; xs := (id, cls n) :: xs b |}
           end
  end.

Definition x_apply (caller : N) (live : list lentry) (b : xbk) (e : xev) : option xbk :=
  match e with
  | XA who id sz =>
      if id =? N.of_nat (length (xo b)) then Some {| xo := xo b ++ [(who, sz)]; xf := xf b; xs := xs b |} else None
  | XF who id sz =>
      match xszof (xo b) id with
      | None => None
      | Some (w, a) =>
          if negb (w =? who) || memN id (xf b) || negb (size_ok a sz caller) || memN id (lids live) then None
          else Some {| xo := xo b; xf := id :: xf b; xs := xs b |}
      end
  | XR id off n => handout live b id off n
  end.
Fixpoint x_applies (caller : N) (live : list lentry) (b : xbk) (l : list xev) : option xbk :=
  match l with
  | [] => Some b
  | e :: r => match x_apply caller live b e with Some b1 => x_applies caller live b1 r | None => None end
  end.

Record es := { q_b : xbk; q_lv : list lentry; q_pt : list (N * N); q_env : env; q_base : N }.
Definition mk_es b lv pt v base : es := {| q_b := b; q_lv := lv; q_pt := pt; q_env := v; q_base := base |}.
Definition es0 : es := mk_es {| xo := []; xf := []; xs := [] |} [] [] env0 0.

Definition echeck (s : es) (o : eop) (it : eitem) : option es :=
  if ei_warn it then None else
  match o with
  | EAlloc n =>
      match x_applies 0 (q_lv s) (q_b s) (ei_evs it), ei_ret it with
      | Some b, Some (id, off) =>
          match handout (q_lv s) b id off n with
          | Some b' => Some (mk_es b' ((id, off, n, tag_of (q_env s)) :: q_lv s) (q_pt s ++ [(id, off)]) (q_env s) (q_base s))
          | None => None
          end
      | _, _ => None
      end
  | ERel k =>
      match nth_error (q_pt s) k, ei_ret it with
      | Some (id, off), None =>
          match gfind_live (q_lv s) id off with
          | Some (req, own) =>
              if own =? tag_of (q_env s) then
                let live' := gdrop_live (q_lv s) id off in
                match x_applies req live' (q_b s) (ei_evs it) with
                | Some b => Some (mk_es b live' (q_pt s) (q_env s) (q_base s))
                | None => None
                end
              else None
          | None => None
          end
      | _, _ => None
      end
  | EPush _ =>
      match x_applies 0 (q_lv s) (q_b s) (ei_evs it), ei_ret it with
      | Some b, None => Some (mk_es b (q_lv s) (q_pt s) (env_step (q_env s) o) (N.of_nat (length (xo (q_b s)))))
      | _, _ => None
      end
  | EPop =>
      match v_obj (q_env s) with
      | None => None
      | Some ser =>
          let others := filter (fun e => negb (owned_by (2 + ser) e)) (q_lv s) in
          match x_applies 0 others (q_b s) (ei_evs it), ei_ret it with
          | Some b, None =>
              if forallb (fun id => memN id (xf b) || memN id (lids others))
                         (range_from (q_base s) (length (xo b) - N.to_nat (q_base s)))
              then Some (mk_es b others (q_pt s) (env_step (q_env s) o) (q_base s))
              else None
          | _, _ => None
          end
      end
  | EMal _ | ETop | EUntop =>
      match x_applies 0 (q_lv s) (q_b s) (ei_evs it), ei_ret it with
      | Some b, None => Some (mk_es b (q_lv s) (q_pt s) (env_step (q_env s) o) (q_base s))
      | _, _ => None
      end
  end.

(* after the last operation: the destruction of the object if it is still alive, and nothing else *)
Fixpoint echeck_ops (s : es) (ops : list eop) (o : eobs) : option es :=
  match ops with
  | [] =>
      match v_obj (q_env s), o with
      | None, [] => Some s
      | Some _, [it] => echeck s EPop it
      | _, _ => None
      end
  | op1 :: r =>
      match o with
      | it :: o' => match echeck s op1 it with Some s1 => echeck_ops s1 r o' | None => None end
      | [] => None
      end
  end.
Definition efinal (sc : escenario) (o : eobs) : option es := echeck_ops es0 (e_ops sc) o.
Definition espec (sc : escenario) (o : eobs) : bool := match efinal sc o with Some _ => true | None => false end.

(* ---------------------------------------------------------------- the scenario language of the check, all three modes *)
Inductive yscenario := YOld (x : xscenario) | YEnv (e : escenario).
Inductive yobs := YOOld (o : xobs) | YOEnv (o : eobs).
Definition yrun (s : yscenario) : yobs := match s with YOld x => YOOld (xrun x) | YEnv e => YOEnv (erun e) end.
Definition yvalid (s : yscenario) : bool := match s with YOld x => xvalid x | YEnv e => evalid e end.
Definition yspec (s : yscenario) (o : yobs) : bool :=
  match s, o with
  | YOld x, YOOld ox => xspec x ox
  | YEnv e, YOEnv oe => espec e oe
  | _, _ => false
  end.

(* ---------------------------------------------------------------- the three red-team variants, for the refutations *)
(* C18-1 of round 5: the constructor takes the node table from the CURRENT malloc allocator, the destructor still returns
   it to the default one.  The variant world remembers the current malloc allocator in ew_tsv's place: a separate run. *)
Fixpoint erun_tab_variant (rf ra : option N) (mal : N) (w : eworld) (ops : list eop) : eobs :=
  match ops with
  | [] => match ew_obj w with Some _ => [snd (estep rf ra w EPop)] | None => [] end
  | o :: r =>
      match o with
      | EMal k => ei_none :: erun_tab_variant rf ra k w r
      | EPush _ =>
          match estep rf ra w o with
          | (w1, _) => mk_ei [XA mal (ew_nx w) node_array_size] None false :: erun_tab_variant rf ra mal w1 r
          end
      | _ => match estep rf ra w o with (w1, x) => x :: erun_tab_variant rf ra mal w1 r end
      end
  end.
(* C18-2 of round 5: the destructor uninstalls and clears only if its adaptor is still the current string allocator *)
Definition estep_guarded_variant (rf ra : option N) (w : eworld) (o : eop) : eworld * eitem :=
  match o, ew_cur w, ew_obj w with
  | EPop, FT, Some (st, tab) =>
      ({| ew_obj := None; ew_nx := ew_nx w; ew_cur := FT; ew_tsv := ew_tsv w; ew_res := ew_res w |},
       mk_ei [XF who_D tab node_array_size] None false)
  | _, _, _ => estep rf ra w o
  end.
(* C18-3 of round 5: the destructor clears BEFORE it uninstalls: the string U builds when the first block goes back is served by
   the cache that still lists that block (only the first free_memory call is followed here: it already decides) *)
Definition estep_clear_first_variant (rf ra : option N) (w : eworld) (o : eop) : eworld * eitem :=
  match o, ew_obj w with
  | EPop, Some (st, tab) =>
      match o_evs (snd (clear_all st)) with
      | EF id sz :: _ =>
          match olife rf st (ew_nx w) with
          | (_, nx', e) =>
              ({| ew_obj := None; ew_nx := nx'; ew_cur := FU; ew_tsv := ew_tsv w; ew_res := ew_res w |},
               mk_ei (XF who_U id sz :: e) None false)
          end
      | _ => estep rf ra w o
      end
  | _, _ => estep rf ra w o
  end.
Fixpoint erun_with (stp : eworld -> eop -> eworld * eitem) (w : eworld) (ops : list eop) : eobs :=
  match ops with
  | [] => match ew_obj w with Some _ => [snd (stp w EPop)] | None => [] end
  | o :: r => match stp w o with (w1, x) => x :: erun_with stp w1 r end
  end.
