(* C05 -- the invariant over all histories, the simulation of the model-free oracle [spec], and the content theorems *)
From Coq Require Import NArith PeanoNat Bool List Lia Permutation ZifyBool.
From CppUVerif Require Import gen.Gen_Common gen.Gen_C05 lib.Str C05_Model C05_Proofs.
Import ListNotations.
Local Open Scope N_scope.

(* ------------------------------------------------------------------ small list facts *)
Lemma list_eqb_refl l : list_eqb l l = true.
Proof. induction l as [|x l IH]; cbn [list_eqb]; [reflexivity|]. rewrite N.eqb_refl, IH. reflexivity. Qed.

Lemma nodup_app_intro {A} (a b : list A) : NoDup a -> NoDup b -> (forall x, In x a -> ~ In x b) -> NoDup (a ++ b).
Proof.
  induction a as [|x a IH]; cbn [app]; intros Ha Hb Hd; [exact Hb|].
  inversion Ha as [|? ? Hx Ha']; subst. constructor.
  - intro Hin. apply in_app_iff in Hin. destruct Hin as [Hin|Hin]; [exact (Hx Hin)|]. exact (Hd x (or_introl eq_refl) Hin).
  - apply IH; [exact Ha'|exact Hb|]. intros y Hy. apply Hd. right. exact Hy.
Qed.

Lemma length_firstn_le {A} (k : nat) (l : list A) : (k <= length l)%nat -> length (firstn k l) = k.
Proof. intro H. rewrite firstn_length. lia. Qed.

Lemma realloc_data_length old n : N.of_nat (length (realloc_data old n)) = n.
Proof.
  unfold realloc_data. rewrite app_length, repeat_length, firstn_length. lia.
Qed.

Lemma realloc_data_prefix old n :
  let k := N.to_nat (N.min (N.of_nat (length old)) n) in firstn k (realloc_data old n) = firstn k old.
Proof.
  cbv zeta. unfold realloc_data. set (k := N.to_nat (N.min (N.of_nat (length old)) n)).
  rewrite firstn_app. rewrite firstn_firstn. rewrite Nat.min_id.
  rewrite firstn_length. replace (k - Nat.min k (length old))%nat with 0%nat by (subst k; lia).
  cbn [firstn]. apply app_nil_r.
Qed.

(* ------------------------------------------------------------------ the invariant *)
Record inv (c : cfg) (idx : N) (s : st) : Prop := {
  i_err : s_err s = false;
  i_ids : Forall (fun b => b_id b < idx) (s_blocks s);
  i_nodup : NoDup (map b_id (s_blocks s));
  i_table : Permutation (s_table s) (map b_id (s_blocks s));
  i_regs : NoDup (flat_map regions_of (s_blocks s));
  i_regs_lt : Forall (fun r => r < s_calls s) (flat_map regions_of (s_blocks s));
  i_layout : Forall (block_layout_ok c) (s_blocks s);
  i_len : Forall (fun b => N.of_nat (length (b_data b)) = b_size b) (s_blocks s)
}.

Lemma inv_st0 c : inv c 0 st0.
Proof. split; cbn; try constructor; reflexivity. Qed.

Lemma inv_total c idx s : inv c idx s -> total s = count (liveof s).
Proof.
  intro H. unfold total, count, liveof. rewrite map_length. f_equal.
  rewrite (Permutation_length (i_table _ _ _ H)). apply map_length.
Qed.

Lemma inv_table_nodup c idx s : inv c idx s -> NoDup (s_table s).
Proof. intro H. eapply Permutation_NoDup; [apply Permutation_sym; exact (i_table _ _ _ H)|exact (i_nodup _ _ _ H)]. Qed.

Lemma inv_in_table c idx s b : inv c idx s -> In b (s_blocks s) -> In (b_id b) (s_table s).
Proof.
  intros H Hb. eapply Permutation_in; [apply Permutation_sym; exact (i_table _ _ _ H)|]. apply in_map. exact Hb.
Qed.

Lemma forall_flat_regions (P : N -> Prop) bs :
  Forall P (flat_map regions_of bs) <-> Forall (fun b => Forall P (regions_of b)) bs.
Proof.
  induction bs as [|b bs IH]; cbn [flat_map]; [split; constructor|].
  rewrite Forall_app. rewrite IH. split.
  - intros [H1 H2]. constructor; assumption.
  - intro H. inversion H; subst. split; assumption.
Qed.

(* a fresh block is added *)
Lemma inv_add c idx s s' b d :
  inv c idx s -> s_calls s <= s_calls s' -> s_err s' = s_err s ->
  s_blocks s' = b :: s_blocks s -> s_table s' = idx :: s_table s ->
  new_block_ok c s s' idx (b_fam b) (b_size b) d b -> N.of_nat (length d) = b_size b ->
  inv c (idx + 1) s'.
Proof.
  intros H Hc He Hb Ht (Hid & _ & _ & Hd & Hlay & Hnd & Hreg) Hlen.
  split.
  - rewrite He. exact (i_err _ _ _ H).
  - rewrite Hb. constructor; [lia|]. eapply Forall_impl; [|exact (i_ids _ _ _ H)]. cbv beta. intros; lia.
  - rewrite Hb. cbn [map]. constructor; [|exact (i_nodup _ _ _ H)].
    intro Hin. apply in_map_iff in Hin. destruct Hin as (b' & E & Hb').
    pose proof (i_ids _ _ _ H) as Hids. rewrite Forall_forall in Hids. specialize (Hids b' Hb'). cbv beta in Hids. lia.
  - rewrite Hb, Ht. cbn [map]. rewrite Hid. apply perm_skip. exact (i_table _ _ _ H).
  - rewrite Hb. cbn [flat_map]. apply nodup_app_intro; [exact Hnd|exact (i_regs _ _ _ H)|].
    intros r Hr Hr'. rewrite Forall_forall in Hreg. specialize (Hreg r Hr). cbv beta in Hreg.
    pose proof (i_regs_lt _ _ _ H) as Hlt. rewrite Forall_forall in Hlt. specialize (Hlt r Hr'). cbv beta in Hlt. lia.
  - rewrite Hb. cbn [flat_map]. apply Forall_app. split.
    + eapply Forall_impl; [|exact Hreg]. cbv beta. intros; lia.
    + eapply Forall_impl; [|exact (i_regs_lt _ _ _ H)]. cbv beta. intros; lia.
  - rewrite Hb. constructor; [exact Hlay|exact (i_layout _ _ _ H)].
  - rewrite Hb. constructor; [rewrite Hd; exact Hlen|exact (i_len _ _ _ H)].
Qed.

(* nothing changes but the call counter, and the table is rearranged *)
Lemma inv_same c idx s s' :
  inv c idx s -> s_calls s <= s_calls s' -> s_err s' = s_err s -> s_blocks s' = s_blocks s ->
  Permutation (s_table s') (s_table s) -> inv c (idx + 1) s'.
Proof.
  intros H Hc He Hb Ht. split; rewrite ?Hb.
  - rewrite He. exact (i_err _ _ _ H).
  - eapply Forall_impl; [|exact (i_ids _ _ _ H)]. cbv beta. intros; lia.
  - exact (i_nodup _ _ _ H).
  - eapply Permutation_trans; [exact Ht|exact (i_table _ _ _ H)].
  - exact (i_regs _ _ _ H).
  - eapply Forall_impl; [|exact (i_regs_lt _ _ _ H)]. cbv beta. intros; lia.
  - exact (i_layout _ _ _ H).
  - exact (i_len _ _ _ H).
Qed.

(* block i is taken out *)
Lemma inv_remove c idx s i : inv c idx s ->
  inv c idx {| s_calls := s_calls s; s_blocks := remove_block i (s_blocks s); s_table := remove_id i (s_table s); s_err := s_err s |}.
Proof.
  intro H. split; cbn [s_calls s_blocks s_table s_err].
  - exact (i_err _ _ _ H).
  - apply forall_remove_block. exact (i_ids _ _ _ H).
  - rewrite ids_remove. apply nodup_remove_id. exact (i_nodup _ _ _ H).
  - rewrite ids_remove. apply perm_filter. exact (i_table _ _ _ H).
  - apply nodup_flat_remove. exact (i_regs _ _ _ H).
  - apply Forall_forall. intros r Hr. apply regions_remove_incl in Hr.
    pose proof (i_regs_lt _ _ _ H) as Hlt. rewrite Forall_forall in Hlt. exact (Hlt r Hr).
  - apply forall_remove_block. exact (i_layout _ _ _ H).
  - apply forall_remove_block. exact (i_len _ _ _ H).
Qed.

Lemma inv_weaken c idx idx' s : inv c idx s -> idx <= idx' -> inv c idx' s.
Proof.
  intros H Hle. split; try (destruct H; assumption).
  eapply Forall_impl; [|exact (i_ids _ _ _ H)]. cbv beta. intros; lia.
Qed.

(* a block is replaced by a new one (successful realloc) *)
Lemma inv_replace c idx s s' i b d :
  inv c idx s -> s_calls s <= s_calls s' -> s_err s' = s_err s ->
  s_blocks s' = b :: remove_block i (s_blocks s) -> s_table s' = idx :: remove_id i (s_table s) ->
  new_block_ok c s s' idx (b_fam b) (b_size b) d b -> N.of_nat (length d) = b_size b ->
  inv c (idx + 1) s'.
Proof.
  intros H Hc He Hb Ht Hnew Hlen.
  pose proof (inv_remove c idx s i H) as H1.
  set (s1 := {| s_calls := s_calls s; s_blocks := remove_block i (s_blocks s); s_table := remove_id i (s_table s); s_err := s_err s |}) in *.
  apply (inv_add c idx s1 s' b d H1); try assumption.
Qed.

(* ------------------------------------------------------------------ the oracle accepts what an allocation-like request observes *)
(* what the oracle asks of a call log with the wrappers installed follows from what it asks without them *)
Lemma hard_failed_none cs : any_failed cs = false -> hard_failed cs = false.
Proof.
  unfold any_failed, hard_failed. induction cs as [|x cs IH]; cbn [existsb]; [reflexivity|].
  intro H. apply orb_false_iff in H. destruct H as [H1 H2]. rewrite H1, (IH H2). reflexivity.
Qed.

Lemma stat_got_le cs : stat_got cs <= got cs.
Proof.
  unfold stat_got, got. induction cs as [|x cs IH]; cbn [filter length]; [lia|].
  unfold is_stat at 1. destruct x as [[k sz] ok]. cbn [fst snd].
  destruct (N.eqb_spec k 0) as [E|E]; cbn [andb].
  - subst k. cbn [N.eqb negb andb]. destruct ((sz =? c05_accountant_node_size) && ok) eqn:E1.
    + apply andb_true_iff in E1. destruct E1 as [_ ->]. cbn [length]. lia.
    + destruct ok; cbn [length]; lia.
  - destruct (negb (k =? 2) && ok); cbn [length]; lia.
Qed.

Lemma wbalanced_of_balanced cs : balanced cs = true -> wbalanced cs = true.
Proof.
  unfold balanced, wbalanced. intro H. apply N.eqb_eq in H. pose proof (stat_got_le cs).
  apply andb_true_iff. split; apply N.leb_le; lia.
Qed.

Lemma spec_alloc_null w c throwing n content before after_ok fd s' cs :
  calls_ok c n cs = true -> (any_failed cs = true \/ too_big c n = true) -> balanced cs = true -> total s' = before ->
  spec_alloc w c throwing n content before after_ok fd (snd (obs_of_alloc c throwing (ANull, s', cs) fd)) = true.
Proof.
  intros Hc Hf Hb Ht. unfold spec_alloc, obs_of_alloc, mk_oobs. cbn [snd o_rep o_calls o_kind o_total o_dig].
  assert (Hf' : any_failed cs || too_big c n = true) by (apply orb_true_iff; exact Hf).
  rewrite Hc, Hf', Hb, (wbalanced_of_balanced _ Hb), Ht, !N.eqb_refl, list_eqb_refl, !orb_true_r. destruct throwing, w; reflexivity.
Qed.

Lemma spec_alloc_block w c throwing n content before after_ok fd s' cs b :
  calls_ok c n cs = true -> any_failed cs = false -> n < W -> block_layout_ok c b -> b_size b = n -> b_data b = content tt ->
  total s' = after_ok ->
  spec_alloc w c throwing n content before after_ok fd (snd (obs_of_alloc c throwing (ABlock b, s', cs) fd)) = true.
Proof.
  intros Hc Hf Hn (Hreq & Hlay) Hsz Hd Ht. unfold spec_alloc, obs_of_alloc, mk_oobs, layout_ok.
  cbn [snd o_rep o_calls o_kind o_total o_dig o_nk o_nv o_off o_req o_amod o_ovl].
  rewrite Hc, Hf, (hard_failed_none _ Hf), Ht, Hd, !N.eqb_refl, list_eqb_refl, orb_true_r. apply N.ltb_lt in Hn. rewrite Hn.
  change (K_PTR =? K_PTR) with true. replace (if w then false else false) with false by (destruct w; reflexivity). cbn [negb andb].
  destruct (b_sep b).
  - rewrite Hsz in Hlay. replace (0 + n + G c <=? b_req b) with true by (symmetry; apply N.leb_le; lia).
    rewrite N.leb_refl. reflexivity.
  - destruct Hlay as (H1 & H2 & H3). rewrite Hsz in H1.
    replace (0 + n + G c <=? b_node b) with true by (symmetry; apply N.leb_le; lia).
    replace (b_node b + node_size c <=? b_req b) with true by (symmetry; apply N.leb_le; lia).
    rewrite H2. reflexivity.
Qed.

Definition fresh_res (w : bool) (c : cfg) (throwing : bool) (l : live) (idx fam n : N) (content : unit -> list N) (ob : oobs) : option live :=
  if spec_alloc w c throwing n content (count l) (count l + 1) [] ob
  then Some (if o_kind ob =? K_PTR then (idx, fam, content tt) :: l else l) else None.

Lemma kind_null c throwing s' cs fd : o_kind (snd (obs_of_alloc c throwing (ANull, s', cs) fd)) =? K_PTR = false.
Proof. destruct throwing; reflexivity. Qed.

(* a request for a fresh block: invariant kept, oracle satisfied, abstract live set follows *)
Lemma fresh_ok w c throwing s idx fam n content r :
  inv c idx s -> n < W -> alloc_post c s idx fam n (content tt) r -> N.of_nat (length (content tt)) = n ->
  inv c (idx + 1) (fst (obs_of_alloc c throwing r [])) /\
  fresh_res w c throwing (liveof s) idx fam n content (snd (obs_of_alloc c throwing r [])) = Some (liveof (fst (obs_of_alloc c throwing r []))).
Proof.
  intros H Hn Hp Hlen. destruct r as [[a s'] cs]. unfold alloc_post in Hp. destruct Hp as (Hco & Hcalls & Herr & Hp).
  unfold fresh_res. destruct a as [| |b].
  - destruct Hp as (Hf & Hb & Ht & _ & Hbal). split.
    + cbn [obs_of_alloc fst]. apply (inv_same c idx s s' H Hcalls Herr Hb). rewrite Ht. apply Permutation_refl.
    + rewrite spec_alloc_null; try assumption.
      * rewrite kind_null. cbn [obs_of_alloc fst]. unfold liveof. rewrite Hb. reflexivity.
      * unfold total. rewrite Ht. apply (inv_total c idx s H).
  - destruct Hp.
  - destruct Hp as (Hf & Hb & Ht & Hnew). pose proof Hnew as (Hid & Hfam & Hsz & Hd & Hlay & _). split.
    + cbn [obs_of_alloc fst]. apply (inv_add c idx s s' b (content tt) H Hcalls Herr Hb Ht).
      * rewrite Hfam, Hsz. exact Hnew.
      * rewrite Hsz. exact Hlen.
    + rewrite spec_alloc_block; try assumption.
      * cbn [obs_of_alloc snd fst mk_oobs o_kind]. change (K_PTR =? K_PTR) with true. cbv iota.
        unfold liveof. rewrite Hb. cbn [map]. change (proj b) with (b_id b, b_fam b, b_data b). rewrite Hid, Hfam, Hd. reflexivity.
      * unfold total. rewrite Ht. cbn [length]. rewrite <- (inv_total c idx s H). unfold total. lia.
Qed.

(* ------------------------------------------------------------------ the C wrappers reduce to one allocation *)
Lemma strdup_alloc_fixed c f s idx str size :
  strdup_alloc fixed c f s idx str size =
  alloc_mem fixed c f s idx 0 true size (fun _ => set_last (firstn (N.to_nat size) (cut_nul str ++ [0])) 0).
Proof.
  unfold strdup_alloc.
  destruct (alloc_mem fixed c f s idx 0 true size (fun _ => set_last (firstn (N.to_nat size) (cut_nul str ++ [0])) 0)) as [[a s'] cs].
  destruct a; reflexivity.
Qed.

Lemma set_last_snoc l x y : set_last (l ++ [x]) y = l ++ [y].
Proof.
  unfold set_last. destruct (l ++ [x]) eqn:E.
  - destruct l; discriminate E.
  - rewrite <- E. rewrite removelast_last. reflexivity.
Qed.

Lemma firstn_succ_snoc (k : nat) (l : list N) : (k < length l)%nat -> exists x, firstn (S k) l = firstn k l ++ [x].
Proof.
  revert l. induction k as [|k IH]; intros l H.
  - destruct l as [|a l]; [cbn in H; lia|]. exists a. reflexivity.
  - destruct l as [|a l]; [cbn in H; lia|]. cbn [length] in H. destruct (IH l ltac:(lia)) as (x & E).
    exists x. change (firstn (S (S k)) (a :: l)) with (a :: firstn (S k) l). rewrite E. reflexivity.
Qed.

Lemma strdup_content (s : list N) :
  set_last (firstn (N.to_nat (1 + N.of_nat (length s))) (s ++ [0])) 0 = s ++ [0].
Proof.
  rewrite firstn_all2 by (rewrite app_length; cbn [length]; lia). apply set_last_snoc.
Qed.

Lemma strndup_content (s : list N) (m : N) : m <= N.of_nat (length s) ->
  set_last (firstn (N.to_nat (m + 1)) (s ++ [0])) 0 = firstn (N.to_nat m) s ++ [0].
Proof.
  intro Hm. destruct (N.eq_dec m (N.of_nat (length s))) as [E|E].
  - rewrite firstn_all2 by (rewrite app_length; cbn [length]; lia).
    rewrite firstn_all2 by lia. apply set_last_snoc.
  - rewrite firstn_app. replace (N.to_nat (m + 1) - length s)%nat with 0%nat by lia. cbn [firstn]. rewrite app_nil_r.
    replace (N.to_nat (m + 1)) with (S (N.to_nat m)) by lia.
    destruct (firstn_succ_snoc (N.to_nat m) s ltac:(lia)) as (x & Ex). rewrite Ex. apply set_last_snoc.
Qed.

Lemma cut_nul_length s : (length (cut_nul s) <= length s)%nat.
Proof. induction s as [|a s IH]; cbn [cut_nul length]; [lia|]. destruct (a =? 0); cbn [length]; lia. Qed.

Lemma calloc_overflow num size : negb (size =? 0) && ((W - 1) / size <? num) = true -> W <= num * size.
Proof.
  intro H. apply andb_true_iff in H. destruct H as [H1 H2]. apply negb_true_iff in H1. apply N.eqb_neq in H1. apply N.ltb_lt in H2.
  pose proof (N.div_mod (W - 1) size H1) as Hd. pose proof (N.mod_upper_bound (W - 1) size H1) as Hm.
  set (q := (W - 1) / size) in *. set (r := (W - 1) mod size) in *.
  assert (Hq : (q + 1) * size <= num * size) by (apply N.mul_le_mono_r; lia).
  pose proof W_val. lia.
Qed.

Lemma calloc_no_overflow num size : negb (size =? 0) && ((W - 1) / size <? num) = false -> num * size < W.
Proof.
  intro H. apply andb_false_iff in H. destruct H as [H|H].
  - apply negb_false_iff in H. apply N.eqb_eq in H. subst size. rewrite N.mul_0_r. reflexivity.
  - apply N.ltb_ge in H. destruct (N.eq_dec size 0) as [E|E]; [subst size; rewrite N.mul_0_r; reflexivity|].
    pose proof (N.div_mod (W - 1) size E) as Hd. pose proof (N.mod_upper_bound (W - 1) size E) as Hm.
    set (q := (W - 1) / size) in *. set (r := (W - 1) mod size) in *.
    assert (Hq : num * size <= q * size) by (apply N.mul_le_mono_r; lia).
    pose proof W_val. lia.
Qed.

(* ------------------------------------------------------------------ realloc *)
Lemma realloc_data_nil n : realloc_data [] n = repeat RFILL (N.to_nat n).
Proof.
  unfold realloc_data. cbn [length N.of_nat]. rewrite N.min_0_l. cbn [N.to_nat firstn app]. rewrite N.sub_0_r. reflexivity.
Qed.

Lemma realloc_post_none c s idx n r :
  realloc_post c s idx None n r -> alloc_post c s idx 0 n (repeat RFILL (N.to_nat n)) r.
Proof.
  destruct r as [[a s'] cs]. unfold realloc_post, alloc_post. intros (H1 & H2 & H3 & H4). repeat split; try assumption.
  destruct a as [| |b].
  - destruct H4 as (A & B & C & D & E). repeat split; try assumption; try (apply D; assumption).
    destruct C as [C|(b & C & _)]; [exact C|discriminate C].
  - exact H4.
  - rewrite realloc_data_nil in H4. exact H4.
Qed.

Lemma realloc_ok w c s idx b0 n r :
  inv c idx s -> n < W -> In b0 (s_blocks s) -> realloc_post c s idx (Some b0) n r ->
  inv c (idx + 1) (fst (obs_of_alloc c false r (digest (b_data b0)))) /\
  spec_alloc w c false n (fun _ => realloc_data (b_data b0) n) (count (liveof s)) (count (liveof s)) (digest (b_data b0))
             (snd (obs_of_alloc c false r (digest (b_data b0)))) = true /\
  liveof (fst (obs_of_alloc c false r (digest (b_data b0)))) =
    (if o_kind (snd (obs_of_alloc c false r (digest (b_data b0)))) =? K_PTR
     then (idx, 0, realloc_data (b_data b0) n) :: l_remove (b_id b0) (liveof s) else liveof s).
Proof.
  intros H Hn Hin Hp. destruct r as [[a s'] cs]. unfold realloc_post in Hp. destruct Hp as (Hco & Hcalls & Herr & Hp).
  pose proof (inv_table_nodup c idx s H) as Hnd. pose proof (inv_in_table c idx s b0 H Hin) as Hit.
  destruct a as [| |b].
  - destruct Hp as (Hf & Hb & Ht & _ & Hbal).
    assert (Hperm : Permutation (s_table s') (s_table s)).
    { destruct Ht as [Ht|(b & E & Ht)]; [rewrite Ht; apply Permutation_refl|]. injection E as E. subst b. rewrite Ht. apply perm_readd; assumption. }
    split; [|split].
    + cbn [obs_of_alloc fst]. exact (inv_same c idx s s' H Hcalls Herr Hb Hperm).
    + apply spec_alloc_null; try assumption. unfold total. rewrite (Permutation_length Hperm). apply (inv_total c idx s H).
    + rewrite kind_null. cbn [obs_of_alloc fst]. unfold liveof. rewrite Hb. reflexivity.
  - destruct Hp.
  - destruct Hp as (Hf & Hb & Ht & Hnew). pose proof Hnew as (Hid & Hfam & Hsz & Hd & Hlay & _). split; [|split].
    + cbn [obs_of_alloc fst]. apply (inv_replace c idx s s' (b_id b0) b (realloc_data (b_data b0) n) H Hcalls Herr Hb Ht).
      * rewrite Hfam, Hsz. exact Hnew.
      * rewrite Hsz. apply realloc_data_length.
    + apply spec_alloc_block; try assumption.
      unfold total. rewrite Ht. rewrite <- (inv_total c idx s H). unfold total.
      rewrite <- (length_readd (b_id b0) (s_table s) Hnd Hit). reflexivity.
    + cbn [obs_of_alloc snd fst mk_oobs o_kind]. change (K_PTR =? K_PTR) with true. cbv iota.
      unfold liveof. rewrite Hb. cbn [map]. change (proj b) with (b_id b, b_fam b, b_data b). rewrite Hid, Hfam, Hd.
      rewrite l_remove_proj. reflexivity.
Qed.

(* ------------------------------------------------------------------ free and write *)
Lemma same_id_same_block bs b b' : NoDup (map b_id bs) -> In b bs -> In b' bs -> b_id b = b_id b' -> b = b'.
Proof.
  induction bs as [|x bs IH]; intros Hn H1 H2 E; [destruct H1|].
  cbn [map] in Hn. inversion Hn as [|? ? Hx Hn']; subst.
  destruct H1 as [H1|H1], H2 as [H2|H2]; subst.
  - reflexivity.
  - exfalso. apply Hx. rewrite E. apply in_map. exact H2.
  - exfalso. apply Hx. rewrite <- E. apply in_map. exact H1.
  - apply IH; assumption.
Qed.

Definition set_data (d : list N) (b : block) : block :=
  {| b_id := b_id b; b_fam := b_fam b; b_size := b_size b; b_data := d; b_region := b_region b; b_req := b_req b; b_sep := b_sep b; b_node := b_node b |}.

Lemma update_block_map i d bs : update_block i d bs = map (fun b => if b_id b =? i then set_data d b else b) bs.
Proof. reflexivity. Qed.

Lemma regions_update i d bs : flat_map regions_of (update_block i d bs) = flat_map regions_of bs.
Proof.
  rewrite update_block_map. induction bs as [|b bs IH]; cbn [map flat_map]; [reflexivity|]. rewrite IH. f_equal.
  destruct (b_id b =? i); reflexivity.
Qed.

Lemma forall_update (P : block -> Prop) i d bs :
  Forall P bs -> (forall b, In b bs -> b_id b = i -> P (set_data d b)) -> Forall P (update_block i d bs).
Proof.
  intros H Hs. rewrite update_block_map. apply Forall_forall. intros x Hx. apply in_map_iff in Hx. destruct Hx as (b & E & Hb).
  rewrite Forall_forall in H. destruct (N.eqb_spec (b_id b) i) as [Ei|Ei]; subst x; [apply Hs; assumption|apply H; assumption].
Qed.

Lemma write_at_length d off bytes : (N.to_nat off + length bytes <= length d)%nat -> length (write_at d off bytes) = length d.
Proof.
  intro H. unfold write_at. rewrite !app_length, firstn_length, skipn_length. lia.
Qed.

Lemma inv_write c idx s b off bytes :
  inv c idx s -> In b (s_blocks s) -> off + N.of_nat (length bytes) <= b_size b ->
  inv c idx {| s_calls := s_calls s; s_blocks := update_block (b_id b) (write_at (b_data b) off bytes) (s_blocks s);
               s_table := s_table s; s_err := s_err s |}.
Proof.
  intros H Hin Hle. split; cbn [s_calls s_blocks s_table s_err].
  - exact (i_err _ _ _ H).
  - apply forall_update; [exact (i_ids _ _ _ H)|]. intros b' Hb' E. cbn [set_data b_id].
    pose proof (i_ids _ _ _ H) as Hi. rewrite Forall_forall in Hi. exact (Hi b' Hb').
  - rewrite ids_update. exact (i_nodup _ _ _ H).
  - rewrite ids_update. exact (i_table _ _ _ H).
  - rewrite regions_update. exact (i_regs _ _ _ H).
  - rewrite regions_update. exact (i_regs_lt _ _ _ H).
  - apply forall_update; [exact (i_layout _ _ _ H)|]. intros b' Hb' E.
    pose proof (i_layout _ _ _ H) as Hi. rewrite Forall_forall in Hi. exact (Hi b' Hb').
  - apply forall_update; [exact (i_len _ _ _ H)|]. intros b' Hb' E. cbn [set_data b_data b_size].
    assert (b' = b) by (apply (same_id_same_block (s_blocks s)); try assumption; exact (i_nodup _ _ _ H)). subst b'.
    pose proof (i_len _ _ _ H) as Hi. rewrite Forall_forall in Hi. specialize (Hi b Hin). cbv beta in Hi.
    rewrite write_at_length by lia. exact Hi.
Qed.

Lemma skip_ok c idx s : inv c idx s -> spec_skip (liveof s) (skip_obs s) = true.
Proof.
  intro H. unfold spec_skip, skip_obs, mk_oobs. cbn [o_kind o_total o_rep]. rewrite (inv_total c idx s H), !N.eqb_refl. reflexivity.
Qed.

(* ------------------------------------------------------------------ one operation *)
Lemma ltb_W n : n <? W = true -> n < W.
Proof. apply N.ltb_lt. Qed.

Lemma length_table_remove c idx s b : inv c idx s -> In b (s_blocks s) ->
  N.of_nat (length (remove_id (b_id b) (s_table s))) + 1 = count (liveof s).
Proof.
  intros H Hin. rewrite <- (inv_total c idx s H). unfold total.
  rewrite <- (length_readd (b_id b) (s_table s) (inv_table_nodup c idx s H) (inv_in_table c idx s b H Hin)). cbn [length]. lia.
Qed.

Lemma l_find_live i s : l_find i (liveof s) = option_map (fun b => (b_fam b, b_data b)) (find_block i (s_blocks s)).
Proof. apply l_find_proj. Qed.

Lemma step_ok w c f s idx o : valid_cfg c = true -> valid_op o = true -> inv c idx s ->
  inv c (idx + 1) (fst (step fixed c f s idx o)) /\
  spec_step w c (liveof s) idx o (snd (step fixed c f s idx o)) = Some (liveof (fst (step fixed c f s idx o))).
Proof.
  intros Hc Hv H. destruct o as [n|n|num size|[i|] n|str|str k|arr throwing n|i|i off bytes]; cbn [valid_op] in Hv.
  - (* malloc *) apply ltb_W in Hv. cbn [step].
    change (spec_step w c (liveof s) idx (OMalloc n)) with (fresh_res w c false (liveof s) idx 0 n (fun _ => repeat FILL (N.to_nat n))).
    apply fresh_ok; try assumption.
    + apply (alloc_mem_post c f s idx 0 true n (fun _ => repeat FILL (N.to_nat n))); assumption.
    + rewrite repeat_length. lia.
  - (* detector-level allocMemory *) apply ltb_W in Hv. cbn [step].
    change (spec_step w c (liveof s) idx (ODetAlloc n)) with (fresh_res w c false (liveof s) idx 0 n (fun _ => repeat FILL (N.to_nat n))).
    apply fresh_ok; try assumption.
    + apply (alloc_mem_post c f s idx 0 false n (fun _ => repeat FILL (N.to_nat n))); assumption.
    + rewrite repeat_length. lia.
  - (* calloc *) cbn [step].
    change (spec_step w c (liveof s) idx (OCalloc num size))
      with (fresh_res w c false (liveof s) idx 0 (num * size) (fun _ => repeat 0 (N.to_nat (num * size)))).
    unfold calloc_mem. cbn [v_calloc fixed andb].
    destruct (negb (size =? 0) && ((W - 1) / size <? num)) eqn:Ho.
    + apply calloc_overflow in Ho. cbn [obs_of_alloc fst snd]. split.
      * apply (inv_weaken c idx (idx + 1) s H). lia.
      * unfold fresh_res.
        pose proof (spec_alloc_null w c false (num * size) (fun _ => repeat 0 (N.to_nat (num * size))) (count (liveof s)) (count (liveof s) + 1) [] s []) as Hs.
        cbn [obs_of_alloc snd] in Hs. rewrite Hs; try reflexivity.
        -- right. unfold too_big. apply N.leb_le. lia.
        -- apply (inv_total c idx s H).
    + apply calloc_no_overflow in Ho. rewrite (wrap_small _ Ho).
      apply fresh_ok; try assumption.
      * apply (alloc_mem_post c f s idx 0 true (num * size) (fun _ => repeat 0 (N.to_nat (num * size)))); assumption.
      * rewrite repeat_length. lia.
  - (* realloc of a block *) apply ltb_W in Hv. cbn [step].
    unfold spec_step. rewrite l_find_live.
    destruct (find_block i (s_blocks s)) as [b0|] eqn:Hfind; cbn [option_map].
    + apply find_block_some in Hfind. destruct Hfind as [Hin Hid].
      destruct (b_fam b0) as [|p] eqn:Hfam.
      * cbn [N.eqb]. change (realloc_mem fixed) with (realloc_new fixed).
        destruct (realloc_ok w c s idx b0 n (realloc_new fixed c f s idx (Some b0) n) H Hv Hin (realloc_new_post c f s idx (Some b0) n Hc Hv))
          as (H1 & H2 & H3).
        split; [exact H1|]. rewrite H2, H3, Hid. reflexivity.
      * cbn [N.eqb fst snd]. split; [apply (inv_weaken c idx (idx + 1) s H); lia|]. rewrite (skip_ok c idx s H). reflexivity.
    + cbn [fst snd]. split; [apply (inv_weaken c idx (idx + 1) s H); lia|]. rewrite (skip_ok c idx s H). reflexivity.
  - (* realloc(NULL, n) *) apply ltb_W in Hv. cbn [step].
    change (spec_step w c (liveof s) idx (ORealloc None n)) with (fresh_res w c false (liveof s) idx 0 n (fun _ => repeat RFILL (N.to_nat n))).
    change (realloc_mem fixed) with (realloc_new fixed).
    apply fresh_ok; try assumption.
    + apply realloc_post_none. apply realloc_new_post; assumption.
    + rewrite repeat_length. lia.
  - (* strdup *) apply andb_true_iff in Hv. destruct Hv as [_ Hl]. apply N.ltb_lt in Hl. cbn [step].
    pose proof (cut_nul_length str) as Hcl.
    change (spec_step w c (liveof s) idx (OStrdup str))
      with (fresh_res w c false (liveof s) idx 0 (N.of_nat (length (cut_nul str)) + 1) (fun _ => cut_nul str ++ [0])).
    unfold strdup_mem. rewrite strdup_alloc_fixed. unfold strlen.
    assert (Hw : 1 + N.of_nat (length (cut_nul str)) < W) by (rewrite W_val; lia).
    rewrite (wrap_small _ Hw). replace (N.of_nat (length (cut_nul str)) + 1) with (1 + N.of_nat (length (cut_nul str))) by lia.
    rewrite strdup_content.
    apply fresh_ok; try assumption.
    + apply (alloc_mem_post c f s idx 0 true (1 + N.of_nat (length (cut_nul str))) (fun _ => cut_nul str ++ [0]) Hc Hw).
    + rewrite app_length. cbn [length]. lia.
  - (* strndup *) apply andb_true_iff in Hv. destruct Hv as [Hv Hk]. apply andb_true_iff in Hv. destruct Hv as [_ Hl].
    apply N.ltb_lt in Hl. apply ltb_W in Hk. cbn [step].
    pose proof (cut_nul_length str) as Hcl.
    set (m := N.min (N.of_nat (length (cut_nul str))) k).
    change (spec_step w c (liveof s) idx (OStrndup str k))
      with (fresh_res w c false (liveof s) idx 0 (m + 1) (fun _ => firstn (N.to_nat m) (cut_nul str) ++ [0])).
    unfold strndup_mem. rewrite strdup_alloc_fixed. unfold strlen.
    assert (Em : (if N.of_nat (length (cut_nul str)) <? k then N.of_nat (length (cut_nul str)) else k) = m).
    { subst m. destruct (N.ltb_spec (N.of_nat (length (cut_nul str))) k); lia. }
    rewrite Em.
    assert (Hm : m <= N.of_nat (length (cut_nul str))) by (subst m; lia).
    assert (Hw : m + 1 < W) by (rewrite W_val; lia).
    rewrite (wrap_small _ Hw). rewrite (strndup_content _ _ Hm).
    apply fresh_ok; try assumption.
    + apply (alloc_mem_post c f s idx 0 true (m + 1) (fun _ => firstn (N.to_nat m) (cut_nul str) ++ [0]) Hc Hw).
    + rewrite app_length, firstn_length. cbn [length]. lia.
  - (* operator new variants *) apply ltb_W in Hv. cbn [step].
    change (spec_step w c (liveof s) idx (ONew arr throwing n))
      with (fresh_res w c throwing (liveof s) idx (if arr then 2 else 1) n (fun _ => repeat FILL (N.to_nat n))).
    apply fresh_ok; try assumption.
    + apply (alloc_mem_post c f s idx (if arr then 2 else 1) false n (fun _ => repeat FILL (N.to_nat n))); assumption.
    + rewrite repeat_length. lia.
  - (* free *) cbn [step]. unfold spec_step. rewrite l_find_live.
    destruct (find_block i (s_blocks s)) as [b|] eqn:Hfind; cbn [option_map].
    + apply find_block_some in Hfind. destruct Hfind as [Hin Hid].
      unfold release. rewrite (proj2 (mem_in _ _) (inv_in_table c idx s b H Hin)). cbn [fst snd mk_oobs o_kind o_rep o_total].
      split.
      * apply (inv_weaken c idx (idx + 1)); [|lia]. apply inv_remove. exact H.
      * unfold total. cbn [s_table]. rewrite (length_table_remove c idx s b H Hin), !N.eqb_refl.
        change (K_VOID =? K_VOID) with true. cbn [andb N.eqb]. unfold liveof. cbn [s_blocks]. rewrite l_remove_proj, Hid. reflexivity.
    + cbn [fst snd]. split; [apply (inv_weaken c idx (idx + 1) s H); lia|]. rewrite (skip_ok c idx s H). reflexivity.
  - (* write into a live block *) cbn [step]. unfold spec_step. rewrite l_find_live.
    destruct (find_block i (s_blocks s)) as [b|] eqn:Hfind; cbn [option_map].
    + apply find_block_some in Hfind. destruct Hfind as [Hin Hid].
      pose proof (i_len _ _ _ H) as Hlen. rewrite Forall_forall in Hlen. specialize (Hlen b Hin). cbv beta in Hlen. rewrite Hlen.
      destruct ((off <=? b_size b) && (N.of_nat (length bytes) <=? b_size b - off)) eqn:Hfit.
      * cbn [fst snd mk_oobs o_kind o_rep o_total]. apply andb_true_iff in Hfit. destruct Hfit as [F1 F2].
        apply N.leb_le in F1. apply N.leb_le in F2. split.
        -- apply (inv_weaken c idx (idx + 1)); [|lia]. rewrite <- Hid. apply inv_write; try assumption. lia.
        -- unfold total. cbn [s_table]. fold (total s). rewrite (inv_total c idx s H), !N.eqb_refl.
           change (K_VOID =? K_VOID) with true. cbn [andb N.eqb]. unfold liveof. cbn [s_blocks]. rewrite l_update_proj. reflexivity.
      * cbn [fst snd]. split; [apply (inv_weaken c idx (idx + 1) s H); lia|]. rewrite (skip_ok c idx s H). reflexivity.
    + cbn [fst snd]. split; [apply (inv_weaken c idx (idx + 1) s H); lia|]. rewrite (skip_ok c idx s H). reflexivity.
Qed.

(* ------------------------------------------------------------------ all histories *)
Lemma steps_ok w c f ops : valid_cfg c = true -> forall s idx, forallb valid_op ops = true -> inv c idx s ->
  inv c (idx + N.of_nat (length ops)) (fst (steps fixed c f s idx ops)) /\
  forall e, spec_steps w c (liveof s) idx ops (snd (steps fixed c f s idx ops)) e = end_eqb (liveof (fst (steps fixed c f s idx ops))) e.
Proof.
  intro Hc. induction ops as [|o r IH]; intros s idx Hv H.
  - cbn [steps fst snd length N.of_nat spec_steps]. rewrite N.add_0_r. split; [exact H|reflexivity].
  - cbn [forallb] in Hv. apply andb_true_iff in Hv. destruct Hv as [Hv Hr].
    destruct (step_ok w c f s idx o Hc Hv H) as [H1 S1].
    cbn [steps]. destruct (step fixed c f s idx o) as [s1 ob]. cbn [fst snd] in H1, S1.
    destruct (IH s1 (idx + 1) Hr H1) as [H2 S2].
    destruct (steps fixed c f s1 (idx + 1) r) as [s2 obs]. cbn [fst snd] in H2, S2 |- *.
    split.
    + replace (idx + N.of_nat (length (o :: r))) with (idx + 1 + N.of_nat (length r)) by (cbn [length]; lia). exact H2.
    + intro e. cbn [spec_steps]. rewrite S1. apply S2.
Qed.

(* the invariant holds after every history (the induction the disjointness theorem rests on) *)
Lemma history_inv c f ops : valid_cfg c = true -> forallb valid_op ops = true ->
  inv c (N.of_nat (length ops)) (fst (steps fixed c f st0 0 ops)).
Proof.
  intros Hc Hv. destruct (steps_ok false c f ops Hc st0 0 Hv (inv_st0 c)) as [H _]. rewrite N.add_0_l in H. exact H.
Qed.

Lemma end_eqb_live bs : end_eqb (map proj bs) (map (fun b => (b_id b, digest (b_data b))) bs) = true.
Proof.
  induction bs as [|b bs IH]; cbn [map end_eqb]; [reflexivity|].
  cbn [proj fst snd]. rewrite N.eqb_refl, list_eqb_refl, IH. reflexivity.
Qed.

Lemma remove_id_in_iff i j t : In j (remove_id i t) <-> In j t /\ j <> i.
Proof.
  unfold remove_id. rewrite filter_In. split; intros [A B]; (split; [exact A|]).
  - destruct (N.eqb_spec j i); [discriminate B|assumption].
  - destruct (N.eqb_spec j i); [contradiction|reflexivity].
Qed.

(* releasing every remaining block: each is still tracked, so no report, and the table ends empty *)
Lemma release_all_ok bs : forall s rep, NoDup (map b_id bs) -> (forall i, In i (s_table s) <-> In i (map b_id bs)) ->
  s_table (fst (release_all s bs rep)) = [] /\ snd (release_all s bs rep) = rep.
Proof.
  induction bs as [|b r IH]; intros s rep Hn Hiff.
  - cbn [release_all fst snd]. split; [|reflexivity]. destruct (s_table s) as [|x t]; [reflexivity|].
    exfalso. apply (proj1 (Hiff x)). left. reflexivity.
  - cbn [release_all]. unfold release.
    assert (Hm : mem (b_id b) (s_table s) = true) by (apply mem_in; apply Hiff; left; reflexivity).
    rewrite Hm. cbn [map] in Hn. inversion Hn as [|? ? Hx Hn']; subst.
    set (s1 := {| s_calls := s_calls s; s_blocks := remove_block (b_id b) (s_blocks s); s_table := remove_id (b_id b) (s_table s); s_err := s_err s |}).
    destruct (IH s1 (rep + 0) Hn') as [A B].
    + intro i. subst s1. cbn [s_table]. rewrite remove_id_in_iff, Hiff. cbn [map In]. split.
      * intros [[E|E] Hne]; [congruence|exact E].
      * intro E. split; [right; exact E|]. intro; subst i. exact (Hx E).
    + split; [exact A|]. rewrite B. lia.
Qed.

(* ... and none of them keeps a region of the underlying allocator *)
Lemma leak_all_ok bs : forall s acc, NoDup (map b_id bs) -> (forall i, In i (s_table s) <-> In i (map b_id bs)) -> leak_all s bs acc = acc.
Proof.
  induction bs as [|b r IH]; intros s acc Hn Hiff; [reflexivity|].
  cbn [leak_all]. unfold release.
  assert (Hm : mem (b_id b) (s_table s) = true) by (apply mem_in; apply Hiff; left; reflexivity).
  rewrite Hm. cbn [map] in Hn. inversion Hn as [|? ? Hx Hn']; subst.
  set (s1 := {| s_calls := s_calls s; s_blocks := remove_block (b_id b) (s_blocks s); s_table := remove_id (b_id b) (s_table s); s_err := s_err s |}).
  rewrite (IH s1 (acc + 0 * (if b_sep b then 2 else 1)) Hn'); [lia|].
  intro i. subst s1. cbn [s_table]. rewrite remove_id_in_iff, Hiff. cbn [map In]. split.
  - intros [[E|E] Hne]; [congruence|exact E].
  - intro E. split; [right; exact E|]. intro; subst i. exact (Hx E).
Qed.

Lemma run_meets_spec : forall sc, valid sc = true -> spec sc (run sc) = true.
Proof.
  intros sc Hv. unfold valid in Hv.
  apply andb_true_iff in Hv. destruct Hv as [Hc Hops].
  destruct (steps_ok (sc_wrap sc) (sc_cfg sc) (sc_fail sc) (sc_ops sc) Hc st0 0 Hops (inv_st0 _)) as [H S].
  unfold run, run_v, spec.
  destruct (steps fixed (sc_cfg sc) (sc_fail sc) st0 0 (sc_ops sc)) as [s os]. cbn [fst snd] in H, S.
  assert (Hiff : forall i, In i (s_table s) <-> In i (map b_id (s_blocks s))).
  { intro i. split; apply Permutation_in; [|apply Permutation_sym]; exact (i_table _ _ _ H). }
  destruct (release_all_ok (s_blocks s) s 0 (i_nodup _ _ _ H) Hiff) as [A B].
  rewrite (leak_all_ok (s_blocks s) s 0 (i_nodup _ _ _ H) Hiff).
  destruct (release_all s (s_blocks s) 0) as [s' rep]. cbn [fst snd] in A, B.
  cbn [ob_guard ob_ns ob_wrap ob_faults ob_ops ob_end_live ob_end_total ob_end_rep ob_end_leak].
  rewrite !eqb_reflx, N.eqb_refl. change (liveof st0) with (@nil (N * N * list N)) in S. rewrite S.
  unfold liveof. rewrite end_eqb_live. unfold total. rewrite A, B. cbn [length N.of_nat N.eqb andb].
  apply N.leb_le. apply N.le_0_l.
Qed.
