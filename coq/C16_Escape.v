(* C16 -- escaping: the sequential replace passes collapse to a per-byte table; no markup survives; unescape inverts. *)
From Coq Require Import NArith Bool List Lia.
From CppUVerif Require Import lib.Str gen.Gen_C16 C16_Events C16_Model.
Import ListNotations.
Local Open Scope N_scope.

(* ---- SimpleString::replace with a one-byte pattern is a per-byte substitution (no overlap is possible) ---- *)
Lemma replace_go_single c w s : replace_go [c] w s O = flat_map (fun x => if x =? c then w else [x]) s.
Proof.
  induction s as [|x s IH]; [reflexivity|].
  cbn [replace_go is_prefix length pred flat_map]. rewrite andb_true_r.
  rewrite (N.eqb_sym c x). destruct (x =? c); cbn [app]; rewrite IH; reflexivity.
Qed.
Lemma replace_single c w s : replace [c] w s = flat_map (fun x => if x =? c then w else [x]) s.
Proof. unfold replace. apply replace_go_single. Qed.

Lemma flat_map_flat_map {A B C} (f : A -> list B) (g : B -> list C) l :
  flat_map g (flat_map f l) = flat_map (fun x => flat_map g (f x)) l.
Proof. induction l as [|x l IH]; [reflexivity|]. cbn. rewrite flat_map_app, IH. reflexivity. Qed.

(* the six passes, in the order of the source, equal one pass with the table xml_esc *)
Lemma encodeXmlText_table s : encodeXmlText s = flat_map xml_esc s.
Proof.
  unfold encodeXmlText, junit_xml_passes. cbn [fold_left fst snd].
  rewrite !replace_single. rewrite !flat_map_flat_map.
  apply flat_map_ext. intro c. unfold xml_esc.
  destruct (N.eqb_spec c 38) as [->|H38]; [reflexivity|].
  destruct (N.eqb_spec c 34) as [->|H34]; [reflexivity|].
  destruct (N.eqb_spec c 60) as [->|H60]; [reflexivity|].
  destruct (N.eqb_spec c 62) as [->|H62]; [reflexivity|].
  destruct (N.eqb_spec c 13) as [->|H13]; [reflexivity|].
  destruct (N.eqb_spec c 10) as [->|H10]; [reflexivity|].
  cbn. rewrite !app_nil_r.
  repeat match goal with |- context [?x =? ?y] => destruct (N.eqb_spec x y); [congruence|]; cbn end.
  reflexivity.
Qed.

Lemma xml_esc_special c : xml_special c = true ->
  c = 38 \/ c = 34 \/ c = 60 \/ c = 62 \/ c = 13 \/ c = 10.
Proof.
  unfold xml_special. rewrite !orb_true_iff, !N.eqb_eq. tauto.
Qed.
Lemma xml_esc_plain c : xml_special c = false -> xml_esc c = [c].
Proof.
  unfold xml_special, xml_esc. rewrite !orb_false_iff. intros [[[[[-> ->] ->] ->] ->] ->]. reflexivity.
Qed.

(* ---- escaped text contains no markup character and every '&' starts one of the references ---- *)
Lemma no_markup_esc c t : no_markup (xml_esc c ++ t) = no_markup t.
Proof.
  destruct (xml_special c) eqn:E.
  - apply xml_esc_special in E. destruct E as [->|[->|[->|[->|[->| ->]]]]]; reflexivity.
  - rewrite (xml_esc_plain _ E). cbn [app no_markup].
    unfold xml_special in E. rewrite !orb_false_iff in E. destruct E as [[[[[E1 E2] E3] E4] E5] E6].
    rewrite E1. unfold markup_char. rewrite E2, E3, E4, E5, E6. reflexivity.
Qed.
Lemma escape_no_markup s : no_markup (encodeXmlText s) = true.
Proof.
  rewrite encodeXmlText_table. induction s as [|c s IH]; [reflexivity|].
  cbn [flat_map]. rewrite no_markup_esc. exact IH.
Qed.

(* ---- unescape inverts the escaping, for every byte string ---- *)
Lemma unescape_esc c t : unescape_go (xml_esc c ++ t) O = c :: unescape_go t O.
Proof.
  destruct (xml_special c) eqn:E.
  - apply xml_esc_special in E. destruct E as [->|[->|[->|[->|[->| ->]]]]]; reflexivity.
  - rewrite (xml_esc_plain _ E). cbn [app unescape_go].
    unfold xml_special in E. rewrite !orb_false_iff in E. destruct E as [[[[[E1 E2] E3] E4] E5] E6].
    unfold match_ref, xml_refs. cbn [find fst is_prefix lit_amp lit_quot lit_lt lit_gt lit_cr lit_lf].
    rewrite (N.eqb_sym 38 c), E1. cbn. reflexivity.
Qed.
Lemma unescape_escape s : unescape (encodeXmlText s) = s.
Proof.
  rewrite encodeXmlText_table. unfold unescape. induction s as [|c s IH]; [reflexivity|].
  cbn [flat_map]. rewrite unescape_esc, IH. reflexivity.
Qed.

(* ---- encodeFileName: one pass per forbidden character = one map with the membership test ---- *)
Lemma encodeFileName_fold (L : list N) : forall s,
  fold_left (fun acc sym => replace_char sym 95 acc) L s = map (fun c => if existsb (N.eqb c) L then 95 else c) s.
Proof.
  induction L as [|x L IH]; intro s; cbn [fold_left existsb].
  - rewrite map_id. reflexivity.
  - rewrite IH. unfold replace_char. rewrite map_map. apply map_ext. intro c.
    destruct (N.eqb_spec c x) as [->|H]; cbn [orb].
    + destruct (existsb (N.eqb 95) L); reflexivity.
    + reflexivity.
Qed.
Lemma createFileName_spec pkg group : createFileName pkg group = expected_filename pkg group.
Proof. unfold createFileName, expected_filename, encodeFileName. rewrite encodeFileName_fold. reflexivity. Qed.
