(* C04: how the object heap of the TRANSLATED MemoryLeakDetectorList / MemoryLeakDetectorTable (gen/Gen_HeapC04.v, lib/CHeap.v)
   represents the values of the hand-written model (C04_Model.v): a leak record is a block of 9 cells in the declaration order
   of class MemoryLeakDetectorNode (the generated off_... constants are checked against this order below), a bucket is a NULL-
   terminated chain of such blocks from the list's head_ cell, the table is a block of hash_prime head cells.
   Definitions and their basic facts only; the theorems about the translated functions are in C04_HeapList.v / C04_HeapTable.v. *)
From Coq Require Import ZArith NArith Bool List Lia.
From CppUVerif Require Import lib.CSem lib.CMem lib.CHeap gen.Gen_Common gen.Gen_HeapC04 C04_Model.
Import ListNotations.
Local Open Scope Z_scope.

(* enum MemLeakPeriod { mem_leak_period_all, _disabled, _enabled, _checking } *)
Definition stamp_code (s : stamp) : Z := match s with SDisabled => 1 | SEnabled => 2 | SChecking => 3 end.
Definition period_code (p : period) : Z := match p with PAll => 0 | PDisabled => 1 | PEnabled => 2 | PChecking => 3 end.

(* the cells of one MemoryLeakDetectorNode whose next_ is nxt: size_ number_ memory_ file_ line_ allocator_ period_
   allocation_stage_ next_ *)
Definition node_cells (n : node) (nxt : hptr) : list val :=
  [VInt (Z.of_N (n_size n)); VInt (Z.of_N (n_number n)); VInt (Z.of_N (n_addr n)); VInt (Z.of_N (n_file n)); VInt (Z.of_N (n_line n));
   VInt (Z.of_N (n_kind n)); VInt (stamp_code (n_period n)); VInt (Z.of_N (n_stage n)); VPtr nxt].

(* the order above is the order of the class definition as clang reports it now *)
Lemma node_layout_is_the_source :
  off_MemoryLeakDetectorNode_size_ = 0 /\ off_MemoryLeakDetectorNode_number_ = 1 /\ off_MemoryLeakDetectorNode_memory_ = 2 /\
  off_MemoryLeakDetectorNode_file_ = 3 /\ off_MemoryLeakDetectorNode_line_ = 4 /\ off_MemoryLeakDetectorNode_allocator_ = 5 /\
  off_MemoryLeakDetectorNode_period_ = 6 /\ off_MemoryLeakDetectorNode_allocation_stage_ = 7 /\ off_MemoryLeakDetectorNode_next_ = 8 /\
  cells_MemoryLeakDetectorNode = 9 /\ off_MemoryLeakDetectorList_head_ = 0 /\ cells_MemoryLeakDetectorList = 1 /\
  off_MemoryLeakDetectorTable_table_ = 0 /\ cells_MemoryLeakDetectorTable = Z.of_N hash_prime.
Proof. repeat split; reflexivity. Qed.

(* values of the model that are C values of the fields' types *)
Definition node_ok (n : node) : Prop :=
  (n_addr n < 2 ^ 64)%N /\ (n_size n < 2 ^ 64)%N /\ (n_number n < 2 ^ 32)%N /\ (n_line n < 2 ^ 64)%N /\ (n_stage n < 256)%N.

(* chain h p bs ns: from pointer p the blocks bs (in this order) hold the nodes ns, linked by next_, ending in NULL *)
Fixpoint chain (h : heap) (p : hptr) (bs : list nat) (ns : list node) : Prop :=
  match ns, bs with
  | [], [] => p = HNull
  | n :: ns', b :: bs' => p = HPtr b 0 /\ exists nxt, hblock h b = node_cells n nxt /\ chain h nxt bs' ns'
  | _, _ => False
  end.

(* a MemoryLeakDetectorList object at `this` (any cell of any block: a list may be an element of the table) *)
Definition list_at (h : heap) (this : hptr) (bs : list nat) (ns : bucket) : Prop :=
  exists hd, hload_ptr h this = Some hd /\ chain h hd bs ns /\ NoDup bs /\ Forall node_ok ns /\
             Forall (fun b => (b < length h)%nat) bs /\
             match this with HPtr bt _ => ~ In bt bs /\ (bt < length h)%nat | HNull => False end.

(* the pointer to the node with key a in a bucket (None -> NULL): the block at the same position *)
Fixpoint ptr_of (a : N) (bs : list nat) (ns : list node) : hptr :=
  match ns, bs with
  | n :: ns', b :: bs' => if (n_addr n =? a)%N then HPtr b 0 else ptr_of a bs' ns'
  | _, _ => HNull
  end.
(* the pointer to the first node satisfying f *)
Fixpoint ptr_first (f : node -> bool) (bs : list nat) (ns : list node) : hptr :=
  match ns, bs with
  | n :: ns', b :: bs' => if f n then HPtr b 0 else ptr_first f bs' ns'
  | _, _ => HNull
  end.

(* the MemoryLeakDetectorTable object in block bt: cell i is the head_ of bucket i; bss gives the blocks of each bucket *)
Definition table_at (h : heap) (bt : nat) (bss : list (list nat)) (t : table) : Prop :=
  length t = nbuckets /\ length bss = nbuckets /\ length (hblock h bt) = nbuckets /\ (bt < length h)%nat /\
  NoDup (concat bss) /\ ~ In bt (concat bss) /\
  forall i, (i < nbuckets)%nat -> list_at h (HPtr bt (Z.of_nat i)) (nth i bss []) (nth i t []).

(* basic facts *)
Lemma chain_nil_inv h p bs : chain h p bs [] -> p = HNull /\ bs = [].
Proof. destruct bs; cbn; [intro H; split; [exact H | reflexivity] | intros []]. Qed.
Lemma chain_cons_inv h p bs n ns : chain h p bs (n :: ns) ->
  exists b bs' nxt, bs = b :: bs' /\ p = HPtr b 0 /\ hblock h b = node_cells n nxt /\ chain h nxt bs' ns.
Proof.
  destruct bs as [|b bs']; cbn; [intros []|]. intros [Hp [nxt [Hb Hc]]]. exists b, bs', nxt. repeat split; assumption.
Qed.
Lemma chain_length h : forall ns p bs, chain h p bs ns -> length bs = length ns.
Proof.
  induction ns as [|n ns IH]; intros p bs H.
  - apply chain_nil_inv in H. destruct H as [_ ->]. reflexivity.
  - apply chain_cons_inv in H. destruct H as [b [bs' [nxt [-> [_ [_ Hc]]]]]]. cbn. f_equal. exact (IH _ _ Hc).
Qed.
(* a chain only depends on the blocks it goes through *)
Lemma chain_frame h h' : forall ns p bs, (forall b, In b bs -> hblock h' b = hblock h b) -> chain h p bs ns -> chain h' p bs ns.
Proof.
  induction ns as [|n ns IH]; intros p bs Hf H.
  - apply chain_nil_inv in H. destruct H as [-> ->]. reflexivity.
  - apply chain_cons_inv in H. destruct H as [b [bs' [nxt [-> [-> [Hb Hc]]]]]]. cbn. split; [reflexivity|]. exists nxt. split.
    + rewrite Hf by (left; reflexivity). exact Hb.
    + apply IH; [|exact Hc]. intros b' Hin. apply Hf. right. exact Hin.
Qed.

Lemma node_cells_length n nxt : length (node_cells n nxt) = 9%nat. Proof. reflexivity. Qed.
