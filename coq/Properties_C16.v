(* C16 -- JUnit report is well-formed XML and faithful to the run.  Only statements; proofs are in C16_Escape.v, C16_Parse.v, C16_Proofs.v, C16_Filtered.v. *)
From Coq Require Import NArith Bool List.
From Coq Require String.
Import String.StringSyntax.
From CppUVerif Require Import lib.Str gen.Gen_C16 C16_Events C16_Model C16_Escape C16_Parse C16_Proofs C16_Filtered.
Import ListNotations.
Local Open Scope N_scope.

(* SimpleString::replace with a one-byte pattern substitutes byte by byte (no overlap: the repaired size computation is exact) *)
Theorem C16_replace_single_byte : forall c w s, replace [c] w s = flat_map (fun x => if x =? c then w else [x]) s.
Proof. exact replace_single. Qed.
Print Assumptions C16_replace_single_byte.

(* the six sequential passes of encodeXmlText (table regenerated from the source) collapse to one per-byte escape table *)
Theorem C16_encode_is_table : forall s, encodeXmlText s = flat_map xml_esc s.
Proof. exact encodeXmlText_table. Qed.
Print Assumptions C16_encode_is_table.

(* escaped text contains no < > double quote CR LF and every & starts one of the references the writer uses -- all byte strings *)
Theorem C16_escape_no_markup : forall s, no_markup (encodeXmlText s) = true.
Proof. exact escape_no_markup. Qed.
Print Assumptions C16_escape_no_markup.

(* unescaping returns the original text -- all byte strings *)
Theorem C16_unescape_escape : forall s, unescape (encodeXmlText s) = s.
Proof. exact unescape_escape. Qed.
Print Assumptions C16_unescape_escape.

(* file name = cpputest_[package_]group.xml with every forbidden character (table regenerated from the source) replaced by _ *)
Theorem C16_filename : forall pkg group, createFileName pkg group = expected_filename pkg group.
Proof. exact createFileName_spec. Qed.
Print Assumptions C16_filename.

(* the registry's loop with its groupStart flag brackets exactly the maximal runs of equally named groups *)
Theorem C16_registry_order : forall ts, events_of ts = flat_map seg_events (segments ts).
Proof. exact reg_loop_segments. Qed.
Print Assumptions C16_registry_order.

(* the same loop with calls from outside (setPackageName, createFileName) put in front of a test's callbacks: the callbacks are
   those of the registry loop, the segments those of the plain run, and the loop brackets the segments in the same way *)
Theorem C16_outside_calls_keep_callbacks : forall ts b, je_only (oreg_loop b ts) = reg_loop b (map snd ts).
Proof. exact oreg_loop_callbacks. Qed.
Print Assumptions C16_outside_calls_keep_callbacks.

Theorem C16_outside_calls_keep_segments : forall ts, map (map snd) (osegments ts) = segments (map snd ts).
Proof. exact osegments_map. Qed.
Print Assumptions C16_outside_calls_keep_segments.

Theorem C16_registry_order_with_outside_calls : forall ts, oreg_loop true ts = flat_map oseg_events (osegments ts).
Proof. exact oreg_loop_segments. Qed.
Print Assumptions C16_registry_order_with_outside_calls.

(* the package at a time is the argument of the latest setPackageName before it; createFileName calls do not change it *)
Theorem C16_package_latest_wins : forall before p after P,
  existsb is_set after = false -> ops_pkg P (before ++ OSetPkg p :: after) = p.
Proof. exact ops_pkg_latest. Qed.
Print Assumptions C16_package_latest_wins.

(* the XML parser run on anything printed from a well-formed writer tree returns that tree (inside an open element) *)
Theorem C16_parse_print : forall p, ptree_ok p = true -> parses p.
Proof. exact parses_all. Qed.
Print Assumptions C16_parse_print.

(* round trip: every run over printable text -- any group / name filters, -ri, setPackageName / createFileName called at any points
   (before the run, before any selected test, after the run) -- makes one WRITE per stretch of the registry (sel_segments: the stretches
   reduced to their selected tests; a stretch with no selected test is the empty list), named by the rule from the package in force
   when the group ended (trees_of threads group_pkg) and the group name (the EMPTY name for a fully filtered stretch), and each written
   text parses to tree_of; every createFileName call that is made is answered by the rule from the package of its moment *)
Theorem C16_roundtrip : forall s, valid s = true ->
  map (fun f => (fst f, xml_parse (snd f))) (fst (run_writes s)) = trees_of [] (sel_segments s) []
  /\ snd (run_writes s) = ops_names [] (flat_map fst (filter (selo (s_sel s)) (armed s)) ++ s_post s).
Proof. exact roundtrip. Qed.
Print Assumptions C16_roundtrip.

(* tree_of states the property: suite name and counts, one testcase per test in order with name/file/line,
   skipped iff ignored, failure iff failed with file:line: first message, system-out = the printed text *)
Theorem C16_tree_states_property : forall pkg g printed,
  suite_ok g (printed ++ tests_printed g) (tests_printed g) (tree_of pkg g printed) = true.
Proof. exact suite_ok_tree. Qed.
Print Assumptions C16_tree_states_property.

(* the executable oracle used on the implementation's files accepts every file set the model writes *)
Theorem C16_run_meets_spec : forall s, valid s = true -> spec s (run s) = true.
Proof. exact run_meets_spec. Qed.
Print Assumptions C16_run_meets_spec.

(* the code before the `fix:` commit for D14 (names and paths copied unescaped into attribute values) violated the property *)
Theorem C16_run_old_refuted : ~ (forall s, valid s = true -> spec s (run_old s) = true).
Proof. exact run_old_refuted. Qed.
Print Assumptions C16_run_old_refuted.

(* the parser is strict where it matters: a raw < inside an attribute value and a mismatched end tag are rejected *)
Theorem C16_parser_rejects_lt_in_value : forall S R nm A an q acc cr rest, q <> 60 ->
  run_sm (mk S R (MAttrVal nm A an q acc cr)) (60 :: rest) = None.
Proof. exact value_rejects_lt. Qed.
Print Assumptions C16_parser_rejects_lt_in_value.

Theorem C16_hypotheses_satisfiable :
  valid example_run = true /\ length (fst (run example_run)) = 2%nat /\ spec example_run (run example_run) = true.
Proof. exact example_valid. Qed.
Print Assumptions C16_hypotheses_satisfiable.

(* the example run asks for a name before any package is set, sets the package late, changes it inside and between the groups and
   after the run: answers and file names follow the package of each moment *)
Theorem C16_example_names_follow_package :
  snd (run example_run) = [B "cpputest_G_.xml"%string; B "cpputest_q_H.xml"%string; B "cpputest_H.xml"%string; B "cpputest___H.xml"%string]
  /\ map fst (fst (run example_run)) = [B "cpputest_q_G_.xml"%string; B "cpputest_H.xml"%string].
Proof. exact example_names. Qed.
Print Assumptions C16_example_names_follow_package.

(* --------------------------------------------------------------------------------------------------------------
   RUNS WITH FILTERS (-g -sg -xg -xsg -n -sn -xn -xsn) AND -ri; the file system keeps, per name, the last thing written
   -------------------------------------------------------------------------------------------------------------- *)
(* runAllTests with testShouldRun: group started / group ended bracket EVERY stretch of the registry, the callbacks (and the outside
   calls attached to them) in between are those of the selected tests only -- none at all for a fully filtered stretch *)
Theorem C16_filtered_registry_order : forall sel ts, freg_loop sel true ts = flat_map (fseg_events sel) (osegments ts).
Proof. exact freg_loop_segments. Qed.
Print Assumptions C16_filtered_registry_order.

(* with every test selected the filtered loop is the loop of the unfiltered model, and the writes are those of run_with *)
Theorem C16_filtered_loop_conservative : forall b ts, freg_loop (fun _ => true) b ts = oreg_loop b ts.
Proof. exact freg_loop_all. Qed.
Print Assumptions C16_filtered_loop_conservative.
Theorem C16_unfiltered_writes : forall esc ts post, writes_with (jstep esc) (fun _ => true) ts post = run_with esc ts post.
Proof. exact unfiltered_writes. Qed.
Print Assumptions C16_unfiltered_writes.

(* the writes of a filtered run in the order of the opens: one per stretch, a fully filtered stretch included *)
Theorem C16_filtered_writes : forall esc sel ts post,
  writes_with (jstep esc) sel ts post
  = (group_files esc [] (map (filter (selo sel)) (osegments ts)) [], ops_names [] (flat_map fst (filter (selo sel) ts) ++ post)).
Proof. exact writes_with_files. Qed.
Print Assumptions C16_filtered_writes.

(* what the code does for a stretch none of whose tests is selected: it writes, under the name built from the EMPTY group name
   (cpputest_[package_].xml -- never under the name of another group), a suite stating 0 tests, 0 failures, no test case *)
Theorem C16_fully_filtered_write : forall esc pkg gs printed,
  group_files esc pkg ([] :: gs) printed
  = (createFileName pkg [], write_group esc pkg (group_state [] printed [])) :: group_files esc pkg gs (printed ++ []).
Proof. exact fully_filtered_write. Qed.
Print Assumptions C16_fully_filtered_write.
Theorem C16_empty_suite_counts : forall pkg printed,
  match tree_of pkg [] printed with
  | Elem nm attrs kids => nm = L_testsuite /\ get_attr L_tests attrs = Some [48] /\ get_attr L_failures attrs = Some [48]
                          /\ get_attr L_name attrs = Some [] /\ elems_named L_testcase kids = []
  | Text _ => False
  end.
Proof. exact empty_suite_counts. Qed.
Print Assumptions C16_empty_suite_counts.

(* the file system: what a name holds at the end is what was written to it LAST; a name never written does not exist *)
Theorem C16_fs_last_write_wins : forall ws fn, fs_lookup fn (fs_of_writes ws) = last_write fn ws.
Proof. exact fs_last_write_wins. Qed.
Print Assumptions C16_fs_last_write_wins.
Theorem C16_run_is_fs_of_writes : forall s, run s = (fs_of_writes (fst (run_writes s)), snd (run_writes s)).
Proof. exact run_is_fs_of_writes. Qed.
Print Assumptions C16_run_is_fs_of_writes.

(* the property for filtered runs, in Prop form: a group that ran (a stretch g with at least one selected test), whose file name no
   later stretch claims, has AT THE END OF THE RUN, under the name built from the package of its moment and its group name, a file
   that parses to tree_of of exactly its selected tests -- whatever fully filtered stretches came before, between and after *)
Theorem C16_ran_group_file_survives : forall s pre g post', valid s = true ->
  sel_segments s = pre ++ g :: post' -> map snd g <> [] ->
  let pkg := group_pkg (groups_pkg [] pre) g in
  let printed := flat_map (fun g => tests_printed (map snd g)) pre in
  let fn := expected_filename pkg (group_name (map snd g)) in
  later_claims fn pkg post' = false ->
  exists content, fs_lookup fn (fst (run s)) = Some content
                  /\ xml_parse content = Some (tree_of pkg (map snd g) printed)
                  /\ suite_ok (map snd g) (printed ++ tests_printed (map snd g)) (tests_printed (map snd g)) (tree_of pkg (map snd g) printed) = true.
Proof. exact ran_group_file_survives. Qed.
Print Assumptions C16_ran_group_file_survives.
Theorem C16_ran_group_hypotheses_satisfiable : exists pre g post',
  valid stale_witness = true /\ sel_segments stale_witness = pre ++ g :: post' /\ map snd g <> []
  /\ later_claims (expected_filename (group_pkg (groups_pkg [] pre) g) (group_name (map snd g))) (group_pkg (groups_pkg [] pre) g) post' = false.
Proof. exact ran_group_hyps_satisfiable. Qed.
Print Assumptions C16_ran_group_hypotheses_satisfiable.

(* a writer whose resetTestGroupResult leaves the group name (not the code) violates the property: group G runs, the stretch H behind
   it is filtered out (-sg G), H's empty suite is written under G's name and replaces G's report; with the filtered stretch in FRONT
   of G the same writer is not told apart *)
Theorem C16_run_stale_refuted : ~ (forall s, valid s = true -> spec s (run_stale s) = true).
Proof. exact run_stale_refuted. Qed.
Print Assumptions C16_run_stale_refuted.

(* examples.  Registry A a1 | G g1 g2(ignored) n3 | B b1 | G g4 | C c1, name filter "g" (contains), -ri: A, B, C fully filtered (before,
   between, after), G partially filtered, g2 runs because of -ri, G occurs in two stretches: five writes, two files left
   (cpputest_.xml = the empty suites, cpputest_G.xml = the second stretch of G); the oracle accepts, and rejects the stale writer *)
Theorem C16_filtered_example :
  valid filtered_example = true
  /\ map (fun g => map (fun x => t_name (snd x)) g) (sel_segments filtered_example) = [[]; [[103; 49]; [103; 50]]; []; [[103; 52]]; []]
  /\ map fst (fst (run_writes filtered_example))
     = [B "cpputest_.xml"%string; B "cpputest_G.xml"%string; B "cpputest_.xml"%string; B "cpputest_G.xml"%string; B "cpputest_.xml"%string]
  /\ map fst (fst (run filtered_example)) = [B "cpputest_.xml"%string; B "cpputest_G.xml"%string]
  /\ spec filtered_example (run filtered_example) = true
  /\ spec filtered_example (run_stale filtered_example) = false.
Proof. exact filtered_example_facts. Qed.
Print Assumptions C16_filtered_example.
(* filters that select nothing at all: every stretch is written as an empty suite under cpputest_.xml; nothing is demanded *)
Theorem C16_nothing_selected_example :
  valid nothing_selected = true /\ sel_segments nothing_selected = [[]; []]
  /\ map fst (fst (run nothing_selected)) = [B "cpputest_.xml"%string] /\ spec nothing_selected (run nothing_selected) = true.
Proof. exact nothing_selected_facts. Qed.
Print Assumptions C16_nothing_selected_example.

(* --------------------------------------------------------------------------------------------------------------
   THE TRANSLATED SOURCE of JUnitTestOutput's collection of results and of all its writers (gen/Gen_HeapC16.v, regenerated by tools/cxx2heap.py on every run) follows the model's junit_step on the heap and writes, rendered to bytes, exactly write_group
   -------------------------------------------------------------------------------------------------------------- *)
From CppUVerif Require Import lib.CSem lib.CMem lib.CHeap gen.Gen_HeapC16 C16_HeapRep C16_HeapTie.
Local Open Scope Z_scope.
Theorem C16_junit_layout_is_the_source :
  off_UtestShell_group_ = Z0 /\
  off_UtestShell_name_ = Zpos 1 /\
  off_UtestShell_file_ = Zpos 2 /\
  off_UtestShell_lineNumber_ = Zpos 3 /\
  off_UtestShell_next_ = Zpos 4 /\
  off_UtestShell_isRunAsSeperateProcess_ = Zpos 5 /\
  off_UtestShell_hasFailed_ = Zpos 6 /\
  cells_UtestShell = Zpos 7 /\
  off_TestResult_output_ = Z0 /\
  off_TestResult_testCount_ = Zpos 1 /\
  off_TestResult_runCount_ = Zpos 2 /\
  off_TestResult_checkCount_ = Zpos 3 /\
  off_TestResult_failureCount_ = Zpos 4 /\
  off_TestResult_filteredOutCount_ = Zpos 5 /\
  off_TestResult_ignoredCount_ = Zpos 6 /\
  off_TestResult_totalExecutionTime_ = Zpos 7 /\
  off_TestResult_timeStarted_ = Zpos 8 /\
  off_TestResult_currentTestTimeStarted_ = Zpos 9 /\
  off_TestResult_currentTestTotalExecutionTime_ = Zpos 10 /\
  off_TestResult_currentGroupTimeStarted_ = Zpos 11 /\
  off_TestResult_currentGroupTotalExecutionTime_ = Zpos 12 /\
  cells_TestResult = Zpos 13 /\
  off_TestFailure_testName_ = Z0 /\
  off_TestFailure_testNameOnly_ = Zpos 1 /\
  off_TestFailure_fileName_ = Zpos 2 /\
  off_TestFailure_lineNumber_ = Zpos 3 /\
  off_TestFailure_testFileName_ = Zpos 4 /\
  off_TestFailure_testLineNumber_ = Zpos 5 /\
  off_TestFailure_message_ = Zpos 6 /\
  cells_TestFailure = Zpos 7 /\
  off_JUnitTestCaseResultNode_name_ = Z0 /\
  off_JUnitTestCaseResultNode_execTime_ = Zpos 1 /\
  off_JUnitTestCaseResultNode_failure_ = Zpos 2 /\
  off_JUnitTestCaseResultNode_ignored_ = Zpos 3 /\
  off_JUnitTestCaseResultNode_file_ = Zpos 4 /\
  off_JUnitTestCaseResultNode_lineNumber_ = Zpos 5 /\
  off_JUnitTestCaseResultNode_checkCount_ = Zpos 6 /\
  off_JUnitTestCaseResultNode_next_ = Zpos 7 /\
  cells_JUnitTestCaseResultNode = Zpos 8 /\
  off_JUnitTestGroupResult_testCount_ = Z0 /\
  off_JUnitTestGroupResult_failureCount_ = Zpos 1 /\
  off_JUnitTestGroupResult_totalCheckCount_ = Zpos 2 /\
  off_JUnitTestGroupResult_startTime_ = Zpos 3 /\
  off_JUnitTestGroupResult_groupExecTime_ = Zpos 4 /\
  off_JUnitTestGroupResult_group_ = Zpos 5 /\
  off_JUnitTestGroupResult_head_ = Zpos 6 /\
  off_JUnitTestGroupResult_tail_ = Zpos 7 /\
  cells_JUnitTestGroupResult = Zpos 8 /\
  off_JUnitTestOutputImpl_results_ = Z0 /\
  off_JUnitTestOutputImpl_file_ = Zpos 8 /\
  off_JUnitTestOutputImpl_package_ = Zpos 9 /\
  off_JUnitTestOutputImpl_stdOutput_ = Zpos 10 /\
  cells_JUnitTestOutputImpl = Zpos 11 /\ off_JUnitTestOutput_impl_ = Z0 /\ cells_JUnitTestOutput = Zpos 1.
Proof. exact junit_layout_is_the_source. Qed.
Print Assumptions C16_junit_layout_is_the_source.

Theorem C16_files_of_group :
  forall (txt : Z -> bytes) (te : Z -> Z) (k : cstate) (timestr nx : Z) (evs : list hev),
  files_of txt (evs ++ ev_group te k timestr nx) =
  files_of txt evs ++ [(k_group k, group_file txt te k timestr)].
Proof. exact files_of_group. Qed.
Print Assumptions C16_files_of_group.

Theorem C16_test_started_model :
  forall (txt : Z -> bytes) (fuel0 : nat) (t0 : Z) (times willruns : list Z) (timestr : Z)
  (h : heap) (ob ib : nat) (bs : list nat) (k : cstate) (st : jstate) (total : Z)
  (tb : nat) (sh : cshell) (t : test) (evs : list hev) (nx : Z),
  cjunit_at h ob ib bs k ->
  state_rel txt false k st total ->
  hblock h tb = shell_cells sh ->
  ~ In tb (jblocks ob ib bs (k_nodes k)) ->
  shell_rel txt sh t ->
  BinInt.Z.lt (BinInt.Z.add (BinInt.Z.of_N (j_testCount st)) (Zpos 1)) (BinInt.Z.pow (Zpos 2) (Zpos 64)) ->
  exists h' : heap,
  src_junit_printCurrentTestStarted fuel0 h evs nx (t0 :: times) (b2z (negb (t_ignored t)) :: willruns)
  timestr (HPtr ob Z0) (HPtr tb Z0) =
  FOk (tt, h', evs ++ [JNew (HPtr (length h) Z0)], nx, times, willruns, timestr) /\
  junit_at_o txt true h' ob ib (bs ++ [length h]) (junit_step Esc st (ETestStart t)) total /\
  hload_int h' (HPtr ib (Zpos 3)) = Some t0 /\
  length h' = S (length h) /\
  (forall b : nat, (b < length h)%nat -> ~ In b (jblocks ob ib bs (k_nodes k)) -> hblock h' b = hblock h b).
Proof. exact test_started_model. Qed.
Print Assumptions C16_test_started_model.

Theorem C16_test_ended_model :
  forall (txt : Z -> bytes) (fuel0 : nat) (times willruns : list Z) (timestr : Z) (o : bool)
  (h : heap) (ob ib : nat) (bs : list nat) (k : cstate) (st : jstate) (total : Z)
  (rb : nat) (r : ctr) (c : N) (evs : list hev) (nx : Z),
  cjunit_at h ob ib bs k ->
  state_rel txt o k st total ->
  j_nodes st <> [] ->
  hblock h rb = tr_cells r ->
  ~ In rb (jblocks ob ib bs (k_nodes k)) ->
  tr_checks r =
  BinInt.Z.add (BinInt.Z.add total (BinInt.Z.of_N (sum_checks (tl (j_nodes st))))) (BinInt.Z.of_N c) ->
  exists h' : heap,
  src_junit_printCurrentTestEnded fuel0 h evs nx times willruns timestr (HPtr ob Z0) (HPtr rb Z0) =
  FOk (tt, h', evs, nx, times, willruns, timestr) /\
  junit_at txt h' ob ib bs (junit_step Esc st (ETestEnd c)) total /\
  length h' = length h /\ (forall b : nat, ~ In b (jblocks ob ib bs (k_nodes k)) -> hblock h' b = hblock h b).
Proof. exact test_ended_model. Qed.
Print Assumptions C16_test_ended_model.

Theorem C16_failure_first_model :
  forall (txt : Z -> bytes) (fuel0 : nat) (times willruns : list Z) (timestr : Z) (o : bool)
  (h : heap) (ob ib : nat) (bs : list nat) (k : cstate) (st : jstate) (total : Z)
  (fb0 : nat) (f : cfail) (t : test) (file : bytes) (line : N) (msg : bytes) (n : jnode)
  (r : list jnode) (evs : list hev) (nx : Z),
  cjunit_at h ob ib bs k ->
  state_rel txt o k st total ->
  j_nodes st = n :: r ->
  n_failure n = None ->
  hblock h fb0 = fail_cells f ->
  ~ In fb0 (jblocks ob ib bs (k_nodes k)) ->
  txt (cf_file f) = file ->
  cf_line f = BinInt.Z.of_N line ->
  txt (cf_msg f) = msg ->
  BinInt.Z.lt (BinInt.Z.add (BinInt.Z.of_N (j_failureCount st)) (Zpos 1)) (BinInt.Z.pow (Zpos 2) (Zpos 64)) ->
  exists h' : heap,
  src_junit_printFailure fuel0 h evs nx times willruns timestr (HPtr ob Z0) (HPtr fb0 Z0) =
  FOk (tt, h', evs ++ [JNew (HPtr (length h) Z0)], nx, times, willruns, timestr) /\
  junit_at_o txt o h' ob ib bs (junit_step Esc st (EFailure t file line msg)) total /\
  length h' = S (length h) /\
  hblock h' (length h) = fail_cells f /\
  (forall b : nat, (b < length h)%nat -> ~ In b (jblocks ob ib bs (k_nodes k)) -> hblock h' b = hblock h b).
Proof. exact failure_first_model. Qed.
Print Assumptions C16_failure_first_model.

Theorem C16_failure_second_model :
  forall (txt : Z -> bytes) (fuel0 : nat) (times willruns : list Z) (timestr : Z) (o : bool)
  (h : heap) (ob ib : nat) (bs : list nat) (k : cstate) (st : jstate) (total : Z)
  (fb0 : nat) (t : test) (file : bytes) (line : N) (msg : bytes) (n : jnode) (r : list jnode)
  (x : bytes * N * bytes) (evs : list hev) (nx : Z),
  cjunit_at h ob ib bs k ->
  state_rel txt o k st total ->
  j_nodes st = n :: r ->
  n_failure n = Some x ->
  src_junit_printFailure fuel0 h evs nx times willruns timestr (HPtr ob Z0) (HPtr fb0 Z0) =
  FOk (tt, h, evs, nx, times, willruns, timestr) /\ junit_step Esc st (EFailure t file line msg) = st.
Proof. exact failure_second_model. Qed.
Print Assumptions C16_failure_second_model.

Theorem C16_reset_model :
  forall txt : Z -> bytes,
  txt Z0 = [] ->
  forall (fuel0 : nat) (times willruns : list Z) (timestr : Z) (o : bool) (h : heap)
  (ob ib : nat) (bs : list nat) (k : cstate) (st : jstate) (total : Z) (evs : list hev)
  (nx : Z),
  cjunit_at h ob ib bs k ->
  state_rel txt o k st total ->
  (length (j_nodes st) < fuel0)%nat ->
  exists h' : heap,
  src_junit_resetTestGroupResult fuel0 h evs nx times willruns timestr (HPtr ob Z0) =
  FOk (tt, h', evs ++ reset_events bs (k_nodes k), nx, times, willruns, timestr) /\
  junit_at txt h' ob ib [] (reset_state st) total /\
  length h' = length h /\ (forall b : nat, b <> ib -> hblock h' b = hblock h b).
Proof. exact reset_model. Qed.
Print Assumptions C16_reset_model.

Theorem C16_reset_events_deleted :
  forall (bs : list nat) (cs : list cnode),
  flat_map deleted (reset_events bs cs) =
  flat_map (fun bc : nat * cnode => fblock (snd bc) ++ [fst bc]) (combine bs cs).
Proof. exact reset_events_deleted. Qed.
Print Assumptions C16_reset_events_deleted.

Theorem C16_group_file_model :
  forall (txt : Z -> bytes) (te : Z -> Z),
  (forall id : Z, te id = b2z match txt id with
  | [] => true
  | _ :: _ => false
  end) ->
  forall (k : cstate) (st : jstate) (total timestr : Z),
  state_rel txt false k st total ->
  state_small st ->
  txt timestr = L_time_string ->
  k_gexec k = Z0 ->
  Forall (fun c : cnode => c_exec c = Z0) (k_nodes k) ->
  group_file txt te k timestr = write_group Esc (j_pkg st) st.
Proof. exact group_file_model. Qed.
Print Assumptions C16_group_file_model.

Theorem C16_write_group_model :
  forall (txt : Z -> bytes) (te : Z -> Z),
  (forall id : Z, te id = b2z match txt id with
  | [] => true
  | _ :: _ => false
  end) ->
  forall (fuel0 : nat) (times willruns : list Z) (timestr : Z) (h : heap) (ob ib : nat)
  (bs : list nat) (k : cstate) (st : jstate) (total : Z) (evs : list hev) (nx : Z),
  cjunit_at h ob ib bs k ->
  state_rel txt false k st total ->
  state_small st ->
  txt timestr = L_time_string ->
  k_gexec k = Z0 ->
  Forall (fun c : cnode => c_exec c = Z0) (k_nodes k) ->
  (length (j_nodes st) < fuel0)%nat ->
  exists (h' : heap) (mid : list hev) (nx' : Z),
  src_junit_writeTestGroupToFile te fuel0 h evs nx times willruns timestr (HPtr ob Z0) =
  FOk (tt, h', evs ++ [JOpen (k_group k)] ++ mid ++ [JClose], nx', times, willruns, timestr) /\
  txt (k_group k) = j_group st /\
  files_of txt (evs ++ [JOpen (k_group k)] ++ mid ++ [JClose]) =
  files_of txt evs ++ [(k_group k, write_group Esc (j_pkg st) st)] /\
  hload_int h' (HPtr ib (Zpos 2)) = Some (BinInt.Z.add total (BinInt.Z.of_N (sum_checks (j_nodes st)))) /\
  length h' = length h /\ (forall b : nat, b <> ib -> hblock h' b = hblock h b).
Proof. exact write_group_model. Qed.
Print Assumptions C16_write_group_model.

Theorem C16_group_ended_model :
  forall (txt : Z -> bytes) (te : Z -> Z),
  txt Z0 = [] ->
  (forall id : Z, te id = b2z match txt id with
  | [] => true
  | _ :: _ => false
  end) ->
  forall (fuel0 : nat) (times willruns : list Z) (timestr : Z) (h : heap) (ob ib : nat)
  (bs : list nat) (k : cstate) (st : jstate) (total : Z) (rb : nat) (r : ctr) (evs : list hev)
  (nx : Z),
  cjunit_at h ob ib bs k ->
  state_rel txt false k st total ->
  state_small st ->
  txt timestr = L_time_string ->
  Forall (fun c : cnode => c_exec c = Z0) (k_nodes k) ->
  hblock h rb = tr_cells r ->
  rb <> ib ->
  tr_group_ms r = Z0 ->
  (length (j_nodes st) < fuel0)%nat ->
  exists (h' : heap) (rest : list hev) (nx' : Z) (content : bytes),
  src_junit_printCurrentGroupEnded te fuel0 h evs nx times willruns timestr (HPtr ob Z0) (HPtr rb Z0) =
  FOk (tt, h', evs ++ JOpen (k_group k) :: rest, nx', times, willruns, timestr) /\
  txt (k_group k) = j_group st /\
  j_files (junit_step Esc st EGroupEnd) = (createFileName (j_pkg st) (j_group st), content) :: j_files st /\
  files_of txt (evs ++ JOpen (k_group k) :: rest) = files_of txt evs ++ [(k_group k, content)] /\
  junit_at txt h' ob ib [] (junit_step Esc st EGroupEnd)
  (BinInt.Z.add total (BinInt.Z.of_N (sum_checks (j_nodes st)))) /\
  length h' = length h /\ (forall b : nat, b <> ib -> hblock h' b = hblock h b).
Proof. exact group_ended_model. Qed.
Print Assumptions C16_group_ended_model.

Theorem C16_time_attr_small :
  forall e : Z,
  BinInt.Z.le Z0 e /\ BinInt.Z.lt e (BinInt.Z.mul (Zpos 1000) (BinInt.Z.pow (Zpos 2) (Zpos 31))) ->
  time_attr e = time_render e.
Proof. exact time_attr_small. Qed.
Print Assumptions C16_time_attr_small.

Theorem C16_ce_open_node :
  contains
  match files_of Ex.txt (Ex.events Ex.run_open) with
  | [] => []
  | [(_, f)] => f
  | (_, f) :: _ :: _ => []
  end (Ex.S "assertions=""-5"""%string) = true /\
  contains (write_group Esc [] Ex.st_open) (Ex.S "assertions=""0"""%string) = true.
Proof. exact ce_open_node. Qed.
Print Assumptions C16_ce_open_node.

Theorem C16_ex_times :
  contains
  match files_of Ex.txt (Ex.events Ex.run_ms) with
  | [] => []
  | [(_, f)] => f
  | (_, f) :: _ :: _ => []
  end (Ex.S "tests=""1"" time=""61.005"""%string) = true /\
  contains
  match files_of Ex.txt (Ex.events Ex.run_ms) with
  | [] => []
  | [(_, f)] => f
  | (_, f) :: _ :: _ => []
  end (Ex.S "assertions=""3"" time=""1.234"""%string) = true /\
  time_render (Zpos 61005) = Ex.S "61.005"%string /\ time_attr (Zpos 1234) = Ex.S "1.234"%string.
Proof. exact ex_times. Qed.
Print Assumptions C16_ex_times.

Theorem C16_ex_model :
  j_files (junit_step Esc Ex.st_end EGroupEnd) = [(Ex.S "cpputest_G_1_.xml"%string, Ex.expected_file)].
Proof. exact ex_model. Qed.
Print Assumptions C16_ex_model.
