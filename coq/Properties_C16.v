(* C16 -- JUnit report is well-formed XML and faithful to the run.  Only statements; proofs are in C16_Escape.v, C16_Parse.v, C16_Proofs.v. *)
From Coq Require Import NArith Bool List.
From Coq Require String.
Import String.StringSyntax.
From CppUVerif Require Import lib.Str gen.Gen_C16 C16_Events C16_Model C16_Escape C16_Parse C16_Proofs.
Import ListNotations.
Local Open Scope N_scope.

(* SimpleString::replace with a one-byte pattern substitutes byte by byte (no overlap: the repaired size computation is exact) *)
Theorem C16_replace_single_byte : forall c w s, replace [c] w s = flat_map (fun x => if x =? c then w else [x]) s.
Proof. exact replace_single. Qed.
Print Assumptions C16_replace_single_byte.

(* the six sequential passes of encodeXmlText (table regenerated from the source) collapse to one per-byte escape table *)
Theorem C16_encode_is_table : forall s, encodeXmlText s = flat_map xml_esc s.
Proof. exact encodeXmlText_table. Qed.
Print Assumptions C16_encode_is_table.

(* escaped text contains no < > double quote CR LF and every & starts one of the references the writer uses -- all byte strings *)
Theorem C16_escape_no_markup : forall s, no_markup (encodeXmlText s) = true.
Proof. exact escape_no_markup. Qed.
Print Assumptions C16_escape_no_markup.

(* unescaping returns the original text -- all byte strings *)
Theorem C16_unescape_escape : forall s, unescape (encodeXmlText s) = s.
Proof. exact unescape_escape. Qed.
Print Assumptions C16_unescape_escape.

(* file name = cpputest_[package_]group.xml with every forbidden character (table regenerated from the source) replaced by _ *)
Theorem C16_filename : forall pkg group, createFileName pkg group = expected_filename pkg group.
Proof. exact createFileName_spec. Qed.
Print Assumptions C16_filename.

(* the registry's loop with its groupStart flag brackets exactly the maximal runs of equally named groups *)
Theorem C16_registry_order : forall ts, events_of ts = flat_map seg_events (segments ts).
Proof. exact reg_loop_segments. Qed.
Print Assumptions C16_registry_order.

(* the same loop with calls from outside (setPackageName, createFileName) put in front of a test's callbacks: the callbacks are
   those of the registry loop, the segments those of the plain run, and the loop brackets the segments in the same way *)
Theorem C16_outside_calls_keep_callbacks : forall ts b, je_only (oreg_loop b ts) = reg_loop b (map snd ts).
Proof. exact oreg_loop_callbacks. Qed.
Print Assumptions C16_outside_calls_keep_callbacks.

Theorem C16_outside_calls_keep_segments : forall ts, map (map snd) (osegments ts) = segments (map snd ts).
Proof. exact osegments_map. Qed.
Print Assumptions C16_outside_calls_keep_segments.

Theorem C16_registry_order_with_outside_calls : forall ts, oreg_loop true ts = flat_map oseg_events (osegments ts).
Proof. exact oreg_loop_segments. Qed.
Print Assumptions C16_registry_order_with_outside_calls.

(* the package at a time is the argument of the latest setPackageName before it; createFileName calls do not change it *)
Theorem C16_package_latest_wins : forall before p after P,
  existsb is_set after = false -> ops_pkg P (before ++ OSetPkg p :: after) = p.
Proof. exact ops_pkg_latest. Qed.
Print Assumptions C16_package_latest_wins.

(* the XML parser run on anything printed from a well-formed writer tree returns that tree (inside an open element) *)
Theorem C16_parse_print : forall p, ptree_ok p = true -> parses p.
Proof. exact parses_all. Qed.
Print Assumptions C16_parse_print.

(* round trip: every run over printable text, with setPackageName / createFileName called at any points (before the run, before any
   test, after the run), writes one file per group, named by the rule from the package in force when the group ended (trees_of threads
   group_pkg), and each file parses to tree_of; every createFileName call is answered by the rule from the package of its moment,
   whatever was written in between (ops_names over all outside calls in call order) *)
Theorem C16_roundtrip : forall s, valid s = true ->
  map (fun f => (fst f, xml_parse (snd f))) (fst (run s)) = trees_of [] (osegments (s_tests s)) []
  /\ snd (run s) = ops_names [] (flat_map fst (s_tests s) ++ s_post s).
Proof. exact roundtrip. Qed.
Print Assumptions C16_roundtrip.

(* tree_of states the property: suite name and counts, one testcase per test in order with name/file/line,
   skipped iff ignored, failure iff failed with file:line: first message, system-out = the printed text *)
Theorem C16_tree_states_property : forall pkg g printed,
  suite_ok g (printed ++ tests_printed g) (tests_printed g) (tree_of pkg g printed) = true.
Proof. exact suite_ok_tree. Qed.
Print Assumptions C16_tree_states_property.

(* the executable oracle used on the implementation's files accepts every file set the model writes *)
Theorem C16_run_meets_spec : forall s, valid s = true -> spec s (run s) = true.
Proof. exact run_meets_spec. Qed.
Print Assumptions C16_run_meets_spec.

(* the code before the `fix:` commit for D14 (names and paths copied unescaped into attribute values) violated the property *)
Theorem C16_run_old_refuted : ~ (forall s, valid s = true -> spec s (run_old s) = true).
Proof. exact run_old_refuted. Qed.
Print Assumptions C16_run_old_refuted.

(* the parser is strict where it matters: a raw < inside an attribute value and a mismatched end tag are rejected *)
Theorem C16_parser_rejects_lt_in_value : forall S R nm A an q acc cr rest, q <> 60 ->
  run_sm (mk S R (MAttrVal nm A an q acc cr)) (60 :: rest) = None.
Proof. exact value_rejects_lt. Qed.
Print Assumptions C16_parser_rejects_lt_in_value.

Theorem C16_hypotheses_satisfiable :
  valid example_run = true /\ length (fst (run example_run)) = 2%nat /\ spec example_run (run example_run) = true.
Proof. exact example_valid. Qed.
Print Assumptions C16_hypotheses_satisfiable.

(* the example run asks for a name before any package is set, sets the package late, changes it inside and between the groups and
   after the run: answers and file names follow the package of each moment *)
Theorem C16_example_names_follow_package :
  snd (run example_run) = [B "cpputest_G_.xml"%string; B "cpputest_q_H.xml"%string; B "cpputest_H.xml"%string; B "cpputest___H.xml"%string]
  /\ map fst (fst (run example_run)) = [B "cpputest_q_G_.xml"%string; B "cpputest_H.xml"%string].
Proof. exact example_names. Qed.
Print Assumptions C16_example_names_follow_package.
