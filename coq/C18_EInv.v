(* C18 -- environment mode: the cache's lists as a collection of blocks with their kind (size class of the node they hang on,
   None = the non-cached list), how every list operation of the model changes that collection, and the closed forms of the
   model's functions (alloc_hit, link, dealloc, the life of the string the underlying allocator builds for itself). *)
From Coq Require Import NArith Arith Bool List Lia Permutation.
From CppUVerif Require Import gen.Gen_C18 C18_Model C18_Lists C18_Inv C18_Sim C18_ModelG C18_GInv C18_GSim C18_ModelE.
Import ListNotations.
Local Open Scope N_scope.

(* ---------------------------------------------------------------- blocks with their kind *)
Definition kblock : Type := option N * block.
Definition kb_node (nd : node) : list kblock := map (pair (Some (n_size nd))) (n_free nd ++ n_used nd).
Definition ub_node (nd : node) : list kblock := map (pair (Some (n_size nd))) (n_used nd).
Definition kblocks (st : state) : list kblock := flat_map kb_node (s_cache st) ++ map (pair None) (s_non st).   (* everything held *)
Definition ublocks (st : state) : list kblock := flat_map ub_node (s_cache st) ++ map (pair None) (s_non st).   (* handed out *)
Definition kb_ids (kb : kblock) : list N := [b_hdr (snd kb); b_mem (snd kb)].
Definition ids (st : state) : list N := flat_map kb_ids (kblocks st).
Definition outk (st : state) : list kent := map (fun kb => (b_mem (snd kb), fst kb)) (ublocks st).

Lemma kblocks_eq : forall st st', s_cache st' = s_cache st -> s_non st' = s_non st -> kblocks st' = kblocks st /\ ublocks st' = ublocks st.
Proof. intros st st' H1 H2. unfold kblocks, ublocks. rewrite H1, H2. auto. Qed.

Lemma ub_in_kb : forall st x, In x (ublocks st) -> In x (kblocks st).
Proof.
  intros st x H. unfold ublocks, kblocks in *. rewrite in_app_iff in *. destruct H as [H|H]; [left|right; exact H].
  apply in_flat_map in H. destruct H as [nd [H1 H2]]. apply in_flat_map. exists nd. split; [exact H1|].
  unfold ub_node, kb_node in *. apply in_map_iff in H2. destruct H2 as [b [E H2]]. apply in_map_iff. exists b. split; [exact E|].
  apply in_app_iff. right. exact H2.
Qed.
Lemma in_ids : forall st id, In id (ids st) <-> exists k b, In (k, b) (kblocks st) /\ (id = b_hdr b \/ id = b_mem b).
Proof.
  intros st id. unfold ids. rewrite in_flat_map. split.
  - intros [[k b] [H1 H2]]. exists k, b. split; [exact H1|]. simpl in H2. destruct H2 as [H2|[H2|[]]]; auto.
  - intros [k [b [H1 H2]]]. exists (k, b). split; [exact H1|]. simpl. destruct H2 as [H2|H2]; auto.
Qed.
Lemma in_outk : forall st id k, In (id, k) (outk st) <-> exists b, In (k, b) (ublocks st) /\ id = b_mem b.
Proof.
  intros st id k. unfold outk. rewrite in_map_iff. split.
  - intros [[k' b] [E H]]. simpl in E. inversion E; subst. exists b. auto.
  - intros [b [H E]]. exists (k, b). subst. auto.
Qed.
Lemma outk_in_ids : forall st id, In id (map fst (outk st)) -> In id (ids st).
Proof.
  intros st id H. apply in_map_iff in H. destruct H as [[id' k] [E H]]. simpl in E. subst id'.
  apply in_outk in H. destruct H as [b [H E]]. apply in_ids. exists k, b. split; [apply ub_in_kb; exact H | auto].
Qed.

(* ---------------------------------------------------------------- one node replaced, a block added to / taken from the
   non-cached list: the collections up to permutation *)
Lemma flat_map_mid_perm2 : forall (A B : Type) (f : A -> list B) l1 a a' l2 X,
  Permutation (f a') (X ++ f a) -> Permutation (flat_map f (l1 ++ a' :: l2)) (X ++ flat_map f (l1 ++ a :: l2)).
Proof.
  intros A B f l1 a a' l2 X P. pose proof (flat_map_mid_perm A B f l1 a a' l2 X [] P) as Q. rewrite !app_nil_r in Q. exact Q.
Qed.
Lemma kblocks_node : forall st st' l1 nd nd' l2 X,
  s_cache st = l1 ++ nd :: l2 -> s_cache st' = l1 ++ nd' :: l2 -> s_non st' = s_non st ->
  Permutation (kb_node nd') (X ++ kb_node nd) -> Permutation (kblocks st') (X ++ kblocks st).
Proof.
  intros st st' l1 nd nd' l2 X H1 H2 H3 P. unfold kblocks. rewrite H1, H2, H3. rewrite app_assoc. apply Permutation_app_tail.
  apply flat_map_mid_perm2. exact P.
Qed.
Lemma ublocks_node : forall st st' l1 nd nd' l2 X,
  s_cache st = l1 ++ nd :: l2 -> s_cache st' = l1 ++ nd' :: l2 -> s_non st' = s_non st ->
  Permutation (ub_node nd') (X ++ ub_node nd) -> Permutation (ublocks st') (X ++ ublocks st).
Proof.
  intros st st' l1 nd nd' l2 X H1 H2 H3 P. unfold ublocks. rewrite H1, H2, H3. rewrite app_assoc. apply Permutation_app_tail.
  apply flat_map_mid_perm2. exact P.
Qed.
Lemma kblocks_non : forall st st' b, s_cache st' = s_cache st -> s_non st' = b :: s_non st ->
  Permutation (kblocks st') ((None, b) :: kblocks st) /\ Permutation (ublocks st') ((None, b) :: ublocks st).
Proof.
  intros st st' b H1 H2. unfold kblocks, ublocks. rewrite H1, H2. simpl. split; apply Permutation_sym; apply Permutation_middle.
Qed.
Lemma kblocks_non_mid : forall st st' u1 b u2, s_cache st' = s_cache st -> s_non st = u1 ++ b :: u2 -> s_non st' = u1 ++ u2 ->
  Permutation (kblocks st) ((None, b) :: kblocks st') /\ Permutation (ublocks st) ((None, b) :: ublocks st').
Proof.
  intros st st' u1 b u2 H1 H2 H3. unfold kblocks, ublocks. rewrite H1, H2, H3. rewrite !map_app. simpl.
  split; rewrite !app_assoc; apply Permutation_sym; apply Permutation_middle.
Qed.
Lemma ids_perm : forall st st' X, Permutation (kblocks st') (X ++ kblocks st) -> Permutation (ids st') (flat_map kb_ids X ++ ids st).
Proof.
  intros st st' X P. unfold ids. rewrite <- flat_map_app. apply Permutation_flat_map. exact P.
Qed.
Lemma outk_perm : forall st st' X, Permutation (ublocks st') (X ++ ublocks st) ->
  Permutation (outk st') (map (fun kb => (b_mem (snd kb), fst kb)) X ++ outk st).
Proof. intros st st' X P. unfold outk. rewrite <- map_app. apply Permutation_map. exact P. Qed.

(* ---------------------------------------------------------------- the class lookup with the decomposition given *)
Lemma find_first : forall (f : N -> bool) l1 x l2, NoDup (l1 ++ x :: l2) -> find f (l1 ++ x :: l2) = Some x ->
  forall y, In y l1 -> f y = false.
Proof.
  induction l1 as [|a r IH]; intros x l2 Hn Hf y Hy; [destruct Hy|].
  simpl in Hf, Hn. inversion Hn as [|? ? Ha Hr]; subst. destruct (f a) eqn:E.
  - inversion Hf; subst. elim Ha. apply in_or_app. right. left. reflexivity.
  - destruct Hy as [<-|Hy]; [exact E | eapply IH; eauto].
Qed.
Lemma index_from_mid : forall l1 k nd l2 n, (forall y, In y l1 -> (n <=? n_size y) = false) -> (n <=? n_size nd) = true ->
  index_from k (l1 ++ nd :: l2) n = Some (k + length l1)%nat.
Proof.
  induction l1 as [|a r IH]; intros k nd l2 n H1 H2; simpl.
  - rewrite H2. f_equal. lia.
  - rewrite (H1 a (or_introl eq_refl)). rewrite IH; [f_equal; lia | intros y Hy; apply H1; right; exact Hy | exact H2].
Qed.
Lemma set_nth_mid : forall l1 (nd x : node) l2, set_nth (length l1) x (l1 ++ nd :: l2) = l1 ++ x :: l2.
Proof. induction l1 as [|a r IH]; intros; simpl; [reflexivity | f_equal; apply IH]. Qed.
Lemma nth_mid : forall l1 (nd : node) l2, nth (length l1) (l1 ++ nd :: l2) dnode = nd.
Proof. induction l1 as [|a r IH]; intros; simpl; [reflexivity | apply IH]. Qed.

Lemma at_class : forall l1 nd l2 n, map n_size (l1 ++ nd :: l2) = class_sizes -> cls n = Some (n_size nd) ->
  is_cached n = true /\ index_for (l1 ++ nd :: l2) n = length l1.
Proof.
  intros l1 nd l2 n Hs Hc. assert (C : is_cached n = true) by (apply is_cached_cls; eauto). split; [exact C|].
  unfold cls in Hc. unfold is_cached in C. rewrite C in Hc. rewrite <- Hs in Hc. rewrite map_app in Hc. simpl in Hc.
  assert (Hn : NoDup (map n_size l1 ++ n_size nd :: map n_size l2)).
  { pose proof classes_distinct as D. rewrite <- Hs in D. rewrite map_app in D. exact D. }
  pose proof (find_first _ _ _ _ Hn Hc) as F.
  assert (G : (n <=? n_size nd) = true) by (apply find_some in Hc; tauto).
  unfold index_for. rewrite (index_from_mid l1 0 nd l2 n); [reflexivity | | exact G].
  intros y Hy. apply F. apply in_map. exact Hy.
Qed.

Lemma node_eta : forall nd, {| n_size := n_size nd; n_free := n_free nd; n_used := n_used nd |} = nd.
Proof. intros []. reflexivity. Qed.

(* ---------------------------------------------------------------- closed forms *)
Lemma alloc_hit_at : forall st l1 nd l2 b fr n, map n_size (s_cache st) = class_sizes -> s_cache st = l1 ++ nd :: l2 ->
  cls n = Some (n_size nd) -> n_free nd = b :: fr ->
  need st n = None /\
  alloc_hit st n = (with_cache st (l1 ++ {| n_size := n_size nd; n_free := fr; n_used := b :: n_used nd |} :: l2), b_mem b).
Proof.
  intros st l1 nd l2 b fr n Hs Hc Hk Hf. rewrite Hc in Hs. destruct (at_class _ _ _ _ Hs Hk) as [C I].
  unfold need, alloc_hit. cbv zeta. rewrite C, Hc, I, nth_mid, Hf, set_nth_mid. auto.
Qed.
Lemma need_new_at : forall st l1 nd l2 n, map n_size (s_cache st) = class_sizes -> s_cache st = l1 ++ nd :: l2 ->
  cls n = Some (n_size nd) -> n_free nd = [] -> need st n = Some (n_size nd).
Proof.
  intros st l1 nd l2 n Hs Hc Hk Hf. rewrite Hc in Hs. destruct (at_class _ _ _ _ Hs Hk) as [C I].
  unfold need. rewrite C, Hc, I, nth_mid, Hf. reflexivity.
Qed.
Lemma need_non : forall st n, is_cached n = false -> need st n = Some n.
Proof. intros st n C. unfold need. rewrite C. reflexivity. Qed.

Lemma link_cached_at : forall st0 st2 l1 nd l2 n h m, map n_size (s_cache st2) = class_sizes -> s_cache st2 = l1 ++ nd :: l2 ->
  cls n = Some (n_size nd) ->
  link st0 st2 n h m =
  with_cache st2 (l1 ++ {| n_size := n_size nd; n_free := n_free nd; n_used := {| b_hdr := h; b_mem := m |} :: n_used nd |} :: l2).
Proof.
  intros st0 st2 l1 nd l2 n h m Hs Hc Hk. rewrite Hc in Hs. destruct (at_class _ _ _ _ Hs Hk) as [C I].
  unfold link. rewrite C. cbv zeta. rewrite Hc, I, nth_mid, set_nth_mid. reflexivity.
Qed.
Lemma link_non : forall st0 st2 n h m, is_cached n = false ->
  link st0 st2 n h m = {| s_cache := s_cache st2; s_non := {| b_hdr := h; b_mem := m |} :: s_non st0; s_warned := s_warned st2; s_next := s_next st2 |}.
Proof. intros. unfold link. rewrite H. reflexivity. Qed.

Lemma dealloc_cached_at : forall st l1 nd l2 n id, map n_size (s_cache st) = class_sizes -> s_cache st = l1 ++ nd :: l2 ->
  cls n = Some (n_size nd) -> In id (mems (n_used nd)) ->
  exists b u1 u2, n_used nd = u1 ++ b :: u2 /\ b_mem b = id /\
    dealloc st (PId id) n =
    (with_cache st (l1 ++ {| n_size := n_size nd; n_free := b :: n_free nd; n_used := u1 ++ u2 |} :: l2), mk_out [] None false).
Proof.
  intros st l1 nd l2 n id Hs Hc Hk Hin. pose proof Hs as Hs'. rewrite Hc in Hs'. destruct (at_class _ _ _ _ Hs' Hk) as [C I].
  destruct (mems_split _ _ Hin (PId id) eq_refl) as [b [u1 [u2 [U [E1 E2]]]]].
  exists b, u1, u2. split; [exact E1|]. split; [exact E2|].
  unfold dealloc. rewrite C. cbv zeta. rewrite Hc, I, nth_mid, U, set_nth_mid. reflexivity.
Qed.
Lemma dealloc_non_at : forall st n id, is_cached n = false -> In id (mems (s_non st)) ->
  exists b u1 u2, s_non st = u1 ++ b :: u2 /\ b_mem b = id /\
    dealloc st (PId id) n =
    ({| s_cache := s_cache st; s_non := u1 ++ u2; s_warned := s_warned st; s_next := s_next st |}, mk_out (destroy_block n b) None false).
Proof.
  intros st n id C Hin. destruct (mems_split _ _ Hin (PId id) eq_refl) as [b [u1 [u2 [U [E1 E2]]]]].
  exists b, u1, u2. split; [exact E1|]. split; [exact E2|]. unfold dealloc. rewrite C, U. reflexivity.
Qed.

(* ---------------------------------------------------------------- the life of the underlying allocator's own string *)
Inductive life_case (r : N) (st : state) (nx : N) (st' : state) (nx' : N) (evs : list xev) : Prop :=
| LifeHit : forall l1 nd l2 b fr,
    s_cache st = l1 ++ nd :: l2 -> n_free nd = b :: fr -> cls r = Some (n_size nd) ->
    s_cache st' = s_cache st -> s_non st' = s_non st -> nx' = nx -> evs = [XR (b_mem b) 0 r] -> life_case r st nx st' nx' evs
| LifeNew : forall l1 nd l2,
    s_cache st = l1 ++ nd :: l2 -> n_free nd = [] -> cls r = Some (n_size nd) ->
    s_cache st' = l1 ++ {| n_size := n_size nd; n_free := [{| b_hdr := nx; b_mem := nx + 1 |}]; n_used := n_used nd |} :: l2 ->
    s_non st' = s_non st -> nx' = nx + 2 ->
    evs = [XA who_U nx block_hdr_size; XA who_U (nx + 1) (n_size nd); XR (nx + 1) 0 r] -> life_case r st nx st' nx' evs
| LifeNon :
    is_cached r = false -> s_cache st' = s_cache st -> s_non st' = s_non st -> nx' = nx + 2 ->
    evs = [XA who_U nx block_hdr_size; XA who_U (nx + 1) r; XR (nx + 1) 0 r; XF who_U (nx + 1) r; XF who_U nx block_hdr_size] ->
    life_case r st nx st' nx' evs.

Lemma life_cases : forall r st nx st' nx' evs, map n_size (s_cache st) = class_sizes ->
  life r st nx = (st', nx', evs) -> life_case r st nx st' nx' evs.
Proof.
  intros r st nx st' nx' evs Hs L. unfold life in L.
  destruct (is_cached r) eqn:C.
  - assert (Hs0 : map n_size (s_cache (set_next st nx)) = class_sizes) by exact Hs.
    destruct (class_lookup _ r Hs0 C) as [l1 [nd [l2 [H1 [H2 [H3 [H4 H5]]]]]]]. cbn [set_next s_cache] in H1, H2, H3.
    unfold alloc in L. rewrite C in L. cbv zeta in L. cbn [set_next s_cache s_non s_warned s_next] in L. rewrite H2 in L.
    destruct (n_free nd) as [|b fr] eqn:F; unfold create_block in L; cbv beta iota zeta in L; rewrite H3 in L.
    + (* a new block, given back at once: it stays on the free list *)
      cbn [o_ret mk_out b_mem] in L.
      set (nb := {| b_hdr := nx; b_mem := nx + 1 |}) in *.
      set (nd1 := {| n_size := n_size nd; n_free := []; n_used := nb :: n_used nd |}) in *.
      assert (Hs1 : map n_size (l1 ++ nd1 :: l2) = class_sizes) by (rewrite <- Hs, H1; apply map_mid_size; reflexivity).
      assert (K1 : cls r = Some (n_size nd1)) by exact H5.
      destruct (at_class _ _ _ _ Hs1 K1) as [_ I].
      unfold dealloc in L. rewrite C in L. cbv zeta in L. cbn [with_cache set_next s_cache s_non s_warned s_next] in L.
      rewrite I, nth_mid in L. cbn [nd1 n_used n_size n_free unlink mem_is nb b_mem] in L. rewrite N.eqb_refl in L.
      rewrite set_nth_mid in L. cbn [with_cache s_cache s_non s_next o_evs mk_out map xu app] in L.
      inversion L; subst st' nx' evs. clear L.
      eapply LifeNew with (l1 := l1) (nd := nd) (l2 := l2); try reflexivity; try assumption; try lia.
    + cbn [o_ret mk_out with_cache] in L.
      set (nd1 := {| n_size := n_size nd; n_free := fr; n_used := b :: n_used nd |}) in *.
      assert (Hs1 : map n_size (l1 ++ nd1 :: l2) = class_sizes) by (rewrite <- Hs, H1; apply map_mid_size; reflexivity).
      assert (K1 : cls r = Some (n_size nd1)) by exact H5.
      destruct (at_class _ _ _ _ Hs1 K1) as [_ I].
      unfold dealloc in L. rewrite C in L. cbv zeta in L. cbn [with_cache set_next s_cache s_non s_warned s_next] in L.
      rewrite I, nth_mid in L. cbn [nd1 n_used n_size n_free unlink mem_is] in L. rewrite N.eqb_refl in L.
      rewrite set_nth_mid in L. cbn [with_cache s_cache s_non s_next o_evs mk_out map xu app] in L.
      inversion L; subst st' nx' evs. clear L.
      eapply LifeHit with (l1 := l1) (nd := nd) (l2 := l2) (b := b) (fr := fr); try reflexivity; try assumption.
      cbn [with_cache s_cache]. rewrite H1. f_equal. f_equal. rewrite <- F. apply node_eta.
  - unfold alloc in L. rewrite C in L. cbn [set_next s_cache s_non s_warned s_next create_block o_ret mk_out b_mem] in L.
    unfold dealloc in L. rewrite C in L. cbn [s_non unlink mem_is b_mem] in L. rewrite N.eqb_refl in L.
    cbn [s_cache s_non s_next o_evs mk_out map xu app destroy_block b_mem b_hdr] in L.
    inversion L; subst st' nx' evs. clear L. apply LifeNon; try reflexivity; try assumption; try lia.
Qed.

(* the cache's node sizes never change *)
Lemma life_sizes : forall r st nx st' nx' evs, map n_size (s_cache st) = class_sizes -> life r st nx = (st', nx', evs) ->
  map n_size (s_cache st') = class_sizes.
Proof.
  intros r st nx st' nx' evs Hs L. destruct (life_cases _ _ _ _ _ _ Hs L) as [l1 nd l2 b fr H1 _ _ H4 _ _ _|l1 nd l2 H1 _ _ H4 _ _ _|_ H4 _ _ _].
  - rewrite H4. exact Hs.
  - rewrite H4, <- Hs, H1. apply map_mid_size. reflexivity.
  - rewrite H4. exact Hs.
Qed.
