(* C18 -- executable mirror of the string buffer cache (src/CppUTest/SimpleStringInternalCache.cpp):
   cache nodes {size_; freeMemoryHead_; usedMemoryHead_} in index order, the list of non-cached blocks,
   hasWarnedAboutDeallocations; alloc / dealloc / clearCache / clearAllIncludingCurrentlyUsedMemory, constructor and
   destructor.  The underlying TestMemoryAllocator is an oracle of fresh block ids (allocation ordinals); every call the
   cache makes on it is logged as an event.  Pointers are block ids (the cache hands out the start of a block it got
   from the allocator) or foreign pointers.  SimpleStringCacheAllocator::alloc_memory/free_memory forward to
   alloc/dealloc, so the `via` flag of a scenario does not change the model.  No proofs in this file. *)
From Coq Require Import NArith Arith Bool List.
From CppUVerif Require Import gen.Gen_C18.
Import ListNotations.
Local Open Scope N_scope.

(* ---------------------------------------------------------------- underlying allocator calls *)
Inductive ev :=
| EA (id sz : N)      (* allocator_->alloc_memory(sz) returned block number id *)
| EF (id sz : N).     (* allocator_->free_memory(start of block id, sz) *)

(* struct SimpleStringMemoryBlock { next_; memory_ }: the header is itself a block obtained from the allocator *)
Record block := { b_hdr : N; b_mem : N }.
(* struct SimpleStringInternalCacheNode { size_; freeMemoryHead_; usedMemoryHead_ }: lists head first *)
Record node := { n_size : N; n_free : list block; n_used : list block }.
Record state := { s_cache : list node; s_non : list block; s_warned : bool; s_next : N }.

Inductive ptr := PId (id : N) | PFor (k : N).     (* start of block id / a pointer the cache never handed out *)
Definition mem_is (b : block) (p : ptr) : bool := match p with PId m => b_mem b =? m | PFor _ => false end.

Definition dnode : node := {| n_size := 0; n_free := []; n_used := [] |}.
Fixpoint set_nth (i : nat) (x : node) (c : list node) : list node :=
  match c, i with
  | [], _ => []
  | _ :: r, O => x :: r
  | y :: r, S i' => y :: set_nth i' x r
  end.

(* isCached *)
Definition is_cached (n : N) : bool := n <=? cached_bound.
(* getIndexForCache: for (i = 0; i < amount; i++) if (size <= cache_[i].size_) return i;  return 0; *)
Fixpoint index_from (i : nat) (c : list node) (n : N) : option nat :=
  match c with
  | [] => None
  | nd :: r => if n <=? n_size nd then Some i else index_from (S i) r n
  end.
Definition index_for (c : list node) (n : N) : nat := match index_from 0 c n with Some i => i | None => O end.

(* createSimpleStringMemoryBlock(size, next): header first, then the buffer *)
Definition create_block (nx sz : N) : block * list ev * N :=
  ({| b_hdr := nx; b_mem := nx + 1 |}, [EA nx block_hdr_size; EA (nx + 1) sz], nx + 2).
(* destroySimpleStringMemoryBlock(block, size): buffer first (with the size given by the caller), then the header *)
Definition destroy_block (sz : N) (b : block) : list ev := [EF (b_mem b) sz; EF (b_hdr b) block_hdr_size].
(* destroySimpleStringMemoryBlockList: from the head *)
Definition destroy_list (sz : N) (l : list block) : list ev := flat_map (destroy_block sz) l.

(* releaseCachedBlockFrom / releaseNonCachedMemory share one search shape: the head is tested first, then
   `for (block = head; block; block = block->next_) if (block->next_ && block->next_->memory_ == memory)` unlinks
   block->next_.  Result: the unlinked block and the remaining list. *)
Fixpoint unlink_next (cur : block) (rest : list block) (p : ptr) : option (block * list block) :=
  match rest with
  | [] => None
  | nxt :: rest' =>
      if mem_is nxt p then Some (nxt, cur :: rest')
      else match unlink_next nxt rest' p with
           | Some (b, l) => Some (b, cur :: l)
           | None => None
           end
  end.
Definition unlink (l : list block) (p : ptr) : option (block * list block) :=
  match l with
  | [] => None
  | h :: r => if mem_is h p then Some (h, r) else unlink_next h r p
  end.

Inductive lop :=
| LAlloc (n : N)
| LDealloc (p : ptr) (n : N)
| LClearCache
| LClearAll.

(* what one call shows to the outside: the allocator calls it made, the pointer it returned, whether it printed *)
Record out := { o_evs : list ev; o_ret : option N; o_warn : bool }.
Definition mk_out (e : list ev) (r : option N) (w : bool) : out := {| o_evs := e; o_ret := r; o_warn := w |}.

Definition with_cache (st : state) (c : list node) : state :=
  {| s_cache := c; s_non := s_non st; s_warned := s_warned st; s_next := s_next st |}.

(* printDeallocatingUnknownMemory: prints only while hasWarnedAboutDeallocations is false, and sets it *)
Definition unknown_release (st : state) : state * out :=
  ({| s_cache := s_cache st; s_non := s_non st; s_warned := true; s_next := s_next st |},
   mk_out [] None (negb (s_warned st))).

Definition alloc (st : state) (n : N) : state * out :=
  if is_cached n then
    let i := index_for (s_cache st) n in
    let nd := nth i (s_cache st) dnode in
    match n_free nd with
    | b :: fr =>          (* reserveCachedBlockFrom: pop the free list's head, push it on the used list *)
        (with_cache st (set_nth i {| n_size := n_size nd; n_free := fr; n_used := b :: n_used nd |} (s_cache st)),
         mk_out [] (Some (b_mem b)) false)
    | [] =>               (* allocateNewCacheBlockFrom: a new block of the node's size, pushed on the used list *)
        match create_block (s_next st) (n_size nd) with
        | (b, evs, nx) =>
            ({| s_cache := set_nth i {| n_size := n_size nd; n_free := []; n_used := b :: n_used nd |} (s_cache st);
                s_non := s_non st; s_warned := s_warned st; s_next := nx |},
             mk_out evs (Some (b_mem b)) false)
        end
    end
  else
    match create_block (s_next st) n with
    | (b, evs, nx) =>
        ({| s_cache := s_cache st; s_non := b :: s_non st; s_warned := s_warned st; s_next := nx |},
         mk_out evs (Some (b_mem b)) false)
    end.

Definition dealloc (st : state) (p : ptr) (n : N) : state * out :=
  if is_cached n then
    let i := index_for (s_cache st) n in
    let nd := nth i (s_cache st) dnode in
    match unlink (n_used nd) p with
    | Some (b, used') =>
        (with_cache st (set_nth i {| n_size := n_size nd; n_free := b :: n_free nd; n_used := used' |} (s_cache st)),
         mk_out [] None false)
    | None => unknown_release st
    end
  else
    match unlink (s_non st) p with
    | Some (b, non') =>
        ({| s_cache := s_cache st; s_non := non'; s_warned := s_warned st; s_next := s_next st |},
         mk_out (destroy_block n b) None false)
    | None => unknown_release st
    end.

(* clearCache: per node in index order, destroy the free list with the node's size *)
Definition clear_node_free (nd : node) : node * list ev :=
  ({| n_size := n_size nd; n_free := []; n_used := n_used nd |}, destroy_list (n_size nd) (n_free nd)).
(* clearAllIncludingCurrentlyUsedMemory: per node the free list, then the used list *)
Definition clear_node_all (nd : node) : node * list ev :=
  ({| n_size := n_size nd; n_free := []; n_used := [] |},
   destroy_list (n_size nd) (n_free nd) ++ destroy_list (n_size nd) (n_used nd)).
Fixpoint clear_nodes (f : node -> node * list ev) (c : list node) : list node * list ev :=
  match c with
  | [] => ([], [])
  | nd :: r => match f nd, clear_nodes f r with (nd', e1), (r', e2) => (nd' :: r', e1 ++ e2) end
  end.

Definition clear_cache (st : state) : state * out :=
  match clear_nodes clear_node_free (s_cache st) with
  | (c, evs) => (with_cache st c, mk_out evs None false)
  end.
Definition clear_all (st : state) : state * out :=
  match clear_nodes clear_node_all (s_cache st) with
  | (c, evs) =>
      ({| s_cache := c; s_non := []; s_warned := s_warned st; s_next := s_next st |},
       mk_out (evs ++ destroy_list 0 (s_non st)) None false)      (* non-cached blocks: free_memory(memory, 0) *)
  end.

(* constructor: createInternalCacheNodes takes ONE block for all nodes (block 0) *)
Definition node_array_size : N := cache_node_size * n_cache_nodes.
Definition init_state : state :=
  {| s_cache := map (fun s => {| n_size := s; n_free := []; n_used := [] |}) class_sizes;
     s_non := []; s_warned := false; s_next := 1 |}.
Definition init_out : out := mk_out [EA 0 node_array_size] None false.
(* destructor: destroyInternalCacheNode only: the lists are NOT walked *)
Definition destroy (st : state) : state * out := (st, mk_out [EF 0 node_array_size] None false).

Definition step (st : state) (o : lop) : state * out :=
  match o with
  | LAlloc n => alloc st n
  | LDealloc p n => dealloc st p n
  | LClearCache => clear_cache st
  | LClearAll => clear_all st
  end.

Fixpoint exec (st : state) (ops : list lop) : state * list out :=
  match ops with
  | [] => (st, [])
  | o :: r => match step st o with (st1, x) => match exec st1 r with (st2, xs) => (st2, x :: xs) end end
  end.

(* ---------------------------------------------------------------- scenarios *)
Inductive op :=
| OAlloc (n : N)
| ODealloc (k : nat) (n : N)      (* release the pointer returned by the k-th alloc of the scenario, with size n *)
| OForeign (k : N) (n : N)        (* release a buffer that never came from the cache *)
| OClearCache
| OClearAll.
Definition scenario : Type := N * list op.       (* via (0 direct, 1 through SimpleStringCacheAllocator), operations *)

(* uniform observation item: allocator calls, returned pointer as (block id, offset into it), printed a warning *)
Record item := { i_evs : list ev; i_ret : option (N * N); i_warn : bool }.
Definition item_of (x : out) : item :=
  {| i_evs := o_evs x; i_ret := match o_ret x with Some id => Some (id, 0) | None => None end; i_warn := o_warn x |}.
Definition obs := list item.     (* construction; one item per operation; destruction *)

Definition resolve (res : list N) (o : op) : lop :=
  match o with
  | OAlloc n => LAlloc n
  | ODealloc k n => LDealloc (match nth_error res k with Some id => PId id | None => PFor 0 end) n
  | OForeign k n => LDealloc (PFor k) n
  | OClearCache => LClearCache
  | OClearAll => LClearAll
  end.

Fixpoint run_ops (st : state) (res : list N) (ops : list op) : obs :=
  match ops with
  | [] => [item_of (snd (destroy st))]
  | o :: r =>
      match step st (resolve res o) with
      | (st1, x) => item_of x :: run_ops st1 (match o_ret x with Some id => res ++ [id] | None => res end) r
      end
  end.
Definition run (s : scenario) : obs := item_of init_out :: run_ops init_state [] (snd s).

(* a release names an earlier alloc of the scenario *)
Fixpoint valid_ops (nalloc : nat) (ops : list op) : bool :=
  match ops with
  | [] => true
  | OAlloc _ :: r => valid_ops (S nalloc) r
  | ODealloc k _ :: r => (k <? nalloc)%nat && valid_ops nalloc r
  | _ :: r => valid_ops nalloc r
  end.
Definition valid (s : scenario) : bool := valid_ops 0 (snd s).

(* ---------------------------------------------------------------- spec: the property, as a model-free oracle over
   the observation.  It keeps its own books from the allocator calls and the returned pointers alone:
     sizes   size of every block the cache obtained, by block id (ids are allocation ordinals)
     freed   ids given back so far
     live    buffers handed out and not (knowingly) released: (block id, offset, requested size)
     seen    every block ever handed out with the size class of its first request
     ptrs    the pointer returned by each alloc of the scenario (to resolve releases)
   A release is KNOWN when its pointer is live and the given size is of the same class as the requested one; only then
   does the buffer stop being in use. *)
(* size class of a request: the size of the first class that holds it; None = above the bound (not cached) *)
Definition cls (n : N) : option N := if n <=? cached_bound then find (fun s => n <=? s) class_sizes else None.

(* the allocator's books: size of every block obtained so far by id, ids given back so far *)
Definition books : Type := list N * list N.
Record sstate := { a_bk : books; a_live : list (N * N * N); a_seen : list (N * option N);
                   a_warned : bool; a_ptrs : list (N * N) }.
Definition memN (x : N) (l : list N) : bool := existsb (N.eqb x) l.
(* the bound test comes first so that an id the allocator never handed out (the harness prints 0xffffffff for a release of unknown
   memory) is never turned into a unary number *)
Definition szof (sizes : list N) (id : N) : option N :=
  if id <? N.of_nat (length sizes) then nth_error sizes (N.to_nat id) else None.
(* the size passed down with a block: the size it was obtained with; blocks above the cached bound carry no size in the
   cache, there the caller's size (dealloc) or 0 (clear) is passed on *)
Definition size_ok (a f caller : N) : bool := (f =? a) || ((cached_bound <? a) && (f =? caller)).

(* one allocator call: ids are fresh and consecutive; a block is given back at most once, only if obtained, with its
   size, and never while a buffer inside it is in use (prot = ids that must not be given back now) *)
Definition apply_ev (caller : N) (prot : list N) (bk : books) (e : ev) : option books :=
  match e with
  | EA id sz => if id =? N.of_nat (length (fst bk)) then Some (fst bk ++ [sz], snd bk) else None
  | EF id sz =>
      match szof (fst bk) id with
      | None => None
      | Some a => if memN id (snd bk) || negb (size_ok a sz caller) || memN id prot then None
                  else Some (fst bk, id :: snd bk)
      end
  end.
Fixpoint apply_evs (caller : N) (prot : list N) (bk : books) (l : list ev) : option books :=
  match l with
  | [] => Some bk
  | e :: r => match apply_ev caller prot bk e with Some bk1 => apply_evs caller prot bk1 r | None => None end
  end.

Definition ids_of (l : list (N * N * N)) : list N := map (fun e => fst (fst e)) l.
Definition span (n : N) : N := N.max n 1.
Definition overlaps (id off n : N) (e : N * N * N) : bool :=
  match e with (id', off', n') => (id =? id') && (off <? off' + span n') && (off' <? off + span n) end.
Definition same_ptr (id off : N) (e : N * N * N) : bool := match e with (id', off', _) => (id =? id') && (off =? off') end.
Fixpoint seen_cls (l : list (N * option N)) (id : N) : option (option N) :=
  match l with
  | [] => None
  | (id', c) :: r => if id =? id' then Some c else seen_cls r id
  end.
Fixpoint range_from (a : N) (k : nat) : list N := match k with O => [] | S k' => a :: range_from (a + 1) k' end.
Definition optN_eqb (a b : option N) : bool :=
  match a, b with Some x, Some y => x =? y | None, None => true | _, _ => false end.

Definition mk_s (bk : books) (l : list (N * N * N)) (sn : list (N * option N)) (w : bool) (p : list (N * N)) : sstate :=
  {| a_bk := bk; a_live := l; a_seen := sn; a_warned := w; a_ptrs := p |}.

(* alloc(n) returned (id, off) *)
Definition check_alloc (s : sstate) (n : N) (it : item) : option sstate :=
  match apply_evs 0 (ids_of (a_live s)) (a_bk s) (i_evs it), i_ret it with
  | Some bk, Some (id, off) =>
      match szof (fst bk) id with
      | None => None                                                         (* not memory the cache owns *)
      | Some a =>
          if memN id (snd bk) then None                                      (* already given back *)
          else if negb (off + n <=? a) then None                             (* capacity >= requested size *)
          else if existsb (overlaps id off n) (a_live s) then None           (* overlaps a buffer in use *)
          else if i_warn it then None
          else match seen_cls (a_seen s) id with
               | Some c => if optN_eqb c (cls n)                             (* reuse only within its size class *)
                           then Some (mk_s bk ((id, off, n) :: a_live s) (a_seen s) (a_warned s) (a_ptrs s ++ [(id, off)]))
                           else None
               | None => Some (mk_s bk ((id, off, n) :: a_live s) ((id, cls n) :: a_seen s) (a_warned s) (a_ptrs s ++ [(id, off)]))
               end
      end
  | _, _ => None
  end.

Fixpoint find_live (l : list (N * N * N)) (id off : N) : option N :=
  match l with
  | [] => None
  | e :: r => if same_ptr id off e then Some (snd e) else find_live r id off
  end.
Fixpoint drop_live (l : list (N * N * N)) (id off : N) : list (N * N * N) :=
  match l with
  | [] => []
  | e :: r => if same_ptr id off e then r else e :: drop_live r id off
  end.

(* is dealloc(p, n) the release of a buffer in use, with a size of the class it was requested in? *)
Definition known (s : sstate) (p : option (N * N)) (n : N) : bool :=
  match p with
  | Some (id, off) => match find_live (a_live s) id off with
                      | Some req => optN_eqb (cls req) (cls n)
                      | None => false
                      end
  | None => false
  end.

(* dealloc(p, n); p = None for a foreign pointer *)
Definition check_dealloc (s : sstate) (p : option (N * N)) (n : N) (it : item) : option sstate :=
  match i_ret it with
  | Some _ => None
  | None =>
      if known s p n then
        match p with
        | Some (id, off) =>
            let live' := drop_live (a_live s) id off in
            match apply_evs n (ids_of live') (a_bk s) (i_evs it) with
            | Some bk => if i_warn it then None else Some (mk_s bk live' (a_seen s) (a_warned s) (a_ptrs s))
            | None => None
            end
        | None => None
        end
      else
        match apply_evs n (ids_of (a_live s)) (a_bk s) (i_evs it) with
        | Some bk =>
            (* one-time warning: printed exactly at the first unknown release *)
            if Bool.eqb (i_warn it) (negb (a_warned s))
            then Some (mk_s bk (a_live s) (a_seen s) true (a_ptrs s))
            else None
        | None => None
        end
  end.

(* clearCache: nothing in use is touched; every block handed out earlier and not in use now is back at the allocator *)
Definition check_clear_cache (s : sstate) (it : item) : option sstate :=
  match apply_evs 0 (ids_of (a_live s)) (a_bk s) (i_evs it), i_ret it, i_warn it with
  | Some bk, None, false =>
      if forallb (fun e => memN (fst e) (snd bk) || memN (fst e) (ids_of (a_live s))) (a_seen s)
      then Some (mk_s bk (a_live s) (a_seen s) (a_warned s) (a_ptrs s)) else None
  | _, _, _ => None
  end.
(* clearAll: everything obtained since construction is back (buffers in use included: they stop being in use) *)
Definition check_clear_all (nctor : nat) (s : sstate) (it : item) : option sstate :=
  match apply_evs 0 [] (a_bk s) (i_evs it), i_ret it, i_warn it with
  | Some bk, None, false =>
      if forallb (fun id => memN id (snd bk)) (range_from (N.of_nat nctor) (length (fst bk) - nctor))
      then Some (mk_s bk [] (a_seen s) (a_warned s) (a_ptrs s)) else None
  | _, _, _ => None
  end.
(* destruction: what construction obtained is back; if everything else was back before, nothing is outstanding now *)
Definition check_destroy (nctor : nat) (s : sstate) (it : item) : bool :=
  match apply_evs 0 [] (a_bk s) (i_evs it), i_ret it, i_warn it with
  | Some bk, None, false => forallb (fun id => memN id (snd bk)) (range_from 0 nctor)
  | _, _, _ => false
  end.

Definition check_op (nctor : nat) (s : sstate) (o : op) (it : item) : option sstate :=
  match o with
  | OAlloc n => check_alloc s n it
  | ODealloc k n => check_dealloc s (nth_error (a_ptrs s) k) n it
  | OForeign _ n => check_dealloc s None n it
  | OClearCache => check_clear_cache s it
  | OClearAll => check_clear_all nctor s it
  end.
Fixpoint check_ops (nctor : nat) (s : sstate) (ops : list op) (o : obs) : bool :=
  match ops, o with
  | [], [it] => check_destroy nctor s it
  | op1 :: r, it :: o' => match check_op nctor s op1 it with Some s1 => check_ops nctor s1 r o' | None => false end
  | _, _ => false
  end.

(* construction obtains memory, returns nothing, prints nothing *)
Definition spec (sc : scenario) (o : obs) : bool :=
  match o with
  | it0 :: o' =>
      match apply_evs 0 [] ([], []) (i_evs it0), i_ret it0, i_warn it0 with
      | Some bk, None, false => check_ops (length (fst bk)) (mk_s bk [] [] false []) (snd sc) o'
      | _, _, _ => false
      end
  | [] => false
  end.
