(* C08 -- a run of several tests with the MockSupportPlugin installed (C08_Model.v: body_from / run_one / run_tests / spec_run),
   and the object of a call as a value (the expected-object flag and the pointer are different things: onObject(NULLPTR) is an
   expectation on the null object, not "no object expected").
   Main results: every test of a run is the single scenario "its mock operations, then the plugin's end-of-test check" run on a
   new mock (the run's observation is the list of the tests' own observations with the failure counter summed up), the run meets
   its specification, and three variants of the post action are refuted. *)
From Coq Require Import ZArith NArith Bool List Lia.
From CppUVerif Require Import lib.CInt lib.Str C08_Model C08_Proofs C08_Proofs2 C08_Scopes C08_Count C08_Outs C08_Post C08_Proofs3.
Import ListNotations.
Local Open Scope N_scope.

(* ---------------------------------------------------------------- the body of a test against the scenario runner *)
Definition obs_end (ea : bend * acc) : obs :=
  match fst ea with
  | BDone w => mk_obs None (add_effect (snd ea) (post_effect (post_world w)))
  | BMock j fl => mk_obs (Some (j, fl)) (snd ea)
  | BOwn _ => mk_obs None (snd ea)
  end.

Lemma own_fails_cons_op so r : own_fails (TOp so :: r) = own_fails r. Proof. reflexivity. Qed.
Lemma own_fails_cons_ok r : own_fails (TCheck true :: r) = own_fails r. Proof. reflexivity. Qed.

(* no failing check of its own: the body followed by the plugin's action is the scenario "operations, then OPost" *)
Lemma body_runw_post : forall t w i a, own_fails t = false ->
  obs_end (body_from true w i t a) = runw_from true w i (ops_before t ++ [(0, OPost)]) a.
Proof.
  induction t as [|s r IH]; intros w i a H.
  - reflexivity.
  - destruct s as [so|[|]].
    + rewrite own_fails_cons_op in H. cbn [body_from ops_before app runw_from].
      destruct (stepw true w so) as [[w' rv]|fl]; [apply IH; exact H|reflexivity].
    + rewrite own_fails_cons_ok in H. cbn [body_from ops_before]. apply IH; exact H.
    + discriminate H.
Qed.

(* a failing check of its own: the body is the scenario "operations before that check", cut there or at a mock failure before it *)
Lemma body_runw_cut : forall t w i a, own_fails t = true ->
  body_failed (fst (body_from true w i t a)) = true /\
  obs_end (body_from true w i t a) = runw_from true w i (ops_before t) a.
Proof.
  induction t as [|s r IH]; intros w i a H.
  - discriminate H.
  - destruct s as [so|[|]].
    + rewrite own_fails_cons_op in H. cbn [body_from ops_before runw_from].
      destruct (stepw true w so) as [[w' rv]|fl]; [apply IH; exact H|split; reflexivity].
    + rewrite own_fails_cons_ok in H. cbn [body_from ops_before]. apply IH; exact H.
    + split; reflexivity.
Qed.

Lemma body_own_fails : forall t w i a w' a', body_from true w i t a = (BOwn w', a') -> own_fails t = true.
Proof.
  induction t as [|s r IH]; intros w i a w' a' H; [discriminate H|].
  destruct s as [so|[|]].
  - cbn [body_from] in H. destruct (stepw true w so) as [[w1 rv]|fl]; [|discriminate H]. rewrite own_fails_cons_op. eapply IH; exact H.
  - cbn [body_from] in H. rewrite own_fails_cons_ok. eapply IH; exact H.
  - reflexivity.
Qed.

Lemma body_done_own : forall t w i a w' a', body_from true w i t a = (BDone w', a') -> own_fails t = false.
Proof.
  intros t w i a w' a' H. destruct (own_fails t) eqn:E; [|reflexivity].
  destruct (body_runw_cut t w i a E) as [F _]. rewrite H in F. discriminate F.
Qed.

Lemma body_mock_index : forall t w i a j fl a', body_from true w i t a = (BMock j fl, a') ->
  i <= j /\ j < i + N.of_nat (length (ops_before t)).
Proof.
  induction t as [|s r IH]; intros w i a j fl a' H; [discriminate H|].
  destruct s as [so|[|]]; cbn [body_from ops_before length] in *.
  - destruct (stepw true w so) as [[w1 rv]|fl1].
    + apply IH in H. lia.
    + inversion H; subst. lia.
  - eapply IH; exact H.
  - discriminate H.
Qed.

Lemma body_post_nil : forall t w i a e a', forallb step_valid t = true -> a_post a = [] ->
  body_from true w i t a = (e, a') -> a_post a' = [].
Proof.
  induction t as [|s r IH]; intros w i a e a' V A H.
  - inversion H; subst. exact A.
  - cbn [forallb] in V. apply andb_prop in V. destruct V as [V1 V2]. destruct s as [[sc o]|[|]]; cbn [body_from] in H.
    + destruct (stepw true w (sc, o)) as [[w1 rv]|fl] eqn:S.
      * eapply IH; [exact V2| |exact H]. unfold add_effect. cbn [a_post].
        assert (X : r_post rv = []). { eapply stepw_post_nil; [|exact S]. intro Y. subst o. discriminate V1. }
        rewrite X, A. reflexivity.
      * inversion H; subst. exact A.
    + eapply IH; [exact V2|exact A|exact H].
    + inversion H; subst. exact A.
Qed.

Lemma mk_obs_quiet fl a : mk_obs fl (add_effect a (post_effect [])) = mk_obs fl a.
Proof. reflexivity. Qed.
Lemma o_post_mk fl a fs : a_post a = [] -> o_post (mk_obs fl (add_effect a (post_effect fs))) = fs.
Proof. intro H. unfold mk_obs, add_effect. cbn. rewrite H, app_nil_r, rev_involutive. reflexivity. Qed.
Lemma o_fail_mk fl a : o_fail (mk_obs fl a) = fl. Proof. reflexivity. Qed.

(* ---------------------------------------------------------------- one test of a run *)
(* whatever a test did and however it ended, the plugin leaves mock() as a new one *)
Theorem run_one_clears st t : rs_world (fst (run_one plugin_post true st t)) = world0.
Proof. unfold run_one. destruct (body_from true (rs_world st) 0 t acc0) as [e a]. reflexivity. Qed.

Theorem run_tests_clean : forall ts st, rs_world st = world0 -> rs_world (fst (run_tests plugin_post true st ts)) = world0.
Proof.
  induction ts as [|t r IH]; intros st H; [exact H|].
  cbn [run_tests]. pose proof (run_one_clears st t) as C. destruct (run_one plugin_post true st t) as [st1 o].
  specialize (IH st1 C). destruct (run_tests plugin_post true st1 r) as [st2 os]. exact IH.
Qed.

(* a test in a run that starts on a new mock = the test run alone, its failure counter added to the run's *)
Definition shift (n : N) (o : tobs) : tobs := {| to_obs := to_obs o; to_own := to_own o; to_total := n + to_total o |}.
Lemma run_one_alone st t : rs_world st = world0 ->
  run_one plugin_post true st t = ({| rs_world := world0; rs_failures := rs_failures st + to_total (run_alone t) |},
                                   shift (rs_failures st) (run_alone t)).
Proof.
  intro H. unfold run_alone, run_one. rewrite H. cbn [rstate0 rs_world rs_failures].
  destruct (body_from true world0 0 t acc0) as [e a]. unfold plugin_post, shift. cbn [snd to_obs to_own to_total].
  f_equal; [f_equal; lia|f_equal; lia].
Qed.

Fixpoint sums (n : N) (os : list tobs) : list tobs :=
  match os with [] => [] | o :: r => shift n o :: sums (n + to_total o) r end.
(* the run is the list of its tests run alone, the failure counter summed up: nothing else passes from one test to the next *)
Theorem runs_independent_gen : forall ts st, rs_world st = world0 ->
  snd (run_tests plugin_post true st ts) = sums (rs_failures st) (map run_alone ts).
Proof.
  induction ts as [|t r IH]; intros st H; [reflexivity|].
  cbn [run_tests map sums]. rewrite (run_one_alone st t H).
  specialize (IH {| rs_world := world0; rs_failures := rs_failures st + to_total (run_alone t) |} eq_refl).
  destruct (run_tests plugin_post true _ r) as [st2 os]. cbn [snd] in *. rewrite IH. reflexivity.
Qed.
Theorem runs_independent ts : runs ts = sums 0 (map run_alone ts).
Proof. apply (runs_independent_gen ts rstate0 eq_refl). Qed.

(* the observation of test k of a run is that of test k alone *)
Lemma sums_nth : forall os n k o, nth_error (sums n os) k = Some o ->
  exists o0, nth_error os k = Some o0 /\ to_obs o = to_obs o0 /\ to_own o = to_own o0 /\
             to_total o = n + fold_right (fun x s => to_total x + s) 0 (firstn k os) + to_total o0.
Proof.
  induction os as [|x r IH]; intros n k o H; [destruct k; discriminate H|].
  destruct k as [|k]; cbn [sums nth_error] in H.
  - inversion H; subst. exists x. cbn. repeat split. lia.
  - apply IH in H. destruct H as [o0 [A [B [C D]]]]. exists o0. cbn [nth_error firstn fold_right]. repeat split; try assumption. lia.
Qed.
Theorem run_test_alone ts k t o : nth_error ts k = Some t -> nth_error (runs ts) k = Some o ->
  to_obs o = to_obs (run_alone t) /\ to_own o = to_own (run_alone t) /\
  to_total o = fold_right (fun x s => to_total (run_alone x) + s) 0 (firstn k ts) + to_total (run_alone t).
Proof.
  intros Ht Ho. rewrite runs_independent in Ho. apply sums_nth in Ho. destruct Ho as [o0 [A [B [C D]]]].
  rewrite nth_error_map, Ht in A. cbn in A. inversion A; subst o0. repeat split; try assumption.
  rewrite D, firstn_map. cbn. f_equal. clear. induction (firstn k ts) as [|x r IH]; [reflexivity|]. cbn. rewrite IH. reflexivity.
Qed.

(* a test whose own checks pass: its observation is that of the scenario "its mock operations, then the plugin's check" *)
Theorem run_alone_is_scenario t : own_fails t = false ->
  to_obs (run_alone t) = runw (ops_before t ++ [(0, OPost)]) /\ to_own (run_alone t) = false.
Proof.
  intro H. unfold run_alone, run_one. cbn [rstate0 rs_world rs_failures].
  pose proof (body_runw_post t world0 0 acc0 H) as E. destruct (body_from true world0 0 t acc0) as [e a] eqn:B.
  unfold runw, runw_gen. rewrite <- E. unfold obs_end. cbn [fst snd]. destruct e as [w|j fl|w]; cbn.
  - split; reflexivity.
  - split; reflexivity.
  - apply body_own_fails in B. congruence.
Qed.

(* a test left at its own failing check (or at a mock failure before it): the operations before the check, exactly one failure,
   nothing from the plugin *)
Theorem run_alone_own_failure t : own_fails t = true ->
  to_obs (run_alone t) = runw (ops_before t) /\ to_total (run_alone t) = 1 /\
  to_own (run_alone t) = passed_obs (to_obs (run_alone t)).
Proof.
  intro H. unfold run_alone, run_one. cbn [rstate0 rs_world rs_failures].
  destruct (body_runw_cut t world0 0 acc0 H) as [F E]. destruct (body_from true world0 0 t acc0) as [e a] eqn:B.
  unfold runw, runw_gen. rewrite <- E. unfold obs_end. cbn [fst snd] in *. destruct e as [w|j fl|w]; [discriminate F| |]; cbn; repeat split.
Qed.

(* the failures a test adds to the run's counter are the failures observed in it *)
Theorem run_alone_counts t : forallb step_valid t = true -> to_total (run_alone t) = failures_in (run_alone t).
Proof.
  intro V. unfold run_alone, run_one, failures_in. cbn [rstate0 rs_world rs_failures].
  destruct (body_from true world0 0 t acc0) as [e a] eqn:B.
  pose proof (body_post_nil t world0 0 acc0 e a V eq_refl B) as P.
  destruct e as [w|j fl|w]; cbn [snd to_obs to_own to_total plugin_post body_failed left_world]; rewrite o_post_mk by exact P; rewrite o_fail_mk; cbn; lia.
Qed.

(* ---------------------------------------------------------------- the run meets its specification *)
Lemma spec_test_alone t n : forallb step_valid t = true -> spec_test t n (shift n (run_alone t)) = true.
Proof.
  intro V. unfold spec_test. cbn [shift to_obs to_own to_total].
  assert (D : failures_in (shift n (run_alone t)) = failures_in (run_alone t)) by reflexivity.
  rewrite D, <- (run_alone_counts t V), N.eqb_refl. cbn [andb].
  destruct (own_fails t) eqn:O.
  - destruct (run_alone_own_failure t O) as [E [T W]]. rewrite W, E.
    rewrite coherent_run. cbn [andb].
    assert (P : o_post (runw (ops_before t)) = []).
    { rewrite <- E. unfold run_alone, run_one. cbn [rstate0 rs_world rs_failures].
      destruct (body_from true world0 0 t acc0) as [e a] eqn:B.
      pose proof (body_post_nil t world0 0 acc0 e a V eq_refl B) as P.
      destruct (body_runw_cut t world0 0 acc0 O) as [F _]. rewrite B in F. cbn [fst] in F.
      destruct e; [discriminate F| |]; cbn [snd to_obs plugin_post body_failed left_world]; apply o_post_mk; exact P. }
    rewrite P. cbn [is_nil andb].
    destruct (o_fail (runw (ops_before t))) as [[i fl]|] eqn:Fl; unfold passed_obs; rewrite Fl; [|reflexivity].
    cbn [negb andb]. apply N.ltb_lt.
    rewrite <- E in Fl. unfold run_alone, run_one in Fl. cbn [rstate0 rs_world rs_failures] in Fl.
    destruct (body_from true world0 0 t acc0) as [e a] eqn:B.
    destruct e as [w|j fl1|w]; cbn in Fl; try discriminate Fl.
    inversion Fl; subst. apply body_mock_index in B. lia.
  - destruct (run_alone_is_scenario t O) as [E W]. rewrite W, E. cbn [negb andb]. apply runw_meets_specw.
Qed.

Lemma spec_sums : forall ts n, forallb (forallb step_valid) ts = true -> spec_run_from n ts (sums n (map run_alone ts)) = true.
Proof.
  induction ts as [|t r IH]; intros n V; [reflexivity|].
  cbn [forallb] in V. apply andb_prop in V. destruct V as [V1 V2].
  cbn [map sums spec_run_from]. rewrite (spec_test_alone t n V1). cbn [andb shift to_total]. apply IH. exact V2.
Qed.

Theorem runs_meet_spec ts : valid_run ts = true -> spec_run ts (runs ts) = true.
Proof. intro V. rewrite runs_independent. apply spec_sums. exact V. Qed.

Theorem run_top_meets_spec s : valid_top s = true -> spec_top s (run_top s) = true.
Proof. destruct s as [ops|ts]; intro V; [apply runw_meets_specw|apply runs_meet_spec; exact V]. Qed.

(* ---------------------------------------------------------------- the verdict of one test of a run, on M *)
Lemma post_to_check_app : forall ops, post_to_check (ops ++ [(0, OPost)]) = Some (ops ++ [(0, OCheck)]).
Proof.
  induction ops as [|[s o] r IH]; [reflexivity|].
  cbn [app]. destruct (r ++ [(0, OPost)]) as [|x r2] eqn:E; [destruct r; discriminate E|].
  assert (G : post_to_check ((s, o) :: x :: r2) = match post_to_check (x :: r2) with Some r' => Some ((s, o) :: r') | None => None end).
  { destruct s; destruct o; reflexivity. }
  rewrite G, IH. reflexivity.
Qed.
Lemma parsew_post_none ops : parsew (ops ++ [(0, OPost)]) = None.
Proof.
  destruct (parsew (ops ++ [(0, OPost)])) as [k|] eqn:E; [|reflexivity].
  apply parsew_inv in E. unfold canonw_ops in E. rewrite !app_assoc in E. apply app_inj_tail in E. destruct E as [_ E]. discriminate E.
Qed.

(* test t (own checks pass, mock script canonical and judged) adds no failure to the run iff in every scope the multiset (strict:
   the sequence) of its actual calls is that of its expectations *)
Theorem run_alone_verdict t k : forallb step_valid t = true -> own_fails t = false ->
  parsew (ops_before t ++ [(0, OCheck)]) = Some k -> judgedw k = true ->
  (to_total (run_alone t) = 0 <-> verdictw_ok k = true).
Proof.
  intros V O Hp Hj. rewrite (run_alone_counts t V). unfold failures_in.
  destruct (run_alone_is_scenario t O) as [E W]. rewrite W, E.
  pose proof (runw_meets_specw (ops_before t ++ [(0, OPost)])) as S. unfold specw in S.
  rewrite parsew_post_none, post_to_check_app, Hp, Hj in S. cbn [negb] in S.
  apply andb_prop in S. destruct S as [_ S]. unfold specw_post in S.
  apply andb_prop in S. destruct S as [S _]. apply andb_prop in S. destruct S as [S _]. apply andb_prop in S. destruct S as [S _].
  apply eqb_prop in S. rewrite <- S. unfold passed_post, passed_obs.
  set (o := runw (ops_before t ++ [(0, OPost)])). destruct (o_fail o); destruct (o_post o); cbn; split; intro X; try reflexivity; try discriminate X; lia.
Qed.

(* ---------------------------------------------------------------- variants of the post action without the property *)
Definition plugin_ok (pl : plugin_t) : Prop := forall ts, valid_run ts = true -> spec_run ts (runs_gen pl ts) = true.

(* fail(own check) ; expect f0 once, never called *)
Definition t_fail : test := [TCheck false].
Definition t_unfulfilled : test := [TOp (0, OExpect 1 0 [] [] None None false)].
Definition t_match : test := [TOp (0, OExpect 1 0 [] [] None None false); TOp (0, OCall 0 [] false)].
(* expect f0, own check fails before the call *)
Definition t_cut : test := [TOp (0, OExpect 1 0 [] [] None None false); TCheck false; TOp (0, OCall 0 [] false)].

Theorem plugin_runwide_refuted : ~ plugin_ok plugin_runwide.
Proof. intro H. specialize (H [t_fail; t_unfulfilled] eq_refl). vm_compute in H. discriminate H. Qed.
Theorem plugin_always_refuted : ~ plugin_ok plugin_always.
Proof. intro H. specialize (H [t_cut] eq_refl). vm_compute in H. discriminate H. Qed.
Theorem plugin_noclear_refuted : ~ plugin_ok plugin_noclear.
Proof. intro H. specialize (H [t_cut; t_match] eq_refl). vm_compute in H. discriminate H. Qed.

(* the hypotheses are satisfiable / the statements are not vacuous *)
Example example_run : spec_run [t_fail; t_unfulfilled; t_match; t_cut; t_match] (runs [t_fail; t_unfulfilled; t_match; t_cut; t_match]) = true
  /\ map to_total (runs [t_fail; t_unfulfilled; t_match; t_cut; t_match]) = [1; 2; 2; 3; 3].
Proof. split; vm_compute; reflexivity. Qed.
Example example_run_judged : exists k, parsew (ops_before t_unfulfilled ++ [(0, OCheck)]) = Some k /\ judgedw k = true /\ verdictw_ok k = false
  /\ to_total (run_alone t_unfulfilled) = 1.
Proof. eexists. split; [reflexivity|]. split; vm_compute; auto. Qed.
Example example_runwide_differs : map to_total (runs_gen plugin_runwide [t_fail; t_unfulfilled]) = [1; 1].
Proof. vm_compute. reflexivity. Qed.

(* ---------------------------------------------------------------- the object of a call is a value *)
Local Open Scope Z_scope.
(* relatesToObject: an expectation that names an object -- the null object included -- relates to that object only; one that
   names none relates to every object -- the null object included *)
Theorem relates_obj_iff a e : relates_obj a e = true <-> (e_obj e = None \/ e_obj e = Some a).
Proof.
  unfold relates_obj. destruct (e_obj e) as [b|].
  - rewrite Z.eqb_eq. split; [intro; subst; auto|intros [X|X]; [discriminate X|inversion X; reflexivity]].
  - split; auto.
Qed.
Theorem relates_null_object e : e_obj e = Some 0 -> forall a, relates_obj a e = true <-> a = 0.
Proof. intros H a. rewrite relates_obj_iff, H. split; [intros [X|X]; [discriminate X|inversion X; reflexivity]|intro; subst; auto]. Qed.

(* the property's "same object" on the reference semantics: a call is what an expectation on object b describes only if it is made
   on b (every onObject it passes names b, and it passes one) -- for b = 0 as for any other *)
Theorem matches_object e f its b : sx_obj e = Some b -> matches e f its = true ->
  objs_of its <> [] /\ forall a, In a (objs_of its) -> a = b.
Proof.
  intros H M. unfold matches in M. apply andb_prop in M. destruct M as [M C]. apply andb_prop in M. destruct M as [_ A].
  unfold covers in C. rewrite H in C. apply andb_prop in C. destruct C as [_ C]. split.
  - intro X. rewrite X in C. discriminate C.
  - intros a Ia. unfold agrees_upto in A. rewrite forallb_forall in A. unfold objs_of in Ia. apply in_flat_map in Ia.
    destruct Ia as [it [I1 I2]]. specialize (A it I1). destruct it; cbn in I2; try contradiction. destruct I2 as [I2|[]]. subst.
    cbn in A. rewrite H in A. apply Z.eqb_eq in A. auto.
Qed.

(* one expectation on object b, one call: on object a / on no object.  Passes iff the call is made on b; on another object it fails
   at once with "unexpected object", with no object at the check with "expected call on object ... did not happen" *)
Definition obj_scenario (b : Z) (its : list item) : list (N * op) :=
  [(0%N, OExpect 1%N 0%N [] [] (Some b) None false); (0%N, OCall 0%N its false); (0%N, OCheck)].
Theorem object_verdict b a :
  (passed_obs (runw (obj_scenario b [IObj a])) = true <-> a = b) /\
  (a <> b -> exists fl, o_fail (runw (obj_scenario b [IObj a])) = Some (1%N, fl) /\ f_kind fl = FObjectUnexpected 0%N) /\
  (exists fl, o_fail (runw (obj_scenario b [])) = Some (2%N, fl) /\ f_kind fl = FObjectMissing 0%N).
Proof.
  split; [|split].
  - cbv -[Z.eqb]. destruct (Z.eqb_spec b a) as [E|E]; cbv.
    + split; [intro; auto|reflexivity].
    + split; [intro X; discriminate X|intro X; subst; contradiction].
  - intro N. cbv -[Z.eqb]. destruct (Z.eqb_spec b a) as [E|E]; [subst; contradiction|].
    cbv. eexists. split; reflexivity.
  - cbv. eexists. split; reflexivity.
Qed.
(* an expectation that names no object accepts the call on any object, the null object included, and on none *)
Definition noobj_scenario (its : list item) : list (N * op) :=
  [(0%N, OExpect 1%N 0%N [] [] None None false); (0%N, OCall 0%N its false); (0%N, OCheck)].
Theorem no_object_expected a : passed_obs (runw (noobj_scenario [IObj a])) = true /\ passed_obs (runw (noobj_scenario [])) = true.
Proof. split; reflexivity. Qed.
Example example_null_object :
  passed_obs (runw (obj_scenario 0 [IObj 0])) = true /\ passed_obs (runw (obj_scenario 0 [IObj 4096])) = false /\
  passed_obs (runw (obj_scenario 4096 [IObj 0])) = false /\ passed_obs (runw (obj_scenario 0 [])) = false /\
  specw (obj_scenario 0 [IObj 4096]) (runw (noobj_scenario [IObj 4096])) = false.
Proof. repeat split; vm_compute; reflexivity. Qed.
