(* C12 -- the parser once more, this time on C buffers with the bounds-checked string primitives of C13_Model.v
   (a `const char*` is the list of cells from the pointer to the end of its buffer; reading or stepping past the end is the
   result Oob, a loop that runs out of fuel NoFuel, int overflow Ub).  av[i] is an exact-size buffer: the bytes and one NUL.
   C12_Safe.v proves that on every valid vector this parser returns Ok of what the textbook-level parser of C12_Model.v returns.
   No proofs in this file. *)
From Coq Require Import String Ascii.
From Coq Require Import NArith ZArith Bool List.
From CppUVerif Require Import gen.Gen_C12 lib.Str C13_Text C13_Alloc C13_Model C12_Model.
Import ListNotations.
Local Open Scope N_scope.

Definition str_of (b : list N) : res bytes := match cstr_of b with Some s => Ok s | None => Oob end.   (* walk to the terminator *)
Definition sstring (literal : bytes) : res (list N) := newFrom (cs literal).                          (* SimpleString("...") *)

Section Checked.
(* testname.subString(2): a parameter, so that the code before the D8 repair can be plugged in as well *)
Variable subString2 : list N -> res (list N).

(* getParameterField(ac, av, i, parameterName): av[i] + parameterLength only when size() > parameterLength; av[i+1] only when i+1 < ac *)
Definition param_field_m (litb : bytes) (avi : list N) (next : option (list N)) : res (list N * bool) :=
  do name <- sstring litb; do plen <- StrLen name;
  do p <- newFrom avi; do n <- StrLen p;
  if Nat.ltb plen n then (do q <- adv plen avi; do r <- newFrom q; Ok (r, false))
  else match next with
       | Some nx => do r <- newFrom nx; Ok (r, true)
       | None => do r <- newFrom emptyString; Ok (r, false)
       end.

Definition set_repeat_count_m (c : config) (avi : list N) (next : option (list N)) : res hres :=
  let fin (r : N) (used : bool) := HOk (set_repeat c (if r =? 0 then 2 else r)) used in
  do p <- newFrom avi; do n <- StrLen p;
  if Nat.ltb 2 n then (do q <- adv 2 avi; do z <- AtoI q; Ok (fin (size_of_int z) false))
  else match next with
       | Some nx => do z <- AtoI nx; let r := size_of_int z in Ok (fin r (negb (r =? 0)))
       | None => Ok (fin 0 false)
       end.

Definition set_shuffle_m (tm : N) (c : config) (avi : list N) (next : option (list N)) : res hres :=
  let t0 := tm mod 4294967296 in
  let tseed := if t0 =? 0 then 1 else t0 in
  let fin (seed : N) (used : bool) := if seed =? 0 then HReject false else HOk (set_seed (set_shuf c true) seed) used in
  do p <- newFrom avi; do n <- StrLen p;
  if Nat.ltb 2 n then (do q <- adv 2 avi; do z <- AtoU q; Ok (fin (Z.to_N z) false))
  else match next with
       | Some nx => do z <- AtoU nx; if Z.to_N z =? 0 then Ok (fin tseed false) else Ok (fin (Z.to_N z) true)
       | None => Ok (fin tseed false)
       end.

Definition add_filter_m (group strict invert : bool) (litb : bytes) (c : config) (avi : list N) (next : option (list N)) : res hres :=
  do pr <- param_field_m litb avi next;
  do f <- newFrom (fst pr);                      (* TestFilter(const SimpleString&): filter_ = filter *)
  do s <- str_of f;
  Ok (HOk (if group then add_gf c (mkf s strict invert) else add_nf c (mkf s strict invert)) (snd pr)).

Definition add_group_dot_name_m (strict invert : bool) (litb : bytes) (c : config) (avi : list N) (next : option (list N)) : res hres :=
  do pr <- param_field_m litb avi next;
  do delim <- sstring [46];
  do col <- split_m (fst pr) delim;
  match col with
  | [t0; t1] =>
      do n0 <- StrLen t0;
      do g <- subString_m t0 0 ((N.of_nat n0 + NPOS) mod SIZE_MOD);          (* subString(0, size()-1), size_t arithmetic *)
      do gs <- str_of g; do ns <- str_of t1;
      Ok (HOk (add_nf (add_gf c (mkf gs strict invert)) (mkf ns strict invert)) (snd pr))
  | _ => Ok (HReject false)
  end.

Definition add_verbose_test_m (litb : bytes) (c : config) (avi : list N) (next : option (list N)) : res hres :=
  do pr <- param_field_m litb avi next;
  do t <- subStringFromTill_m (fst pr) 44 41;
  do tn <- subString2 t; do tns <- str_of tn;
  do c0 <- rd (fst pr);                                                      (* wholename.at(0) *)
  do g <- subStringFromTill_m (fst pr) c0 44; do gs <- str_of g;
  Ok (HOk (add_nf (add_gf c (mkf gs true false)) (mkf tns true false)) (snd pr)).

Fixpoint lookup_output_m (tbl : list (bytes * N)) (v : list N) : res (option out_kind) :=
  match tbl with
  | [] => Ok None
  | (n, k) :: r => do nm <- sstring n; do e <- equal_m v nm;
                   if e then Ok (Some (if k =? 0 then OEclipse else if k =? 1 then OJUnit else OTeamCity)) else lookup_output_m r v
  end.
Definition set_output_type_m (litb : bytes) (c : config) (avi : list N) (next : option (list N)) : res hres :=
  do pr <- param_field_m litb avi next;
  do n <- StrLen (fst pr);
  if Nat.eqb n 0 then Ok (HReject false) else
  do o <- lookup_output_m c12_outputs (fst pr);
  match o with Some k => Ok (HOk (set_out c k) (snd pr)) | None => Ok (HReject false) end.
Definition set_package_name_m (litb : bytes) (c : config) (avi : list N) (next : option (list N)) : res hres :=
  do pr <- param_field_m litb avi next;
  do n <- StrLen (fst pr);
  if Nat.eqb n 0 then Ok (HOk c (snd pr)) else do s <- str_of (fst pr); Ok (HOk (set_pkg c s) (snd pr)).

Definition action_m (tm : N) (c : config) (k : c12_match) (lit : bytes) (avi : list N) (next : option (list N)) : res hres :=
  if key k lit MExact (B "-h") then Ok (HReject true)
  else if key k lit MExact (B "-v") then Ok (HOk (set_verbose c true) false)
  else if key k lit MExact (B "-vv") then Ok (HOk (set_veryverbose c true) false)
  else if key k lit MExact (B "-c") then Ok (HOk (set_color c true) false)
  else if key k lit MExact (B "-p") then Ok (HOk (set_sep c true) false)
  else if key k lit MExact (B "-b") then Ok (HOk (set_rev c true) false)
  else if key k lit MExact (B "-lg") then Ok (HOk (set_listg c true) false)
  else if key k lit MExact (B "-ln") then Ok (HOk (set_listn c true) false)
  else if key k lit MExact (B "-ll") then Ok (HOk (set_listl c true) false)
  else if key k lit MExact (B "-ri") then Ok (HOk (set_runign c true) false)
  else if key k lit MExact (B "-f") then Ok (HOk (set_crash c true) false)
  else if key k lit MExact (B "-e") then Ok (HOk (set_rethrow c false) false)
  else if key k lit MExact (B "-ci") then Ok (HOk (set_rethrow c false) false)
  else if key k lit MPrefix (B "-r") then set_repeat_count_m c avi next
  else if key k lit MPrefix (B "-g") then add_filter_m true false false lit c avi next
  else if key k lit MPrefix (B "-t") then add_group_dot_name_m false false lit c avi next
  else if key k lit MPrefix (B "-st") then add_group_dot_name_m true false lit c avi next
  else if key k lit MPrefix (B "-xt") then add_group_dot_name_m false true lit c avi next
  else if key k lit MPrefix (B "-xst") then add_group_dot_name_m true true lit c avi next
  else if key k lit MPrefix (B "-sg") then add_filter_m true true false lit c avi next
  else if key k lit MPrefix (B "-xg") then add_filter_m true false true lit c avi next
  else if key k lit MPrefix (B "-xsg") then add_filter_m true true true lit c avi next
  else if key k lit MPrefix (B "-n") then add_filter_m false false false lit c avi next
  else if key k lit MPrefix (B "-sn") then add_filter_m false true false lit c avi next
  else if key k lit MPrefix (B "-xn") then add_filter_m false false true lit c avi next
  else if key k lit MPrefix (B "-xsn") then add_filter_m false true true lit c avi next
  else if key k lit MPrefix (B "-s") then set_shuffle_m tm c avi next
  else if key k lit MPrefix (B "TEST(") then add_verbose_test_m lit c avi next
  else if key k lit MPrefix (B "IGNORE_TEST(") then add_verbose_test_m lit c avi next
  else if key k lit MPrefix (B "-o") then set_output_type_m lit c avi next
  else if key k lit MPrefix (B "-p") then (do s <- str_of avi; Ok (if plugin_accepts s then HOk c false else HReject false))
  else if key k lit MPrefix (B "-k") then set_package_name_m lit c avi next
  else Ok HUnknown.

(* the else-if chain: argument == "lit" / argument.startsWith("lit"), in table order *)
Fixpoint first_match_m (tbl : list (c12_match * bytes)) (arg : list N) : res (option (c12_match * bytes)) :=
  match tbl with
  | [] => Ok None
  | (k, lit) :: t =>
      do l <- sstring lit;
      do m <- (match k with MExact => equal_m arg l | MPrefix => startsWith_m arg l end);
      if m then Ok (Some (k, lit)) else first_match_m t arg
  end.
Definition handle_m (tm : N) (c : config) (avi : list N) (next : option (list N)) : res hres :=
  do arg <- newFrom avi;                                                      (* SimpleString argument = av_[i] *)
  do r <- first_match_m c12_dispatch arg;
  match r with
  | None => Ok (HReject false)
  | Some (k, lit) => action_m tm c k lit avi next
  end.
(* for (i = 1; i < ac; i++): `rest` are av[i+1 .. ac-1]; av[i+1] exists exactly when rest is not empty *)
Fixpoint parse_args_m (tm : N) (c : config) (args : list (list N)) : res result :=
  match args with
  | [] => Ok (Accept c)
  | a :: rest =>
    do h <- handle_m tm c a (hd_error rest);
    match h with
    | HReject hlp => Ok (Reject hlp)
    | HUnknown => Ok Unknown
    | HOk c' false => parse_args_m tm c' rest
    | HOk c' true => match rest with [] => Ok (Accept c') | _ :: rest' => parse_args_m tm c' rest' end
    end
  end.
End Checked.

Definition parse_m (tm : N) (argv : list bytes) : res result :=
  parse_args_m (fun t => subString_m t 2 NPOS) tm default_config (map cs (tl argv)).
(* the code before the D8 repair (a2ff8a1) *)
Definition parse_m_old (tm : N) (argv : list bytes) : res result :=
  parse_args_m (fun t => subString_old t 2 NPOS) tm default_config (map cs (tl argv)).
