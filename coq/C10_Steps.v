(* C10 -- the micro-step function as a relation (one constructor per kind of move), list lemmas for thread update. *)
From Coq Require Import NArith Arith Bool List Lia.
From CppUVerif Require Import C10_Wiring gen.Gen_C10 C10_Model.
Import ListNotations.

(* ---------------------------------------------------------------- set_nth / nth_error *)
Lemma set_nth_length : forall A (l : list A) i x, length (set_nth l i x) = length l.
Proof. induction l; destruct i; simpl; intros; auto. Qed.

Lemma nth_error_set_nth_same : forall A (l : list A) i x y, nth_error l i = Some y -> nth_error (set_nth l i x) i = Some x.
Proof. induction l; destruct i; simpl; intros; try discriminate; eauto. Qed.

Lemma nth_error_set_nth_other : forall A (l : list A) i j x, i <> j -> nth_error (set_nth l i x) j = nth_error l j.
Proof. induction l; destruct i, j; simpl; intros; auto; try lia. Qed.

Lemma nth_error_set_nth : forall A (l : list A) i j x y, nth_error l i = Some y ->
  nth_error (set_nth l i x) j = if Nat.eqb i j then Some x else nth_error l j.
Proof.
  intros. destruct (Nat.eqb_spec i j).
  - subst. eapply nth_error_set_nth_same; eauto.
  - apply nth_error_set_nth_other; auto.
Qed.

Lemma set_nth_split : forall A (l : list A) i x y, nth_error l i = Some y ->
  exists l1 l2, l = l1 ++ y :: l2 /\ set_nth l i x = l1 ++ x :: l2 /\ length l1 = i.
Proof.
  induction l; destruct i; simpl; intros; try discriminate.
  - inversion H; subst. exists [], l. auto.
  - destruct (IHl _ x _ H) as (l1 & l2 & -> & E & Hl). exists (a :: l1), l2. simpl. rewrite E. auto.
Qed.

(* ---------------------------------------------------------------- the step relation *)
Definition is_boundary (o : op) : bool := match o with OBoundary => true | _ => false end.

Section Rel.
Variable c : cfg.

Inductive tstep (t : nat) (st : state) : state -> Prop :=
| TS_stay : tstep t st st
| TS_skip : forall th o r,
    nth_error (st_threads st) t = Some th -> th_pc th = o :: r -> th_phase th = PIdle -> th_skip th = true ->
    tstep t st (upd_thread st t (mk_thread r PIdle (if is_boundary o then next_test (th_loc th) else th_loc th) (negb (is_boundary o))))
| TS_local : forall th o r,
    nth_error (st_threads st) t = Some th -> th_pc th = o :: r -> th_phase th = PIdle -> th_skip th = false ->
    op_entry o = None ->
    tstep t st (upd_thread st t (mk_thread r PIdle (fst (lstep o (th_loc th))) false))
| TS_acquire : forall th o r e,
    nth_error (st_threads st) t = Some th -> th_pc th = o :: r -> th_phase th = PIdle -> th_skip th = false ->
    op_entry o = Some e -> op_locks c o = true -> st_lock st = LFree ->
    tstep t st (mk_state (st_sh st) (LHeld t) (set_nth (st_threads st) t (mk_thread (o :: r) PLocked (th_loc th) false)) (st_outallocs st))
| TS_enter_unlocked : forall th o r e,
    nth_error (st_threads st) t = Some th -> th_pc th = o :: r -> th_phase th = PIdle -> th_skip th = false ->
    op_entry o = Some e -> op_locks c o = false ->
    tstep t st (upd_thread st t (mk_thread (o :: r) (PRead (st_sh st)) (th_loc th) false))
| TS_read : forall th o r,
    nth_error (st_threads st) t = Some th -> th_pc th = o :: r -> th_phase th = PLocked ->
    tstep t st (upd_thread st t (mk_thread (o :: r) (PRead (st_sh st)) (th_loc th) false))
| TS_commit : forall th o r snap sh' failed,
    nth_error (st_threads st) t = Some th -> th_pc th = o :: r -> th_phase th = PRead snap ->
    detector c t o (th_loc th) snap = (sh', failed) ->
    tstep t st (mk_state sh' (st_lock st)
                 (set_nth (st_threads st) t (mk_thread (o :: r) (if failed then PFailing else PExit) (fst (lstep o (th_loc th))) false))
                 (st_outallocs st))
| TS_exit : forall th o r,
    nth_error (st_threads st) t = Some th -> th_pc th = o :: r -> th_phase th = PExit ->
    tstep t st (mk_state (st_sh st) (if op_locks c o && held_by t (st_lock st) then LFree else st_lock st)
                 (set_nth (st_threads st) t (mk_thread r PIdle (th_loc th) false)) (st_outallocs st))
| TS_failing : forall th o r,
    nth_error (st_threads st) t = Some th -> th_pc th = o :: r -> th_phase th = PFailing ->
    tstep t st (mk_state (st_sh st) (if cfg_reporter_unlocks c && held_by t (st_lock st) then LFree else st_lock st)
                 (set_nth (st_threads st) t (mk_thread (o :: r) PPrint (th_loc th) false)) (st_outallocs st))
| TS_print_alloc : forall th o r,
    nth_error (st_threads st) t = Some th -> th_pc th = o :: r -> th_phase th = PPrint ->
    cfg_outalloc c = true -> st_lock st = LFree ->
    tstep t st (mk_state {| sh_table := sh_table (st_sh st); sh_seq := N.succ (sh_seq (st_sh st)) |} (st_lock st)
                 (set_nth (st_threads st) t (mk_thread r PIdle (record_fail (th_loc th)) true)) (N.succ (st_outallocs st)))
| TS_print : forall th o r,
    nth_error (st_threads st) t = Some th -> th_pc th = o :: r -> th_phase th = PPrint ->
    cfg_outalloc c = false ->
    tstep t st (upd_thread st t (mk_thread r PIdle (record_fail (th_loc th)) true)).

Lemma step_tstep : forall t st, tstep t st (step c t st).
Proof.
  intros t st. unfold step.
  destruct (nth_error (st_threads st) t) as [th|] eqn:Hth; [|constructor].
  destruct (th_pc th) as [|o r] eqn:Hpc; [constructor|].
  destruct (th_phase th) eqn:Hph.
  - destruct (th_skip th) eqn:Hsk.
    + replace (match o with OBoundary => upd_thread st t (mk_thread r PIdle (next_test (th_loc th)) false) | _ => upd_thread st t (mk_thread r PIdle (th_loc th) true) end)
        with (upd_thread st t (mk_thread r PIdle (if is_boundary o then next_test (th_loc th) else th_loc th) (negb (is_boundary o))))
        by (destruct o; reflexivity).
      eapply TS_skip; eauto.
    + destruct (op_entry o) as [e|] eqn:He.
      * destruct (op_locks c o) eqn:Hl.
        -- destruct (st_lock st) eqn:Hlk; simpl.
           ++ eapply TS_acquire; eauto.
           ++ constructor.
        -- eapply TS_enter_unlocked; eauto.
      * eapply TS_local; eauto.
  - eapply TS_read; eauto.
  - destruct (detector c t o (th_loc th) snap) as [sh' failed] eqn:Hd. eapply TS_commit; eauto.
  - eapply TS_exit; eauto.
  - eapply TS_failing; eauto.
  - destruct (cfg_outalloc c) eqn:Ho.
    + destruct (st_lock st) eqn:Hlk; simpl.
      * rewrite <- Hlk. eapply TS_print_alloc; eauto.
      * constructor.
    + eapply TS_print; eauto.
Qed.

(* an invariant of every micro-step is an invariant of every schedule *)
Lemma exec_invariant : forall (P : state -> Prop),
  (forall t st st', P st -> tstep t st st' -> P st') ->
  forall sched st, P st -> P (exec c sched st).
Proof.
  intros P HP. unfold exec. induction sched as [|t r IH]; simpl; intros st H; auto.
  apply IH. eapply HP; eauto. apply step_tstep.
Qed.

End Rel.
