From Coq Require Import ExtrOcamlBasic ZArith.
From CppUVerif Require Import C10_Wiring C10_Model.
Extraction "c10_model.ml" C10_Model.run C10_Model.run_old C10_Model.spec C10_Model.valid BinInt.Z.of_N.
