(* C08 -- proofs, part 5: the output parameters and the return value an actual call hands back are those of ONE expectation, the
   one it consumed -- for every state of the mock, every expectation set (ignoreOtherParameters, ambiguous, ...) and every list of
   items the call passes (unexpected / ignored ones, names passed twice, any order).  copyOutputParameters is re-run over ALL
   output parameters passed so far whenever a match is (re)established, so the buffers of the finished call carry the consumed
   expectation's bytes under every name it defines.  Then: the coherence clause of the spec holds of every run of the model. *)
From Coq Require Import ZArith NArith Bool List Lia.
From CppUVerif Require Import lib.CInt lib.Str C08_Model C08_Proofs C08_Proofs2 C08_Scopes.
Import ListNotations.
Local Open Scope N_scope.

(* ------------------------------------------------------------------ what never changes in an expectation *)
Definition sst (e : expn) : name * list (name * list N) * option pv := (e_name e, ol e, e_ret e).
Lemma sst_name e e' : sst e = sst e' -> e_name e = e_name e'. Proof. unfold sst. intro H. inversion H. reflexivity. Qed.
Lemma sst_ol e e' : sst e = sst e' -> ol e = ol e'. Proof. unfold sst. intro H. inversion H. reflexivity. Qed.
Lemma sst_ret e e' : sst e = sst e' -> e_ret e = e_ret e'. Proof. unfold sst. intro H. inversion H. reflexivity. Qed.
Lemma stat_sst e e' : stat e = stat e' -> sst e = sst e'.
Proof. intro H. unfold sst. rewrite (stat_name _ _ H), (stat_ol _ _ H), (stat_ret _ _ H). reflexivity. Qed.
Lemma filled_sst e e' outs : sst e = sst e' -> filled e outs -> filled e' outs.
Proof. intros H F. unfold filled in *. rewrite <- (sst_ol _ _ H). exact F. Qed.

(* an elementwise step that keeps the static part and the current-match bit and never adds a candidate *)
Definition tame (h : expn -> expn) : Prop :=
  forall e, sst (h e) = sst e /\ e_cur (h e) = e_cur e /\ (e_pot (h e) = true -> e_pot e = true).
Lemma sst_reset e : sst (reset_e e) = sst e. Proof. apply stat_sst, stat_reset. Qed.
Lemma tame_keep p : tame (fun e => if e_pot e && negb (p e) then drop e else e).
Proof. intro e. destruct (e_pot e && negb (p e)); cbn; auto. repeat split; auto. discriminate. Qed.
Lemma tame_for_pot g : (forall e, sst (g e) = sst e /\ e_cur (g e) = e_cur e /\ e_pot (g e) = e_pot e) -> tame (fun e => if e_pot e then g e else e).
Proof. intros H e. destruct (e_pot e) eqn:E; [|rewrite E; auto]. destruct (H e) as [A [B C]]. rewrite C. auto. Qed.
Lemma tame_unmatching : tame (fun e => if e_pot e && is_matching_fin e then drop (reset_e e) else e).
Proof. intro e. destruct (e_pot e && is_matching_fin e); [|auto]. split; [apply sst_reset|]. split; [reflexivity|]. cbn. discriminate. Qed.
Lemma mark_ok n e : sst (mark n e) = sst e /\ e_cur (mark n e) = e_cur e /\ e_pot (mark n e) = e_pot e.
Proof. split; [apply stat_sst, stat_mark|]. split; reflexivity. Qed.
Lemma mark_out_ok n e : sst (mark_out n e) = sst e /\ e_cur (mark_out n e) = e_cur e /\ e_pot (mark_out n e) = e_pot e.
Proof. split; [apply stat_sst, stat_mark_out|]. split; reflexivity. Qed.
Lemma pass_obj_ok e : sst (pass_obj e) = sst e /\ e_cur (pass_obj e) = e_cur e /\ e_pot (pass_obj e) = e_pot e.
Proof. repeat split. Qed.
Lemma reset_ok e : sst (reset_e e) = sst e /\ e_cur (reset_e e) = e_cur e /\ e_pot (reset_e e) = e_pot e.
Proof. split; [apply sst_reset|]. split; reflexivity. Qed.

Lemma map_sst h es : (forall e, sst (h e) = sst e) -> map sst (map h es) = map sst es.
Proof. intro H. rewrite map_map. apply map_ext. exact H. Qed.
Lemma tame_sst h es : tame h -> map sst (map h es) = map sst es.
Proof. intro T. apply map_sst. intro e. apply (T e). Qed.

(* discardCurrentlyMatchingExpectations leaves no current match *)
Lemma discard_spec es : discard es = map (fun e => let e1 := if e_cur e then set_cur (reset_e e) false else e in
                                                   if e_pot e1 && is_matching_fin e1 then drop (reset_e e1) else e1) es.
Proof. unfold discard, only_keep_unmatching, for_cur. rewrite map_map. reflexivity. Qed.
Lemma discard_elem e :
  let e1 := if e_cur e then set_cur (reset_e e) false else e in
  let e2 := if e_pot e1 && is_matching_fin e1 then drop (reset_e e1) else e1 in
  sst e2 = sst e /\ e_cur e2 = false /\ (e_pot e2 = true -> e_pot e = true).
Proof.
  cbn zeta. destruct (e_cur e) eqn:C.
  - set (e1 := set_cur (reset_e e) false). assert (S1 : sst e1 = sst e) by apply sst_reset.
    destruct (e_pot e1 && is_matching_fin e1).
    + split; [exact (eq_trans (sst_reset e1) S1)|]. split; [reflexivity|]. cbn. discriminate.
    + split; [exact S1|]. split; [reflexivity|]. auto.
  - destruct (e_pot e && is_matching_fin e).
    + split; [apply sst_reset|]. split; [exact C|]. cbn. discriminate.
    + auto.
Qed.

(* ------------------------------------------------------------------ the invariant of the call in progress *)
Definition Kc (f : name) (es : list expn) (c : acall) : Prop :=
  c_name c = f /\ c_checked c = false /\
  (forall e, In e es -> e_pot e || e_cur e = true -> e_name e = f) /\
  ((c_state c = Succeeded /\ exists l1 e l2, es = l1 ++ e :: l2 /\ e_cur e = true /\ (forall x, In x (l1 ++ l2) -> e_cur x = false) /\
                                              filled e (c_outs c))
   \/ (c_state c = InProgress /\ (forall x, In x es -> e_cur x = false) /\ forall e, first_pot is_matching es = Some e -> filled e (c_outs c))).

Lemma complete_K f es c :
  c_name c = f -> c_checked c = false -> c_state c = InProgress -> (forall x, In x es -> e_cur x = false) ->
  (forall e, In e es -> e_pot e = true -> e_name e = f) ->
  Kc f (fst (complete es c)) (snd (complete es c)).
Proof.
  intros Hn Hc Hs Hnc Hnm. unfold complete.
  destruct (first_pot is_matching_fin es) as [e|] eqn:FP.
  - destruct (take_first is_matching_fin (fun e0 => e0) es) as [es'|] eqn:T.
    + apply take_first_some in T. destruct T as [l1 [e0 [l2 [A [B [C D]]]]]]. subst es es'.
      rewrite (first_pot_some is_matching_fin l1 e0 l2 C D) in FP. inversion FP; subst e0. cbn [fst snd].
      apply andb_true_iff in C. destruct C as [Cp _].
      split; [exact Hn|]. split; [exact Hc|]. split.
      * intros x Hx Ha. apply in_app_or in Hx. destruct Hx as [Hx|[Hx|Hx]].
        -- apply Hnm; [apply in_or_app; auto|]. rewrite (Hnc x) in Ha by (apply in_or_app; auto). rewrite orb_false_r in Ha. exact Ha.
        -- subst x. cbn. apply Hnm; [apply in_or_app; right; left; reflexivity|exact Cp].
        -- apply Hnm; [apply in_or_app; right; right; exact Hx|]. rewrite (Hnc x) in Ha by (apply in_or_app; right; right; exact Hx).
           rewrite orb_false_r in Ha. exact Ha.
      * left. split; [reflexivity|]. exists l1, (set_cur (drop e) true), l2. split; [reflexivity|]. split; [reflexivity|]. split.
        -- intros x Hx. apply Hnc. apply in_app_or in Hx. apply in_or_app. destruct Hx; [left|right; right]; assumption.
        -- cbn [c_outs set_state set_couts]. apply (filled_sst e); [reflexivity|]. apply copy_outputs_filled.
    + exfalso. pose proof (proj1 (take_first_none _ _ _) T) as TN. rewrite (first_pot_none _ _ TN) in FP. discriminate.
  - destruct (first_pot is_matching es) as [e|] eqn:FM; cbn [fst snd].
    + split; [exact Hn|]. split; [exact Hc|]. split.
      * intros x Hx Ha. apply Hnm; [exact Hx|]. rewrite (Hnc x Hx), orb_false_r in Ha. exact Ha.
      * right. split; [exact Hs|]. split; [exact Hnc|]. intros e' He'. rewrite FM in He'. inversion He'; subst. cbn [c_outs set_couts]. apply copy_outputs_filled.
    + split; [exact Hn|]. split; [exact Hc|]. split.
      * intros x Hx Ha. apply Hnm; [exact Hx|]. rewrite (Hnc x Hx), orb_false_r in Ha. exact Ha.
      * right. split; [exact Hs|]. split; [exact Hnc|]. intros e' He'. rewrite FM in He'. discriminate.
Qed.

Lemma in_map_elem {A B} (h : A -> B) l x : In x (map h l) -> exists e, In e l /\ x = h e.
Proof. intro H. apply in_map_iff in H. destruct H as [e [A1 A2]]. exists e. auto. Qed.

(* the constructor and withName *)
Lemma with_name_K es c es' c' :
  c_checked c = false -> with_name (create true es) c = inl (es', c') -> Kc (c_name c) es' c'.
Proof.
  intros Hc. unfold with_name. set (c1 := set_state c InProgress). set (es1 := keep_if (relates (c_name c1)) (create true es)).
  destruct (pot_empty es1); [discriminate|]. intro H. inversion H as [[H1 H2]].
  pose proof (complete_K (c_name c) es1 c1 eq_refl Hc eq_refl) as CK.
  rewrite (surjective_pairing (complete es1 c1)) in H. inversion H; subst. apply CK.
  - intros x Hx. unfold es1, keep_if in Hx. apply in_map_elem in Hx. destruct Hx as [e [He ->]].
    destruct (tame_keep (relates (c_name c1)) e) as [_ [B _]]. rewrite B.
    unfold create in He. apply in_map_elem in He. destruct He as [e0 [_ ->]]. destruct (can_match (set_cur e0 false)); reflexivity.
  - intros x Hx Hp. unfold es1, keep_if in Hx. apply in_map_elem in Hx. destruct Hx as [e [He ->]].
    destruct (e_pot e && negb (relates (c_name c1) e)) eqn:E; [cbn in Hp; discriminate|].
    rewrite Hp in E. cbn in E. apply negb_false_iff in E. unfold relates in E. apply N.eqb_eq in E. exact E.
Qed.

(* a parameter: checkInputParameter / checkOutputParameter after the call record was prepared *)
Lemma param_K f p g es c1 :
  c_name c1 = f -> c_checked c1 = false -> c_state c1 = InProgress ->
  (forall e, In e es -> e_pot e || e_cur e = true -> e_name e = f) ->
  (forall e, sst (g e) = sst e /\ e_cur (g e) = e_cur e /\ e_pot (g e) = e_pot e) ->
  let es2 := for_pot g (keep_if p (discard es)) in
  Kc f (fst (complete es2 c1)) (snd (complete es2 c1)).
Proof.
  intros Hn Hc Hs Hnm Hg. cbn zeta.
  assert (EL : forall x, In x (for_pot g (keep_if p (discard es))) ->
               exists e, In e es /\ sst x = sst e /\ e_cur x = false /\ (e_pot x = true -> e_pot e = true)).
  { intros x Hx. unfold for_pot in Hx. apply in_map_elem in Hx. destruct Hx as [x1 [Hx1 ->]].
    unfold keep_if in Hx1. apply in_map_elem in Hx1. destruct Hx1 as [x2 [Hx2 ->]].
    rewrite discard_spec in Hx2. apply in_map_elem in Hx2. destruct Hx2 as [e [He ->]].
    pose proof (discard_elem e) as DE. cbn zeta in DE. set (e2 := if e_pot (if e_cur e then set_cur (reset_e e) false else e) && _ then _ else _) in *.
    destruct DE as [D1 [D2 D3]]. destruct (tame_keep p e2) as [K1 [K2 K3]]. set (e3 := if e_pot e2 && negb (p e2) then drop e2 else e2) in *.
    destruct (tame_for_pot g Hg e3) as [G1 [G2 G3]]. exists e. split; [exact He|]. split; [congruence|]. split; [congruence|]. auto. }
  apply complete_K; try assumption.
  - intros x Hx. destruct (EL x Hx) as [e [_ [_ [C _]]]]. exact C.
  - intros x Hx Hp. destruct (EL x Hx) as [e [He [S [_ P]]]]. rewrite (sst_name _ _ S). apply Hnm; [exact He|]. rewrite (P Hp). reflexivity.
Qed.

Lemma Kc_names f es c : Kc f es c -> forall e, In e es -> e_pot e || e_cur e = true -> e_name e = f.
Proof. intros [_ [_ [H _]]]. exact H. Qed.

Lemma check_input_K f n v es c es' c' : Kc f es c -> check_input n v es c = inl (es', c') -> Kc f es' c'.
Proof.
  intros K. unfold check_input. set (c1 := set_state c InProgress).
  destruct (pot_empty (keep_if (has_input n v) (discard es))); [discriminate|]. intro H.
  pose proof (param_K f (has_input n v) (mark n) es c1) as PK. cbn zeta in PK.
  rewrite (surjective_pairing (complete _ c1)) in H. inversion H; subst. apply PK.
  - apply K. - apply K. - reflexivity. - apply (Kc_names _ _ _ K). - intro e. apply mark_ok.
Qed.
Lemma check_output_K f n buf es c es' c' : Kc f es c -> check_output n buf es c = inl (es', c') -> Kc f es' c'.
Proof.
  intros K. unfold check_output. set (c1 := set_state (set_couts c (c_outs c ++ [(n, buf)])) InProgress).
  destruct (pot_empty (keep_if (has_output n) (discard es))); [discriminate|]. intro H.
  pose proof (param_K f (has_output n) (mark_out n) es c1) as PK. cbn zeta in PK.
  rewrite (surjective_pairing (complete _ c1)) in H. inversion H; subst. apply PK.
  - apply K. - apply K. - reflexivity. - apply (Kc_names _ _ _ K). - intro e. apply mark_out_ok.
Qed.

(* an elementwise tame step keeps a found match *)
Lemma Kc_succ_map f h es c : tame h -> Kc f es c -> c_state c = Succeeded -> Kc f (map h es) c.
Proof.
  intros T [Hn [Hc [Hnm HS]]] St. split; [exact Hn|]. split; [exact Hc|]. split.
  - intros x Hx Ha. apply in_map_elem in Hx. destruct Hx as [e [He ->]]. destruct (T e) as [S [C P]]. rewrite (sst_name _ _ S).
    apply Hnm; [exact He|]. rewrite C in Ha. destruct (e_pot (h e)) eqn:E; [rewrite (P eq_refl); reflexivity|]. cbn in Ha. rewrite Ha. apply orb_true_r.
  - destruct HS as [[_ [l1 [e [l2 [A [B [C D]]]]]]]|[X _]]; [|congruence]. left. split; [exact St|].
    exists (map h l1), (h e), (map h l2). subst es. split; [rewrite map_app; reflexivity|]. destruct (T e) as [S [Cu _]]. split; [congruence|]. split.
    + intros x Hx. rewrite <- map_app in Hx. apply in_map_elem in Hx. destruct Hx as [y [Hy ->]]. destruct (T y) as [_ [Cy _]]. rewrite Cy. apply C. exact Hy.
    + apply (filled_sst e); [symmetry; exact S|exact D].
Qed.

Lemma on_object_K f a es c es' c' : Kc f es c -> on_object a es c = inl (es', c') -> Kc f es' c'.
Proof.
  intros K. unfold on_object. set (es1 := keep_if (relates_obj a) es).
  pose proof (tame_keep (relates_obj a)) as T1. pose proof (tame_for_pot pass_obj pass_obj_ok) as T2.
  destruct (existsb e_cur es1) eqn:EC; cbn [negb andb].
  - (* a match was found before: it is kept *)
    intro H. inversion H; subst.
    assert (St : c_state c' = Succeeded).
    { destruct K as [_ [_ [_ [[S _]|[_ [NC _]]]]]]; [exact S|]. exfalso. apply existsb_exists in EC. destruct EC as [x [Hx Cx]].
      unfold es1, keep_if in Hx. apply in_map_elem in Hx. destruct Hx as [e [He ->]]. destruct (T1 e) as [_ [B _]]. rewrite B, (NC e He) in Cx. discriminate. }
    unfold for_pot, es1, keep_if. apply (Kc_succ_map f _ _ c' T2); [|exact St]. apply (Kc_succ_map f _ _ c' T1); assumption.
  - destruct (pot_empty es1); [discriminate|]. intro H.
    assert (NC : forall x, In x es1 -> e_cur x = false) by (apply existsb_false; exact EC).
    assert (St : c_state c = InProgress).
    { destruct K as [_ [_ [_ [[_ [l1 [e [l2 [A [B _]]]]]]|[S _]]]]]; [|exact S]. exfalso.
      assert (X : e_cur (if e_pot e && negb (relates_obj a e) then drop e else e) = false).
      { apply NC. unfold es1, keep_if. apply (in_map (fun e0 => if e_pot e0 && negb (relates_obj a e0) then drop e0 else e0)). subst es. apply in_or_app. right. left. reflexivity. }
      destruct (T1 e) as [_ [B1 _]]. rewrite B1 in X. congruence. }
    rewrite (surjective_pairing (complete _ c)) in H. inversion H; subst. apply complete_K.
    + apply K. + apply K. + exact St.
    + intros x Hx. unfold for_pot in Hx. apply in_map_elem in Hx. destruct Hx as [y [Hy ->]]. destruct (T2 y) as [_ [B _]]. rewrite B. apply NC. exact Hy.
    + intros x Hx Hp. unfold for_pot in Hx. apply in_map_elem in Hx. destruct Hx as [y [Hy ->]]. destruct (T2 y) as [S2 [_ P2]].
      unfold es1, keep_if in Hy. apply in_map_elem in Hy. destruct Hy as [e [He ->]]. destruct (T1 e) as [S1 [_ P1]].
      rewrite (sst_name _ _ S2), (sst_name _ _ S1). apply (Kc_names _ _ _ K e He). rewrite (P1 (P2 Hp)). reflexivity.
Qed.

Lemma with_items_K f : forall its es c es' c', Kc f es c -> with_items its es c = inl (es', c') -> Kc f es' c'.
Proof.
  induction its as [|it r IH]; intros es c es' c' K H; cbn in H; [inversion H; subst; exact K|].
  destruct (with_item it es c) as [[es1 c1]|] eqn:W; [|discriminate]. apply (IH es1 c1 es' c'); [|exact H].
  destruct it as [n v|n buf|a]; cbn in W.
  - apply (check_input_K f n v es c); assumption.
  - apply (check_output_K f n buf es c); assumption.
  - apply (on_object_K f a es c); assumption.
Qed.

(* the names of the buffers the call holds are the output names passed, in order *)
Lemma complete_outs_names es c : map fst (c_outs (snd (complete es c))) = map fst (c_outs c).
Proof.
  unfold complete. destruct (first_pot is_matching_fin es).
  - destruct (take_first _ _ es); cbn; [apply copy_outputs_names|reflexivity].
  - destruct (first_pot is_matching es); cbn; [apply copy_outputs_names|reflexivity].
Qed.
Lemma with_item_names it es c es' c' : with_item it es c = inl (es', c') -> map fst (c_outs c') = map fst (c_outs c) ++ out_names [it].
Proof.
  destruct it as [n v|n buf|a]; cbn.
  - unfold check_input. destruct (pot_empty _); [discriminate|]. intro H. rewrite (surjective_pairing (complete _ _)) in H. inversion H; subst.
    rewrite complete_outs_names. cbn. rewrite app_nil_r. reflexivity.
  - unfold check_output. destruct (pot_empty _); [discriminate|]. intro H. rewrite (surjective_pairing (complete _ _)) in H. inversion H; subst.
    rewrite complete_outs_names. cbn. rewrite map_app. reflexivity.
  - unfold on_object. destruct (negb (existsb e_cur _) && pot_empty _); [discriminate|]. destruct (negb (existsb e_cur _)).
    + intro H. rewrite (surjective_pairing (complete _ _)) in H. inversion H; subst. rewrite complete_outs_names, app_nil_r. reflexivity.
    + intro H. inversion H; subst. rewrite app_nil_r. reflexivity.
Qed.
Lemma with_items_names : forall its es c es' c', with_items its es c = inl (es', c') -> map fst (c_outs c') = map fst (c_outs c) ++ out_names its.
Proof.
  induction its as [|it r IH]; intros es c es' c' H; cbn in H; [inversion H; subst; cbn; rewrite app_nil_r; reflexivity|].
  destruct (with_item it es c) as [[es1 c1]|] eqn:W; [|discriminate]. rewrite (IH _ _ _ _ H), (with_item_names _ _ _ _ _ W), <- app_assoc.
  change (it :: r) with ([it] ++ r). rewrite out_names_app. reflexivity.
Qed.
Lemma with_name_names es c es' c' : with_name es c = inl (es', c') -> map fst (c_outs c') = map fst (c_outs c).
Proof.
  unfold with_name. destruct (pot_empty _); [discriminate|]. intro H. rewrite (surjective_pairing (complete _ _)) in H. inversion H; subst.
  rewrite complete_outs_names. reflexivity.
Qed.
Lemma check_call_outs es c es' c' : check_call es c = inl (es', c') -> c_outs c' = c_outs c.
Proof.
  unfold check_call. destruct (c_checked c); [intro H; inversion H; reflexivity|].
  destruct (c_state (set_checked c)); [| intro H; inversion H; reflexivity | intro H; inversion H; reflexivity].
  destruct (existsb _ es); [discriminate|]. destruct (take_first _ _ es); [intro H; inversion H; reflexivity|].
  destruct (existsb _ es); discriminate.
Qed.

(* ------------------------------------------------------------------ finishing the call: the consumed expectation *)
Lemma find_cur_unique l1 e l2 : e_cur e = true -> (forall x, In x l1 -> e_cur x = false) -> find e_cur (l1 ++ e :: l2) = Some e.
Proof.
  intros He H. induction l1 as [|x r IH]; cbn; [rewrite He; reflexivity|]. rewrite (H x (or_introl eq_refl)). apply IH. intros y Hy. apply H. right. exact Hy.
Qed.
Lemma find_cur_map h l : (forall e, e_cur (h e) = e_cur e) -> find e_cur (map h l) = option_map h (find e_cur l).
Proof. intro H. induction l as [|x r IH]; cbn; [reflexivity|]. rewrite H. destruct (e_cur x); [reflexivity|exact IH]. Qed.

Lemma check_call_K f es c es' c' :
  Kc f es c -> check_call es c = inl (es', c') ->
  exists e, In e es' /\ e_cur e = true /\ e_name e = f /\ cur_ret es' = e_ret e /\ filled e (c_outs c') /\ c_state c' = Succeeded.
Proof.
  intros [Hn [Hc [Hnm HS]]]. unfold check_call. rewrite Hc. change (c_state (set_checked c)) with (c_state c).
  destruct HS as [[St [l1 [e [l2 [A [B [C D]]]]]]]|[St [NC FM]]]; rewrite St.
  - intro H. inversion H; subst es' c'. clear H.
    set (h := fun x => let x1 := if e_cur x then call_was_made (c_order c) x else x in if e_pot x1 then reset_e x1 else x1).
    assert (EQ : for_pot reset_e (for_cur (call_was_made (c_order c)) es) = map h es).
    { unfold for_pot, for_cur. rewrite map_map. reflexivity. }
    assert (HC : forall x, e_cur (h x) = e_cur x).
    { intro x. unfold h. cbn zeta. destruct (e_cur x) eqn:E.
      - destruct (e_pot (call_was_made _ x)); cbn; exact E.
      - destruct (e_pot x); cbn; exact E. }
    assert (HS : forall x, sst (h x) = sst x).
    { intro x. unfold h. cbn zeta. assert (S1 : sst (if e_cur x then call_was_made (c_order c) x else x) = sst x).
      { destruct (e_cur x); [|reflexivity]. unfold call_was_made. rewrite sst_reset. reflexivity. }
      destruct (e_pot _); [rewrite sst_reset|]; exact S1. }
    rewrite EQ. exists (h e). subst es. split; [apply in_map; apply in_or_app; right; left; reflexivity|]. split; [rewrite HC; exact B|].
    split; [rewrite (sst_name _ _ (HS e)); apply Hnm; [apply in_or_app; right; left; reflexivity|rewrite B; apply orb_true_r]|].
    split; [|split; [apply (filled_sst e); [symmetry; apply HS|exact D]|exact St]].
    unfold cur_ret. rewrite (find_cur_map h _ HC), (find_cur_unique l1 e l2 B). { cbn. reflexivity. }
    intros x Hx. apply C. apply in_or_app. left. exact Hx.
  - destruct (existsb (fun e => e_pot e && is_matching_fin e) es); [discriminate|].
    destruct (take_first is_matching (fun e => call_was_made (c_order (set_checked c)) (set_fin e true)) es) as [es1|] eqn:T.
    2: { destruct (existsb _ es); discriminate. }
    intro H. inversion H; subst es' c'. clear H.
    apply take_first_some in T. destruct T as [l1 [e [l2 [A [B [C D]]]]]]. subst es es1.
    pose proof (FM e (first_pot_some is_matching l1 e l2 C D)) as FE. apply andb_true_iff in C. destruct C as [Cp _].
    set (e1 := call_was_made (c_order (set_checked c)) (set_fin (set_cur (drop e) true) true)).
    assert (S1 : sst e1 = sst e) by (unfold e1, call_was_made; rewrite sst_reset; reflexivity).
    assert (C1 : e_cur e1 = true) by reflexivity.
    set (h := fun x => if e_pot x then reset_e x else x).
    assert (HC : forall x, e_cur (h x) = e_cur x) by (intro x; unfold h; destruct (e_pot x); reflexivity).
    assert (HSs : forall x, sst (h x) = sst x) by (intro x; unfold h; destruct (e_pot x); [apply sst_reset|reflexivity]).
    change (for_pot reset_e (l1 ++ e1 :: l2)) with (map h (l1 ++ e1 :: l2)).
    exists (h e1). split; [apply in_map; apply in_or_app; right; left; reflexivity|]. split; [rewrite HC; exact C1|].
    split; [rewrite (sst_name _ _ (HSs e1)), (sst_name _ _ S1); apply Hnm; [apply in_or_app; right; left; reflexivity|rewrite Cp; reflexivity]|].
    split; [|split; [apply (filled_sst e); [rewrite HSs; symmetry; exact S1|exact FE]|reflexivity]].
    unfold cur_ret. rewrite (find_cur_map h _ HC), (find_cur_unique l1 e1 l2 C1). { cbn. reflexivity. }
    intros x Hx. apply NC. apply in_or_app. left. exact Hx.
Qed.

(* ------------------------------------------------------------------ static parts through one call *)
Lemma create_sst es : map sst (create true es) = map sst es.
Proof. unfold create. apply map_sst. intro e. cbn zeta. destruct (can_match (set_cur e false)); [exact (sst_reset (set_cur e false))|reflexivity]. Qed.
Lemma keep_if_sst p es : map sst (keep_if p es) = map sst es.
Proof. apply tame_sst, tame_keep. Qed.
Lemma for_pot_sst g es : (forall e, sst (g e) = sst e) -> map sst (for_pot g es) = map sst es.
Proof. intro H. apply map_sst. intro e. destruct (e_pot e); [apply H|reflexivity]. Qed.
Lemma for_cur_sst g es : (forall e, sst (g e) = sst e) -> map sst (for_cur g es) = map sst es.
Proof. intro H. apply map_sst. intro e. destruct (e_cur e); [apply H|reflexivity]. Qed.
Lemma discard_sst es : map sst (discard es) = map sst es.
Proof. rewrite discard_spec. apply map_sst. intro e. apply (discard_elem e). Qed.
Lemma take_first_sst pred g es es' : (forall e, sst (g e) = sst e) -> take_first pred g es = Some es' -> map sst es' = map sst es.
Proof.
  intros Hg T. apply take_first_some in T. destruct T as [l1 [e [l2 [A [B _]]]]]. subst. rewrite !map_app. cbn. rewrite Hg. reflexivity.
Qed.
Lemma complete_sst es c : map sst (fst (complete es c)) = map sst es.
Proof.
  unfold complete. destruct (first_pot is_matching_fin es).
  - destruct (take_first _ _ es) eqn:T; cbn; [|reflexivity]. apply (take_first_sst _ _ _ _ (fun e => eq_refl) T).
  - destruct (first_pot is_matching es); reflexivity.
Qed.
Lemma with_name_sst es c es' c' : with_name es c = inl (es', c') -> map sst es' = map sst es.
Proof.
  unfold with_name. destruct (pot_empty _); [discriminate|]. intro H. rewrite (surjective_pairing (complete _ _)) in H. inversion H; subst.
  rewrite complete_sst. apply keep_if_sst.
Qed.
Lemma with_item_sst it es c es' c' : with_item it es c = inl (es', c') -> map sst es' = map sst es.
Proof.
  destruct it as [n v|n buf|a]; cbn.
  - unfold check_input. destruct (pot_empty _); [discriminate|]. intro H. rewrite (surjective_pairing (complete _ _)) in H. inversion H; subst.
    rewrite complete_sst, for_pot_sst by (intro e; apply mark_ok). rewrite keep_if_sst. apply discard_sst.
  - unfold check_output. destruct (pot_empty _); [discriminate|]. intro H. rewrite (surjective_pairing (complete _ _)) in H. inversion H; subst.
    rewrite complete_sst, for_pot_sst by (intro e; apply mark_out_ok). rewrite keep_if_sst. apply discard_sst.
  - unfold on_object. destruct (negb (existsb e_cur _) && pot_empty _); [discriminate|]. destruct (negb (existsb e_cur _)).
    + intro H. rewrite (surjective_pairing (complete _ _)) in H. inversion H; subst.
      rewrite complete_sst, for_pot_sst by (intro e; reflexivity). apply keep_if_sst.
    + intro H. inversion H; subst. rewrite for_pot_sst by (intro e; reflexivity). apply keep_if_sst.
Qed.
Lemma with_items_sst : forall its es c es' c', with_items its es c = inl (es', c') -> map sst es' = map sst es.
Proof.
  induction its as [|it r IH]; intros es c es' c' H; cbn in H; [inversion H; reflexivity|].
  destruct (with_item it es c) as [[es1 c1]|] eqn:W; [|discriminate]. rewrite (IH _ _ _ _ H). apply (with_item_sst _ _ _ _ _ W).
Qed.
Lemma cwm_sst o e : sst (call_was_made o e) = sst e.
Proof. unfold call_was_made. rewrite sst_reset. reflexivity. Qed.
Lemma check_call_sst es c es' c' : check_call es c = inl (es', c') -> map sst es' = map sst es.
Proof.
  unfold check_call. destruct (c_checked c); [intro H; inversion H; reflexivity|].
  destruct (c_state (set_checked c)).
  - destruct (existsb _ es); [discriminate|]. destruct (take_first _ _ es) as [es1|] eqn:T.
    + intro H. inversion H; subst. rewrite for_pot_sst by apply sst_reset. apply (take_first_sst _ _ _ _ (fun e => cwm_sst _ (set_fin e true)) T).
    + destruct (existsb _ es); discriminate.
  - intro H. inversion H; subst. rewrite for_pot_sst by apply sst_reset. apply for_cur_sst. intro e. apply cwm_sst.
  - intro H. inversion H; subst. apply for_pot_sst. apply sst_reset.
Qed.
Lemma finish_last_sst m m' : finish_last m = inl m' -> map sst (m_exps m') = map sst (m_exps m).
Proof.
  unfold finish_last. destruct (m_last m) as [c|]; [|intro H; inversion H; reflexivity].
  destruct (check_call (m_exps m) c) as [[es c']|] eqn:CC; [|discriminate]. intro H. inversion H; subst. cbn. apply (check_call_sst _ _ _ _ CC).
Qed.

(* ------------------------------------------------------------------ one actual call *)
Definition effect_of_call (r : effect) (its : list item) (want : bool) : Prop :=
  length (r_outs r) = length (out_names its) /\ (if want then exists x, r_ret r = Some x else r_ret r = None) /\ r_left r = None /\ r_post r = [].

Lemma actual_call_facts m f its want m' r :
  actual_call true m f its want = inl (m', r) ->
  map sst (m_exps m') = map sst (m_exps m) /\ effect_of_call r its want /\
  (want = true ->
   (r_ret r = Some None /\ r_outs r = bufs_of its)
   \/ exists e, In e (m_exps m') /\ e_cur e = true /\ e_name e = f /\ r_ret r = Some (e_ret e) /\
                outs_ok (map (fun n => lookup_out n (ol e)) (out_names its)) (r_outs r) = true).
Proof.
  unfold actual_call. destruct (finish_last m) as [m1|] eqn:FL; [|discriminate]. pose proof (finish_last_sst _ _ FL) as S1.
  change (m_enabled (with_exps m1 (m_exps m1) None)) with (m_enabled m1). change (m_ignore (with_exps m1 (m_exps m1) None)) with (m_ignore m1).
  change (m_exps (with_exps m1 (m_exps m1) None)) with (m_exps m1).
  assert (IGN : forall mm, map sst (m_exps mm) = map sst (m_exps m) -> @inl (mock * effect) failure (mm, ignored_effect its want) = inl (m', r) ->
                map sst (m_exps m') = map sst (m_exps m) /\ effect_of_call r its want /\
                (want = true -> (r_ret r = Some None /\ r_outs r = bufs_of its) \/
                  exists e, In e (m_exps m') /\ e_cur e = true /\ e_name e = f /\ r_ret r = Some (e_ret e) /\
                            outs_ok (map (fun n => lookup_out n (ol e)) (out_names its)) (r_outs r) = true)).
  { intros mm Sm H. inversion H; subst. split; [exact Sm|]. split.
    - unfold effect_of_call, ignored_effect. cbn. split; [apply bufs_of_length|]. split; [destruct want; [eexists; reflexivity|reflexivity]|auto].
    - intro W. subst want. left. auto. }
  destruct (negb (m_enabled m1)); [apply IGN; exact S1|].
  destruct (m_ignore m1 && negb (existsb (relates f) (m_exps m1))); [apply IGN; exact S1|]. clear IGN.
  cbn [m_exps m_aorder m_eorder m_strict m_ignore m_enabled m_last with_exps].
  set (c0 := {| c_name := f; c_order := m_aorder m1 + 1; c_state := Succeeded; c_checked := false; c_outs := [] |}).
  destruct (with_name (create true (m_exps m1)) c0) as [[es1 c1]|] eqn:WN; [|discriminate].
  pose proof (with_name_K (m_exps m1) c0 es1 c1 eq_refl WN) as K1. cbn [c_name c0] in K1.
  pose proof (with_name_sst _ _ _ _ WN) as SN. rewrite create_sst in SN. pose proof (with_name_names _ _ _ _ WN) as N1. cbn [c_outs c0 map] in N1.
  destruct (with_items its es1 c1) as [[es2 c2]|] eqn:WI; [|discriminate].
  pose proof (with_items_K f _ _ _ _ _ K1 WI) as K2. pose proof (with_items_sst _ _ _ _ _ WI) as SI.
  pose proof (with_items_names _ _ _ _ _ WI) as N2. rewrite N1 in N2. cbn [app] in N2.
  assert (LEN : forall l : list (name * list N), map fst l = out_names its -> length (map snd l) = length (out_names its)).
  { intros l E. rewrite <- E, !map_length. reflexivity. }
  destruct want.
  - unfold finish_last. cbn [m_last with_exps m_exps].
    destruct (check_call es2 c2) as [[es3 c3]|] eqn:CC; [|discriminate]. intro H. inversion H; subst m' r. clear H.
    cbn [m_exps with_exps r_ret r_outs]. pose proof (check_call_sst _ _ _ _ CC) as S3. pose proof (check_call_outs _ _ _ _ CC) as O3.
    split; [congruence|]. unfold last_outs. cbn [m_last with_exps].
    split; [split; [rewrite O3; apply LEN; exact N2|split; [cbn; eexists; reflexivity|auto]]|]. intros _. right.
    destruct (check_call_K f _ _ _ _ K2 CC) as [e [He [Ce [Ne [Re [Fe _]]]]]]. exists e. split; [exact He|]. split; [exact Ce|]. split; [exact Ne|].
    split; [rewrite Re; reflexivity|]. rewrite <- N2, <- O3. apply filled_outs_ok. exact Fe.
  - intro H. inversion H; subst m' r. clear H. cbn [m_exps with_exps]. split; [congruence|]. unfold last_outs. cbn [m_last with_exps r_outs r_ret].
    split; [split; [apply LEN; exact N2|auto]|]. discriminate.
Qed.

(* the outputs and the return value an actual call delivers are those of the one expectation it consumed: whatever the state of
   the mock, whatever the expectations (ignoreOtherParameters or not) and whatever the call passes, in whatever order *)
Theorem call_delivers_consumed m f its m' r :
  actual_call true m f its true = inl (m', r) ->
  (r_ret r = Some None /\ r_outs r = bufs_of its)
  \/ exists e, In e (m_exps m') /\ e_cur e = true /\ e_name e = f /\ r_ret r = Some (e_ret e) /\
               outs_ok (out_bytes (sx_of e) its) (r_outs r) = true.
Proof. intro H. destruct (actual_call_facts _ _ _ _ _ _ H) as [_ [_ X]]. exact (X eq_refl). Qed.

(* ------------------------------------------------------------------ one operation on one mock *)
Definition quiet (r : effect) : Prop := r_ret r = None /\ r_outs r = [].
Definition delivered (f : name) (its : list item) (m' : mock) (r : effect) : Prop :=
  (r_ret r = Some None /\ r_outs r = bufs_of its)
  \/ exists e, In e (m_exps m') /\ e_name e = f /\ r_ret r = Some (e_ret e) /\
               outs_ok (map (fun n => lookup_out n (ol e)) (out_names its)) (r_outs r) = true.

Lemma sst_mk n f ps outs obj ret ign lo hi : sst (mk_exp n f ps outs obj ret ign lo hi) = (f, outs, ret).
Proof. unfold sst, ol, mk_exp. cbn [e_name e_outs e_ret]. rewrite ol_mk. reflexivity. Qed.

Lemma step_facts m o m' r : step true m o = inl (m', r) ->
  match o with
  | OExpect n f ps outs obj ret ign =>
      (map sst (m_exps m') = map sst (m_exps m) ++ [(f, outs, ret)] \/ map sst (m_exps m') = map sst (m_exps m)) /\ quiet r
  | OCall f its want => map sst (m_exps m') = map sst (m_exps m) /\ effect_of_call r its want /\ (want = true -> delivered f its m' r)
  | OClear | OPost => m_exps m' = [] /\ quiet r
  | _ => map sst (m_exps m') = map sst (m_exps m) /\ quiet r
  end.
Proof.
  destruct o as [n f ps outs obj ret ign|f its want| | | | | | | |]; cbn [step].
  - intro H. inversion H; subst. split; [|split; reflexivity]. unfold expect. destruct (negb (m_enabled m)); [right; reflexivity|left].
    cbn [m_exps]. rewrite map_app. cbn [map]. rewrite sst_mk. reflexivity.
  - intro H. destruct (actual_call_facts _ _ _ _ _ _ H) as [A [B C]]. split; [exact A|]. split; [exact B|]. intro W.
    destruct (C W) as [X|[e [He [_ [Ne [Re Oe]]]]]]; [left; exact X|right]. exists e. auto.
  - unfold check_expectations. destruct (finish_last m) as [m1|] eqn:FL; [|discriminate].
    destruct (last_ok m1 && unfulfilled (m_exps m1)); [discriminate|]. destruct (existsb e_ooo (m_exps m1)); [discriminate|].
    intro H. inversion H; subst. split; [apply (finish_last_sst _ _ FL)|split; reflexivity].
  - intro H. inversion H; subst. split; [reflexivity|split; reflexivity].
  - intro H. inversion H; subst. split; [reflexivity|split; reflexivity].
  - intro H. inversion H; subst. split; [reflexivity|split; reflexivity].
  - intro H. inversion H; subst. split; [reflexivity|split; reflexivity].
  - intro H. inversion H; subst. split; [reflexivity|split; reflexivity].
  - unfold calls_left. destruct (finish_last m) as [m1|] eqn:FL; [|discriminate]. intro H. inversion H; subst.
    split; [apply (finish_last_sst _ _ FL)|split; reflexivity].
  - intro H. inversion H; subst. split; [reflexivity|split; reflexivity].
Qed.

(* ------------------------------------------------------------------ what the scenario has declared, against the world *)
Definition decl (ds : list dexp) (s : N) (t : name * list (name * list N) * option pv) : Prop :=
  exists d, In d ds /\ d_scope d = s /\ (d_f d, d_outs d, d_ret d) = t.
Definition DeclOK (ds : list dexp) (w : world) : Prop :=
  (forall t, In t (map sst (m_exps (w_g w))) -> decl ds 0 t) /\
  (forall s m, s <> 0 -> lookup_kid s (w_kids w) = Some m -> forall t, In t (map sst (m_exps m)) -> decl ds s t).
(* the declarations after an operation: the bookkeeping of coh *)
Definition ds_after (ds : list dexp) (s : N) (o : op) : list dexp :=
  match o with
  | OExpect _ f _ os _ ret _ => ds ++ [{| d_scope := s; d_f := f; d_outs := os; d_ret := ret |}]
  | OClear | OPost => undeclare s ds
  | _ => ds
  end.

Lemma decl_mono ds ds' s t : (forall d, In d ds -> In d ds') -> decl ds s t -> decl ds' s t.
Proof. intros H [d [A B]]. exists d. split; [apply H; exact A|exact B]. Qed.
Lemma decl_undeclare ds s u t : u <> s -> s <> 0 -> decl ds u t -> decl (undeclare s ds) u t.
Proof.
  intros Hu Hs [d [A [B C]]]. exists d. split; [|auto]. unfold undeclare. rewrite (proj2 (N.eqb_neq s 0) Hs). apply filter_In. split; [exact A|].
  rewrite B. apply negb_true_iff. apply N.eqb_neq. exact Hu.
Qed.
Lemma kid_decl ds w s : DeclOK ds w -> s <> 0 -> forall t, In t (map sst (m_exps (kid s w))) -> decl ds s t.
Proof.
  intros [_ K] Hs t Ht. unfold kid in Ht. destruct (lookup_kid s (w_kids w)) as [m|] eqn:L; [apply (K s m Hs L t Ht)|destruct Ht].
Qed.

Lemma finish_kids_lookup : forall kids kids', finish_kids kids = inl kids' ->
  forall s m', lookup_kid s kids' = Some m' -> exists m, lookup_kid s kids = Some m /\ map sst (m_exps m') = map sst (m_exps m).
Proof.
  induction kids as [|[t m] r IH]; intros kids' H s m' L; cbn in H; [inversion H; subst; discriminate L|].
  destruct (finish_last m) as [m1|] eqn:FL; [|discriminate]. destruct (finish_kids r) as [r'|] eqn:FK; [|discriminate]. inversion H; subst.
  cbn in L |- *. destruct (t =? s).
  - inversion L; subst. exists m. split; [reflexivity|apply (finish_last_sst _ _ FL)].
  - apply (IH r' eq_refl s m' L).
Qed.
Lemma finish_all_decl ds w w' : DeclOK ds w -> finish_all w = inl w' -> DeclOK ds w'.
Proof.
  intros [G K] H. unfold finish_all in H. destruct (finish_last (w_g w)) as [g|] eqn:FL; [|discriminate].
  destruct (finish_kids (w_kids w)) as [ks|] eqn:FK; [|discriminate]. inversion H; subst. split; cbn [w_g w_kids].
  - rewrite (finish_last_sst _ _ FL). exact G.
  - intros s m' Hs L t Ht. destruct (finish_kids_lookup _ _ FK s m' L) as [m [Lm Sm]]. rewrite Sm in Ht. apply (K s m Hs Lm t Ht).
Qed.
Lemma map_kids_decl ds w f : (forall m, m_exps (f m) = m_exps m) -> DeclOK ds w -> DeclOK ds (map_kids f w).
Proof.
  intros Hf [G K]. split; cbn [map_kids w_g w_kids].
  - rewrite Hf. exact G.
  - intros s m' Hs L t Ht. rewrite lookup_map_kids in L. destruct (lookup_kid s (w_kids w)) as [m|] eqn:Lm; [|discriminate L]. cbn in L. inversion L; subst.
    rewrite Hf in Ht. apply (K s m Hs Lm t Ht).
Qed.
Lemma world0_decl ds : DeclOK ds world0.
Proof. split; [intros t []|]. intros s m _ L. discriminate L. Qed.

Lemma opt_pv_eqb_rfl v : opt_pv_eqb v v = true.
Proof. destruct v; cbn; [apply pv_eqb_refl|reflexivity]. Qed.
Lemma list_eqb_rfl {A} (eqb : A -> A -> bool) l : (forall x, eqb x x = true) -> list_eqb eqb l l = true.
Proof. intro H. induction l; cbn; [reflexivity|]. rewrite H, IHl. reflexivity. Qed.

Lemma delivered_coherent ds s f its m' r x :
  (forall t, In t (map sst (m_exps m')) -> decl ds s t) -> delivered f its m' r -> r_ret r = Some x ->
  coherent_call ds s f its x (r_outs r) = true.
Proof.
  intros HD [[A B]|[e [He [Ne [Re Oe]]]]] Hx; unfold coherent_call.
  - rewrite A in Hx. inversion Hx; subst x. rewrite B. rewrite (list_eqb_rfl bytes_eqb _ bytes_eqb_refl). reflexivity.
  - apply orb_true_iff. right. destruct (HD (sst e) (in_map sst _ _ He)) as [d [Hd [Sd Td]]]. unfold sst in Td. inversion Td as [[T1 T2 T3]].
    apply existsb_exists. exists d. split; [exact Hd|]. rewrite Sd, T1, T2, T3, Ne, !N.eqb_refl. rewrite Re in Hx. inversion Hx; subst x.
    rewrite opt_pv_eqb_rfl, Oe. reflexivity.
Qed.

(* what one operation of the world hands back, and the declarations afterwards *)
Definition effect_ok (ds : list dexp) (s : N) (o : op) (r : effect) : Prop :=
  match o with
  | OCall f its want =>
      length (r_outs r) = length (out_names its) /\
      (if want then exists x, r_ret r = Some x /\ coherent_call ds s f its x (r_outs r) = true else r_ret r = None)
  | _ => quiet r
  end.

Lemma in_app_l {A} (l m : list A) x : In x l -> In x (l ++ m). Proof. intro H. apply in_or_app. left. exact H. Qed.

Lemma stepw_facts ds w s o w' r :
  DeclOK ds w -> stepw true w (s, o) = inl (w', r) -> DeclOK (ds_after ds s o) w' /\ effect_ok ds s o r.
Proof.
  intros D. pose proof D as [G K]. unfold stepw. destruct (s =? 0) eqn:E0.
  - apply N.eqb_eq in E0. subst s.
    assert (GEN : match step true (w_g w) o with inr fl => inr fl | inl (g, r0) => inl ({| w_g := g; w_kids := w_kids w |}, r0) end = inl (w', r) ->
                  (forall t, In t (map sst (m_exps (w_g w'))) -> decl (ds_after ds 0 o) 0 t) /\ w_kids w' = w_kids w /\ effect_ok ds 0 o r).
    { destruct (step true (w_g w) o) as [[g r0]|] eqn:ST; [|discriminate]. intro H. inversion H; subst w' r0. cbn [w_g w_kids].
      pose proof (step_facts _ _ _ _ ST) as SF.
      destruct o as [n f ps outs obj ret ign|f its want| | | | | | | |]; cbn [ds_after effect_ok].
      - destruct SF as [[S|S] Q]; (split; [|split; [reflexivity|exact Q]]); intros t Ht; rewrite S in Ht.
        + apply in_app_or in Ht. destruct Ht as [Ht|[Ht|[]]]; [apply (decl_mono ds); [apply in_app_l|apply G; exact Ht]|].
          eexists. split; [apply in_or_app; right; left; reflexivity|]. cbn. auto.
        + apply (decl_mono ds); [apply in_app_l|apply G; exact Ht].
      - destruct SF as [S [[L [RT _]] DL]]. split; [intros t Ht; rewrite S in Ht; apply G; exact Ht|]. split; [reflexivity|]. split; [exact L|].
        destruct want; [|exact RT]. destruct RT as [x Hx]. exists x. split; [exact Hx|]. apply (delivered_coherent ds 0 f its g r); auto.
        intros t Ht. rewrite S in Ht. apply G. exact Ht.
      - destruct SF as [S Q]. split; [intros t Ht; rewrite S in Ht; apply G; exact Ht|auto].
      - destruct SF as [S Q]. split; [rewrite S; intros t []|auto].
      - destruct SF as [S Q]. split; [intros t Ht; rewrite S in Ht; apply G; exact Ht|auto].
      - destruct SF as [S Q]. split; [intros t Ht; rewrite S in Ht; apply G; exact Ht|auto].
      - destruct SF as [S Q]. split; [intros t Ht; rewrite S in Ht; apply G; exact Ht|auto].
      - destruct SF as [S Q]. split; [intros t Ht; rewrite S in Ht; apply G; exact Ht|auto].
      - destruct SF as [S Q]. split; [intros t Ht; rewrite S in Ht; apply G; exact Ht|auto].
      - destruct SF as [S Q]. split; [rewrite S; intros t []|auto]. }
    assert (USE : (forall t, In t (map sst (m_exps (w_g w'))) -> decl (ds_after ds 0 o) 0 t) /\ w_kids w' = w_kids w /\ effect_ok ds 0 o r ->
                  (forall d, In d ds -> In d (ds_after ds 0 o)) -> DeclOK (ds_after ds 0 o) w' /\ effect_ok ds 0 o r).
    { intros [A [B C]] M. split; [|exact C]. split; [exact A|]. rewrite B. intros u m Hu L t Ht. apply (decl_mono ds); [exact M|]. apply (K u m Hu L t Ht). }
    destruct o as [n f ps outs obj ret ign|f its want| | | | | | | |].
    + intro H. apply USE; [apply GEN; exact H|]. intros d Hd. cbn. apply in_app_l. exact Hd.
    + intro H. apply USE; [apply GEN; exact H|]. auto.
    + destruct (check_world w) as [w1|] eqn:CW; [|discriminate]. intro H. inversion H; subst w' r. split; [|split; reflexivity]. cbn [ds_after].
      unfold check_world in CW. destruct (finish_all w) as [w2|] eqn:FA; [|discriminate].
      destruct (last_ok_all w2 && left_all w2); [discriminate|]. destruct (ooo_all w2); [discriminate|]. inversion CW; subst. apply (finish_all_decl ds w); assumption.
    + intro H. inversion H; subst. split; [apply world0_decl|split; reflexivity].
    + intro H. apply USE; [apply GEN; exact H|]. auto.
    + intro H. inversion H; subst. split; [|split; reflexivity]. apply map_kids_decl; [reflexivity|exact D].
    + intro H. inversion H; subst. split; [|split; reflexivity]. apply map_kids_decl; [reflexivity|exact D].
    + intro H. inversion H; subst. split; [|split; reflexivity]. apply map_kids_decl; [reflexivity|exact D].
    + destruct (finish_all w) as [w2|] eqn:FA; [|discriminate]. intro H. inversion H; subst. split; [|split; reflexivity]. apply (finish_all_decl ds w); assumption.
    + intro H. inversion H; subst. split; [apply world0_decl|split; reflexivity].
  - apply N.eqb_neq in E0. destruct (step true (kid s w) o) as [[m r0]|] eqn:ST; [|discriminate]. intro H. inversion H; subst w' r0.
    pose proof (step_facts _ _ _ _ ST) as SF. pose proof (kid_decl ds w s D E0) as KD.
    assert (PUT : forall ds', (forall t, In t (map sst (m_exps m)) -> decl ds' s t) ->
                  (forall u t, u <> s -> decl ds u t -> decl ds' u t) -> DeclOK ds' {| w_g := w_g w; w_kids := put_kid s m (w_kids w) |}).
    { intros ds' HM HO. split; cbn [w_g w_kids].
      - intros t Ht. apply HO; [congruence|]. apply G. exact Ht.
      - intros u mu Hu L t Ht. destruct (N.eq_dec u s) as [->|Hne].
        + rewrite lookup_put_same in L. inversion L; subst. apply HM. exact Ht.
        + rewrite (lookup_put_other s u m _ Hne) in L. apply HO; [exact Hne|]. apply (K u mu Hu L t Ht). }
    destruct o as [n f ps outs obj ret ign|f its want| | | | | | | |]; cbn [ds_after effect_ok].
    + destruct SF as [[S|S] Q]; (split; [|exact Q]); apply PUT.
      * intros t Ht. rewrite S in Ht. apply in_app_or in Ht. destruct Ht as [Ht|[Ht|[]]]; [apply (decl_mono ds); [apply in_app_l|apply KD; exact Ht]|].
        eexists. split; [apply in_or_app; right; left; reflexivity|]. cbn. auto.
      * intros u t _ Hd. apply (decl_mono ds); [apply in_app_l|exact Hd].
      * intros t Ht. rewrite S in Ht. apply (decl_mono ds); [apply in_app_l|apply KD; exact Ht].
      * intros u t _ Hd. apply (decl_mono ds); [apply in_app_l|exact Hd].
    + destruct SF as [S [[L [RT _]] DL]]. split; [apply PUT; [intros t Ht; rewrite S in Ht; apply KD; exact Ht|auto]|]. split; [exact L|].
      destruct want; [|exact RT]. destruct RT as [x Hx]. exists x. split; [exact Hx|]. apply (delivered_coherent ds s f its m r); auto.
      intros t Ht. rewrite S in Ht. apply KD. exact Ht.
    + destruct SF as [S Q]. split; [apply PUT; [intros t Ht; rewrite S in Ht; apply KD; exact Ht|auto]|exact Q].
    + destruct SF as [S Q]. split; [apply PUT; [rewrite S; intros t []|intros u t Hu Hd; apply decl_undeclare; assumption]|exact Q].
    + destruct SF as [S Q]. split; [apply PUT; [intros t Ht; rewrite S in Ht; apply KD; exact Ht|auto]|exact Q].
    + destruct SF as [S Q]. split; [apply PUT; [intros t Ht; rewrite S in Ht; apply KD; exact Ht|auto]|exact Q].
    + destruct SF as [S Q]. split; [apply PUT; [intros t Ht; rewrite S in Ht; apply KD; exact Ht|auto]|exact Q].
    + destruct SF as [S Q]. split; [apply PUT; [intros t Ht; rewrite S in Ht; apply KD; exact Ht|auto]|exact Q].
    + destruct SF as [S Q]. split; [apply PUT; [intros t Ht; rewrite S in Ht; apply KD; exact Ht|auto]|exact Q].
    + destruct SF as [S Q]. split; [apply PUT; [rewrite S; intros t []|intros u t Hu Hd; apply decl_undeclare; assumption]|exact Q].
Qed.

(* ------------------------------------------------------------------ the coherence clause holds of every run of the model *)
Lemma runw_fail_index : forall ops w i a j fl, o_fail (runw_from true w i ops a) = Some (j, fl) -> i <= j.
Proof.
  induction ops as [|so r IH]; intros w i a j fl H; cbn [runw_from] in H; [discriminate H|].
  destruct (stepw true w so) as [[w' rv]|fl0].
  - apply IH in H. lia.
  - cbn in H. inversion H; subst. lia.
Qed.
Lemma firstn_app_exact {A} (l1 l2 : list A) : firstn (length l1) (l1 ++ l2) = l1.
Proof. induction l1; cbn; [destruct l2; reflexivity|]. rewrite IHl1. reflexivity. Qed.
Lemma skipn_app_exact {A} (l1 l2 : list A) : skipn (length l1) (l1 ++ l2) = l2.
Proof. induction l1; cbn; [reflexivity|exact IHl1]. Qed.

Lemma coh_run : forall ops w i a ds, DeclOK ds w ->
  exists X Y, o_rets (runw_from true w i ops a) = rev (a_rets a) ++ X /\ o_outs (runw_from true w i ops a) = rev (a_outs a) ++ Y /\
              coh ops i (match o_fail (runw_from true w i ops a) with Some (j, _) => Some j | None => None end) ds X Y = true.
Proof.
  induction ops as [|[s o] r IH]; intros w i a ds D.
  - exists [], []. cbn. rewrite !app_nil_r. auto.
  - cbn [runw_from]. destruct (stepw true w (s, o)) as [[w' rv]|fl] eqn:ST.
    + destruct (stepw_facts ds w s o w' rv D ST) as [D' EO].
      destruct (IH w' (i + 1) (add_effect a rv) (ds_after ds s o) D') as [X [Y [A [B C]]]].
      set (O := runw_from true w' (i + 1) r (add_effect a rv)) in *.
      set (stop := match o_fail O with Some (j, _) => Some j | None => None end) in *.
      assert (NS : match stop with Some j => j <=? i | None => false end = false).
      { unfold stop. destruct (o_fail O) as [[j fl]|] eqn:F; [|reflexivity]. apply runw_fail_index in F. apply N.leb_gt. lia. }
      assert (AR : rev (a_rets (add_effect a rv)) = rev (a_rets a) ++ match r_ret rv with Some x => [x] | None => [] end).
      { cbn. destruct (r_ret rv); [reflexivity|rewrite app_nil_r; reflexivity]. }
      assert (AO : rev (a_outs (add_effect a rv)) = rev (a_outs a) ++ r_outs rv).
      { cbn. rewrite rev_app_distr, rev_involutive. reflexivity. }
      rewrite AR in A. rewrite AO in B. rewrite <- app_assoc in A, B.
      assert (QUIET : quiet rv -> coh r (i + 1) stop (ds_after ds s o) X Y = coh ((s, o) :: r) i stop ds X Y ->
                      exists X0 Y0, o_rets O = rev (a_rets a) ++ X0 /\ o_outs O = rev (a_outs a) ++ Y0 /\ coh ((s, o) :: r) i stop ds X0 Y0 = true).
      { intros [Q1 Q2] E. rewrite Q1 in A. rewrite Q2 in B. exists X, Y. cbn [app] in A, B. rewrite <- E. auto. }
      destruct o as [n f ps outs obj ret ign|f its want| | | | | | | |]; cbn [effect_ok ds_after] in EO, C, QUIET;
        try (apply QUIET; [exact EO|]; cbn [coh ds_after]; rewrite NS; reflexivity).
      destruct EO as [L RT]. destruct want.
      * destruct RT as [x [Hx CC]]. rewrite Hx in A. exists (x :: X), (r_outs rv ++ Y). split; [exact A|]. split; [exact B|].
        cbn [coh]. rewrite NS, <- L, firstn_app_exact, skipn_app_exact, Nat.eqb_refl, CC, C. reflexivity.
      * rewrite RT in A. exists X, (r_outs rv ++ Y). split; [exact A|]. split; [exact B|]. cbn [coh]. rewrite NS, <- L, skipn_app_exact. exact C.
    + exists [], []. cbn [mk_obs o_rets o_outs o_fail]. rewrite !app_nil_r. split; [reflexivity|]. split; [reflexivity|]. cbn [coh]. rewrite N.leb_refl. reflexivity.
Qed.

Theorem coherent_run ops : coherent ops (runw ops) = true.
Proof.
  unfold coherent, runw, runw_gen. destruct (coh_run ops world0 0 acc0 [] (world0_decl [])) as [X [Y [A [B C]]]].
  cbn [acc0 a_rets a_outs rev app] in A, B. rewrite A, B. exact C.
Qed.

(* the hypotheses are satisfiable: an expectation that ignores other parameters returns 4 bytes through "o0"; the actual call passes
   the unexpected output parameter "o1" first, then "o0", then an unexpected input parameter: it consumes the expectation, gets
   its return value, "o0" carries the bytes and "o1" is untouched *)
Definition buf_ee : list N := [238; 238; 238; 238; 238; 238; 238; 238].
Definition example_ign_outs : list (N * op) :=
  [ (0, OExpect 1 0 [] [(0, [17; 34; 51; 68])] None (Some (PInt TInt 1%Z)) true);
    (0, OCall 0 [IOut 1 buf_ee; IOut 0 buf_ee; IIn 3 (PBool true)] true); (0, OCheck) ].
Example example_ign_outs_delivered :
  o_fail (runw example_ign_outs) = None /\ o_rets (runw example_ign_outs) = [Some (PInt TInt 1%Z)] /\
  o_outs (runw example_ign_outs) = [buf_ee; [17; 34; 51; 68; 238; 238; 238; 238]] /\ coherent example_ign_outs (runw example_ign_outs) = true.
Proof. vm_compute. auto. Qed.
(* the clause is not vacuous: had "o0" been left untouched, it would be false *)
Example example_ign_outs_judged :
  coherent example_ign_outs {| o_fail := None; o_rets := [Some (PInt TInt 1%Z)]; o_outs := [buf_ee; buf_ee]; o_left := []; o_post := [] |} = false.
Proof. vm_compute. reflexivity. Qed.
Example example_call_delivers : exists m' r, actual_call true (expect mock0 1 0 [] [(0, [17; 34; 51; 68])] None (Some (PInt TInt 1%Z)) true) 0
                                              [IOut 1 buf_ee; IOut 0 buf_ee; IIn 3 (PBool true)] true = inl (m', r).
Proof. eexists _, _. vm_compute. reflexivity. Qed.
