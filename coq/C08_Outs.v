(* C08 -- proofs, part 5: the output parameters and the return value an actual call hands back are those of ONE expectation, the
   one it consumed -- for every state of the mock, every expectation set (ignoreOtherParameters, ambiguous, ...) and every list of
   items the call passes (unexpected / ignored ones, names passed twice, any order).  copyOutputParameters is re-run over ALL
   output parameters passed so far whenever a match is (re)established, so the buffers of the finished call carry the consumed
   expectation's bytes under every name it defines.  Then: the coherence clause of the spec holds of every run of the model. *)
From Coq Require Import ZArith NArith Bool List Lia.
From CppUVerif Require Import lib.CInt lib.Str C08_Model C08_Proofs C08_Proofs2 C08_Scopes.
Import ListNotations.
Local Open Scope N_scope.

(* ------------------------------------------------------------------ what never changes in an expectation *)
Definition sst (e : expn) : name * list (name * list N) * option pv := (e_name e, ol e, e_ret e).
Lemma sst_name e e' : sst e = sst e' -> e_name e = e_name e'. Proof. unfold sst. intro H. inversion H. reflexivity. Qed.
Lemma sst_ol e e' : sst e = sst e' -> ol e = ol e'. Proof. unfold sst. intro H. inversion H. reflexivity. Qed.
Lemma sst_ret e e' : sst e = sst e' -> e_ret e = e_ret e'. Proof. unfold sst. intro H. inversion H. reflexivity. Qed.
Lemma stat_sst e e' : stat e = stat e' -> sst e = sst e'.
Proof. intro H. unfold sst. rewrite (stat_name _ _ H), (stat_ol _ _ H), (stat_ret _ _ H). reflexivity. Qed.
Lemma filled_sst e e' outs : sst e = sst e' -> filled e outs -> filled e' outs.
Proof. intros H F. unfold filled in *. rewrite <- (sst_ol _ _ H). exact F. Qed.

(* an elementwise step that keeps the static part and the current-match bit and never adds a candidate *)
Definition tame (h : expn -> expn) : Prop :=
  forall e, sst (h e) = sst e /\ e_cur (h e) = e_cur e /\ (e_pot (h e) = true -> e_pot e = true).
Lemma sst_reset e : sst (reset_e e) = sst e. Proof. apply stat_sst, stat_reset. Qed.
Lemma tame_keep p : tame (fun e => if e_pot e && negb (p e) then drop e else e).
Proof. intro e. destruct (e_pot e && negb (p e)); cbn; auto. repeat split; auto. discriminate. Qed.
Lemma tame_for_pot g : (forall e, sst (g e) = sst e /\ e_cur (g e) = e_cur e /\ e_pot (g e) = e_pot e) -> tame (fun e => if e_pot e then g e else e).
Proof. intros H e. destruct (e_pot e) eqn:E; [|rewrite E; auto]. destruct (H e) as [A [B C]]. rewrite C. auto. Qed.
Lemma tame_unmatching : tame (fun e => if e_pot e && is_matching_fin e then drop (reset_e e) else e).
Proof. intro e. destruct (e_pot e && is_matching_fin e); [|auto]. split; [apply sst_reset|]. split; [reflexivity|]. cbn. discriminate. Qed.
Lemma mark_ok n e : sst (mark n e) = sst e /\ e_cur (mark n e) = e_cur e /\ e_pot (mark n e) = e_pot e.
Proof. split; [apply stat_sst, stat_mark|]. split; reflexivity. Qed.
Lemma mark_out_ok n e : sst (mark_out n e) = sst e /\ e_cur (mark_out n e) = e_cur e /\ e_pot (mark_out n e) = e_pot e.
Proof. split; [apply stat_sst, stat_mark_out|]. split; reflexivity. Qed.
Lemma pass_obj_ok e : sst (pass_obj e) = sst e /\ e_cur (pass_obj e) = e_cur e /\ e_pot (pass_obj e) = e_pot e.
Proof. repeat split. Qed.
Lemma reset_ok e : sst (reset_e e) = sst e /\ e_cur (reset_e e) = e_cur e /\ e_pot (reset_e e) = e_pot e.
Proof. split; [apply sst_reset|]. split; reflexivity. Qed.

Lemma map_sst h es : (forall e, sst (h e) = sst e) -> map sst (map h es) = map sst es.
Proof. intro H. rewrite map_map. apply map_ext. exact H. Qed.
Lemma tame_sst h es : tame h -> map sst (map h es) = map sst es.
Proof. intro T. apply map_sst. intro e. apply (T e). Qed.

(* discardCurrentlyMatchingExpectations leaves no current match *)
Lemma discard_spec es : discard es = map (fun e => let e1 := if e_cur e then set_cur (reset_e e) false else e in
                                                   if e_pot e1 && is_matching_fin e1 then drop (reset_e e1) else e1) es.
Proof. unfold discard, only_keep_unmatching, for_cur. rewrite map_map. reflexivity. Qed.
Lemma discard_elem e :
  let e1 := if e_cur e then set_cur (reset_e e) false else e in
  let e2 := if e_pot e1 && is_matching_fin e1 then drop (reset_e e1) else e1 in
  sst e2 = sst e /\ e_cur e2 = false /\ (e_pot e2 = true -> e_pot e = true).
Proof.
  cbn zeta. destruct (e_cur e) eqn:C.
  - set (e1 := set_cur (reset_e e) false). assert (S1 : sst e1 = sst e) by apply sst_reset.
    destruct (e_pot e1 && is_matching_fin e1).
    + split; [rewrite <- S1; apply sst_reset|]. split; [reflexivity|]. cbn. discriminate.
    + split; [exact S1|]. split; [reflexivity|]. auto.
  - destruct (e_pot e && is_matching_fin e).
    + split; [apply sst_reset|]. split; [exact C|]. cbn. discriminate.
    + auto.
Qed.

(* ------------------------------------------------------------------ the invariant of the call in progress *)
Definition Kc (f : name) (es : list expn) (c : acall) : Prop :=
  c_name c = f /\ c_checked c = false /\
  (forall e, In e es -> e_pot e || e_cur e = true -> e_name e = f) /\
  ((c_state c = Succeeded /\ exists l1 e l2, es = l1 ++ e :: l2 /\ e_cur e = true /\ (forall x, In x (l1 ++ l2) -> e_cur x = false) /\
                                              filled e (c_outs c))
   \/ (c_state c = InProgress /\ (forall x, In x es -> e_cur x = false) /\ forall e, first_pot is_matching es = Some e -> filled e (c_outs c))).

Lemma complete_K f es c :
  c_name c = f -> c_checked c = false -> c_state c = InProgress -> (forall x, In x es -> e_cur x = false) ->
  (forall e, In e es -> e_pot e = true -> e_name e = f) ->
  Kc f (fst (complete es c)) (snd (complete es c)).
Proof.
  intros Hn Hc Hs Hnc Hnm. unfold complete.
  destruct (first_pot is_matching_fin es) as [e|] eqn:FP.
  - destruct (take_first is_matching_fin (fun e0 => e0) es) as [es'|] eqn:T.
    + apply take_first_some in T. destruct T as [l1 [e0 [l2 [A [B [C D]]]]]]. subst es es'.
      rewrite (first_pot_some is_matching_fin l1 e0 l2 C D) in FP. inversion FP; subst e0. cbn [fst snd].
      apply andb_true_iff in C. destruct C as [Cp _].
      split; [exact Hn|]. split; [exact Hc|]. split.
      * intros x Hx Ha. apply in_app_or in Hx. destruct Hx as [Hx|[Hx|Hx]].
        -- apply Hnm; [apply in_or_app; auto|]. rewrite (Hnc x) in Ha by (apply in_or_app; auto). rewrite orb_false_r in Ha. exact Ha.
        -- subst x. cbn. apply Hnm; [apply in_or_app; right; left; reflexivity|exact Cp].
        -- apply Hnm; [apply in_or_app; right; right; exact Hx|]. rewrite (Hnc x) in Ha by (apply in_or_app; right; right; exact Hx).
           rewrite orb_false_r in Ha. exact Ha.
      * left. split; [reflexivity|]. exists l1, (set_cur (drop e) true), l2. split; [reflexivity|]. split; [reflexivity|]. split.
        -- intros x Hx. apply Hnc. apply in_app_or in Hx. apply in_or_app. destruct Hx; [left|right; right]; assumption.
        -- cbn [c_outs set_state set_couts]. apply (filled_sst e); [reflexivity|]. apply copy_outputs_filled.
    + exfalso. pose proof (proj1 (take_first_none _ _ _) T) as TN. rewrite (first_pot_none _ _ TN) in FP. discriminate.
  - destruct (first_pot is_matching es) as [e|] eqn:FM; cbn [fst snd].
    + split; [exact Hn|]. split; [exact Hc|]. split.
      * intros x Hx Ha. apply Hnm; [exact Hx|]. rewrite (Hnc x Hx), orb_false_r in Ha. exact Ha.
      * right. split; [exact Hs|]. split; [exact Hnc|]. intros e' He'. inversion He'; subst. cbn [c_outs set_couts]. apply copy_outputs_filled.
    + split; [exact Hn|]. split; [exact Hc|]. split.
      * intros x Hx Ha. apply Hnm; [exact Hx|]. rewrite (Hnc x Hx), orb_false_r in Ha. exact Ha.
      * right. split; [exact Hs|]. split; [exact Hnc|]. intros e' He'. discriminate.
Qed.

Lemma in_map_elem {A B} (h : A -> B) l x : In x (map h l) -> exists e, In e l /\ x = h e.
Proof. intro H. apply in_map_iff in H. destruct H as [e [A1 A2]]. exists e. auto. Qed.

(* the constructor and withName *)
Lemma with_name_K es c es' c' :
  c_checked c = false -> with_name (create true es) c = inl (es', c') -> Kc (c_name c) es' c'.
Proof.
  intros Hc. unfold with_name. set (c1 := set_state c InProgress). set (es1 := keep_if (relates (c_name c1)) (create true es)).
  destruct (pot_empty es1); [discriminate|]. intro H. inversion H as [[H1 H2]].
  pose proof (complete_K (c_name c) es1 c1 eq_refl Hc eq_refl) as CK.
  rewrite (surjective_pairing (complete es1 c1)) in H. inversion H; subst. apply CK.
  - intros x Hx. unfold es1, keep_if in Hx. apply in_map_elem in Hx. destruct Hx as [e [He ->]].
    destruct (tame_keep (relates (c_name c1)) e) as [_ [B _]]. rewrite B.
    unfold create in He. apply in_map_elem in He. destruct He as [e0 [_ ->]]. destruct (can_match (set_cur e0 false)); reflexivity.
  - intros x Hx Hp. unfold es1, keep_if in Hx. apply in_map_elem in Hx. destruct Hx as [e [He ->]].
    destruct (e_pot e && negb (relates (c_name c1) e)) eqn:E; [cbn in Hp; discriminate|].
    rewrite Hp in E. cbn in E. apply negb_false_iff in E. unfold relates in E. apply N.eqb_eq in E. exact E.
Qed.

(* a parameter: checkInputParameter / checkOutputParameter after the call record was prepared *)
Lemma param_K f p g es c1 :
  c_name c1 = f -> c_checked c1 = false -> c_state c1 = InProgress ->
  (forall e, In e es -> e_pot e || e_cur e = true -> e_name e = f) ->
  (forall e, sst (g e) = sst e /\ e_cur (g e) = e_cur e /\ e_pot (g e) = e_pot e) ->
  let es2 := for_pot g (keep_if p (discard es)) in
  Kc f (fst (complete es2 c1)) (snd (complete es2 c1)).
Proof.
  intros Hn Hc Hs Hnm Hg. cbn zeta.
  assert (EL : forall x, In x (for_pot g (keep_if p (discard es))) ->
               exists e, In e es /\ sst x = sst e /\ e_cur x = false /\ (e_pot x = true -> e_pot e = true)).
  { intros x Hx. unfold for_pot in Hx. apply in_map_elem in Hx. destruct Hx as [x1 [Hx1 ->]].
    unfold keep_if in Hx1. apply in_map_elem in Hx1. destruct Hx1 as [x2 [Hx2 ->]].
    rewrite discard_spec in Hx2. apply in_map_elem in Hx2. destruct Hx2 as [e [He ->]].
    pose proof (discard_elem e) as DE. cbn zeta in DE. set (e2 := if e_pot (if e_cur e then set_cur (reset_e e) false else e) && _ then _ else _) in *.
    destruct DE as [D1 [D2 D3]]. destruct (tame_keep p e2) as [K1 [K2 K3]]. set (e3 := if e_pot e2 && negb (p e2) then drop e2 else e2) in *.
    destruct (tame_for_pot g Hg e3) as [G1 [G2 G3]]. exists e. split; [exact He|]. split; [congruence|]. split; [congruence|]. auto. }
  apply complete_K; try assumption.
  - intros x Hx. destruct (EL x Hx) as [e [_ [_ [C _]]]]. exact C.
  - intros x Hx Hp. destruct (EL x Hx) as [e [He [S [_ P]]]]. rewrite (sst_name _ _ S). apply Hnm; [exact He|]. rewrite (P Hp). reflexivity.
Qed.

Lemma Kc_names f es c : Kc f es c -> forall e, In e es -> e_pot e || e_cur e = true -> e_name e = f.
Proof. intros [_ [_ [H _]]]. exact H. Qed.

Lemma check_input_K f n v es c es' c' : Kc f es c -> check_input n v es c = inl (es', c') -> Kc f es' c'.
Proof.
  intros K. unfold check_input. set (c1 := set_state c InProgress).
  destruct (pot_empty (keep_if (has_input n v) (discard es))); [discriminate|]. intro H.
  pose proof (param_K f (has_input n v) (mark n) es c1) as PK. cbn zeta in PK.
  rewrite (surjective_pairing (complete _ c1)) in H. inversion H; subst. apply PK.
  - apply K. - apply K. - reflexivity. - apply (Kc_names _ _ _ K). - intro e. apply mark_ok.
Qed.
Lemma check_output_K f n buf es c es' c' : Kc f es c -> check_output n buf es c = inl (es', c') -> Kc f es' c'.
Proof.
  intros K. unfold check_output. set (c1 := set_state (set_couts c (c_outs c ++ [(n, buf)])) InProgress).
  destruct (pot_empty (keep_if (has_output n) (discard es))); [discriminate|]. intro H.
  pose proof (param_K f (has_output n) (mark_out n) es c1) as PK. cbn zeta in PK.
  rewrite (surjective_pairing (complete _ c1)) in H. inversion H; subst. apply PK.
  - apply K. - apply K. - reflexivity. - apply (Kc_names _ _ _ K). - intro e. apply mark_out_ok.
Qed.

(* an elementwise tame step keeps a found match *)
Lemma Kc_succ_map f h es c : tame h -> Kc f es c -> c_state c = Succeeded -> Kc f (map h es) c.
Proof.
  intros T [Hn [Hc [Hnm HS]]] St. split; [exact Hn|]. split; [exact Hc|]. split.
  - intros x Hx Ha. apply in_map_elem in Hx. destruct Hx as [e [He ->]]. destruct (T e) as [S [C P]]. rewrite (sst_name _ _ S).
    apply Hnm; [exact He|]. rewrite C in Ha. destruct (e_pot (h e)) eqn:E; [rewrite (P eq_refl); reflexivity|]. cbn in Ha. rewrite Ha. apply orb_true_r.
  - destruct HS as [[_ [l1 [e [l2 [A [B [C D]]]]]]]|[X _]]; [|congruence]. left. split; [exact St|].
    exists (map h l1), (h e), (map h l2). subst es. split; [rewrite map_app; reflexivity|]. destruct (T e) as [S [Cu _]]. split; [congruence|]. split.
    + intros x Hx. rewrite <- map_app in Hx. apply in_map_elem in Hx. destruct Hx as [y [Hy ->]]. destruct (T y) as [_ [Cy _]]. rewrite Cy. apply C. exact Hy.
    + apply (filled_sst e); [symmetry; exact S|exact D].
Qed.

Lemma on_object_K f a es c es' c' : Kc f es c -> on_object a es c = inl (es', c') -> Kc f es' c'.
Proof.
  intros K. unfold on_object. set (es1 := keep_if (relates_obj a) es).
  pose proof (tame_keep (relates_obj a)) as T1. pose proof (tame_for_pot pass_obj pass_obj_ok) as T2.
  destruct (existsb e_cur es1) eqn:EC; cbn [negb andb].
  - (* a match was found before: it is kept *)
    intro H. inversion H; subst.
    assert (St : c_state c' = Succeeded).
    { destruct K as [_ [_ [_ [[S _]|[_ [NC _]]]]]]; [exact S|]. exfalso. apply existsb_exists in EC. destruct EC as [x [Hx Cx]].
      unfold es1, keep_if in Hx. apply in_map_elem in Hx. destruct Hx as [e [He ->]]. destruct (T1 e) as [_ [B _]]. rewrite B, (NC e He) in Cx. discriminate. }
    unfold for_pot, es1, keep_if. apply (Kc_succ_map f _ _ c' T2); [|exact St]. apply (Kc_succ_map f _ _ c' T1); assumption.
  - destruct (pot_empty es1); [discriminate|]. intro H.
    assert (NC : forall x, In x es1 -> e_cur x = false) by (apply existsb_false; exact EC).
    assert (St : c_state c = InProgress).
    { destruct K as [_ [_ [_ [[_ [l1 [e [l2 [A [B _]]]]]]|[S _]]]]]; [|exact S]. exfalso.
      assert (X : e_cur (if e_pot e && negb (relates_obj a e) then drop e else e) = false).
      { apply NC. unfold es1, keep_if. apply in_map. subst es. apply in_or_app. right. left. reflexivity. }
      destruct (T1 e) as [_ [B1 _]]. rewrite B1 in X. congruence. }
    rewrite (surjective_pairing (complete _ c)) in H. inversion H; subst. apply complete_K.
    + apply K. + apply K. + exact St.
    + intros x Hx. unfold for_pot in Hx. apply in_map_elem in Hx. destruct Hx as [y [Hy ->]]. destruct (T2 y) as [_ [B _]]. rewrite B. apply NC. exact Hy.
    + intros x Hx Hp. unfold for_pot in Hx. apply in_map_elem in Hx. destruct Hx as [y [Hy ->]]. destruct (T2 y) as [S2 [_ P2]].
      unfold es1, keep_if in Hy. apply in_map_elem in Hy. destruct Hy as [e [He ->]]. destruct (T1 e) as [S1 [_ P1]].
      rewrite (sst_name _ _ S2), (sst_name _ _ S1). apply (Kc_names _ _ _ K e He). rewrite (P1 (P2 Hp)). reflexivity.
Qed.

Lemma with_items_K f : forall its es c es' c', Kc f es c -> with_items its es c = inl (es', c') -> Kc f es' c'.
Proof.
  induction its as [|it r IH]; intros es c es' c' K H; cbn in H; [inversion H; subst; exact K|].
  destruct (with_item it es c) as [[es1 c1]|] eqn:W; [|discriminate]. apply (IH es1 c1 es' c'); [|exact H].
  destruct it as [n v|n buf|a]; cbn in W.
  - apply (check_input_K f n v es c); assumption.
  - apply (check_output_K f n buf es c); assumption.
  - apply (on_object_K f a es c); assumption.
Qed.

(* the names of the buffers the call holds are the output names passed, in order *)
Lemma complete_outs_names es c : map fst (c_outs (snd (complete es c))) = map fst (c_outs c).
Proof.
  unfold complete. destruct (first_pot is_matching_fin es).
  - destruct (take_first _ _ es); cbn; [apply copy_outputs_names|reflexivity].
  - destruct (first_pot is_matching es); cbn; [apply copy_outputs_names|reflexivity].
Qed.
Lemma with_item_names it es c es' c' : with_item it es c = inl (es', c') -> map fst (c_outs c') = map fst (c_outs c) ++ out_names [it].
Proof.
  destruct it as [n v|n buf|a]; cbn.
  - unfold check_input. destruct (pot_empty _); [discriminate|]. intro H. rewrite (surjective_pairing (complete _ _)) in H. inversion H; subst.
    rewrite complete_outs_names. cbn. rewrite app_nil_r. reflexivity.
  - unfold check_output. destruct (pot_empty _); [discriminate|]. intro H. rewrite (surjective_pairing (complete _ _)) in H. inversion H; subst.
    rewrite complete_outs_names. cbn. rewrite map_app. reflexivity.
  - unfold on_object. destruct (negb (existsb e_cur _) && pot_empty _); [discriminate|]. destruct (negb (existsb e_cur _)).
    + intro H. rewrite (surjective_pairing (complete _ _)) in H. inversion H; subst. rewrite complete_outs_names, app_nil_r. reflexivity.
    + intro H. inversion H; subst. rewrite app_nil_r. reflexivity.
Qed.
Lemma with_items_names : forall its es c es' c', with_items its es c = inl (es', c') -> map fst (c_outs c') = map fst (c_outs c) ++ out_names its.
Proof.
  induction its as [|it r IH]; intros es c es' c' H; cbn in H; [inversion H; subst; cbn; rewrite app_nil_r; reflexivity|].
  destruct (with_item it es c) as [[es1 c1]|] eqn:W; [|discriminate]. rewrite (IH _ _ _ _ H), (with_item_names _ _ _ _ _ W), <- app_assoc.
  change (it :: r) with ([it] ++ r). rewrite out_names_app. reflexivity.
Qed.
Lemma with_name_names es c es' c' : with_name es c = inl (es', c') -> map fst (c_outs c') = map fst (c_outs c).
Proof.
  unfold with_name. destruct (pot_empty _); [discriminate|]. intro H. rewrite (surjective_pairing (complete _ _)) in H. inversion H; subst.
  rewrite complete_outs_names. reflexivity.
Qed.
Lemma check_call_outs es c es' c' : check_call es c = inl (es', c') -> c_outs c' = c_outs c.
Proof.
  unfold check_call. destruct (c_checked c); [intro H; inversion H; reflexivity|].
  destruct (c_state (set_checked c)); [| intro H; inversion H; reflexivity | intro H; inversion H; reflexivity].
  destruct (existsb _ es); [discriminate|]. destruct (take_first _ _ es); [intro H; inversion H; reflexivity|].
  destruct (existsb _ es); discriminate.
Qed.

(* ------------------------------------------------------------------ finishing the call: the consumed expectation *)
Lemma find_cur_unique l1 e l2 : e_cur e = true -> (forall x, In x l1 -> e_cur x = false) -> find e_cur (l1 ++ e :: l2) = Some e.
Proof.
  intros He H. induction l1 as [|x r IH]; cbn; [rewrite He; reflexivity|]. rewrite (H x (or_introl eq_refl)). apply IH. intros y Hy. apply H. right. exact Hy.
Qed.
Lemma find_cur_map h l : (forall e, e_cur (h e) = e_cur e) -> find e_cur (map h l) = option_map h (find e_cur l).
Proof. intro H. induction l as [|x r IH]; cbn; [reflexivity|]. rewrite H. destruct (e_cur x); [reflexivity|exact IH]. Qed.

Lemma check_call_K f es c es' c' :
  Kc f es c -> check_call es c = inl (es', c') ->
  exists e, In e es' /\ e_cur e = true /\ e_name e = f /\ cur_ret es' = e_ret e /\ filled e (c_outs c') /\ c_state c' = Succeeded.
Proof.
  intros [Hn [Hc [Hnm HS]]]. unfold check_call. rewrite Hc. change (c_state (set_checked c)) with (c_state c).
  destruct HS as [[St [l1 [e [l2 [A [B [C D]]]]]]]|[St [NC FM]]]; rewrite St.
  - intro H. inversion H; subst es' c'. clear H.
    set (h := fun x => let x1 := if e_cur x then call_was_made (c_order (set_checked c)) x else x in if e_pot x1 then reset_e x1 else x1).
    assert (EQ : for_pot reset_e (for_cur (call_was_made (c_order (set_checked c))) es) = map h es).
    { unfold for_pot, for_cur. rewrite map_map. reflexivity. }
    assert (HC : forall x, e_cur (h x) = e_cur x).
    { intro x. unfold h. cbn zeta. destruct (e_cur x) eqn:E.
      - destruct (e_pot (call_was_made _ x)); cbn; exact E.
      - destruct (e_pot x); cbn; exact E. }
    assert (HS : forall x, sst (h x) = sst x).
    { intro x. unfold h. cbn zeta. assert (S1 : sst (if e_cur x then call_was_made (c_order (set_checked c)) x else x) = sst x).
      { destruct (e_cur x); [|reflexivity]. unfold call_was_made. rewrite sst_reset. reflexivity. }
      destruct (e_pot _); [rewrite sst_reset|]; exact S1. }
    rewrite EQ. exists (h e). subst es. split; [apply in_map; apply in_or_app; right; left; reflexivity|]. split; [rewrite HC; exact B|].
    split; [rewrite (sst_name _ _ (HS e)); apply Hnm; [apply in_or_app; right; left; reflexivity|rewrite B; apply orb_true_r]|].
    split; [|split; [apply (filled_sst e); [symmetry; apply HS|exact D]|exact St]].
    unfold cur_ret. rewrite (find_cur_map h _ HC), (find_cur_unique l1 e l2 B). { cbn. reflexivity. }
    intros x Hx. apply C. apply in_or_app. left. exact Hx.
  - destruct (existsb (fun e => e_pot e && is_matching_fin e) es); [discriminate|].
    destruct (take_first is_matching (fun e => call_was_made (c_order (set_checked c)) (set_fin e true)) es) as [es1|] eqn:T.
    2: { destruct (existsb _ es); discriminate. }
    intro H. inversion H; subst es' c'. clear H.
    apply take_first_some in T. destruct T as [l1 [e [l2 [A [B [C D]]]]]]. subst es es1.
    pose proof (FM e (first_pot_some is_matching l1 e l2 C D)) as FE. apply andb_true_iff in C. destruct C as [Cp _].
    set (e1 := call_was_made (c_order (set_checked c)) (set_fin (set_cur (drop e) true) true)).
    assert (S1 : sst e1 = sst e) by (unfold e1, call_was_made; rewrite sst_reset; reflexivity).
    assert (C1 : e_cur e1 = true) by reflexivity.
    set (h := fun x => if e_pot x then reset_e x else x).
    assert (HC : forall x, e_cur (h x) = e_cur x) by (intro x; unfold h; destruct (e_pot x); reflexivity).
    assert (HSs : forall x, sst (h x) = sst x) by (intro x; unfold h; destruct (e_pot x); [apply sst_reset|reflexivity]).
    change (for_pot reset_e (l1 ++ e1 :: l2)) with (map h (l1 ++ e1 :: l2)).
    exists (h e1). split; [apply in_map; apply in_or_app; right; left; reflexivity|]. split; [rewrite HC; exact C1|].
    split; [rewrite (sst_name _ _ (HSs e1)), (sst_name _ _ S1); apply Hnm; [apply in_or_app; right; left; reflexivity|rewrite Cp; reflexivity]|].
    split; [|split; [apply (filled_sst e); [rewrite HSs; symmetry; exact S1|exact FE]|reflexivity]].
    unfold cur_ret. rewrite (find_cur_map h _ HC), (find_cur_unique l1 e1 l2 C1). { cbn. reflexivity. }
    intros x Hx. apply NC. apply in_or_app. left. exact Hx.
Qed.

(* ------------------------------------------------------------------ static parts through one call *)
Lemma create_sst es : map sst (create true es) = map sst es.
Proof. unfold create. apply map_sst. intro e. destruct (can_match (set_cur e false)); [apply sst_reset|reflexivity]. Qed.
Lemma keep_if_sst p es : map sst (keep_if p es) = map sst es.
Proof. apply tame_sst, tame_keep. Qed.
Lemma for_pot_sst g es : (forall e, sst (g e) = sst e) -> map sst (for_pot g es) = map sst es.
Proof. intro H. apply map_sst. intro e. destruct (e_pot e); [apply H|reflexivity]. Qed.
Lemma for_cur_sst g es : (forall e, sst (g e) = sst e) -> map sst (for_cur g es) = map sst es.
Proof. intro H. apply map_sst. intro e. destruct (e_cur e); [apply H|reflexivity]. Qed.
Lemma discard_sst es : map sst (discard es) = map sst es.
Proof. rewrite discard_spec. apply map_sst. intro e. apply (discard_elem e). Qed.
Lemma take_first_sst pred g es es' : (forall e, sst (g e) = sst e) -> take_first pred g es = Some es' -> map sst es' = map sst es.
Proof.
  intros Hg T. apply take_first_some in T. destruct T as [l1 [e [l2 [A [B _]]]]]. subst. rewrite !map_app. cbn. rewrite Hg. reflexivity.
Qed.
Lemma complete_sst es c : map sst (fst (complete es c)) = map sst es.
Proof.
  unfold complete. destruct (first_pot is_matching_fin es).
  - destruct (take_first _ _ es) eqn:T; cbn; [|reflexivity]. apply (take_first_sst _ _ _ _ (fun e => eq_refl) T).
  - destruct (first_pot is_matching es); reflexivity.
Qed.
Lemma with_name_sst es c es' c' : with_name es c = inl (es', c') -> map sst es' = map sst es.
Proof.
  unfold with_name. destruct (pot_empty _); [discriminate|]. intro H. rewrite (surjective_pairing (complete _ _)) in H. inversion H; subst.
  rewrite complete_sst. apply keep_if_sst.
Qed.
Lemma with_item_sst it es c es' c' : with_item it es c = inl (es', c') -> map sst es' = map sst es.
Proof.
  destruct it as [n v|n buf|a]; cbn.
  - unfold check_input. destruct (pot_empty _); [discriminate|]. intro H. rewrite (surjective_pairing (complete _ _)) in H. inversion H; subst.
    rewrite complete_sst, for_pot_sst by (intro e; apply mark_ok). rewrite keep_if_sst. apply discard_sst.
  - unfold check_output. destruct (pot_empty _); [discriminate|]. intro H. rewrite (surjective_pairing (complete _ _)) in H. inversion H; subst.
    rewrite complete_sst, for_pot_sst by (intro e; apply mark_out_ok). rewrite keep_if_sst. apply discard_sst.
  - unfold on_object. destruct (negb (existsb e_cur _) && pot_empty _); [discriminate|]. destruct (negb (existsb e_cur _)).
    + intro H. rewrite (surjective_pairing (complete _ _)) in H. inversion H; subst.
      rewrite complete_sst, for_pot_sst by (intro e; reflexivity). apply keep_if_sst.
    + intro H. inversion H; subst. rewrite for_pot_sst by (intro e; reflexivity). apply keep_if_sst.
Qed.
Lemma with_items_sst : forall its es c es' c', with_items its es c = inl (es', c') -> map sst es' = map sst es.
Proof.
  induction its as [|it r IH]; intros es c es' c' H; cbn in H; [inversion H; reflexivity|].
  destruct (with_item it es c) as [[es1 c1]|] eqn:W; [|discriminate]. rewrite (IH _ _ _ _ H). apply (with_item_sst _ _ _ _ _ W).
Qed.
Lemma cwm_sst o e : sst (call_was_made o e) = sst e.
Proof. unfold call_was_made. rewrite sst_reset. reflexivity. Qed.
Lemma check_call_sst es c es' c' : check_call es c = inl (es', c') -> map sst es' = map sst es.
Proof.
  unfold check_call. destruct (c_checked c); [intro H; inversion H; reflexivity|].
  destruct (c_state (set_checked c)).
  - destruct (existsb _ es); [discriminate|]. destruct (take_first _ _ es) as [es1|] eqn:T.
    + intro H. inversion H; subst. rewrite for_pot_sst by apply sst_reset. apply (take_first_sst _ _ _ _ (fun e => cwm_sst _ (set_fin e true)) T).
    + destruct (existsb _ es); discriminate.
  - intro H. inversion H; subst. rewrite for_pot_sst by apply sst_reset. apply for_cur_sst. intro e. apply cwm_sst.
  - intro H. inversion H; subst. apply for_pot_sst. apply sst_reset.
Qed.
Lemma finish_last_sst m m' : finish_last m = inl m' -> map sst (m_exps m') = map sst (m_exps m).
Proof.
  unfold finish_last. destruct (m_last m) as [c|]; [|intro H; inversion H; reflexivity].
  destruct (check_call (m_exps m) c) as [[es c']|] eqn:CC; [|discriminate]. intro H. inversion H; subst. cbn. apply (check_call_sst _ _ _ _ CC).
Qed.

(* ------------------------------------------------------------------ one actual call *)
Definition effect_of_call (r : effect) (its : list item) (want : bool) : Prop :=
  length (r_outs r) = length (out_names its) /\ (if want then exists x, r_ret r = Some x else r_ret r = None) /\ r_left r = None /\ r_post r = [].

Lemma actual_call_facts m f its want m' r :
  actual_call true m f its want = inl (m', r) ->
  map sst (m_exps m') = map sst (m_exps m) /\ effect_of_call r its want /\
  (want = true ->
   (r_ret r = Some None /\ r_outs r = bufs_of its)
   \/ exists e, In e (m_exps m') /\ e_cur e = true /\ e_name e = f /\ r_ret r = Some (e_ret e) /\
                outs_ok (map (fun n => lookup_out n (ol e)) (out_names its)) (r_outs r) = true).
Proof.
  unfold actual_call. destruct (finish_last m) as [m1|] eqn:FL; [|discriminate]. pose proof (finish_last_sst _ _ FL) as S1.
  change (m_enabled (with_exps m1 (m_exps m1) None)) with (m_enabled m1). change (m_ignore (with_exps m1 (m_exps m1) None)) with (m_ignore m1).
  change (m_exps (with_exps m1 (m_exps m1) None)) with (m_exps m1).
  assert (IGN : forall mm, map sst (m_exps mm) = map sst (m_exps m) -> inl (mm, ignored_effect its want) = inl (m', r) ->
                map sst (m_exps m') = map sst (m_exps m) /\ effect_of_call r its want /\
                (want = true -> (r_ret r = Some None /\ r_outs r = bufs_of its) \/
                  exists e, In e (m_exps m') /\ e_cur e = true /\ e_name e = f /\ r_ret r = Some (e_ret e) /\
                            outs_ok (map (fun n => lookup_out n (ol e)) (out_names its)) (r_outs r) = true)).
  { intros mm Sm H. inversion H; subst. split; [exact Sm|]. split.
    - unfold effect_of_call, ignored_effect. cbn. split; [apply bufs_of_length|]. split; [destruct want; eauto|auto].
    - intro W. subst want. left. auto. }
  destruct (negb (m_enabled m1)); [apply IGN; exact S1|].
  destruct (m_ignore m1 && negb (existsb (relates f) (m_exps m1))); [apply IGN; exact S1|]. clear IGN.
  set (c0 := {| c_name := f; c_order := m_aorder m1 + 1; c_state := Succeeded; c_checked := false; c_outs := [] |}).
  destruct (with_name (create true (m_exps m1)) c0) as [[es1 c1]|] eqn:WN; [|discriminate].
  pose proof (with_name_K _ _ _ _ eq_refl WN) as K1. cbn [c_name c0] in K1.
  pose proof (with_name_sst _ _ _ _ WN) as SN. rewrite create_sst in SN. pose proof (with_name_names _ _ _ _ WN) as N1. cbn [c_outs c0 map] in N1.
  destruct (with_items its es1 c1) as [[es2 c2]|] eqn:WI; [|discriminate].
  pose proof (with_items_K f _ _ _ _ _ K1 WI) as K2. pose proof (with_items_sst _ _ _ _ _ WI) as SI.
  pose proof (with_items_names _ _ _ _ _ WI) as N2. rewrite N1 in N2. cbn [app] in N2.
  assert (LEN : forall l : list (name * list N), map fst l = out_names its -> length (map snd l) = length (out_names its)).
  { intros l E. rewrite <- E, !map_length. reflexivity. }
  destruct want.
  - unfold finish_last. cbn [m_last with_exps m_exps].
    destruct (check_call es2 c2) as [[es3 c3]|] eqn:CC; [|discriminate]. intro H. inversion H; subst m' r. clear H.
    cbn [m_exps with_exps r_ret r_outs]. pose proof (check_call_sst _ _ _ _ CC) as S3. pose proof (check_call_outs _ _ _ _ CC) as O3.
    split; [congruence|]. unfold last_outs. cbn [m_last with_exps].
    split; [split; [rewrite O3; apply LEN; exact N2|split; [eauto|auto]]|]. intros _. right.
    destruct (check_call_K f _ _ _ _ K2 CC) as [e [He [Ce [Ne [Re [Fe _]]]]]]. exists e. split; [exact He|]. split; [exact Ce|]. split; [exact Ne|].
    split; [rewrite Re; reflexivity|]. rewrite <- N2, <- O3. apply filled_outs_ok. exact Fe.
  - intro H. inversion H; subst m' r. clear H. cbn [m_exps with_exps]. split; [congruence|]. unfold last_outs. cbn [m_last with_exps r_outs r_ret].
    split; [split; [apply LEN; exact N2|auto]|]. discriminate.
Qed.

(* the outputs and the return value an actual call delivers are those of the one expectation it consumed: whatever the state of
   the mock, whatever the expectations (ignoreOtherParameters or not) and whatever the call passes, in whatever order *)
Theorem call_delivers_consumed m f its m' r :
  actual_call true m f its true = inl (m', r) ->
  (r_ret r = Some None /\ r_outs r = bufs_of its)
  \/ exists e, In e (m_exps m') /\ e_cur e = true /\ e_name e = f /\ r_ret r = Some (e_ret e) /\
               outs_ok (out_bytes (sx_of e) its) (r_outs r) = true.
Proof. intro H. destruct (actual_call_facts _ _ _ _ _ _ H) as [_ [_ X]]. exact (X eq_refl). Qed.
