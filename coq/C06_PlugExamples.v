(* C06 -- plugin layer: every theorem's hypotheses are met by a concrete, non-trivial instance *)
From Coq Require Import NArith ZArith List Bool Arith Lia.
From CppUVerif Require Import gen.Gen_Common gen.Gen_C06 lib.Str C04_Model C04_Lists C04_Table C06_Model C06_Proofs C06_Sim C06_Examples
  C06_Plug C06_PlugProofs.
Import ListNotations.
Local Open Scope N_scope.

(* thread-safe on, saved, default turned on inside the save, saved again (nested: nothing), restored twice: thread-safe again;
   the saved pointers are the thread-safe ones as well; one more restore (one too many) brings the saved table back again *)
Definition ex_hist : list swop := [SwSafe; SwSave; SwDefault; SwSave; SwRestore; SwRestore].
Example wiring_coherent_ex :
  a_cur (flav_after ex_hist) = FlSafe /\ a_count (flav_after ex_hist) = 0%Z /\
  ov_cur (ov_after ex_hist) SNewArrNothrow = (HSafe, SNewArrNothrow) /\
  ov_cur (ov_after (ex_hist ++ [SwOff; SwRestore])) SDelArr = (HSafe, SDelArr) /\
  ov_count (ov_after (ex_hist ++ [SwOff; SwRestore])) = (-1)%Z.
Proof.
  split; [reflexivity|]. split; [reflexivity|].
  destruct (wiring_coherent ex_hist) as (C & _). split; [apply C|].
  destruct (wiring_coherent (ex_hist ++ [SwOff; SwRestore])) as (C2 & _ & N2). split; [apply C2|]. rewrite N2. reflexivity.
Qed.

Example entry_family_ex :
  is_on (flav_after ex_hist) = true /\
  handler_act (ov_cur (ov_after ex_hist) (aform_slot AArrNothrow)) = AAlloc FArr /\
  handler_act (ov_cur (ov_after ex_hist) (rform_slot RDelSized)) = ARelease FNew /\
  is_on (flav_after [SwSave; SwSafe; SwRestore; SwSave]) = false /\
  handler_act (ov_cur (ov_after [SwSave; SwSafe; SwRestore; SwSave]) SFree) = AUntracked.
Proof.
  destruct (entry_family ex_hist) as [On _]. destruct (On eq_refl) as (A & R & _).
  split; [reflexivity|]. split; [apply A|]. split; [apply R|]. split; [reflexivity|].
  destruct (entry_family [SwSave; SwSafe; SwRestore; SwSave]) as [_ Off]. apply Off. reflexivity.
Qed.

(* objects of C06_Examples: 0 "n", 1 "a", 2 accounting wrapper around 0, 3 MemoryLeakAllocator around 2 *)
Definition ex_pscn : pscenario :=
  mkPS false ex_ds
    [XAlloc AArrNothrow 1 4608 5; XFree RArrSized 1 (Some 4608);                       (* initial wiring: paired, silent *)
     XSwitch SwSafe; XSwitch SwDefault;
     XAlloc AArrNothrow 1 4608 5; XFree RDelNothrow 0 (Some 4608);                     (* new[] nothrow / delete: mismatch *)
     XSwitch SwSave; XDet (OpTypeCheck true); XSwitch SwRestore;
     XAlloc AStrdup 1 9216 3; XDet (OpWrite 9219 [0]); XFree RFreeLoc 1 (Some 9216);   (* guard byte changed *)
     XSwitch SwOff; XDet (OpAlloc (EDirect true) 0 13824 2); XSwitch SwSafe;
     XFree RDelFileInt 2 (Some 13824);                                                 (* through the wrapper of "n": silent *)
     XAlloc ANewFileSize 0 4608 1; XRealloc 0 (Some 4608) 9216 8; XFree RArrFileSize 1 (Some 9216)].
Example prun_meets_spec_ex :
  pvalid ex_pscn = true /\ map o_cat (prun ex_pscn) = [0; 2; 3; 0; 0; 2] /\ pspec ex_pscn (prun ex_pscn) = true.
Proof.
  assert (V : pvalid ex_pscn = true) by (vm_compute; reflexivity).
  split; [exact V|]. split; [vm_compute; reflexivity|]. apply prun_meets_spec. exact V.
Qed.

Example lowering_is_property_view_ex :
  on_ok a_init (ps_ops ex_pscn) = true /\ length (lower (ps_ops ex_pscn)) = 13%nat /\ lower (ps_ops ex_pscn) = prop_view (ps_ops ex_pscn).
Proof.
  assert (V : on_ok a_init (ps_ops ex_pscn) = true) by (vm_compute; reflexivity).
  split; [exact V|]. split; [vm_compute; reflexivity|]. apply lowering_is_property_view. exact V.
Qed.

Lemma d_init_facts : Inv (s_tbl d_init) /\ slots_ok (flat (s_tbl d_init)) /\ ~ outstanding d_init 4608.
Proof.
  split; [exact inv_empty|]. split; [unfold slots_ok; cbn; constructor|]. unfold outstanding. cbn. tauto.
Qed.

(* the rarely used nothrow array form after the overloads went thread-safe -> saved -> restored -> off -> default again;
   released through the sized scalar delete after one more off/on round: reported as a mismatch, one callback; released through the
   nothrow array delete: silent *)
Example form_pair_exact_ex :
  (exists x, run_from ex_ds true d_init
               (lower (map XSwitch [SwSafe; SwSave; SwRestore; SwOff; SwDefault] ++
                       XAlloc AArrNothrow 1 4608 7 :: map XSwitch [SwOff; SwSafe] ++ [XFree RDelSized 0 (Some 4608)])) = [x] /\
             o_cat x = 2 /\ o_calls x = 1) /\
  (exists x, run_from ex_ds true d_init
               (lower (map XSwitch [SwSafe; SwSave; SwRestore; SwOff; SwDefault] ++
                       XAlloc AArrNothrow 1 4608 7 :: map XSwitch [SwOff; SwSafe] ++ [XFree RArrNothrow 1 (Some 4608)])) = [x] /\
             o_cat x = 0 /\ o_calls x = 0).
Proof.
  destruct d_init_facts as (I & SO & Hn).
  assert (Ha : 4608 mod slot_size = 0) by reflexivity.
  assert (Hs : 7 <= max_size) by (vm_compute; discriminate).
  split.
  - destruct (form_pair_exact ex_ds true d_init [SwSafe; SwSave; SwRestore; SwOff; SwDefault] [SwOff; SwSafe] AArrNothrow RDelSized 1%nat 0%nat 4608 7
                I SO Hn Ha Hs eq_refl eq_refl eq_refl) as (_ & _ & x & R & C2 & _ & K1 & _).
    exists x. split; [exact R|].
    assert (D : fam_differs ex_ds (s_tc d_init) 1 0) by (split; [reflexivity | vm_compute; discriminate]).
    split; [apply C2; exact D | apply K1; exact D].
  - destruct (form_pair_exact ex_ds true d_init [SwSafe; SwSave; SwRestore; SwOff; SwDefault] [SwOff; SwSafe] AArrNothrow RArrNothrow 1%nat 1%nat 4608 7
                I SO Hn Ha Hs eq_refl eq_refl eq_refl) as (_ & _ & x & R & _ & C0 & _ & K0).
    exists x. split; [exact R|].
    assert (D : ~ fam_differs ex_ds (s_tc d_init) 1 1) by (intros [_ H]; apply H; reflexivity).
    split; [apply C0; exact D | apply K0; exact D].
Qed.

(* one object per family: "n" for new, "a" for new[], "m" for malloc *)
Definition ex_ds3 : list adesc := [APlain [110]; APlain [97]; APlain [109]].
Definition ex_cur (g : fam) : nat := match g with FNew => 0%nat | FArr => 1%nat | FMal => 2%nat end.
Example form_pair_by_family_ex :
  exists x, run_from ex_ds3 false d_init
              (lower (map XSwitch [SwSave; SwRestore] ++
                      XAlloc ACalloc (ex_cur FMal) 4608 0 :: map XSwitch [SwSafe] ++ [XFree RArrFileInt (ex_cur FArr) (Some 4608)])) = [x] /\
            o_cat x = 2.
Proof.
  destruct d_init_facts as (I & SO & Hn).
  assert (Inj : forall g1 g2, fam_of ex_ds3 (ex_cur g1) = fam_of ex_ds3 (ex_cur g2) -> g1 = g2).
  { intros g1 g2. destruct g1, g2; vm_compute; intros H; try reflexivity; discriminate H. }
  destruct (form_pair_by_family ex_ds3 false d_init [SwSave; SwRestore] [SwSafe] ACalloc RArrFileInt ex_cur 4608 0
              I SO Hn eq_refl ltac:(vm_compute; discriminate) eq_refl Inj eq_refl eq_refl) as (x & R & C2 & _).
  exists x. split; [exact R|]. apply C2. split; [reflexivity|discriminate].
Qed.

Example old_language_embedded_ex :
  prun (mkPS (sc_jump ex_scn) (sc_allocs ex_scn) (map embed_op (sc_ops ex_scn))) = run ex_scn /\
  map o_cat (run ex_scn) = [0; 1; 2; 3; 1; 0; 0] /\
  pvalid (mkPS (sc_jump ex_scn) (sc_allocs ex_scn) (map embed_op (sc_ops ex_scn))) = true.
Proof.
  split; [apply (old_language_embedded ex_scn)|]. split; vm_compute; reflexivity.
Qed.
