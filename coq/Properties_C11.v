(* C11 -- separate-process mode contains every way a test can die.
   Only statements; every proof is `exact <lemma>` into C11_Words.v / C11_Proofs.v. *)
From Coq Require Import NArith ZArith List Bool Arith.
From CppUVerif Require Import gen.Gen_C11 C11_Model C11_Words C11_Proofs.
Import ListNotations.
Local Open Scope N_scope.

(* all 65536 status words (a genuinely finite domain, swept by vm_compute): exited / signaled / stopped are mutually
   exclusive, no class exactly for low byte 0xff, and the decoded fields are the ones the layout names *)
Theorem C11_status_partition : forall w, w < 65536 -> word_partition_ok w = true.
Proof. exact word_partition. Qed.
Print Assumptions C11_status_partition.

(* the model's run satisfies the property's oracle for every valid scenario *)
Theorem C11_run_meets_spec : forall s, valid s = true -> spec s (run s) = true.
Proof. exact run_meets_spec. Qed.
Print Assumptions C11_run_meets_spec.
