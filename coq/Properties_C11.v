(* C11 -- separate-process mode contains every way a test can die.
   Only statements; every proof is `exact <lemma>` into C11_Words.v / C11_Proofs.v / C11_Loop.v / C11_Compose.v. *)
From Coq Require Import NArith ZArith List Bool Arith.
From CppUVerif Require Import gen.Gen_C11 C11_Model C11_Words C11_Proofs C11_Loop C11_Compose C11_Passes C11_Env.
Import ListNotations.
Local Open Scope N_scope.

(* all 65536 status words (a genuinely finite domain, swept by vm_compute and lifted with forallb_forall): exited /
   signaled / stopped are mutually exclusive, no class exactly for low byte 0xff, the decoded fields are the ones the
   layout names *)
Theorem C11_status_partition : forall w, w < 65536 -> word_partition_ok w = true.
Proof. exact word_partition. Qed.
Print Assumptions C11_status_partition.

(* ... and for every int whatsoever the macros read the low 16 bits only *)
Theorem C11_status_high_bits_ignored : forall w,
  decode w = decode (w mod 65536) /\ set_failure_by_status w = set_failure_by_status (w mod 65536).
Proof. exact status_high_bits_ignored. Qed.
Print Assumptions C11_status_high_bits_ignored.

(* decoding inverts the kernel's packing: every exit code 0..255, every signal 1..126 with or without core flag, every stop signal *)
Theorem C11_decode_inverts_encode : forall e, ev_ok e = true -> decode (encode e) = class_of_ev e.
Proof. exact decode_encode. Qed.
Print Assumptions C11_decode_inverts_encode.

(* for EVERY infinite oracle stream f of waitpid outcomes: as soon as f n ends a wait (error, exited or signaled status) or
   the first n+1 outcomes hold more than `tolerated` EINTRs, the loop stops within n+1 calls and nothing after matters *)
Theorem C11_loop_terminates : forall (f : nat -> wout) n,
  ends_loop (f n) = true \/ (tolerated < count_eintr (prefix f (S n)))%nat ->
  forall m, (n < m)%nat ->
  lr_end (parent_loop 0 (prefix f m)) <> EndStreamOut /\
  (lr_calls (parent_loop 0 (prefix f m)) <= S n)%nat /\
  parent_loop 0 (prefix f m) = parent_loop 0 (prefix f (S n)).
Proof. exact loop_terminates_stream. Qed.
Print Assumptions C11_loop_terminates.

(* interrupted waits are retried a bounded number of times: whatever the stream, at most tolerated+1 EINTRs are consumed *)
Theorem C11_eintr_retries_bounded : forall ws,
  (count_eintr (firstn (lr_calls (parent_loop 0 ws)) ws) <= S tolerated)%nat.
Proof. exact eintr_retries_bounded. Qed.
Print Assumptions C11_eintr_retries_bounded.

(* the oracle list running out (the only way the model's loop does not end by itself) means: nothing in it ends a wait
   and its EINTRs fit the budget -- i.e. the child is still running *)
Theorem C11_loop_only_waits_for_a_live_child : forall ws, lr_end (parent_loop 0 ws) = EndStreamOut ->
  forallb (fun o => negb (ends_loop o)) ws = true /\ (count_eintr ws <= tolerated)%nat /\ lr_calls (parent_loop 0 ws) = length ws.
Proof. exact loop_only_waits_for_a_live_child. Qed.
Print Assumptions C11_loop_only_waits_for_a_live_child.

(* once per event, in order: the failures recorded are exactly one FStopped per stop seen, FKilled sig / FExit / FWait for
   the outcome that ended the wait (nothing for exit status 0), plus FEintr when the retries ran out; one SIGCONT per stop *)
Theorem C11_failures_exact : forall ws, forallb sout_ok ws = true ->
  lr_fails (parent_loop 0 (map conc ws)) =
    flat_map fail_of (seen 0 ws) ++ (match lr_end (parent_loop 0 (map conc ws)) with EndGaveUp => [FEintr] | _ => [] end) /\
  lr_conts (parent_loop 0 (map conc ws)) = length (filter is_stop (seen 0 ws)).
Proof. exact (fun ws => fails_exact ws 0). Qed.
Print Assumptions C11_failures_exact.

Theorem C11_failure_count : forall ws, forallb sout_ok ws = true ->
  length (lr_fails (parent_loop 0 (map conc ws))) =
  (length (filter is_stop (seen 0 ws)) + length (filter bad_end (seen 0 ws)) +
   match lr_end (parent_loop 0 (map conc ws)) with EndGaveUp => 1 | _ => 0 end)%nat.
Proof. exact (fun ws => failure_count ws 0). Qed.
Print Assumptions C11_failure_count.

(* no failure <=> forked, and the parent saw only tolerated EINTRs / continue notices and then exit status 0 (no stop) *)
Theorem C11_no_failure_iff : forall ws, forallb sout_ok ws = true ->
  lr_end (parent_loop 0 (map conc ws)) <> EndStreamOut ->
  (lr_fails (parent_loop 0 (map conc ws)) = [] <-> exists pre, seen 0 ws = pre ++ [SEv (EvExit 0)] /\ Forall quiet pre).
Proof. exact (fun ws => no_failure_iff ws 0). Qed.
Print Assumptions C11_no_failure_iff.

(* a stream with at most `tolerated` EINTRs gives the failures, SIGCONTs and ending of the same stream without them *)
Theorem C11_eintr_transparent : forall ws, (count_eintr ws <= tolerated)%nat ->
  let a := parent_loop 0 ws in let b := parent_loop 0 (filter not_eintr ws) in
  lr_fails a = lr_fails b /\ lr_conts a = lr_conts b /\ lr_end a = lr_end b.
Proof. exact eintr_transparent_0. Qed.
Print Assumptions C11_eintr_transparent.

(* the record of a death by signal carries the signal's number, and so does the text (read back by the canonicaliser) *)
Theorem C11_signal_named : forall s c, (1 <=? s) && (s <=? 126) = true ->
  set_failure_by_status (encode (EvKill s c)) = [FKilled s] /\ categorise (render (FKilled s)) = FKilled s.
Proof. exact signal_named. Qed.
Print Assumptions C11_signal_named.

(* the six texts found in the source today are told apart by the harness' canonicaliser *)
Theorem C11_texts_classified :
  categorise (render FExit) = FExit /\ categorise (render FStopped) = FStopped /\ categorise (render FFork) = FFork /\
  categorise (render FEintr) = FEintr /\ categorise (render FWait) = FWait /\ categorise (render FCheck) = FCheck.
Proof. exact texts_classified. Qed.
Print Assumptions C11_texts_classified.

(* a real child's verdict, hence its test's record, does not depend on the failures the parent had before the fork -- for a
   test as such and for a registered case (ignored or not, with or without the run-ignored switch) *)
Theorem C11_child_verdict_independent :
  (forall all_sep c1 c2 t, run_test all_sep c1 t = run_test all_sep c2 t) /\
  (forall all_sep run_ign c1 c2 tc, run_case all_sep run_ign c1 tc = run_case all_sep run_ign c2 tc).
Proof. exact verdict_independent. Qed.
Print Assumptions C11_child_verdict_independent.

(* the parent goes on: every test of the list is met and recorded exactly as it would be alone, the total is the sum, every
   test is counted exactly once (as run or as ignored), and the run is reported failed exactly when some test has a failure *)
Theorem C11_parent_continues : forall s,
  o_items (run s) = map (run_case (s_all_sep s) (s_run_ign s) 0) (s_tests s) /\
  length (o_items (run s)) = length (s_tests s) /\
  o_total (run s) = total_fails (o_items (run s)) /\
  o_run (run s) + o_ign (run s) = N.of_nat (length (s_tests s)) /\
  (s_tests s <> [] -> (o_failed (run s) = true <-> exists it, In it (o_items (run s)) /\ i_fails it <> [])).
Proof. exact parent_continues. Qed.
Print Assumptions C11_parent_continues.

(* under the run-ignored switch an IGNORE_TEST yields exactly the item of the same test not marked ignored (which is the
   item of the test as such), and the oracle holds it to exactly the same account *)
Theorem C11_run_ignored_as_normal : forall all_sep count t,
  run_case all_sep true count {| c_ign := true; c_test := t |} = run_case all_sep true count {| c_ign := false; c_test := t |} /\
  run_case all_sep true count {| c_ign := true; c_test := t |} = run_test all_sep count t /\
  (forall it, case_item_ok all_sep true {| c_ign := true; c_test := t |} it = item_ok all_sep t it).
Proof. exact run_ignored_as_normal. Qed.
Print Assumptions C11_run_ignored_as_normal.

(* ... and so for the whole run: with the switch the markers can be erased without changing the observation *)
Theorem C11_run_ignored_whole_run : forall all_sep ts,
  run {| s_all_sep := all_sep; s_run_ign := true; s_tests := ts |} =
  run {| s_all_sep := all_sep; s_run_ign := true; s_tests := map unmark ts |}.
Proof. exact run_ignored_whole_run. Qed.
Print Assumptions C11_run_ignored_whole_run.

(* without the switch an IGNORE_TEST contributes no failure, no wait call and no child (not started), whatever its program
   (no validity hypothesis), and leaves the failure count handed to the later tests as it was *)
Theorem C11_ignored_not_run : forall all_sep count t,
  (let it := run_case all_sep false count {| c_ign := true; c_test := t |} in
   i_started it = false /\ i_fails it = [] /\ i_calls it = 0%nat /\ i_conts it = 0%nat /\ i_lost it = false) /\
  (forall tl, run_tests all_sep false count ({| c_ign := true; c_test := t |} :: tl) =
              (skip_item :: fst (run_tests all_sep false count tl), snd (run_tests all_sep false count tl))).
Proof. exact (fun all_sep count t => conj (ignored_not_run all_sep count t) (ignored_not_run_tests all_sep count t)). Qed.
Print Assumptions C11_ignored_not_run.

(* an ignored real child run under the switch goes through the very same wait loop on the very same event stream as any
   real child, the loop never runs out of events; without the switch it has no failure *)
Theorem C11_ignored_real_child_contained : forall all_sep count p inject, prog_ok p = true ->
  run_case all_sep true count {| c_ign := true; c_test := TReal p inject |} =
    item_of_loop true (parent_loop 0 (map conc (real_stream p inject))) /\
  lr_end (parent_loop 0 (map conc (real_stream p inject))) <> EndStreamOut /\
  (forall run_ign, run_ign = false ->
     i_fails (run_case all_sep run_ign count {| c_ign := true; c_test := TReal p inject |}) = []).
Proof. exact ignored_real_contained. Qed.
Print Assumptions C11_ignored_real_child_contained.

(* every valid case -- ignored or not, run or passed over -- is recorded as the property's oracle asks, whatever the
   failure count before it *)
Theorem C11_every_case_accounted : forall all_sep run_ign count tc, case_ok tc = true ->
  case_item_ok all_sep run_ign tc (run_case all_sep run_ign count tc) = true.
Proof. exact every_case_accounted. Qed.
Print Assumptions C11_every_case_accounted.

(* real children: whatever the program and the injected faults, the events handed to the loop are well-formed and the
   loop never runs out of them (it ends by reaping, by a wait error or by giving up) *)
Theorem C11_real_child_contained : forall count p inject, prog_ok p = true ->
  forallb sout_ok (real_stream p inject) = true /\
  map conc (real_stream p inject) = merge inject (child_events count p) /\
  lr_end (parent_loop 0 (merge inject (child_events count p))) <> EndStreamOut.
Proof. exact real_child_contained. Qed.
Print Assumptions C11_real_child_contained.

(* the model's run of ONE pass satisfies the one-pass oracle for every valid one-pass scenario (the statement that was
   C11_run_meets_spec before the language had several passes; the one-pass language is the one-step fragment of the extended
   one: C11_single_pass_embeds) *)
Theorem C11_run_meets_spec_single : forall s, valid s = true -> spec s (run s) = true.
Proof. exact run_meets_spec. Qed.
Print Assumptions C11_run_meets_spec_single.

(* --------------------------------------------------------------------------------------------------------------
   several runAllTests passes over one registry: switches set before the first pass or between passes, tests added
   between passes
   -------------------------------------------------------------------------------------------------------------- *)
(* the flags are re-established by EVERY pass from the registry's switches as they are then: pass k of the run (registry,
   shells carrying sticky flags, the loop pushing the switches) is, item for item, the closed form read off the program text --
   every test present in pass k, newest first, run on (its own flag || separate-process switched on before any of the passes
   0..k, run-ignored switched on before any of them); and the runner is alive after the last pass *)
Theorem C11_every_pass_from_current_switches : forall s,
  mo_passes (run_m s) = map (pass_view s) (seq 0 (length s)) /\ mo_died (run_m s) = false.
Proof. exact every_pass_from_current_switches. Qed.
Print Assumptions C11_every_pass_from_current_switches.

(* ... which is the FIRST pass of a fresh registry that is given today's switches and today's tests (stated for shells
   without a flag of their own, the one-pass language has no such flag) *)
Theorem C11_pass_as_fresh_registry : forall s k, (forall mc, In mc (present s k) -> m_own mc = false) ->
  pass_view s k = run {| s_all_sep := want_sep s k; s_run_ign := want_ri s k; s_tests := map (eff k) (present s k) |}.
Proof. exact pass_as_fresh_registry. Qed.
Print Assumptions C11_pass_as_fresh_registry.

(* the parent lives through every pass, there are as many passes as the program asks for, and in every pass every test that
   is in the registry by then is met, the count is the sum and every test is counted once (run or ignored) *)
Theorem C11_parent_survives_every_pass : forall s,
  mo_died (run_m s) = false /\ length (mo_passes (run_m s)) = length s /\
  forall k o, nth_error (mo_passes (run_m s)) k = Some o ->
    length (o_items o) = length (present s k) /\ o_total o = total_fails (o_items o) /\
    o_run o + o_ign o = N.of_nat (length (present s k)).
Proof. exact parent_survives_every_pass. Qed.
Print Assumptions C11_parent_survives_every_pass.

(* containment in every pass: a real child that shows its behaviour in pass k and is to run there -- whenever it was added,
   whenever the mode was switched on, whatever flags the shells picked up in earlier passes -- is recorded exactly as the wait
   loop records its stream of events: the loop does not run out of events, failures / waits / reaped are the property's account
   of that stream, and a child killed by a signal (no stop, no wait fault) is exactly one failure naming the signal, one wait,
   nothing left behind *)
Theorem C11_dying_test_contained_in_every_pass : forall s k o i mc ig p inject,
  nth_error (mo_passes (run_m s)) k = Some o ->
  nth_error (present s k) i = Some mc ->
  m_case mc = {| c_ign := ig; c_test := TReal p inject |} ->
  (m_from mc <= k)%nat ->
  ig && negb (want_ri s k) = false ->
  prog_ok p = true ->
  let lr := parent_loop 0 (map conc (real_stream p inject)) in
  nth_error (o_items o) i = Some (item_of_loop true lr) /\
  lr_end lr <> EndStreamOut /\
  expect tolerated (real_stream p inject) = (length (lr_fails lr), lr_calls lr, reaped_end (lr_end lr)) /\
  (forall sig, inject = [] -> child_trace p = ([], FateKilled sig) ->
     item_of_loop true lr = {| i_started := true; i_fails := [FKilled sig]; i_calls := 1; i_conts := 0; i_lost := false |}).
Proof. exact dying_test_contained. Qed.
Print Assumptions C11_dying_test_contained_in_every_pass.

(* a mode that is on in pass k is on in every later pass (there is no switching off) *)
Theorem C11_modes_only_grow : forall s k j, (k <= j)%nat ->
  (want_sep s k = true -> want_sep s j = true) /\ (want_ri s k = true -> want_ri s j = true).
Proof. exact modes_only_grow. Qed.
Print Assumptions C11_modes_only_grow.

(* a registry that pushes its switches onto the shells in its first pass only does NOT meet the oracle: a mode switched on
   after a pass (witness ex_late_switch), a test added after a pass (ex_late_test) *)
Theorem C11_first_pass_only_refuted : ~ first_pass_only_stmt.
Proof. exact first_pass_only_refuted. Qed.
Print Assumptions C11_first_pass_only_refuted.

(* the one-pass language is the one-step fragment: same run, same oracle, same domain *)
Theorem C11_single_pass_embeds : forall s,
  run_m (embed s) = {| mo_passes := [run s]; mo_died := false |} /\
  (forall o, spec_m (embed s) {| mo_passes := [o]; mo_died := false |} = spec s o) /\
  valid_m (embed s) = valid s.
Proof. exact single_pass_embeds. Qed.
Print Assumptions C11_single_pass_embeds.

(* the model's run satisfies the property's oracle for every valid scenario of the extended language (any number of passes) *)
Theorem C11_run_meets_spec : forall s, valid_m s = true -> spec_m s (run_m s) = true.
Proof. exact run_m_meets_spec. Qed.
Print Assumptions C11_run_meets_spec.

(* --------------------------------------------------------------------------------------------------------------
   real children waited for through the REAL fork / waitpid implementations under a process-level configuration of the
   program: SIGCHLD ignored, SA_NOCLDWAIT (with or without a handler), a handler that reaps with waitpid(-1) first, a handler
   that only counts; other children of the process ending meanwhile; signals interrupting the wait
   -------------------------------------------------------------------------------------------------------------- *)
(* the wait loop on ANY list of answers -- any result, any status word, the error answers included: the test has no failure
   only if the loop met an answer "exited with status 0", behind nothing but interrupted waits within the bound and words of
   no class; that answer ended the wait *)
Theorem C11_only_clean_exit_passes : forall ws r,
  lr_end (parent_loop r ws) <> EndStreamOut -> lr_fails (parent_loop r ws) = [] ->
  exists pre o post, ws = pre ++ o :: post /\ forallb silent pre = true /\ clean_exit o = true /\
                     lr_end (parent_loop r ws) = EndReaped /\ lr_calls (parent_loop r ws) = S (length pre).
Proof. exact only_clean_exit_passes. Qed.
Print Assumptions C11_only_clean_exit_passes.

(* ... so every answer other than "exited with 0" yields a failure *)
Theorem C11_every_other_answer_fails : forall ws r,
  forallb (fun o => negb (clean_exit o)) ws = true -> lr_end (parent_loop r ws) <> EndStreamOut ->
  lr_fails (parent_loop r ws) <> [].
Proof. exact every_other_answer_fails. Qed.
Print Assumptions C11_every_other_answer_fails.

(* the error answer (ECHILD: the child was taken away) behind n tolerated interruptions and any reported stops: one failure per
   stop and one for the failing wait, n + stops + 1 calls, the loop ends there *)
Theorem C11_echild_is_a_failure : forall n (stops : list N), (n <= tolerated)%nat -> forallb (fun s => s <? 256) stops = true ->
  let lr := parent_loop 0 (repeat WEintr n ++ map (fun s => WStat (encode (EvStop s))) stops ++ [WErr]) in
  lr_fails lr = map (fun _ => FStopped) stops ++ [FWait] /\ lr_calls lr = (n + length stops + 1)%nat /\ lr_end lr = EndWaitErr.
Proof. exact echild_is_a_failure. Qed.
Print Assumptions C11_echild_is_a_failure.

(* containment under every configuration: a real child that is to run is recorded as the wait loop records the answers the
   real wait gives under that configuration; the loop never runs out of answers; failures / waits / reaped are the property's
   account of them; a child that did not end with exit status 0 has a failure -- whatever the configuration, the siblings, the
   interruptions and the injected faults; a child the kernel or the handler reaps is never "left behind" *)
Theorem C11_env_child_contained : forall all_sep run_ign count ig e p inject,
  env_ok e = true -> prog_ok p = true -> ig && negb run_ign = false ->
  let lr := parent_loop 0 (map conc (env_stream e p inject)) in
  run_case all_sep run_ign count {| c_ign := ig; c_test := TEnv e p inject |} = env_item e lr /\
  forallb sout_ok (env_stream e p inject) = true /\
  lr_end lr <> EndStreamOut /\
  expect tolerated (env_stream e p inject) = (length (lr_fails lr), lr_calls lr, reaped_end (lr_end lr)) /\
  (unclean p = true -> lr_fails lr <> []) /\
  (auto_reaped (e_chld e) = true -> i_lost (env_item e lr) = false).
Proof. exact env_child_contained. Qed.
Print Assumptions C11_env_child_contained.

(* the oracle enforces "never recorded as passed" on whatever the implementation reports *)
Theorem C11_oracle_never_passed : forall all_sep t it p, item_ok all_sep t it = true ->
  (exists inject, t = TReal p inject) \/ (exists e inject, t = TEnv e p inject) ->
  unclean p = true -> i_fails it <> [].
Proof. exact oracle_never_passed. Qed.
Print Assumptions C11_oracle_never_passed.

(* SIGCHLD ignored / SA_NOCLDWAIT / reaped by the handler first: the wait fails, and that is a failure of the test (also for a
   child that ended cleanly); the exact record without injected faults *)
Theorem C11_auto_reaped_record : forall count e p, prog_ok p = true -> auto_reaped (e_chld e) = true -> (e_eintr e <= tolerated)%nat ->
  let it := run_env count e p [] in
  i_fails it = map (fun _ => FStopped) (fst (child_trace p)) ++ [FWait] /\
  i_calls it = (e_eintr e + length (fst (child_trace p)) + 1)%nat /\ i_lost it = false.
Proof. exact auto_reaped_record. Qed.
Print Assumptions C11_auto_reaped_record.

(* other children of the process and a handler that only counts change nothing; the neutral configuration is the plain real child *)
Theorem C11_env_neutral : forall count c sibs sibs' n p inject,
  run_env count {| e_chld := c; e_sibs := sibs; e_eintr := n |} p inject =
    run_env count {| e_chld := c; e_sibs := sibs'; e_eintr := n |} p inject /\
  run_env count {| e_chld := CHandler; e_sibs := sibs; e_eintr := n |} p inject =
    run_env count {| e_chld := CDefault; e_sibs := sibs; e_eintr := n |} p inject /\
  run_env count {| e_chld := CDefault; e_sibs := sibs; e_eintr := 0 |} p inject = run_real count p inject /\
  expected false (TEnv {| e_chld := CDefault; e_sibs := sibs; e_eintr := 0 |} p inject) = expected false (TReal p inject).
Proof. exact env_neutral. Qed.
Print Assumptions C11_env_neutral.

(* a wait wrapper that turns the failing wait (ECHILD) into "exited with status 0" does NOT meet the oracle (witness: SIGCHLD
   ignored, the child killed by SIGKILL) *)
Theorem C11_fabricating_wrapper_refuted : ~ fabricating_wrapper_stmt.
Proof. exact fabricating_wrapper_refuted. Qed.
Print Assumptions C11_fabricating_wrapper_refuted.

(* --------------------------------------------------------------------------------------------------------------
   The separate-process runner of the model IS the source: GccPlatformSpecificRunTestInASeperateProcess as tools/cxx2gal.py regenerates it from UtestPlatform.cpp on every run (gen/Gen_LoopC11.v: fork(), getFailureCount() and waitpid() take the next value of ghost oracle streams, a waitpid outcome is (result, status, errno); addFailure / kill / _exit are ghost events; the status macros are glibc's, expanded by clang) does, on every stream of outcomes, what the model's parent_loop says: the same number of wait calls, the same failures in the same order (fail_events), one SIGCONT per stop, the retry counter and its bound (gives_up_src: a change of the bound or of the comparison breaks it), the fork-failure and child branches
   -------------------------------------------------------------------------------------------------------------- *)
From Coq Require Import String. From CppUVerif Require Import lib.CSem lib.CMem gen.Gen_LeafC11 gen.Gen_LoopC11 C11_Loop C11_SrcTie.
Local Open Scope Z_scope.
Theorem C11_leaf_SetTestFailureByStatusCode_tie :
  forall w : N, leaf_SetTestFailureByStatusCode (Z.of_N w) = flat_map fail_events (set_failure_by_status w).
Proof. exact leaf_SetTestFailureByStatusCode_tie. Qed.
Print Assumptions C11_leaf_SetTestFailureByStatusCode_tie.

Theorem C11_gives_up_src :
  forall r : N, z2b (c_gt (Z.of_N r) 30) = gives_up r.
Proof. exact gives_up_src. Qed.
Print Assumptions C11_gives_up_src.

Theorem C11_src_wait_loop_spec :
  forall (fuel0 : nat) (mem : memory) (forks counts : list Z) (shell result : ptr) (ws : list wout)
  (r : N) (pid : Z) (ts rest : list (Z * Z * Z)) (fuel : nat) (evs : list cevent)
  (e0 w0 st0 : Z),
  pid <> -1 ->
  Forall2 (is_conc pid) ws ts ->
  lr_end (parent_loop r ws) <> EndStreamOut ->
  (Datatypes.length ws < fuel)%nat ->
  src_runInSeparateProcess_loop1 fuel0 fuel mem forks counts shell result (-1) pid evs
  (ts ++ rest) e0 w0 st0 (Z.of_N r) = loop_expected mem forks counts pid r ws ts rest evs e0 st0.
Proof. exact src_wait_loop_spec. Qed.
Print Assumptions C11_src_wait_loop_spec.

Theorem C11_src_wait_loop_ends :
  forall (fuel0 : nat) (mem : memory) (forks counts : list Z) (shell result : ptr) (ws : list wout)
  (r : N) (pid : Z) (ts rest : list (Z * Z * Z)) (fuel : nat) (evs : list cevent)
  (e0 w0 st0 : Z),
  pid <> -1 ->
  Forall2 (is_conc pid) ws ts ->
  lr_end (parent_loop r ws) <> EndStreamOut ->
  (Datatypes.length ws < fuel)%nat ->
  let res := parent_loop r ws in
  let out :=
  src_runInSeparateProcess_loop1 fuel0 fuel mem forks counts shell result (-1) pid evs
  (ts ++ rest) e0 w0 st0 (Z.of_N r) in
  let evs' := evs ++ events_of_loop pid res ws in
  let rem := skipn (lr_calls res) ts ++ rest in
  (lr_end res = EndReaped -> exists e' st' r' : Z, out = Go (evs', rem, e', pid, st', r')) /\
  (lr_end res = EndGaveUp \/ lr_end res = EndWaitErr ->
  exists e' : Z, out = Done (tt, mem, evs', forks, counts, rem, e')) /\
  filter is_kill (events_of_loop pid res ws) = repeat (ev_kill pid) (lr_conts res) /\
  Datatypes.length (skipn (lr_calls res) ts) = (Datatypes.length ts - lr_calls res)%nat.
Proof. exact src_wait_loop_ends. Qed.
Print Assumptions C11_src_wait_loop_ends.

Theorem C11_events_of_loop_tie :
  forall (ws : list wout) (r : N) (pid : Z),
  let res := parent_loop r ws in
  let evs := events_of_loop pid res ws in
  filter (fun e : cevent => negb (is_kill e)) evs = flat_map fail_events (lr_fails res) /\
  filter is_kill evs = repeat (ev_kill pid) (lr_conts res) /\
  count_addFailure evs = Datatypes.length (lr_fails res) /\
  Forall (fun f : failure => match f with
  | FFork | FCheck | FOther => False
  | _ => True
  end) (lr_fails res).
Proof. exact events_of_loop_tie. Qed.
Print Assumptions C11_events_of_loop_tie.

Theorem C11_src_runInSeparateProcess_parent_spec :
  forall (ws : list wout) (pid : Z) (ts rest : list (Z * Z * Z)) (fuel : nat) (mem : memory)
  (evs : list cevent) (forks counts : list Z) (errno0 : Z) (shell plugin result : ptr),
  pid > 0 ->
  Forall2 (is_conc pid) ws ts ->
  lr_end (parent_loop 0 ws) <> EndStreamOut ->
  (Datatypes.length ws < fuel)%nat ->
  let res := parent_loop 0 ws in
  src_runInSeparateProcess fuel mem evs (pid :: forks) counts (ts ++ rest) errno0 shell plugin result =
  FOk
  (tt, mem, evs ++ events_of_loop pid res ws, forks, counts, skipn (lr_calls res) ts ++ rest,
  errno_after errno0 (firstn (lr_calls res) ts)).
Proof. exact src_runInSeparateProcess_parent_spec. Qed.
Print Assumptions C11_src_runInSeparateProcess_parent_spec.

Theorem C11_src_runInSeparateProcess_parent_model :
  forall (ws : list wout) (pid : Z) (ts rest : list (Z * Z * Z)) (fuel : nat) (mem : memory)
  (evs : list cevent) (forks counts : list Z) (errno0 : Z) (shell plugin result : ptr)
  (real : bool),
  pid > 0 ->
  Forall2 (is_conc pid) ws ts ->
  lr_end (parent_loop 0 ws) <> EndStreamOut ->
  (Datatypes.length ws < fuel)%nat ->
  let it := item_of_loop real (parent_loop 0 ws) in
  exists (new : list cevent) (e' : Z),
  src_runInSeparateProcess fuel mem evs (pid :: forks) counts (ts ++ rest) errno0 shell plugin result =
  FOk (tt, mem, evs ++ new, forks, counts, skipn (i_calls it) ts ++ rest, e') /\
  filter (fun e : cevent => negb (is_kill e)) new = flat_map fail_events (i_fails it) /\
  count_addFailure new = Datatypes.length (i_fails it) /\
  filter is_kill new = repeat (ev_kill pid) (lr_conts (parent_loop 0 ws)) /\
  (real = false -> Datatypes.length (filter is_kill new) = i_conts it) /\
  Forall (fun f : failure => match f with
  | FFork | FCheck | FOther => False
  | _ => True
  end) (i_fails it).
Proof. exact src_runInSeparateProcess_parent_model. Qed.
Print Assumptions C11_src_runInSeparateProcess_parent_model.

Theorem C11_src_runInSeparateProcess_fork_failed_spec :
  forall (fuel : nat) (mem : memory) (evs : list cevent) (forks counts : list Z) (waits : list (Z * Z * Z))
  (errno0 : Z) (shell plugin result : ptr),
  src_runInSeparateProcess fuel mem evs (-1 :: forks) counts waits errno0 shell plugin result =
  FOk (tt, mem, evs ++ [("addFailure:Call to fork() failed"%string, [])], forks, counts, waits, errno0).
Proof. exact src_runInSeparateProcess_fork_failed_spec. Qed.
Print Assumptions C11_src_runInSeparateProcess_fork_failed_spec.

Theorem C11_src_runInSeparateProcess_child_spec :
  forall (fuel : nat) (mem : memory) (evs : list cevent) (forks : list Z) (i f : Z)
  (counts : list Z) (waits : list (Z * Z * Z)) (errno0 : Z) (shell plugin result : ptr),
  src_runInSeparateProcess fuel mem evs (0 :: forks) (i :: f :: counts) waits errno0 shell plugin result =
  FOk
  (tt, mem, evs ++ [("runOneTestInCurrentProcess"%string, []); ("_exit"%string, [b2z (i <? f)])], forks,
  counts, waits, errno0).
Proof. exact src_runInSeparateProcess_child_spec. Qed.
Print Assumptions C11_src_runInSeparateProcess_child_spec.

Theorem C11_src_runInSeparateProcess_child_model :
  forall (initial n : N) (fuel : nat) (mem : memory) (evs : list cevent) (forks counts : list Z)
  (waits : list (Z * Z * Z)) (errno0 : Z) (shell plugin result : ptr),
  child_final initial (FateDone n) = EvExit (if (initial <? initial + n)%N then 1%N else 0%N) /\
  src_runInSeparateProcess fuel mem evs (0 :: forks) (Z.of_N initial :: Z.of_N (initial + n) :: counts) waits
  errno0 shell plugin result =
  FOk
  (tt, mem,
  evs ++
  [("runOneTestInCurrentProcess"%string, []);
  ("_exit"%string, [exit_code (child_final initial (FateDone n))])], forks, counts, waits, errno0).
Proof. exact src_runInSeparateProcess_child_model. Qed.
Print Assumptions C11_src_runInSeparateProcess_child_model.
