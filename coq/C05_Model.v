(* C05 -- tracked allocations return sound blocks for every size, or fail cleanly.
   Executable mirror of MemoryLeakDetector::allocMemory / reallocMemory / deallocMemory (size arithmetic in N modulo 2^64,
   guard bytes, alignment padding, inline or separately allocated leak record), of cpputest_calloc/strdup/strndup
   (TestHarness_c.cpp) and of the operator new variants (MemoryLeakWarningPlugin.cpp).
   The underlying allocator / PlatformSpecificRealloc is an oracle: call number k fails when the scenario says so or when
   more than 1 MiB is requested (the convention of the harness seam, so huge sizes never reach libc).
   Memory is modelled region-wise: every successful underlying call yields a fresh region named by its call index; the
   accesses the code performs on a region (guard write, record initialisation, memset/memcpy of the C wrappers) are
   bounds-checked and an out-of-bounds or NULL access sets [s_err].
   A scenario may run with memory accounting on ([sc_wrap]: GlobalMemoryAccountant::start() has put an
   AccountingTestMemoryAllocator around each of the three allocators).  The wrapper hands the request to the allocator it
   wraps unchanged and returns that allocator's pointer unchanged (C05_Wrapper.v: model of the wrapper and the proof of this
   transparency), so blocks, layout, contents and totals are those of the same scenario without wrappers; only the
   sequence of underlying calls differs (the wrapper's own tracking nodes, the accountant's statistics nodes).  [run] does not
   predict those extra calls, hence not which operation a fault index hits once the wrappers are installed: a wrapper scenario
   with fault indices is judged by [spec] alone (checks/C05.py compares only the header of the two observations), and [spec]
   then reads from a call log whether a call other than a request for a statistics node failed, whether such a request failed,
   and whether everything a failed operation obtained, statistics nodes apart, was given back.  No proofs in this file. *)
From Coq Require Import NArith Bool List.
From CppUVerif Require Import gen.Gen_Common gen.Gen_C05 lib.Str.
Import ListNotations.
Local Open Scope N_scope.

Definition W : N := 18446744073709551616.          (* 2^64: size_t arithmetic wraps here *)
Definition wrap (x : N) : N := x mod W.
Definition LIMIT : N := 1048576.                   (* the seam refuses larger requests *)
Definition FILL : N := 165.                        (* 0xA5: the harness fills every fresh malloc/new block *)
Definition RFILL : N := 90.                        (* 0x5A: ... and the new tail after a realloc *)

Record cfg := { guard_on : bool; node_size : N }.
Definition G (c : cfg) : N := if guard_on c then mem_corruption_buffer_size else c05_guard_size_disabled.
Definition valid_cfg (c : cfg) : bool := (node_size c mod 8 =? 0) && (0 <? node_size c) && (node_size c <? 65536).

(* which version of the code: the repaired one, or one of the defects D2 D3 D4 D5 D20 as the code was *)
Record variant := { v_fits : bool; v_calloc : bool; v_realloc : bool; v_strdup : bool; v_node : bool }.
Definition fixed := {| v_fits := true; v_calloc := true; v_realloc := true; v_strdup := true; v_node := true |}.
Definition old_D2 := {| v_fits := false; v_calloc := true; v_realloc := true; v_strdup := true; v_node := true |}.
Definition old_D3 := {| v_fits := true; v_calloc := false; v_realloc := true; v_strdup := true; v_node := true |}.
Definition old_D4 := {| v_fits := true; v_calloc := true; v_realloc := false; v_strdup := true; v_node := true |}.
Definition old_D5 := {| v_fits := true; v_calloc := true; v_realloc := true; v_strdup := false; v_node := true |}.
Definition old_D20 := {| v_fits := true; v_calloc := true; v_realloc := true; v_strdup := true; v_node := false |}.

(* ---- size arithmetic (MemoryLeakDetector.cpp) ---- *)
(* calculateVoidPointerAlignedSize *)
Definition aligned (c : cfg) (n : N) : N :=
  if guard_on c then wrap ((c05_ptr_size - n mod c05_ptr_size) + n) else n.
(* sizeOfMemoryWithCorruptionInfo *)
Definition with_guard (c : cfg) (n : N) : N := aligned c (wrap (n + G c)).
(* sizeLeavesRoomForAccountingInformation *)
Definition fits (c : cfg) (n : N) : bool := n <=? (W - 1) - (G c + c05_ptr_size + node_size c).
(* CPPUTEST_DISABLE_MEM_CORRUPTION_CHECK forces separately allocated records *)
Definition separate (c : cfg) (want_sep : bool) : bool := negb (guard_on c) || want_sep.
(* allocate/reallocateMemoryWithAccountingInformation *)
Definition request (c : cfg) (sep : bool) (n : N) : N :=
  if sep then with_guard c n else wrap (with_guard c n + node_size c).

(* ---- state ---- *)
Record block := {
  b_id : N;              (* index of the operation that produced it *)
  b_fam : N;             (* 0 malloc, 1 new, 2 new[] *)
  b_size : N;            (* user bytes *)
  b_data : list N;       (* their content *)
  b_region : N;          (* region of the block = index of the underlying call that returned it; user bytes at offset 0 *)
  b_req : N;             (* size of that region *)
  b_sep : bool;          (* leak record allocated separately *)
  b_node : N             (* sep: region of the record; inline: offset of the record in b_region *)
}.
Record st := {
  s_calls : N;           (* underlying malloc/realloc calls so far *)
  s_blocks : list block; (* valid blocks handed out (ground truth) *)
  s_table : list N;      (* ids of the blocks the detector has a record for (head insertion) *)
  s_err : bool           (* the code performed an out-of-bounds / NULL access *)
}.
Definition st0 := {| s_calls := 0; s_blocks := []; s_table := []; s_err := false |}.

Definition call := (N * N * bool)%type.   (* kind 0 malloc 1 realloc 2 free, size, succeeded *)
Definition mem (x : N) (l : list N) : bool := existsb (N.eqb x) l.
Definition oracle_fails (f : list N) (idx size : N) : bool := mem idx f || (LIMIT <? size).

Definition remove_id (i : N) (t : list N) : list N := filter (fun j => negb (j =? i)) t.
Definition find_block (i : N) (bs : list block) : option block := find (fun b => b_id b =? i) bs.
Definition remove_block (i : N) (bs : list block) : list block := filter (fun b => negb (b_id b =? i)) bs.

(* [o_amod]: address of the returned block modulo 16; [o_ovl]: 1 when the harness saw the user bytes + guard or the record of
   the new block intersect those of another live block (or each other); [o_off], [o_req]: offset of the block in the region of
   the underlying allocator it lies in and the size of that region; [o_nk] 1: record inside that region at offset [o_nv],
   2: record in another region with [o_nv] bytes from the record to the end of that region *)
Record oobs := { o_kind : N; o_calls : list call; o_amod : N; o_ovl : N; o_off : N; o_req : N; o_nk : N; o_nv : N;
                 o_dig : list N; o_total : N; o_rep : N }.
Definition K_SKIP := 0. Definition K_NULL := 1. Definition K_BAD := 2. Definition K_PTR := 3. Definition K_VOID := 4. Definition K_ERR := 5.

Definition digest (d : list N) : list N :=
  if Nat.leb (length d) 64 then d else firstn 32 d ++ skipn (Nat.sub (length d) 32) d.

(* ---- storeLeakInformation: record initialised, guard written after the user bytes; every access bounds-checked ---- *)
Definition layout_fine (c : cfg) (sep : bool) (n req : N) : bool :=
  if sep then (n + G c <=? req)
  else (n + G c <=? with_guard c n) && (with_guard c n + node_size c <=? req).

Inductive ares := ANull | AErr | ABlock (b : block).

(* allocMemory(allocator, n, separate record?) ; [idx] = id given to the new block *)
Definition alloc_mem (v : variant) (c : cfg) (f : list N) (s : st) (idx fam : N) (want_sep : bool) (n : N) (data : unit -> list N)
  : ares * st * list call :=
  let sep := separate c want_sep in
  if v_fits v && negb (fits c n) then (ANull, s, [])
  else
    let req := request c sep n in
    let k := s_calls s in
    if oracle_fails f k req then (ANull, {| s_calls := k + 1; s_blocks := s_blocks s; s_table := s_table s; s_err := s_err s |}, [(0, req, false)])
    else if sep then
      if oracle_fails f (k + 1) (node_size c) then
        if v_node v then
          (ANull, {| s_calls := k + 2; s_blocks := s_blocks s; s_table := s_table s; s_err := s_err s |},
           [(0, req, true); (0, node_size c, false); (2, 0, true)])
        else (AErr, {| s_calls := k + 2; s_blocks := s_blocks s; s_table := s_table s; s_err := true |},
              [(0, req, true); (0, node_size c, false)])
      else if layout_fine c true n req then
        let b := {| b_id := idx; b_fam := fam; b_size := n; b_data := data tt; b_region := k; b_req := req; b_sep := true; b_node := k + 1 |} in
        (ABlock b, {| s_calls := k + 2; s_blocks := b :: s_blocks s; s_table := idx :: s_table s; s_err := s_err s |},
         [(0, req, true); (0, node_size c, true)])
      else (AErr, {| s_calls := k + 2; s_blocks := s_blocks s; s_table := s_table s; s_err := true |}, [(0, req, true); (0, node_size c, true)])
    else if layout_fine c false n req then
      let b := {| b_id := idx; b_fam := fam; b_size := n; b_data := data tt; b_region := k; b_req := req; b_sep := false; b_node := with_guard c n |} in
      (ABlock b, {| s_calls := k + 1; s_blocks := b :: s_blocks s; s_table := idx :: s_table s; s_err := s_err s |}, [(0, req, true)])
    else (AErr, {| s_calls := k + 1; s_blocks := s_blocks s; s_table := s_table s; s_err := true |}, [(0, req, true)]).

(* content after realloc: the first min(old,new) bytes survive; the harness fills the new tail *)
Definition realloc_data (old : list N) (n : N) : list N :=
  let keep := N.min (N.of_nat (length old)) n in
  firstn (N.to_nat keep) old ++ repeat RFILL (N.to_nat (n - keep)).

(* reallocMemory on a tracked block [ob] (None: realloc(NULL, n)), repaired code: the record is re-inserted when the
   underlying realloc fails, a separate record is obtained before the block is reallocated *)
Definition realloc_new (v : variant) (c : cfg) (f : list N) (s : st) (idx : N) (ob : option block) (n : N)
  : ares * st * list call :=
  let sep := match ob with Some b => separate c (b_sep b) | None => separate c true end in
  if v_fits v && negb (fits c n) then (ANull, s, [])
  else
    let k := s_calls s in
    let req := request c sep n in
    let old_data := match ob with Some b => b_data b | None => [] end in
    let others := match ob with Some b => remove_block (b_id b) (s_blocks s) | None => s_blocks s end in
    let table' := match ob with Some b => remove_id (b_id b) (s_table s) | None => s_table s end in
    let readd := match ob with Some b => b_id b :: table' | None => table' end in
    let free_old := match ob with Some b => if separate c (b_sep b) then [(2, 0, true)] else [] | None => [] end in
    if sep then
      if oracle_fails f k (node_size c) then
        (ANull, {| s_calls := k + 1; s_blocks := s_blocks s; s_table := readd; s_err := s_err s |}, [(0, node_size c, false)])
      else if oracle_fails f (k + 1) req then
        (ANull, {| s_calls := k + 2; s_blocks := s_blocks s; s_table := readd; s_err := s_err s |},
         [(0, node_size c, true); (1, req, false); (2, 0, true)])
      else if layout_fine c true n req then
        let b := {| b_id := idx; b_fam := 0; b_size := n; b_data := realloc_data old_data n; b_region := k + 1; b_req := req; b_sep := true; b_node := k |} in
        (ABlock b, {| s_calls := k + 2; s_blocks := b :: others; s_table := idx :: table'; s_err := s_err s |},
         [(0, node_size c, true); (1, req, true)] ++ free_old)
      else (AErr, {| s_calls := k + 2; s_blocks := others; s_table := table'; s_err := true |}, [(0, node_size c, true); (1, req, true)])
    else
      if oracle_fails f k req then
        (ANull, {| s_calls := k + 1; s_blocks := s_blocks s; s_table := readd; s_err := s_err s |}, [(1, req, false)])
      else if layout_fine c false n req then
        let b := {| b_id := idx; b_fam := 0; b_size := n; b_data := realloc_data old_data n; b_region := k; b_req := req; b_sep := false; b_node := with_guard c n |} in
        (ABlock b, {| s_calls := k + 1; s_blocks := b :: others; s_table := idx :: table'; s_err := s_err s |}, [(1, req, true)])
      else (AErr, {| s_calls := k + 1; s_blocks := others; s_table := table'; s_err := true |}, [(1, req, true)]).

(* the code before the repairs of D4/D20: record removed and a separate record released first, then the underlying
   realloc, then a new separate record (NULL record dereferenced); on failure the old block is simply no longer tracked *)
Definition realloc_old (v : variant) (c : cfg) (f : list N) (s : st) (idx : N) (ob : option block) (n : N)
  : ares * st * list call :=
  let sep := match ob with Some b => separate c (b_sep b) | None => separate c true end in
  if v_fits v && negb (fits c n) then (ANull, s, [])
  else
    let k := s_calls s in
    let req := request c sep n in
    let old_data := match ob with Some b => b_data b | None => [] end in
    let others := match ob with Some b => remove_block (b_id b) (s_blocks s) | None => s_blocks s end in
    let table' := match ob with Some b => remove_id (b_id b) (s_table s) | None => s_table s end in
    let free_old := match ob with Some b => if separate c (b_sep b) then [(2, 0, true)] else [] | None => [] end in
    if oracle_fails f k req then
      (ANull, {| s_calls := k + 1; s_blocks := s_blocks s; s_table := table'; s_err := s_err s |}, free_old ++ [(1, req, false)])
    else if sep then
      if oracle_fails f (k + 1) (node_size c) then
        (AErr, {| s_calls := k + 2; s_blocks := others; s_table := table'; s_err := true |}, free_old ++ [(1, req, true); (0, node_size c, false)])
      else if layout_fine c true n req then
        let b := {| b_id := idx; b_fam := 0; b_size := n; b_data := realloc_data old_data n; b_region := k; b_req := req; b_sep := true; b_node := k + 1 |} in
        (ABlock b, {| s_calls := k + 2; s_blocks := b :: others; s_table := idx :: table'; s_err := s_err s |},
         free_old ++ [(1, req, true); (0, node_size c, true)])
      else (AErr, {| s_calls := k + 2; s_blocks := others; s_table := table'; s_err := true |}, free_old ++ [(1, req, true); (0, node_size c, true)])
    else if layout_fine c false n req then
      let b := {| b_id := idx; b_fam := 0; b_size := n; b_data := realloc_data old_data n; b_region := k; b_req := req; b_sep := false; b_node := with_guard c n |} in
      (ABlock b, {| s_calls := k + 1; s_blocks := b :: others; s_table := idx :: table'; s_err := s_err s |}, [(1, req, true)])
    else (AErr, {| s_calls := k + 1; s_blocks := others; s_table := table'; s_err := true |}, [(1, req, true)]).

Definition realloc_mem (v : variant) := if v_realloc v then realloc_new v else realloc_old v.

(* ---- TestHarness_c.cpp ---- *)
(* cpputest_calloc: overflow test (repair of D3), malloc(num*size), memset(mem, 0, num*size) *)
Definition calloc_mem (v : variant) (c : cfg) (f : list N) (s : st) (idx num size : N) : ares * st * list call :=
  if v_calloc v && negb (size =? 0) && ((W - 1) / size <? num) then (ANull, s, [])
  else
    let n := wrap (num * size) in
    alloc_mem v c f s idx 0 true n (fun _ => repeat 0 (N.to_nat n)).

Definition set_last (l : list N) (x : N) : list N := match l with [] => [] | _ => removelast l ++ [x] end.
(* strdup_alloc(str, size): malloc(size); [NULL test: repair of D5]; memcpy(result, str, size); result[size-1] = 0 *)
Definition strdup_alloc (v : variant) (c : cfg) (f : list N) (s : st) (idx : N) (str : list N) (size : N) : ares * st * list call :=
  let src := cut_nul str ++ [0] in     (* the bytes of the C string including its terminator *)
  match alloc_mem v c f s idx 0 true size (fun _ => set_last (firstn (N.to_nat size) src) 0) with
  | (ANull, s', cs) =>
      if v_strdup v then (ANull, s', cs)
      else (AErr, {| s_calls := s_calls s'; s_blocks := s_blocks s'; s_table := s_table s'; s_err := true |}, cs)
  | r => r
  end.
Definition strlen (str : list N) : N := N.of_nat (length (cut_nul str)).
Definition strdup_mem v c f s idx str := strdup_alloc v c f s idx str (wrap (1 + strlen str)).
Definition strndup_mem v c f s idx str n :=
  let l := strlen str in strdup_alloc v c f s idx str (wrap ((if l <? n then l else n) + 1)).

(* ---- operations of a scenario ---- *)
Inductive op :=
| OMalloc (n : N)                       (* cpputest_malloc: separate record *)
| ODetAlloc (n : N)                     (* MemoryLeakDetector::allocMemory(malloc allocator, n): inline record *)
| OCalloc (num size : N)
| ORealloc (id : option N) (n : N)      (* cpputest_realloc / reallocMemory with the block's own record layout *)
| OStrdup (s : list N)
| OStrndup (s : list N) (n : N)
| ONew (arr throwing : bool) (n : N)    (* operator new / new[] ; throwing or nothrow *)
| OFree (id : N)                        (* release with the block's own family *)
| OWrite (id off : N) (bytes : list N).

Definition mk_oobs kind calls req nk nv dig total rep :=
  {| o_kind := kind; o_calls := calls; o_amod := 0; o_ovl := 0; o_off := 0; o_req := req; o_nk := nk; o_nv := nv; o_dig := dig; o_total := total; o_rep := rep |}.
Definition total (s : st) : N := N.of_nat (length (s_table s)).

Definition obs_of_alloc (c : cfg) (throwing : bool) (r : ares * st * list call) (fail_dig : list N) : st * oobs :=
  match r with
  | (ABlock b, s', cs) => (s', mk_oobs K_PTR cs (b_req b) (if b_sep b then 2 else 1) (if b_sep b then node_size c else b_node b) (digest (b_data b)) (total s') 0)
  | (ANull, s', cs) => (s', mk_oobs (if throwing then K_BAD else K_NULL) cs 0 0 0 fail_dig (total s') 0)
  | (AErr, s', cs) => (s', mk_oobs K_ERR cs 0 0 0 [] (total s') 0)
  end.

Definition write_at (d : list N) (off : N) (bytes : list N) : list N :=
  firstn (N.to_nat off) d ++ bytes ++ skipn (Nat.add (N.to_nat off) (length bytes)) d.
Definition update_block (i : N) (d : list N) (bs : list block) : list block :=
  map (fun b => if b_id b =? i then {| b_id := b_id b; b_fam := b_fam b; b_size := b_size b; b_data := d; b_region := b_region b;
                                      b_req := b_req b; b_sep := b_sep b; b_node := b_node b |} else b) bs.

(* release of a live block through its own family (free / delete / delete[]) *)
Definition release (s : st) (b : block) : st * list call * N :=
  if mem (b_id b) (s_table s) then
    ({| s_calls := s_calls s; s_blocks := remove_block (b_id b) (s_blocks s); s_table := remove_id (b_id b) (s_table s); s_err := s_err s |},
     (if b_sep b then [(2, 0, true); (2, 0, true)] else [(2, 0, true)]), 0)
  else (* no record: "deallocating non-allocated memory", the memory is not returned *)
    ({| s_calls := s_calls s; s_blocks := remove_block (b_id b) (s_blocks s); s_table := s_table s; s_err := s_err s |}, [], 1).

Definition skip_obs (s : st) := mk_oobs K_SKIP [] 0 0 0 [] (total s) 0.

Definition step (v : variant) (c : cfg) (f : list N) (s : st) (idx : N) (o : op) : st * oobs :=
  match o with
  | OMalloc n => obs_of_alloc c false (alloc_mem v c f s idx 0 true n (fun _ => repeat FILL (N.to_nat n))) []
  | ODetAlloc n => obs_of_alloc c false (alloc_mem v c f s idx 0 false n (fun _ => repeat FILL (N.to_nat n))) []
  | OCalloc num size => obs_of_alloc c false (calloc_mem v c f s idx num size) []
  | OStrdup str => obs_of_alloc c false (strdup_mem v c f s idx str) []
  | OStrndup str n => obs_of_alloc c false (strndup_mem v c f s idx str n) []
  | ONew arr throwing n => obs_of_alloc c throwing (alloc_mem v c f s idx (if arr then 2 else 1) false n (fun _ => repeat FILL (N.to_nat n))) []
  | ORealloc None n => obs_of_alloc c false (realloc_mem v c f s idx None n) []
  | ORealloc (Some i) n =>
      match find_block i (s_blocks s) with
      | Some b => if b_fam b =? 0 then obs_of_alloc c false (realloc_mem v c f s idx (Some b) n) (digest (b_data b)) else (s, skip_obs s)
      | None => (s, skip_obs s)
      end
  | OFree i =>
      match find_block i (s_blocks s) with
      | Some b => let '(s', cs, rep) := release s b in (s', mk_oobs K_VOID cs 0 0 0 [] (total s') rep)
      | None => (s, skip_obs s)
      end
  | OWrite i off bytes =>
      match find_block i (s_blocks s) with
      | Some b =>
          if (off <=? b_size b) && (N.of_nat (length bytes) <=? b_size b - off) then
            let s' := {| s_calls := s_calls s; s_blocks := update_block i (write_at (b_data b) off bytes) (s_blocks s); s_table := s_table s; s_err := s_err s |} in
            (s', mk_oobs K_VOID [] 0 0 0 [] (total s') 0)
          else (s, skip_obs s)
      | None => (s, skip_obs s)
      end
  end.

Fixpoint steps (v : variant) (c : cfg) (f : list N) (s : st) (idx : N) (ops : list op) : st * list oobs :=
  match ops with
  | [] => (s, [])
  | o :: r => let '(s1, ob) := step v c f s idx o in let '(s2, obs) := steps v c f s1 (idx + 1) r in (s2, ob :: obs)
  end.

(* the harness finally releases every remaining block *)
Fixpoint release_all (s : st) (bs : list block) (rep : N) : st * N :=
  match bs with
  | [] => (s, rep)
  | b :: r => let '(s', _, k) := release s b in release_all s' r (rep + k)
  end.
(* regions of the underlying allocator still held after that: those of the blocks whose release was refused ("non-allocated
   memory": the memory is not returned).  Every other region the model obtains belongs to a live block or is given back
   within the operation that obtained it. *)
Fixpoint leak_all (s : st) (bs : list block) (acc : N) : N :=
  match bs with
  | [] => acc
  | b :: r => let '(s', _, k) := release s b in leak_all s' r (acc + k * (if b_sep b then 2 else 1))
  end.

(* [sc_wrap]: memory accounting on (the accounting wrapper allocators installed) *)
Record scenario := { sc_cfg : cfg; sc_wrap : bool; sc_fail : list N; sc_ops : list op }.
(* [ob_end_live]: id and content digest of every block still live after the last operation (newest first), read before the
   harness releases them *)
(* [ob_faults]: the scenario names fault points (echo); [ob_end_leak]: regions of the underlying allocator still allocated after
   every block has been released and, with the wrappers installed, the accountant has been stopped and destroyed *)
Record obs := { ob_guard : bool; ob_ns : N; ob_wrap : bool; ob_faults : bool; ob_ops : list oobs; ob_end_live : list (N * list N);
                ob_end_total : N; ob_end_rep : N; ob_end_leak : N }.

Definition no_faults (f : list N) : bool := match f with [] => true | _ => false end.
Definition run_v (v : variant) (sc : scenario) : obs :=
  let '(s, os) := steps v (sc_cfg sc) (sc_fail sc) st0 0 (sc_ops sc) in
  let '(s', rep) := release_all s (s_blocks s) 0 in
  {| ob_guard := guard_on (sc_cfg sc); ob_ns := node_size (sc_cfg sc); ob_wrap := sc_wrap sc; ob_faults := negb (no_faults (sc_fail sc));
     ob_ops := os; ob_end_live := map (fun b => (b_id b, digest (b_data b))) (s_blocks s); ob_end_total := total s'; ob_end_rep := rep;
     ob_end_leak := leak_all s (s_blocks s) 0 |}.
Definition run := run_v fixed.

(* ---- validity of a scenario: sizes are size_t values, bytes are bytes ---- *)
Definition is_bytes (l : list N) : bool := forallb (fun x => x <? 256) l.
Definition valid_op (o : op) : bool :=
  match o with
  | OMalloc n | ODetAlloc n | ONew _ _ n | ORealloc _ n => n <? W
  | OCalloc a b => (a <? W) && (b <? W)
  | OStrdup s => is_bytes s && (N.of_nat (length s) <? 4294967296)
  | OStrndup s n => is_bytes s && (N.of_nat (length s) <? 4294967296) && (n <? W)
  | OFree _ => true
  | OWrite _ off bytes => is_bytes bytes && (off <? W)
  end.
(* fault points are call indices of the underlying allocator; with the wrappers installed the indices also count the wrappers'
   own requests (tracking nodes, statistics nodes), which the repaired wrapper survives: any fault points, wrappers or not *)
Definition valid (sc : scenario) : bool := valid_cfg (sc_cfg sc) && forallb valid_op (sc_ops sc).

(* =====================================================================================================================
   spec: what the property demands of an observation.  Model-free: it follows only the abstract meaning of the operations
   (which blocks are live and what they contain) and judges the observed layout numbers by inequalities; it never computes
   a request size.
   ===================================================================================================================== *)
Definition live := list (N * N * list N).        (* id, family, content *)
Definition l_find (i : N) (l : live) : option (N * list N) :=
  match find (fun e => fst (fst e) =? i) l with Some e => Some (snd (fst e), snd e) | None => None end.
Definition l_remove (i : N) (l : live) : live := filter (fun e => negb (fst (fst e) =? i)) l.
Definition l_update (i : N) (d : list N) (l : live) : live := map (fun e => if fst (fst e) =? i then (fst e, d) else e) l.
Definition count (l : live) : N := N.of_nat (length l).

Definition any_failed (cs : list call) : bool := existsb (fun x => negb (snd x)) cs.
(* a failed request keeps nothing: every region it obtained from the underlying allocator has been given back *)
Definition got (cs : list call) : N := N.of_nat (length (filter (fun x : call => negb (fst (fst x) =? 2) && snd x) cs)).
Definition freed (cs : list call) : N := N.of_nat (length (filter (fun x : call => fst (fst x) =? 2) cs)).
Definition balanced (cs : list call) : bool := got cs =? freed cs.
(* sizes that cannot be served once the bookkeeping is added *)
Definition too_big (c : cfg) (n : N) : bool := W <=? n + G c + c05_ptr_size + node_size c.
(* user bytes, guard bytes and record are inside the region the underlying allocator returned, in this order, disjoint *)
Definition layout_ok (c : cfg) (n : N) (o : oobs) : bool :=
  match o_nk o with
  | 1 => (o_off o + n + G c <=? o_nv o) && (o_nv o mod 8 =? 0) && (o_nv o + node_size c <=? o_req o)
  | 2 => (o_off o + n + G c <=? o_req o) && (node_size c <=? o_nv o)     (* the record fits into what is left of its own region *)
  | _ => false
  end.
(* whatever is asked of the underlying allocator is either a request for a leak record or large enough for the user bytes
   and the guard in unbounded arithmetic: a wrapped, too small request is a violation even when it happens to be refused *)
Definition call_ok (c : cfg) (n : N) (x : call) : bool :=
  (fst (fst x) =? 2) || (snd (fst x) =? node_size c) || (n + G c <=? snd (fst x)).
Definition calls_ok (c : cfg) (n : N) (cs : list call) : bool := forallb (call_ok c n) cs.
(* ---- with the accounting wrappers installed ---- *)
(* a request for a statistics node of the accountant (MemoryAccountantAllocationNode): serving the caller does not depend on it *)
Definition is_stat (x : call) : bool := (fst (fst x) =? 0) && (snd (fst x) =? c05_accountant_node_size).
(* a failed call other than a request for a statistics node / a failed request for a statistics node *)
Definition hard_failed (cs : list call) : bool := existsb (fun x : call => negb (snd x) && negb (is_stat x)) cs.
Definition stat_failed (cs : list call) : bool := existsb (fun x : call => negb (snd x) && is_stat x) cs.
(* a failed request keeps nothing but statistics nodes (they stay with the accountant until it is cleared): no more is given
   back than was obtained, and everything obtained is given back except at most the statistics nodes obtained *)
Definition stat_got (cs : list call) : N := N.of_nat (length (filter (fun x : call => is_stat x && snd x) cs)).
Definition wbalanced (cs : list call) : bool := (got cs - stat_got cs <=? freed cs) && (freed cs <=? got cs).
Fixpoint list_eqb (a b : list N) : bool :=
  match a, b with [], [] => true | x :: a', y :: b' => (x =? y) && list_eqb a' b' | _, _ => false end.

(* an allocation-like request of [n] bytes (mathematical size) whose content must be [content tt].
   [w]: the accounting wrappers are installed; the call log then also holds the wrappers' own requests (a tracking node per
   block, a statistics node per size), so the clause about the sizes of the underlying calls is not demanded, a pointer may
   come although a request for a statistics node failed (never after any other failed call), and a failed request may keep
   statistics nodes but nothing else.  Everything else -- kind of result, alignment, disjointness, layout inside the region,
   content, totals, reports, NULL only with a cause -- is demanded unchanged *)
Definition spec_alloc (w : bool) (c : cfg) (throwing : bool) (n : N) (content : unit -> list N) (before after_ok : N) (fail_dig : list N) (o : oobs) : bool :=
  (o_rep o =? 0) && (w || calls_ok c n (o_calls o)) &&
  if o_kind o =? K_PTR then
    negb (if w then hard_failed (o_calls o) else any_failed (o_calls o)) && (n <? W) && layout_ok c n o && (o_amod o =? 0) && (o_ovl o =? 0) && (o_total o =? after_ok) && list_eqb (o_dig o) (digest (content tt))
  else if o_kind o =? (if throwing then K_BAD else K_NULL) then
    (any_failed (o_calls o) || too_big c n) && (if w then wbalanced (o_calls o) else balanced (o_calls o)) && (o_total o =? before) && list_eqb (o_dig o) fail_dig
  else false.

Definition spec_skip (l : live) (o : oobs) : bool := (o_kind o =? K_SKIP) && (o_total o =? count l) && (o_rep o =? 0).

Definition str_of (s : list N) : list N := cut_nul s.
Definition spec_step (w : bool) (c : cfg) (l : live) (idx : N) (o : op) (ob : oobs) : option live :=
  let fresh fam n content :=
    if spec_alloc w c false n content (count l) (count l + 1) [] ob then
      Some (if o_kind ob =? K_PTR then (idx, fam, content tt) :: l else l) else None in
  match o with
  | OMalloc n | ODetAlloc n => fresh 0 n (fun _ => repeat FILL (N.to_nat n))
  | OCalloc a b => fresh 0 (a * b) (fun _ => repeat 0 (N.to_nat (a * b)))
  | OStrdup s => fresh 0 (N.of_nat (length (str_of s)) + 1) (fun _ => str_of s ++ [0])
  | OStrndup s k => let m := N.min (N.of_nat (length (str_of s))) k in fresh 0 (m + 1) (fun _ => firstn (N.to_nat m) (str_of s) ++ [0])
  | ONew arr throwing n =>
      let content := fun _ : unit => repeat FILL (N.to_nat n) in
      if spec_alloc w c throwing n content (count l) (count l + 1) [] ob then
        Some (if o_kind ob =? K_PTR then (idx, (if arr then 2 else 1), content tt) :: l else l) else None
  | ORealloc None n => fresh 0 n (fun _ => repeat RFILL (N.to_nat n))
  | ORealloc (Some i) n =>
      match l_find i l with
      | Some (0, d) =>
          let content := fun _ : unit => realloc_data d n in
          if spec_alloc w c false n content (count l) (count l) (digest d) ob then
            Some (if o_kind ob =? K_PTR then (idx, 0, content tt) :: l_remove i l else l) else None
      | _ => if spec_skip l ob then Some l else None
      end
  | OFree i =>
      match l_find i l with
      | Some _ => if (o_kind ob =? K_VOID) && (o_rep ob =? 0) && (o_total ob + 1 =? count l) then Some (l_remove i l) else None
      | None => if spec_skip l ob then Some l else None
      end
  | OWrite i off bytes =>
      match l_find i l with
      | Some (_, d) =>
          if (off <=? N.of_nat (length d)) && (N.of_nat (length bytes) <=? N.of_nat (length d) - off) then
            if (o_kind ob =? K_VOID) && (o_rep ob =? 0) && (o_total ob =? count l) then Some (l_update i (write_at d off bytes) l) else None
          else if spec_skip l ob then Some l else None
      | None => if spec_skip l ob then Some l else None
      end
  end.

(* every block the history leaves live is still there with exactly its content *)
Fixpoint end_eqb (l : live) (e : list (N * list N)) : bool :=
  match l, e with
  | [], [] => true
  | x :: l', y :: e' => (fst (fst x) =? fst y) && list_eqb (digest (snd x)) (snd y) && end_eqb l' e'
  | _, _ => false
  end.
Fixpoint spec_steps (w : bool) (c : cfg) (l : live) (idx : N) (ops : list op) (obs : list oobs) (e : list (N * list N)) : bool :=
  match ops, obs with
  | [], [] => end_eqb l e
  | o :: r, ob :: obr => match spec_step w c l idx o ob with Some l' => spec_steps w c l' (idx + 1) r obr e | None => false end
  | _, _ => false
  end.

(* reallocations of a live block that returned a pointer.  The wrapper does not see a reallocation (the detector calls
   PlatformSpecificRealloc directly), so the tracking node of a block that moved stays in the wrapper's list for good: with the
   wrappers installed at most one region per such operation may remain at the end *)
Fixpoint moved (ops : list op) (obs : list oobs) : N :=
  match ops, obs with
  | o :: r, ob :: obr => (match o with ORealloc (Some _) _ => if o_kind ob =? K_PTR then 1 else 0 | _ => 0 end) + moved r obr
  | _, _ => 0
  end.

Definition spec (sc : scenario) (o : obs) : bool :=
  Bool.eqb (ob_guard o) (guard_on (sc_cfg sc)) && (ob_ns o =? node_size (sc_cfg sc)) && Bool.eqb (ob_wrap o) (sc_wrap sc) &&
  Bool.eqb (ob_faults o) (negb (no_faults (sc_fail sc))) &&
  spec_steps (sc_wrap sc) (sc_cfg sc) [] 0 (sc_ops sc) (ob_ops o) (ob_end_live o) && (ob_end_total o =? 0) && (ob_end_rep o =? 0) &&
  (ob_end_leak o <=? (if sc_wrap sc then moved (sc_ops sc) (ob_ops o) else 0)).
