(* C18, mode 4 (the warning printed through the cache): proofs. *)
From Coq Require Import NArith Arith Bool List Lia.
From CppUVerif Require Import gen.Gen_C18 C18_Model C18_Lists C18_Inv C18_Sim C18_Proofs C18_Hist C18_ModelG C18_ModelE C18_EProofs C18_ModelW.
Import ListNotations.
Local Open Scope N_scope.

Lemma wrun_meets_wspec : forall s, wvalid s = true -> wspec s (wrun s) = true.
Proof.
  intros s H. unfold wvalid in H. apply andb_true_iff in H. destruct H as [_ Hv].
  unfold wspec, wrun. cbn [wo_items wo_depth wo_prints].
  rewrite (run_meets_spec _ Hv), !N.eqb_refl. cbn [andb].
  apply N.leb_le.
  (* nesting depth: never above 2 *)
  assert (D : forall g ops c, c_depth c <= 2 -> c_depth (snd (wsteps g c ops)) <= 2).
  { intros g ops. induction ops as [|o r IH]; intros c Hc; [exact Hc|].
    cbn [wsteps]. destruct (wstep g c o) as [l1 c1] eqn:E.
    assert (H1 : c_depth c1 <= 2).
    { destruct o as [n|k|j n|]; cbn [wstep] in E.
      - inversion E; subst; exact Hc.
      - destruct (nth_error (c_map c) k) as [[i n]|]; inversion E; subst; exact Hc.
      - destruct (c_warned c); [inversion E; subst; exact Hc|].
        unfold out_print, set_warned in E. cbn in E. destruct (c_buf c); inversion E; subst; cbn; lia.
      - unfold out_print in E. destruct (c_buf c); [|destruct (c_warned c)]; inversion E; subst; cbn; lia. }
    specialize (IH c1 H1). destruct (wsteps g c1 r) as [l2 c2]. exact IH. }
  unfold wcompile, wc0. destruct (w_pre s).
  - specialize (D (w_g s) (w_ops s) {| c_warned := false; c_buf := None; c_size := w_c0 s; c_na := 0; c_map := []; c_depth := 0; c_prints := 0 |}).
    destruct (wsteps _ _ _) as [l1 c1]. cbn [snd] in *. apply D. cbn. lia.
  - specialize (D (w_g s) (w_ops s) {| c_warned := false; c_buf := Some O; c_size := w_c0 s; c_na := 1; c_map := []; c_depth := 0; c_prints := 0 |}).
    destruct (wsteps _ _ _) as [l1 c1]. cbn [snd] in *. apply D. cbn. lia.
Qed.

Theorem zrun_meets_zspec : forall s, zvalid s = true -> zspec s (zrun s) = true.
Proof. intros [y|w] H; cbn in *; [apply yrun_meets_yspec | apply wrun_meets_wspec]; exact H. Qed.

(* a pointer the cache never handed out is never found: its release is the unknown release, whatever the lists hold *)
Lemma unlink_next_foreign : forall rest cur k, unlink_next cur rest (PFor k) = None.
Proof. induction rest as [|b r IH]; intros cur k; cbn; [reflexivity|]. rewrite IH. reflexivity. Qed.
Lemma unlink_foreign : forall l k, unlink l (PFor k) = None.
Proof. intros [|h r] k; cbn; [reflexivity|apply unlink_next_foreign]. Qed.
Lemma foreign_release_is_unknown : forall st k n, dealloc st (PFor k) n = unknown_release st.
Proof. intros. unfold dealloc. destruct (is_cached n); rewrite unlink_foreign; reflexivity. Qed.

(* the flag is set by the release that warns, before anything the print does: whatever calls follow -- in particular the
   requests and releases the output makes while the warning is printed, foreign or not -- none of them warns *)
Lemma flag_set_before_print : forall st p n st1 x, dealloc st p n = (st1, x) -> o_warn x = true ->
  s_warned st = false /\ s_warned st1 = true /\ forall ops, warns (snd (exec st1 ops)) = O.
Proof.
  intros st p n st1 x E W.
  pose proof (step_warn st (LDealloc p n)) as H. cbn [step] in H. rewrite E in H. cbn [fst snd] in H.
  destruct H as [[H1 _]|[H1 H2]]; [congruence|].
  rewrite W in H1. split; [destruct (s_warned st); [discriminate|reflexivity]|]. split; [exact H2|].
  intros ops. pose proof (warn_once_from ops st1) as L. rewrite H2 in L. lia.
Qed.

(* at most one warning in every history of mode 4 (valid or not), the output's own calls included *)
Definition iwarns (o : obs) : nat := length (filter i_warn o).
Lemma run_ops_warns : forall ops st res, (iwarns (run_ops st res ops) <= (if s_warned st then 0 else 1))%nat.
Proof.
  induction ops as [|o r IH]; intros st res.
  - cbn. destruct (s_warned st); lia.
  - cbn [run_ops]. pose proof (step_warn st (resolve res o)) as H.
    destruct (step st (resolve res o)) as [st1 x]. cbn [fst snd] in H.
    specialize (IH st1 (match o_ret x with Some id => res ++ [id] | None => res end)).
    unfold iwarns in *. cbn [filter]. unfold item_of at 1. cbn [i_warn].
    destruct H as [[H1 H2]|[H1 H2]]; rewrite H1; rewrite H2 in IH.
    + exact IH.
    + destruct (s_warned st); cbn [negb length] in *; lia.
Qed.
Lemma wrun_one_warning : forall s, (iwarns (wo_items (wrun s)) <= 1)%nat.
Proof.
  intros s. unfold wrun, run. cbn [wo_items]. unfold iwarns. cbn [filter item_of init_out i_warn o_warn mk_out].
  apply (run_ops_warns (snd (wflat s)) init_state []).
Qed.
Lemma wrun_nesting : forall s, wvalid s = true -> wo_depth (wrun s) <= 2.
Proof.
  intros s H. pose proof (wrun_meets_wspec s H) as S. unfold wspec in S.
  apply andb_true_iff in S. destruct S as [_ S]. apply N.leb_le in S. exact S.
Qed.

(* satisfiability: a foreign release of a non-cached size with an output whose buffer predates the cache; then the test prints *)
Definition wdemo : wscenario := {| w_pre := true; w_c0 := 40; w_g := 30; w_ops := [WAlloc 20; WFor 0 300; WPrint; WFor 1 20; WRel 0] |}.
Example wdemo_ok : wvalid wdemo = true /\ wspec wdemo (wrun wdemo) = true /\ iwarns (wo_items (wrun wdemo)) = 1%nat
                   /\ wo_depth (wrun wdemo) = 1 /\ wo_prints (wrun wdemo) = 2.
Proof. vm_compute. repeat split; reflexivity. Qed.
(* the print whose own release draws the warning: nested once *)
Definition wdemo2 : wscenario := {| w_pre := true; w_c0 := 40; w_g := 30; w_ops := [WPrint; WFor 1 20] |}.
Example wdemo2_ok : wvalid wdemo2 = true /\ wspec wdemo2 (wrun wdemo2) = true /\ iwarns (wo_items (wrun wdemo2)) = 1%nat
                    /\ wo_depth (wrun wdemo2) = 2 /\ wo_prints (wrun wdemo2) = 2.
Proof. vm_compute. repeat split; reflexivity. Qed.
Example flag_set_before_print_sat : exists st1 x, dealloc init_state (PFor 0) 20 = (st1, x) /\ o_warn x = true.
Proof. eexists. eexists. split; reflexivity. Qed.

(* the red-team variant: flag set after the print.  Its history on `4 pre 40 30 :f 0 14` up to the harness's cut is refused *)
Definition late_scn : wscenario := {| w_pre := true; w_c0 := 40; w_g := 30; w_ops := [WFor 0 20] |}.
Lemma late_flag_refuted : wvalid late_scn = true /\
  wspec late_scn {| wo_items := late_flag_items 20 40 30; wo_depth := 3; wo_prints := 3 |} = false /\
  (forall d p, wspec late_scn {| wo_items := late_flag_items 20 40 30; wo_depth := d; wo_prints := p |} = false).
Proof. split; [vm_compute; reflexivity|]. split; [vm_compute; reflexivity|]. intros d p. unfold wspec. cbn [wo_items]. 
  replace (spec (wflat late_scn) (late_flag_items 20 40 30)) with false by (vm_compute; reflexivity). reflexivity. Qed.
