From Coq Require Import ExtrOcamlBasic.
From CppUVerif Require Import lib.CInt C19_Table gen.Gen_C19 C19_Model.
Extraction "c19_model.ml" C19_Model.run C19_Model.spec C19_Model.valid C19_Model.c_trace C19_Model.x_trace.
