(* C12 -- executable mirror of CommandLineArguments::parse (src/CppUTest/CommandLineArguments.cpp) with its helpers
   getParameterField, setRepeatCount, setShuffle, addGroupDotNameFilter, addTestToRunBasedOnVerboseOutput, setOutputType,
   setPackageName, and of the filter matching that applies the parsed filters (TestFilter::match, UtestShell::shouldRun).
   The else-if chain is not written here: the parser walks the table gen/Gen_C12.v re-read from the source on every run.
   The string helpers are the textbook list functions (C13 proves SimpleString equal to them).  No proofs in this file. *)
From Coq Require Import String Ascii.
From Coq Require Import NArith ZArith Bool List.
From CppUVerif Require Import gen.Gen_C12 lib.Str.
Import ListNotations.
Local Open Scope N_scope.

Definition bytes := list N.
Fixpoint bs (s : string) : bytes := match s with EmptyString => [] | String a r => N_of_ascii a :: bs r end.
(* B "text" elaborates to the numeric byte list itself (nothing of Coq's string type reaches the extracted code) *)
Notation "'B' s" := (ltac:(let v := eval vm_compute in (bs s%string) in exact v)) (at level 0, s at level 0, only parsing).

(* ---------------------------------------------------------------- SimpleString helpers, textbook level *)
Definition is_space (c : N) : bool := (c =? 32) || ((8 <? c) && (c <? 14)).
Definition is_digit (c : N) : bool := (48 <=? c) && (c <=? 57).
Fixpoint skip_spaces (s : bytes) : bytes :=
  match s with c :: r => if is_space c then skip_spaces r else s | [] => [] end.
Fixpoint digits_val (acc : N) (s : bytes) : N :=
  match s with c :: r => if is_digit c then digits_val (acc * 10 + (c - 48)) r else acc | [] => acc end.
Fixpoint digit_run (s : bytes) : nat :=
  match s with c :: r => if is_digit c then S (digit_run r) else O | [] => O end.
(* AtoU: unsigned arithmetic wraps *)
Definition atou (s : bytes) : N := digits_val 0 (skip_spaces s) mod 4294967296.
(* AtoI: the digits AtoI will read (after blanks and one sign) *)
Definition atoi_digits (s : bytes) : bytes :=
  match skip_spaces s with
  | c :: r => if (c =? 45) || (c =? 43) then r else c :: r
  | [] => []
  end.
(* AtoI, for at most 9 digits (more may overflow int: excluded, same contract as atoi) *)
Definition atoi (s : bytes) : Z :=
  let v := Z.of_N (digits_val 0 (atoi_digits s)) in
  match skip_spaces s with c :: _ => if c =? 45 then (- v)%Z else v | [] => v end.
Definition size_of_int (z : Z) : N := Z.to_N (z mod 18446744073709551616).    (* (size_t) of an int *)

Fixpoint find_idx (ch : N) (s : bytes) : option nat :=
  match s with [] => None | c :: r => if c =? ch then Some O else option_map S (find_idx ch r) end.
Definition find_from (start : nat) (ch : N) (s : bytes) : option nat :=
  option_map (Nat.add start) (find_idx ch (skipn start s)).
(* subStringFromTill(a, b): from the first a up to (excluding) the first b at or after it *)
Definition sub_from_till (a b : N) (s : bytes) : bytes :=
  match find_idx a s with
  | None => []
  | Some bp => match find_from bp b s with
               | None => skipn bp s
               | Some ep => firstn (ep - bp) (skipn bp s)
               end
  end.
Definition at0 (s : bytes) : N := hd 0 s.          (* at(0): the terminator for the empty string *)

(* split(".") as the code does it: every token keeps its delimiter, a last token without one only if the text does not
   end with the delimiter; the empty text gives one empty token *)
Fixpoint split_go (d : N) (s : bytes) : list bytes :=
  match s with
  | [] => []
  | c :: r => if c =? d then [c] :: split_go d r
              else match split_go d r with [] => [[c]] | t :: ts => (c :: t) :: ts end
  end.
Definition split_incl (d : N) (s : bytes) : list bytes := match s with [] => [[]] | _ => split_go d s end.

(* ---------------------------------------------------------------- the configuration object *)
Inductive out_kind := OEclipse | OJUnit | OTeamCity.
Record filter := { f_pat : bytes; f_strict : bool; f_invert : bool }.
Record config := {
  c_verbose : bool;
  c_veryverbose : bool;
  c_color : bool;
  c_sep : bool;
  c_listg : bool;
  c_listn : bool;
  c_listl : bool;
  c_runign : bool;
  c_rev : bool;
  c_crash : bool;
  c_rethrow : bool;
  c_shuf : bool;
  c_seed : N;
  c_repeat : N;
  c_out : out_kind;
  c_pkg : bytes;
  c_gf : list filter;
  c_nf : list filter }.
Definition set_verbose (c : config) (b : bool) : config :=
  {| c_verbose := b; c_veryverbose := c_veryverbose c; c_color := c_color c; c_sep := c_sep c; c_listg := c_listg c; c_listn := c_listn c; c_listl := c_listl c; c_runign := c_runign c; c_rev := c_rev c; c_crash := c_crash c; c_rethrow := c_rethrow c; c_shuf := c_shuf c; c_seed := c_seed c; c_repeat := c_repeat c; c_out := c_out c; c_pkg := c_pkg c; c_gf := c_gf c; c_nf := c_nf c |}.
Definition set_veryverbose (c : config) (b : bool) : config :=
  {| c_verbose := c_verbose c; c_veryverbose := b; c_color := c_color c; c_sep := c_sep c; c_listg := c_listg c; c_listn := c_listn c; c_listl := c_listl c; c_runign := c_runign c; c_rev := c_rev c; c_crash := c_crash c; c_rethrow := c_rethrow c; c_shuf := c_shuf c; c_seed := c_seed c; c_repeat := c_repeat c; c_out := c_out c; c_pkg := c_pkg c; c_gf := c_gf c; c_nf := c_nf c |}.
Definition set_color (c : config) (b : bool) : config :=
  {| c_verbose := c_verbose c; c_veryverbose := c_veryverbose c; c_color := b; c_sep := c_sep c; c_listg := c_listg c; c_listn := c_listn c; c_listl := c_listl c; c_runign := c_runign c; c_rev := c_rev c; c_crash := c_crash c; c_rethrow := c_rethrow c; c_shuf := c_shuf c; c_seed := c_seed c; c_repeat := c_repeat c; c_out := c_out c; c_pkg := c_pkg c; c_gf := c_gf c; c_nf := c_nf c |}.
Definition set_sep (c : config) (b : bool) : config :=
  {| c_verbose := c_verbose c; c_veryverbose := c_veryverbose c; c_color := c_color c; c_sep := b; c_listg := c_listg c; c_listn := c_listn c; c_listl := c_listl c; c_runign := c_runign c; c_rev := c_rev c; c_crash := c_crash c; c_rethrow := c_rethrow c; c_shuf := c_shuf c; c_seed := c_seed c; c_repeat := c_repeat c; c_out := c_out c; c_pkg := c_pkg c; c_gf := c_gf c; c_nf := c_nf c |}.
Definition set_listg (c : config) (b : bool) : config :=
  {| c_verbose := c_verbose c; c_veryverbose := c_veryverbose c; c_color := c_color c; c_sep := c_sep c; c_listg := b; c_listn := c_listn c; c_listl := c_listl c; c_runign := c_runign c; c_rev := c_rev c; c_crash := c_crash c; c_rethrow := c_rethrow c; c_shuf := c_shuf c; c_seed := c_seed c; c_repeat := c_repeat c; c_out := c_out c; c_pkg := c_pkg c; c_gf := c_gf c; c_nf := c_nf c |}.
Definition set_listn (c : config) (b : bool) : config :=
  {| c_verbose := c_verbose c; c_veryverbose := c_veryverbose c; c_color := c_color c; c_sep := c_sep c; c_listg := c_listg c; c_listn := b; c_listl := c_listl c; c_runign := c_runign c; c_rev := c_rev c; c_crash := c_crash c; c_rethrow := c_rethrow c; c_shuf := c_shuf c; c_seed := c_seed c; c_repeat := c_repeat c; c_out := c_out c; c_pkg := c_pkg c; c_gf := c_gf c; c_nf := c_nf c |}.
Definition set_listl (c : config) (b : bool) : config :=
  {| c_verbose := c_verbose c; c_veryverbose := c_veryverbose c; c_color := c_color c; c_sep := c_sep c; c_listg := c_listg c; c_listn := c_listn c; c_listl := b; c_runign := c_runign c; c_rev := c_rev c; c_crash := c_crash c; c_rethrow := c_rethrow c; c_shuf := c_shuf c; c_seed := c_seed c; c_repeat := c_repeat c; c_out := c_out c; c_pkg := c_pkg c; c_gf := c_gf c; c_nf := c_nf c |}.
Definition set_runign (c : config) (b : bool) : config :=
  {| c_verbose := c_verbose c; c_veryverbose := c_veryverbose c; c_color := c_color c; c_sep := c_sep c; c_listg := c_listg c; c_listn := c_listn c; c_listl := c_listl c; c_runign := b; c_rev := c_rev c; c_crash := c_crash c; c_rethrow := c_rethrow c; c_shuf := c_shuf c; c_seed := c_seed c; c_repeat := c_repeat c; c_out := c_out c; c_pkg := c_pkg c; c_gf := c_gf c; c_nf := c_nf c |}.
Definition set_rev (c : config) (b : bool) : config :=
  {| c_verbose := c_verbose c; c_veryverbose := c_veryverbose c; c_color := c_color c; c_sep := c_sep c; c_listg := c_listg c; c_listn := c_listn c; c_listl := c_listl c; c_runign := c_runign c; c_rev := b; c_crash := c_crash c; c_rethrow := c_rethrow c; c_shuf := c_shuf c; c_seed := c_seed c; c_repeat := c_repeat c; c_out := c_out c; c_pkg := c_pkg c; c_gf := c_gf c; c_nf := c_nf c |}.
Definition set_crash (c : config) (b : bool) : config :=
  {| c_verbose := c_verbose c; c_veryverbose := c_veryverbose c; c_color := c_color c; c_sep := c_sep c; c_listg := c_listg c; c_listn := c_listn c; c_listl := c_listl c; c_runign := c_runign c; c_rev := c_rev c; c_crash := b; c_rethrow := c_rethrow c; c_shuf := c_shuf c; c_seed := c_seed c; c_repeat := c_repeat c; c_out := c_out c; c_pkg := c_pkg c; c_gf := c_gf c; c_nf := c_nf c |}.
Definition set_rethrow (c : config) (b : bool) : config :=
  {| c_verbose := c_verbose c; c_veryverbose := c_veryverbose c; c_color := c_color c; c_sep := c_sep c; c_listg := c_listg c; c_listn := c_listn c; c_listl := c_listl c; c_runign := c_runign c; c_rev := c_rev c; c_crash := c_crash c; c_rethrow := b; c_shuf := c_shuf c; c_seed := c_seed c; c_repeat := c_repeat c; c_out := c_out c; c_pkg := c_pkg c; c_gf := c_gf c; c_nf := c_nf c |}.
Definition set_shuf (c : config) (b : bool) : config :=
  {| c_verbose := c_verbose c; c_veryverbose := c_veryverbose c; c_color := c_color c; c_sep := c_sep c; c_listg := c_listg c; c_listn := c_listn c; c_listl := c_listl c; c_runign := c_runign c; c_rev := c_rev c; c_crash := c_crash c; c_rethrow := c_rethrow c; c_shuf := b; c_seed := c_seed c; c_repeat := c_repeat c; c_out := c_out c; c_pkg := c_pkg c; c_gf := c_gf c; c_nf := c_nf c |}.
Definition set_seed (c : config) (v : N) : config :=
  {| c_verbose := c_verbose c; c_veryverbose := c_veryverbose c; c_color := c_color c; c_sep := c_sep c; c_listg := c_listg c; c_listn := c_listn c; c_listl := c_listl c; c_runign := c_runign c; c_rev := c_rev c; c_crash := c_crash c; c_rethrow := c_rethrow c; c_shuf := c_shuf c; c_seed := v; c_repeat := c_repeat c; c_out := c_out c; c_pkg := c_pkg c; c_gf := c_gf c; c_nf := c_nf c |}.
Definition set_repeat (c : config) (v : N) : config :=
  {| c_verbose := c_verbose c; c_veryverbose := c_veryverbose c; c_color := c_color c; c_sep := c_sep c; c_listg := c_listg c; c_listn := c_listn c; c_listl := c_listl c; c_runign := c_runign c; c_rev := c_rev c; c_crash := c_crash c; c_rethrow := c_rethrow c; c_shuf := c_shuf c; c_seed := c_seed c; c_repeat := v; c_out := c_out c; c_pkg := c_pkg c; c_gf := c_gf c; c_nf := c_nf c |}.
Definition set_out (c : config) (v : out_kind) : config :=
  {| c_verbose := c_verbose c; c_veryverbose := c_veryverbose c; c_color := c_color c; c_sep := c_sep c; c_listg := c_listg c; c_listn := c_listn c; c_listl := c_listl c; c_runign := c_runign c; c_rev := c_rev c; c_crash := c_crash c; c_rethrow := c_rethrow c; c_shuf := c_shuf c; c_seed := c_seed c; c_repeat := c_repeat c; c_out := v; c_pkg := c_pkg c; c_gf := c_gf c; c_nf := c_nf c |}.
Definition set_pkg (c : config) (v : bytes) : config :=
  {| c_verbose := c_verbose c; c_veryverbose := c_veryverbose c; c_color := c_color c; c_sep := c_sep c; c_listg := c_listg c; c_listn := c_listn c; c_listl := c_listl c; c_runign := c_runign c; c_rev := c_rev c; c_crash := c_crash c; c_rethrow := c_rethrow c; c_shuf := c_shuf c; c_seed := c_seed c; c_repeat := c_repeat c; c_out := c_out c; c_pkg := v; c_gf := c_gf c; c_nf := c_nf c |}.
Definition add_gf (c : config) (f : filter) : config :=
  {| c_verbose := c_verbose c; c_veryverbose := c_veryverbose c; c_color := c_color c; c_sep := c_sep c; c_listg := c_listg c; c_listn := c_listn c; c_listl := c_listl c; c_runign := c_runign c; c_rev := c_rev c; c_crash := c_crash c; c_rethrow := c_rethrow c; c_shuf := c_shuf c; c_seed := c_seed c; c_repeat := c_repeat c; c_out := c_out c; c_pkg := c_pkg c; c_gf := (f :: c_gf c); c_nf := c_nf c |}.
Definition add_nf (c : config) (f : filter) : config :=
  {| c_verbose := c_verbose c; c_veryverbose := c_veryverbose c; c_color := c_color c; c_sep := c_sep c; c_listg := c_listg c; c_listn := c_listn c; c_listl := c_listl c; c_runign := c_runign c; c_rev := c_rev c; c_crash := c_crash c; c_rethrow := c_rethrow c; c_shuf := c_shuf c; c_seed := c_seed c; c_repeat := c_repeat c; c_out := c_out c; c_pkg := c_pkg c; c_gf := c_gf c; c_nf := (f :: c_nf c) |}.

Definition default_config : config :=
  {| c_verbose := false; c_veryverbose := false; c_color := false; c_sep := false; c_listg := false; c_listn := false;
     c_listl := false; c_runign := false; c_rev := false; c_crash := false; c_rethrow := true; c_shuf := false;
     c_seed := 0; c_repeat := 1; c_out := OEclipse; c_pkg := []; c_gf := []; c_nf := [] |}.

Inductive result := Reject (help : bool) | Accept (c : config) | Unknown.   (* Unknown: a dispatch rule this model has no action for *)
Inductive hres := HReject (help : bool) | HOk (c : config) (consumed_next : bool) | HUnknown.

(* getParameterField: the text attached to the option, else the next argument (consumed), else "" *)
Definition param_field (litlen : nat) (a : bytes) (next : option bytes) : bytes * bool :=
  if Nat.ltb litlen (length a) then (skipn litlen a, false)
  else match next with Some n => (n, true) | None => ([], false) end.

Definition mkf (p : bytes) (strict invert : bool) : filter := {| f_pat := p; f_strict := strict; f_invert := invert |}.

(* setRepeatCount *)
Definition set_repeat_count (c : config) (a : bytes) (next : option bytes) : hres :=
  let fin (r : N) (used : bool) := HOk (set_repeat c (if r =? 0 then 2 else r)) used in
  if Nat.ltb 2 (length a) then fin (size_of_int (atoi (skipn 2 a))) false
  else match next with
       | Some n => let r := size_of_int (atoi n) in fin r (negb (r =? 0))
       | None => fin 0 false
       end.

(* setShuffle; tm = GetPlatformSpecificTimeInMillis() *)
Definition set_shuffle (tm : N) (c : config) (a : bytes) (next : option bytes) : hres :=
  let t0 := tm mod 4294967296 in
  let tseed := if t0 =? 0 then 1 else t0 in
  let fin (seed : N) (used : bool) := if seed =? 0 then HReject false else HOk (set_seed (set_shuf c true) seed) used in
  if Nat.ltb 2 (length a) then fin (atou (skipn 2 a)) false
  else match next with
       | Some n => if atou n =? 0 then fin tseed false else fin (atou n) true
       | None => fin tseed false
       end.

Definition add_filter (group : bool) (strict invert : bool) (litlen : nat) (c : config) (a : bytes) (next : option bytes) : hres :=
  let (v, used) := param_field litlen a next in
  HOk (if group then add_gf c (mkf v strict invert) else add_nf c (mkf v strict invert)) used.

(* addGroupDotNameFilter *)
Definition add_group_dot_name (strict invert : bool) (litlen : nat) (c : config) (a : bytes) (next : option bytes) : hres :=
  let (v, used) := param_field litlen a next in
  match split_incl 46 v with
  | [t0; t1] => HOk (add_nf (add_gf c (mkf (firstn (length t0 - 1) t0) strict invert)) (mkf t1 strict invert)) used
  | _ => HReject false
  end.

(* addTestToRunBasedOnVerboseOutput *)
Definition add_verbose_test (litlen : nat) (c : config) (a : bytes) (next : option bytes) : hres :=
  let (w, used) := param_field litlen a next in
  let testname := skipn 2 (sub_from_till 44 41 w) in
  let groupname := sub_from_till (at0 w) 44 w in
  HOk (add_nf (add_gf c (mkf groupname true false)) (mkf testname true false)) used.

Fixpoint lookup_output (tbl : list (bytes * N)) (v : bytes) : option out_kind :=
  match tbl with
  | [] => None
  | (n, k) :: r => if bytes_eqb v n then Some (if k =? 0 then OEclipse else if k =? 1 then OJUnit else OTeamCity)
                   else lookup_output r v
  end.
Definition set_output_type (litlen : nat) (c : config) (a : bytes) (next : option bytes) : hres :=
  let (v, used) := param_field litlen a next in
  match v with
  | [] => HReject false
  | _ => match lookup_output c12_outputs v with Some k => HOk (set_out c k) used | None => HReject false end
  end.
Definition set_package_name (litlen : nat) (c : config) (a : bytes) (next : option bytes) : hres :=
  let (v, used) := param_field litlen a next in
  HOk (match v with [] => c | _ => set_pkg c v end) used.

(* the plugin handed to parse() by the harness accepts exactly the arguments starting with -pok *)
Definition plugin_accepts (a : bytes) : bool := is_prefix (B "-pok") a.

Definition match_eqb (a b : c12_match) : bool :=
  match a, b with MExact, MExact | MPrefix, MPrefix => true | _, _ => false end.
Definition key (k : c12_match) (lit : bytes) (k' : c12_match) (s : bytes) : bool := match_eqb k k' && bytes_eqb lit s.

(* what the branch guarded by rule (k, lit) does *)
Definition action (tm : N) (c : config) (k : c12_match) (lit : bytes) (a : bytes) (next : option bytes) : hres :=
  let n := length lit in
  if key k lit MExact (B "-h") then HReject true
  else if key k lit MExact (B "-v") then HOk (set_verbose c true) false
  else if key k lit MExact (B "-vv") then HOk (set_veryverbose c true) false
  else if key k lit MExact (B "-c") then HOk (set_color c true) false
  else if key k lit MExact (B "-p") then HOk (set_sep c true) false
  else if key k lit MExact (B "-b") then HOk (set_rev c true) false
  else if key k lit MExact (B "-lg") then HOk (set_listg c true) false
  else if key k lit MExact (B "-ln") then HOk (set_listn c true) false
  else if key k lit MExact (B "-ll") then HOk (set_listl c true) false
  else if key k lit MExact (B "-ri") then HOk (set_runign c true) false
  else if key k lit MExact (B "-f") then HOk (set_crash c true) false
  else if key k lit MExact (B "-e") then HOk (set_rethrow c false) false
  else if key k lit MExact (B "-ci") then HOk (set_rethrow c false) false
  else if key k lit MPrefix (B "-r") then set_repeat_count c a next
  else if key k lit MPrefix (B "-g") then add_filter true false false n c a next
  else if key k lit MPrefix (B "-t") then add_group_dot_name false false n c a next
  else if key k lit MPrefix (B "-st") then add_group_dot_name true false n c a next
  else if key k lit MPrefix (B "-xt") then add_group_dot_name false true n c a next
  else if key k lit MPrefix (B "-xst") then add_group_dot_name true true n c a next
  else if key k lit MPrefix (B "-sg") then add_filter true true false n c a next
  else if key k lit MPrefix (B "-xg") then add_filter true false true n c a next
  else if key k lit MPrefix (B "-xsg") then add_filter true true true n c a next
  else if key k lit MPrefix (B "-n") then add_filter false false false n c a next
  else if key k lit MPrefix (B "-sn") then add_filter false true false n c a next
  else if key k lit MPrefix (B "-xn") then add_filter false false true n c a next
  else if key k lit MPrefix (B "-xsn") then add_filter false true true n c a next
  else if key k lit MPrefix (B "-s") then set_shuffle tm c a next
  else if key k lit MPrefix (B "TEST(") then add_verbose_test n c a next
  else if key k lit MPrefix (B "IGNORE_TEST(") then add_verbose_test n c a next
  else if key k lit MPrefix (B "-o") then set_output_type n c a next
  else if key k lit MPrefix (B "-p") then (if plugin_accepts a then HOk c false else HReject false)
  else if key k lit MPrefix (B "-k") then set_package_name n c a next
  else HUnknown.

Definition rule_matches (r : c12_match * bytes) (a : bytes) : bool :=
  match fst r with MExact => bytes_eqb a (snd r) | MPrefix => is_prefix (snd r) a end.
Fixpoint first_match (tbl : list (c12_match * bytes)) (a : bytes) : option (c12_match * bytes) :=
  match tbl with [] => None | r :: t => if rule_matches r a then Some r else first_match t a end.

(* one iteration of the loop: argument a = av[i], next = av[i+1] when i+1 < ac *)
Definition handle (tm : N) (c : config) (a : bytes) (next : option bytes) : hres :=
  match first_match c12_dispatch a with
  | None => HReject false
  | Some (k, lit) => action tm c k lit a next
  end.

(* for (i = 1; i < ac; i++): structural over the remaining arguments; a handler may step over one more argument *)
Fixpoint parse_args (tm : N) (c : config) (args : list bytes) : result :=
  match args with
  | [] => Accept c
  | a :: rest =>
    match handle tm c a (hd_error rest) with
    | HReject h => Reject h
    | HUnknown => Unknown
    | HOk c' false => parse_args tm c' rest
    | HOk c' true => match rest with [] => Accept c' | _ :: rest' => parse_args tm c' rest' end
    end
  end.
Definition parse (tm : N) (argv : list bytes) : result := parse_args tm default_config (tl argv).

(* ---------------------------------------------------------------- applying the filters (TestFilter::match, UtestShell::match/shouldRun) *)
Definition fmatch (f : filter) (name : bytes) : bool :=
  let m := if f_strict f then bytes_eqb name (f_pat f) else contains name (f_pat f) in
  if f_invert f then negb m else m.
Definition list_match (fs : list filter) (name : bytes) : bool :=
  match fs with [] => true | _ => existsb (fun f => fmatch f name) fs end.
Definition selected (c : config) (t : bytes * bytes) : bool := list_match (c_gf c) (fst t) && list_match (c_nf c) (snd t).
(* the probe registry of the harness *)
Definition probes : list (bytes * bytes) :=
  Eval vm_compute in map (fun p => (bs (fst p), bs (snd p)))
    [("grp", "name"); ("grp", "name2"); ("grp2", "name"); ("Group", "Test"); ("a", "b"); ("ab", "ba"); ("x", "y");
     ("grp", "other"); ("other", "name"); ("g1", "t1"); ("G", "T"); ("mygrp", "myname");
     ("aaab", "xababac"); ("Looop", "TestTestTests")]%string.

(* CommandLineTestRunner::parseArguments and runAllTestsMain, reduced to what decides "is anything printed / does anything
   run":  if (!arguments_->parse(plugin)) { output_ = console; output_->print(needHelp() ? help() : usage()); return false; }
          ... return true;            and          if (parseArguments(plugin)) testResult = runAllTests();              *)
Inductive event := EPrintUsage | EPrintHelp | ERunAllTests.
Definition runner_parse_arguments (r : result) : bool * list event :=
  match r with
  | Reject h => (false, [if h then EPrintHelp else EPrintUsage])
  | _ => (true, [])
  end.
Definition run_all_tests_main (r : result) : list event :=
  let (ok, evs) := runner_parse_arguments r in if ok then evs ++ [ERunAllTests] else evs.
Definition is_run (e : event) : bool := match e with ERunAllTests => true | _ => false end.
Definition tests_run (evs : list event) : N := N.of_nat (length (List.filter is_run evs)).
Inductive printed := PNothing | PUsage | PHelp | POther.
Definition printed_of (evs : list event) : printed :=
  match List.filter (fun e => negb (is_run e)) evs with
  | [] => PNothing | [EPrintUsage] => PUsage | [EPrintHelp] => PHelp | _ => POther
  end.

Inductive obs :=
| ORejected (help : bool) (tests_run : N) (p : printed)
| OAccepted (c : config) (sel : list bool)
| OUnknown.
Definition run (tm : N) (argv : list bytes) : obs :=
  match parse tm argv with
  | Reject h => let evs := run_all_tests_main (Reject h) in ORejected h (tests_run evs) (printed_of evs)
  | Accept c => OAccepted c (map (selected c) probes)
  | Unknown => OUnknown
  end.

(* ---------------------------------------------------------------- the documented grammar (usage() / help() texts) *)
Inductive fkind := FContains | FStrict | FExclude | FExcludeStrict.      (* -g / -sg / -xg / -xsg and likewise for n, t *)
Definition fk_strict (k : fkind) : bool := match k with FStrict | FExcludeStrict => true | _ => false end.
Definition fk_invert (k : fkind) : bool := match k with FExclude | FExcludeStrict => true | _ => false end.
Inductive out_name := NNormal | NEclipse | NJUnit | NTeamCity.
Inductive doc_opt :=
| DHelp | DVerbose | DVeryVerbose | DColor | DSepProcess | DReverse | DListGroups | DListNames | DListLocations
| DRunIgnored | DCrashOnFail | DNoRethrow | DCI
| DRepeat (n : option bytes)              (* -r / -r<#>: decimal digits *)
| DShuffle (seed : option bytes)          (* -s / -s <seed> *)
| DGroup (k : fkind) (v : bytes)
| DName (k : fkind) (v : bytes)
| DGroupDotName (k : fkind) (g n : bytes)
| DTest (ignored : bool) (g n : bytes)    (* "TEST(g, n)" / "IGNORE_TEST(g, n)" *)
| DOutput (o : out_name)
| DPackage (v : bytes).

Definition pre_g (k : fkind) : bytes := match k with FContains => B "-g" | FStrict => B "-sg" | FExclude => B "-xg" | FExcludeStrict => B "-xsg" end.
Definition pre_n (k : fkind) : bytes := match k with FContains => B "-n" | FStrict => B "-sn" | FExclude => B "-xn" | FExcludeStrict => B "-xsn" end.
Definition pre_t (k : fkind) : bytes := match k with FContains => B "-t" | FStrict => B "-st" | FExclude => B "-xt" | FExcludeStrict => B "-xst" end.
Definition out_text (o : out_name) : bytes :=
  match o with NNormal => B "normal" | NEclipse => B "eclipse" | NJUnit => B "junit" | NTeamCity => B "teamcity" end.
Definition both (lit : bytes) (v : bytes) : list (list bytes) := [[lit ++ v]; [lit; v]].   (* attached, separated *)

(* every spelling of one option *)
Definition render_opt (o : doc_opt) : list (list bytes) :=
  match o with
  | DHelp => [[B "-h"]] | DVerbose => [[B "-v"]] | DVeryVerbose => [[B "-vv"]] | DColor => [[B "-c"]]
  | DSepProcess => [[B "-p"]] | DReverse => [[B "-b"]] | DListGroups => [[B "-lg"]] | DListNames => [[B "-ln"]]
  | DListLocations => [[B "-ll"]] | DRunIgnored => [[B "-ri"]] | DCrashOnFail => [[B "-f"]]
  | DNoRethrow => [[B "-e"]] | DCI => [[B "-ci"]]
  | DRepeat None => [[B "-r"]]
  | DRepeat (Some ds) => both (B "-r") ds
  | DShuffle None => [[B "-s"]]
  | DShuffle (Some ds) => both (B "-s") ds
  | DGroup k v => both (pre_g k) v
  | DName k v => both (pre_n k) v
  | DGroupDotName k g n => both (pre_t k) (g ++ 46 :: n)
  | DTest ign g n => [[(if ign then B "IGNORE_TEST(" else B "TEST(") ++ g ++ 44 :: 32 :: n ++ [41]]]
  | DOutput o => both (B "-o") (out_text o)
  | DPackage v => both (B "-k") v
  end.
Fixpoint render (opts : list doc_opt) : list (list bytes) :=
  match opts with
  | [] => [[]]
  | o :: r => flat_map (fun sp => map (app sp) (render r)) (render_opt o)
  end.

(* value shapes for which the documented meaning is claimed (everything else is only claimed to be parsed safely):
   - a value is not empty: the attached spelling of an empty value is the bare option, which takes the NEXT argument as
     its value (and -k with an empty value leaves the package name alone);
   - <group> and <name> of the -t family contain no '.': the text is split at every '.', and anything but two pieces is rejected
     (<group> may be empty, <name> may not: "g." is one piece);
   - <group> of "TEST(<group>, <name>)" contains no ',' and <name> no closing bracket: the group is cut at the first ',', the name
     at the first closing bracket after it;
   - <#> and <seed> are 1..9 decimal digits with a value > 0: -r0 means twice, seed 0 is refused ("must be greater than 0"),
     longer digit strings may overflow the int of AtoI. *)
Definition nonempty (v : bytes) : bool := negb (Nat.eqb (length v) 0).
Definition without (ch : N) (v : bytes) : bool := forallb (fun c => negb (c =? ch)) v.
Definition dec_value (ds : bytes) : N := fold_left (fun a d => a * 10 + (d - 48)) ds 0.
Definition number (ds : bytes) : bool :=           (* 1..9 digits, value > 0 *)
  negb (Nat.eqb (length ds) 0) && Nat.leb (length ds) 9 && forallb is_digit ds && negb (dec_value ds =? 0).
Definition opt_ok (o : doc_opt) : bool :=
  match o with
  | DRepeat (Some ds) | DShuffle (Some ds) => number ds
  | DGroup _ v | DName _ v | DPackage v => nonempty v
  | DGroupDotName _ g n => without 46 g && without 46 n && nonempty n
  | DTest _ g n => without 44 g && without 41 n
  | _ => true
  end.
(* identifier-like values (letters, digits, underscore ...: no NUL, none of . , and the closing bracket, not empty) have every one of these shapes *)
Definition val_char (c : N) : bool := negb (c =? 0) && negb (c =? 46) && negb (c =? 44) && negb (c =? 41) && (c <? 256).
Definition ident (v : bytes) : bool := nonempty v && forallb val_char v.

(* the documented meaning of one option *)
Definition sem_opt (tm : N) (c : config) (o : doc_opt) : config :=
  match o with
  | DHelp => c
  | DVerbose => set_verbose c true | DVeryVerbose => set_veryverbose c true | DColor => set_color c true
  | DSepProcess => set_sep c true | DReverse => set_rev c true | DListGroups => set_listg c true
  | DListNames => set_listn c true | DListLocations => set_listl c true | DRunIgnored => set_runign c true
  | DCrashOnFail => set_crash c true | DNoRethrow | DCI => set_rethrow c false
  | DRepeat None => set_repeat c 2                                   (* "twice if <#> is not specified" *)
  | DRepeat (Some ds) => set_repeat c (dec_value ds)
  | DShuffle None => set_seed (set_shuf c true) (if tm mod 4294967296 =? 0 then 1 else tm mod 4294967296)   (* time-derived, non-zero *)
  | DShuffle (Some ds) => set_seed (set_shuf c true) (dec_value ds)
  | DGroup k v => add_gf c (mkf v (fk_strict k) (fk_invert k))
  | DName k v => add_nf c (mkf v (fk_strict k) (fk_invert k))
  | DGroupDotName k g n => add_nf (add_gf c (mkf g (fk_strict k) (fk_invert k))) (mkf n (fk_strict k) (fk_invert k))
  | DTest _ g n => add_nf (add_gf c (mkf g true false)) (mkf n true false)
  | DOutput NJUnit => set_out c OJUnit
  | DOutput NTeamCity => set_out c OTeamCity
  | DOutput _ => set_out c OEclipse
  | DPackage v => set_pkg c v
  end.
Definition is_help (o : doc_opt) : bool := match o with DHelp => true | _ => false end.
(* -h anywhere: the help screen and no run; otherwise the options applied left to right *)
Fixpoint sem_from (tm : N) (c : config) (opts : list doc_opt) : result :=
  match opts with
  | [] => Accept c
  | o :: r => if is_help o then Reject true else sem_from tm (sem_opt tm c o) r
  end.
Definition sem (tm : N) (opts : list doc_opt) : result := sem_from tm default_config opts.

(* ---------------------------------------------------------------- which tests the help text says an option selects
   (gen/Gen_C12.v c12_help: the sentences of help() about the test-selection options, re-read from the source on every run) *)
Definition help_runs (exclude exact : bool) (sj : c12_subject) (gp np : bytes) (t : bytes * bytes) : bool :=
  let m (pat text : bytes) := if exact then bytes_eqb text pat else contains text pat in
  let described := match sj with
                   | SGroup => m gp (fst t)
                   | SName => m np (snd t)
                   | SBothAnd => m gp (fst t) && m np (snd t)
                   | SEitherOr => m gp (fst t) || m np (snd t)
                   end in
  if exclude then negb described else described.
Fixpoint lookup_help (tbl : list (bytes * (bool * (bool * c12_subject)))) (lit : bytes) : option (bool * (bool * c12_subject)) :=
  match tbl with [] => None | (l, d) :: r => if bytes_eqb lit l then Some d else lookup_help r lit end.
(* the help sentence an option falls under, with its <group> and <name> *)
Definition selection_opt (o : doc_opt) : option (bytes * bytes * bytes) :=
  match o with
  | DGroup k v => Some (pre_g k, v, [])
  | DName k v => Some (pre_n k, [], v)
  | DGroupDotName k g n => Some (pre_t k, g, n)
  | DTest _ g n => Some (B "TEST(", g, n)          (* one sentence for "[IGNORE_]TEST(<group>, <name>)" *)
  | _ => None
  end.
Definition doc_says (o : doc_opt) : option (bytes * bytes -> bool) :=
  match selection_opt o with
  | Some (lit, gp, np) =>
      match lookup_help c12_help lit with
      | Some (e, (x, sj)) => Some (help_runs e x sj gp np)
      | None => Some (fun _ => false)               (* no sentence in help(): nothing this option does is "what the help says" *)
      end
  | None => None
  end.

(* ---------------------------------------------------------------- spec: what the property demands of an observation *)
Definition out_eqb (a b : out_kind) : bool :=
  match a, b with OEclipse, OEclipse | OJUnit, OJUnit | OTeamCity, OTeamCity => true | _, _ => false end.
Definition filter_eqb (a b : filter) : bool :=
  bytes_eqb (f_pat a) (f_pat b) && Bool.eqb (f_strict a) (f_strict b) && Bool.eqb (f_invert a) (f_invert b).
Fixpoint list_eqb {A} (e : A -> A -> bool) (a b : list A) : bool :=
  match a, b with
  | [], [] => true
  | x :: a', y :: b' => e x y && list_eqb e a' b'
  | _, _ => false
  end.
Definition config_eqb (a b : config) : bool :=
  Bool.eqb (c_verbose a) (c_verbose b) && Bool.eqb (c_veryverbose a) (c_veryverbose b) && Bool.eqb (c_color a) (c_color b) &&
  Bool.eqb (c_sep a) (c_sep b) && Bool.eqb (c_listg a) (c_listg b) && Bool.eqb (c_listn a) (c_listn b) &&
  Bool.eqb (c_listl a) (c_listl b) && Bool.eqb (c_runign a) (c_runign b) && Bool.eqb (c_rev a) (c_rev b) &&
  Bool.eqb (c_crash a) (c_crash b) && Bool.eqb (c_rethrow a) (c_rethrow b) && Bool.eqb (c_shuf a) (c_shuf b) &&
  (c_seed a =? c_seed b) && (c_repeat a =? c_repeat b) && out_eqb (c_out a) (c_out b) && bytes_eqb (c_pkg a) (c_pkg b) &&
  list_eqb filter_eqb (c_gf a) (c_gf b) && list_eqb filter_eqb (c_nf a) (c_nf b).
Definition printed_eqb (a b : printed) : bool :=
  match a, b with PNothing, PNothing | PUsage, PUsage | PHelp, PHelp | POther, POther => true | _, _ => false end.
Definition obs_eqb (a b : obs) : bool :=
  match a, b with
  | ORejected h r p, ORejected h' r' p' => Bool.eqb h h' && (r =? r') && printed_eqb p p'
  | OAccepted c s, OAccepted c' s' => config_eqb c c' && list_eqb Bool.eqb s s'
  | _, _ => false
  end.

(* every vector: either rejected -- help (after -h) or usage printed and nothing else, no test run -- or a configuration whose
   filters select, among the probe tests, exactly what the help text says of each filter (documented meaning of one filter:
   doc_filter_accepts; of the lists: a test runs when its group passes some group filter and its name some name filter,
   an empty list passes everything) *)
Definition doc_filter_accepts (f : filter) (text : bytes) : bool :=
  match f_strict f, f_invert f with
  | false, false => contains text (f_pat f)                   (* "contains <x>" *)
  | true, false => bytes_eqb text (f_pat f)                   (* "exactly matches <x>" *)
  | false, true => negb (contains text (f_pat f))             (* "exclude tests whose ... contains <x>" *)
  | true, true => negb (bytes_eqb text (f_pat f))             (* "exclude tests whose ... exactly matches <x>" *)
  end.
Definition doc_list_accepts (fs : list filter) (text : bytes) : bool :=
  match fs with [] => true | _ => existsb (fun f => doc_filter_accepts f text) fs end.
Definition doc_selected (c : config) (t : bytes * bytes) : bool :=
  doc_list_accepts (c_gf c) (fst t) && doc_list_accepts (c_nf c) (snd t).
(* help(): the randomization seed must be greater than 0 -- no configuration shuffles with seed 0 *)
Definition seed_ok (c : config) : bool := negb (c_shuf c) || negb (c_seed c =? 0).
Definition well_formed (o : obs) : bool :=
  match o with
  | ORejected h r p => (r =? 0) && printed_eqb p (if h then PHelp else PUsage)
  | OAccepted c sel => list_eqb Bool.eqb sel (map (doc_selected c) probes) && seed_ok c
  | OUnknown => false
  end.
Definition expected (tm : N) (opts : list doc_opt) : obs :=
  match sem tm opts with
  | Reject h => ORejected h 0 PHelp
  | Accept c => OAccepted c (map (doc_selected c) probes)
  | Unknown => OUnknown
  end.
(* a scenario carries, next to the vector, the list of documented options it claims to spell; when the claim is true
   (the vector is one of the spellings, values of the claimed shapes) the observation must be the documented configuration,
   and for a vector that is ONE test-selection option the selected probe tests must be those its help sentence names *)
Definition spells (argv : list bytes) (opts : list doc_opt) : bool :=
  forallb opt_ok opts && existsb (list_eqb bytes_eqb (tl argv)) (render opts) && negb (Nat.eqb (length argv) 0).
Definition single_says (opts : list doc_opt) (o : obs) : bool :=
  match opts with
  | [d] => match doc_says d with
           | Some f => match o with OAccepted _ sel => list_eqb Bool.eqb sel (map f probes) | _ => false end
           | None => true
           end
  | _ => true
  end.
Definition spec (tm : N) (argv : list bytes) (opts : list doc_opt) (o : obs) : bool :=
  well_formed o && (if spells argv opts then obs_eqb o (expected tm opts) && single_says opts o else true).

(* ---------------------------------------------------------------- valid scenarios *)
(* C strings shorter than 4 GiB; AtoI is only ever applied to at most 9 digits (more: signed overflow, excluded as for atoi) *)
Definition arg_ok (a : bytes) : bool :=
  forallb (fun c => negb (c =? 0) && (c <? 256)) a &&
  Nat.leb (digit_run (atoi_digits a)) 9 && Nat.leb (digit_run (atoi_digits (skipn 2 a))) 9 &&
  (N.of_nat (length a) <? 4294967296).
Definition valid (tm : N) (argv : list bytes) : bool := forallb arg_ok argv && (tm <? 18446744073709551616).
