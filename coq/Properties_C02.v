(* C02 -- every selected test runs exactly once per repetition; selection follows the filters; reverse/shuffle only permute.
   Only statements; every proof is `exact <lemma>` into C02_Proofs.v. *)
From Coq Require Import NArith Arith Bool List Permutation.
From CppUVerif Require Import lib.Str C02_Model C02_Proofs.
Import ListNotations.

Theorem C02_registry_is_reverse_registration : forall ts, registry_of ts = rev ts.
Proof. exact registry_of_rev. Qed.
Print Assumptions C02_registry_is_reverse_registration.
