(* C02 -- every selected test runs exactly once per repetition; selection follows the filters; reversing and shuffling
   only permute the order.  Only statements; every proof is `exact <lemma>` into C02_Proofs.v. *)
From Coq Require Import NArith Arith Bool List Permutation.
From CppUVerif Require Import lib.Str lib.CSem gen.Gen_LeafC02 C02_Model C02_Proofs.
From CppUVerif Require C02_LeafTie.
Import ListNotations.
Local Open Scope N_scope.

(* the run of every valid scenario satisfies the property's oracle (which is evaluated on the implementation's observation too) *)
Theorem C02_run_meets_spec : forall s, valid s = true -> spec s (run s) = true.
Proof. exact run_meets_spec. Qed.
Print Assumptions C02_run_meets_spec.

(* runAllTests over ANY list of tests (any order, any filters): tests = length, tests = run + ignored + filtered, and what each counts *)
Theorem C02_counts_identity : forall gf nf ri l,
  let k := snd (run_all_tests gf nf ri l) in
  c_tests k = N.of_nat (length l) /\ c_tests k = c_run k + c_ign k + c_filt k
  /\ c_run k = count_if (m_exec gf nf ri) l /\ c_ign k = count_if (m_cign gf nf ri) l
  /\ c_filt k = count_if (fun t => negb (should_run gf nf t)) l.
Proof. exact counts_identity. Qed.
Print Assumptions C02_counts_identity.

(* every repetition of every valid scenario: one observation per repetition, counters identity, order = permutation of the registered tests *)
Theorem C02_counts_every_repetition : forall s, valid s = true ->
  length (o_reps (run s)) = s_repeat s /\
  forall r, In r (o_reps (run s)) ->
    c_tests (r_cnt r) = N.of_nat (length (s_tests s)) /\ c_tests (r_cnt r) = c_run (r_cnt r) + c_ign (r_cnt r) + c_filt (r_cnt r)
    /\ Permutation (r_order r) (seq 0 (length (s_tests s))).
Proof. exact run_counts_identity. Qed.
Print Assumptions C02_counts_every_repetition.

(* for any order in which every test occurs once: a selected test is started exactly once, its body runs exactly once unless it is
   an ignored test counted as ignored; unselected tests and foreign ids never appear *)
Theorem C02_exactly_once : forall gf nf ri l, NoDup (map t_id l) ->
  let w := fst (run_all_tests gf nf ri l) in
  (forall t, In t l -> occurrences (ETestStarted (t_id t)) w = b2n (should_run gf nf t)
                       /\ occurrences (EBody (t_id t)) w = b2n (m_exec gf nf ri t))
  /\ (forall i, ~ In i (map t_id l) -> occurrences (ETestStarted i) w = 0 /\ occurrences (EBody i) w = 0).
Proof. exact exactly_once. Qed.
Print Assumptions C02_exactly_once.

(* selection, declaratively: a test runs iff its group is accepted by some group filter (when any are given) and its name by some
   name filter (when any are given); a filter accepts by substring (exists pre post), by equality, or by the negation of either *)
Theorem C02_selection_iff : forall gf nf t,
  forallb filter_ok gf = true -> forallb filter_ok nf = true -> test_ok t = true ->
  (should_run gf nf t = true <-> Accepted gf (t_group t) /\ Accepted nf (t_name t)).
Proof. exact selection_iff. Qed.
Print Assumptions C02_selection_iff.

(* the oracle `spec` selects declaratively, for every scenario *)
Theorem C02_oracle_selection_declarative : forall s t,
  selected s t = true <-> Accepted (s_gf s) (t_group t) /\ Accepted (s_nf s) (t_name t).
Proof. exact selected_declarative. Qed.
Print Assumptions C02_oracle_selection_declarative.

(* tests are started in the order of the list (whatever reverse/shuffle made of it) *)
Theorem C02_run_in_list_order : forall gf nf ri l,
  started_ids (fst (run_all_tests gf nf ri l)) = map t_id (filter (should_run gf nf) l).
Proof. exact run_in_list_order. Qed.
Print Assumptions C02_run_in_list_order.

(* the pointer array built from the list holds exactly the list *)
Theorem C02_pointer_array_id : forall (A : Type) (a : list A), pointer_array a = a.
Proof. exact @pointer_array_id. Qed.
Print Assumptions C02_pointer_array_id.

(* the code's matcher (C13 StrStr / StrCmp on NUL-terminated buffers) is the textbook one on strings without NUL *)
Theorem C02_filter_match_textbook : forall f x, filter_ok f = true -> nonul x = true -> filter_match f x = accepts f x.
Proof. exact filter_match_accepts. Qed.
Print Assumptions C02_filter_match_textbook.

(* Fisher-Yates as written: for EVERY rand stream, seed and list the array is never indexed out of range (result is Some) and the
   result is a permutation: same length, nothing duplicated, nothing lost; count-1 values are drawn *)
Theorem C02_shuffle_perm : forall (A : Type) seed rs (a : list A),
  exists l seeds drawn, shuffle seed rs a = Some (l, seeds, drawn)
    /\ Permutation l a /\ length l = length a /\ (NoDup a -> NoDup l) /\ length drawn = (length a - 1)%nat.
Proof. exact @shuffle_perm. Qed.
Print Assumptions C02_shuffle_perm.

Theorem C02_swap_perm : forall (A : Type) (a : list A) i1 i2 a', swap a i1 i2 = Some a' -> Permutation a' a /\ length a' = length a.
Proof. exact @swap_perm. Qed.
Print Assumptions C02_swap_perm.

Theorem C02_reverse_rev : forall (A : Type) (a : list A), reverse a = Some (rev a).
Proof. exact @reverse_ok. Qed.
Print Assumptions C02_reverse_rev.

Theorem C02_relink_id : forall (A : Type) (a : list A), relink a = Some a.
Proof. exact @relink_ok. Qed.
Print Assumptions C02_relink_id.

(* group start/end notifications are balanced for ANY order of tests (so also after shuffling), and every test that is started
   lies inside a segment opened with a test of its own group (grp: the group string of an id) *)
Theorem C02_groups_balanced : forall gf nf ri l n grp, (forall t, In t l -> test_fits n grp t) ->
  exists mid, fst (run_all_tests gf nf ri l) = ETestsStarted :: mid ++ [ETestsEnded] /\ Groups grp mid.
Proof. exact groups_balanced_grammar. Qed.
Print Assumptions C02_groups_balanced.

(* what the oracle's automaton and permutation test mean *)
Theorem C02_word_shape_sound : forall grp n w,
  word_shape n grp w = true -> exists mid, w = ETestsStarted :: mid ++ [ETestsEnded] /\ Groups grp mid.
Proof. exact word_shape_sound. Qed.
Print Assumptions C02_word_shape_sound.

Theorem C02_is_perm_sound : forall n ord, is_perm_ids n ord = true -> Permutation ord (seq 0 n).
Proof. exact is_perm_ids_sound. Qed.
Print Assumptions C02_is_perm_sound.

(* the filter semantics of the oracle IS the source: TestFilter::match as regenerated by tools/cxx2coq.py from clang's AST of
   TestFilter.cpp on every run (gen/Gen_LeafC02.v), with == / contains read as the textbook functions of lib/Str.v *)
Theorem C02_filter_match_is_the_source : forall f x,
  leaf_filter_match x (b2z (f_strict f)) (f_pat f) (b2z (f_invert f)) = b2z (accepts f x).
Proof. exact C02_LeafTie.C02_filter_match_is_the_source. Qed.
Print Assumptions C02_filter_match_is_the_source.
