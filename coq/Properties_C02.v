(* C02 -- every selected test runs exactly once per repetition; selection follows the filters; reversing and shuffling
   only permute the order.  Only statements; every proof is `exact <lemma>` into C02_Proofs.v. *)
From Coq Require Import NArith Arith Bool List Permutation.
From CppUVerif Require Import lib.Str lib.CSem gen.Gen_LeafC02 C02_Model C02_Proofs C02_Sessions.
From CppUVerif Require C02_LeafTie.
Import ListNotations.
Local Open Scope N_scope.

(* the run of every valid scenario satisfies the property's oracle (which is evaluated on the implementation's observation too) *)
Theorem C02_run_meets_spec : forall s, valid s = true -> spec s (run s) = true.
Proof. exact run_meets_spec. Qed.
Print Assumptions C02_run_meets_spec.

(* runAllTests over ANY list of tests (any order, any filters): tests = length, tests = run + ignored + filtered, and what each counts *)
Theorem C02_counts_identity : forall gf nf ri l,
  let k := snd (run_all_tests gf nf ri l) in
  c_tests k = N.of_nat (length l) /\ c_tests k = c_run k + c_ign k + c_filt k
  /\ c_run k = count_if (m_exec gf nf ri) l /\ c_ign k = count_if (m_cign gf nf ri) l
  /\ c_filt k = count_if (fun t => negb (should_run gf nf t)) l.
Proof. exact counts_identity. Qed.
Print Assumptions C02_counts_identity.

(* every run of every valid session: as many repetitions as the run asks for (none when it only lists); in each repetition
   tests = number of registered tests = run + ignored + filtered, the order is a permutation of the registered tests, the filtered-out
   counter counts the tests the run's OWN filters refuse and a test is started exactly once iff the run's OWN filters select it *)
Theorem C02_counts_every_repetition : forall s, valid s = true ->
  Forall2 (fun c reps =>
             length reps = (if u_list c =? 0 then u_repeat c else 0%nat) /\
             forall r, In r reps ->
               c_tests (r_cnt r) = N.of_nat (length (s_tests s))
               /\ c_tests (r_cnt r) = c_run (r_cnt r) + c_ign (r_cnt r) + c_filt (r_cnt r)
               /\ Permutation (r_order r) (seq 0 (length (s_tests s)))
               /\ c_filt (r_cnt r) = count_if (fun t => negb (own_selected c t)) (s_tests s)
               /\ forall t, In t (s_tests s) -> occurrences (ETestStarted (t_id t)) (r_word r) = b2n (own_selected c t))
          (runs_of s) (o_runs (run s)).
Proof. exact session_counts. Qed.
Print Assumptions C02_counts_every_repetition.

(* for any order in which every test occurs once: a selected test is started exactly once, its body runs exactly once unless it is
   an ignored test counted as ignored; unselected tests and foreign ids never appear *)
Theorem C02_exactly_once : forall gf nf ri l, NoDup (map t_id l) ->
  let w := fst (run_all_tests gf nf ri l) in
  (forall t, In t l -> occurrences (ETestStarted (t_id t)) w = b2n (should_run gf nf t)
                       /\ occurrences (EBody (t_id t)) w = b2n (m_exec gf nf ri t))
  /\ (forall i, ~ In i (map t_id l) -> occurrences (ETestStarted i) w = 0 /\ occurrences (EBody i) w = 0).
Proof. exact exactly_once. Qed.
Print Assumptions C02_exactly_once.

(* selection, declaratively: a test runs iff its group is accepted by some group filter (when any are given) and its name by some
   name filter (when any are given); a filter accepts by substring (exists pre post), by equality, or by the negation of either *)
Theorem C02_selection_iff : forall gf nf t,
  forallb filter_ok gf = true -> forallb filter_ok nf = true -> test_ok t = true ->
  (should_run gf nf t = true <-> Accepted gf (t_group t) /\ Accepted nf (t_name t)).
Proof. exact selection_iff. Qed.
Print Assumptions C02_selection_iff.

(* the oracle `spec` selects declaratively, for every scenario *)
Theorem C02_oracle_selection_declarative : forall s t,
  selected s t = true <-> Accepted (s_gf s) (t_group t) /\ Accepted (s_nf s) (t_name t).
Proof. exact selected_declarative. Qed.
Print Assumptions C02_oracle_selection_declarative.

(* tests are started in the order of the list (whatever reverse/shuffle made of it) *)
Theorem C02_run_in_list_order : forall gf nf ri l,
  started_ids (fst (run_all_tests gf nf ri l)) = map t_id (filter (should_run gf nf) l).
Proof. exact run_in_list_order. Qed.
Print Assumptions C02_run_in_list_order.

(* the pointer array built from the list holds exactly the list *)
Theorem C02_pointer_array_id : forall (A : Type) (a : list A), pointer_array a = a.
Proof. exact @pointer_array_id. Qed.
Print Assumptions C02_pointer_array_id.

(* the code's matcher (C13 StrStr / StrCmp on NUL-terminated buffers) is the textbook one on strings without NUL *)
Theorem C02_filter_match_textbook : forall f x, filter_ok f = true -> nonul x = true -> filter_match f x = accepts f x.
Proof. exact filter_match_accepts. Qed.
Print Assumptions C02_filter_match_textbook.

(* Fisher-Yates as written: for EVERY rand stream, seed and list the array is never indexed out of range (result is Some) and the
   result is a permutation: same length, nothing duplicated, nothing lost; count-1 values are drawn *)
Theorem C02_shuffle_perm : forall (A : Type) seed rs (a : list A),
  exists l seeds drawn, shuffle seed rs a = Some (l, seeds, drawn)
    /\ Permutation l a /\ length l = length a /\ (NoDup a -> NoDup l) /\ length drawn = (length a - 1)%nat.
Proof. exact @shuffle_perm. Qed.
Print Assumptions C02_shuffle_perm.

Theorem C02_swap_perm : forall (A : Type) (a : list A) i1 i2 a', swap a i1 i2 = Some a' -> Permutation a' a /\ length a' = length a.
Proof. exact @swap_perm. Qed.
Print Assumptions C02_swap_perm.

Theorem C02_reverse_rev : forall (A : Type) (a : list A), reverse a = Some (rev a).
Proof. exact @reverse_ok. Qed.
Print Assumptions C02_reverse_rev.

Theorem C02_relink_id : forall (A : Type) (a : list A), relink a = Some a.
Proof. exact @relink_ok. Qed.
Print Assumptions C02_relink_id.

(* group start/end notifications are balanced for ANY order of tests (so also after shuffling), and every test that is started
   lies inside a segment opened with a test of its own group (grp: the group string of an id) *)
Theorem C02_groups_balanced : forall gf nf ri l n grp, (forall t, In t l -> test_fits n grp t) ->
  exists mid, fst (run_all_tests gf nf ri l) = ETestsStarted :: mid ++ [ETestsEnded] /\ Groups grp mid.
Proof. exact groups_balanced_grammar. Qed.
Print Assumptions C02_groups_balanced.

(* what the oracle's automaton and permutation test mean *)
Theorem C02_word_shape_sound : forall grp n w,
  word_shape n grp w = true -> exists mid, w = ETestsStarted :: mid ++ [ETestsEnded] /\ Groups grp mid.
Proof. exact word_shape_sound. Qed.
Print Assumptions C02_word_shape_sound.

Theorem C02_is_perm_sound : forall n ord, is_perm_ids n ord = true -> Permutation ord (seq 0 n).
Proof. exact is_perm_ids_sound. Qed.
Print Assumptions C02_is_perm_sound.

(* the filter semantics of the oracle IS the source: TestFilter::match as regenerated by tools/cxx2coq.py from clang's AST of
   TestFilter.cpp on every run (gen/Gen_LeafC02.v), with == / contains read as the textbook functions of lib/Str.v *)
Theorem C02_filter_match_is_the_source : forall f x,
  leaf_filter_match x (b2z (f_strict f)) (f_pat f) (b2z (f_invert f)) = b2z (accepts f x).
Proof. exact C02_LeafTie.C02_filter_match_is_the_source. Qed.
Print Assumptions C02_filter_match_is_the_source.

(* --------------------------------------------------------------------------------------------------------------
   The list and array code of the model IS the source: UtestShell::getNext / addTest / countTests, UtestShellPointerArray::swap / get / getFirstTest / relinkTestsInOrder / reverse / shuffle and TestRegistry::addTest / getFirstTest / getTestWithNext / countTests as tools/cxx2heap.py regenerates them from Utest.cpp and TestRegistry.cpp on every run (gen/Gen_HeapC02.v; shells are heap blocks linked by next_, the array object holds a pointer to its cell block; PlatformSpecificRand() takes the next value of the ghost stream), run on a heap representing a registry / array of DISTINCT shells: reverse leaves the shells linked in the order of the model's reverse (= rev), shuffle in the order of the model's shuffle on the same random stream (a permutation; exactly length-1 values consumed), relink links them in array order, countTests is the length, addTest the head insertion (registering a shell that is already in the list makes the source's list cyclic -- ex_twice in C02_HeapTie.v -- hence the freshness hypothesis)
   -------------------------------------------------------------------------------------------------------------- *)
From CppUVerif Require Import lib.CSem lib.CMem lib.CHeap gen.Gen_HeapC02 C02_HeapTie.
Local Open Scope Z_scope.
Theorem C02_layout_is_the_source :
  off_UtestShell_next_ = Zpos 4 /\
  cells_UtestShell = Zpos 7 /\
  off_UtestShellPointerArray_arrayOfTests_ = Z0 /\
  off_UtestShellPointerArray_count_ = Zpos 1 /\
  cells_UtestShellPointerArray = Zpos 2 /\ off_TestRegistry_tests_ = Z0.
Proof. exact layout_is_the_source. Qed.
Print Assumptions C02_layout_is_the_source.

Theorem C02_src_shell_countTests_spec :
  forall (bs : list nat) (fuel : nat) (h : heap) (rs : list Z) (p : hptr),
  tchain h p bs ->
  bs <> [] ->
  (length bs <= fuel)%nat ->
  BinInt.Z.lt (BinInt.Z.of_nat (length bs)) (BinInt.Z.pow (Zpos 2) (Zpos 64)) ->
  src_shell_countTests fuel h rs p = FOk (BinInt.Z.of_nat (length bs), h, rs).
Proof. exact src_shell_countTests_spec. Qed.
Print Assumptions C02_src_shell_countTests_spec.

Theorem C02_src_array_swap_spec :
  forall (fuel : nat) (h : heap) (rs : list Z) (ba bc : nat) (a a' : list nat) (i1 i2 : nat),
  array_at h ba bc a ->
  swap a i1 i2 = Some a' ->
  exists h' : heap,
  src_array_swap fuel h rs (HPtr ba Z0) (BinInt.Z.of_nat i1) (BinInt.Z.of_nat i2) = FOk (tt, h', rs) /\
  array_at h' ba bc a' /\ length h' = length h /\ (forall b : nat, b <> bc -> hblock h' b = hblock h b).
Proof. exact src_array_swap_spec. Qed.
Print Assumptions C02_src_array_swap_spec.

Theorem C02_src_array_swap_oob :
  forall (fuel : nat) (h : heap) (rs : list Z) (ba bc : nat) (a : list nat) (i1 i2 : nat),
  array_at h ba bc a ->
  swap a i1 i2 = None -> src_array_swap fuel h rs (HPtr ba Z0) (BinInt.Z.of_nat i1) (BinInt.Z.of_nat i2) = FOob.
Proof. exact src_array_swap_oob. Qed.
Print Assumptions C02_src_array_swap_oob.

Theorem C02_src_array_get_spec :
  forall (fuel : nat) (h : heap) (rs : list Z) (ba bc : nat) (a : list nat) (k : nat),
  array_at h ba bc a ->
  src_array_get fuel h rs (HPtr ba Z0) (BinInt.Z.of_nat k) =
  FOk (match nth_error a k with
  | Some b => HPtr b Z0
  | None => HNull
  end, h, rs).
Proof. exact src_array_get_spec. Qed.
Print Assumptions C02_src_array_get_spec.

Theorem C02_src_array_relinkTestsInOrder_spec :
  forall (fuel : nat) (h : heap) (rs : list Z) (ba bc : nat) (a : list nat),
  array_at h ba bc a ->
  BinInt.Z.lt (BinInt.Z.of_nat (length a)) (BinInt.Z.pow (Zpos 2) (Zpos 64)) ->
  NoDup a ->
  Forall (shell_in h) a ->
  ~ In ba a ->
  ~ In bc a ->
  (length a < fuel)%nat ->
  exists h' : heap,
  src_array_relinkTestsInOrder fuel h rs (HPtr ba Z0) = FOk (tt, h', rs) /\
  relink a = Some a /\ tlist h' (hd_ptr a) a /\ array_at h' ba bc a /\ relinked h a h'.
Proof. exact src_array_relinkTestsInOrder_spec. Qed.
Print Assumptions C02_src_array_relinkTestsInOrder_spec.

Theorem C02_src_array_reverse_spec :
  forall (fuel : nat) (h : heap) (rs : list Z) (ba bc : nat) (a : list nat),
  array_at h ba bc a ->
  BinInt.Z.lt (BinInt.Z.of_nat (length a)) (BinInt.Z.pow (Zpos 2) (Zpos 64)) ->
  NoDup a ->
  Forall (shell_in h) a ->
  ~ In ba a ->
  ~ In bc a ->
  (length a < fuel)%nat ->
  exists h' : heap,
  src_array_reverse fuel h rs (HPtr ba Z0) = FOk (tt, h', rs) /\
  reverse a = Some (rev a) /\
  array_at h' ba bc (rev a) /\ tlist h' (hd_ptr (rev a)) (rev a) /\ permuted h bc (rev a) h'.
Proof. exact src_array_reverse_spec. Qed.
Print Assumptions C02_src_array_reverse_spec.

Theorem C02_src_array_shuffle_spec :
  forall (fuel : nat) (h : heap) (rs : list Z) (ba bc : nat) (a : list nat) (seed : N) (seedZ : Z),
  array_at h ba bc a ->
  BinInt.Z.lt (BinInt.Z.of_nat (length a)) (BinInt.Z.pow (Zpos 2) (Zpos 64)) ->
  NoDup a ->
  Forall (shell_in h) a ->
  ~ In ba a ->
  ~ In bc a ->
  (length a - 1 <= length rs)%nat ->
  Forall (fun r : Z => BinInt.Z.le Z0 r /\ BinInt.Z.lt r (BinInt.Z.pow (Zpos 2) (Zpos 31)))
  (firstn (length a - 1) rs) ->
  (length a < fuel)%nat ->
  exists (a' : list nat) (h' : heap),
  shuffle seed (map BinInt.Z.to_N rs) a =
  Some
  (a', match a with
  | [] => []
  | _ :: _ => [seed mod UINT_MOD]
  end, map BinInt.Z.to_N (firstn (length a - 1) rs)) /\
  Permutation a' a /\
  src_array_shuffle fuel h rs (HPtr ba Z0) seedZ = FOk (tt, h', skipn (length a - 1) rs) /\
  array_at h' ba bc a' /\ tlist h' (hd_ptr a') a' /\ permuted h bc a' h'.
Proof. exact src_array_shuffle_spec. Qed.
Print Assumptions C02_src_array_shuffle_spec.

Theorem C02_src_registry_addTest_spec :
  forall (fuel : nat) (h : heap) (rs : list Z) (br : nat) (bs : list nat) (b : nat),
  registry_at h br bs ->
  shell_in h b ->
  ~ In b bs ->
  b <> br ->
  exists h' : heap,
  src_registry_addTest fuel h rs (HPtr br Z0) (HPtr b Z0) = FOk (tt, h', rs) /\
  registry_at h' br (b :: bs) /\
  hblock h' b = upd (hblock h b) 4 (VPtr (hd_ptr bs)) /\
  hblock h' br = upd (hblock h br) 0 (VPtr (HPtr b Z0)) /\
  length h' = length h /\ (forall b' : nat, b' <> b -> b' <> br -> hblock h' b' = hblock h b').
Proof. exact src_registry_addTest_spec. Qed.
Print Assumptions C02_src_registry_addTest_spec.

Theorem C02_src_registry_getTestWithNext_spec :
  forall (fuel : nat) (h : heap) (rs : list Z) (br : nat) (bs : list nat) (q : hptr),
  registry_at h br bs ->
  (length bs < fuel)%nat -> src_registry_getTestWithNext fuel h rs (HPtr br Z0) q = FOk (with_next q bs, h, rs).
Proof. exact src_registry_getTestWithNext_spec. Qed.
Print Assumptions C02_src_registry_getTestWithNext_spec.

Theorem C02_src_registry_countTests_spec :
  forall (fuel : nat) (h : heap) (rs : list Z) (br : nat) (bs : list nat),
  registry_at h br bs ->
  (length bs <= fuel)%nat ->
  BinInt.Z.lt (BinInt.Z.of_nat (length bs)) (BinInt.Z.pow (Zpos 2) (Zpos 64)) ->
  src_registry_countTests fuel h rs (HPtr br Z0) = FOk (BinInt.Z.of_nat (length bs), h, rs).
Proof. exact src_registry_countTests_spec. Qed.
Print Assumptions C02_src_registry_countTests_spec.

(* --------------------------------------------------------------------------------------------------------------
   THE TRANSLATED SOURCE of TestRegistry::runAllTests / testShouldRun / endOfGroup (gen/Gen_HeapC02R.v, regenerated by tools/cxx2heap.py on every run) performs the walk of the model's run_loop: every registered test considered exactly once, in list order, counters exact, group events alternating
   -------------------------------------------------------------------------------------------------------------- *)
From CppUVerif Require Import lib.CSem lib.CMem lib.CHeap gen.Gen_HeapC02R C02_HeapTie C02_RunTie.
Local Open Scope Z_scope.
Theorem C02_layout_agrees_with_HeapC02 :
  off_UtestShell_next_ = Gen_HeapC02.off_UtestShell_next_ /\
  cells_UtestShell = Gen_HeapC02.cells_UtestShell /\
  off_TestRegistry_tests_ = Gen_HeapC02.off_TestRegistry_tests_.
Proof. exact layout_agrees_with_HeapC02. Qed.
Print Assumptions C02_layout_agrees_with_HeapC02.

Theorem C02_src_registry_testShouldRun_spec :
  forall (fuel0 : nat) (h : heap) (evs : list rev) (shs : list Z) (this test : hptr) (sr : bool),
  src_registry_testShouldRun fuel0 h evs (b2z sr :: shs) this test =
  FOk (b2z sr, h, if sr then evs else evs ++ [RFilteredOut], shs).
Proof. exact src_registry_testShouldRun_spec. Qed.
Print Assumptions C02_src_registry_testShouldRun_spec.

Theorem C02_src_registry_endOfGroup_spec :
  forall (gcode : list N -> Z) (fuel0 : nat) (h : heap) (evs : list rev) (shs : list Z)
  (this : hptr) (b : nat) (bs : list nat) (t : test) (ts : list test),
  tchain h (HPtr b Z0) (b :: bs) ->
  Forall2 (grp_at gcode h) (b :: bs) (t :: ts) ->
  gcode_ok gcode (map t_group (t :: ts)) ->
  src_registry_endOfGroup fuel0 h evs shs this (HPtr b Z0) = FOk (b2z (end_of_group t ts), h, evs, shs).
Proof. exact src_registry_endOfGroup_spec. Qed.
Print Assumptions C02_src_registry_endOfGroup_spec.

Theorem C02_src_registry_runAllTests_loop_spec :
  forall (gf nf : list tfilter) (gcode : list N -> Z) (rb : nat) (plug : Z) (sep ri : bool)
  (fuel0 : nat) (ts : list test) (bs : list nat) (h : heap) (fuel : nat) (evs : list rev)
  (rest : list Z) (gs : bool) (p : hptr),
  reg_cells h rb plug sep ri ->
  tchain h p bs ->
  Forall (shell7 h) bs ->
  Forall2 (grp_at gcode h) bs ts ->
  gcode_ok gcode (map t_group ts) ->
  (length ts < fuel)%nat ->
  exists g : Z,
  src_registry_runAllTests_loop1 fuel0 fuel (HPtr rb Z0) h evs
  (map (fun t : test => b2z (should_run gf nf t)) ts ++ rest) (b2z gs) p =
  Go (mark_all sep h bs, evs ++ rev_loop gf nf ri plug bs ts gs, rest, g, HNull).
Proof. exact src_registry_runAllTests_loop_spec. Qed.
Print Assumptions C02_src_registry_runAllTests_loop_spec.

Theorem C02_src_registry_runAllTests_spec :
  forall (gf nf : list tfilter) (gcode : list N -> Z) (fuel : nat) (h : heap) (rb : nat)
  (bs : list nat) (ts : list test) (plug : Z) (sep ri : bool) (rep : Z) (evs0 : list rev)
  (rest : list Z),
  reg_at h rb bs ts gcode plug sep ri rep ->
  gcode_ok gcode (map t_group ts) ->
  (length ts < fuel)%nat ->
  BinInt.Z.le (BinInt.Z.opp (BinInt.Z.pow (Zpos 2) (Zpos 31))) rep ->
  BinInt.Z.lt (BinInt.Z.add rep (Zpos 1)) (BinInt.Z.pow (Zpos 2) (Zpos 31)) ->
  let h' := after_run sep h rb bs rep in
  let E := rev_all gf nf ri plug bs ts in
  src_registry_runAllTests fuel h evs0 (map (fun t : test => b2z (should_run gf nf t)) ts ++ rest) (HPtr rb Z0) =
  FOk (tt, h', evs0 ++ E, rest) /\
  abs_run ri (combine bs ts) E cnt0 = Some (run_all_tests gf nf ri ts) /\
  reg_at h' rb bs ts gcode plug sep ri (BinInt.Z.add rep (Zpos 1)) /\
  length h' = length h /\
  hblock h' rb = upd (hblock h rb) 5 (VInt (BinInt.Z.add rep (Zpos 1))) /\
  (forall b : nat, In b bs -> hblock h' b = (if sep then upd (hblock h b) 5 (VInt (Zpos 1)) else hblock h b)) /\
  (forall b : nat, b <> rb -> ~ In b bs -> hblock h' b = hblock h b).
Proof. exact src_registry_runAllTests_spec. Qed.
Print Assumptions C02_src_registry_runAllTests_spec.

Theorem C02_abs_rev_all :
  forall (gf nf : list tfilter) (ri : bool) (plug : Z) (bs : list nat) (ts : list test),
  NoDup bs ->
  length bs = length ts ->
  abs_run ri (combine bs ts) (rev_all gf nf ri plug bs ts) cnt0 = Some (run_all_tests gf nf ri ts).
Proof. exact abs_rev_all. Qed.
Print Assumptions C02_abs_rev_all.

Theorem C02_abs_rev_all_m :
  forall (gf nf : list tfilter) (ri : bool) (plug : Z) (bs : list nat) (ts : list test),
  NoDup bs ->
  length bs = length ts ->
  exists ms' : list hptr,
  abs_run_m (combine bs ts) (rev_all gf nf ri plug bs ts) (cnt0, []) =
  Some (fst (run_all_tests gf nf ri ts), (snd (run_all_tests gf nf ri ts), ms')).
Proof. exact abs_rev_all_m. Qed.
Print Assumptions C02_abs_rev_all_m.

Theorem C02_src_runAllTests_meets_C02 :
  forall (s : scenario) (reg : list test) (gcode : list N -> Z) (fuel : nat) (h : heap)
  (rb : nat) (bs : list nat) (plug : Z) (sep : bool) (rep : Z) (evs0 : list rev) (rest : list Z)
  (seeds drawn : list N),
  valid1 s = true ->
  Permutation reg (s_tests s) ->
  (s_shuffle s = false -> map t_id reg = expected_order s) ->
  reg_at h rb bs reg gcode plug sep (s_ri s) rep ->
  gcode_ok gcode (map t_group reg) ->
  (length reg < fuel)%nat ->
  BinInt.Z.le (BinInt.Z.opp (BinInt.Z.pow (Zpos 2) (Zpos 31))) rep ->
  BinInt.Z.lt (BinInt.Z.add rep (Zpos 1)) (BinInt.Z.pow (Zpos 2) (Zpos 31)) ->
  exists (E : list rev) (w : list event) (k : counters),
  src_registry_runAllTests fuel h evs0
  (map (fun t : test => b2z (should_run (s_gf s) (s_nf s) t)) reg ++ rest) (HPtr rb Z0) =
  FOk (tt, after_run sep h rb bs rep, evs0 ++ E, rest) /\
  abs_run (s_ri s) (combine bs reg) E cnt0 = Some (w, k) /\
  rep_ok s {| r_order := map t_id reg; r_srand := seeds; r_rands := drawn; r_word := w; r_cnt := k |} = true.
Proof. exact src_runAllTests_meets_C02. Qed.
Print Assumptions C02_src_runAllTests_meets_C02.

Theorem C02_run_ones_in_order :
  forall (gf nf : list tfilter) (ri : bool) (plug : Z) (bs : list nat) (ts : list test),
  filter is_run (rev_all gf nf ri plug bs ts) =
  map (fun bt : nat * test => RRunOne (HPtr (fst bt) Z0) plug)
  (filter (fun bt : nat * test => should_run gf nf (snd bt)) (combine bs ts)).
Proof. exact run_ones_in_order. Qed.
Print Assumptions C02_run_ones_in_order.

Theorem C02_run_one_exactly_once :
  forall (gf nf : list tfilter) (ri : bool) (plug : Z) (bs : list nat) (ts : list test) (i b : nat) (t : test),
  NoDup bs ->
  nth_error bs i = Some b ->
  nth_error ts i = Some t ->
  count_occ rev_eq_dec (rev_all gf nf ri plug bs ts) (RRunOne (HPtr b Z0) plug) =
  (if should_run gf nf t then 1%nat else 0%nat).
Proof. exact run_one_exactly_once. Qed.
Print Assumptions C02_run_one_exactly_once.

Theorem C02_run_one_only_selected :
  forall (gf nf : list tfilter) (ri : bool) (plug : Z) (bs : list nat) (ts : list test) (p : hptr) (z : Z),
  In (RRunOne p z) (rev_all gf nf ri plug bs ts) ->
  z = plug /\
  (exists (i b : nat) (t : test),
  nth_error bs i = Some b /\ nth_error ts i = Some t /\ p = HPtr b Z0 /\ should_run gf nf t = true).
Proof. exact run_one_only_selected. Qed.
Print Assumptions C02_run_one_only_selected.

Theorem C02_count_tests_exact :
  forall (gf nf : list tfilter) (ri : bool) (plug : Z) (bs : list nat) (ts : list test),
  length bs = length ts -> count_occ rev_eq_dec (rev_all gf nf ri plug bs ts) RCountTest = length ts.
Proof. exact count_tests_exact. Qed.
Print Assumptions C02_count_tests_exact.

Theorem C02_groups_alternate :
  forall (gf nf : list tfilter) (ri : bool) (plug : Z) (bs : list nat) (ts : list test),
  length bs = length ts -> galt false (rev_all gf nf ri plug bs ts) = true.
Proof. exact groups_alternate. Qed.
Print Assumptions C02_groups_alternate.

Theorem C02_gcode_exists :
  forall ts : list test,
  forallb test_ok ts = true -> exists gcode : list N -> Z, gcode_ok gcode (map t_group ts).
Proof. exact gcode_exists. Qed.
Print Assumptions C02_gcode_exists.

Theorem C02_ex_run_by_theorem :
  forall (evs0 : list rev) (rest : list Z),
  src_registry_runAllTests 4 (ex_heap true false (Zpos 3) Z0) evs0
  (map (fun t : test => b2z (should_run [] ex_nf t)) ex_ts ++ rest) (HPtr 0 Z0) =
  FOk
  (tt, after_run true (ex_heap true false (Zpos 3) Z0) 0 [1%nat; 2%nat; 3%nat] (Zpos 3),
  evs0 ++ rev_all [] ex_nf false (Zpos 77) [1%nat; 2%nat; 3%nat] ex_ts, rest).
Proof. exact ex_run_by_theorem. Qed.
Print Assumptions C02_ex_run_by_theorem.

(* ================================================================== sessions: several runs on ONE registry (C02_Sessions.v)
   The state between runs carries the registry's list order, its groupFilters_ / nameFilters_ fields and the runIgnored_ switch;
   a stale filter is therefore expressible, and the theorems below say it never matters. *)

(* from ANY state -- whatever filters an earlier run (or anybody) left on the registry, whatever the run-ignored switch and the
   order are -- in every repetition of a run a registered test is started exactly once iff the run's OWN filters select it and
   never otherwise; filtered-out = the tests the run's own filters refuse; tests = run + ignored + filtered = registered *)
Theorem C02_selection_own_filters : forall st c reps st',
  state_ok st -> forallb filter_ok (u_gf c) = true -> forallb filter_ok (u_nf c) = true ->
  run_cfg st c = Some (reps, st') ->
  forall r, In r reps ->
    (forall t, In t (st_reg st) -> occurrences (ETestStarted (t_id t)) (r_word r) = b2n (own_selected c t))
    /\ c_filt (r_cnt r) = count_if (fun t => negb (own_selected c t)) (st_reg st)
    /\ c_tests (r_cnt r) = N.of_nat (length (st_reg st))
    /\ c_tests (r_cnt r) = c_run (r_cnt r) + c_ign (r_cnt r) + c_filt (r_cnt r).
Proof. exact selection_own_filters. Qed.
Print Assumptions C02_selection_own_filters.

(* no filter given -> every test selected, whatever the registry's filter fields held before the run *)
Theorem C02_no_filters_select_all : forall st c reps st',
  state_ok st -> u_gf c = [] -> u_nf c = [] -> run_cfg st c = Some (reps, st') ->
  forall r, In r reps ->
    (forall t, In t (st_reg st) -> occurrences (ETestStarted (t_id t)) (r_word r) = 1)
    /\ c_filt (r_cnt r) = 0 /\ c_run (r_cnt r) + c_ign (r_cnt r) = N.of_nat (length (st_reg st)).
Proof. exact no_filters_select_all. Qed.
Print Assumptions C02_no_filters_select_all.

(* filters of one kind only: the other kind does not restrict (group filters given but no name filter, and vice versa) *)
Theorem C02_one_kind_only : forall st c reps st',
  state_ok st -> forallb filter_ok (u_gf c) = true -> forallb filter_ok (u_nf c) = true ->
  run_cfg st c = Some (reps, st') -> forall r, In r reps -> forall t, In t (st_reg st) ->
    (u_nf c = [] -> occurrences (ETestStarted (t_id t)) (r_word r) = b2n (accepted (u_gf c) (t_group t)))
    /\ (u_gf c = [] -> occurrences (ETestStarted (t_id t)) (r_word r) = b2n (accepted (u_nf c) (t_name t))).
Proof. exact one_kind_only. Qed.
Print Assumptions C02_one_kind_only.

(* for ANY TWO histories of earlier runs (any filters, -ri, reversals, shuffles, repeats, listings, API or argv): the same run
   started after either has the same number of repetitions, selects the same tests in each and filters out the same number *)
Theorem C02_selection_history_independent : forall ts h1 h2 c st1 st2 reps1 reps2 st1' st2',
  natlist_eqb (map t_id ts) (seq 0 (length ts)) = true -> forallb test_ok ts = true ->
  forallb cfg_ok h1 = true -> forallb cfg_ok h2 = true -> cfg_ok c = true ->
  state_after (st0 ts) h1 = Some st1 -> state_after (st0 ts) h2 = Some st2 ->
  run_cfg st1 c = Some (reps1, st1') -> run_cfg st2 c = Some (reps2, st2') ->
  length reps1 = length reps2
  /\ forall r1 r2, In r1 reps1 -> In r2 reps2 ->
       c_filt (r_cnt r1) = c_filt (r_cnt r2)
       /\ forall t, In t ts -> occurrences (ETestStarted (t_id t)) (r_word r1) = occurrences (ETestStarted (t_id t)) (r_word r2).
Proof. exact selection_history_independent. Qed.
Print Assumptions C02_selection_history_independent.

(* what any history leaves on the registry: every registered test exactly once in the list (nothing lost or duplicated over any
   number of reversals and shuffles), run-ignored on iff some run asked for it, the filter fields = the LAST run's own lists *)
Theorem C02_session_state : forall ts cs,
  natlist_eqb (map t_id ts) (seq 0 (length ts)) = true -> forallb test_ok ts = true -> forallb cfg_ok cs = true ->
  exists st, state_after (st0 ts) cs = Some st
    /\ Permutation (st_reg st) ts /\ st_ri st = hist_ri cs
    /\ st_gf st = last_gf (st0 ts) cs /\ st_nf st = last_nf (st0 ts) cs.
Proof. exact session_state. Qed.
Print Assumptions C02_session_state.

(* a listing run (-lg / -ln / -ll) between runs: initializeTestRun and nothing else -- no repetition, the list untouched *)
Theorem C02_listing_runs_nothing : forall st c,
  u_list c <> 0 -> run_cfg st c = Some ([], install st c) /\ st_reg (install st c) = st_reg st.
Proof. exact listing_runs_nothing. Qed.
Print Assumptions C02_listing_runs_nothing.

(* the runner that installs a filter list on the registry only when the command line gives one (so that the list of an earlier
   run stays active) does NOT meet the oracle: run 1 `-sg Al`, run 2 without any filter option *)
Theorem C02_keep_stale_filters_refuted : ~ (forall s, valid s = true -> spec s (run_with install_keep s) = true).
Proof. exact keep_refuted. Qed.
Print Assumptions C02_keep_stale_filters_refuted.

(* ... nor with filters of one kind only in the second run (run 1 `-n o`, run 2 `-g l`), where the code's runner does *)
Theorem C02_keep_stale_filters_refuted_one_kind :
  valid ex_stale_name = true /\ spec ex_stale_name (run_with install_keep ex_stale_name) = false
  /\ spec ex_stale_name (run ex_stale_name) = true.
Proof. exact keep_refuted_one_kind. Qed.
Print Assumptions C02_keep_stale_filters_refuted_one_kind.

(* --------------------------------------------------------------------------------------------------------------
   SOURCE TIE (what a run's command line does to the registry): CommandLineTestRunner::initializeTestRun as translated on every run into gen/Gen_HeapC12R.v -- both filter fields are set unconditionally from this run's arguments (so the selection of a run never depends on an earlier run's filters), run-ignored is only ever switched on; C02_Model.install is that effect
   -------------------------------------------------------------------------------------------------------------- *)
From CppUVerif Require gen.Gen_HeapC12R C12_RunnerTie C12_RunnerLinks.
Local Open Scope Z_scope.
Theorem C02_initializeTestRun_events :
  forall (fuel : nat) (h : heap) (evs : list Gen_HeapC12R.rnev) (gf nf v vv c sep ri cr rt : Z)
  (ps rs ms : list Z) (this : hptr),
  Gen_HeapC12R.src_runner_initializeTestRun fuel h evs gf nf v vv c sep ri cr rt ps rs ms this =
  FOk
  (tt, h, evs ++ C12_RunnerTie.init_events gf nf v vv c sep ri cr rt, gf, nf, v, vv, c, sep, ri, cr, rt, ps,
  rs, ms).
Proof. exact C12_RunnerTie.initializeTestRun_events. Qed.
Print Assumptions C02_initializeTestRun_events.

Theorem C02_initializeTestRun_effect :
  forall (s : C12_RunnerTie.switches) (gf nf v vv c sep ri cr rt : Z),
  let s' := C12_RunnerTie.after s (C12_RunnerTie.init_events gf nf v vv c sep ri cr rt) in
  C12_RunnerTie.s_gf s' = gf /\
  C12_RunnerTie.s_nf s' = nf /\
  C12_RunnerTie.s_rethrow s' = z2b rt /\
  C12_RunnerTie.s_run_ignored s' = C12_RunnerTie.s_run_ignored s || z2b ri /\
  C12_RunnerTie.s_separate s' = C12_RunnerTie.s_separate s || z2b sep /\
  C12_RunnerTie.s_crash s' = C12_RunnerTie.s_crash s || z2b cr /\
  C12_RunnerTie.s_color s' = C12_RunnerTie.s_color s || z2b c /\
  C12_RunnerTie.s_verbosity s' =
  (if z2b vv then Zpos 2 else if z2b v then Zpos 1 else C12_RunnerTie.s_verbosity s).
Proof. exact C12_RunnerTie.initializeTestRun_effect. Qed.
Print Assumptions C02_initializeTestRun_effect.

Theorem C02_initializeTestRun_filters_and_rethrow_history_free :
  forall (s1 s2 : C12_RunnerTie.switches) (gf nf v vv c sep ri cr rt : Z),
  C12_RunnerTie.s_gf (C12_RunnerTie.after s1 (C12_RunnerTie.init_events gf nf v vv c sep ri cr rt)) =
  C12_RunnerTie.s_gf (C12_RunnerTie.after s2 (C12_RunnerTie.init_events gf nf v vv c sep ri cr rt)) /\
  C12_RunnerTie.s_nf (C12_RunnerTie.after s1 (C12_RunnerTie.init_events gf nf v vv c sep ri cr rt)) =
  C12_RunnerTie.s_nf (C12_RunnerTie.after s2 (C12_RunnerTie.init_events gf nf v vv c sep ri cr rt)) /\
  C12_RunnerTie.s_rethrow (C12_RunnerTie.after s1 (C12_RunnerTie.init_events gf nf v vv c sep ri cr rt)) =
  C12_RunnerTie.s_rethrow (C12_RunnerTie.after s2 (C12_RunnerTie.init_events gf nf v vv c sep ri cr rt)).
Proof. exact C12_RunnerTie.initializeTestRun_filters_and_rethrow_history_free. Qed.
Print Assumptions C02_initializeTestRun_filters_and_rethrow_history_free.

Theorem C02_install_is_the_translated_initializeTestRun :
  forall (enc : list tfilter -> Z) (st : rstate) (c : runcfg) (s : C12_RunnerTie.switches)
  (v vv col sep cr rt : Z),
  let s' :=
  C12_RunnerTie.after (C12_RunnerLinks.sw_of_rstate enc st s)
  (C12_RunnerTie.init_events (enc (u_gf c)) (enc (u_nf c)) v vv col sep (b2z (u_ri c)) cr rt) in
  C12_RunnerTie.s_gf s' = enc (st_gf (install st c)) /\
  C12_RunnerTie.s_nf s' = enc (st_nf (install st c)) /\ C12_RunnerTie.s_run_ignored s' = st_ri (install st c).
Proof. exact C12_RunnerLinks.install_is_the_translated_initializeTestRun. Qed.
Print Assumptions C02_install_is_the_translated_initializeTestRun.
