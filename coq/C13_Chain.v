(* C13 -- operation SEQUENCES on the four objects of a `:seq` scenario (three named objects and the result object R, which IS the
   object an operation returned and is consumed in place by the following steps).  Invariant: every object's buffer holds the
   C string of the textbook state, with ANY slack behind the terminator (LB of C13_Loose.v) -- the recorded buffer size need not
   be size() + 1.  Every step is Ok (memory-safe, terminating) and keeps the invariant; every observer reports the textbook
   answer.  Also: the chain `subString then +=` stated on its own, and the variant of += that takes the old length from the
   recorded buffer size, which is right on exact buffers and wrong after a truncating subString. *)
From Coq Require Import NArith ZArith Bool List Lia ZifyBool.
From CppUVerif Require Import lib.Str C13_Text C13_Alloc C13_Model C13_Proofs C13_Replace C13_Printable C13_Concat C13_Atoi C13_Main
                              C13_Pool C13_PoolProofs C13_Life C13_LifeProofs C13_LifeProofs2 C13_LifeSplit C13_Loose.
From CppUVerif Require C12_Model C12_Safe.
Import ListNotations.
Local Open Scope N_scope.

(* ---------------- the invariant on a pool of objects *)
Lemma getb_LB i : forall st strs, Forall2 LB st strs -> LB (getb st i) (nth i strs []).
Proof.
  unfold getb. induction i as [|i IH]; intros st strs F; inversion F; subst; cbn [nth]; try assumption; try (exists []; reflexivity).
  apply IH. assumption.
Qed.
Lemma updl_LB i v s : forall st strs, Forall2 LB st strs -> LB v s -> Forall2 LB (updl i v st) (updl i s strs).
Proof.
  induction i as [|i IH]; intros st strs F H; inversion F; subst; cbn [updl]; try constructor; try assumption. apply IH; assumption.
Qed.
Lemma cstrs_LB : forall st strs, Forall2 LB st strs -> Forall OKS strs -> cstrs st = Some strs.
Proof.
  induction st as [|b st IH]; intros strs F K; inversion F as [|? s ? ss Hb Fs]; subst; [reflexivity|].
  inversion K as [|? ? Ks Kss]; subst. destruct Hb as [r ->]. cbn [cstrs]. rewrite cstr_of_cs by apply Ks. rewrite (IH ss Fs Kss). reflexivity.
Qed.
Lemma step_fin st strs i v s : Forall2 LB st strs -> Forall OKS strs -> LB v s -> OKS s ->
  exists st', @Ok (list (list N)) (updl i v st) = Ok st' /\ Forall2 LB st' (updl i s strs) /\ Forall OKS (updl i s strs).
Proof. intros F2 F H K. eexists. split; [reflexivity|]. split; [apply updl_LB; assumption | apply Forall_updl; assumption]. Qed.
Lemma LB_tight s : LB (s ++ [0]) s.
Proof. exists []. reflexivity. Qed.
Lemma LB_tight2 a b : LB (a ++ b ++ [0]) (a ++ b).
Proof. exists []. rewrite <- app_assoc. reflexivity. Qed.
Lemma LB_any s r : LB (s ++ 0 :: r) s.
Proof. exists r. reflexivity. Qed.
Lemma LB_holds b s : C12_Safe.holds b s -> LB b s.
Proof. intros [r [E _]]. exists r. exact E. Qed.
Lemma pad_bufs_LB a ra b rb ch :
  LB (fst (pad_bufs a ra b rb ch)) (fst (t_pad a b ch)) /\ LB (snd (pad_bufs a ra b rb ch)) (snd (t_pad a b ch)).
Proof. unfold pad_bufs, t_pad. destruct (Nat.ltb (length b) (length a)); cbn [fst snd]; split; try apply LB_any; apply LB_tight. Qed.
Lemma isbytes_BY l : forallb isbyte l = true -> Forall (fun c => c < 256) l.
Proof. unfold isbyte. rewrite forallb_forall. intro V. apply Forall_forall. intros c Hc. specialize (V c Hc). lia. Qed.

(* ---------------- one step *)
Lemma mstep_okL st strs q : Forall2 LB st strs -> Forall OKS strs -> valid_sop q = true -> valid_at strs q = true ->
  exists st', mstep st q = Ok st' /\ Forall2 LB st' (t_sstep strs q) /\ Forall OKS (t_sstep strs q).
Proof.
  intros F2 F V VA.
  assert (G : forall i, OKS (nth i strs [])) by (intro i; apply Forall_nth_d; [apply OKS_nil | exact F]).
  assert (GB : forall i, exists r, getb st i = nth i strs [] ++ 0 :: r) by (intro i; apply getb_LB; exact F2).
  destruct q; cbn [valid_sop] in V; split_valid V; cbn [mstep t_sstep].
  - (* set *) pose proof (OKS_nonul a V0) as Ka. unfold cs. rewrite (newFrom_ok a []) by apply Ka. cbn [bind].
    rewrite (newFrom_ok a []) by apply Ka. cbn [bind]. apply step_fin; try assumption. apply LB_tight.
  - (* asg *) destruct (Nat.eqb i j) eqn:E.
    + apply Nat.eqb_eq in E. subst j. rewrite updl_same. eexists. split; [reflexivity | split; assumption].
    + destruct (GB j) as [rj ->]. rewrite newFrom_ok by apply G. cbn [bind]. apply step_fin; try assumption; [apply LB_tight | apply G].
  - (* app *) destruct (GB i) as [ri ->]. destruct (GB j) as [rj ->]. rewrite append_ok by apply G. cbn [bind].
    apply step_fin; try assumption; [apply LB_tight2 | apply OKS_app; apply G].
  - (* appc *) pose proof (OKS_nonul a V0) as Ka. destruct (GB i) as [ri ->]. unfold cs. rewrite append_ok by (try apply G; apply Ka). cbn [bind].
    apply step_fin; try assumption; [apply LB_tight2 | apply OKS_app; [apply G | exact Ka]].
  - (* low *) destruct (GB j) as [rj ->]. rewrite lowerCase_ok by apply G. cbn [bind].
    rewrite (newFrom_ok (lower (nth j strs [])) []) by (apply OKS_lower; apply G). cbn [bind].
    apply step_fin; try assumption; [apply LB_tight | apply OKS_lower; apply G].
  - (* sub *) destruct (GB j) as [rj ->]. destruct (subString_ok (nth j strs []) rj b m (proj1 (G j))) as [buf [E C]]. rewrite E. cbn [bind].
    destruct (cstr_of_inv _ _ C) as [r [Eb Hn]]. rewrite Eb, newFrom_ok by exact Hn. cbn [bind].
    apply step_fin; try assumption; [apply LB_tight | apply OKS_substr; apply G].
  - (* rc *) destruct (chr_ok _ V0) as [Z B]. destruct (GB i) as [ri ->]. rewrite replaceChar_okg by apply G. cbn [bind].
    apply step_fin; try assumption; [apply LB_any | apply OKS_repl_char; [apply G | exact Z | exact B]].
  - (* rs *) pose proof (OKS_nonul a V1) as Ka. pose proof (OKS_nonul b V0) as Kb. destruct (GB i) as [ri ->].
    destruct (replaceStr_okg (nth i strs []) ri a b) as [r' E]; try apply G; try apply Ka; try apply Kb. rewrite E. cbn [bind].
    apply step_fin; try assumption; [apply LB_any | apply OKS_replace; [apply G | exact Kb]].
  - (* prt *) destruct (GB j) as [rj ->]. destruct (printable_okg (nth j strs []) rj (proj2 (G j)) (proj1 (G j))) as [buf [E C]]. rewrite E. cbn [bind].
    destruct (cstr_of_inv _ _ C) as [r [Eb Hn]]. rewrite Eb, newFrom_ok by exact Hn. cbn [bind].
    apply step_fin; try assumption; [apply LB_tight | apply OKS_printable; apply G].
  - (* pad *) destruct (chr_ok _ V0) as [Z B]. destruct (Nat.eqb i j) eqn:E; [eexists; split; [reflexivity | split; assumption]|].
    destruct (GB i) as [ri ->]. destruct (GB j) as [rj ->]. rewrite pad_ok by (try apply G; exact Z). cbn [bind].
    destruct (pad_bufs_LB (nth i strs []) ri (nth j strs []) rj ch) as [L1 L2].
    destruct (OKS_pad (nth i strs []) (nth j strs []) ch (G i) (G j) Z B) as [P1 P2].
    eexists. split; [reflexivity|]. split; [apply updl_LB; [apply updl_LB; assumption | assumption] | apply Forall_updl; [exact P2 | apply Forall_updl; [exact P1 | exact F]]].
  - (* fmt *) pose proof (OKS_app a b (OKS_nonul a V1) (OKS_nonul b V0)) as Kab.
    rewrite format_ok by apply Kab. cbn [bind]. rewrite (newFrom_ok (a ++ b) []) by apply Kab. cbn [bind].
    apply step_fin; try assumption. apply LB_tight.
  - (* rep *) pose proof (OKS_nonul a V0) as Ka. unfold cs. rewrite (newRepeat_ok a [] k) by apply Ka. cbn [bind].
    rewrite (newFrom_ok (t_concat_rep a k) []) by (apply OKS_concat_rep; exact Ka). cbn [bind].
    apply step_fin; try assumption; [apply LB_tight | apply OKS_concat_rep; exact Ka].
  - (* plus *) destruct (GB j) as [rj ->]. destruct (GB k) as [rk ->]. rewrite plus_ok by apply G. cbn [bind]. rewrite app_assoc.
    rewrite (newFrom_ok (nth j strs [] ++ nth k strs []) []) by (apply OKS_app; apply G). cbn [bind].
    apply step_fin; try assumption; [apply LB_tight | apply OKS_app; apply G].
  - (* R = SimpleString(a) *) pose proof (OKS_nonul a V) as Ka. unfold cs. rewrite (newFrom_ok a []) by apply Ka. cbn [bind].
    apply step_fin; try assumption. apply LB_tight.
  - (* R = copy *) destruct (GB j) as [rj ->]. rewrite newFrom_ok by apply G. cbn [bind]. apply step_fin; try assumption; [apply LB_tight | apply G].
  - (* R = subString: the returned buffer, slack included *)
    destruct (GB j) as [rj ->]. destruct (subString_ok (nth j strs []) rj b m (proj1 (G j))) as [buf [E C]]. rewrite E. cbn [bind].
    apply step_fin; try assumption; [apply (LB_of_cstr _ _ C) | apply OKS_substr; apply G].
  - (* R = subStringFromTill *) cbn [valid_at] in VA.
    destruct (GB j) as [rj ->]. destruct (fromTill_okg (nth j strs []) rj c1 c2 (proj1 (G j))) as [buf [E C]]; [lia|]. rewrite E. cbn [bind].
    apply step_fin; try assumption; [apply (LB_of_cstr _ _ C) | apply OKS_from_till; apply G].
  - (* R = lowerCase *) destruct (GB j) as [rj ->]. rewrite lowerCase_ok by apply G. cbn [bind].
    apply step_fin; try assumption; [apply LB_tight | apply OKS_lower; apply G].
  - (* R = printable *) destruct (GB j) as [rj ->]. destruct (printable_okg (nth j strs []) rj (proj2 (G j)) (proj1 (G j))) as [buf [E C]]. rewrite E. cbn [bind].
    apply step_fin; try assumption; [apply (LB_of_cstr _ _ C) | apply OKS_printable; apply G].
  - (* R = a + b *) destruct (GB j) as [rj ->]. destruct (GB k) as [rk ->]. rewrite plus_ok by apply G. cbn [bind].
    apply step_fin; try assumption; [apply LB_tight2 | apply OKS_app; apply G].
  - (* R = StringFromFormat *) pose proof (OKS_app a b (OKS_nonul a V) (OKS_nonul b V0)) as Kab.
    rewrite format_ok by apply Kab. cbn [bind]. apply step_fin; try assumption. apply LB_tight.
  - (* R = SimpleString(a, k) *) pose proof (OKS_nonul a V) as Ka. unfold cs. rewrite (newRepeat_ok a [] k) by apply Ka. cbn [bind].
    apply step_fin; try assumption; [apply LB_tight | apply OKS_concat_rep; exact Ka].
  - (* R = ordinal *) rewrite ordinal_ok. apply step_fin; try assumption; [apply LB_cs | apply OKS_ordinal].
  - (* R = masked bits *) rewrite masked_ok by lia. cbn [bind]. apply step_fin; try assumption; [apply LB_cs | apply OKS_masked].
  - (* R = binary *) rewrite binary_ok by (apply isbytes_BY; exact V). cbn [bind]. apply step_fin; try assumption; [apply LB_cs | apply OKS_binary].
  - (* R = element k of the split collection *) destruct (chr_ok _ V0) as [Z B]. destruct (GB j) as [rj ->].
    destruct (split_okg (nth j strs []) rj d (proj1 (G j)) Z) as [bufs [E H]]. rewrite E. cbn [bind].
    apply step_fin; try assumption; [apply LB_holds; apply holds_nth; exact H | apply OKS_split_nth; apply G].
  - eexists. split; [reflexivity | split; assumption].
  - eexists. split; [reflexivity | split; assumption].
  - eexists. split; [reflexivity | split; assumption].
  - eexists. split; [reflexivity | split; assumption].
  - eexists. split; [reflexivity | split; assumption].
Qed.

(* ---------------- the observers *)
Lemma mobs_ok st strs q : Forall2 LB st strs -> Forall OKS strs -> valid_sop q = true -> mobs st q = Ok (t_sobs strs q).
Proof.
  intros F2 F V.
  assert (G : forall i, OKS (nth i strs [])) by (intro i; apply Forall_nth_d; [apply OKS_nil | exact F]).
  assert (GB : forall i, exists r, getb st i = nth i strs [] ++ 0 :: r) by (intro i; apply getb_LB; exact F2).
  destruct q; try reflexivity; cbn [mobs t_sobs].
  - (* size, isEmpty *) destruct (GB i) as [ri ->]. rewrite StrLen_ok by apply G. cbn [bind]. destruct (nth i strs []); reflexivity.
  - (* at *) destruct (GB i) as [ri ->]. rewrite StrLen_ok by apply G. cbn [bind].
    set (v := nth i strs []). set (p := N.to_nat (pos mod N.of_nat (S (length v)))).
    assert (Lp : (p <= length v)%nat).
    { unfold p. pose proof (N.mod_lt pos (N.of_nat (S (length v))) ltac:(lia)) as M. lia. }
    rewrite adv_cs by exact Lp. cbn [bind]. rewrite rd_nth by exact Lp. reflexivity.
  - (* comparisons *) destruct (GB i) as [ri ->]. destruct (GB j) as [rj ->]. cbv zeta.
    rewrite equal_ok by apply G. cbn [bind]. rewrite contains_ok by apply G. cbn [bind]. rewrite startsWith_ok by apply G. cbn [bind].
    rewrite endsWith_ok by apply G. cbn [bind]. rewrite count_ok by apply G. reflexivity.
  - (* copyToBuffer *) destruct (GB i) as [ri ->]. rewrite copyToBuffer_ok by apply G. reflexivity.
  - (* findFrom *) destruct (GB i) as [ri ->]. rewrite findFrom_ok by apply G. reflexivity.
Qed.

(* ---------------- every sequence *)
Lemma mrun_ok ops : forall st strs, Forall2 LB st strs -> Forall OKS strs -> valid_ops strs ops = true ->
  exists st', mrun st ops = Ok (st', snd (t_run strs ops)) /\ Forall2 LB st' (fst (t_run strs ops)) /\ Forall OKS (fst (t_run strs ops)).
Proof.
  induction ops as [|q ops IH]; intros st strs F2 F V; [exists st; split; [reflexivity | split; assumption]|].
  cbn [valid_ops] in V. apply andb_true_iff in V. destruct V as [V Vr]. apply andb_true_iff in V. destruct V as [Vq Va].
  cbn [mrun t_run]. rewrite (mobs_ok st strs q F2 F Vq). cbn [bind].
  destruct (mstep_okL st strs q F2 F Vq Va) as [st1 [E [F2' F']]]. rewrite E. cbn [bind].
  destruct (IH st1 (t_sstep strs q) F2' F' Vr) as [st' [E' [A B]]]. rewrite E'. cbn [bind fst snd]. exists st'. split; [reflexivity | split; assumption].
Qed.
Lemma pool0_LB : Forall2 LB pool0 [[]; []; []; []].
Proof. unfold pool0. repeat (constructor; [exists []; reflexivity|]). constructor. Qed.
Lemma pool0_OKS : Forall OKS [[]; []; []; []].
Proof. repeat (constructor; [apply OKS_nil|]). constructor. Qed.
Lemma eval_seq ops : valid_ops [[]; []; []; []] ops = true -> eval_scn (SSeq ops) = expected_scn (SSeq ops).
Proof.
  intro V. cbn [eval_scn expected_scn]. destruct (mrun_ok ops pool0 _ pool0_LB pool0_OKS V) as [st' [E [A B]]].
  rewrite E. cbn [vseq]. rewrite (cstrs_LB _ _ A B). reflexivity.
Qed.

(* ---------------- the chain of the red-team change, on its own: the object subString returned (truncated or not) used directly
   as the left-hand side of += *)
Lemma subString_then_append a r b m x rx : NN a -> NN x ->
  exists buf, subString_m (a ++ 0 :: r) b m = Ok buf /\ append_m buf (x ++ 0 :: rx) = Ok (cs (t_substr a b m ++ x)).
Proof.
  intros Ha Hx. destruct (subString_ok a r b m Ha) as [buf [E C]]. exists buf. split; [exact E|].
  destruct (cstr_of_inv _ _ C) as [r' [Eb Hn]]. rewrite Eb, append_ok by assumption. unfold cs. rewrite <- app_assoc. reflexivity.
Qed.
(* a truncating subString really leaves slack: the object's recorded buffer (4 cells) is larger than size() + 1 (2 cells) *)
Example ex_truncation_leaves_slack : subString_m (cs [97; 98; 99]) 0 1 = Ok [97; 0; 99; 0].
Proof. vm_compute. reflexivity. Qed.
(* operator+= taking the old length from the recorded buffer size (length of the cell list - 1) instead of size() *)
Definition append_recorded (a rhs : list N) : res (list N) :=
  let n := (length a - 1)%nat in
  do m <- StrLen rhs;
  let total := (n + S m)%nat in
  do t <- copyToNewBuffer a total; StrNCpy t n rhs (S m).
Lemma append_recorded_exact a b rb : NN a -> NN b -> append_recorded (cs a) (b ++ 0 :: rb) = append_m (cs a) (b ++ 0 :: rb).
Proof.
  intros Ha Hb. unfold append_recorded, append_m, cs. rewrite !StrLen_ok by assumption. cbn [bind].
  replace (length (a ++ [0%N]) - 1)%nat with (length a) by (rewrite app_length; cbn [length]; lia). reflexivity.
Qed.
Definition append_recorded_stmt : Prop :=
  forall a r b, NN a -> NN b -> exists buf, append_recorded (a ++ 0 :: r) (cs b) = Ok buf /\ cstr_of buf = Some (a ++ b).
Lemma append_recorded_refuted : ~ append_recorded_stmt.
Proof.
  intro H. destruct (H [97] [99; 0] [120]) as [buf [E C]]; [repeat constructor; lia | repeat constructor; lia |].
  vm_compute in E. inversion E. subst buf. vm_compute in C. discriminate C.
Qed.

(* ---------------- the hypotheses are satisfiable *)
Example ex_seq_valid : valid_scn (SSeq [QSet 0 [97;98]; QSet 1 [119;120;121;122]; QPad 0 1 46; QAppC 0 [33]; QPad 0 1 45]) = true.
Proof. reflexivity. Qed.
Example ex_seq_run : run_scn (SSeq [QSet 0 [97;98]; QSet 1 [119;120;121;122]; QPad 0 1 46; QAppC 0 [33]; QPad 0 1 45])
  = {| o_val := VL [[46;46;97;98;33]; [45;119;120;121;122]; []; []]; o_ref := true; o_paired := true |}.
Proof. vm_compute. reflexivity. Qed.
(* "Hello World".subString(0, 5) += ", x" on the returned object itself, then its size, a character, a comparison *)
Example ex_chain_run :
  valid_scn (SSeq [QSet 0 [72;101;108;108;111;32;87]; QRSub 0 0 5; QAppC 3 [44;120]; QSize 3; QAt 3 6; QCmp 3 0; QCpb 3 4]) = true /\
  o_val (run_scn (SSeq [QSet 0 [72;101;108;108;111;32;87]; QRSub 0 0 5; QAppC 3 [44;120]; QSize 3; QAt 3 6; QCmp 3 0; QCpb 3 4]))
  = VL [[72;101;108;108;111;32;87]; []; []; [72;101;108;108;111;44;120];
        [7;0;0;0;0;0;0;0;0]; [120]; [0;0;0;0;0;0;0;0;0;0;0;0]; [72;101;108;0]].
Proof. split; vm_compute; reflexivity. Qed.
Example ex_mstep_hyp : Forall2 LB [[97; 0; 99; 0]; [0]] [[97]; []] /\ Forall OKS [[97]; []].
Proof.
  split; [constructor; [exists [99; 0]; reflexivity | constructor; [exists []; reflexivity | constructor]]|].
  constructor; [split; repeat constructor; lia | constructor; [apply OKS_nil | constructor]].
Qed.
(* the operations on a buffer with slack ("abc".subString(0, 2) = cells a b NUL NUL, "a,b,c".subString(0, 3) = a , b , c NUL with NUL at 3) *)
Example ex_replaceChar_slack : replaceChar_m [97; 98; 0; 0] 98 120 = Ok [97; 120; 0; 0].
Proof. vm_compute. reflexivity. Qed.
Example ex_replaceStr_slack : replaceStr_m [97; 98; 0; 99; 0] (cs [98]) (cs [120; 121]) = Ok [97; 120; 121; 0]
                              /\ replaceStr_m [97; 98; 0; 99; 0] (cs [99]) (cs [120]) = Ok [97; 98; 0; 99; 0].
Proof. split; vm_compute; reflexivity. Qed.
Example ex_printable_slack : printable_m [97; 10; 0; 99; 0] = Ok [97; 92; 110; 0].
Proof. vm_compute. reflexivity. Qed.
Example ex_fromTill_slack : subStringFromTill_m [40; 97; 44; 0; 44; 0] 40 44 = Ok [40; 97; 0; 0].
Proof. vm_compute. reflexivity. Qed.
Example ex_split_slack : split_m [97; 44; 98; 0; 44; 99; 0] (cs [44]) = Ok [[97; 44; 0; 0]; [98; 0]].
Proof. vm_compute. reflexivity. Qed.
Example ex_append_recorded : append_recorded [97; 0; 99; 0] (cs [120]) = Ok [97; 0; 205; 120; 0]
                             /\ append_m [97; 0; 99; 0] (cs [120]) = Ok [97; 120; 0].
Proof. split; vm_compute; reflexivity. Qed.
