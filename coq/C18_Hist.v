(* C18 -- statements over whole histories of calls with arbitrary pointers *)
From Coq Require Import NArith Arith Bool List Lia.
From CppUVerif Require Import gen.Gen_C18 C18_Model C18_Lists C18_Inv C18_Sim C18_Proofs.
Import ListNotations.
Local Open Scope N_scope.

(* ---------------------------------------------------------------- the allocator's own view of a trace of calls:
   ids are consecutive ordinals; a block goes back only if obtained and not yet given back, with the size it was
   obtained with (blocks above the cached bound: any size, the cache keeps none for them) *)
Definition chk (bk : books) (e : ev) : option books :=
  match e with
  | EA id sz => if id =? N.of_nat (length (fst bk)) then Some (fst bk ++ [sz], snd bk) else None
  | EF id f =>
      match szof (fst bk) id with
      | None => None
      | Some a => if memN id (snd bk) || negb ((f =? a) || (cached_bound <? a)) then None else Some (fst bk, id :: snd bk)
      end
  end.
Fixpoint chks (bk : books) (l : list ev) : option books :=
  match l with
  | [] => Some bk
  | e :: r => match chk bk e with Some bk1 => chks bk1 r | None => None end
  end.
Lemma chks_app : forall l1 l2 bk, chks bk (l1 ++ l2) = match chks bk l1 with Some bk1 => chks bk1 l2 | None => None end.
Proof. induction l1 as [|e r IH]; intros; simpl; [reflexivity|]. destruct (chk bk e); [apply IH | reflexivity]. Qed.

Lemma apply_ev_chk : forall c p bk e bk', apply_ev c p bk e = Some bk' -> chk bk e = Some bk'.
Proof.
  intros c p bk [id sz|id f] bk' H; simpl in *; [exact H|].
  destruct (szof (fst bk) id) as [a|]; [|discriminate].
  destruct (memN id (snd bk)); [discriminate|]. simpl in *.
  destruct (size_ok a f c) eqn:E; [|discriminate]. simpl in H. destruct (memN id p); [discriminate|].
  replace ((f =? a) || (cached_bound <? a)) with true; [exact H|].
  unfold size_ok in E. symmetry. apply orb_true_iff. apply orb_true_iff in E. destruct E as [E|E]; [left; exact E|].
  apply andb_true_iff in E. right. tauto.
Qed.
Lemma apply_evs_chks : forall c p l bk bk', apply_evs c p bk l = Some bk' -> chks bk l = Some bk'.
Proof.
  induction l as [|e r IH]; intros bk bk' H; simpl in *; [exact H|].
  destruct (apply_ev c p bk e) as [bk1|] eqn:E; [|discriminate]. rewrite (apply_ev_chk _ _ _ _ _ E). apply IH. exact H.
Qed.

Ltac des H := repeat match type of H with
  | context [match ?x with _ => _ end] => destruct x eqn:?; try discriminate H
  end.

(* ---------------------------------------------------------------- what a passed check says *)
Lemma check_alloc_facts : forall s n it s', check_alloc s n it = Some s' ->
  chks (a_bk s) (i_evs it) = Some (a_bk s') /\
  (forall id c, seen_cls (a_seen s) id = Some c -> seen_cls (a_seen s') id = Some c) /\
  exists id off a, i_ret it = Some (id, off) /\ szof (fst (a_bk s')) id = Some a /\ off + n <= a /\
                   ~ In id (snd (a_bk s')) /\ seen_cls (a_seen s') id = Some (cls n).
Proof.
  intros s n it s' H. unfold check_alloc in H.
  destruct (apply_evs 0 (ids_of (a_live s)) (a_bk s) (i_evs it)) as [bk|] eqn:A; [|discriminate].
  destruct (i_ret it) as [[id off]|]; [|discriminate].
  destruct (szof (fst bk) id) as [a|] eqn:Z; [|discriminate].
  destruct (memN id (snd bk)) eqn:M; [discriminate|].
  destruct (off + n <=? a) eqn:L; [|discriminate]. simpl in H.
  destruct (existsb (overlaps id off n) (a_live s)); [discriminate|].
  destruct (i_warn it); [discriminate|].
  apply apply_evs_chks in A. apply N.leb_le in L. apply memN_false in M.
  destruct (seen_cls (a_seen s) id) as [c|] eqn:S.
  - destruct (optN_eqb c (cls n)) eqn:E; [|discriminate]. apply optN_eqb_eq in E. inversion H; subst. simpl.
    split; [exact A|]. split; [auto|]. exists id, off, a. auto.
  - inversion H; subst. simpl. split; [exact A|]. split.
    + intros id' c' G. destruct (id' =? id) eqn:E; [apply N.eqb_eq in E; subst; congruence | exact G].
    + exists id, off, a. rewrite N.eqb_refl. auto.
Qed.
Lemma check_dealloc_facts : forall s po n it s', check_dealloc s po n it = Some s' ->
  chks (a_bk s) (i_evs it) = Some (a_bk s') /\ a_seen s' = a_seen s.
Proof.
  intros s po n it s' H. unfold check_dealloc in H. destruct (i_ret it); [discriminate|].
  destruct (known s po n).
  - destruct po as [[id off]|]; [|discriminate].
    destruct (apply_evs n (ids_of (drop_live (a_live s) id off)) (a_bk s) (i_evs it)) as [bk|] eqn:A; [|discriminate].
    destruct (i_warn it); [discriminate|]. inversion H; subst. simpl. split; [eapply apply_evs_chks; eauto | reflexivity].
  - destruct (apply_evs n (ids_of (a_live s)) (a_bk s) (i_evs it)) as [bk|] eqn:A; [|discriminate].
    destruct (Bool.eqb (i_warn it) (negb (a_warned s))); [|discriminate].
    inversion H; subst. simpl. split; [eapply apply_evs_chks; eauto | reflexivity].
Qed.
Lemma check_clear_cache_facts : forall s it s', check_clear_cache s it = Some s' ->
  chks (a_bk s) (i_evs it) = Some (a_bk s') /\ a_seen s' = a_seen s.
Proof.
  intros s it s' H. unfold check_clear_cache in H.
  destruct (apply_evs 0 (ids_of (a_live s)) (a_bk s) (i_evs it)) as [bk|] eqn:A; [|discriminate].
  destruct (i_ret it); [discriminate|]. destruct (i_warn it); [discriminate|].
  destruct (forallb _ (a_seen s)); [|discriminate]. inversion H; subst. simpl. split; [eapply apply_evs_chks; eauto | reflexivity].
Qed.
Lemma check_clear_all_facts : forall k s it s', check_clear_all k s it = Some s' ->
  chks (a_bk s) (i_evs it) = Some (a_bk s') /\ a_seen s' = a_seen s.
Proof.
  intros k s it s' H. unfold check_clear_all in H.
  destruct (apply_evs 0 [] (a_bk s) (i_evs it)) as [bk|] eqn:A; [|discriminate].
  destruct (i_ret it); [discriminate|]. destruct (i_warn it); [discriminate|].
  destruct (forallb _ _); [|discriminate]. inversion H; subst. simpl. split; [eapply apply_evs_chks; eauto | reflexivity].
Qed.

Definition po_of (p : ptr) : option (N * N) := match p with PId id => Some (id, 0) | PFor _ => None end.
Lemma ptr_rel_po : forall p, ptr_rel p (po_of p).
Proof. intros [id|k]; reflexivity. Qed.

(* one call: the invariant goes on, the allocator accepts the calls, classes of served blocks are remembered *)
Lemma ghost_step : forall st s o, R st s ->
  exists s', R (fst (step st o)) s' /\ chks (a_bk s) (o_evs (snd (step st o))) = Some (a_bk s') /\
    (forall id c, seen_cls (a_seen s) id = Some c -> seen_cls (a_seen s') id = Some c) /\
    (forall n id, o = LAlloc n -> o_ret (snd (step st o)) = Some id -> seen_cls (a_seen s') id = Some (cls n)).
Proof.
  intros st s o HR. destruct o as [n|p n| |]; cbn [step].
  - destruct (sim_alloc st s n HR) as [s' [H1 [H2 _]]]. apply check_alloc_facts in H1.
    destruct H1 as [A [B [id [off [a [C1 [C2 [C3 [C4 C5]]]]]]]]]. exists s'. split; [exact H2|]. split; [exact A|]. split; [exact B|].
    intros n' id' E Hr. inversion E; subst n'. unfold item_of in C1. cbn [i_ret] in C1. rewrite Hr in C1. inversion C1; subst. exact C5.
  - destruct (sim_dealloc st s p (po_of p) n HR (ptr_rel_po p)) as [s' [H1 [H2 _]]]. apply check_dealloc_facts in H1.
    destruct H1 as [A B]. exists s'. split; [exact H2|]. split; [exact A|]. split; [rewrite B; auto | intros; discriminate].
  - destruct (sim_clear_cache st s HR) as [s' [H1 [H2 _]]]. apply check_clear_cache_facts in H1.
    destruct H1 as [A B]. exists s'. split; [exact H2|]. split; [exact A|]. split; [rewrite B; auto | intros; discriminate].
  - destruct (sim_clear_all st s HR (R_len _ _ HR)) as [s' [H1 [H2 _]]]. apply check_clear_all_facts in H1.
    destruct H1 as [A B]. exists s'. split; [exact H2|]. split; [exact A|]. split; [rewrite B; auto | intros; discriminate].
Qed.

Fixpoint handouts (ops : list lop) (outs : list out) : list (N * N) :=
  match ops, outs with
  | LAlloc n :: r, x :: xs => match o_ret x with Some id => (id, n) :: handouts r xs | None => handouts r xs end
  | _ :: r, _ :: xs => handouts r xs
  | _, _ => []
  end.
Definition evs_of (outs : list out) : list ev := concat (map o_evs outs).

Lemma ghost_exec : forall ops st s, R st s ->
  exists s', R (fst (exec st ops)) s' /\ chks (a_bk s) (evs_of (snd (exec st ops))) = Some (a_bk s') /\
    (forall id c, seen_cls (a_seen s) id = Some c -> seen_cls (a_seen s') id = Some c) /\
    (forall id n, In (id, n) (handouts ops (snd (exec st ops))) -> seen_cls (a_seen s') id = Some (cls n)).
Proof.
  induction ops as [|o r IH]; intros st s HR.
  - exists s. simpl. split; [exact HR|]. split; [reflexivity|]. split; [auto | intros id n []].
  - cbn [exec]. destruct (ghost_step st s o HR) as [s1 [H1 [H2 [H3 H4]]]].
    destruct (step st o) as [st1 x] eqn:E. cbn [fst snd] in *.
    destruct (IH st1 s1 H1) as [s2 [G1 [G2 [G3 G4]]]].
    destruct (exec st1 r) as [st2 xs] eqn:E2. cbn [fst snd] in *.
    exists s2. split; [exact G1|]. split; [|split].
    + unfold evs_of. simpl. rewrite chks_app, H2. exact G2.
    + intros id c K. apply G3. apply H3. exact K.
    + intros id n K. destruct o as [n0|p n0| |]; cbn [handouts] in K; try (apply G4; exact K).
      destruct (o_ret x) as [id0|] eqn:Er; [|apply G4; exact K].
      destruct K as [K|K]; [|apply G4; exact K]. inversion K; subst. apply G3. apply (H4 n id eq_refl eq_refl).
Qed.

(* ---------------------------------------------------------------- theorems over all histories *)
Definition after (ops : list lop) : state := fst (exec init_state ops).
Definition outs_of (ops : list lop) : list out := snd (exec init_state ops).
Definition trace (ops : list lop) : list ev := o_evs init_out ++ evs_of (outs_of ops).

Lemma reach : forall ops, exists s, R (after ops) s /\ chks ([], []) (trace ops) = Some (a_bk s) /\
  (forall id n, In (id, n) (handouts ops (outs_of ops)) -> seen_cls (a_seen s) id = Some (cls n)).
Proof.
  intros ops. destruct (ghost_exec ops init_state s0 R_init) as [s [H1 [H2 [_ H4]]]].
  exists s. split; [exact H1|]. split; [|exact H4].
  unfold trace. rewrite chks_app. simpl o_evs. change (chks ([], []) [EA 0 node_array_size]) with (Some (a_bk s0)). exact H2.
Qed.

Definition used_mems (st : state) : list N := flat_map (fun nd => mems (n_used nd)) (s_cache st) ++ mems (s_non st).
Definition books_of (ops : list lop) : option books := chks ([], []) (trace ops).

(* C18_inv *)
Lemma inv_all : forall ops, exists bk, books_of ops = Some bk /\
  NoDup (all_ids (after ops)) /\
  (forall nd b, In nd (s_cache (after ops)) -> In b (n_free nd ++ n_used nd) ->
     szof (fst bk) (b_mem b) = Some (n_size nd) /\ szof (fst bk) (b_hdr b) = Some block_hdr_size /\
     ~ In (b_mem b) (snd bk) /\ ~ In (b_hdr b) (snd bk)) /\
  (forall b, In b (s_non (after ops)) ->
     (exists a, cached_bound < a /\ szof (fst bk) (b_mem b) = Some a) /\ szof (fst bk) (b_hdr b) = Some block_hdr_size /\
     ~ In (b_mem b) (snd bk) /\ ~ In (b_hdr b) (snd bk)).
Proof.
  intros ops. destruct (reach ops) as [s [HR [Hb _]]]. exists (a_bk s). split; [exact Hb|]. split; [|split].
  - apply (NoDup_count_occ N.eq_dec). exact (r_nodup _ _ HR).
  - intros nd b H1 H2. pose proof (r_nodes _ _ HR) as F. rewrite Forall_forall in F. destruct (F nd H1 b H2) as [[G1 G2] _].
    split; [exact G2|]. split; [exact G1|].
    split; apply (r_ids _ _ HR); apply in_all_ids; left; exists nd, b; auto.
  - intros b H1. pose proof (r_non _ _ HR) as F. rewrite Forall_forall in F. destruct (F b H1) as [a [Ha [[G1 G2] _]]].
    split; [exists a; auto|]. split; [exact G1|].
    split; apply (r_ids _ _ HR); apply in_all_ids; right; exists b; auto.
Qed.

Lemma in_used_mems : forall st id, In id (used_mems st) <->
  (exists nd, In nd (s_cache st) /\ In id (mems (n_used nd))) \/ In id (mems (s_non st)).
Proof. intros. unfold used_mems. rewrite in_app_iff, in_flat_map. tauto. Qed.

(* C18_no_alias: the buffer alloc returns is on no used list and not among the non-cached blocks before the call *)
Lemma no_alias : forall ops n id, o_ret (snd (alloc (after ops) n)) = Some id -> ~ In id (used_mems (after ops)).
Proof.
  intros ops n id Hr Hu. destruct (reach ops) as [s [HR _]]. set (st := after ops) in *.
  assert (Hlt : forall x, In x (used_mems st) -> x < s_next st).
  { intros x Hx. eapply all_ids_lt; eauto. apply in_all_ids. apply in_used_mems in Hx. destruct Hx as [[nd [H1 H2]]|H2].
    - apply in_mems in H2. destruct H2 as [b [H2 H3]]. left. exists nd, b. split; [exact H1|]. split; [apply in_app_iff; right; exact H2 | auto].
    - apply in_mems in H2. destruct H2 as [b [H2 H3]]. right. exists b. auto. }
  unfold alloc in Hr. destruct (is_cached n) eqn:Hc.
  - destruct (class_lookup _ n (r_sizes _ _ HR) Hc) as [l1 [nd [l2 [Hsplit [Hnth [Hset _]]]]]].
    assert (Hnd : In nd (s_cache st)) by (rewrite Hsplit; apply in_mid; auto).
    rewrite Hnth in Hr. destruct (n_free nd) as [|b fr] eqn:Hfree.
    + simpl in Hr. inversion Hr; subst id. apply Hlt in Hu. lia.
    + simpl in Hr. inversion Hr; subst id.
      assert (Hbf : In (b_mem b) (mems (n_free nd))) by (rewrite Hfree; left; reflexivity).
      apply in_used_mems in Hu. destruct Hu as [[nd2 [H1 H2]]|H2].
      * exact (cnt_free_used _ _ nd nd2 _ (r_nodup _ _ HR) Hnd H1 Hbf H2).
      * exact (cnt_free_non _ _ nd _ (r_nodup _ _ HR) Hnd Hbf H2).
  - simpl in Hr. inversion Hr; subst id. apply Hlt in Hu. lia.
Qed.

(* C18_capacity: the returned buffer is the start of a block the allocator handed to the cache, not given back, of at
   least the requested size *)
Lemma capacity : forall ops n, exists id bk a,
  o_ret (snd (step (after ops) (LAlloc n))) = Some id /\ books_of (ops ++ [LAlloc n]) = Some bk /\
  szof (fst bk) id = Some a /\ n <= a /\ ~ In id (snd bk).
Proof.
  intros ops n. destruct (reach ops) as [s [HR [Hb _]]].
  destruct (sim_alloc (after ops) s n HR) as [s' [H1 [H2 _]]].
  assert (Hbooks : books_of (ops ++ [LAlloc n]) = chks (a_bk s) (o_evs (snd (alloc (after ops) n)))).
  { unfold books_of, trace, outs_of, after in *. clear H1 H2 HR.
    assert (E : forall l st, evs_of (snd (exec st (l ++ [LAlloc n]))) = evs_of (snd (exec st l)) ++ o_evs (snd (alloc (fst (exec st l)) n))).
    { induction l as [|o r IH]; intros st.
      - simpl. destruct (alloc st n). unfold evs_of. simpl. rewrite app_nil_r. reflexivity.
      - simpl. destruct (step st o) as [st1 x]. specialize (IH st1).
        destruct (exec st1 (r ++ [LAlloc n])) as [st2 xs]. destruct (exec st1 r) as [st3 ys]. simpl in *.
        unfold evs_of in *. simpl. rewrite IH, app_assoc. reflexivity. }
    rewrite E, app_assoc, chks_app, Hb. reflexivity. }
  pose proof H1 as H1'. apply check_alloc_facts in H1'. destruct H1' as [A [_ [id [off [a [C1 [C2 [C3 [C4 _]]]]]]]]].
  unfold item_of in C1, A. cbn [i_ret i_evs] in C1, A.
  destruct (o_ret (snd (alloc (after ops) n))) as [id'|] eqn:Er; [|discriminate]. inversion C1; subst id' off.
  exists id, (a_bk s'), a. cbn [step]. split; [exact Er|]. split; [rewrite Hbooks; exact A|]. split; [exact C2|].
  split; [lia | exact C4].
Qed.

(* C18_reuse_same_class: two requests ever served by the same block are of the same size class *)
Lemma reuse_same_class : forall ops id n1 n2,
  In (id, n1) (handouts ops (outs_of ops)) -> In (id, n2) (handouts ops (outs_of ops)) -> cls n1 = cls n2.
Proof.
  intros ops id n1 n2 H1 H2. destruct (reach ops) as [s [_ [_ H]]].
  pose proof (H id n1 H1) as G1. pose proof (H id n2 H2) as G2. congruence.
Qed.
(* ... and a block taken from a free list sits in the node of the request's class, which it was allocated for *)
Lemma reuse_from_class_node : forall ops n id, is_cached n = true ->
  o_ret (snd (alloc (after ops) n)) = Some id -> o_evs (snd (alloc (after ops) n)) = [] ->
  exists nd, In nd (s_cache (after ops)) /\ cls n = Some (n_size nd) /\ In id (mems (n_free nd)).
Proof.
  intros ops n id Hc Hr He. destruct (reach ops) as [s [HR _]]. unfold alloc in Hr, He. rewrite Hc in Hr, He.
  destruct (class_lookup _ n (r_sizes _ _ HR) Hc) as [l1 [nd [l2 [Hsplit [Hnth [Hset [Hle Hcls]]]]]]].
  rewrite Hnth in Hr, He. destruct (n_free nd) as [|b fr] eqn:Hfree; [simpl in He; discriminate|].
  simpl in Hr. inversion Hr; subst id. exists nd. split; [rewrite Hsplit; apply in_mid; auto|]. split; [exact Hcls|].
  rewrite Hfree. left. reflexivity.
Qed.

(* C18_unknown_release *)
Lemma unlink_none_iff : forall l p, (forall x, In x l -> mem_is x p = false) -> unlink l p = None.
Proof.
  intros l p H. rewrite unlink_remove_first. induction l as [|h r IH]; [reflexivity|]. simpl.
  rewrite (H h (or_introl eq_refl)). rewrite IH; [reflexivity|]. intros x Hx. apply H. right. exact Hx.
Qed.
Definition searched (st : state) (n : N) : list block :=
  if is_cached n then n_used (nth (index_for (s_cache st) n) (s_cache st) dnode) else s_non st.
Lemma unknown_release_inert : forall st p n, (forall b, In b (searched st n) -> mem_is b p = false) ->
  dealloc st p n = ({| s_cache := s_cache st; s_non := s_non st; s_warned := true; s_next := s_next st |},
                    mk_out [] None (negb (s_warned st))).
Proof.
  intros st p n H. unfold dealloc, searched in *. destruct (is_cached n); rewrite (unlink_none_iff _ _ H); reflexivity.
Qed.

Definition warns (outs : list out) : nat := length (filter o_warn outs).
Lemma step_warn : forall st o,
  (o_warn (snd (step st o)) = false /\ s_warned (fst (step st o)) = s_warned st) \/
  (o_warn (snd (step st o)) = negb (s_warned st) /\ s_warned (fst (step st o)) = true).
Proof.
  intros st o. destruct o as [n|p n| |]; cbn [step].
  - unfold alloc. destruct (is_cached n); [destruct (n_free _)|]; left; split; reflexivity.
  - unfold dealloc, unknown_release. destruct (is_cached n); destruct (unlink _ p) as [[b u]|];
      try (left; split; reflexivity); right; split; reflexivity.
  - rewrite clear_cache_eq. left; split; reflexivity.
  - rewrite clear_all_eq. left; split; reflexivity.
Qed.
Lemma warn_once_from : forall ops st, (warns (snd (exec st ops)) <= (if s_warned st then 0 else 1))%nat.
Proof.
  induction ops as [|o r IH]; intros st; [unfold warns; simpl; destruct (s_warned st); lia|].
  cbn [exec]. pose proof (step_warn st o) as H. destruct (step st o) as [st1 x]. cbn [fst snd] in *.
  specialize (IH st1). destruct (exec st1 r) as [st2 xs]. cbn [snd] in *. unfold warns in *. simpl.
  destruct H as [[H1 H2]|[H1 H2]]; rewrite H1, H2 in *.
  - exact IH.
  - destruct (s_warned st); simpl in *; lia.
Qed.
Lemma warn_once : forall ops, (warns (outs_of ops) <= 1)%nat.
Proof. intros. apply (warn_once_from ops init_state). Qed.

(* C18_all_returned *)
Lemma exec_snoc : forall ops o st, exec st (ops ++ [o]) =
  (fst (step (fst (exec st ops)) o), snd (exec st ops) ++ [snd (step (fst (exec st ops)) o)]).
Proof.
  induction ops as [|o1 r IH]; intros o st.
  - simpl. destruct (step st o). reflexivity.
  - simpl. destruct (step st o1) as [st1 x]. rewrite IH. destruct (exec st1 r). reflexivity.
Qed.

Lemma all_returned : forall ops, exists bk,
  chks ([], []) (trace (ops ++ [LClearAll]) ++ o_evs (snd (destroy (after (ops ++ [LClearAll]))))) = Some bk /\
  NoDup (snd bk) /\ (forall id, In id (snd bk) <-> id < N.of_nat (length (fst bk))).
Proof.
  intros ops. destruct (reach (ops ++ [LClearAll])) as [s [HR [Hb _]]].
  set (st := after (ops ++ [LClearAll])) in *.
  assert (Hempty : all_ids st = []).
  { unfold st, after. rewrite exec_snoc. cbn [fst step]. rewrite clear_all_eq. unfold all_ids. cbn [fst s_cache s_non].
    rewrite wipe_no_ids. reflexivity. }
  destruct (r_zero _ _ HR) as [Z1 Z2]. destruct (a_bk s) as [sizes freed] eqn:Ebk. cbn [fst snd] in *.
  exists (sizes, 0 :: freed). split; [|split].
  - rewrite chks_app, Hb. unfold destroy. cbn [snd o_evs mk_out chks chk fst]. rewrite Z1.
    replace (memN 0 freed) with false by (symmetry; apply memN_false; exact Z2).
    rewrite N.eqb_refl. reflexivity.
  - cbn [snd]. constructor; [exact Z2|]. pose proof (r_fnd _ _ HR) as K. rewrite Ebk in K. exact K.
  - intros id. cbn [fst snd]. pose proof (r_next _ _ HR) as Hn. rewrite Ebk in Hn. cbn [fst] in Hn. split.
    + intros [<-|H]; [apply szof_lt in Z1; exact Z1|]. pose proof (r_freed _ _ HR id) as K. rewrite Ebk in K. rewrite <- Hn. apply K. exact H.
    + intros H. destruct (N.eq_dec id 0) as [->|Hne]; [left; reflexivity|]. right.
      destruct (r_out _ _ HR id) as [K|K]; [lia | rewrite Hn; exact H | rewrite Hempty in K; destruct K |].
      rewrite Ebk in K. exact K.
Qed.

(* after clearCache: every block that was on a free list has gone back with its node's size, the free lists are empty,
   the used lists and the non-cached list are untouched and none of their blocks has gone back *)
Lemma clear_cache_returns : forall ops,
  let st := after ops in let st' := fst (clear_cache st) in let x := snd (clear_cache st) in
  (forall nd b, In nd (s_cache st) -> In b (n_free nd) ->
     In (EF (b_mem b) (n_size nd)) (o_evs x) /\ In (EF (b_hdr b) block_hdr_size) (o_evs x)) /\
  s_cache st' = map keep_used (s_cache st) /\ s_non st' = s_non st /\
  exists bk, books_of (ops ++ [LClearCache]) = Some bk /\
             forall id, In id (all_ids st') -> ~ In id (snd bk).
Proof.
  intros ops st st' x. unfold st', x. rewrite clear_cache_eq. cbn [fst snd o_evs mk_out with_cache s_cache s_non].
  split; [|split; [reflexivity|split; [reflexivity|]]].
  - intros nd b H1 H2. split; apply in_flat_map; exists nd; (split; [exact H1|]); unfold destroy_list; apply in_flat_map;
      exists b; (split; [exact H2|]); simpl; auto.
  - destruct (reach (ops ++ [LClearCache])) as [s [HR [Hb _]]]. exists (a_bk s). split; [exact Hb|].
    intros id H. apply (r_ids _ _ HR id). unfold after. rewrite exec_snoc. cbn [fst step]. rewrite clear_cache_eq. exact H.
Qed.

(* ---------------------------------------------------------------- the hypotheses of the theorems are satisfiable *)
Definition ex_ops : list lop :=
  [LAlloc 10; LAlloc 20; LAlloc 33; LAlloc 300; LDealloc (PId 4) 20; LDealloc (PId 2) 5; LAlloc 1; LDealloc (PFor 0) 7].
Example ex_no_alias : o_ret (snd (alloc (after ex_ops) 7)) = Some 4 /\ In 2 (used_mems (after ex_ops)) /\ ~ In 4 (used_mems (after ex_ops)).
Proof. split; [reflexivity|]. split; [vm_compute; tauto|]. apply (no_alias ex_ops 7). reflexivity. Qed.
Example ex_reuse : In (2, 10) (handouts ex_ops (outs_of ex_ops)) /\ In (2, 1) (handouts ex_ops (outs_of ex_ops)) /\ cls 10 = cls 1.
Proof. split; [vm_compute; tauto|]. split; [vm_compute; tauto | reflexivity]. Qed.
Example ex_reuse_node : is_cached 7 = true /\ o_ret (snd (alloc (after ex_ops) 7)) = Some 4 /\ o_evs (snd (alloc (after ex_ops) 7)) = [].
Proof. repeat split. Qed.
Example ex_unknown : (forall b, In b (searched (after ex_ops) 40) -> mem_is b (PId 2) = false) /\ searched (after ex_ops) 40 <> [] /\
  In 2 (used_mems (after ex_ops)).
Proof.
  split; [|split].
  - intros b H. vm_compute in H. destruct H as [<-|[]]. reflexivity.
  - vm_compute. discriminate.
  - vm_compute. tauto.
Qed.
Example ex_warns : warns (outs_of ex_ops) = 1%nat.
Proof. reflexivity. Qed.
Example ex_all_returned : chks ([], []) (trace (ex_ops ++ [LClearAll]) ++ o_evs (snd (destroy (after (ex_ops ++ [LClearAll])))))
  = Some ([120; 16; 32; 16; 32; 16; 64; 16; 300], [0; 7; 8; 5; 6; 1; 2; 3; 4]).
Proof. vm_compute. reflexivity. Qed.
Example ex_clear_cache : exists nd b, In nd (s_cache (after ex_ops)) /\ In b (n_free nd).
Proof. exists {| n_size := 32; n_free := [{| b_hdr := 3; b_mem := 4 |}]; n_used := [{| b_hdr := 1; b_mem := 2 |}] |}, {| b_hdr := 3; b_mem := 4 |}.
  vm_compute. tauto. Qed.
