(* C16/C20 -- scripted tests and the callback order of TestRegistry::runAllTests (src/CppUTest/TestRegistry.cpp:46-74),
   shared by the JUnit (C16) and TeamCity (C20) models.  No proofs here. *)
From Coq Require Import NArith Bool List.
From CppUVerif Require Import lib.Str.
Import ListNotations.
Local Open Scope N_scope.

Definition bytes := list N.

(* statements of a scripted test body *)
Inductive stmt :=
| SPrint (text : bytes)                            (* TestResult::print(text) *)
| SFail (file : bytes) (line : N) (msg : bytes)    (* addFailure(FailFailure(...)): the test continues *)
| SFailStop (file : bytes) (line : N) (msg : bytes). (* fail(msg, file, line): counts a check, adds the failure, leaves the test *)

Record test := { t_group : bytes; t_name : bytes; t_file : bytes; t_line : N; t_ignored : bool; t_body : list stmt }.

(* what the output object is told, in order (TestResult forwards each call to TestOutput) *)
Inductive ev :=
| EGroupStart (t : test)          (* printCurrentGroupStarted(test) *)
| ETestStart (t : test)           (* printCurrentTestStarted(test); willRun() = negb t_ignored *)
| EPrint (s : bytes)              (* print(text) *)
| EFailure (t : test) (file : bytes) (line : N) (msg : bytes)   (* printFailure(failure) *)
| ETestEnd (checks : N)           (* printCurrentTestEnded(result); checks = checks counted in this test *)
| EGroupEnd.                      (* printCurrentGroupEnded(result) *)

(* Utest::run of the scripted body; fail() throws / longjmps out of the body *)
Fixpoint body_events (t : test) (b : list stmt) : list ev * N :=
  match b with
  | [] => ([], 0)
  | SPrint s :: r => let '(e, c) := body_events t r in (EPrint s :: e, c)
  | SFail f l m :: r => let '(e, c) := body_events t r in (EFailure t f l m :: e, c)
  | SFailStop f l m :: _ => ([EFailure t f l m], 1)
  end.

(* currentTestStarted; runOneTest (IgnoredUtestShell::runOneTest only counts); currentTestEnded *)
Definition test_events (t : test) : list ev :=
  if t_ignored t then [ETestStart t; ETestEnd 0]
  else let '(e, c) := body_events t (t_body t) in ETestStart t :: e ++ [ETestEnd c].

(* TestRegistry::endOfGroup(test) *)
Definition end_of_group (t : test) (rest : list test) : bool :=
  match rest with [] => true | n :: _ => negb (bytes_eqb (t_group t) (t_group n)) end.

(* the for loop of runAllTests with its groupStart flag (no filters: every test should run) *)
Fixpoint reg_loop (groupStart : bool) (ts : list test) : list ev :=
  match ts with
  | [] => []
  | t :: rest =>
      (if groupStart then [EGroupStart t] else []) ++ test_events t ++
      (if end_of_group t rest then EGroupEnd :: reg_loop true rest else reg_loop false rest)
  end.
Definition events_of (ts : list test) : list ev := reg_loop true ts.

(* ---- property-level reading of a run: maximal runs of consecutive tests with the same group name ---- *)
Fixpoint segments (ts : list test) : list (list test) :=
  match ts with
  | [] => []
  | t :: rest =>
      match segments rest with
      | (n :: g) :: gs => if bytes_eqb (t_group t) (t_group n) then (t :: n :: g) :: gs else [t] :: (n :: g) :: gs
      | _ => [[t]]
      end
  end.

(* the first failure a test reports, if any *)
Fixpoint first_failure (b : list stmt) : option (bytes * N * bytes) :=
  match b with
  | [] => None
  | SPrint _ :: r => first_failure r
  | SFail f l m :: _ | SFailStop f l m :: _ => Some (f, l, m)
  end.
Definition test_failure (t : test) : option (bytes * N * bytes) := if t_ignored t then None else first_failure (t_body t).
Definition test_failed (t : test) : bool := match test_failure t with Some _ => true | None => false end.

(* every failure a test reports, in order (statements after a fail() are not reached) *)
Fixpoint all_failures (b : list stmt) : list (bytes * N * bytes) :=
  match b with
  | [] => []
  | SPrint _ :: r => all_failures r
  | SFail f l m :: r => (f, l, m) :: all_failures r
  | SFailStop f l m :: _ => [(f, l, m)]
  end.

(* text printed by a test (statements after a fail() are not reached) *)
Fixpoint body_printed (b : list stmt) : bytes :=
  match b with
  | [] => []
  | SPrint s :: r => s ++ body_printed r
  | SFail _ _ _ :: r => body_printed r
  | SFailStop _ _ _ :: _ => []
  end.
Definition test_printed (t : test) : bytes := if t_ignored t then [] else body_printed (t_body t).
Definition tests_printed (ts : list test) : bytes := flat_map test_printed ts.

(* characters the properties quantify over: printable ASCII plus CR and LF (TAB excluded) *)
Definition okchar (c : N) : bool := ((32 <=? c) && (c <=? 126)) || (c =? 10) || (c =? 13).
Definition oktext (s : bytes) : bool := forallb okchar s.
Definition max_line : N := 2147483647.      (* line numbers are printed through (int) / %d *)
Definition okstmt (s : stmt) : bool :=
  match s with
  | SPrint x => oktext x
  | SFail f l m | SFailStop f l m => oktext f && (l <=? max_line) && oktext m
  end.
Definition oktest (t : test) : bool :=
  oktext (t_group t) && oktext (t_name t) && oktext (t_file t) && (t_line t <=? max_line) && forallb okstmt (t_body t).
