(* C18: how the object heap of the TRANSLATED SimpleStringInternalCache (gen/Gen_HeapC18.v, lib/CHeap.v) represents a state of
   the hand-written model (C18_Model.v): a SimpleStringMemoryBlock is a block of 2 cells [next_; memory_] (memory_ = the ordinal
   of the buffer allocation), a list of model blocks is a NULL-terminated chain of such heap blocks, the 5 cache nodes are one
   block of 15 cells (3 per node: size_, freeMemoryHead_, usedMemoryHead_), the cache object is a block of 4 cells.  The header
   ordinal b_hdr of a model block is not stored in the heap (the source frees the header through its address): the association
   `ids` from header heap blocks to ordinals carries it, and is what reads the ghost allocator events (erase).
   Definitions and basic facts only; the theorems about the translated functions are in C18_HeapTie.v. *)
From Coq Require Import ZArith NArith Bool List Lia.
From CppUVerif Require Import lib.CSem lib.CMem lib.CMemFacts lib.CHeap gen.Gen_C18 gen.Gen_HeapC18 C18_Model.
Import ListNotations.
Local Open Scope Z_scope.

Notation mblock := C18_Model.block.
Notation mnode := C18_Model.node.
Notation mptr := C18_Model.ptr.

(* ------------------------------------------------------------------ cells *)
Definition blk_cells (b : mblock) (nxt : hptr) : list val := [VPtr nxt; VInt (Z.of_N (b_mem b))].
Definition node_cells (nd : mnode) (pf pu : hptr) : list val := [VInt (Z.of_N (n_size nd)); VPtr pf; VPtr pu].
Definition cache_cells (al : Z) (bn : nat) (pn : hptr) (w : bool) : list val :=
  [VInt al; VPtr (HPtr bn 0); VPtr pn; VInt (b2z w)].

(* the orders above are the orders of the record definitions as clang reports them now *)
Lemma layout_is_the_source :
  off_SimpleStringMemoryBlock_next_ = 0 /\ off_SimpleStringMemoryBlock_memory_ = 1 /\ cells_SimpleStringMemoryBlock = 2 /\
  off_SimpleStringInternalCacheNode_size_ = 0 /\ off_SimpleStringInternalCacheNode_freeMemoryHead_ = 1 /\
  off_SimpleStringInternalCacheNode_usedMemoryHead_ = 2 /\ cells_SimpleStringInternalCacheNode = 3 /\
  off_SimpleStringInternalCache_allocator_ = 0 /\ off_SimpleStringInternalCache_cache_ = 1 /\
  off_SimpleStringInternalCache_nonCachedAllocations_ = 2 /\ off_SimpleStringInternalCache_hasWarnedAboutDeallocations = 3 /\
  cells_SimpleStringInternalCache = 4 /\
  sizeof_SimpleStringMemoryBlock = Z.of_N block_hdr_size /\ sizeof_SimpleStringInternalCacheNode = Z.of_N cache_node_size /\
  (forall b nxt, length (blk_cells b nxt) = Z.to_nat cells_SimpleStringMemoryBlock) /\
  (forall nd pf pu, length (node_cells nd pf pu) = Z.to_nat cells_SimpleStringInternalCacheNode) /\
  (forall al bn pn w, length (cache_cells al bn pn w) = Z.to_nat cells_SimpleStringInternalCache).
Proof. repeat split; reflexivity. Qed.

(* ------------------------------------------------------------------ header blocks -> header ordinals; reading the events *)
Fixpoint lookup (hb : nat) (ids : list (nat * N)) : option N :=
  match ids with
  | [] => None
  | (k, v) :: r => if Nat.eqb k hb then Some v else lookup hb r
  end.

Definition erase (ids : list (nat * N)) (e : hev) : option ev :=
  match e with
  | HAllocRec id _ sz => Some (EA (Z.to_N id) (Z.to_N sz))
  | HAllocBuf id sz => Some (EA (Z.to_N id) (Z.to_N sz))
  | HFreeBuf a sz => Some (EF (Z.to_N a) (Z.to_N sz))
  | HFreeRec (HPtr hb Z0) sz => match lookup hb ids with Some n => Some (EF n (Z.to_N sz)) | None => None end
  | HFreeRec _ _ => None
  | HWarn => None
  | HFail => None
  end.
(* an event that erase reads as intended: a record free names the start of a block whose ordinal is known *)
Definition resolved (ids : list (nat * N)) (e : hev) : Prop :=
  match e with
  | HFreeRec (HPtr hb Z0) _ => lookup hb ids <> None
  | HFreeRec _ _ => False
  | _ => True
  end.
Definition erase_all (ids : list (nat * N)) (l : list hev) : list ev :=
  flat_map (fun e => match erase ids e with Some x => [x] | None => [] end) l.
Definition is_warn (e : hev) : bool := match e with HWarn => true | _ => false end.
Definition has_warn (l : list hev) : bool := existsb is_warn l.

(* the opaque address of a model pointer: buffers are addressed by their ordinal; a pointer the cache never handed out is
   not the address of any buffer *)
Definition addr_of (p : mptr) : Z := match p with PId m => Z.of_N m | PFor k => -1 - Z.of_N k end.

(* ------------------------------------------------------------------ chains *)
(* chain h ids p bs l: from pointer p the heap blocks bs (in this order) hold the model blocks l, linked by next_, ending in
   NULL; ids knows the header ordinal of each *)
Fixpoint chain (h : heap) (ids : list (nat * N)) (p : hptr) (bs : list nat) (l : list mblock) : Prop :=
  match l, bs with
  | [], [] => p = HNull
  | b :: l', hb :: bs' =>
      p = HPtr hb 0 /\ lookup hb ids = Some (b_hdr b) /\ exists nxt, hblock h hb = blk_cells b nxt /\ chain h ids nxt bs' l'
  | _, _ => False
  end.

(* where the structure lives: the cache object, the node array, the blocks of the free and used list of each node (index
   order), the blocks of the non-cached list; the value of allocator_ *)
Record lay := { l_bt : nat; l_bn : nat; l_fr : list (list nat); l_us : list (list nat); l_non : list nat; l_al : Z }.
Definition lay_blocks (L : lay) : list nat := l_bt L :: l_bn L :: concat (l_fr L) ++ concat (l_us L) ++ l_non L.

Definition rep (h : heap) (this : hptr) (ids : list (nat * N)) (L : lay) (st : state) : Prop :=
  this = HPtr (l_bt L) 0 /\
  (exists pn, hblock h (l_bt L) = cache_cells (l_al L) (l_bn L) pn (s_warned st) /\ chain h ids pn (l_non L) (s_non st)) /\
  length (s_cache st) = 5%nat /\ length (l_fr L) = 5%nat /\ length (l_us L) = 5%nat /\
  length (hblock h (l_bn L)) = 15%nat /\
  (forall i, (i < 5)%nat -> exists pf pu,
     nth_error (hblock h (l_bn L)) (3 * i) = Some (VInt (Z.of_N (n_size (nth i (s_cache st) dnode)))) /\
     nth_error (hblock h (l_bn L)) (3 * i + 1) = Some (VPtr pf) /\
     nth_error (hblock h (l_bn L)) (3 * i + 2) = Some (VPtr pu) /\
     chain h ids pf (nth i (l_fr L) []) (n_free (nth i (s_cache st) dnode)) /\
     chain h ids pu (nth i (l_us L) []) (n_used (nth i (s_cache st) dnode))) /\
  NoDup (lay_blocks L) /\ Forall (fun b => (b < length h)%nat) (lay_blocks L).

(* one fuel for everything: more than the 5 nodes and more than the longest list *)
Definition fuel_ok (fuel : nat) (st : state) : Prop :=
  (5 < fuel)%nat /\ (length (s_non st) < fuel)%nat /\
  forall nd, In nd (s_cache st) -> (length (n_free nd) < fuel)%nat /\ (length (n_used nd) < fuel)%nat.

(* the node array written out (equivalent to the pointwise clause of rep) *)
Lemma node_array_cells h bn c0 c1 c2 c3 c4 f0 u0 f1 u1 f2 u2 f3 u3 f4 u4 :
  hblock h bn = node_cells c0 f0 u0 ++ node_cells c1 f1 u1 ++ node_cells c2 f2 u2 ++ node_cells c3 f3 u3 ++ node_cells c4 f4 u4 ->
  length (hblock h bn) = 15%nat /\
  forall i, (i < 5)%nat ->
    nth_error (hblock h bn) (3 * i) = Some (VInt (Z.of_N (n_size (nth i [c0; c1; c2; c3; c4] dnode)))) /\
    nth_error (hblock h bn) (3 * i + 1) = Some (VPtr (nth i [f0; f1; f2; f3; f4] HNull)) /\
    nth_error (hblock h bn) (3 * i + 2) = Some (VPtr (nth i [u0; u1; u2; u3; u4] HNull)).
Proof.
  intro H. rewrite H. split; [reflexivity|]. intros i Hi.
  destruct i as [|[|[|[|[|i]]]]]; try lia; repeat split; reflexivity.
Qed.

(* ------------------------------------------------------------------ lookup, erase *)
Lemma lookup_cons_other k v hb ids : k <> hb -> lookup hb ((k, v) :: ids) = lookup hb ids.
Proof. intro H. cbn [lookup]. destruct (Nat.eqb_spec k hb) as [E|E]; [contradiction | reflexivity]. Qed.
Lemma lookup_cons_same k v ids : lookup k ((k, v) :: ids) = Some v.
Proof. cbn [lookup]. rewrite Nat.eqb_refl. reflexivity. Qed.

Lemma erase_all_app ids a b : erase_all ids (a ++ b) = erase_all ids a ++ erase_all ids b.
Proof. unfold erase_all. apply flat_map_app. Qed.
Lemma has_warn_app a b : has_warn (a ++ b) = has_warn a || has_warn b.
Proof. unfold has_warn. apply existsb_app. Qed.
Lemma has_warn_In l : has_warn l = true <-> In HWarn l.
Proof.
  unfold has_warn. rewrite existsb_exists. split.
  - intros [e [Hin He]]. destruct e; try discriminate He. exact Hin.
  - intro H. exists HWarn. split; [exact H | reflexivity].
Qed.

(* ------------------------------------------------------------------ chains: inversion, frame *)
Lemma chain_nil_inv h ids p bs : chain h ids p bs [] -> p = HNull /\ bs = [].
Proof. destruct bs; cbn; [intro H; split; [exact H | reflexivity] | intros []]. Qed.
Lemma chain_cons_inv h ids p bs b l : chain h ids p bs (b :: l) ->
  exists hb bs' nxt, bs = hb :: bs' /\ p = HPtr hb 0 /\ lookup hb ids = Some (b_hdr b) /\ hblock h hb = blk_cells b nxt /\
                     chain h ids nxt bs' l.
Proof.
  destruct bs as [|hb bs']; cbn; [intros []|]. intros [Hp [Hl [nxt [Hb Hc]]]]. exists hb, bs', nxt. repeat split; assumption.
Qed.
Lemma chain_null_inv h ids bs l : chain h ids HNull bs l -> bs = [] /\ l = [].
Proof.
  destruct l as [|b l]; intro H.
  - apply chain_nil_inv in H. destruct H as [_ ->]. split; reflexivity.
  - apply chain_cons_inv in H. destruct H as [hb [bs' [nxt [_ [E _]]]]]. discriminate E.
Qed.
Lemma chain_length h ids : forall l p bs, chain h ids p bs l -> length bs = length l.
Proof.
  induction l as [|b l IH]; intros p bs H.
  - apply chain_nil_inv in H. destruct H as [_ ->]. reflexivity.
  - apply chain_cons_inv in H. destruct H as [hb [bs' [nxt [-> [_ [_ [_ Hc]]]]]]]. cbn. f_equal. exact (IH _ _ Hc).
Qed.
(* a chain only depends on the blocks it goes through and on what ids says about them *)
Lemma chain_frame h h' ids ids' : forall l p bs,
  (forall b, In b bs -> hblock h' b = hblock h b) -> (forall b, In b bs -> lookup b ids' = lookup b ids) ->
  chain h ids p bs l -> chain h' ids' p bs l.
Proof.
  induction l as [|b l IH]; intros p bs Hf Hi H.
  - apply chain_nil_inv in H. destruct H as [-> ->]. reflexivity.
  - apply chain_cons_inv in H. destruct H as [hb [bs' [nxt [-> [-> [Hl [Hb Hc]]]]]]]. cbn [chain]. split; [reflexivity|].
    split; [rewrite Hi by (left; reflexivity); exact Hl|]. exists nxt. split.
    + rewrite Hf by (left; reflexivity). exact Hb.
    + apply IH; [| |exact Hc]; intros b' Hin; [apply Hf | apply Hi]; right; exact Hin.
Qed.

(* ------------------------------------------------------------------ the model's node replacement *)
Lemma set_nth_length x : forall c i, length (set_nth i x c) = length c.
Proof. induction c as [|y c IH]; intros [|i]; cbn; auto. Qed.
Lemma set_nth_same x : forall c i, (i < length c)%nat -> nth i (set_nth i x c) dnode = x.
Proof. induction c as [|y c IH]; intros [|i] H; cbn in *; try lia; auto. apply IH. lia. Qed.
Lemma set_nth_other x : forall c i j, i <> j -> nth j (set_nth i x c) dnode = nth j c dnode.
Proof. induction c as [|y c IH]; intros [|i] [|j] H; cbn; auto; try congruence. Qed.
Lemma set_nth_In x y : forall c i, In y (set_nth i x c) -> y = x \/ In y c.
Proof.
  induction c as [|z c IH]; intros [|i] H; cbn in *; auto.
  - destruct H as [H|H]; [left; symmetry; exact H | right; right; exact H].
  - destruct H as [H|H]; [right; left; exact H|]. destruct (IH _ H) as [E|E]; [left; exact E | right; right; exact E].
Qed.

(* ------------------------------------------------------------------ counting occurrences: distinctness under regrouping *)
Definition cnt (x : nat) (l : list nat) : nat := count_occ Nat.eq_dec l x.
Definition one (a x : nat) : nat := if Nat.eq_dec a x then 1%nat else 0%nat.
Lemma cnt_nil x : cnt x [] = 0%nat. Proof. reflexivity. Qed.
Lemma cnt_cons x a l : cnt x (a :: l) = (one a x + cnt x l)%nat.
Proof. unfold cnt, one. cbn [count_occ]. destruct (Nat.eq_dec a x); reflexivity. Qed.
Lemma cnt_app x a b : cnt x (a ++ b) = (cnt x a + cnt x b)%nat.
Proof. unfold cnt. apply count_occ_app. Qed.
Lemma one_same a : one a a = 1%nat. Proof. unfold one. destruct (Nat.eq_dec a a); [reflexivity | contradiction]. Qed.
Lemma one_other a x : a <> x -> one a x = 0%nat. Proof. intro H. unfold one. destruct (Nat.eq_dec a x); [contradiction | reflexivity]. Qed.
Lemma one_le a x : (one a x <= 1)%nat. Proof. unfold one. destruct (Nat.eq_dec a x); lia. Qed.
Lemma NoDup_cnt l : NoDup l <-> forall x, (cnt x l <= 1)%nat.
Proof. unfold cnt. apply NoDup_count_occ. Qed.
Lemma In_cnt x l : In x l <-> (cnt x l > 0)%nat.
Proof. unfold cnt. apply count_occ_In. Qed.
Lemma notIn_cnt x l : ~ In x l <-> cnt x l = 0%nat.
Proof. unfold cnt. apply count_occ_not_In. Qed.
Lemma cnt_concat_upd x (v : list nat) : forall ls i, (i < length ls)%nat ->
  cnt x (concat (upd ls i v)) = (cnt x v + cnt x (concat (upd ls i [])))%nat.
Proof.
  induction ls as [|a ls IH]; intros [|i] H; cbn [length] in H; try lia; cbn [upd concat]; rewrite !cnt_app.
  - rewrite cnt_nil. lia.
  - rewrite IH by lia. lia.
Qed.
Lemma cnt_concat_nth x : forall (ls : list (list nat)) i, (i < length ls)%nat ->
  cnt x (concat ls) = (cnt x (nth i ls []) + cnt x (concat (upd ls i [])))%nat.
Proof.
  induction ls as [|a ls IH]; intros [|i] H; cbn [length] in H; try lia; cbn [upd concat nth]; rewrite !cnt_app.
  - rewrite cnt_nil. lia.
  - rewrite (IH i) by lia. lia.
Qed.
Lemma cnt_lay x L : cnt x (lay_blocks L) =
  (one (l_bt L) x + one (l_bn L) x + cnt x (concat (l_fr L)) + cnt x (concat (l_us L)) + cnt x (l_non L))%nat.
Proof. unfold lay_blocks. rewrite !cnt_cons, !cnt_app. lia. Qed.

Lemma In_concat_nth (x : nat) : forall (ls : list (list nat)) i, In x (nth i ls []) -> In x (concat ls).
Proof.
  induction ls as [|a ls IH]; intros [|i] H; cbn [nth] in H; try (destruct H; fail); cbn [concat]; apply in_or_app.
  - left. exact H.
  - right. exact (IH _ H).
Qed.
Lemma In_concat_upd (x : nat) v : forall (ls : list (list nat)) i, In x (concat (upd ls i v)) -> In x v \/ In x (concat ls).
Proof.
  induction ls as [|a ls IH]; intros [|i] H; cbn [upd concat] in *; try (destruct H; fail).
  - apply in_app_or in H. destruct H as [H|H]; [left; exact H | right; apply in_or_app; right; exact H].
  - apply in_app_or in H. destruct H as [H|H]; [right; apply in_or_app; left; exact H|].
    destruct (IH _ H) as [E|E]; [left; exact E | right; apply in_or_app; right; exact E].
Qed.

(* the layout with the lists of node i replaced / the non-cached list replaced *)
Definition lay_set_node (L : lay) (i : nat) (fr us : list nat) : lay :=
  {| l_bt := l_bt L; l_bn := l_bn L; l_fr := upd (l_fr L) i fr; l_us := upd (l_us L) i us; l_non := l_non L; l_al := l_al L |}.
Definition lay_set_non (L : lay) (non : list nat) : lay :=
  {| l_bt := l_bt L; l_bn := l_bn L; l_fr := l_fr L; l_us := l_us L; l_non := non; l_al := l_al L |}.

Lemma cnt_lay_set_node x L i fr us : (i < length (l_fr L))%nat -> (i < length (l_us L))%nat ->
  (cnt x (lay_blocks (lay_set_node L i fr us)) + cnt x (nth i (l_fr L) []) + cnt x (nth i (l_us L) []) =
   cnt x (lay_blocks L) + cnt x fr + cnt x us)%nat.
Proof.
  intros H1 H2. rewrite !cnt_lay. cbn [lay_set_node l_bt l_bn l_fr l_us l_non].
  rewrite (cnt_concat_upd x fr (l_fr L) i H1), (cnt_concat_upd x us (l_us L) i H2).
  rewrite (cnt_concat_nth x (l_fr L) i H1), (cnt_concat_nth x (l_us L) i H2). lia.
Qed.
Lemma cnt_lay_set_non x L non :
  (cnt x (lay_blocks (lay_set_non L non)) + cnt x (l_non L) = cnt x (lay_blocks L) + cnt x non)%nat.
Proof. rewrite !cnt_lay. cbn [lay_set_non l_bt l_bn l_fr l_us l_non]. lia. Qed.

Lemma In_lay_set_node x L i fr us : In x (lay_blocks (lay_set_node L i fr us)) -> In x fr \/ In x us \/ In x (lay_blocks L).
Proof.
  unfold lay_blocks. cbn [lay_set_node l_bt l_bn l_fr l_us l_non]. intros [H|[H|H]].
  - right. right. left. exact H.
  - right. right. right. left. exact H.
  - apply in_app_or in H. destruct H as [H|H].
    + destruct (In_concat_upd _ _ _ _ H) as [E|E]; [left; exact E|]. right. right. right. right. apply in_or_app. left. exact E.
    + apply in_app_or in H. destruct H as [H|H].
      * destruct (In_concat_upd _ _ _ _ H) as [E|E]; [right; left; exact E|]. right. right. right. right. apply in_or_app. right.
        apply in_or_app. left. exact E.
      * right. right. right. right. apply in_or_app. right. apply in_or_app. right. exact H.
Qed.
Lemma In_lay_set_non x L non : In x (lay_blocks (lay_set_non L non)) -> In x non \/ In x (lay_blocks L).
Proof.
  unfold lay_blocks. cbn [lay_set_non l_bt l_bn l_fr l_us l_non]. intros [H|[H|H]].
  - right. left. exact H.
  - right. right. left. exact H.
  - apply in_app_or in H. destruct H as [H|H]; [right; right; right; apply in_or_app; left; exact H|].
    apply in_app_or in H. destruct H as [H|H]; [|left; exact H].
    right. right. right. apply in_or_app. right. apply in_or_app. left. exact H.
Qed.

(* membership in the structure *)
Lemma In_lay_bt L : In (l_bt L) (lay_blocks L). Proof. left. reflexivity. Qed.
Lemma In_lay_bn L : In (l_bn L) (lay_blocks L). Proof. right. left. reflexivity. Qed.
Lemma In_lay_fr L i x : In x (nth i (l_fr L) []) -> In x (lay_blocks L).
Proof. intro H. right. right. apply in_or_app. left. exact (In_concat_nth _ _ _ H). Qed.
Lemma In_lay_us L i x : In x (nth i (l_us L) []) -> In x (lay_blocks L).
Proof. intro H. right. right. apply in_or_app. right. apply in_or_app. left. exact (In_concat_nth _ _ _ H). Qed.
Lemma In_lay_non L x : In x (l_non L) -> In x (lay_blocks L).
Proof. intro H. right. right. apply in_or_app. right. apply in_or_app. right. exact H. Qed.

(* rep does not look at s_next *)
Lemma rep_next h this ids L st st' : s_cache st' = s_cache st -> s_non st' = s_non st -> s_warned st' = s_warned st ->
  rep h this ids L st -> rep h this ids L st'.
Proof. intros E1 E2 E3 H. unfold rep in *. rewrite E1, E2, E3. exact H. Qed.
