(* C02: the registered-test list (UtestShell::next_, TestRegistry::tests_) and the pointer array that reverses / shuffles it
   (UtestShellPointerArray), as translated from source on every run (gen/Gen_HeapC02.v), run on a heap that REPRESENTS a model
   value (C02_Model.v: the registry and the array are lists, here lists of the heap block numbers of the shells), return FOk of
   what represents the model function's result and a heap that represents its new value; every block not mentioned is unchanged.

   Representation.  A shell is a heap block with more than 4 cells whose cell 4 (next_) holds `VPtr` of the next shell's
   `HPtr b 0` or `VPtr HNull`; the other cells are arbitrary and never written.  `tchain h p bs`: from pointer p the shell blocks
   bs are linked in this order and end in NULL (`tlist`: and they are distinct and inside the heap).  An array object
   (`array_at h ba bc a`) is the block ba = [VPtr (HPtr bc 0); VInt count] whose cell block bc holds `VPtr (HPtr b 0)` for the
   blocks b of the model array a.  A registry object (`registry_at h br bs`) is a block whose cell 0 (tests_) holds the head
   pointer of the list of the shells bs.  The ghost stream `rands` is what PlatformSpecificRand() returns, in order.

   Theorems (all Qed, closed under the global context):
     src_shell_getNext_spec, src_shell_addTest_spec, src_shell_countTests_spec            (1)  fuel: length bs <= fuel, exact
     src_array_swap_spec / src_array_swap_oob (model None <-> source Oob), _get_, _getFirstTest_  (2)  no fuel
     src_array_relinkTestsInOrder_spec  (relink a = Some a)                                (3)  fuel: length a < fuel, exact
     src_array_reverse_spec             (reverse a = Some (rev a))                         (4)  fuel: length a < fuel
     src_array_shuffle_spec             (shuffle seed (map Z.to_N rs) a, stream left)      (5)  fuel: length a < fuel
     src_registry_addTest_spec / _model (add_test), _getFirstTest_, _countTests_ (length bs <= fuel), _getTestWithNext_
                                        (length bs < fuel)                                 (6)
   `relinked h a h'` / `permuted h bc a' h'` describe the heap afterwards block by block (only the next_ cells of the shells of
   the array and, for reverse / shuffle, the cell block are written).
   Finding recorded in the examples at the end: addTest of a shell that is ALREADY registered is not the model's cons -- the
   source overwrites the shell's next_ and the list becomes a cycle (countTests never returns); hence `~ In b bs` in (6). *)
From Coq Require Import ZArith NArith Bool List Lia.
From CppUVerif Require Import lib.CSem lib.CMem lib.CMemFacts lib.CHeap gen.Gen_HeapC02 C02_Model.
From Coq Require Import Permutation.
From CppUVerif Require C02_Proofs.
Import ListNotations.
Local Open Scope Z_scope.

(* ------------------------------------------------------------------ the layout, as re-read from the class definitions on every run *)
Lemma layout_is_the_source :
  off_UtestShell_next_ = 4 /\ cells_UtestShell = 7 /\
  off_UtestShellPointerArray_arrayOfTests_ = 0 /\ off_UtestShellPointerArray_count_ = 1 /\ cells_UtestShellPointerArray = 2 /\
  off_TestRegistry_tests_ = 0.
Proof. repeat split; reflexivity. Qed.

(* ------------------------------------------------------------------ pointer steps, loads, stores at a known position *)
Lemma h_padd h b i k : 0 <= i + k <= Z.of_nat (length (hblock h b)) -> hpadd h (HPtr b i) k = Some (HPtr b (i + k)).
Proof.
  intro H. unfold hpadd. replace (0 <=? i + k) with true by (symmetry; apply Z.leb_le; lia).
  replace (i + k <=? Z.of_nat (length (hblock h b))) with true by (symmetry; apply Z.leb_le; lia). reflexivity.
Qed.
Lemma h_padd0 h b (k : nat) : (k <= length (hblock h b))%nat -> hpadd h (HPtr b 0) (Z.of_nat k) = Some (HPtr b (Z.of_nat k)).
Proof. intro H. rewrite h_padd by lia. reflexivity. Qed.
Lemma h_padd_none h b i k : ~ (0 <= i + k <= Z.of_nat (length (hblock h b))) -> hpadd h (HPtr b i) k = None.
Proof.
  intro H. unfold hpadd. destruct (Z.leb_spec 0 (i + k)) as [A|A]; [|reflexivity].
  destruct (Z.leb_spec (i + k) (Z.of_nat (length (hblock h b)))) as [B|B]; [lia|reflexivity].
Qed.
Lemma h_load_ptr h b (k : nat) p : nth_error (hblock h b) k = Some (VPtr p) -> hload_ptr h (HPtr b (Z.of_nat k)) = Some p.
Proof. intro H. unfold hload_ptr. rewrite hload_cell. unfold cell. rewrite H. reflexivity. Qed.
Lemma h_load_int h b (k : nat) z : nth_error (hblock h b) k = Some (VInt z) -> hload_int h (HPtr b (Z.of_nat k)) = Some z.
Proof. intro H. unfold hload_int. rewrite hload_cell. unfold cell. rewrite H. reflexivity. Qed.
Lemma h_load_ptr_none h b (k : nat) : nth_error (hblock h b) k = None -> hload_ptr h (HPtr b (Z.of_nat k)) = None.
Proof. intro H. unfold hload_ptr. rewrite hload_cell. unfold cell. rewrite H. reflexivity. Qed.
Lemma h_store h b (k : nat) v : (b < length h)%nat -> (k < length (hblock h b))%nat ->
  hstore h (HPtr b (Z.of_nat k)) v = Some (CMem.upd h b (CMem.upd (hblock h b) k v)).
Proof.
  intros Hb Hk. rewrite hstore_cell.
  replace (Nat.ltb k (length (hblock h b))) with true by (symmetry; apply Nat.ltb_lt; exact Hk).
  replace (Nat.ltb b (length h)) with true by (symmetry; apply Nat.ltb_lt; exact Hb). reflexivity.
Qed.

(* the two `upd` (lib/CMem.v and C02_Model.v) are the same function *)
Lemma upd_same {A} : forall (l : list A) i v, CMem.upd l i v = C02_Model.upd l i v.
Proof. induction l as [|x l IH]; intros [|i] v; cbn; try reflexivity; rewrite IH; reflexivity. Qed.
Lemma upd_map {A B} (f : A -> B) : forall (l : list A) i v, C02_Model.upd (map f l) i (f v) = map f (C02_Model.upd l i v).
Proof. induction l as [|x l IH]; intros [|i] v; cbn; try reflexivity. rewrite IH. reflexivity. Qed.
Lemma swap_map {A B} (f : A -> B) (l : list A) i1 i2 :
  swap (map f l) i1 i2 = match swap l i1 i2 with Some l' => Some (map f l') | None => None end.
Proof.
  unfold swap. rewrite !nth_error_map. destruct (nth_error l i2) as [e2|]; [|reflexivity].
  destruct (nth_error l i1) as [e1|]; [|reflexivity]. cbn [option_map]. rewrite !upd_map. reflexivity.
Qed.
Lemma swap_some_lt {A} (l l' : list A) i1 i2 : swap l i1 i2 = Some l' -> (i1 < length l /\ i2 < length l /\ length l' = length l)%nat.
Proof.
  intro H. destruct (C02_Proofs.swap_perm l i1 i2 l' H) as [_ L]. unfold swap in H.
  destruct (nth_error l i2) eqn:E2; [|discriminate]. destruct (nth_error l i1) eqn:E1; [|discriminate].
  split; [apply nth_error_Some; congruence|]. split; [apply nth_error_Some; congruence|exact L].
Qed.

(* ------------------------------------------------------------------ shells and chains *)
Definition shell_in (h : heap) (b : nat) : Prop := (b < length h)%nat /\ (4 < length (hblock h b))%nat.
Definition hd_ptr (bs : list nat) : hptr := match bs with [] => HNull | b :: _ => HPtr b 0 end.

Fixpoint tchain (h : heap) (p : hptr) (bs : list nat) : Prop :=
  match bs with
  | [] => p = HNull
  | b :: bs' => p = HPtr b 0 /\ exists q, cell h b 4 = Some (VPtr q) /\ tchain h q bs'
  end.
(* a registered-test list: a chain of distinct shells inside the heap *)
Definition tlist (h : heap) (p : hptr) (bs : list nat) : Prop :=
  tchain h p bs /\ NoDup bs /\ Forall (shell_in h) bs.

Lemma tchain_head h p bs : tchain h p bs -> p = hd_ptr bs.
Proof. destruct bs as [|b bs]; cbn; [intro H; exact H | intros [H _]; exact H]. Qed.
Lemma tchain_frame h h' : forall bs p, (forall b, In b bs -> hblock h' b = hblock h b) -> tchain h p bs -> tchain h' p bs.
Proof.
  induction bs as [|b bs IH]; intros p Hf H; [exact H|].
  destruct H as [Hp [q [Hq Hc]]]. split; [exact Hp|]. exists q. split.
  - unfold cell. rewrite Hf by (left; reflexivity). exact Hq.
  - apply IH; [|exact Hc]. intros b' Hin. apply Hf. right. exact Hin.
Qed.
Lemma tchain_shell h : forall bs p b, tchain h p bs -> In b bs -> (4 < length (hblock h b))%nat.
Proof.
  induction bs as [|b0 bs IH]; intros p b H Hin; [destruct Hin|].
  destruct H as [_ [q [Hq Hc]]]. destruct Hin as [<-|Hin].
  - apply nth_error_Some. unfold cell in Hq. congruence.
  - exact (IH q b Hc Hin).
Qed.
(* a heap in which every shell of bs points to the shell after it is a chain over bs *)
Lemma tchain_of_cells h : forall bs,
  (forall k b, nth_error bs k = Some b -> cell h b 4 = Some (VPtr (hd_ptr (skipn (S k) bs)))) -> tchain h (hd_ptr bs) bs.
Proof.
  induction bs as [|b bs IH]; intro H; [reflexivity|].
  split; [reflexivity|]. exists (hd_ptr bs). split.
  - exact (H 0%nat b eq_refl).
  - apply IH. intros k b' Hk. exact (H (S k) b' Hk).
Qed.

(* the next_ cell of shell b *)
Lemma next_padd h b : (4 < length (hblock h b))%nat -> hpadd h (HPtr b 0) 4 = Some (HPtr b 4).
Proof. intro H. exact (h_padd0 h b 4 ltac:(lia)). Qed.
Lemma next_load h b q : cell h b 4 = Some (VPtr q) -> hpadd h (HPtr b 0) 4 = Some (HPtr b 4) /\ hload_ptr h (HPtr b 4) = Some q.
Proof.
  intro H. split.
  - apply next_padd. apply nth_error_Some. unfold cell in H. congruence.
  - exact (h_load_ptr h b 4 q H).
Qed.

(* the heap after `b->next_ = q` *)
Definition set_next (h : heap) (b : nat) (q : hptr) : heap := CMem.upd h b (CMem.upd (hblock h b) 4 (VPtr q)).
Lemma set_next_length h b q : length (set_next h b q) = length h.
Proof. apply heap_upd_length. Qed.
Lemma set_next_same h b q : (b < length h)%nat -> hblock (set_next h b q) b = CMem.upd (hblock h b) 4 (VPtr q).
Proof. intro H. apply hblock_upd_same. exact H. Qed.
Lemma set_next_other h b q b' : b <> b' -> hblock (set_next h b q) b' = hblock h b'.
Proof. intro H. apply hblock_upd_other. exact H. Qed.
Lemma set_next_cell h b q : shell_in h b -> cell (set_next h b q) b 4 = Some (VPtr q).
Proof. intros [H1 H2]. unfold cell. rewrite set_next_same by exact H1. apply nth_error_upd_same. exact H2. Qed.
Lemma set_next_shell_in h b q b' : shell_in h b' -> shell_in (set_next h b q) b'.
Proof.
  intros [H1 H2]. split; [rewrite set_next_length; exact H1|].
  destruct (Nat.eq_dec b b') as [->|N].
  - rewrite set_next_same by exact H1. rewrite CMem.upd_length. exact H2.
  - rewrite set_next_other by exact N. exact H2.
Qed.

(* ================================================================== UtestShell::getNext, addTest, countTests *)
Theorem src_shell_getNext_spec fuel h rs b q : cell h b 4 = Some (VPtr q) ->
  src_shell_getNext fuel h rs (HPtr b 0) = FOk (q, h, rs).
Proof.
  intro H. destruct (next_load h b q H) as [E1 E2]. unfold src_shell_getNext. rewrite E1. cbv beta iota. rewrite E2. reflexivity.
Qed.

Theorem src_shell_addTest_spec fuel h rs b t : shell_in h b ->
  src_shell_addTest fuel h rs (HPtr b 0) t = FOk (HPtr b 0, set_next h b t, rs).
Proof.
  intros [H1 H2]. unfold src_shell_addTest. rewrite (next_padd h b H2). cbv beta iota.
  pose proof (h_store h b 4 (VPtr t) H1 H2) as S. change (Z.of_nat 4) with 4 in S. rewrite S. reflexivity.
Qed.

(* (1) the recursive count: fuel = recursion depth = length of the chain (exact: `length bs <= fuel`) *)
Theorem src_shell_countTests_spec : forall bs fuel h rs p,
  tchain h p bs -> bs <> [] -> (length bs <= fuel)%nat -> Z.of_nat (length bs) < 2 ^ 64 ->
  src_shell_countTests fuel h rs p = FOk (Z.of_nat (length bs), h, rs).
Proof.
  induction bs as [|b bs IH]; intros fuel h rs p Hc Hne Hf Hlen; [congruence|].
  destruct fuel as [|fuel]; [cbn in Hf; lia|].
  destruct Hc as [-> [q [Hq Hc]]]. destruct (next_load h b q Hq) as [E1 E2].
  cbn [src_shell_countTests]. rewrite E1. cbv beta iota. rewrite E2. cbv beta iota.
  destruct bs as [|b' bs'].
  - cbn in Hc. subst q. rewrite hp_bool_null. reflexivity.
  - pose proof (tchain_head _ _ _ Hc) as Hq'. cbn [hd_ptr] in Hq'. rewrite Hq' at 1. rewrite hp_bool_ptr.
    change (z2b 1) with true. cbv beta iota.
    rewrite (IH fuel h rs q Hc ltac:(discriminate) ltac:(cbn [length] in Hf |- *; lia) ltac:(cbn [length] in Hlen |- *; lia)).
    cbv beta iota. rewrite cw_u_small by (cbn [length] in Hlen |- *; lia).
    replace (Z.of_nat (length (b' :: bs')) + 1) with (Z.of_nat (length (b :: b' :: bs'))) by (cbn [length]; lia). reflexivity.
Qed.

(* ================================================================== the pointer array *)
Definition acells (a : list nat) : list val := map (fun b => VPtr (HPtr b 0)) a.
Definition array_at (h : heap) (ba bc : nat) (a : list nat) : Prop :=
  ba <> bc /\ (ba < length h)%nat /\ (bc < length h)%nat /\
  hblock h ba = [VPtr (HPtr bc 0); VInt (Z.of_nat (length a))] /\ hblock h bc = acells a.

Lemma acells_length a : length (acells a) = length a.
Proof. apply map_length. Qed.
Lemma acells_ptrs a : acells a = map VPtr (map (fun b => HPtr b 0) a).
Proof. unfold acells. rewrite map_map. reflexivity. Qed.
Lemma acells_nth a k b : nth_error a k = Some b -> nth_error (acells a) k = Some (VPtr (HPtr b 0)).
Proof. intro H. unfold acells. rewrite nth_error_map, H. reflexivity. Qed.

Lemma arr_this h ba bc a : array_at h ba bc a -> hload_ptr h (HPtr ba 0) = Some (HPtr bc 0).
Proof. intros (_ & _ & _ & Ha & _). apply (h_load_ptr h ba 0). rewrite Ha. reflexivity. Qed.
Lemma arr_cnt_padd h ba bc a : array_at h ba bc a -> hpadd h (HPtr ba 0) 1 = Some (HPtr ba 1).
Proof. intros (_ & _ & _ & Ha & _). apply (h_padd0 h ba 1). rewrite Ha. cbn [length]. lia. Qed.
Lemma arr_cnt h ba bc a : array_at h ba bc a -> hload_int h (HPtr ba 1) = Some (Z.of_nat (length a)).
Proof. intros (_ & _ & _ & Ha & _). apply (h_load_int h ba 1). rewrite Ha. reflexivity. Qed.
Lemma arr_idx_padd h ba bc a k : array_at h ba bc a -> (k <= length a)%nat ->
  hpadd h (HPtr bc 0) (Z.of_nat k) = Some (HPtr bc (Z.of_nat k)).
Proof. intros (_ & _ & _ & _ & Hc) Hk. apply h_padd0. rewrite Hc, acells_length. exact Hk. Qed.
Lemma arr_idx_load h ba bc a k b : array_at h ba bc a -> nth_error a k = Some b ->
  hload_ptr h (HPtr bc (Z.of_nat k)) = Some (HPtr b 0).
Proof. intros (_ & _ & _ & _ & Hc) Hk. apply h_load_ptr. rewrite Hc. apply acells_nth. exact Hk. Qed.
(* an array object only depends on its two blocks *)
Lemma array_at_frame h h' ba bc a : array_at h ba bc a -> length h' = length h ->
  hblock h' ba = hblock h ba -> hblock h' bc = hblock h bc -> array_at h' ba bc a.
Proof.
  intros (N & La & Lc & Ha & Hc) L Ea Ec. unfold array_at. rewrite L, Ea, Ec.
  split; [exact N|]. split; [exact La|]. split; [exact Lc|]. split; [exact Ha|exact Hc].
Qed.

(* (2) swap, on any block of pointer cells reached from cell 0 of the array object *)
Lemma src_array_swap_gen fuel h rs ba bc (ps ps' : list hptr) i1 i2 :
  ba <> bc -> (bc < length h)%nat -> cell h ba 0 = Some (VPtr (HPtr bc 0)) -> hblock h bc = map VPtr ps ->
  swap ps i1 i2 = Some ps' ->
  exists h', src_array_swap fuel h rs (HPtr ba 0) (Z.of_nat i1) (Z.of_nat i2) = FOk (tt, h', rs) /\
    hblock h' bc = map VPtr ps' /\ length h' = length h /\ (forall b, b <> bc -> hblock h' b = hblock h b).
Proof.
  intros N Lc Ha Hc Hs. destruct (swap_some_lt ps ps' i1 i2 Hs) as (L1 & L2 & _).
  unfold swap in Hs. destruct (nth_error ps i2) as [e2|] eqn:E2; [|discriminate]. destruct (nth_error ps i1) as [e1|] eqn:E1; [|discriminate].
  injection Hs as <-.
  assert (Len : length (hblock h bc) = length ps) by (rewrite Hc; apply map_length).
  assert (A0 : hload_ptr h (HPtr ba 0) = Some (HPtr bc 0)) by exact (h_load_ptr h ba 0 _ Ha).
  assert (P2 : hpadd h (HPtr bc 0) (Z.of_nat i2) = Some (HPtr bc (Z.of_nat i2))) by (apply h_padd0; lia).
  assert (P1 : hpadd h (HPtr bc 0) (Z.of_nat i1) = Some (HPtr bc (Z.of_nat i1))) by (apply h_padd0; lia).
  assert (V2 : hload_ptr h (HPtr bc (Z.of_nat i2)) = Some e2) by (apply h_load_ptr; rewrite Hc, nth_error_map, E2; reflexivity).
  assert (V1 : hload_ptr h (HPtr bc (Z.of_nat i1)) = Some e1) by (apply h_load_ptr; rewrite Hc, nth_error_map, E1; reflexivity).
  set (h1 := CMem.upd h bc (CMem.upd (hblock h bc) i1 (VPtr e2))).
  assert (S1 : hstore h (HPtr bc (Z.of_nat i1)) (VPtr e2) = Some h1) by (apply h_store; [exact Lc|lia]).
  assert (B1 : hblock h1 bc = CMem.upd (hblock h bc) i1 (VPtr e2)) by (apply hblock_upd_same; exact Lc).
  assert (O1 : forall b, b <> bc -> hblock h1 b = hblock h b).
  { intros b Hb. apply hblock_upd_other. intro Q. apply Hb. symmetry. exact Q. }
  assert (K1 : length h1 = length h) by apply heap_upd_length.
  assert (A1 : hload_ptr h1 (HPtr ba 0) = Some (HPtr bc 0)).
  { apply (h_load_ptr h1 ba 0). rewrite (O1 ba N). exact Ha. }
  assert (P2' : hpadd h1 (HPtr bc 0) (Z.of_nat i2) = Some (HPtr bc (Z.of_nat i2))).
  { apply h_padd0. rewrite B1, CMem.upd_length. lia. }
  set (h2 := CMem.upd h1 bc (CMem.upd (hblock h1 bc) i2 (VPtr e1))).
  assert (S2 : hstore h1 (HPtr bc (Z.of_nat i2)) (VPtr e1) = Some h2).
  { apply h_store; [rewrite K1; exact Lc|rewrite B1, CMem.upd_length; lia]. }
  exists h2. split; [|split; [|split]].
  - unfold src_array_swap. rewrite A0. cbv beta iota. rewrite P2. cbv beta iota. rewrite V2. cbv beta iota zeta.
    rewrite P1. cbv beta iota. rewrite V1. cbv beta iota zeta. rewrite S1. cbv beta iota.
    rewrite A1. cbv beta iota. rewrite P2'. cbv beta iota. rewrite S2. reflexivity.
  - unfold h2. rewrite hblock_upd_same by (rewrite K1; exact Lc). rewrite B1, Hc.
    rewrite <- (upd_map VPtr (C02_Model.upd ps i1 e2) i2 e1), <- (upd_map VPtr ps i1 e2). rewrite ?upd_same. reflexivity.
  - unfold h2. rewrite heap_upd_length. exact K1.
  - intros b Hb. unfold h2. rewrite hblock_upd_other by (intro Q; apply Hb; symmetry; exact Q). apply O1. exact Hb.
Qed.

(* an index at or past the end of the cell block: the address cannot be formed, or the cell cannot be read *)
Lemma idx_oob h bc (ps : list hptr) i : hblock h bc = map VPtr ps -> (length ps <= i)%nat ->
  match hpadd h (HPtr bc 0) (Z.of_nat i) with None => True | Some q => hload_ptr h q = None end.
Proof.
  intros Hc Hi. assert (Len : length (hblock h bc) = length ps) by (rewrite Hc; apply map_length).
  destruct (Nat.eq_dec i (length ps)) as [->|Hn].
  - rewrite h_padd0 by lia. apply h_load_ptr_none. apply nth_error_None. lia.
  - rewrite h_padd_none by lia. exact I.
Qed.

(* where the model's swap is None (an index outside the array) the translated swap is an out-of-bounds access *)
Lemma src_array_swap_gen_oob fuel h rs ba bc (ps : list hptr) i1 i2 :
  cell h ba 0 = Some (VPtr (HPtr bc 0)) -> hblock h bc = map VPtr ps ->
  swap ps i1 i2 = None -> src_array_swap fuel h rs (HPtr ba 0) (Z.of_nat i1) (Z.of_nat i2) = FOob.
Proof.
  intros Ha Hc Hs.
  assert (Len : length (hblock h bc) = length ps) by (rewrite Hc; apply map_length).
  assert (A0 : hload_ptr h (HPtr ba 0) = Some (HPtr bc 0)) by exact (h_load_ptr h ba 0 _ Ha).
  unfold src_array_swap. rewrite A0. cbv beta iota.
  unfold swap in Hs. destruct (nth_error ps i2) as [e2|] eqn:E2.
  - assert (L2 : (i2 < length ps)%nat) by (apply nth_error_Some; congruence).
    rewrite (h_padd0 h bc i2) by lia. cbv beta iota.
    rewrite (h_load_ptr h bc i2 e2) by (rewrite Hc, nth_error_map, E2; reflexivity). cbv beta iota zeta.
    destruct (nth_error ps i1) as [e1|] eqn:E1; [discriminate|]. apply nth_error_None in E1.
    pose proof (idx_oob h bc ps i1 Hc E1) as Ho.
    destruct (hpadd h (HPtr bc 0) (Z.of_nat i1)) as [q|]; [|reflexivity]. cbv beta iota. rewrite Ho. reflexivity.
  - apply nth_error_None in E2. pose proof (idx_oob h bc ps i2 Hc E2) as Ho.
    destruct (hpadd h (HPtr bc 0) (Z.of_nat i2)) as [q|]; [|reflexivity]. cbv beta iota. rewrite Ho. reflexivity.
Qed.

Theorem src_array_swap_spec fuel h rs ba bc a a' i1 i2 :
  array_at h ba bc a -> swap a i1 i2 = Some a' ->
  exists h', src_array_swap fuel h rs (HPtr ba 0) (Z.of_nat i1) (Z.of_nat i2) = FOk (tt, h', rs) /\
    array_at h' ba bc a' /\ length h' = length h /\ (forall b, b <> bc -> hblock h' b = hblock h b).
Proof.
  intros R Hs. destruct (swap_some_lt a a' i1 i2 Hs) as (_ & _ & La'). destruct R as (N & La & Lc & Ha & Hc).
  destruct (src_array_swap_gen fuel h rs ba bc (map (fun b => HPtr b 0) a) (map (fun b => HPtr b 0) a') i1 i2 N Lc) as (h' & E & B & K & O).
  - unfold cell. rewrite Ha. reflexivity.
  - rewrite Hc. apply acells_ptrs.
  - rewrite swap_map, Hs. reflexivity.
  - exists h'. split; [exact E|]. split; [|split; [exact K|exact O]].
    unfold array_at. rewrite K, (O ba N), La', B, <- acells_ptrs.
    split; [exact N|]. split; [exact La|]. split; [exact Lc|]. split; [exact Ha|reflexivity].
Qed.

Theorem src_array_swap_oob fuel h rs ba bc a i1 i2 :
  array_at h ba bc a -> swap a i1 i2 = None -> src_array_swap fuel h rs (HPtr ba 0) (Z.of_nat i1) (Z.of_nat i2) = FOob.
Proof.
  intros (N & La & Lc & Ha & Hc) Hs.
  apply (src_array_swap_gen_oob fuel h rs ba bc (map (fun b => HPtr b 0) a)).
  - unfold cell. rewrite Ha. reflexivity.
  - rewrite Hc. apply acells_ptrs.
  - rewrite swap_map, Hs. reflexivity.
Qed.

(* get / getFirstTest: the element, NULL past the end (the model's nth_error) *)
Theorem src_array_get_spec fuel h rs ba bc a k : array_at h ba bc a ->
  src_array_get fuel h rs (HPtr ba 0) (Z.of_nat k) = FOk (match nth_error a k with Some b => HPtr b 0 | None => HNull end, h, rs).
Proof.
  intro R. unfold src_array_get. rewrite (arr_cnt_padd _ _ _ _ R). cbv beta iota. rewrite (arr_cnt _ _ _ _ R). cbv beta iota.
  unfold c_ge. rewrite b2z_z2b. destruct (nth_error a k) as [b|] eqn:E.
  - assert (L : (k < length a)%nat) by (apply nth_error_Some; congruence).
    replace (Z.of_nat (length a) <=? Z.of_nat k) with false by (symmetry; apply Z.leb_gt; lia). cbv beta iota.
    rewrite (arr_this _ _ _ _ R). cbv beta iota. rewrite (arr_idx_padd _ _ _ _ k R) by lia. cbv beta iota.
    rewrite (arr_idx_load _ _ _ _ k b R E). reflexivity.
  - apply nth_error_None in E.
    replace (Z.of_nat (length a) <=? Z.of_nat k) with true by (symmetry; apply Z.leb_le; lia). reflexivity.
Qed.
Theorem src_array_getFirstTest_spec fuel h rs ba bc a : array_at h ba bc a ->
  src_array_getFirstTest fuel h rs (HPtr ba 0) = FOk (hd_ptr a, h, rs).
Proof.
  intro R. unfold src_array_getFirstTest. pose proof (src_array_get_spec fuel h rs ba bc a 0 R) as G.
  change (Z.of_nat 0) with 0 in G. rewrite G. destruct a; reflexivity.
Qed.

(* ================================================================== (3) relinkTestsInOrder *)
(* h' is h with the next_ cell of every shell of a set to the shell after it in a (NULL for the last), nothing else written *)
Definition relinked (h : heap) (a : list nat) (h' : heap) : Prop :=
  length h' = length h /\
  (forall b, ~ In b a -> hblock h' b = hblock h b) /\
  (forall k b, nth_error a k = Some b -> hblock h' b = CMem.upd (hblock h b) 4 (VPtr (hd_ptr (skipn (S k) a)))).

Lemma relinked_tlist h a h' : relinked h a h' -> NoDup a -> Forall (shell_in h) a -> tlist h' (hd_ptr a) a.
Proof.
  intros (L & O & W) Hn Hs. split; [|split; [exact Hn|]].
  - apply tchain_of_cells. intros k b Hk. unfold cell. rewrite (W k b Hk). apply nth_error_upd_same.
    rewrite Forall_forall in Hs. apply (Hs b). eapply nth_error_In. exact Hk.
  - rewrite Forall_forall in Hs |- *. intros b Hb. destruct (Hs b Hb) as [H1 H2]. split; [rewrite L; exact H1|].
    destruct (In_nth_error a b Hb) as [k Hk]. rewrite (W k b Hk), CMem.upd_length. exact H2.
Qed.
Lemma relinked_array h a h' ba bc a0 : relinked h a h' -> array_at h ba bc a0 -> ~ In ba a -> ~ In bc a -> array_at h' ba bc a0.
Proof. intros (L & O & _) R Na Nc. apply (array_at_frame h h' ba bc a0 R L); apply O; assumption. Qed.

Lemma skipn_app_mid {A} (pre : list A) x suf : skipn (S (length pre)) (pre ++ x :: suf) = suf.
Proof. induction pre as [|y pre IH]; [reflexivity|]. cbn [length app]. rewrite skipn_cons. exact IH. Qed.

(* the loop walks the array from its end: after `length suf` trips the shells of suf are linked and `tests` is their head;
   by induction on the part still to do, last element first *)
Lemma relink_loop_spec ba bc fuel0 rs : forall pre suf h fuel,
  array_at h ba bc (pre ++ suf) -> Z.of_nat (length (pre ++ suf)) < 2 ^ 64 ->
  NoDup pre -> Forall (shell_in h) pre -> ~ In ba pre -> ~ In bc pre -> (length pre < fuel)%nat ->
  exists h',
    src_array_relinkTestsInOrder_loop1 fuel0 fuel (HPtr ba 0) h rs (hd_ptr suf) (Z.of_nat (length suf))
      = Go (h', rs, hd_ptr (pre ++ suf), Z.of_nat (length (pre ++ suf))) /\
    length h' = length h /\
    (forall b, ~ In b pre -> hblock h' b = hblock h b) /\
    (forall k b, nth_error pre k = Some b -> hblock h' b = CMem.upd (hblock h b) 4 (VPtr (hd_ptr (skipn (S k) (pre ++ suf))))).
Proof.
  induction pre as [|b pre IH] using rev_ind; intros suf h fuel R Hlen Hn Hs Na Nc Hf.
  - destruct fuel as [|fuel]; [cbn in Hf; lia|]. cbn [app] in *.
    cbn [src_array_relinkTestsInOrder_loop1]. rewrite (arr_cnt_padd _ _ _ _ R). cbv beta iota. rewrite (arr_cnt _ _ _ _ R). cbv beta iota.
    unfold c_lt. rewrite Z.ltb_irrefl. change (z2b (b2z false)) with false. cbv beta iota.
    exists h. split; [reflexivity|]. split; [reflexivity|]. split; [intros; reflexivity|]. intros [|k] b' Hk; discriminate Hk.
  - rewrite <- app_assoc in R, Hlen |- *. cbn [app] in R, Hlen |- *.
    rewrite app_length in Hf. cbn [length] in Hf. destruct fuel as [|fuel]; [lia|].
    apply NoDup_remove in Hn. rewrite app_nil_r in Hn. destruct Hn as [Hn Nb].
    apply Forall_app in Hs. destruct Hs as [Hs Hsb]. apply Forall_inv in Hsb.
    assert (Nab : b <> ba) by (intro Q; apply Na; apply in_or_app; right; left; exact Q).
    assert (Ncb : b <> bc) by (intro Q; apply Nc; apply in_or_app; right; left; exact Q).
    assert (Na' : ~ In ba pre) by (intro Q; apply Na; apply in_or_app; left; exact Q).
    assert (Nc' : ~ In bc pre) by (intro Q; apply Nc; apply in_or_app; left; exact Q).
    set (a := pre ++ b :: suf) in *.
    assert (La : length a = (length pre + S (length suf))%nat) by (unfold a; rewrite app_length; reflexivity).
    assert (Eb : nth_error a (length pre) = Some b) by (unfold a; apply nth_error_app_mid).
    assert (EJ : cw 64 false (cw 64 false (Z.of_nat (length a) - Z.of_nat (length suf)) - 1) = Z.of_nat (length pre)).
    { rewrite (cw_u_small 64 (Z.of_nat (length a) - Z.of_nat (length suf))) by lia. rewrite cw_u_small by lia. lia. }
    assert (EI : cw 64 false (Z.of_nat (length suf) + 1) = Z.of_nat (length (b :: suf))).
    { rewrite cw_u_small by lia. cbn [length]. lia. }
    set (h1 := set_next h b (hd_ptr suf)).
    destruct (IH (b :: suf) h1 fuel) as (h' & EL & L' & O' & W').
    { apply (array_at_frame h h1 ba bc a R); [apply set_next_length|apply set_next_other; exact Nab|apply set_next_other; exact Ncb]. }
    { exact Hlen. }
    { exact Hn. }
    { eapply Forall_impl; [|exact Hs]. intros b0 H0. apply set_next_shell_in. exact H0. }
    { exact Na'. }
    { exact Nc'. }
    { lia. }
    exists h'. split; [|split; [|split]].
    + cbn [src_array_relinkTestsInOrder_loop1]. rewrite (arr_cnt_padd _ _ _ _ R). cbv beta iota. rewrite (arr_cnt _ _ _ _ R). cbv beta iota.
      unfold c_lt. replace (Z.of_nat (length suf) <? Z.of_nat (length a)) with true by (symmetry; apply Z.ltb_lt; lia).
      change (z2b (b2z true)) with true. cbv beta iota.
      rewrite (arr_this _ _ _ _ R). cbv beta iota. rewrite EJ. rewrite (arr_idx_padd _ _ _ _ (length pre) R) by lia. cbv beta iota.
      rewrite (arr_idx_load _ _ _ _ _ b R Eb). cbv beta iota.
      rewrite (src_shell_addTest_spec fuel0 h rs b (hd_ptr suf) Hsb). cbv beta iota zeta. rewrite EI. exact EL.
    + rewrite L'. apply set_next_length.
    + intros b0 Hb0. rewrite O' by (intro Q; apply Hb0; apply in_or_app; left; exact Q).
      apply set_next_other. intro Q. apply Hb0. apply in_or_app. right. left. exact Q.
    + intros k b0 Hk. destruct (Nat.lt_ge_cases k (length pre)) as [Lk|Lk].
      * rewrite nth_error_app1 in Hk by exact Lk. rewrite (W' k b0 Hk).
        unfold h1. rewrite set_next_other; [reflexivity|]. intro Q. subst b0. apply Nb. eapply nth_error_In. exact Hk.
      * rewrite nth_error_app2 in Hk by exact Lk. destruct (k - length pre)%nat as [|j] eqn:Ej.
        -- cbn in Hk. injection Hk as <-. assert (k = length pre) by lia. subst k.
           rewrite (O' b Nb). unfold a. rewrite skipn_app_mid. apply set_next_same. exact (proj1 Hsb).
        -- destruct j; discriminate Hk.
Qed.

Theorem src_array_relinkTestsInOrder_spec fuel h rs ba bc a :
  array_at h ba bc a -> Z.of_nat (length a) < 2 ^ 64 ->
  NoDup a -> Forall (shell_in h) a -> ~ In ba a -> ~ In bc a -> (length a < fuel)%nat ->
  exists h',
    src_array_relinkTestsInOrder fuel h rs (HPtr ba 0) = FOk (tt, h', rs) /\
    relink a = Some a /\
    tlist h' (hd_ptr a) a /\ array_at h' ba bc a /\ relinked h a h'.
Proof.
  intros R Hlen Hn Hs Na Nc Hf.
  destruct (relink_loop_spec ba bc fuel rs a [] h fuel) as (h' & EL & L & O & W); try rewrite app_nil_r; try assumption.
  rewrite app_nil_r in EL, W.
  assert (RL : relinked h a h') by (split; [exact L|split; [exact O|exact W]]).
  exists h'. split; [|split; [|split; [|split]]].
  - change (hd_ptr []) with HNull in EL. change (Z.of_nat (length (@nil nat))) with 0 in EL.
    unfold src_array_relinkTestsInOrder. cbv zeta. rewrite EL. reflexivity.
  - apply C02_Proofs.relink_ok.
  - exact (relinked_tlist h a h' RL Hn Hs).
  - exact (relinked_array h a h' ba bc a RL R Na Nc).
  - exact RL.
Qed.

(* ================================================================== permute the array, then relink *)
(* h' is h with the cell block holding a', the shells linked in the order of a', nothing else written: this fixes every block *)
Definition permuted (h : heap) (bc : nat) (a' : list nat) (h' : heap) : Prop :=
  length h' = length h /\ hblock h' bc = acells a' /\
  (forall b, b <> bc -> ~ In b a' -> hblock h' b = hblock h b) /\
  (forall k b, nth_error a' k = Some b -> hblock h' b = CMem.upd (hblock h b) 4 (VPtr (hd_ptr (skipn (S k) a')))).

Lemma relink_after_permute fuel h h1 rs ba bc a a' :
  array_at h1 ba bc a' -> length h1 = length h -> (forall b, b <> bc -> hblock h1 b = hblock h b) -> Permutation a' a ->
  Z.of_nat (length a) < 2 ^ 64 -> NoDup a -> Forall (shell_in h) a -> ~ In ba a -> ~ In bc a -> (length a < fuel)%nat ->
  exists h',
    src_array_relinkTestsInOrder fuel h1 rs (HPtr ba 0) = FOk (tt, h', rs) /\
    array_at h' ba bc a' /\ tlist h' (hd_ptr a') a' /\ permuted h bc a' h'.
Proof.
  intros R1 K1 O1 P Hlen Hn Hs Na Nc Hf.
  assert (Nc' : ~ In bc a') by (intro Q; apply Nc; eapply Permutation_in; [exact P|exact Q]).
  assert (Na' : ~ In ba a') by (intro Q; apply Na; eapply Permutation_in; [exact P|exact Q]).
  assert (Hn' : NoDup a') by (eapply Permutation_NoDup; [apply Permutation_sym; exact P|exact Hn]).
  assert (Hs' : Forall (shell_in h1) a').
  { rewrite Forall_forall in Hs |- *. intros b Hb. assert (Hb' : In b a) by (eapply Permutation_in; [exact P|exact Hb]).
    destruct (Hs b Hb') as [H1 H2]. split; [rewrite K1; exact H1|]. rewrite O1; [exact H2|]. intro Q. subst b. exact (Nc Hb'). }
  rewrite <- (Permutation_length P) in Hlen, Hf.
  destruct (src_array_relinkTestsInOrder_spec fuel h1 rs ba bc a' R1 Hlen Hn' Hs' Na' Nc' Hf) as (h' & E & _ & T & R' & (L & O & W)).
  exists h'. split; [exact E|]. split; [exact R'|]. split; [exact T|].
  split; [rewrite L; exact K1|]. split; [exact (proj2 (proj2 (proj2 (proj2 R'))))|]. split.
  - intros b Hb Hin. rewrite (O b Hin). apply O1. exact Hb.
  - intros k b Hk. rewrite (W k b Hk). rewrite O1; [reflexivity|]. intro Q. subst b. apply Nc'. eapply nth_error_In. exact Hk.
Qed.

(* ================================================================== (4) reverse *)
Lemma reverse_loop_spec ba bc fuel0 rs count : Z.of_nat count < 2 ^ 64 -> forall n i a a' h fuel,
  array_at h ba bc a -> length a = count -> reverse_loop n i count a = Some a' -> (n < fuel)%nat ->
  exists h',
    src_array_reverse_loop1 fuel0 fuel (HPtr ba 0) (Z.of_nat (i + n)) h rs (Z.of_nat i) = Go (h', rs, Z.of_nat (i + n)) /\
    array_at h' ba bc a' /\ length a' = count /\ length h' = length h /\ (forall b, b <> bc -> hblock h' b = hblock h b).
Proof.
  intro Hc. induction n as [|n IH]; intros i a a' h fuel R La Hr Hf; (destruct fuel as [|fuel]; [lia|]).
  - cbn [reverse_loop] in Hr. injection Hr as <-. rewrite Nat.add_0_r.
    cbn [src_array_reverse_loop1]. unfold c_lt. rewrite Z.ltb_irrefl. change (z2b (b2z false)) with false. cbv beta iota.
    exists h. split; [reflexivity|]. split; [exact R|]. split; [exact La|]. split; [reflexivity|]. intros; reflexivity.
  - cbn [reverse_loop] in Hr. destruct (swap a i (count - i - 1)) as [a1|] eqn:Es; [|discriminate].
    destruct (swap_some_lt _ _ _ _ Es) as (L1 & L2 & La1).
    destruct (src_array_swap_spec fuel0 h rs ba bc a a1 i (count - i - 1) R Es) as (h1 & E1 & R1 & K1 & O1).
    destruct (IH (S i) a1 a' h1 fuel R1 ltac:(lia) Hr ltac:(lia)) as (h' & EL & R' & La' & K' & O').
    replace (S i + n)%nat with (i + S n)%nat in EL by lia.
    assert (EJ : cw 64 false (cw 64 false (Z.of_nat (length a) - Z.of_nat i) - 1) = Z.of_nat (count - i - 1)).
    { rewrite (cw_u_small 64 (Z.of_nat (length a) - Z.of_nat i)) by lia. rewrite cw_u_small by lia. lia. }
    assert (EI : cw 64 false (Z.of_nat i + 1) = Z.of_nat (S i)) by (rewrite cw_u_small by lia; lia).
    exists h'. split; [|split; [exact R'|split; [exact La'|split]]].
    + cbn [src_array_reverse_loop1]. unfold c_lt. replace (Z.of_nat i <? Z.of_nat (i + S n)) with true by (symmetry; apply Z.ltb_lt; lia).
      change (z2b (b2z true)) with true. cbv beta iota.
      rewrite (arr_cnt_padd _ _ _ _ R). cbv beta iota. rewrite (arr_cnt _ _ _ _ R). cbv beta iota zeta.
      rewrite EJ, E1. cbv beta iota zeta. rewrite EI. exact EL.
    + rewrite K'. exact K1.
    + intros b Hb. rewrite (O' b Hb). apply O1. exact Hb.
Qed.

(* the model's loop leaves rev a (C02_Proofs.reverse_ok, read through relink_ok) *)
Lemma reverse_loop_rev {A} (a : list A) : reverse_loop (Nat.div2 (length a)) 0 (length a) a = Some (rev a).
Proof.
  pose proof (C02_Proofs.reverse_ok a) as H. unfold reverse in H. destruct (length a) as [|c] eqn:L.
  - destruct a; [reflexivity|discriminate L].
  - destruct (reverse_loop (Nat.div2 (S c)) 0 (S c) a) as [a'|]; [|discriminate H]. rewrite C02_Proofs.relink_ok in H. exact H.
Qed.

Lemma half_count n : Z.of_nat n < 2 ^ 64 -> cw 64 false (c_div (Z.of_nat n) 2) = Z.of_nat (Nat.div2 n).
Proof.
  intro H. unfold c_div. rewrite Z.quot_div_nonneg by lia. rewrite Nat.div2_div. rewrite Nat2Z.inj_div. change (Z.of_nat 2) with 2.
  assert (0 <= Z.of_nat n / 2 <= Z.of_nat n).
  { split; [apply Z.div_pos; lia|]. apply Z.div_le_upper_bound; lia. }
  apply cw_u_small. lia.
Qed.

Theorem src_array_reverse_spec fuel h rs ba bc a :
  array_at h ba bc a -> Z.of_nat (length a) < 2 ^ 64 ->
  NoDup a -> Forall (shell_in h) a -> ~ In ba a -> ~ In bc a -> (length a < fuel)%nat ->
  exists h',
    src_array_reverse fuel h rs (HPtr ba 0) = FOk (tt, h', rs) /\
    reverse a = Some (rev a) /\
    array_at h' ba bc (rev a) /\ tlist h' (hd_ptr (rev a)) (rev a) /\ permuted h bc (rev a) h'.
Proof.
  intros R Hlen Hn Hs Na Nc Hf.
  unfold src_array_reverse. rewrite (arr_cnt_padd _ _ _ _ R). cbv beta iota. rewrite (arr_cnt _ _ _ _ R). cbv beta iota.
  destruct a as [|b0 a0].
  - change (z2b (c_eq (Z.of_nat (length (@nil nat))) 0)) with true. cbv beta iota.
    exists h. split; [reflexivity|]. split; [reflexivity|]. split; [exact R|]. split.
    + split; [reflexivity|]. split; constructor.
    + split; [reflexivity|]. split; [exact (proj2 (proj2 (proj2 (proj2 R))))|]. split; [intros; reflexivity|].
      intros [|k] b Hk; discriminate Hk.
  - set (a := b0 :: a0) in *.
    replace (z2b (c_eq (Z.of_nat (length a)) 0)) with false
      by (symmetry; unfold c_eq; rewrite b2z_z2b; apply Z.eqb_neq; unfold a; cbn [length]; lia).
    cbv beta iota zeta. rewrite (half_count _ Hlen).
    destruct (reverse_loop_spec ba bc fuel rs (length a) Hlen (Nat.div2 (length a)) 0 a (rev a) h fuel R eq_refl (reverse_loop_rev a))
      as (h1 & EL & R1 & La1 & K1 & O1).
    { pose proof (C02_Proofs.div2_bounds (length a)). lia. }
    cbn [Nat.add] in EL. change (Z.of_nat 0) with 0 in EL. rewrite EL. cbv beta iota.
    destruct (relink_after_permute fuel h h1 rs ba bc a (rev a) R1 K1 O1 (Permutation_sym (Permutation_rev a)) Hlen Hn Hs Na Nc Hf)
      as (h' & E & R' & T & Pm).
    exists h'. split; [rewrite E; reflexivity|]. split; [apply C02_Proofs.reverse_ok|]. split; [exact R'|]. split; [exact T|exact Pm].
Qed.

(* ================================================================== (5) shuffle *)
(* j = ((size_t) rand()) % (i + 1), for the int 0 <= r <= RAND_MAX < 2^31 that rand() returns *)
Lemma shuffle_index r (i : nat) : 0 <= r < 2 ^ 31 -> Z.of_nat i + 1 < 2 ^ 64 ->
  cw 64 false (c_rem (cw 64 false r) (cw 64 false (Z.of_nat i + 1))) = Z.of_nat (N.to_nat (Z.to_N r mod N.of_nat (i + 1))).
Proof.
  intros Hr Hi. change (2 ^ 31) with 2147483648 in Hr. change (2 ^ 64) with 18446744073709551616 in Hi.
  assert (E64 : 2 ^ 64 = 18446744073709551616) by reflexivity.
  rewrite (cw_u_small 64 r) by (rewrite E64; lia). rewrite (cw_u_small 64 (Z.of_nat i + 1)) by (rewrite E64; lia).
  unfold c_rem. rewrite Z.rem_mod_nonneg by lia.
  rewrite N_nat_Z, N2Z.inj_mod, Z2N.id by lia. rewrite nat_N_Z. replace (Z.of_nat (i + 1)) with (Z.of_nat i + 1) by lia.
  apply cw_u_small. rewrite E64. pose proof (Z.mod_pos_bound r (Z.of_nat i + 1) ltac:(lia)). lia.
Qed.

(* the values the model reports as drawn are the first i of the stream *)
Lemma shuffle_loop_drawn {A} : forall i rs (a : list A) drawn a' d,
  shuffle_loop i rs a drawn = Some (a', d) -> (i <= length rs)%nat -> d = rev drawn ++ firstn i rs.
Proof.
  induction i as [|i IH]; intros rs a drawn a' d H L.
  - cbn [shuffle_loop] in H. injection H as _ <-. cbn [firstn]. rewrite app_nil_r. reflexivity.
  - destruct rs as [|r rs]; [cbn [length] in L; lia|]. cbn [shuffle_loop next_rand] in H.
    destruct (swap a (S i) (N.to_nat (r mod N.of_nat (S i + 1)))) as [a1|]; [|discriminate].
    apply IH in H; [|cbn [length] in L; lia]. rewrite H. cbn [rev firstn]. rewrite <- app_assoc. reflexivity.
Qed.

Lemma shuffle_loop_spec ba bc fuel0 : forall i rs a drawn a' d h fuel,
  array_at h ba bc a -> Z.of_nat (length a) < 2 ^ 64 -> (i < length a)%nat ->
  (i <= length rs)%nat -> Forall (fun r => 0 <= r < 2 ^ 31) (firstn i rs) ->
  shuffle_loop i (map Z.to_N rs) a drawn = Some (a', d) -> (i < fuel)%nat ->
  exists h',
    src_array_shuffle_loop1 fuel0 fuel (HPtr ba 0) h rs (Z.of_nat i) = Go (h', skipn i rs, 0) /\
    array_at h' ba bc a' /\ length h' = length h /\ (forall b, b <> bc -> hblock h' b = hblock h b).
Proof.
  induction i as [|i IH]; intros rs a drawn a' d h fuel R Hlen Li Lr Fr Hm Hf; (destruct fuel as [|fuel]; [lia|]).
  - cbn [shuffle_loop] in Hm. injection Hm as <- _.
    cbn [src_array_shuffle_loop1]. change (z2b (c_ge (Z.of_nat 0) 1)) with false. cbv beta iota.
    exists h. split; [reflexivity|]. split; [exact R|]. split; [reflexivity|]. intros; reflexivity.
  - destruct rs as [|r rs]; [cbn [length] in Lr; lia|]. cbn [map shuffle_loop next_rand] in Hm.
    set (j := N.to_nat (Z.to_N r mod N.of_nat (S i + 1))) in *.
    destruct (swap a (S i) j) as [a1|] eqn:Es; [|discriminate].
    cbn [firstn] in Fr. pose proof (Forall_inv Fr) as Hr. apply Forall_inv_tail in Fr. cbn beta in Hr.
    destruct (swap_some_lt _ _ _ _ Es) as (_ & _ & La1).
    destruct (src_array_swap_spec fuel0 h rs ba bc a a1 (S i) j R Es) as (h1 & E1 & R1 & K1 & O1).
    destruct (IH rs a1 (Z.to_N r :: drawn) a' d h1 fuel R1) as (h' & EL & R' & K' & O').
    { rewrite La1. exact Hlen. }
    { lia. }
    { cbn [length] in Lr. lia. }
    { exact Fr. }
    { exact Hm. }
    { lia. }
    assert (EJ : cw 64 false (c_rem (cw 64 false r) (cw 64 false (Z.of_nat (S i) + 1))) = Z.of_nat j).
    { unfold j. apply shuffle_index; [exact Hr|lia]. }
    assert (EI : cw 64 false (Z.of_nat (S i) - 1) = Z.of_nat i) by (rewrite cw_u_small by lia; lia).
    exists h'. split; [|split; [exact R'|split]].
    + cbn [src_array_shuffle_loop1]. unfold c_ge. replace (1 <=? Z.of_nat (S i)) with true by (symmetry; apply Z.leb_le; lia).
      change (z2b (b2z true)) with true. cbv beta iota.
      rewrite (arr_cnt_padd _ _ _ _ R). cbv beta iota. rewrite (arr_cnt _ _ _ _ R). cbv beta iota.
      replace (z2b (c_eq (Z.of_nat (length a)) 0)) with false by (symmetry; unfold c_eq; rewrite b2z_z2b; apply Z.eqb_neq; lia).
      cbv beta iota zeta. rewrite EJ, E1. cbv beta iota zeta. rewrite EI. cbn [skipn]. exact EL.
    + rewrite K'. exact K1.
    + intros b Hb. rewrite (O' b Hb). apply O1. exact Hb.
Qed.

Theorem src_array_shuffle_spec fuel h rs ba bc a seed seedZ :
  array_at h ba bc a -> Z.of_nat (length a) < 2 ^ 64 ->
  NoDup a -> Forall (shell_in h) a -> ~ In ba a -> ~ In bc a ->
  (length a - 1 <= length rs)%nat -> Forall (fun r => 0 <= r < 2 ^ 31) (firstn (length a - 1) rs) -> (length a < fuel)%nat ->
  exists a' h',
    shuffle seed (map Z.to_N rs) a
      = Some (a', match a with [] => [] | _ => [(seed mod UINT_MOD)%N] end, map Z.to_N (firstn (length a - 1) rs)) /\
    Permutation a' a /\
    src_array_shuffle fuel h rs (HPtr ba 0) seedZ = FOk (tt, h', skipn (length a - 1) rs) /\
    array_at h' ba bc a' /\ tlist h' (hd_ptr a') a' /\ permuted h bc a' h'.
Proof.
  intros R Hlen Hn Hs Na Nc Lr Fr Hf.
  unfold src_array_shuffle. rewrite (arr_cnt_padd _ _ _ _ R). cbv beta iota. rewrite (arr_cnt _ _ _ _ R). cbv beta iota.
  destruct a as [|b0 a0].
  - change (z2b (c_eq (Z.of_nat (length (@nil nat))) 0)) with true. cbv beta iota.
    exists [], h. split; [reflexivity|]. split; [constructor|]. split; [reflexivity|]. split; [exact R|]. split.
    + split; [reflexivity|]. split; constructor.
    + split; [reflexivity|]. split; [exact (proj2 (proj2 (proj2 (proj2 R))))|]. split; [intros; reflexivity|].
      intros [|k] b Hk; discriminate Hk.
  - set (a := b0 :: a0) in *. set (k := length a0).
    assert (La : length a = S k) by reflexivity.
    replace (length a - 1)%nat with k in * by lia.
    destruct (C02_Proofs.shuffle_loop_ok k (map Z.to_N rs) a [] ltac:(lia)) as (a' & d & Em & P & La' & _).
    pose proof (shuffle_loop_drawn k (map Z.to_N rs) a [] a' d Em ltac:(rewrite map_length; exact Lr)) as Ed.
    cbn [rev app] in Ed. rewrite firstn_map in Ed. subst d.
    replace (z2b (c_eq (Z.of_nat (length a)) 0)) with false
      by (symmetry; unfold c_eq; rewrite b2z_z2b; apply Z.eqb_neq; lia).
    cbv beta iota zeta.
    assert (EI : cw 64 false (Z.of_nat (length a) - 1) = Z.of_nat k) by (rewrite cw_u_small by lia; lia).
    rewrite EI.
    destruct (shuffle_loop_spec ba bc fuel k rs a [] a' _ h fuel R Hlen ltac:(lia) Lr Fr Em ltac:(lia)) as (h1 & EL & R1 & K1 & O1).
    rewrite EL. cbv beta iota.
    destruct (relink_after_permute fuel h h1 (skipn k rs) ba bc a a' R1 K1 O1 P Hlen Hn Hs Na Nc Hf) as (h' & E & R' & T & Pm).
    exists a', h'. split; [|split; [exact P|split; [rewrite E; reflexivity|split; [exact R'|split; [exact T|exact Pm]]]]].
    unfold shuffle. rewrite La, Em, C02_Proofs.relink_ok. reflexivity.
Qed.

(* ================================================================== (6) the registry object *)
(* cell 0 (tests_) of block br holds the head of the list of the shells bs; the other cells of br are arbitrary *)
Definition registry_at (h : heap) (br : nat) (bs : list nat) : Prop :=
  (br < length h)%nat /\ cell h br 0 = Some (VPtr (hd_ptr bs)) /\ tlist h (hd_ptr bs) bs /\ ~ In br bs.
(* the shells bs stand, in order, for the tests reg of the model's registry *)
Definition tests_at (h : heap) (br : nat) (bs : list nat) (reg : list test) : Prop :=
  registry_at h br bs /\ length bs = length reg.

Lemma reg_tests h br bs : registry_at h br bs -> hload_ptr h (HPtr br 0) = Some (hd_ptr bs).
Proof. intros (_ & Hc & _). exact (h_load_ptr h br 0 _ Hc). Qed.

Theorem src_registry_getFirstTest_spec fuel h rs br bs : registry_at h br bs ->
  src_registry_getFirstTest fuel h rs (HPtr br 0) = FOk (hd_ptr bs, h, rs).
Proof. intro R. unfold src_registry_getFirstTest. rewrite (reg_tests _ _ _ R). reflexivity. Qed.

(* addTest: head insertion -- the new shell's next_ becomes the old head, tests_ the new shell *)
Theorem src_registry_addTest_spec fuel h rs br bs b :
  registry_at h br bs -> shell_in h b -> ~ In b bs -> b <> br ->
  exists h',
    src_registry_addTest fuel h rs (HPtr br 0) (HPtr b 0) = FOk (tt, h', rs) /\
    registry_at h' br (b :: bs) /\
    hblock h' b = CMem.upd (hblock h b) 4 (VPtr (hd_ptr bs)) /\
    hblock h' br = CMem.upd (hblock h br) 0 (VPtr (HPtr b 0)) /\
    length h' = length h /\
    (forall b', b' <> b -> b' <> br -> hblock h' b' = hblock h b').
Proof.
  intros R Hb Nb Nbr. pose proof R as (Lr & Hc & (Tc & Hn & Hs) & Nr).
  set (h1 := set_next h b (hd_ptr bs)).
  assert (Lr0 : (0 < length (hblock h1 br))%nat).
  { unfold h1. rewrite set_next_other by exact Nbr. apply nth_error_Some. unfold cell in Hc. congruence. }
  assert (Lr1 : (br < length h1)%nat) by (unfold h1; rewrite set_next_length; exact Lr).
  pose proof (h_store h1 br 0 (VPtr (HPtr b 0)) Lr1 Lr0) as S. change (Z.of_nat 0) with 0 in S.
  set (h2 := CMem.upd h1 br (CMem.upd (hblock h1 br) 0 (VPtr (HPtr b 0)))) in *.
  assert (B2 : hblock h2 br = CMem.upd (hblock h br) 0 (VPtr (HPtr b 0))).
  { unfold h2. rewrite hblock_upd_same by exact Lr1. unfold h1. rewrite set_next_other by exact Nbr. reflexivity. }
  assert (O2 : forall b', b' <> br -> hblock h2 b' = hblock h1 b').
  { intros b' Hb'. unfold h2. apply hblock_upd_other. intro Q. apply Hb'. symmetry. exact Q. }
  assert (K2 : length h2 = length h) by (unfold h2; rewrite heap_upd_length; apply set_next_length).
  assert (Bb : hblock h2 b = CMem.upd (hblock h b) 4 (VPtr (hd_ptr bs))).
  { rewrite (O2 b Nbr). apply set_next_same. exact (proj1 Hb). }
  assert (Ob : forall b', b' <> b -> b' <> br -> hblock h2 b' = hblock h b').
  { intros b' H1 H2. rewrite (O2 b' H2). apply set_next_other. intro Q. apply H1. symmetry. exact Q. }
  exists h2. split; [|split; [|split; [exact Bb|split; [exact B2|split; [exact K2|exact Ob]]]]].
  - unfold src_registry_addTest. rewrite (reg_tests _ _ _ R). cbv beta iota.
    rewrite (src_shell_addTest_spec fuel h rs b (hd_ptr bs) Hb). cbv beta iota. fold h1. rewrite S. reflexivity.
  - split; [rewrite K2; exact Lr|]. split; [|split; [split; [|split]|]].
    + unfold cell. rewrite B2. apply nth_error_upd_same. apply nth_error_Some. unfold cell in Hc. congruence.
    + split; [reflexivity|]. exists (hd_ptr bs). split.
      * unfold cell. rewrite Bb. apply nth_error_upd_same. exact (proj2 Hb).
      * apply (tchain_frame h h2 bs (hd_ptr bs)); [|exact Tc]. intros b' Hin. apply Ob.
        -- intro Q. subst b'. exact (Nb Hin).
        -- intro Q. subst b'. exact (Nr Hin).
    + constructor; [exact Nb|exact Hn].
    + assert (Sh : forall b', shell_in h b' -> b' <> br -> shell_in h2 b').
      { intros b' [H1 H2] Hne. split; [rewrite K2; exact H1|]. destruct (Nat.eq_dec b' b) as [->|Hd].
        - rewrite Bb, CMem.upd_length. exact H2.
        - rewrite (Ob b' Hd Hne). exact H2. }
      constructor; [apply Sh; [exact Hb|exact Nbr]|]. rewrite Forall_forall in Hs |- *. intros b' Hin. apply Sh; [exact (Hs b' Hin)|].
      intro Q. subst b'. exact (Nr Hin).
    + intros [Q|Q]; [apply Nbr; exact Q|exact (Nr Q)].
Qed.

(* with the model's add_test (which is cons): the shell b standing for the test t *)
Corollary src_registry_addTest_model fuel h rs br bs reg b t :
  tests_at h br bs reg -> shell_in h b -> ~ In b bs -> b <> br ->
  exists h',
    src_registry_addTest fuel h rs (HPtr br 0) (HPtr b 0) = FOk (tt, h', rs) /\
    tests_at h' br (b :: bs) (add_test reg t) /\
    (forall b', b' <> b -> b' <> br -> hblock h' b' = hblock h b').
Proof.
  intros [R L] Hb Nb Nbr. destruct (src_registry_addTest_spec fuel h rs br bs b R Hb Nb Nbr) as (h' & E & R' & _ & _ & _ & O).
  exists h'. split; [exact E|]. split; [|exact O]. split; [exact R'|]. unfold add_test. cbn [length]. rewrite L. reflexivity.
Qed.

(* countTests: 0 for the empty registry (no fuel needed), else the recursive count (`length bs <= fuel`, exact) *)
Theorem src_registry_countTests_spec fuel h rs br bs :
  registry_at h br bs -> (length bs <= fuel)%nat -> Z.of_nat (length bs) < 2 ^ 64 ->
  src_registry_countTests fuel h rs (HPtr br 0) = FOk (Z.of_nat (length bs), h, rs).
Proof.
  intros R Hf Hlen. pose proof R as (_ & _ & (Tc & _ & _) & _).
  unfold src_registry_countTests. rewrite (reg_tests _ _ _ R). cbv beta iota. destruct bs as [|b bs'].
  - reflexivity.
  - cbn [hd_ptr] in *. rewrite hp_bool_ptr. change (z2b 1) with true. cbv beta iota.
    rewrite (src_shell_countTests_spec (b :: bs') fuel h rs (HPtr b 0) Tc ltac:(discriminate) Hf Hlen). reflexivity.
Qed.

(* getTestWithNext(q): the first shell whose next_ is q, NULL when there is none *)
Fixpoint with_next (q : hptr) (bs : list nat) : hptr :=
  match bs with
  | [] => HNull
  | b :: bs' => if hptr_eqb (hd_ptr bs') q then HPtr b 0 else with_next q bs'
  end.

Lemma getTestWithNext_loop_spec fuel0 rs q : forall bs h fuel p, tchain h p bs -> (length bs < fuel)%nat ->
  src_registry_getTestWithNext_loop1 fuel0 fuel q h rs p = Go (h, rs, with_next q bs).
Proof.
  induction bs as [|b bs IH]; intros h fuel p Tc Hf; (destruct fuel as [|fuel]; [cbn [length] in Hf; lia|]).
  - cbn [tchain] in Tc. subst p. cbn [src_registry_getTestWithNext_loop1]. rewrite hp_bool_null. reflexivity.
  - destruct Tc as [-> [nxt [Hq Tc]]]. pose proof (tchain_head _ _ _ Tc) as Hn.
    cbn [src_registry_getTestWithNext_loop1]. rewrite hp_bool_ptr. change (z2b 1) with true. cbv beta iota.
    rewrite (src_shell_getNext_spec fuel0 h rs b nxt Hq). cbv beta iota. unfold hp_ne. rewrite b2z_z2b.
    cbn [with_next]. rewrite <- Hn. destruct (hptr_eqb nxt q); cbn [negb]; cbv beta iota; [reflexivity|].
    rewrite (src_shell_getNext_spec fuel0 h rs b nxt Hq). cbv beta iota zeta. apply IH; [exact Tc|cbn [length] in Hf; lia].
Qed.

Theorem src_registry_getTestWithNext_spec fuel h rs br bs q :
  registry_at h br bs -> (length bs < fuel)%nat ->
  src_registry_getTestWithNext fuel h rs (HPtr br 0) q = FOk (with_next q bs, h, rs).
Proof.
  intros R Hf. pose proof R as (_ & _ & (Tc & _ & _) & _).
  unfold src_registry_getTestWithNext. rewrite (reg_tests _ _ _ R). cbv beta iota zeta.
  rewrite (getTestWithNext_loop_spec fuel rs q bs h fuel (hd_ptr bs) Tc Hf). reflexivity.
Qed.

(* what with_next is on a list of distinct shells: the predecessor of a shell that has one; NULL for the head and for a shell
   that is not registered; the last shell for NULL *)
Lemma with_next_pred pre x b suf : NoDup (pre ++ x :: b :: suf) -> with_next (HPtr b 0) (pre ++ x :: b :: suf) = HPtr x 0.
Proof.
  induction pre as [|y pre IH]; intro Hn.
  - cbn [app with_next hd_ptr]. rewrite hptr_eqb_refl. reflexivity.
  - cbn [app] in Hn |- *. cbn [with_next]. inversion Hn as [|? ? Hy Hn']; subst.
    replace (hptr_eqb (hd_ptr (pre ++ x :: b :: suf)) (HPtr b 0)) with false; [exact (IH Hn')|].
    symmetry. apply not_true_is_false. intro Q. apply hptr_eqb_eq in Q. destruct pre as [|z pre]; cbn [app hd_ptr] in Q.
    + injection Q as ->. apply NoDup_cons_iff in Hn'. apply (proj1 Hn'). left. reflexivity.
    + injection Q as ->. cbn [app] in Hn'. apply NoDup_cons_iff in Hn'. apply (proj1 Hn'). apply in_or_app. right. right. left. reflexivity.
Qed.
Lemma with_next_none b : forall bs, ~ In b (tl bs) -> with_next (HPtr b 0) bs = HNull.
Proof.
  induction bs as [|x bs IH]; intro Hn; [reflexivity|]. cbn [with_next]. cbn [tl] in Hn.
  replace (hptr_eqb (hd_ptr bs) (HPtr b 0)) with false.
  - apply IH. intro Q. apply Hn. destruct bs as [|z bs]; [destruct Q|]. right. exact Q.
  - symmetry. apply not_true_is_false. intro Q. apply hptr_eqb_eq in Q. destruct bs as [|z bs]; [discriminate Q|].
    cbn [hd_ptr] in Q. injection Q as ->. apply Hn. left. reflexivity.
Qed.
Lemma with_next_null bs x : with_next HNull (bs ++ [x]) = HPtr x 0.
Proof.
  induction bs as [|y bs IH]; [reflexivity|]. cbn [app with_next]. destruct (bs ++ [x]) as [|z l] eqn:E; [destruct bs; discriminate E|].
  cbn [hd_ptr hptr_eqb]. exact IH.
Qed.

(* ================================================================== examples (non-vacuity), by computation *)
(* block 0 = the registry object, blocks 1..4 = four registered shells, block 5 = the array object, block 6 = its cell block,
   block 7 = a shell not yet registered, block 8 = a bystander.  `ex_state tests order extra` is the heap in which tests_ = tests,
   the shells 1..4 are linked in the order `order` (which the cell block also holds) and shell 7 has next_ = extra. *)
Definition ex_next (order : list nat) (b : nat) : hptr :=
  (fix go (l : list nat) : hptr :=
     match l with
     | [] => HNull
     | x :: r => if Nat.eqb x b then hd_ptr r else go r
     end) order.
Definition ex_shell (b : nat) (nxt : hptr) : list val :=
  [VInt (100 + Z.of_nat b); VInt (200 + Z.of_nat b); VInt 300; VInt (Z.of_nat b); VPtr nxt; VInt 0; VInt 0].
Definition ex_state (tests : hptr) (order : list nat) (extra : hptr) : heap :=
  [ [VPtr tests; VInt 0; VInt 0; VInt 0; VInt 0; VInt 0; VInt 0];
    ex_shell 1 (ex_next order 1); ex_shell 2 (ex_next order 2); ex_shell 3 (ex_next order 3); ex_shell 4 (ex_next order 4);
    [VPtr (HPtr 6 0); VInt 4]; acells order; ex_shell 7 extra; [VInt 77] ].
Definition ex_h : heap := ex_state (HPtr 1 0) [1; 2; 3; 4]%nat HNull.

Example ex_registry : registry_at ex_h 0 [1; 2; 3; 4]%nat.
Proof.
  unfold registry_at, tlist, shell_in. split; [cbn; lia|]. split; [reflexivity|]. split; [split; [|split]|].
  - cbn [hd_ptr tchain]. split; [reflexivity|]. exists (HPtr 2 0). split; [reflexivity|]. split; [reflexivity|].
    exists (HPtr 3 0). split; [reflexivity|]. split; [reflexivity|]. exists (HPtr 4 0). split; [reflexivity|]. split; [reflexivity|].
    exists HNull. split; reflexivity.
  - repeat constructor; cbn; lia.
  - repeat constructor; cbn; lia.
  - cbn; lia.
Qed.
Example ex_array : array_at ex_h 5 6 [1; 2; 3; 4]%nat.
Proof. unfold array_at. split; [discriminate|]. split; [cbn; lia|]. split; [cbn; lia|]. split; reflexivity. Qed.

(* count: 4, with exactly 4 units of fuel (one per shell of the recursion); 3 are not enough *)
Example ex_count : src_registry_countTests 4 ex_h [] (HPtr 0 0) = FOk (4, ex_h, []).
Proof. vm_compute. reflexivity. Qed.
Example ex_count_fuel : src_registry_countTests 3 ex_h [] (HPtr 0 0) = FNoFuel.
Proof. vm_compute. reflexivity. Qed.
Example ex_first : src_registry_getFirstTest 0 ex_h [] (HPtr 0 0) = FOk (HPtr 1 0, ex_h, []).
Proof. vm_compute. reflexivity. Qed.
Example ex_with_next : src_registry_getTestWithNext 5 ex_h [] (HPtr 0 0) (HPtr 3 0) = FOk (HPtr 2 0, ex_h, []).
Proof. vm_compute. reflexivity. Qed.
Example ex_with_next_head : src_registry_getTestWithNext 5 ex_h [] (HPtr 0 0) (HPtr 1 0) = FOk (HNull, ex_h, []).
Proof. vm_compute. reflexivity. Qed.
Example ex_with_next_null : src_registry_getTestWithNext 5 ex_h [] (HPtr 0 0) HNull = FOk (HPtr 4 0, ex_h, []).
Proof. vm_compute. reflexivity. Qed.

(* swap: the model's swap on the cell block; an index past the end is Oob where the model says None *)
Example ex_swap : src_array_swap 0 ex_h [] (HPtr 5 0) 0 2
  = FOk (tt, CMem.upd ex_h 6 (acells [3; 2; 1; 4]%nat), []) /\ swap [1; 2; 3; 4]%nat 0 2 = Some [3; 2; 1; 4]%nat.
Proof. split; vm_compute; reflexivity. Qed.
Example ex_swap_oob : src_array_swap 0 ex_h [] (HPtr 5 0) 1 4 = FOob /\ swap [1; 2; 3; 4]%nat 1 4 = None.
Proof. split; vm_compute; reflexivity. Qed.

(* relink, reverse: the array and the chain in the reversed order; the stream is not touched; tests_ is the caller's business *)
Example ex_relink : src_array_relinkTestsInOrder 5 (ex_state (HPtr 1 0) [1; 2; 3; 4]%nat HNull) [7] (HPtr 5 0) = FOk (tt, ex_h, [7]).
Proof. vm_compute. reflexivity. Qed.
Example ex_reverse : src_array_reverse 5 ex_h [7] (HPtr 5 0) = FOk (tt, ex_state (HPtr 1 0) [4; 3; 2; 1]%nat HNull, [7])
  /\ reverse [1; 2; 3; 4]%nat = Some [4; 3; 2; 1]%nat.
Proof. split; vm_compute; reflexivity. Qed.
Example ex_reverse_first : src_array_getFirstTest 0 (ex_state (HPtr 1 0) [4; 3; 2; 1]%nat HNull) [] (HPtr 5 0)
  = FOk (HPtr 4 0, ex_state (HPtr 1 0) [4; 3; 2; 1]%nat HNull, []).
Proof. vm_compute. reflexivity. Qed.

(* shuffle with the stream 5, RAND_MAX, 3, 9: three values are drawn (j = 5 % 4, RAND_MAX % 3, 3 % 2), 9 is left; the order
   is the model's on the same stream *)
Example ex_shuffle_model :
  shuffle 11%N (map Z.to_N [5; 2147483647; 3; 9]) [1; 2; 3; 4]%nat = Some ([1; 3; 4; 2]%nat, [11%N], [5%N; 2147483647%N; 3%N]).
Proof. vm_compute. reflexivity. Qed.
Example ex_shuffle :
  match shuffle 11%N (map Z.to_N [5; 2147483647; 3; 9]) [1; 2; 3; 4]%nat with
  | Some (a', _, _) => src_array_shuffle 5 ex_h [5; 2147483647; 3; 9] (HPtr 5 0) 11 = FOk (tt, ex_state (HPtr 1 0) a' HNull, [9])
  | None => False
  end.
Proof. vm_compute. reflexivity. Qed.
(* 4 units of fuel are not enough for 4 elements (the loops need one more trip for their exit test) *)
Example ex_shuffle_fuel : src_array_shuffle 4 ex_h [5; 2147483647; 3; 9] (HPtr 5 0) 11 = FNoFuel.
Proof. vm_compute. reflexivity. Qed.
(* why the stream must hold count - 1 values: the ghost stream runs dry (Oob) where the model's next_rand keeps drawing 0 *)
Example ex_shuffle_dry : src_array_shuffle 5 ex_h [5; 2] (HPtr 5 0) 11 = FOob
  /\ shuffle 11%N (map Z.to_N [5; 2]) [1; 2; 3; 4]%nat = Some ([4; 1; 3; 2]%nat, [11%N], [5%N; 2%N; 0%N]).
Proof. split; vm_compute; reflexivity. Qed.

(* addTest of the unregistered shell 7: its next_ becomes the old head, tests_ becomes the shell *)
Example ex_addTest : src_registry_addTest 0 ex_h [] (HPtr 0 0) (HPtr 7 0) = FOk (tt, ex_state (HPtr 7 0) [1; 2; 3; 4]%nat (HPtr 1 0), []).
Proof. vm_compute. reflexivity. Qed.
Example ex_addTest_count : src_registry_countTests 5 (ex_state (HPtr 7 0) [1; 2; 3; 4]%nat (HPtr 1 0)) [] (HPtr 0 0)
  = FOk (5, ex_state (HPtr 7 0) [1; 2; 3; 4]%nat (HPtr 1 0), []).
Proof. vm_compute. reflexivity. Qed.

(* why addTest demands a shell that is not registered yet (`~ In b bs`): registering shell 3 a second time is `3 :: reg` (five
   tests) for the model's add_test, while in the source it overwrites 3's next_ with the old head: the list is now the cycle
   3 -> 1 -> 2 -> 3 -> ..., shell 4 is lost, and countTests does not terminate (no fuel is enough) *)
Definition ex_twice : heap :=
  match src_registry_addTest 0 ex_h [] (HPtr 0 0) (HPtr 3 0) with FOk (_, h', _) => h' | _ => [] end.
Example ex_addTest_twice_heap :
  hblock ex_twice 0 = [VPtr (HPtr 3 0); VInt 0; VInt 0; VInt 0; VInt 0; VInt 0; VInt 0] /\
  cell ex_twice 3 4 = Some (VPtr (HPtr 1 0)) /\ cell ex_twice 1 4 = Some (VPtr (HPtr 2 0)) /\ cell ex_twice 2 4 = Some (VPtr (HPtr 3 0)).
Proof. repeat split; vm_compute; reflexivity. Qed.
Example ex_addTest_twice_count :
  src_registry_countTests 1000 ex_twice [] (HPtr 0 0) = FNoFuel /\
  length (add_test (add_test (add_test (add_test (add_test [] (mkTest 4 [] [] false)) (mkTest 3 [] [] false))
                    (mkTest 2 [] [] false)) (mkTest 1 [] [] false)) (mkTest 3 [] [] false)) = 5%nat.
Proof. split; vm_compute; reflexivity. Qed.
