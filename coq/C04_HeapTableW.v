(* C04: the three STORING member functions of the translated MemoryLeakDetectorTable (gen/Gen_HeapC04.v: src_table_addNewNode,
   src_table_removeNode, src_table_clearAllAccounting) run on a heap that represents a model table (C04_HeapRep.v: table_at)
   return FOk and a heap that represents the model's new table (C04_Model.v: t_add, t_remove, t_clear); every block that is not
   mentioned is unchanged.  The list-level theorems of C04_HeapListW.v are applied to the list object that is cell i of the table
   block; `table_at_update` re-establishes table_at after one bucket changed.  Helper lemmas are prefixed tw_. *)
From Coq Require Import ZArith NArith Bool List Lia.
From CppUVerif Require Import lib.CSem lib.CMem lib.CMemFacts lib.CHeap gen.Gen_Common gen.Gen_HeapC04 C04_Model C04_HeapRep
  C04_HeapList C04_HeapListW.
Import ListNotations.
Local Open Scope Z_scope.

(* ------------------------------------------------------------------ replacing one element of a list *)
Fixpoint tw_setg {A} (i : nat) (x : A) (l : list A) : list A :=
  match l with
  | [] => []
  | y :: r => match i with O => x :: r | S j => y :: tw_setg j x r end
  end.
(* the blocks of every bucket, with those of bucket i replaced *)
Fixpoint tw_set (i : nat) (x : list nat) (bss : list (list nat)) : list (list nat) :=
  match bss with
  | [] => []
  | y :: r => match i with O => x :: r | S j => y :: tw_set j x r end
  end.
Lemma tw_set_eq : forall bss i x, tw_set i x bss = tw_setg i x bss.
Proof. induction bss as [|y r IH]; intros [|i] x; cbn [tw_set tw_setg]; try reflexivity. rewrite IH. reflexivity. Qed.
Lemma tw_set_b_eq : forall t i b, set_b i b t = tw_setg i b t.
Proof. induction t as [|y r IH]; intros [|i] b; cbn [set_b tw_setg]; try reflexivity. rewrite IH. reflexivity. Qed.

Lemma tw_setg_length {A} : forall (l : list A) i x, length (tw_setg i x l) = length l.
Proof. induction l as [|y r IH]; intros [|i] x; cbn [tw_setg length]; try reflexivity. rewrite IH. reflexivity. Qed.
Lemma tw_setg_nth_same {A} (d : A) : forall (l : list A) i x, (i < length l)%nat -> nth i (tw_setg i x l) d = x.
Proof.
  induction l as [|y r IH]; intros [|i] x H; cbn [length] in H; try lia; cbn [tw_setg nth]; [reflexivity|].
  apply IH. lia.
Qed.
Lemma tw_setg_nth_other {A} (d : A) : forall (l : list A) i j x, j <> i -> nth j (tw_setg i x l) d = nth j l d.
Proof.
  induction l as [|y r IH]; intros [|i] [|j] x H; cbn [tw_setg nth]; try reflexivity.
  - exfalso. apply H. reflexivity.
  - apply IH. intro E. apply H. f_equal. exact E.
Qed.
Lemma tw_setg_app_mid {A} : forall (a : list A) x t v, tw_setg (length a) v (a ++ x :: t) = a ++ v :: t.
Proof. induction a as [|y a IH]; intros x t v; cbn [length app tw_setg]; [reflexivity|]. rewrite IH. reflexivity. Qed.

(* ------------------------------------------------------------------ concat and NoDup *)
Lemma tw_NoDup_app {A} : forall (l1 l2 : list A),
  NoDup (l1 ++ l2) <-> NoDup l1 /\ NoDup l2 /\ (forall x, In x l1 -> ~ In x l2).
Proof.
  induction l1 as [|a l1 IH]; intro l2; cbn [app].
  - split.
    + intro H. split; [constructor|]. split; [exact H|]. intros x [].
    + intros [_ [H _]]. exact H.
  - split.
    + intro H. inversion H as [|? ? Hn Hd]; subst. apply IH in Hd. destruct Hd as [H1 [H2 H3]]. split.
      * constructor; [|exact H1]. intro Hin. apply Hn. apply in_or_app. left. exact Hin.
      * split; [exact H2|]. intros x [E|Hin] Hx.
        -- subst. apply Hn. apply in_or_app. right. exact Hx.
        -- exact (H3 x Hin Hx).
    + intros [H1 [H2 H3]]. inversion H1 as [|? ? Hn Hd]; subst. constructor.
      * intro Hin. apply in_app_or in Hin. destruct Hin as [Hin|Hin]; [exact (Hn Hin)|].
        exact (H3 a (or_introl eq_refl) Hin).
      * apply IH. split; [exact Hd|]. split; [exact H2|]. intros x Hx. apply H3. right. exact Hx.
Qed.
Lemma tw_in_nth_concat (b : nat) : forall (l : list (list nat)) j, In b (nth j l []) -> In b (concat l).
Proof.
  induction l as [|y r IH]; intros [|j] H; cbn [nth] in H; try (destruct H; fail); cbn [concat]; apply in_or_app.
  - left. exact H.
  - right. exact (IH _ H).
Qed.
Lemma tw_in_concat_nth (b : nat) : forall (l : list (list nat)), In b (concat l) -> exists j, In b (nth j l []).
Proof.
  induction l as [|y r IH]; cbn [concat]; [intros []|]. intro H. apply in_app_or in H. destruct H as [H|H].
  - exists 0%nat. exact H.
  - destruct (IH H) as [j Hj]. exists (S j). exact Hj.
Qed.
(* two different buckets of a table share no block *)
Lemma tw_concat_disjoint (b : nat) : forall (l : list (list nat)) i j, NoDup (concat l) -> i <> j ->
  In b (nth i l []) -> In b (nth j l []) -> False.
Proof.
  induction l as [|y r IH]; intros i j Hd Hne Hi Hj.
  - destruct i; destruct Hi.
  - cbn [concat] in Hd. apply tw_NoDup_app in Hd. destruct Hd as [_ [Hr Hx]].
    destruct i as [|i], j as [|j]; cbn [nth] in Hi, Hj.
    + apply Hne. reflexivity.
    + exact (Hx b Hi (tw_in_nth_concat b r j Hj)).
    + exact (Hx b Hj (tw_in_nth_concat b r i Hi)).
    + apply (IH i j Hr); [|exact Hi | exact Hj]. intro E. apply Hne. f_equal. exact E.
Qed.
Lemma tw_set_concat_in (b : nat) : forall (l : list (list nat)) i x, In b (concat (tw_setg i x l)) -> In b x \/ In b (concat l).
Proof.
  induction l as [|y r IH]; intros [|i] x H; cbn [tw_setg concat] in H; try (destruct H; fail);
    apply in_app_or in H; cbn [concat].
  - destruct H as [H|H]; [left; exact H | right; apply in_or_app; right; exact H].
  - destruct H as [H|H]; [right; apply in_or_app; left; exact H|].
    destruct (IH _ _ H) as [H'|H']; [left; exact H' | right; apply in_or_app; right; exact H'].
Qed.
Lemma tw_set_NoDup : forall (l : list (list nat)) i x, NoDup (concat l) -> NoDup x ->
  (forall b, In b x -> forall j, j <> i -> ~ In b (nth j l [])) -> NoDup (concat (tw_setg i x l)).
Proof.
  induction l as [|y r IH]; intros i x Hd Hx Hf; [destruct i; constructor|].
  cbn [concat] in Hd. apply tw_NoDup_app in Hd. destruct Hd as [Hy [Hr Hyr]].
  destruct i as [|i]; cbn [tw_setg concat]; apply tw_NoDup_app.
  - split; [exact Hx|]. split; [exact Hr|]. intros b Hb Hin. destruct (tw_in_concat_nth b r Hin) as [j Hj].
    apply (Hf b Hb (S j)); [discriminate | exact Hj].
  - split; [exact Hy|]. split.
    + apply IH; [exact Hr | exact Hx|]. intros b Hb j Hj Hin. apply (Hf b Hb (S j)); [|exact Hin].
      intro E. apply Hj. injection E. intro E'. exact E'.
    + intros b Hb Hin. destruct (tw_set_concat_in b r i x Hin) as [H|H].
      * apply (Hf b H 0%nat); [discriminate | exact Hb].
      * exact (Hyr b Hb H).
Qed.

(* ------------------------------------------------------------------ the table object: size, hash, &table_[i] *)
Lemma tw_nb : nbuckets = 73%nat. Proof. reflexivity. Qed.
Lemma tw_hashN_lt a : (hashN a < nbuckets)%nat.
Proof.
  unfold hashN, nbuckets. assert (H : (a mod hash_prime < hash_prime)%N) by (apply N.mod_lt; discriminate). lia.
Qed.
(* MemoryLeakDetectorTable::hash : (unsigned long) memory % hash_prime *)
Lemma tw_hash fuel h this a : (a < 2 ^ 64)%N -> src_table_hash fuel h this (Z.of_N a) = FOk (Z.of_nat (hashN a)).
Proof.
  intro Ha. unfold src_table_hash. cbn [finish]. f_equal.
  assert (Hz : 0 <= Z.of_N a < 2 ^ 64).
  { split; [apply N2Z.is_nonneg|]. change (2 ^ 64) with (Z.of_N (2 ^ 64)). apply N2Z.inj_lt. exact Ha. }
  rewrite (cw_u_small 64 (Z.of_N a) Hz). unfold c_rem. rewrite Z.rem_mod_nonneg by lia.
  assert (E : Z.of_N a mod 73 = Z.of_nat (hashN a)).
  { unfold hashN. rewrite N_nat_Z. unfold hash_prime. rewrite N2Z.inj_mod. reflexivity. }
  rewrite E. apply cw_u_small. pose proof (tw_hashN_lt a) as H. rewrite tw_nb in H. split; [lia|].
  apply Z.lt_trans with 73; [lia | reflexivity].
Qed.
Lemma tw_padd h bt i : (i <= length (hblock h bt))%nat -> hpadd h (HPtr bt 0) (Z.of_nat i) = Some (HPtr bt (Z.of_nat i)).
Proof. intro H. exact (hpadd_cell h bt 0 i H). Qed.
Lemma tw_lt73 i : (i < 73)%nat -> z2b (c_lt (Z.of_nat i) 73) = true.
Proof. intro H. unfold c_lt. rewrite b2z_z2b. apply Z.ltb_lt. lia. Qed.
Lemma tw_ge73 i : (73 <= i)%nat -> z2b (c_lt (Z.of_nat i) 73) = false.
Proof. intro H. unfold c_lt. rewrite b2z_z2b. apply Z.ltb_ge. lia. Qed.
Lemma tw_cw_succ i : (i < 73)%nat -> cw 32 true (Z.of_nat i + 1) = Z.of_nat (S i).
Proof.
  intro H. rewrite cw_s_small; [lia | lia|]. change (2 ^ (32 - 1)) with 2147483648. lia.
Qed.
Lemma tw_bkeep_nil per ns : w_bkeep per [] ns = [].
Proof. destruct ns; reflexivity. Qed.

(* ------------------------------------------------------------------ table_at after one bucket changed *)
(* bucket i is replaced (heap h', blocks bsi', nodes bi'); the blocks outside bt, the old blocks of bucket i and the new blocks
   are unchanged; the other cells of bt are unchanged; the new blocks are not in another bucket *)
Lemma table_at_update h h' bt bss t i bsi' bi' :
  table_at h bt bss t -> (i < nbuckets)%nat ->
  list_at h' (HPtr bt (Z.of_nat i)) bsi' bi' ->
  length h' = length h ->
  (forall b', b' <> bt -> ~ In b' (nth i bss []) -> ~ In b' bsi' -> hblock h' b' = hblock h b') ->
  (forall k, k <> i -> nth_error (hblock h' bt) k = nth_error (hblock h bt) k) ->
  (forall x, In x bsi' -> forall j, j <> i -> ~ In x (nth j bss [])) ->
  table_at h' bt (tw_set i bsi' bss) (set_b i bi' t).
Proof.
  intros [Ht [Hbs [Hbl [Hbt [Hnd [Hnt Hall]]]]]] Hi Hli Hlen Hfr Hcell Hfresh.
  assert (Hli' := Hli). destruct Hli' as [hd [Hl [Hc [Hd [Hok [Hlt [Htn Htl]]]]]]].
  assert (Hbl' : length (hblock h' bt) = nbuckets).
  { assert (Hle : (length (hblock h' bt) <= nbuckets)%nat).
    { apply nth_error_None. rewrite Hcell by lia. apply nth_error_None. lia. }
    destruct (Nat.eq_dec (length (hblock h' bt)) nbuckets) as [E|E]; [exact E|exfalso].
    destruct (Nat.eq_dec (length (hblock h' bt)) i) as [Ei|Ei].
    - unfold hload_ptr in Hl. rewrite hload_cell in Hl. unfold cell in Hl.
      assert (Hn : nth_error (hblock h' bt) i = None) by (apply nth_error_None; lia). rewrite Hn in Hl. discriminate Hl.
    - assert (Hn : nth_error (hblock h' bt) (length (hblock h' bt)) = None) by (apply nth_error_None; lia).
      rewrite Hcell in Hn by exact Ei. apply nth_error_None in Hn. lia. }
  unfold table_at. rewrite tw_set_eq, tw_set_b_eq, !tw_setg_length.
  split; [exact Ht|]. split; [exact Hbs|]. split; [exact Hbl'|]. split; [rewrite Hlen; exact Hbt|]. split.
  { apply tw_set_NoDup; [exact Hnd | exact Hd | exact Hfresh]. }
  split.
  { intro Hin. destruct (tw_set_concat_in bt bss i bsi' Hin) as [H|H]; [exact (Htn H) | exact (Hnt H)]. }
  intros j Hj. destruct (Nat.eq_dec j i) as [->|Hne].
  - rewrite !tw_setg_nth_same by lia. exact Hli.
  - rewrite !tw_setg_nth_other by exact Hne.
    destruct (Hall j Hj) as [hdj [Hlj [Hcj [Hdj [Hokj [Hltj [Htnj Htlj]]]]]]].
    exists hdj. split.
    { rewrite <- Hlj. unfold hload_ptr. rewrite !hload_cell. unfold cell. rewrite Hcell by exact Hne. reflexivity. }
    split.
    { apply chain_frame with (h := h); [|exact Hcj]. intros x Hx. apply Hfr.
      - intro E. subst. apply Hnt. exact (tw_in_nth_concat _ _ _ Hx).
      - intro Hin. exact (tw_concat_disjoint x bss i j Hnd (fun E => Hne (eq_sym E)) Hin Hx).
      - intro Hin. exact (Hfresh x Hin j Hne Hx). }
    split; [exact Hdj|]. split; [exact Hokj|]. split; [rewrite Hlen; exact Hltj|]. split; [exact Htnj | rewrite Hlen; exact Htlj].
Qed.

(* the usual case: the new blocks of bucket i are old blocks of bucket i or blocks outside the table *)
Lemma tw_fresh (bss : list (list nat)) (i : nat) (bsi' : list nat) : NoDup (concat bss) ->
  (forall x, In x bsi' -> In x (nth i bss []) \/ ~ In x (concat bss)) ->
  forall x, In x bsi' -> forall j, j <> i -> ~ In x (nth j bss []).
Proof.
  intros Hnd H x Hx j Hj Hin. destruct (H x Hx) as [H1|H1].
  - exact (tw_concat_disjoint x bss i j Hnd (fun E => Hj (eq_sym E)) H1 Hin).
  - apply H1. exact (tw_in_nth_concat _ _ _ Hin).
Qed.

(* ------------------------------------------------------------------ 1: addNewNode *)
Theorem src_table_addNewNode_full : forall fuel h bt bss t b n nxt0,
  table_at h bt bss t -> node_ok n -> (b < length h)%nat -> ~ In b (concat bss) -> b <> bt ->
  hblock h b = node_cells n nxt0 ->
  exists h' hd, src_table_addNewNode fuel h (HPtr bt 0) (HPtr b 0) = FOk (tt, h') /\
    table_at h' bt (tw_set (hashN (n_addr n)) (b :: nth (hashN (n_addr n)) bss []) bss) (t_add n t) /\
    length h' = length h /\
    hload_ptr h (HPtr bt (Z.of_nat (hashN (n_addr n)))) = Some hd /\ hblock h' b = node_cells n hd /\
    (forall b', b' <> b -> b' <> bt -> hblock h' b' = hblock h b') /\
    (forall k, k <> hashN (n_addr n) -> nth_error (hblock h' bt) k = nth_error (hblock h bt) k).
Proof.
  intros fuel h bt bss t b n nxt0 Ht Hn Hb Hnin Hne Hbk.
  unfold t_add, get_b. cbv zeta.
  remember (hashN (n_addr n)) as i eqn:Ei.
  assert (Hi : (i < nbuckets)%nat) by (rewrite Ei; apply tw_hashN_lt).
  assert (Ht' := Ht). destruct Ht' as [Hlt [Hlbs [Hbl [Hbt [Hnd [Hnt Hall]]]]]].
  assert (Hnin' : ~ In b (nth i bss [])) by (intro Hin; apply Hnin; exact (tw_in_nth_concat _ _ _ Hin)).
  destruct (src_list_addNewNode_full fuel h (HPtr bt (Z.of_nat i)) (nth i bss []) (nth i t []) b n nxt0
              (Hall i Hi) Hn Hb Hnin' Hne Hbk) as [h' [hd [A [B [C [D [E [F G]]]]]]]].
  exists h', hd. split.
  { unfold src_table_addNewNode. rewrite (w_padd2 _ _ _ _ Hbk). cbv beta iota. rewrite (w_load_key _ _ _ _ Hbk). cbv beta iota.
    rewrite (tw_hash fuel h (HPtr bt 0) (n_addr n) (proj1 Hn)). cbv beta iota. rewrite <- Ei.
    rewrite (tw_padd h bt i) by lia. cbv beta iota. rewrite A. reflexivity. }
  split.
  { apply (table_at_update h h' bt bss t i (b :: nth i bss []) (l_add n (nth i t [])) Ht Hi B C).
    - intros b' H1 _ H3. apply F; [|exact H1]. intro E'. apply H3. left. symmetry. exact E'.
    - intros k Hk. apply G. rewrite Nat2Z.id. exact Hk.
    - apply tw_fresh; [exact Hnd|]. intros x [E'|Hin]; [right; subst x; exact Hnin | left; exact Hin]. }
  split; [exact C|]. split; [exact D|]. split; [exact E|]. split; [exact F|].
  intros k Hk. apply G. rewrite Nat2Z.id. exact Hk.
Qed.

Theorem src_table_addNewNode_spec : forall fuel h bt bss t b n nxt0,
  table_at h bt bss t -> node_ok n -> (b < length h)%nat -> ~ In b (concat bss) -> b <> bt ->
  hblock h b = node_cells n nxt0 ->
  exists h' bss', src_table_addNewNode fuel h (HPtr bt 0) (HPtr b 0) = FOk (tt, h') /\
    table_at h' bt bss' (t_add n t) /\ length h' = length h /\
    (forall b', b' <> b -> b' <> bt -> hblock h' b' = hblock h b').
Proof.
  intros fuel h bt bss t b n nxt0 H1 H2 H3 H4 H5 H6.
  destruct (src_table_addNewNode_full fuel h bt bss t b n nxt0 H1 H2 H3 H4 H5 H6) as [h' [hd [A [B [C [_ [_ [D _]]]]]]]].
  exists h', (tw_set (hashN (n_addr n)) (b :: nth (hashN (n_addr n)) bss []) bss). split; [exact A|]. split; [exact B|]. split; [exact C | exact D].
Qed.

(* ------------------------------------------------------------------ 2: removeNode *)
Lemma tw_t_remove_snd a t : snd (t_remove a t) = set_b (hashN a) (snd (l_remove a (nth (hashN a) t []))) t.
Proof. unfold t_remove, get_b. cbv zeta. destruct (l_remove a (nth (hashN a) t [])); reflexivity. Qed.
Lemma tw_t_remove_fst a t : fst (t_remove a t) = fst (l_remove a (nth (hashN a) t [])).
Proof. unfold t_remove, get_b. cbv zeta. destruct (l_remove a (nth (hashN a) t [])); reflexivity. Qed.

(* everything in one statement; only the bucket hashN a is walked: the fuel hypothesis is about that bucket.  bsi' = the blocks
   that stay in that bucket; the block handed back is not written; the only cell written is the next_ of its predecessor or the
   head_ cell hashN a of the table block *)
Theorem src_table_removeNode_complete : forall fuel h bt bss t a,
  table_at h bt bss t -> (a < 2 ^ 64)%N -> (length (nth (hashN a) t []) < fuel)%nat ->
  exists h' bsi',
    src_table_removeNode fuel h (HPtr bt 0) (Z.of_N a) = FOk (ptr_of a (nth (hashN a) bss []) (nth (hashN a) t []), h') /\
    table_at h' bt (tw_set (hashN a) bsi' bss) (snd (t_remove a t)) /\ length h' = length h /\
    (forall b', b' <> bt -> ~ In b' bsi' -> hblock h' b' = hblock h b') /\
    (forall x, In x bsi' <-> In x (nth (hashN a) bss []) /\ ptr_of a (nth (hashN a) bss []) (nth (hashN a) t []) <> HPtr x 0) /\
    (forall b, ptr_of a (nth (hashN a) bss []) (nth (hashN a) t []) = HPtr b 0 -> hblock h' b = hblock h b) /\
    match fst (t_remove a t) with
    | Some n => exists b nxt, ptr_of a (nth (hashN a) bss []) (nth (hashN a) t []) = HPtr b 0 /\
                              In b (nth (hashN a) bss []) /\ hblock h' b = node_cells n nxt
    | None => ptr_of a (nth (hashN a) bss []) (nth (hashN a) t []) = HNull
    end /\
    (forall k, k <> hashN a -> nth_error (hblock h' bt) k = nth_error (hblock h bt) k).
Proof.
  intros fuel h bt bss t a Ht Ha Hf. rewrite tw_t_remove_snd, tw_t_remove_fst.
  remember (hashN a) as i eqn:Ei.
  assert (Hi : (i < nbuckets)%nat) by (rewrite Ei; apply tw_hashN_lt).
  assert (Ht' := Ht). destruct Ht' as [Hlt [Hlbs [Hbl [Hbt [Hnd [Hnt Hall]]]]]].
  destruct (src_list_removeNode_complete fuel h (HPtr bt (Z.of_nat i)) (nth i bss []) (nth i t []) a (Hall i Hi) Hf)
    as [h' [bs' [A [B [C [D [E [F [G K]]]]]]]]].
  exists h', bs'. split.
  { unfold src_table_removeNode. rewrite (tw_hash fuel h (HPtr bt 0) a Ha). cbv beta iota. rewrite <- Ei.
    rewrite (tw_padd h bt i) by lia. cbv beta iota. rewrite A. reflexivity. }
  split.
  { apply (table_at_update h h' bt bss t i bs' (snd (l_remove a (nth i t []))) Ht Hi B C).
    - intros b' H1 _ H3. exact (D b' H1 H3).
    - intros k Hk. apply K. rewrite Nat2Z.id. exact Hk.
    - apply tw_fresh; [exact Hnd|]. intros x Hx. left. exact (proj1 (proj1 (E x) Hx)). }
  split; [exact C|]. split; [exact D|]. split; [exact E|]. split; [exact F|]. split; [exact G|].
  intros k Hk. apply K. rewrite Nat2Z.id. exact Hk.
Qed.

Theorem src_table_removeNode_spec : forall fuel h bt bss t a,
  table_at h bt bss t -> (a < 2 ^ 64)%N -> (forall i, (i < nbuckets)%nat -> (length (nth i t []) < fuel)%nat) ->
  exists h' bss',
    src_table_removeNode fuel h (HPtr bt 0) (Z.of_N a) = FOk (ptr_of a (nth (hashN a) bss []) (nth (hashN a) t []), h') /\
    table_at h' bt bss' (snd (t_remove a t)) /\ length h' = length h /\
    (forall b', b' <> bt -> ~ In b' (concat bss) -> hblock h' b' = hblock h b').
Proof.
  intros fuel h bt bss t a Ht Ha Hf.
  destruct (src_table_removeNode_complete fuel h bt bss t a Ht Ha (Hf _ (tw_hashN_lt a))) as [h' [bs' [A [B [C [D [E _]]]]]]].
  exists h', (tw_set (hashN a) bs' bss). split; [exact A|]. split; [exact B|]. split; [exact C|].
  intros b' H1 H2. apply D; [exact H1|]. intro Hin. apply H2. exact (tw_in_nth_concat _ _ _ (proj1 (proj1 (E b') Hin))).
Qed.

(* ------------------------------------------------------------------ 3: clearAllAccounting *)
(* the loop over the buckets: `pre` are the buckets already done, `post` those still to be cleared; i = length pre *)
Lemma tw_clear_loop fuel0 bt per : forall post pre fuel h bss,
  table_at h bt bss (pre ++ post) -> Forall (fun ns => (length ns < fuel0)%nat) post -> (length post < fuel)%nat ->
  exists h' bss' iz,
    src_table_clearAllAccounting_loop1 fuel0 fuel (HPtr bt 0) (period_code per) h (Z.of_nat (length pre)) = Go (h', iz) /\
    table_at h' bt bss' (pre ++ map (l_clear per) post) /\ length h' = length h /\
    (forall b', b' <> bt -> ~ In b' (concat bss') -> hblock h' b' = hblock h b') /\
    (forall j, nth j bss' [] = if (j <? length pre)%nat then nth j bss []
                               else w_bkeep per (nth j bss []) (nth j (pre ++ post) [])).
Proof.
  induction post as [|x post IH]; intros pre fuel h bss Ht Hfu Hf.
  - destruct fuel as [|fuel]; [cbn in Hf; lia|]. cbn [src_table_clearAllAccounting_loop1].
    assert (Ht' := Ht). destruct Ht' as [Hlt [Hlbs _]]. rewrite app_nil_r, tw_nb in Hlt. rewrite tw_nb in Hlbs.
    rewrite tw_ge73 by lia. exists h, bss, (Z.of_nat (length pre)). split; [reflexivity|]. split; [exact Ht|].
    split; [reflexivity|]. split; [intros; reflexivity|].
    intro j. destruct (Nat.ltb_spec j (length pre)) as [L|L]; [reflexivity|].
    rewrite (nth_overflow bss) by lia. rewrite tw_bkeep_nil. reflexivity.
  - destruct fuel as [|fuel]; [cbn in Hf; lia|]. cbn [length] in Hf. cbn [src_table_clearAllAccounting_loop1].
    assert (Ht' := Ht). destruct Ht' as [Hlt [Hlbs [Hbl [Hbt [Hnd [Hnt Hall]]]]]].
    rewrite app_length in Hlt. cbn [length] in Hlt. rewrite tw_nb in Hlt, Hlbs, Hbl.
    remember (length pre) as i eqn:Ei.
    assert (Hi : (i < nbuckets)%nat) by (rewrite tw_nb; lia).
    inversion Hfu as [|? ? Hx Hfu']; subst x0 l.
    assert (Hnx : nth i (pre ++ x :: post) [] = x) by (rewrite Ei; apply nth_middle).
    pose proof (Hall i Hi) as Hli. rewrite Hnx in Hli.
    destruct (src_list_clearAllAccounting_complete fuel0 h (HPtr bt (Z.of_nat i)) (nth i bss []) x per Hli Hx)
      as [h1 [A [B [C [_ [D [_ E]]]]]]].
    assert (Ht1 : table_at h1 bt (tw_set i (w_bkeep per (nth i bss []) x) bss) ((pre ++ [l_clear per x]) ++ post)).
    { replace ((pre ++ [l_clear per x]) ++ post) with (set_b i (l_clear per x) (pre ++ x :: post)).
      - apply (table_at_update h h1 bt bss (pre ++ x :: post) i _ _ Ht Hi B C).
        + intros b' H1 _ H3. exact (D b' H1 H3).
        + intros k Hk. apply E. rewrite Nat2Z.id. exact Hk.
        + apply tw_fresh; [exact Hnd|]. intros y Hy. left. exact (w_bkeep_incl _ _ _ _ Hy).
      - rewrite tw_set_b_eq, Ei, tw_setg_app_mid, <- app_assoc. reflexivity. }
    destruct (IH (pre ++ [l_clear per x]) fuel h1 _ Ht1 Hfu' ltac:(lia)) as [h' [bss' [iz [Hr [Ht' [Hlen [Hfr Hch]]]]]]].
    rewrite app_length in Hr, Hch. cbn [length] in Hr, Hch. rewrite <- Ei, Nat.add_1_r in Hr, Hch.
    exists h', bss', iz. split.
    { rewrite tw_lt73 by lia. rewrite (tw_padd h bt i) by lia. cbv beta iota. rewrite A. cbv beta iota zeta.
      rewrite tw_cw_succ by lia. exact Hr. }
    split. { rewrite <- app_assoc in Ht'. exact Ht'. }
    split; [rewrite Hlen; exact C|]. split.
    + intros b' H1 H2. rewrite (Hfr b' H1 H2). apply D; [exact H1|]. intro Hin. apply H2.
      apply (tw_in_nth_concat b' bss' i). rewrite Hch. replace (i <? S i)%nat with true by (symmetry; apply Nat.ltb_lt; lia).
      rewrite tw_set_eq, tw_setg_nth_same by lia. exact Hin.
    + intro j. rewrite Hch, tw_set_eq. destruct (Nat.ltb_spec j i) as [L|L].
      * replace (j <? S i)%nat with true by (symmetry; apply Nat.ltb_lt; lia). apply tw_setg_nth_other. lia.
      * destruct (Nat.eq_dec j i) as [->|Hne].
        -- replace (i <? S i)%nat with true by (symmetry; apply Nat.ltb_lt; lia). rewrite tw_setg_nth_same by lia.
           rewrite Hnx. reflexivity.
        -- replace (j <? S i)%nat with false by (symmetry; apply Nat.ltb_ge; lia). rewrite tw_setg_nth_other by exact Hne.
           f_equal. rewrite <- app_assoc. cbn [app]. rewrite !app_nth2 by lia. rewrite <- Ei.
           destruct (j - i)%nat as [|m] eqn:Em; [lia | reflexivity].
Qed.

(* bss' is given bucket by bucket: the blocks of the nodes that stay (C04_HeapListW.w_bkeep); the blocks of the unlinked nodes are
   not written at all *)
Theorem src_table_clearAllAccounting_full : forall fuel h bt bss t per,
  table_at h bt bss t -> (forall i, (i < nbuckets)%nat -> (length (nth i t []) < fuel)%nat) -> (73 < fuel)%nat ->
  exists h' bss', src_table_clearAllAccounting fuel h (HPtr bt 0) (period_code per) = FOk (tt, h') /\
    table_at h' bt bss' (t_clear per t) /\ length h' = length h /\
    (forall b', b' <> bt -> ~ In b' (concat bss') -> hblock h' b' = hblock h b') /\
    (forall j, nth j bss' [] = w_bkeep per (nth j bss []) (nth j t [])) /\
    (forall x, In x (concat bss') -> In x (concat bss)).
Proof.
  intros fuel h bt bss t per Ht Hfu Hf.
  assert (Hlt : length t = nbuckets) by exact (proj1 Ht).
  assert (Hall : Forall (fun ns => (length ns < fuel)%nat) t).
  { apply Forall_forall. intros ns Hin. destruct (In_nth t ns [] Hin) as [i [Hi <-]]. apply Hfu. lia. }
  destruct (tw_clear_loop fuel bt per t [] fuel h bss Ht Hall ltac:(rewrite Hlt, tw_nb; exact Hf))
    as [h' [bss' [iz [Hr [Ht' [Hlen [Hfr Hch]]]]]]].
  cbn [length app] in Hr, Ht', Hch. change (Z.of_nat 0) with 0 in Hr.
  assert (Hch' : forall j, nth j bss' [] = w_bkeep per (nth j bss []) (nth j t [])).
  { intro j. rewrite Hch. reflexivity. }
  exists h', bss'. split.
  { unfold src_table_clearAllAccounting. cbv zeta. rewrite Hr. reflexivity. }
  split; [exact Ht'|]. split; [exact Hlen|]. split; [exact Hfr|]. split; [exact Hch'|].
  intros x Hx. destruct (tw_in_concat_nth x bss' Hx) as [j Hj]. rewrite Hch' in Hj.
  exact (tw_in_nth_concat x bss j (w_bkeep_incl _ _ _ _ Hj)).
Qed.

Theorem src_table_clearAllAccounting_spec : forall fuel h bt bss t per,
  table_at h bt bss t -> (forall i, (i < nbuckets)%nat -> (length (nth i t []) < fuel)%nat) -> (73 < fuel)%nat ->
  exists h' bss', src_table_clearAllAccounting fuel h (HPtr bt 0) (period_code per) = FOk (tt, h') /\
    table_at h' bt bss' (t_clear per t) /\ length h' = length h /\
    (forall b', b' <> bt -> ~ In b' (concat bss) -> hblock h' b' = hblock h b').
Proof.
  intros fuel h bt bss t per Ht Hfu Hf.
  destruct (src_table_clearAllAccounting_full fuel h bt bss t per Ht Hfu Hf) as [h' [bss' [A [B [C [D [_ E]]]]]]].
  exists h', bss'. split; [exact A|]. split; [exact B|]. split; [exact C|].
  intros b' H1 H2. apply D; [exact H1|]. intro Hin. apply H2. exact (E b' Hin).
Qed.

(* ------------------------------------------------------------------ non-vacuity: the translated functions on a concrete heap *)
Module TWExamples.
  (* keys 100 and 173 hash to bucket 27, key 8 to bucket 8, key 246 (the loose record) to bucket 27 *)
  Definition n1 := mkNode 100 8 1 7 10 0 SEnabled 0.
  Definition n2 := mkNode 173 16 2 7 20 1 SChecking 0.
  Definition n3 := mkNode 8 24 3 7 30 2 SDisabled 1.
  Definition n4 := mkNode 246 32 4 7 40 0 SEnabled 1.
  Example ex_hash : hashN 100 = 27%nat /\ hashN 173 = 27%nat /\ hashN 8 = 8%nat /\ hashN 246 = 27%nat.
  Proof. repeat split; reflexivity. Qed.
  (* the table block: 73 head cells, all NULL except cells 8 and 27 *)
  Definition tbl (c8 c27 : hptr) : list val :=
    repeat (VPtr HNull) 8 ++ [VPtr c8] ++ repeat (VPtr HNull) 18 ++ [VPtr c27] ++ repeat (VPtr HNull) 45.
  Example tbl_cells c8 c27 : length (tbl c8 c27) = nbuckets. Proof. reflexivity. Qed.
  (* block 0: the table; blocks 1, 2: bucket 27 = [n1; n2]; block 3: bucket 8 = [n3]; block 4: a loose record *)
  Definition h0 : heap :=
    [tbl (HPtr 3 0) (HPtr 1 0); node_cells n1 (HPtr 2 0); node_cells n2 HNull; node_cells n3 HNull; node_cells n4 HNull].
  Definition bss0 : list (list nat) := tw_set 8 [3%nat] (tw_set 27 [1%nat; 2%nat] (repeat [] 73)).
  Definition t0 : table := set_b 8 [n3] (set_b 27 [n1; n2] empty_table).

  Lemma ok1 : node_ok n1. Proof. repeat split; reflexivity. Qed.
  Lemma ok2 : node_ok n2. Proof. repeat split; reflexivity. Qed.
  Lemma ok3 : node_ok n3. Proof. repeat split; reflexivity. Qed.
  Lemma ok4 : node_ok n4. Proof. repeat split; reflexivity. Qed.

  (* the hypotheses of the theorems are satisfiable: h0 represents t0 *)
  Example h0_represents : table_at h0 0 bss0 t0.
  Proof.
    split; [reflexivity|]. split; [reflexivity|]. split; [reflexivity|]. split; [cbn; lia|]. split.
    { cbv. repeat constructor; cbn; intuition lia. }
    split. { cbv. intuition lia. }
    intros i Hi. rewrite tw_nb in Hi.
    do 73 (destruct i as [|i]; [
      first [ (* an empty bucket *)
              exists HNull; split; [reflexivity|]; split; [reflexivity|]; split; [constructor|]; split; [constructor|];
              split; [constructor|]; split; [intros [] | cbn; lia]
            | (* bucket 8 *)
              exists (HPtr 3 0); split; [reflexivity|]; split;
              [ cbn [chain nth bss0 t0]; split; [reflexivity|]; exists HNull; split; reflexivity |];
              split; [repeat constructor; cbn; intuition lia|]; split; [repeat constructor; exact ok3|];
              split; [repeat constructor; cbn; lia|]; split; [cbn; intuition lia | cbn; lia]
            | (* bucket 27 *)
              exists (HPtr 1 0); split; [reflexivity|]; split;
              [ split; [reflexivity|]; exists (HPtr 2 0); split; [reflexivity|]; split; [reflexivity|]; exists HNull;
                split; reflexivity |];
              split; [repeat constructor; cbn; intuition lia|];
              split; [constructor; [exact ok1|]; constructor; [exact ok2 | constructor]|];
              split; [repeat constructor; cbn; lia|]; split; [cbn; intuition lia | cbn; lia] ] |]).
    lia.
  Qed.

  (* addNewNode: the key 246 is read from the record's memory_ cell; head cell 27 now points to block 4, whose next_ is block 1 *)
  Example ex_add : src_table_addNewNode 0 h0 (HPtr 0 0) (HPtr 4 0) =
    FOk (tt, [tbl (HPtr 3 0) (HPtr 4 0); node_cells n1 (HPtr 2 0); node_cells n2 HNull; node_cells n3 HNull;
              node_cells n4 (HPtr 1 0)]).
  Proof. vm_compute. reflexivity. Qed.
  Example ex_add_model : t_add n4 t0 = set_b 8 [n3] (set_b 27 [n4; n1; n2] empty_table). Proof. vm_compute. reflexivity. Qed.

  (* removeNode: behind prev / the head of a bucket / the only node of a bucket / absent *)
  Example ex_remove_mid : src_table_removeNode 3 h0 (HPtr 0 0) 173 =
    FOk (HPtr 2 0, [tbl (HPtr 3 0) (HPtr 1 0); node_cells n1 HNull; node_cells n2 HNull; node_cells n3 HNull; node_cells n4 HNull]).
  Proof. vm_compute. reflexivity. Qed.
  Example ex_remove_head : src_table_removeNode 3 h0 (HPtr 0 0) 100 =
    FOk (HPtr 1 0, [tbl (HPtr 3 0) (HPtr 2 0); node_cells n1 (HPtr 2 0); node_cells n2 HNull; node_cells n3 HNull;
                    node_cells n4 HNull]).
  Proof. vm_compute. reflexivity. Qed.
  Example ex_remove_only : src_table_removeNode 3 h0 (HPtr 0 0) 8 =
    FOk (HPtr 3 0, [tbl HNull (HPtr 1 0); node_cells n1 (HPtr 2 0); node_cells n2 HNull; node_cells n3 HNull; node_cells n4 HNull]).
  Proof. vm_compute. reflexivity. Qed.
  Example ex_remove_absent : src_table_removeNode 3 h0 (HPtr 0 0) 246 = FOk (HNull, h0).
  Proof. vm_compute. reflexivity. Qed.
  Example ex_remove_model : t_remove 173 t0 = (Some n2, set_b 8 [n3] (set_b 27 [n1] empty_table)) /\
                            fst (t_remove 246 t0) = None.
  Proof. split; vm_compute; reflexivity. Qed.
  (* only the bucket of the key is walked: 2 nodes and the NULL at the end need fuel 3 *)
  Example ex_remove_fuel : src_table_removeNode 2 h0 (HPtr 0 0) 246 = FNoFuel. Proof. vm_compute. reflexivity. Qed.

  (* clearAllAccounting: mem_leak_period_checking (3) unlinks n2 behind n1; mem_leak_period_enabled (2) empties bucket 27;
     mem_leak_period_all (0) empties both; no record block of an unlinked node is written *)
  Example ex_clear_checking : src_table_clearAllAccounting 74 h0 (HPtr 0 0) 3 =
    FOk (tt, [tbl (HPtr 3 0) (HPtr 1 0); node_cells n1 HNull; node_cells n2 HNull; node_cells n3 HNull; node_cells n4 HNull]).
  Proof. vm_compute. reflexivity. Qed.
  Example ex_clear_enabled : src_table_clearAllAccounting 74 h0 (HPtr 0 0) 2 =
    FOk (tt, [tbl (HPtr 3 0) HNull; node_cells n1 (HPtr 2 0); node_cells n2 HNull; node_cells n3 HNull; node_cells n4 HNull]).
  Proof. vm_compute. reflexivity. Qed.
  Example ex_clear_all : src_table_clearAllAccounting 74 h0 (HPtr 0 0) 0 =
    FOk (tt, [tbl HNull HNull; node_cells n1 (HPtr 2 0); node_cells n2 HNull; node_cells n3 HNull; node_cells n4 HNull]).
  Proof. vm_compute. reflexivity. Qed.
  Example ex_clear_model : t_clear PChecking t0 = set_b 8 [n3] (set_b 27 [n1] empty_table) /\
                           t_clear PEnabled t0 = set_b 8 [n3] empty_table /\ t_clear PAll t0 = empty_table.
  Proof. repeat split; vm_compute; reflexivity. Qed.
  (* the bound 73 < fuel is the least one: 73 buckets and the final test i < 73 *)
  Example ex_clear_fuel : src_table_clearAllAccounting 73 h0 (HPtr 0 0) 0 = FNoFuel. Proof. vm_compute. reflexivity. Qed.

  (* the theorems instantiated on this heap *)
  Example ex_add_thm : exists h' bss', src_table_addNewNode 0 h0 (HPtr 0 0) (HPtr 4 0) = FOk (tt, h') /\
    table_at h' 0 bss' (t_add n4 t0) /\ length h' = length h0 /\
    (forall b', b' <> 4%nat -> b' <> 0%nat -> hblock h' b' = hblock h0 b').
  Proof.
    apply (src_table_addNewNode_spec 0 h0 0 bss0 t0 4 n4 HNull h0_represents ok4); [cbn; lia | cbv; intuition lia | lia | reflexivity].
  Qed.
  Example ex_remove_thm : exists h' bss', src_table_removeNode 3 h0 (HPtr 0 0) (Z.of_N 173) =
      FOk (ptr_of 173 (nth (hashN 173) bss0 []) (nth (hashN 173) t0 []), h') /\
    table_at h' 0 bss' (snd (t_remove 173 t0)) /\ length h' = length h0 /\
    (forall b', b' <> 0%nat -> ~ In b' (concat bss0) -> hblock h' b' = hblock h0 b').
  Proof.
    apply (src_table_removeNode_spec 3 h0 0 bss0 t0 173 h0_represents); [reflexivity|].
    intros i Hi. rewrite tw_nb in Hi. do 73 (destruct i as [|i]; [apply Nat.ltb_lt; vm_compute; reflexivity|]). lia.
  Qed.
  Example ex_clear_thm : exists h' bss', src_table_clearAllAccounting 74 h0 (HPtr 0 0) (period_code PChecking) = FOk (tt, h') /\
    table_at h' 0 bss' (t_clear PChecking t0) /\ length h' = length h0 /\
    (forall b', b' <> 0%nat -> ~ In b' (concat bss0) -> hblock h' b' = hblock h0 b').
  Proof.
    apply (src_table_clearAllAccounting_spec 74 h0 0 bss0 t0 PChecking h0_represents); [|lia].
    intros i Hi. rewrite tw_nb in Hi. do 73 (destruct i as [|i]; [apply Nat.ltb_lt; vm_compute; reflexivity|]). lia.
  Qed.
End TWExamples.
