From Coq Require Import ExtrOcamlBasic ZArith.
From CppUVerif Require Import C16_Events C20_Model.
Extraction "c20_model.ml" C20_Model.run C20_Model.run_old_path C20_Model.run_old_group C20_Model.spec C20_Model.valid C20_Model.parse_result C20_Model.parse_result_any BinInt.Z.of_N.
