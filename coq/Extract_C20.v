From Coq Require Import ExtrOcamlBasic ZArith.
From CppUVerif Require Import C16_Events C20_Model C20_ModelX.
Extraction "c20_model.ml" C20_Model.run C20_Model.run_old_path C20_Model.run_old_group C20_Model.spec C20_Model.valid C20_Model.parse_result C20_Model.parse_result_any C20_ModelX.xrun C20_ModelX.xrun_formatted C20_ModelX.xspec C20_ModelX.xvalid C20_ModelX.xrun_marks C20_ModelX.embed BinInt.Z.of_N.
