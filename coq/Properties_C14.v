(* C14 -- Diagnostics are safe to build, bounded, and say what happened.
   Only statements; every proof is `exact <lemma>` into C14_Proofs.v / C14_Scan.v. *)
From Coq Require Import NArith ZArith Bool List.
From CppUVerif Require Import lib.CInt lib.Str gen.Gen_Common gen.Gen_C14 C14_Model C14_Proofs C14_Scan C14_LeafTie.
Import ListNotations.
Local Open Scope N_scope.

(* (a) for EVERY history of startChecking / misuse reports / leak reports, every index of the fixed buffer ever written
   lies inside it, the text ends exactly at the fill position, and that position is inside the buffer *)
Theorem C14_buffer_bounded : forall plen ops,
  let b := sb (fst (steps add plen st_init ops)) in
  maxw b < buf_len /\ slen b = filled b /\ filled b < buf_len.
Proof. exact buffer_bounded. Qed.
Print Assumptions C14_buffer_bounded.

(* the code before the repair of D13 (size_t wrap of limit - filled) writes behind the buffer: report, then report *)
Theorem C14_buffer_bounded_old_refuted :
  ~ (forall plen ops, valid_buf ops = true -> spec_buf ops (run_buf_old plen ops) = true).
Proof. exact buffer_bounded_old_refuted. Qed.
Print Assumptions C14_buffer_bounded_old_refuted.

(* a report begun on a cleared buffer, any leaks (at most INT_MAX of them): the footer is complete and states the
   true total, and the "too many" notice is complete and present whenever an entry was truncated or dropped *)
Theorem C14_footer_states_total : forall plen s leaks,
  inv (sb s) -> filled (sb s) = 0 ->
  let n := N.of_nat (length leaks) in
  0 < n -> n <= int_max ->
  match snd (do_report add plen s leaks) with
  | ORep len c tot notice complete _ _ =>
      bounded_obs len c = true /\ tot = Some (Z.of_N n) /\ (complete < n -> notice = true)
  | _ => False
  end.
Proof. exact footer_states_total. Qed.
Print Assumptions C14_footer_states_total.

(* (b) the repaired scans (exact and case-insensitive) return the first index at which the operands differ and read
   only indices up to it, which lie inside both operands (terminator included) *)
Theorem C14_scan_safe : forall norm : N -> N, (forall x, x <> 0 -> norm x <> norm 0) -> forall a e, nz a -> nz e ->
  exists p, scan norm true (scan_fuel a e) 0 a e = Found p /\ (p <= length a)%nat /\ (p <= length e)%nat /\
            p = first_diff (map norm a) (map norm e).
Proof. exact scan_safe_both. Qed.
Print Assumptions C14_scan_safe.

Theorem C14_printable_scan_safe : forall norm : N -> N, (forall x, x <> 0 -> norm x <> norm 0) -> forall a e, nz a -> nz e ->
  exists p, scan norm true (scan_fuel (printable a) (printable e)) 0 (printable a) (printable e) = Found p
            /\ (p <= length (printable a))%nat /\ (p <= length (printable e))%nat.
Proof. exact printable_scan_safe. Qed.
Print Assumptions C14_printable_scan_safe.

(* first_diff is the least index at which the terminated operands differ *)
Theorem C14_first_diff_exact : forall a e, nz a -> nz e -> a <> e ->
  let p := first_diff a e in
  rd a p <> rd e p /\ (forall i, (i < p)%nat -> rd a i = rd e i) /\ (p <= length a)%nat /\ (p <= length e)%nat.
Proof. exact first_diff_least. Qed.
Print Assumptions C14_first_diff_exact.

(* the loops before the repair of D12 leave the operands when these (or their printable forms) do not differ *)
Theorem C14_scan_old_refuted :
  ~ (forall a e, nz a -> nz e -> exists p, scan idn false (scan_fuel a e) 0 a e = Found p).
Proof. exact scan_old_refuted. Qed.
Print Assumptions C14_scan_old_refuted.
Theorem C14_printable_scan_old_refuted :
  run_fail_old (FStr KStringEqual (Some [97; 10]) (Some [97; 92; 110]) []) = FBad.
Proof. exact printable_scan_old_refuted. Qed.
Print Assumptions C14_printable_scan_old_refuted.

Theorem C14_binary_scan_exact : forall a e size, length a = size -> length e = size ->
  scan_bin true (S (S size)) 0 size a e = Found (first_diff a e).
Proof. exact scan_bin_exact. Qed.
Print Assumptions C14_binary_scan_exact.
Theorem C14_binary_scan_old_refuted : scan_bin false 4 0 2 [1; 2] [1; 2] = OutOfBounds 2.
Proof. exact scan_bin_old_refuted. Qed.
Print Assumptions C14_binary_scan_old_refuted.

(* the marker window is always cut inside the padded text *)
Theorem C14_window_in_bounds : forall actual offset, (offset <= length actual)%nat ->
  length (sub_string (spaces half_window ++ actual ++ spaces half_window) offset (N.to_nat diff_window)) = N.to_nat diff_window.
Proof. exact window_in_bounds. Qed.
Print Assumptions C14_window_in_bounds.

(* the executable oracle accepts every model observation: bounded + terminated + canary for all histories, true total
   and notice for reports on a cleared buffer; both operands shown (escaped) and the exact position for all operand pairs *)
Theorem C14_run_meets_spec : forall s, valid s = true -> spec s (run s) = true.
Proof. exact run_meets_spec. Qed.
Print Assumptions C14_run_meets_spec.

(* the buffer state machine of the model IS the source: add / clear / setWriteLimit / resetWriteLimit / reachedItsCapacity equal
   the definitions tools/cxx2coq.py regenerates from clang's AST of MemoryLeakDetector.cpp on every run (gen/Gen_Leaf.v), including
   the size argument handed to vsnprintf *)
Theorem C14_buffer_methods_are_the_source : C14_LeafTie.C14_buffer_methods_are_the_source_stmt.
Proof. exact C14_LeafTie.C14_buffer_methods_are_the_source. Qed.
Print Assumptions C14_buffer_methods_are_the_source.
