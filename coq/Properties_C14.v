(* C14 -- Diagnostics are safe to build, bounded, and say what happened.
   Only statements; every proof is `exact <lemma>` into C14_Proofs.v / C14_Scan.v. *)
From Coq Require Import NArith ZArith Bool List.
From CppUVerif Require Import lib.CInt lib.Str gen.Gen_Common gen.Gen_C14 C14_Model C14_Proofs C14_Scan C14_LeafTie.
Import ListNotations.
Local Open Scope N_scope.

(* (a) for EVERY history of startChecking / misuse reports / leak reports, every index of the fixed buffer ever written
   lies inside it, the text ends exactly at the fill position, and that position is inside the buffer *)
Theorem C14_buffer_bounded : forall plen ops,
  let b := sb (fst (steps add plen st_init ops)) in
  maxw b < buf_len /\ slen b = filled b /\ filled b < buf_len.
Proof. exact buffer_bounded. Qed.
Print Assumptions C14_buffer_bounded.

(* the code before the repair of D13 (size_t wrap of limit - filled) writes behind the buffer: report, then report *)
Theorem C14_buffer_bounded_old_refuted :
  ~ (forall plen ops, valid_buf ops = true -> spec_buf ops (run_buf_old plen ops) = true).
Proof. exact buffer_bounded_old_refuted. Qed.
Print Assumptions C14_buffer_bounded_old_refuted.

(* a report begun on a cleared buffer, any leaks (at most INT_MAX of them): the footer is complete and states the
   true total, and the "too many" notice is complete and present whenever an entry was truncated or dropped *)
Theorem C14_footer_states_total : forall plen s leaks,
  inv (sb s) -> filled (sb s) = 0 ->
  let n := N.of_nat (length leaks) in
  0 < n -> n <= int_max ->
  match snd (do_report add plen s leaks) with
  | ORep len c tot notice complete _ _ =>
      bounded_obs len c = true /\ tot = Some (Z.of_N n) /\ (complete < n -> notice = true)
  | _ => False
  end.
Proof. exact footer_states_total. Qed.
Print Assumptions C14_footer_states_total.

(* (b) the repaired scans (exact and case-insensitive) return the first index at which the operands differ and read
   only indices up to it, which lie inside both operands (terminator included) *)
Theorem C14_scan_safe : forall norm : N -> N, (forall x, x <> 0 -> norm x <> norm 0) -> forall a e, nz a -> nz e ->
  exists p, scan norm true (scan_fuel a e) 0 a e = Found p /\ (p <= length a)%nat /\ (p <= length e)%nat /\
            p = first_diff (map norm a) (map norm e).
Proof. exact scan_safe_both. Qed.
Print Assumptions C14_scan_safe.

Theorem C14_printable_scan_safe : forall norm : N -> N, (forall x, x <> 0 -> norm x <> norm 0) -> forall a e, nz a -> nz e ->
  exists p, scan norm true (scan_fuel (printable a) (printable e)) 0 (printable a) (printable e) = Found p
            /\ (p <= length (printable a))%nat /\ (p <= length (printable e))%nat.
Proof. exact printable_scan_safe. Qed.
Print Assumptions C14_printable_scan_safe.

(* first_diff is the least index at which the terminated operands differ *)
Theorem C14_first_diff_exact : forall a e, nz a -> nz e -> a <> e ->
  let p := first_diff a e in
  rd a p <> rd e p /\ (forall i, (i < p)%nat -> rd a i = rd e i) /\ (p <= length a)%nat /\ (p <= length e)%nat.
Proof. exact first_diff_least. Qed.
Print Assumptions C14_first_diff_exact.

(* the loops before the repair of D12 leave the operands when these (or their printable forms) do not differ *)
Theorem C14_scan_old_refuted :
  ~ (forall a e, nz a -> nz e -> exists p, scan idn false (scan_fuel a e) 0 a e = Found p).
Proof. exact scan_old_refuted. Qed.
Print Assumptions C14_scan_old_refuted.
Theorem C14_printable_scan_old_refuted :
  run_fail_old (FStr KStringEqual (Some [97; 10]) (Some [97; 92; 110]) []) = FBad.
Proof. exact printable_scan_old_refuted. Qed.
Print Assumptions C14_printable_scan_old_refuted.

Theorem C14_binary_scan_exact : forall a e size, length a = size -> length e = size ->
  scan_bin true (S (S size)) 0 size a e = Found (first_diff a e).
Proof. exact scan_bin_exact. Qed.
Print Assumptions C14_binary_scan_exact.
Theorem C14_binary_scan_old_refuted : scan_bin false 4 0 2 [1; 2] [1; 2] = OutOfBounds 2.
Proof. exact scan_bin_old_refuted. Qed.
Print Assumptions C14_binary_scan_old_refuted.

(* the marker window is always cut inside the padded text *)
Theorem C14_window_in_bounds : forall actual offset, (offset <= length actual)%nat ->
  length (sub_string (spaces half_window ++ actual ++ spaces half_window) offset (N.to_nat diff_window)) = N.to_nat diff_window.
Proof. exact window_in_bounds. Qed.
Print Assumptions C14_window_in_bounds.

(* the executable oracle accepts every model observation: bounded + terminated + canary for all histories, true total
   and notice for reports on a cleared buffer; both operands shown (escaped) and the exact position for all operand pairs *)
Theorem C14_run_meets_spec : forall s, valid s = true -> spec s (run s) = true.
Proof. exact run_meets_spec. Qed.
Print Assumptions C14_run_meets_spec.

(* the buffer state machine of the model IS the source: add / clear / setWriteLimit / resetWriteLimit / reachedItsCapacity equal
   the definitions tools/cxx2coq.py regenerates from clang's AST of MemoryLeakDetector.cpp on every run (gen/Gen_Leaf.v), including
   the size argument handed to vsnprintf *)
Theorem C14_buffer_methods_are_the_source : C14_LeafTie.C14_buffer_methods_are_the_source_stmt.
Proof. exact C14_LeafTie.C14_buffer_methods_are_the_source. Qed.
Print Assumptions C14_buffer_methods_are_the_source.

(* --------------------------------------------------------------------------------------------------------------
   The first-difference scans ARE the source: the seven scan loops of the failure constructors of TestFailure.cpp, each regenerated on its own by tools/cxx2gal.py on every run (gen/Gen_LoopC14.v; x.at(i) is the translated, proved SimpleString::at), return the textbook first difference of the operands (of their lower-cased forms for the no-case check; bounded by size for memory blocks), read nothing beyond the terminators -- for operands that do not differ they stop AT the terminator, the index after it is refused by the memory model -- and terminate within first_diff + 1 iterations
   -------------------------------------------------------------------------------------------------------------- *)
From CppUVerif Require Import lib.CSem lib.CMem lib.CMemFacts gen.Gen_LoopC13 gen.Gen_LoopC14 C13_SrcSpec C14_SrcTie.
Local Open Scope Z_scope.
Theorem C14_src_scan_CheckEqual_raw_spec :
  forall (fuel : nat) (m : memory) (fs : Z) (pa pe : ptr) (a ra e re : list N),
  mem_ok m ->
  cstr_at m pa a ra ->
  cstr_at m pe e re ->
  (first_diff a e < fuel)%nat ->
  Z.of_nat (first_diff a e) < C13_SrcTie.M64 ->
  src_scan_CheckEqual_raw fuel m fs pa pe = FOk (Z.of_nat (first_diff a e)).
Proof. exact src_scan_CheckEqual_raw_spec. Qed.
Print Assumptions C14_src_scan_CheckEqual_raw_spec.

Theorem C14_src_scan_CheckEqual_printable_spec :
  forall (fuel : nat) (m : memory) (fs : Z) (pa pe : ptr) (a ra e re : list N),
  mem_ok m ->
  cstr_at m pa a ra ->
  cstr_at m pe e re ->
  (first_diff a e < fuel)%nat ->
  Z.of_nat (first_diff a e) < C13_SrcTie.M64 ->
  src_scan_CheckEqual_printable fuel m fs pa pe = FOk (Z.of_nat (first_diff a e)).
Proof. exact src_scan_CheckEqual_printable_spec. Qed.
Print Assumptions C14_src_scan_CheckEqual_printable_spec.

Theorem C14_src_scan_StringEqual_raw_spec :
  forall (fuel : nat) (m : memory) (fs : Z) (pa pe : ptr) (a ra e re : list N),
  mem_ok m ->
  cstr_at m pa a ra ->
  cstr_at m pe e re ->
  (first_diff a e < fuel)%nat ->
  Z.of_nat (first_diff a e) < C13_SrcTie.M64 ->
  src_scan_StringEqual_raw fuel m pe pa fs = FOk (Z.of_nat (first_diff a e)).
Proof. exact src_scan_StringEqual_raw_spec. Qed.
Print Assumptions C14_src_scan_StringEqual_raw_spec.

Theorem C14_src_scan_StringEqual_printable_spec :
  forall (fuel : nat) (m : memory) (fs : Z) (pa pe : ptr) (a ra e re : list N),
  mem_ok m ->
  cstr_at m pa a ra ->
  cstr_at m pe e re ->
  (first_diff a e < fuel)%nat ->
  Z.of_nat (first_diff a e) < C13_SrcTie.M64 ->
  src_scan_StringEqual_printable fuel m fs pa pe = FOk (Z.of_nat (first_diff a e)).
Proof. exact src_scan_StringEqual_printable_spec. Qed.
Print Assumptions C14_src_scan_StringEqual_printable_spec.

Theorem C14_src_scan_NoCase_raw_spec :
  forall (fuel : nat) (m : memory) (fs : Z) (pa pe : ptr) (a ra e re : list N),
  mem_ok m ->
  cstr_at m pa a ra ->
  cstr_at m pe e re ->
  (first_diff (map to_lower a) (map to_lower e) < fuel)%nat ->
  Z.of_nat (first_diff (map to_lower a) (map to_lower e)) < C13_SrcTie.M64 ->
  src_scan_NoCase_raw fuel m pe pa fs = FOk (Z.of_nat (first_diff (map to_lower a) (map to_lower e))).
Proof. exact src_scan_NoCase_raw_spec. Qed.
Print Assumptions C14_src_scan_NoCase_raw_spec.

Theorem C14_src_scan_NoCase_printable_spec :
  forall (fuel : nat) (m : memory) (fs : Z) (pa pe : ptr) (a ra e re : list N),
  mem_ok m ->
  cstr_at m pa a ra ->
  cstr_at m pe e re ->
  (first_diff (map to_lower a) (map to_lower e) < fuel)%nat ->
  Z.of_nat (first_diff (map to_lower a) (map to_lower e)) < C13_SrcTie.M64 ->
  src_scan_NoCase_printable fuel m fs pa pe = FOk (Z.of_nat (first_diff (map to_lower a) (map to_lower e))).
Proof. exact src_scan_NoCase_printable_spec. Qed.
Print Assumptions C14_src_scan_NoCase_printable_spec.

Theorem C14_src_scan_Binary_spec :
  forall (fuel : nat) (m : memory) (fs : Z) (pa pe : ptr) (size : Z) (a e : list N),
  view m pa = a ->
  view m pe = e ->
  size < C13_SrcTie.M64 ->
  (Z.to_nat size <= length a)%nat ->
  (Z.to_nat size <= length e)%nat ->
  (first_diff (firstn (Z.to_nat size) a) (firstn (Z.to_nat size) e) < fuel)%nat ->
  src_scan_Binary fuel m pe pa size fs =
  FOk (Z.of_nat (first_diff (firstn (Z.to_nat size) a) (firstn (Z.to_nat size) e))).
Proof. exact src_scan_Binary_spec. Qed.
Print Assumptions C14_src_scan_Binary_spec.

Theorem C14_C14_binary_equal_tight :
  forall (fuel : nat) (m : memory) (fs : Z) (pa pe : ptr) (size : Z),
  0 <= size < C13_SrcTie.M64 ->
  length (view m pa) = Z.to_nat size ->
  view m pe = view m pa -> (Z.to_nat size < fuel)%nat -> src_scan_Binary fuel m pe pa size fs = FOk size.
Proof. exact C14_binary_equal_tight. Qed.
Print Assumptions C14_C14_binary_equal_tight.

Theorem C14_C14_string_scans_no_oob :
  forall (fuel : nat) (m : memory) (fs : Z) (pa pe : ptr) (a ra e re : list N),
  mem_ok m ->
  cstr_at m pa a ra ->
  cstr_at m pe e re ->
  (length a < fuel)%nat ->
  Z.of_nat (length a) < C13_SrcTie.M64 ->
  src_scan_CheckEqual_raw fuel m fs pa pe <> FOob /\
  src_scan_CheckEqual_printable fuel m fs pa pe <> FOob /\
  src_scan_StringEqual_raw fuel m pe pa fs <> FOob /\
  src_scan_StringEqual_printable fuel m fs pa pe <> FOob /\
  src_scan_NoCase_raw fuel m pe pa fs <> FOob /\ src_scan_NoCase_printable fuel m fs pa pe <> FOob.
Proof. exact C14_string_scans_no_oob. Qed.
Print Assumptions C14_C14_string_scans_no_oob.

Theorem C14_C14_binary_scan_no_oob :
  forall (fuel : nat) (m : memory) (fs : Z) (pa pe : ptr) (size : Z),
  size < C13_SrcTie.M64 ->
  (Z.to_nat size <= length (view m pa))%nat ->
  (Z.to_nat size <= length (view m pe))%nat ->
  (Z.to_nat size < fuel)%nat -> src_scan_Binary fuel m pe pa size fs <> FOob.
Proof. exact C14_binary_scan_no_oob. Qed.
Print Assumptions C14_C14_binary_scan_no_oob.

Theorem C14_C14_equal_scans_stop_at_terminator :
  forall (fuel : nat) (m : memory) (fs : Z) (pa pe : ptr) (a : list N),
  mem_ok m ->
  C13_Proofs.NN a ->
  view m pa = a ++ [0%N] ->
  view m pe = a ++ [0%N] ->
  (length a < fuel)%nat ->
  Z.of_nat (length a) < C13_SrcTie.M64 ->
  src_scan_CheckEqual_raw fuel m fs pa pe = FOk (Z.of_nat (length a)) /\
  src_scan_CheckEqual_printable fuel m fs pa pe = FOk (Z.of_nat (length a)) /\
  src_scan_StringEqual_raw fuel m pe pa fs = FOk (Z.of_nat (length a)) /\
  src_scan_StringEqual_printable fuel m fs pa pe = FOk (Z.of_nat (length a)) /\
  src_scan_NoCase_raw fuel m pe pa fs = FOk (Z.of_nat (length a)) /\
  src_scan_NoCase_printable fuel m fs pa pe = FOk (Z.of_nat (length a)).
Proof. exact C14_equal_scans_stop_at_terminator. Qed.
Print Assumptions C14_C14_equal_scans_stop_at_terminator.

Theorem C14_C14_read_after_terminator_refused :
  forall (fuel : nat) (m : memory) (p : ptr) (a : list N) (k : Z),
  view m p = a ++ [0%N] -> Z.of_nat (length a) < k -> rdp m p k = None /\ src_at fuel m p k = FOob.
Proof. exact C14_read_after_terminator_refused. Qed.
Print Assumptions C14_C14_read_after_terminator_refused.

Theorem C14_C14_nocase_equal_stop_at_terminator :
  forall (fuel : nat) (m : memory) (fs : Z) (pa pe : ptr) (a e : list N),
  mem_ok m ->
  C13_Proofs.NN a ->
  C13_Proofs.NN e ->
  map to_lower a = map to_lower e ->
  view m pa = a ++ [0%N] ->
  view m pe = e ++ [0%N] ->
  (length a < fuel)%nat ->
  Z.of_nat (length a) < C13_SrcTie.M64 ->
  src_scan_NoCase_raw fuel m pe pa fs = FOk (Z.of_nat (length a)) /\
  src_scan_NoCase_printable fuel m fs pa pe = FOk (Z.of_nat (length a)).
Proof. exact C14_nocase_equal_stop_at_terminator. Qed.
Print Assumptions C14_C14_nocase_equal_stop_at_terminator.
