(* C13 -- textbook (specification-level) byte-string functions that are not already in lib/Str.v.
   Plain list functions, no buffers, no terminators, no loops over indices.  No proofs in this file. *)
From Coq Require Import NArith ZArith Bool List.
From CppUVerif Require Import lib.Str.
Import ListNotations.
Local Open Scope N_scope.

Definition cmp_z (c : comparison) : Z := match c with Lt => (-1)%Z | Eq => 0%Z | Gt => 1%Z end.
Definition t_ncmp (n : nat) (a b : list N) : comparison := str_cmp (firstn n a) (firstn n b).
Definition t_ends_with (a b : list N) : bool := is_prefix (rev b) (rev a).
(* number of positions of s at which t occurs (occurrences may overlap) *)
Fixpoint t_count (s t : list N) : nat :=
  match s with [] => 0%nat | _ :: s' => ((if is_prefix t s then 1 else 0) + t_count s' t)%nat end.
Fixpoint t_index (ch : N) (s : list N) : option nat :=
  match s with [] => None | c :: r => if c =? ch then Some 0%nat else option_map S (t_index ch r) end.
(* positions and amounts are size_t values (N); they are converted to nat only when smaller than a length *)
Definition t_skipN (n : N) (s : list N) : list N := if N.of_nat (length s) <=? n then [] else skipn (N.to_nat n) s.
Definition t_takeN (n : N) (s : list N) : list N := if N.of_nat (length s) <=? n then s else firstn (N.to_nat n) s.
Definition t_find_from (s : list N) (start ch : N) : option N :=
  option_map (fun i => start + N.of_nat i) (t_index ch (t_skipN start s)).
Definition t_substr (s : list N) (b n : N) : list N := t_takeN n (t_skipN b s).
Fixpoint t_until (ch : N) (s : list N) : list N :=
  match s with [] => [] | c :: r => if c =? ch then [] else c :: t_until ch r end.
Fixpoint t_from (ch : N) (s : list N) : option (list N) :=
  match s with [] => None | c :: r => if c =? ch then Some s else t_from ch r end.
(* from the first startChar (inclusive) up to the next lastExcludedChar (exclusive, searched from startChar on) *)
Definition t_from_till (s : list N) (c1 c2 : N) : list N :=
  match t_from c1 s with None => [] | Some r => t_until c2 r end.
Definition t_repl_char (c1 c2 : N) (s : list N) : list N := map (fun c => if c =? c1 then c2 else c) s.
(* leftmost, non-overlapping, left-to-right substitution; n >= length s *)
Fixpoint t_repl (n : nat) (s t w : list N) : list N :=
  match n with O => s | S n' =>
    match s with [] => [] | c :: s' =>
      if is_prefix t s then w ++ t_repl n' (skipn (length t) s) t w else c :: t_repl n' s' t w end end.
Definition t_replace (s t w : list N) : list N := match t with [] => s | _ => t_repl (length s) s t w end.
(* copy-out to a caller buffer of dn cells that held the filler byte 205: min(dn-1, length) bytes, a terminator, rest untouched *)
Definition t_copy_out (a : list N) (dn : nat) : list N :=
  match dn with O => [] | S d => firstn d a ++ 0 :: repeat 205 (d - length a) end.
Fixpoint t_concat_rep (s : list N) (k : nat) : list N := match k with O => [] | S k' => s ++ t_concat_rep s k' end.
(* pieces of s each ending with the delimiter byte (kept), plus the non-empty remainder *)
Fixpoint t_split (d : N) (s cur : list N) : list (list N) :=
  match s with
  | [] => match cur with [] => [] | _ => [rev cur] end
  | c :: r => if c =? d then rev (c :: cur) :: t_split d r [] else t_split d r (c :: cur) end.

(* printable escaping: per-byte table *)
Definition t_hex (d : N) : N := nth (N.to_nat d) [48;49;50;51;52;53;54;55;56;57;65;66;67;68;69;70] 63.
Definition t_escape (c : N) : list N :=
  if c =? 7 then [92; 97] else if c =? 8 then [92; 98] else if c =? 9 then [92; 116] else if c =? 10 then [92; 110]
  else if c =? 11 then [92; 118] else if c =? 12 then [92; 102] else if c =? 13 then [92; 114]
  else if (c <? 32) || (c =? 127) || (128 <=? c) then [92; 120; t_hex (c / 16); t_hex (c mod 16)]
  else [c].
Definition t_printable (s : list N) : list N := flat_map t_escape s.

(* C-library-like number parsing *)
Definition t_is_space (c : N) : bool := (c =? 32) || ((9 <=? c) && (c <=? 13)).
Definition t_is_digit (c : N) : bool := (48 <=? c) && (c <=? 57).
Fixpoint t_drop_space (s : list N) : list N := match s with c :: r => if t_is_space c then t_drop_space r else s | [] => [] end.
Fixpoint t_digits (s : list N) : list N := match s with c :: r => if t_is_digit c then c :: t_digits r else [] | [] => [] end.
Definition t_dec_value (ds : list N) : Z := fold_left (fun acc c => (acc * 10 + (Z.of_N c - 48))%Z) ds 0%Z.
Definition t_atou (s : list N) : Z := (t_dec_value (t_digits (t_drop_space s)) mod 4294967296)%Z.
Definition t_atoi (s : list N) : Z :=
  match t_drop_space s with
  | 45 :: r => (- t_dec_value (t_digits r))%Z
  | 43 :: r => t_dec_value (t_digits r)
  | t => t_dec_value (t_digits t) end.
(* the digits AtoI reads (after the blanks and one optional sign); the contract of atoi/strtoul-like functions is that their
   value fits the result type -- every run of at most 9 digits does *)
Definition t_atoi_digits (s : list N) : list N :=
  match t_drop_space s with 45 :: r => t_digits r | 43 :: r => t_digits r | t => t_digits t end.
Definition t_atou_digits (s : list N) : list N := t_digits (t_drop_space s).
Definition t_fits_int (s : list N) : bool := (t_dec_value (t_atoi_digits s) <=? 2147483647)%Z.
Definition t_fits_unsigned (s : list N) : bool := (t_dec_value (t_atou_digits s) <? 4294967296)%Z.

(* decimal rendering: most significant digit first, by repeated division on a list of powers *)
Fixpoint t_dec_fuel (fuel : nat) (n : N) : list N :=
  match fuel with O => [] | S f => (if n <? 10 then [] else t_dec_fuel f (n / 10)) ++ [48 + n mod 10] end.
Definition t_dec (n : N) : list N := t_dec_fuel (S (N.to_nat (N.log2 n))) n.
Definition t_ordinal (n : N) : list N :=
  t_dec n ++
  (let two := n mod 100 in
   if (two =? 11) || (two =? 12) || (two =? 13) then [116; 104]
   else match n mod 10 with 1 => [115; 116] | 2 => [110; 100] | 3 => [114; 100] | _ => [116; 104] end).

(* masked bits: most significant of the bitCount low bits first, blank between groups of eight *)
Definition t_bit_char (value mask : N) (k : N) : N :=
  if N.testbit mask k then (if N.testbit value k then 49 else 48) else 120.
Definition t_masked (value mask byteCount : N) : list N :=
  let bc := if 8 <? byteCount then 64 else byteCount * 8 in
  flat_map (fun i => t_bit_char value mask (bc - 1 - N.of_nat i) ::
                     (if (Nat.eqb (i mod 8) 7) && negb (N.of_nat i =? bc - 1) then [32] else []))
           (seq 0 (N.to_nat bc)).
Definition t_binary (bytes : list N) : list N :=
  removelast (flat_map (fun c => [t_hex (c / 16); t_hex (c mod 16); 32]) bytes).
