From Coq Require Import ExtrOcamlBasic.
From CppUVerif Require Import C01_Model C01_Console.
Extraction "c01_model.ml" C01_Console.run_x C01_Console.spec_x C01_Console.valid_x.
