From Coq Require Import ExtrOcamlBasic.
From CppUVerif Require Import C01_Model.
Extraction "c01_model.ml" C01_Model.run C01_Model.spec C01_Model.valid.
