(* C16: the member functions of JUnitTestOutput that collect the results of a group and write its file, as translated from source on
   every run (gen/Gen_HeapC16.v), run on a heap that represents a model state (C16_HeapRep.v), do what the hand-written model
   (C16_Model.v: junit_step, write_group) says.
   Part 1 (concrete): each function on a heap holding a concrete state k (cjunit_at) returns FOk, the heap holds the updated concrete
   state, the events appended are an explicit function of k, every block outside the structure is unchanged.
   Part 2 (rendering): the events of writeTestGroupToFile read as a file (files_of) are the bytes group_file, a concatenation
   following the writers, for arbitrary execution times; with all times 0 they are the model's write_group Esc.
   Part 3 (model): the same statements for junit_at / junit_at_o and junit_step.
   Part 4: examples (vm_compute) on a concrete heap, including the counterexamples reported in the comments. *)
From Coq Require Import ZArith NArith Bool List Lia.
From Coq Require String Ascii.
From CppUVerif Require Import lib.Str C16_Events C16_Model.
From CppUVerif Require Import lib.CSem lib.CMem lib.CMemFacts lib.CHeap gen.Gen_HeapC16 C16_HeapRep.
Import ListNotations.
Local Open Scope Z_scope.

(* ------------------------------------------------------------------ stepping through translated code *)
Lemma L_ldp h b cells k p : hblock h b = cells -> (0 <=? k) = true -> nth_error cells (Z.to_nat k) = Some (VPtr p) ->
  hload_ptr h (HPtr b k) = Some p.
Proof. intros Hb Hk Hn. unfold hload_ptr, hload. rewrite Hk, Hb, Hn. reflexivity. Qed.
Lemma L_ldi h b cells k z : hblock h b = cells -> (0 <=? k) = true -> nth_error cells (Z.to_nat k) = Some (VInt z) ->
  hload_int h (HPtr b k) = Some z.
Proof. intros Hb Hk Hn. unfold hload_int, hload. rewrite Hk, Hb, Hn. reflexivity. Qed.
Lemma L_padd h b cells i k j : hblock h b = cells -> j = i + k -> ((0 <=? j) && (j <=? Z.of_nat (length cells))) = true ->
  hpadd h (HPtr b i) k = Some (HPtr b j).
Proof. intros Hb -> Hc. unfold hpadd. rewrite Hb, Hc. reflexivity. Qed.
Lemma L_store h b cells i v : hblock h b = cells -> (b < length h)%nat -> ((0 <=? i) && (i <? Z.of_nat (length cells))) = true ->
  exists h', hstore h (HPtr b i) v = Some h' /\ hblock h' b = upd cells (Z.to_nat i) v /\ length h' = length h /\
             (forall b', b' <> b -> hblock h' b' = hblock h b').
Proof.
  intros Hb L Hc. exists (upd h b (upd cells (Z.to_nat i) v)). split; [|split; [|split]].
  - unfold hstore. rewrite Hb, Hc. replace (Nat.ltb b (length h)) with true by (symmetry; apply Nat.ltb_lt; exact L). reflexivity.
  - apply hblock_upd_same. exact L.
  - apply heap_upd_length.
  - intros b' Hne. apply hblock_upd_other. intro E. apply Hne. symmetry. exact E.
Qed.

(* one load / pointer step whose block content is known in the context *)
Ltac hs_ld :=
  match goal with
  | |- context [hload_ptr ?h (HPtr ?b ?k)] =>
      match goal with H : hblock h b = ?cells |- _ =>
        let r := eval simpl in (nth_error cells (Z.to_nat k)) in
        match r with Some (VPtr ?p) => rewrite (L_ldp h b cells k p H eq_refl eq_refl) end end
  | |- context [hload_int ?h (HPtr ?b ?k)] =>
      match goal with H : hblock h b = ?cells |- _ =>
        let r := eval simpl in (nth_error cells (Z.to_nat k)) in
        match r with Some (VInt ?z) => rewrite (L_ldi h b cells k z H eq_refl eq_refl) end end
  | |- context [hpadd ?h (HPtr ?b ?i) ?k] =>
      match goal with H : hblock h b = ?cells |- _ =>
        let j := eval cbv in (i + k) in rewrite (L_padd h b cells i k j H eq_refl eq_refl) end
  end; cbv beta iota zeta.
Ltac hs_lds := repeat hs_ld.

(* carrying the facts about the other blocks across a store into block b: h -> h' with frame F *)
Ltac hs_carry h h' F :=
  repeat match goal with
         | Hx : hblock h ?bx = ?cx |- _ =>
             first [ let Hn := fresh "Hk" in
                     assert (Hn : hblock h' bx = cx) by (rewrite (F bx ltac:(lia)); exact Hx); clear Hx
                   | clear Hx ]
         end.
(* one store; the block facts are moved to the new heap h' *)
Ltac hs_st h' :=
  match goal with
  | |- context [hstore ?h (HPtr ?b ?i) ?v] =>
      match goal with H : hblock h b = ?cells |- _ =>
        let S := fresh "S" in let B := fresh "Hk" in let Ln := fresh "Ln" in let F := fresh "F" in
        destruct (L_store h b cells i v H ltac:(lia) eq_refl) as [h' [S [B [Ln F]]]];
        rewrite S; clear S; simpl in B; clear H; hs_carry h h' F
      end
  end; cbv beta iota zeta.

(* closing a goal with one of the block facts of the context *)
Ltac hb := match goal with H : hblock _ _ = _ |- _ => exact H end.
Ltac hb_rw h b := match goal with H : hblock h b = _ |- _ => rewrite H end.

Definition fpost {R} (r : fres R) (P : R -> Prop) : Prop := match r with FOk x => P x | _ => False end.
Lemma fpost_ex {R} (r : fres R) P : fpost r P -> exists x, r = FOk x /\ P x.
Proof. destruct r as [x| |]; cbn; try contradiction. intro H. exists x. split; [reflexivity | exact H]. Qed.


(* from the post form to the existential form *)
Lemma fpost_tuple (r : fres (unit * heap * list hev * Z * list Z * list Z * Z)) E N T W S (Q : heap -> Prop) :
  fpost r (fun '(u, h', evs', nx', tm', wr', ts') => evs' = E /\ nx' = N /\ tm' = T /\ wr' = W /\ ts' = S /\ Q h') ->
  exists h', r = FOk (tt, h', E, N, T, W, S) /\ Q h'.
Proof.
  destruct r as [[[[[[[[] h'] evs'] nx'] tm'] wr'] ts']| |]; cbn; try contradiction.
  intros [-> [-> [-> [-> [-> HQ]]]]]. exists h'. split; [reflexivity | exact HQ].
Qed.
Definition cpost {R A} (r : cres R A) (P : A -> Prop) : Prop := match r with Go a => P a | _ => False end.
Lemma cpost_mono {R A} (r : cres R A) (P P' : A -> Prop) : cpost r P -> (forall a, P a -> P' a) -> cpost r P'.
Proof. destruct r; cbn; try contradiction. intros H HP. apply HP. exact H. Qed.

Lemma t_eq_null_null : z2b (hp_eq HNull HNull) = true. Proof. reflexivity. Qed.
Lemma t_eq_ptr_null b i : z2b (hp_eq (HPtr b i) HNull) = false. Proof. reflexivity. Qed.
Lemma t_bool_ptr b i : z2b (hp_bool (HPtr b i)) = true. Proof. reflexivity. Qed.
Lemma t_bool_null : z2b (hp_bool HNull) = false. Proof. reflexivity. Qed.

(* a fresh block appended to the heap *)
Lemma L_app_old (h : heap) x b cells : hblock h b = cells -> cells <> [] -> hblock (h ++ [x]) b = cells.
Proof.
  intros H Hne. unfold hblock in *. destruct (Nat.lt_ge_cases b (length h)) as [L|L].
  - rewrite app_nth1 by exact L. exact H.
  - rewrite nth_overflow in H by exact L. subst cells. contradiction Hne. reflexivity.
Qed.
Lemma hblock_lt (h : heap) b cells : hblock h b = cells -> cells <> [] -> (b < length h)%nat.
Proof.
  intros H Hne. destruct (Nat.lt_ge_cases b (length h)) as [L|L]; [exact L|]. unfold hblock in H. rewrite nth_overflow in H by exact L.
  subst cells. contradiction Hne. reflexivity.
Qed.
Lemma L_app_new (h : heap) x : hblock (h ++ [x]) (length h) = x.
Proof. unfold hblock. rewrite app_nth2 by lia. rewrite Nat.sub_diag. reflexivity. Qed.
Lemma L_app_frame (h : heap) x b : (b < length h)%nat -> hblock (h ++ [x]) b = hblock h b.
Proof. intro L. unfold hblock. apply app_nth1. exact L. Qed.
Ltac hs_carry_app h h' E :=
  repeat match goal with
         | Hx : hblock h ?bx = ?cx |- _ =>
             let Hn := fresh "Hk" in
             assert (Hn : hblock h' bx = cx) by (rewrite E; apply (L_app_old h _ bx cx Hx); discriminate); clear Hx
         end.
(* the heap grows by the block x: h' names the new heap, the block facts are moved to it *)
Ltac hs_new_ h0 x h' :=
  let E := fresh "E" in let Hn := fresh "Hnew" in let Ln := fresh "Ln" in let F := fresh "Fa" in
  remember (h0 ++ [x]) as h' eqn:E;
  assert (Hn : hblock h' (length h0) = x) by (rewrite E; apply L_app_new);
  assert (Ln : length h' = S (length h0)) by (rewrite E, app_length; cbn [length]; lia);
  assert (F : forall b, (b < length h0)%nat -> hblock h' b = hblock h0 b) by (intros ? ?; rewrite E; apply L_app_frame; assumption);
  simpl in Hn; hs_carry_app h0 h' E; clear E.
Ltac hs_new h' := match goal with |- context [hload_ptr (?h0 ++ [?x]) _] => hs_new_ h0 x h' end.

Lemma jblocks_facts ob ib bs cs : NoDup (jblocks ob ib bs cs) ->
  ob <> ib /\ ~ In ob (bs ++ fblocks cs) /\ ~ In ib (bs ++ fblocks cs) /\ NoDup (bs ++ fblocks cs).
Proof.
  unfold jblocks. intro H. inversion H as [|? ? H1 H2]; subst. inversion H2 as [|? ? H3 H4]; subst.
  split; [intro E; apply H1; left; symmetry; exact E|]. split; [intro Hin; apply H1; right; exact Hin|]. split; assumption.
Qed.
Lemma nodup_last {A} (l : list A) x fs : NoDup ((l ++ [x]) ++ fs) -> ~ In x (l ++ fs).
Proof. rewrite <- app_assoc. cbn [app]. apply NoDup_remove_2. Qed.
Lemma NoDup_app_snoc {A} (l : list A) x : NoDup l -> ~ In x l -> NoDup (l ++ [x]).
Proof.
  induction l as [|y l IH]; intros Hd Hn; cbn [app].
  - constructor; [intros [] | constructor].
  - inversion Hd as [|? ? H1 H2]; subst. constructor.
    + intro Hin. apply in_app_or in Hin. destruct Hin as [Hin|[E|[]]]; [exact (H1 Hin)|]. subst. apply Hn. left. reflexivity.
    + apply IH; [exact H2|]. intro Hin. apply Hn. right. exact Hin.
Qed.
Lemma in_snoc {A} (l : list A) x : In x (l ++ [x]). Proof. apply in_or_app. right. left. reflexivity. Qed.

Lemma ended_m fuel0 times willruns timestr h ob ib bs k cs c rb r evs nx :
  cjunit_at h ob ib bs k -> k_nodes k = cs ++ [c] ->
  hblock h rb = tr_cells r -> ~ In rb (jblocks ob ib bs (k_nodes k)) ->
  fpost (src_junit_printCurrentTestEnded fuel0 h evs nx times willruns timestr (HPtr ob 0) (HPtr rb 0))
    (fun '(u, h', evs', nx', tm', wr', ts') => evs' = evs /\ nx' = nx /\ tm' = times /\ wr' = willruns /\ ts' = timestr /\
       cjunit_at h' ob ib bs (k_with k (cs ++ [c_with c (tr_test_ms r) (c_fail c) (tr_checks r)])
                                (k_tc k) (k_fc k) (k_total k) (k_start k) (k_gexec k) (k_group k)) /\
       length h' = length h /\ (forall b, ~ In b (jblocks ob ib bs (k_nodes k)) -> hblock h' b = hblock h b)).
Proof.
  intros [Hob [hd [Hib [Hch [Hnd Hlt]]]]] Hk Hrb Hnin.
  unfold src_junit_printCurrentTestEnded, fpost.
  rewrite Hk in Hch. destruct (jchain_snoc_inv _ _ _ _ _ Hch) as [bs' [b [-> [Hl [Hb Hfo]]]]].
  rewrite tail_ptr_snoc in Hib.
  destruct (jblocks_facts _ _ _ _ Hnd) as [N1 [N2 [N3 N4]]].
  assert (N5 : b <> ob). { intro E. apply N2. subst. apply in_or_app. left. apply in_snoc. }
  assert (N6 : b <> ib). { intro E. apply N3. subst. apply in_or_app. left. apply in_snoc. }
  assert (N7 : b <> rb). { intro E. apply Hnin. subst. right. right. apply in_or_app. left. apply in_snoc. }
  assert (N8 : rb <> ob). { intro E. apply Hnin. subst. left. reflexivity. }
  assert (N9 : rb <> ib). { intro E. apply Hnin. subst. right. left. reflexivity. }
  assert (Lb : (b < length h)%nat).
  { rewrite Forall_forall in Hlt. apply Hlt. right. right. apply in_or_app. left. apply in_snoc. }
  hs_lds. hs_st h1. hs_lds. hs_st h2. cbn [finish].
  assert (FF : forall b', b' <> b -> hblock h2 b' = hblock h b') by (intros b' Hne; rewrite (F0 b' Hne); exact (F b' Hne)).
  repeat (split; [reflexivity|]). split; [|split; [lia|]].
  - split; [exact Hk0|]. exists hd. rewrite tail_ptr_snoc. split; [exact Hk3|]. cbn [k_with k_nodes].
    assert (EF : fblocks (cs ++ [c_with c (tr_test_ms r) (c_fail c) (tr_checks r)]) = fblocks (k_nodes k)).
    { rewrite Hk, !fblocks_app. reflexivity. }
    split; [|split].
    + pose proof (nodup_last _ _ _ N4) as N10. rewrite Hk, fblocks_app in N10.
      apply (jchain_set_last h h2 cs hd bs' b c); [exact Hch | exact Hl | | exact Hk4 |].
      * intros x Hin. apply FF. intro E. subst x. apply N10. apply in_app_or in Hin. apply in_or_app.
        destruct Hin as [Hin|Hin]; [left; exact Hin|]. right. apply in_or_app. left. exact Hin.
      * apply (fail_ok_frame h); [|exact Hfo]. intros x Hin. apply FF. intro E. subst x. apply N10.
        apply in_or_app. right. apply in_or_app. right. unfold fblocks. cbn [flat_map]. rewrite app_nil_r. exact Hin.
    + unfold jblocks. rewrite EF. exact Hnd.
    + unfold jblocks. rewrite EF. replace (length h2) with (length h) by lia. exact Hlt.
  - intros b0 Hn. apply FF. intro E. subst b0. apply Hn. right. right. apply in_or_app. left. apply in_snoc.
Qed.

(* ------------------------------------------------------------------ printFailure *)
(* a second failure of the same test changes nothing *)
Lemma failure_second fuel0 times willruns timestr h ob ib bs k cs c fb f fb0 evs nx :
  cjunit_at h ob ib bs k -> k_nodes k = cs ++ [c] -> c_fail c = Some (fb, f) ->
  src_junit_printFailure fuel0 h evs nx times willruns timestr (HPtr ob 0) (HPtr fb0 0) = FOk (tt, h, evs, nx, times, willruns, timestr).
Proof.
  intros [Hob [hd [Hib [Hch [Hnd Hlt]]]]] Hk Hcf. unfold src_junit_printFailure.
  rewrite Hk in Hch. destruct (jchain_snoc_inv _ _ _ _ _ Hch) as [bs' [b [-> [Hl [Hb Hfo]]]]].
  rewrite tail_ptr_snoc in Hib. hs_lds. rewrite Hcf. cbn [fptr]. rewrite t_eq_ptr_null. reflexivity.
Qed.

Lemma failure_first_m fuel0 times willruns timestr h ob ib bs k cs c fb0 f evs nx :
  cjunit_at h ob ib bs k -> k_nodes k = cs ++ [c] -> c_fail c = None ->
  hblock h fb0 = fail_cells f -> ~ In fb0 (jblocks ob ib bs (k_nodes k)) ->
  fpost (src_junit_printFailure fuel0 h evs nx times willruns timestr (HPtr ob 0) (HPtr fb0 0))
    (fun '(u, h', evs', nx', tm', wr', ts') =>
       evs' = evs ++ [JNew (HPtr (length h) 0)] /\ nx' = nx /\ tm' = times /\ wr' = willruns /\ ts' = timestr /\
       cjunit_at h' ob ib bs (k_with k (cs ++ [c_with c (c_exec c) (Some (length h, f)) (c_cc c)])
                                (k_tc k) (cw 64 false (k_fc k + 1)) (k_total k) (k_start k) (k_gexec k) (k_group k)) /\
       length h' = S (length h) /\ hblock h' (length h) = fail_cells f /\
       (forall b, (b < length h)%nat -> ~ In b (jblocks ob ib bs (k_nodes k)) -> hblock h' b = hblock h b)).
Proof.
  intros [Hob [hd [Hib [Hch [Hnd Hlt]]]]] Hk Hcf Hfb Hnin.
  unfold src_junit_printFailure, fpost.
  rewrite Hk in Hch. destruct (jchain_snoc_inv _ _ _ _ _ Hch) as [bs' [b [-> [Hl [Hb Hfo]]]]].
  rewrite tail_ptr_snoc in Hib.
  destruct (jblocks_facts _ _ _ _ Hnd) as [N1 [N2 [N3 N4]]].
  assert (N5 : b <> ob). { intro E. apply N2. subst. apply in_or_app. left. apply in_snoc. }
  assert (N6 : b <> ib). { intro E. apply N3. subst. apply in_or_app. left. apply in_snoc. }
  assert (N7 : b <> fb0). { intro E. apply Hnin. subst. right. right. apply in_or_app. left. apply in_snoc. }
  assert (N8 : fb0 <> ob). { intro E. apply Hnin. subst. left. reflexivity. }
  assert (N9 : fb0 <> ib). { intro E. apply Hnin. subst. right. left. reflexivity. }
  rewrite Forall_forall in Hlt.
  assert (Lb : (b < length h)%nat). { apply Hlt. right. right. apply in_or_app. left. apply in_snoc. }
  assert (Li : (ib < length h)%nat). { apply Hlt. right. left. reflexivity. }
  assert (Lo : (ob < length h)%nat). { apply Hlt. left. reflexivity. }
  hs_lds. rewrite Hcf. cbn [fptr]. rewrite t_eq_null_null. cbv beta iota zeta. hs_lds. hs_st h1.
  rewrite (hcells_whole h1 fb0 7) by (hb_rw h1 fb0; reflexivity). hb_rw h1 fb0. cbv beta iota zeta.
  hs_new h2. hs_lds. hs_st h3. cbn [finish].
  replace (length h1) with (length h) in * by lia.
  assert (FF : forall b', (b' < length h)%nat -> b' <> b -> b' <> ib -> hblock h3 b' = hblock h b').
  { intros b' L Hb1 Hb2. rewrite (F0 b' Hb1), (Fa b' ltac:(lia)). exact (F b' Hb2). }
  repeat (split; [reflexivity|]). split; [|split; [lia|split; [hb|]]].
  - split; [hb|]. exists hd. rewrite tail_ptr_snoc. split; [hb|]. cbn [k_with k_nodes].
    pose proof (nodup_last _ _ _ N4) as N10. rewrite Hk, fblocks_app in N10.
    assert (EF : fblocks (cs ++ [c_with c (c_exec c) (Some (length h, f)) (c_cc c)]) = fblocks (k_nodes k) ++ [length h]).
    { rewrite Hk, !fblocks_app. unfold fblocks at 2 4. cbn [flat_map fblock c_with c_fail]. unfold fblock. rewrite Hcf. cbn [app].
      rewrite app_nil_r. reflexivity. }
    split; [|split].
    + apply (jchain_set_last h h3 cs hd bs' b c); [exact Hch | exact Hl | | hb |].
      * intros x Hin. assert (Hx : In x ((bs' ++ [b]) ++ fblocks (k_nodes k))).
        { rewrite Hk, fblocks_app. apply in_app_or in Hin. apply in_or_app. destruct Hin as [Hin|Hin].
          - left. apply in_or_app. left. exact Hin.
          - right. apply in_or_app. left. exact Hin. }
        apply FF.
        -- apply Hlt. right. right. exact Hx.
        -- intro E. subst x. apply N10. apply in_app_or in Hin. apply in_or_app.
           destruct Hin as [Hin|Hin]; [left; exact Hin|]. right. apply in_or_app. left. exact Hin.
        -- intro E. subst x. apply N3. exact Hx.
      * unfold fail_ok. cbn [c_with c_fail]. hb.
    + unfold jblocks. rewrite EF. rewrite app_assoc.
      change (ob :: ib :: ((bs' ++ [b]) ++ fblocks (k_nodes k)) ++ [length h])
        with ((ob :: ib :: (bs' ++ [b]) ++ fblocks (k_nodes k)) ++ [length h]).
      apply NoDup_app_snoc. { exact Hnd. }
      intro Hin. apply Hlt in Hin. lia.
    + apply Forall_forall. intros x Hin. unfold jblocks in Hin. rewrite EF, app_assoc in Hin.
      change (ob :: ib :: ((bs' ++ [b]) ++ fblocks (k_nodes k)) ++ [length h])
        with ((ob :: ib :: (bs' ++ [b]) ++ fblocks (k_nodes k)) ++ [length h]) in Hin.
      apply in_app_or in Hin. destruct Hin as [Hin|[<-|[]]]; [apply Hlt in Hin; lia | lia].
  - intros b0 L Hn. apply FF; [exact L | |].
    + intro E. subst b0. apply Hn. right. right. apply in_or_app. left. apply in_snoc.
    + intro E. subst b0. apply Hn. right. left. reflexivity.
Qed.

(* ------------------------------------------------------------------ printCurrentTestStarted *)
Lemma snoc_case {A} (l : list A) : l = [] \/ exists l' x, l = l' ++ [x].
Proof. induction l as [|x l' _] using rev_ind; [left; reflexivity | right; exists l', x; reflexivity]. Qed.
Lemma jblocks_in_add ob ib bs cs n cn x : fblock cn = [] ->
  In x (jblocks ob ib (bs ++ [n]) (cs ++ [cn])) <-> x = n \/ In x (jblocks ob ib bs cs).
Proof.
  intro Hf. unfold jblocks. rewrite fblocks_app. unfold fblocks at 2. cbn [flat_map]. rewrite Hf. cbn [app]. rewrite app_nil_r.
  cbn [In]. rewrite !in_app_iff. cbn [In]. intuition (subst; tauto).
Qed.
Lemma jblocks_nodup_add ob ib bs cs n cn : fblock cn = [] ->
  NoDup (jblocks ob ib bs cs) -> ~ In n (jblocks ob ib bs cs) -> NoDup (jblocks ob ib (bs ++ [n]) (cs ++ [cn])).
Proof.
  intros Hf Hd Hn. unfold jblocks in *. rewrite fblocks_app. unfold fblocks at 2. cbn [flat_map]. rewrite Hf. cbn [app].
  rewrite app_nil_r, <- app_assoc. cbn [app].
  change (ob :: ib :: bs ++ n :: fblocks cs) with ((ob :: ib :: bs) ++ n :: fblocks cs).
  apply (NoDup_Add (a := n) (l := (ob :: ib :: bs) ++ fblocks cs)); [apply Add_app|]. split; [exact Hd | exact Hn].
Qed.

Definition started_node (t : cshell) (w : Z) : cnode :=
  {| c_name := sh_name t; c_exec := 0; c_fail := None; c_ign := z2b (c_lnot w); c_file := sh_file t; c_line := sh_line t; c_cc := 0 |}.

Lemma started_m fuel0 t0 times w willruns timestr h ob ib bs k tb t evs nx :
  cjunit_at h ob ib bs k -> hblock h tb = shell_cells t -> ~ In tb (jblocks ob ib bs (k_nodes k)) ->
  fpost (src_junit_printCurrentTestStarted fuel0 h evs nx (t0 :: times) (w :: willruns) timestr (HPtr ob 0) (HPtr tb 0))
    (fun '(u, h', evs', nx', tm', wr', ts') =>
       evs' = evs ++ [JNew (HPtr (length h) 0)] /\ nx' = nx /\ tm' = times /\ wr' = willruns /\ ts' = timestr /\
       cjunit_at h' ob ib (bs ++ [length h])
         (k_with k (k_nodes k ++ [started_node t w]) (cw 64 false (k_tc k + 1)) (k_fc k) (k_total k) t0 (k_gexec k) (sh_group t)) /\
       length h' = S (length h) /\
       (forall b, (b < length h)%nat -> ~ In b (jblocks ob ib bs (k_nodes k)) -> hblock h' b = hblock h b)).
Proof.
  intros [Hob [hd [Hib [Hch [Hnd Hlt]]]]] Htb Hnin.
  unfold src_junit_printCurrentTestStarted, fpost.
  destruct (jblocks_facts _ _ _ _ Hnd) as [N1 [N2 [N3 N4]]].
  assert (N8 : tb <> ob). { intro E. apply Hnin. subst. left. reflexivity. }
  assert (N9 : tb <> ib). { intro E. apply Hnin. subst. right. left. reflexivity. }
  pose proof Hlt as Hlt'. rewrite Forall_forall in Hlt.
  assert (Li : (ib < length h)%nat). { apply Hlt. right. left. reflexivity. }
  assert (Lo : (ob < length h)%nat). { apply Hlt. left. reflexivity. }
  assert (Hnew_nin : ~ In (length h) (jblocks ob ib bs (k_nodes k))). { intro Hin. apply Hlt in Hin. lia. }
  assert (Lt : (tb < length h)%nat) by (apply (hblock_lt h tb _ Htb); discriminate).
  destruct (snoc_case (k_nodes k)) as [Hk|[cs [c Hk]]].
  - (* the first test of the group *)
    rewrite Hk in Hch. apply jchain_nil_inv in Hch. destruct Hch as [-> ->]. change (tail_ptr []) with HNull in Hib.
    hs_lds. hs_st h1. hs_lds. hs_st h2. hs_lds. hs_st h3. hs_lds. rewrite t_eq_null_null. cbv beta iota zeta.
    hs_new h4. hs_lds. hs_st h5. hs_lds. hs_st h6. hs_lds. hs_st h7. hs_lds. hs_st h8. hs_lds. hs_st h9.
    assert (LL : length h3 = length h) by lia. rewrite LL in *.
    assert (FF : forall b', (b' < length h)%nat -> b' <> ib -> hblock h9 b' = hblock h b').
    { intros b' L Hb. rewrite (F6 b' ltac:(lia)), (F5 b' ltac:(lia)), (F4 b' ltac:(lia)), (F3 b' Hb), (F2 b' Hb), (Fa b' L), (F1 b' Hb), (F0 b' Hb).
      exact (F b' Hb). }
    assert (Fin : forall h' : heap, length h' = S (length h) ->
              hblock h' ob = [VPtr (HPtr ib 0)] ->
              hblock h' ib = [VInt (cw 64 false (k_tc k + 1)); VInt (k_fc k); VInt (k_total k); VInt t0; VInt (k_gexec k);
                              VInt (sh_group t); VPtr (HPtr (length h) 0); VPtr (HPtr (length h) 0); k_filev k; VInt (k_pkg k);
                              VInt (k_out k)] ->
              hblock h' (length h) = node_cells (started_node t w) HNull ->
              cjunit_at h' ob ib ([] ++ [length h])
                (k_with k (k_nodes k ++ [started_node t w]) (cw 64 false (k_tc k + 1)) (k_fc k) (k_total k) t0 (k_gexec k) (sh_group t))).
    { intros h' L' Ho Hi Hn. split; [exact Ho|]. exists (HPtr (length h) 0). split; [exact Hi|]. cbn [k_with k_nodes]. split; [|split].
      - rewrite Hk. cbn [app jchain]. split; [reflexivity|]. split; [exact I|]. exists HNull. split; [exact Hn | reflexivity].
      - apply jblocks_nodup_add; [reflexivity | exact Hnd | exact Hnew_nin].
      - apply Forall_forall. intros x Hin. apply jblocks_in_add in Hin; [|reflexivity]. destruct Hin as [->|Hin]; [lia|].
        apply Hlt in Hin. lia. }
    destruct (z2b (c_lnot w)) eqn:Ew.
    + hs_lds. hs_st h10. cbn [finish]. repeat (split; [reflexivity|]). split; [|split; [lia|]].
      * apply Fin; [lia | hb | hb |]. unfold started_node, node_cells. cbn [c_name c_exec c_fail c_ign c_file c_line c_cc fptr].
        rewrite Ew. hb.
      * intros b0 L Hn. rewrite (F7 b0 ltac:(lia)). apply FF; [exact L|]. intro E. subst b0. apply Hn. right. left. reflexivity.
    + cbn [finish]. repeat (split; [reflexivity|]). split; [|split; [lia|]].
      * apply Fin; [lia | hb | hb |]. unfold started_node, node_cells. cbn [c_name c_exec c_fail c_ign c_file c_line c_cc fptr].
        rewrite Ew. hb.
      * intros b0 L Hn. apply FF; [exact L|]. intro E. subst b0. apply Hn. right. left. reflexivity.
  - (* a further test: the new node goes behind tail_ *)
    rewrite Hk in Hch. destruct (jchain_snoc_inv _ _ _ _ _ Hch) as [bs' [b [-> [Hl [Hb Hfo]]]]].
    rewrite tail_ptr_snoc in Hib.
    assert (N5 : b <> ob). { intro E. apply N2. subst. apply in_or_app. left. apply in_snoc. }
    assert (N6 : b <> ib). { intro E. apply N3. subst. apply in_or_app. left. apply in_snoc. }
    assert (N7 : b <> tb). { intro E. apply Hnin. subst. right. right. apply in_or_app. left. apply in_snoc. }
    assert (Lb : (b < length h)%nat). { apply Hlt. right. right. apply in_or_app. left. apply in_snoc. }
    hs_lds. hs_st h1. hs_lds. hs_st h2. hs_lds. hs_st h3. hs_lds. rewrite t_eq_ptr_null. cbv beta iota zeta.
    hs_new h4. hs_lds. hs_st h5. hs_lds. hs_st h6. hs_lds. hs_st h7. hs_lds. hs_st h8. hs_lds. hs_st h9.
    assert (LL : length h3 = length h) by lia. rewrite LL in *.
    assert (FF : forall b', (b' < length h)%nat -> b' <> ib -> b' <> b -> hblock h9 b' = hblock h b').
    { intros b' L Hb1 Hb2. rewrite (F6 b' ltac:(lia)), (F5 b' ltac:(lia)), (F4 b' ltac:(lia)), (F3 b' Hb1), (F2 b' Hb2), (Fa b' L), (F1 b' Hb1),
        (F0 b' Hb1). exact (F b' Hb1). }
    pose proof (nodup_last _ _ _ N4) as N10.
    assert (Fin : forall h' : heap, length h' = S (length h) ->
              (forall b', (b' < length h)%nat -> b' <> ib -> b' <> b -> hblock h' b' = hblock h b') ->
              hblock h' ob = [VPtr (HPtr ib 0)] ->
              hblock h' ib = [VInt (cw 64 false (k_tc k + 1)); VInt (k_fc k); VInt (k_total k); VInt t0; VInt (k_gexec k);
                              VInt (sh_group t); VPtr hd; VPtr (HPtr (length h) 0); k_filev k; VInt (k_pkg k); VInt (k_out k)] ->
              hblock h' b = node_cells c (HPtr (length h) 0) ->
              hblock h' (length h) = node_cells (started_node t w) HNull ->
              cjunit_at h' ob ib ((bs' ++ [b]) ++ [length h])
                (k_with k (k_nodes k ++ [started_node t w]) (cw 64 false (k_tc k + 1)) (k_fc k) (k_total k) t0 (k_gexec k) (sh_group t))).
    { intros h' L' Hfr Ho Hi Hbb Hn. split; [exact Ho|]. exists hd. rewrite tail_ptr_snoc. split; [exact Hi|]. cbn [k_with k_nodes].
      split; [|split].
      - rewrite Hk. apply (jchain_append h h' cs hd bs' b c); [exact Hch | exact Hl | | exact Hbb | exact Hn | exact I].
        intros x Hin. assert (Hx : In x ((bs' ++ [b]) ++ fblocks (k_nodes k))).
        { rewrite Hk. apply in_app_or in Hin. apply in_or_app. destruct Hin as [Hin|Hin]; [|right; exact Hin].
          left. apply in_or_app. left. exact Hin. }
        apply Hfr.
        + apply Hlt. right. right. exact Hx.
        + intro E. subst x. apply N3. exact Hx.
        + intro E. subst x. apply N10. rewrite Hk. exact Hin.
      - apply jblocks_nodup_add; [reflexivity | exact Hnd | exact Hnew_nin].
      - apply Forall_forall. intros x Hin. apply jblocks_in_add in Hin; [|reflexivity]. destruct Hin as [->|Hin]; [lia|].
        apply Hlt in Hin. lia. }
    destruct (z2b (c_lnot w)) eqn:Ew.
    + hs_lds. hs_st h10. cbn [finish]. repeat (split; [reflexivity|]). split; [|split; [lia|]].
      * apply Fin; [lia | | hb | hb | hb |].
        -- intros b' L Hb1 Hb2. rewrite (F7 b' ltac:(lia)). apply FF; assumption.
        -- unfold started_node, node_cells. cbn [c_name c_exec c_fail c_ign c_file c_line c_cc fptr]. rewrite Ew. hb.
      * intros b0 L Hn. rewrite (F7 b0 ltac:(lia)). apply FF; [exact L | |].
        -- intro E. subst b0. apply Hn. right. left. reflexivity.
        -- intro E. subst b0. apply Hn. right. right. apply in_or_app. left. apply in_snoc.
    + cbn [finish]. repeat (split; [reflexivity|]). split; [|split; [lia|]].
      * apply Fin; [lia | exact FF | hb | hb | hb |].
        unfold started_node, node_cells. cbn [c_name c_exec c_fail c_ign c_file c_line c_cc fptr]. rewrite Ew. hb.
      * intros b0 L Hn. apply FF; [exact L | |].
        -- intro E. subst b0. apply Hn. right. left. reflexivity.
        -- intro E. subst b0. apply Hn. right. right. apply in_or_app. left. apply in_snoc.
Qed.

(* ------------------------------------------------------------------ resetTestGroupResult *)
(* delete cur->failure_ (NULL when the test did not fail: `delete` of a null pointer), then delete cur *)
Definition reset_events (bs : list nat) (cs : list cnode) : list hev :=
  flat_map (fun bc => [JDelete (fptr (c_fail (snd bc))); JDelete (HPtr (fst bc) 0)]) (combine bs cs).

Lemma reset_loop fuel0 nx times willruns timestr h : forall cs p bs fuel evs, jchain h p bs cs -> (length cs < fuel)%nat ->
  src_junit_resetTestGroupResult_loop1 fuel0 fuel h evs nx times willruns timestr p =
  Go (h, evs ++ reset_events bs cs, nx, times, willruns, timestr, HNull).
Proof.
  induction cs as [|c cs IH]; intros p bs fuel evs Hch Hf.
  - apply jchain_nil_inv in Hch. destruct Hch as [-> ->]. destruct fuel as [|fuel]; [cbn in Hf; lia|].
    cbn [src_junit_resetTestGroupResult_loop1]. rewrite t_bool_null. cbn [reset_events combine flat_map]. rewrite app_nil_r. reflexivity.
  - apply jchain_cons_inv in Hch. destruct Hch as [b [bs' [nxt [-> [-> [Hfo [Hb Hc]]]]]]].
    destruct fuel as [|fuel]; [cbn in Hf; lia|]. cbn [src_junit_resetTestGroupResult_loop1]. rewrite t_bool_ptr. cbv beta iota zeta.
    hs_lds. rewrite (IH nxt bs' fuel _ Hc ltac:(cbn in Hf; lia)). unfold reset_events. cbn [combine flat_map fst snd].
    rewrite <- !app_assoc. reflexivity.
Qed.

Lemma reset_m fuel0 times willruns timestr h ob ib bs k evs nx :
  cjunit_at h ob ib bs k -> (length (k_nodes k) < fuel0)%nat ->
  fpost (src_junit_resetTestGroupResult fuel0 h evs nx times willruns timestr (HPtr ob 0))
    (fun '(u, h', evs', nx', tm', wr', ts') =>
       evs' = evs ++ reset_events bs (k_nodes k) /\ nx' = nx /\ tm' = times /\ wr' = willruns /\ ts' = timestr /\
       cjunit_at h' ob ib [] (k_with k [] 0 0 (k_total k) (k_start k) (k_gexec k) 0) /\
       length h' = length h /\ (forall b, b <> ib -> hblock h' b = hblock h b)).
Proof.
  intros [Hob [hd [Hib [Hch [Hnd Hlt]]]]] Hf.
  unfold src_junit_resetTestGroupResult, fpost.
  destruct (jblocks_facts _ _ _ _ Hnd) as [N1 [N2 [N3 N4]]].
  rewrite Forall_forall in Hlt.
  assert (Li : (ib < length h)%nat). { apply Hlt. right. left. reflexivity. }
  assert (Lo : (ob < length h)%nat). { apply Hlt. left. reflexivity. }
  hs_lds. hs_st h1. hs_lds. hs_st h2. hs_lds. hs_st h3. hs_lds.
  assert (FF3 : forall b', b' <> ib -> hblock h3 b' = hblock h b').
  { intros b' Hb. rewrite (F1 b' Hb), (F0 b' Hb). exact (F b' Hb). }
  assert (Hch3 : jchain h3 hd bs (k_nodes k)).
  { apply (jchain_frame h); [|exact Hch]. intros x Hin. apply FF3. intro E. subst x. exact (N3 Hin). }
  rewrite (reset_loop fuel0 nx times willruns timestr h3 _ _ _ fuel0 evs Hch3 Hf). cbv beta iota zeta.
  hs_lds. hs_st h4. hs_lds. hs_st h5. cbn [finish].
  repeat (split; [reflexivity|]). split; [|split; [lia|]].
  - split; [hb|]. exists HNull. split; [hb|]. cbn [k_with k_nodes]. split; [reflexivity|]. split.
    + unfold jblocks. cbn [app fblocks flat_map]. constructor; [intros [E|[]]; exact (N1 (eq_sym E))|]. constructor; [intros []|constructor].
    + apply Forall_forall. intros x [<-|[<-|[]]]; lia.
  - intros b Hb. rewrite (F3 b Hb), (F2 b Hb). exact (FF3 b Hb).
Qed.

(* ------------------------------------------------------------------ the writers: their events as functions of the concrete state *)
Import String.StringSyntax.
Delimit Scope string_scope with string.
Definition NL (s : String.string) : String.string := String.append s (String.String (Ascii.ascii_of_nat 10) String.EmptyString).
Definition s_xml : String.string := NL "<?xml version=""1.0"" encoding=""UTF-8"" ?>"%string.
Definition fmt_suite : String.string :=
  NL "<testsuite errors=""0"" failures=""%d"" hostname=""localhost"" name=""%s"" tests=""%d"" time=""%d.%03d"" timestamp=""%s"">"%string.
Definition fmt_case : String.string :=
  NL "<testcase classname=""%s%s%s"" name=""%s"" assertions=""%d"" time=""%d.%03d"" file=""%s"" line=""%d"">"%string.
Definition fmt_fail : String.string := NL "<failure message=""%s:%d: %s"" type=""AssertionFailedError"">"%string.

Definition ev_header : list hev := [JWrite (JLit s_xml)].
Definition ev_summary (k : cstate) (timestr nx : Z) : list hev :=
  [JFormat nx fmt_suite
     [JNum (cw 32 true (k_fc k)); JEnc (k_group k); JNum (cw 32 true (k_tc k));
      JNum (cw 32 true (cw 64 false (c_div (k_gexec k) 1000))); JNum (cw 32 true (cw 64 false (c_rem (k_gexec k) 1000)));
      JEnc timestr];
   JWrite (JTxt nx)].
Definition ev_props : list hev := [JWrite (JLit (NL "<properties>"%string)); JWrite (JLit (NL "</properties>"%string))].
Definition ev_failure (f : cfail) (nx : Z) : list hev :=
  [JFormat nx fmt_fail [JEnc (cf_file f); JNum (cw 32 true (cf_line f)); JEnc (cf_msg f)]; JWrite (JTxt nx);
   JWrite (JLit (NL "</failure>"%string))].
(* one iteration of writeTestCases: total = totalCheckCount_ when the iteration starts *)
Definition ev_case (te : Z -> Z) (pkg group total nx : Z) (c : cnode) : list hev :=
  [JFormat nx fmt_case
     [JEnc pkg; JLit (if z2b (te pkg) then ""%string else "."%string); JEnc group; JEnc (c_name c);
      JNum (cw 32 true (cw 64 false (c_cc c - total)));
      JNum (cw 32 true (cw 64 false (c_div (c_exec c) 1000))); JNum (cw 32 true (cw 64 false (c_rem (c_exec c) 1000)));
      JEnc (c_file c); JNum (cw 32 true (c_line c))];
   JWrite (JTxt nx)] ++
  match c_fail c with
  | Some (_, f) => ev_failure f (nx + 1)
  | None => if c_ign c then [JWrite (JLit (NL "<skipped />"%string))] else []
  end ++
  [JWrite (JLit (NL "</testcase>"%string))].
Definition case_nx (nx : Z) (c : cnode) : Z := match c_fail c with Some _ => nx + 1 + 1 | None => nx + 1 end.
Fixpoint ev_cases (te : Z -> Z) (pkg group total nx : Z) (cs : list cnode) : list hev :=
  match cs with
  | [] => []
  | c :: r => ev_case te pkg group total nx c ++ ev_cases te pkg group (c_cc c) (case_nx nx c) r
  end.
Definition cases_nx (nx : Z) (cs : list cnode) : Z := fold_left case_nx cs nx.
Definition ev_ending (out : Z) : list hev :=
  [JWrite (JLit "<system-out>"%string); JWrite (JEnc out); JWrite (JLit (NL "</system-out>"%string));
   JWrite (JLit (NL "<system-err></system-err>"%string)); JWrite (JLit (NL "</testsuite>"%string))].
Definition ev_group (te : Z -> Z) (k : cstate) (timestr nx : Z) : list hev :=
  [JOpen (k_group k)] ++ ev_header ++ ev_summary k timestr nx ++ ev_props ++
  ev_cases te (k_pkg k) (k_group k) (k_total k) (nx + 1) (k_nodes k) ++ ev_ending (k_out k) ++ [JClose].

Lemma write_header fuel0 h evs nx times willruns timestr p :
  src_junit_writeXmlHeader fuel0 h evs nx times willruns timestr p = FOk (tt, h, evs ++ ev_header, nx, times, willruns, timestr).
Proof. reflexivity. Qed.
Lemma write_props fuel0 h evs nx times willruns timestr p :
  src_junit_writeProperties fuel0 h evs nx times willruns timestr p = FOk (tt, h, evs ++ ev_props, nx, times, willruns, timestr).
Proof. unfold src_junit_writeProperties, ev_props. cbn [finish]. rewrite <- app_assoc. reflexivity. Qed.

Lemma write_summary fuel0 h ob ib k hd tl evs nx times willruns timestr :
  hblock h ob = [VPtr (HPtr ib 0)] -> hblock h ib = impl_cells k hd tl ->
  src_junit_writeTestSuiteSummary fuel0 h evs nx times willruns timestr (HPtr ob 0) =
  FOk (tt, h, evs ++ ev_summary k timestr nx, nx + 1, times, willruns, timestr).
Proof.
  intros Hob Hib. unfold src_junit_writeTestSuiteSummary. hs_lds. cbn [finish]. unfold ev_summary. rewrite <- app_assoc. reflexivity.
Qed.

Lemma write_ending fuel0 h ob ib k hd tl evs nx times willruns timestr :
  hblock h ob = [VPtr (HPtr ib 0)] -> hblock h ib = impl_cells k hd tl ->
  src_junit_writeFileEnding fuel0 h evs nx times willruns timestr (HPtr ob 0) =
  FOk (tt, h, evs ++ ev_ending (k_out k), nx, times, willruns, timestr).
Proof.
  intros Hob Hib. unfold src_junit_writeFileEnding. cbv zeta. hs_lds. cbn [finish]. unfold ev_ending. rewrite <- !app_assoc. reflexivity.
Qed.

Lemma write_failure fuel0 h b c nxt fb f evs nx times willruns timestr p :
  hblock h b = node_cells c nxt -> c_fail c = Some (fb, f) -> hblock h fb = fail_cells f ->
  src_junit_writeFailure fuel0 h evs nx times willruns timestr p (HPtr b 0) =
  FOk (tt, h, evs ++ ev_failure f nx, nx + 1, times, willruns, timestr).
Proof.
  intros Hb Hcf Hfb. unfold src_junit_writeFailure. unfold node_cells in Hb. rewrite Hcf in Hb. cbn [fptr] in Hb.
  hs_lds. cbn [finish]. unfold ev_failure. rewrite <- !app_assoc. reflexivity.
Qed.

(* the loop of writeTestCases: each iteration stores the node's checkCount_ into totalCheckCount_ *)
Lemma cases_loop_m te fuel0 times willruns timestr ob ib hd tl : ob <> ib -> forall cs h k p bs fuel evs nx,
  hblock h ob = [VPtr (HPtr ib 0)] -> hblock h ib = impl_cells k hd tl -> jchain h p bs cs -> ~ In ib (bs ++ fblocks cs) ->
  (ib < length h)%nat -> (length cs < fuel)%nat ->
  cpost (src_junit_writeTestCases_loop1 te fuel0 fuel (HPtr ob 0) h evs nx times willruns timestr p)
    (fun '(h', evs', nx', tm', wr', ts', cur') =>
       evs' = evs ++ ev_cases te (k_pkg k) (k_group k) (k_total k) nx cs /\ nx' = cases_nx nx cs /\ tm' = times /\ wr' = willruns /\
       ts' = timestr /\ cur' = HNull /\
       hblock h' ib = impl_cells (k_with k (k_nodes k) (k_tc k) (k_fc k) (last_cc (k_total k) cs) (k_start k) (k_gexec k) (k_group k)) hd tl /\
       length h' = length h /\ (forall b, b <> ib -> hblock h' b = hblock h b)).
Proof.
  intros N1. induction cs as [|c cs IH]; intros h k p bs fuel evs nx Hob Hib Hch Hni Li Hf.
  - apply jchain_nil_inv in Hch. destruct Hch as [-> ->]. destruct fuel as [|fuel]; [cbn in Hf; lia|].
    cbn [src_junit_writeTestCases_loop1]. rewrite t_bool_null. cbn [cpost ev_cases cases_nx fold_left last_cc]. rewrite app_nil_r.
    repeat (split; [reflexivity|]). split; [exact Hib|]. split; [reflexivity|]. intros; reflexivity.
  - apply jchain_cons_inv in Hch. destruct Hch as [b [bs' [nxt [-> [-> [Hfo [Hb Hc]]]]]]].
    destruct fuel as [|fuel]; [cbn in Hf; lia|]. cbn [src_junit_writeTestCases_loop1]. rewrite t_bool_ptr. cbv beta iota zeta.
    assert (N2 : b <> ib). { intro E. apply Hni. subst. left. reflexivity. }
    assert (Hni' : ~ In ib (bs' ++ fblocks cs)).
    { intro Hin. apply Hni. cbn [app]. right. apply in_app_or in Hin. apply in_or_app. destruct Hin as [Hin|Hin]; [left; exact Hin|].
      right. unfold fblocks. cbn [flat_map]. apply in_or_app. right. exact Hin. }
    hs_lds. hs_st h1. hs_lds.
    set (k1 := k_with k (k_nodes k) (k_tc k) (k_fc k) (c_cc c) (k_start k) (k_gexec k) (k_group k)).
    assert (Hib1 : hblock h1 ib = impl_cells k1 hd tl) by hb.
    assert (Hch1 : jchain h1 nxt bs' cs).
    { apply (jchain_frame h); [|exact Hc]. intros x Hin. apply F. intro E. subst x. exact (Hni' Hin). }
    assert (Hob1 : hblock h1 ob = [VPtr (HPtr ib 0)]) by hb.
    assert (Post : forall evs1 nx1, evs1 = evs ++ ev_case te (k_pkg k) (k_group k) (k_total k) nx c -> nx1 = case_nx nx c ->
      cpost (src_junit_writeTestCases_loop1 te fuel0 fuel (HPtr ob 0) h1 evs1 nx1 times willruns timestr nxt)
        (fun '(h', evs', nx', tm', wr', ts', cur') =>
           evs' = evs ++ ev_cases te (k_pkg k) (k_group k) (k_total k) nx (c :: cs) /\ nx' = cases_nx nx (c :: cs) /\ tm' = times /\
           wr' = willruns /\ ts' = timestr /\ cur' = HNull /\
           hblock h' ib = impl_cells (k_with k (k_nodes k) (k_tc k) (k_fc k) (last_cc (k_total k) (c :: cs)) (k_start k) (k_gexec k)
                                        (k_group k)) hd tl /\
           length h' = length h /\ (forall b, b <> ib -> hblock h' b = hblock h b))).
    { intros evs1 nx1 -> ->.
      apply (cpost_mono _ _ _ (IH h1 k1 nxt bs' fuel _ _ Hob1 Hib1 Hch1 Hni' ltac:(lia) ltac:(cbn in Hf; lia))).
      intros [[[[[[h' evs'] nx'] tm'] wr'] ts'] cur']. cbn [k1 k_with k_pkg k_group k_total k_nodes k_tc k_fc k_start k_gexec].
      intros [-> [-> [-> [-> [-> [-> [Hi [Ll Fr]]]]]]]]. cbn [ev_cases cases_nx fold_left last_cc]. rewrite <- app_assoc.
      repeat (split; [reflexivity|]). split; [exact Hi|]. split; [lia|]. intros b0 Hb0. rewrite (Fr b0 Hb0). exact (F b0 Hb0). }
    destruct (c_fail c) as [[fb f]|] eqn:Hcf.
    + (* the test failed *)
      cbn [fptr]. rewrite t_bool_ptr. cbv beta iota zeta.
      assert (Hfb1 : hblock h1 fb = fail_cells f).
      { unfold fail_ok in Hfo. rewrite Hcf in Hfo. rewrite F; [exact Hfo|]. intro E. subst fb. apply Hni. cbn [app]. right.
        apply in_or_app. right. unfold fblocks. cbn [flat_map]. unfold fblock at 1. rewrite Hcf. left. reflexivity. }
      assert (Hb1 : hblock h1 b = node_cells c nxt).
      { hb. }
      rewrite (write_failure fuel0 h1 b c nxt fb f _ _ times willruns timestr (HPtr ob 0) Hb1 Hcf Hfb1). cbv beta iota zeta.
      hs_lds. apply Post.
      * unfold ev_case. rewrite Hcf. rewrite <- !app_assoc. reflexivity.
      * unfold case_nx. rewrite Hcf. reflexivity.
    + cbn [fptr]. rewrite t_bool_null. cbv beta iota zeta. hs_lds. destruct (c_ign c) eqn:Hig.
      * (* ignored *)
        cbn [b2z]. change (z2b 1) with true. cbv beta iota zeta. hs_lds. apply Post.
        -- unfold ev_case. rewrite Hcf, Hig. rewrite <- !app_assoc. reflexivity.
        -- unfold case_nx. rewrite Hcf. reflexivity.
      * cbn [b2z]. change (z2b 0) with false. cbv beta iota zeta. hs_lds. apply Post.
        -- unfold ev_case. rewrite Hcf, Hig. rewrite <- !app_assoc. reflexivity.
        -- unfold case_nx. rewrite Hcf. reflexivity.
Qed.

(* a store into the impl block that leaves head_, tail_ and the nodes alone *)
Lemma cj_impl_update h h' ob ib bs k k' :
  cjunit_at h ob ib bs k -> (forall b, b <> ib -> hblock h' b = hblock h b) -> length h' = length h -> k_nodes k' = k_nodes k ->
  (forall hd, hblock h ib = impl_cells k hd (tail_ptr bs) -> hblock h' ib = impl_cells k' hd (tail_ptr bs)) ->
  cjunit_at h' ob ib bs k'.
Proof.
  intros [Hob [hd [Hib [Hch [Hnd Hlt]]]]] Fr Ll Hn Hi. destruct (jblocks_facts _ _ _ _ Hnd) as [N1 [N2 [N3 N4]]].
  split; [rewrite (Fr ob N1); exact Hob|]. exists hd. split; [exact (Hi hd Hib)|]. rewrite Hn, Ll. split; [|split; assumption].
  apply (jchain_frame h); [|exact Hch]. intros x Hin. apply Fr. intro E. subst x. exact (N3 Hin).
Qed.

Lemma write_cases_m te fuel0 times willruns timestr h ob ib bs k evs nx :
  cjunit_at h ob ib bs k -> (length (k_nodes k) < fuel0)%nat ->
  fpost (src_junit_writeTestCases te fuel0 h evs nx times willruns timestr (HPtr ob 0))
    (fun '(u, h', evs', nx', tm', wr', ts') =>
       evs' = evs ++ ev_cases te (k_pkg k) (k_group k) (k_total k) nx (k_nodes k) /\ nx' = cases_nx nx (k_nodes k) /\ tm' = times /\
       wr' = willruns /\ ts' = timestr /\
       cjunit_at h' ob ib bs (k_with k (k_nodes k) (k_tc k) (k_fc k) (last_cc (k_total k) (k_nodes k)) (k_start k) (k_gexec k) (k_group k)) /\
       length h' = length h /\ (forall b, b <> ib -> hblock h' b = hblock h b)).
Proof.
  intros Hcj Hf. pose proof Hcj as [Hob [hd [Hib [Hch [Hnd Hlt]]]]].
  unfold src_junit_writeTestCases, fpost.
  destruct (jblocks_facts _ _ _ _ Hnd) as [N1 [N2 [N3 N4]]].
  rewrite Forall_forall in Hlt. assert (Li : (ib < length h)%nat). { apply Hlt. right. left. reflexivity. }
  hs_lds.
  pose proof (cases_loop_m te fuel0 times willruns timestr ob ib hd (tail_ptr bs) N1 (k_nodes k) h k hd bs fuel0 evs nx Hob Hib Hch N3 Li Hf)
    as HL.
  destruct (src_junit_writeTestCases_loop1 te fuel0 fuel0 (HPtr ob 0) h evs nx times willruns timestr hd)
    as [[[[[[[h' evs'] nx'] tm'] wr'] ts'] cur']| | |]; cbn [cpost] in HL; try contradiction.
  destruct HL as [-> [-> [-> [-> [-> [-> [Hi [Ll Fr]]]]]]]]. cbn [finish].
  repeat (split; [reflexivity|]). split; [|split; [exact Ll | exact Fr]].
  apply (cj_impl_update h h' ob ib bs k); [exact Hcj | exact Fr | exact Ll | reflexivity|].
  intros hd' Hib'. rewrite Hib in Hib'. injection Hib' as <-. exact Hi.
Qed.
Lemma write_cases te fuel0 times willruns timestr h ob ib bs k evs nx :
  cjunit_at h ob ib bs k -> (length (k_nodes k) < fuel0)%nat ->
  exists h', src_junit_writeTestCases te fuel0 h evs nx times willruns timestr (HPtr ob 0) =
             FOk (tt, h', evs ++ ev_cases te (k_pkg k) (k_group k) (k_total k) nx (k_nodes k), cases_nx nx (k_nodes k), times, willruns,
                  timestr) /\
    cjunit_at h' ob ib bs (k_with k (k_nodes k) (k_tc k) (k_fc k) (last_cc (k_total k) (k_nodes k)) (k_start k) (k_gexec k) (k_group k)) /\
    length h' = length h /\ (forall b, b <> ib -> hblock h' b = hblock h b).
Proof. intros H1 H2. apply fpost_tuple. exact (write_cases_m te fuel0 times willruns timestr h ob ib bs k evs nx H1 H2). Qed.

(* writeTestGroupToFile *)
Theorem write_group_to_file te fuel0 times willruns timestr h ob ib bs k evs nx :
  cjunit_at h ob ib bs k -> (length (k_nodes k) < fuel0)%nat ->
  exists h', src_junit_writeTestGroupToFile te fuel0 h evs nx times willruns timestr (HPtr ob 0) =
             FOk (tt, h', evs ++ ev_group te k timestr nx, cases_nx (nx + 1) (k_nodes k), times, willruns, timestr) /\
    cjunit_at h' ob ib bs (k_with k (k_nodes k) (k_tc k) (k_fc k) (last_cc (k_total k) (k_nodes k)) (k_start k) (k_gexec k) (k_group k)) /\
    length h' = length h /\ (forall b, b <> ib -> hblock h' b = hblock h b).
Proof.
  intros Hcj Hf. pose proof Hcj as [Hob [hd [Hib _]]]. unfold src_junit_writeTestGroupToFile.
  hs_lds. rewrite write_header. cbv beta iota zeta. rewrite (write_summary fuel0 h ob ib k hd (tail_ptr bs) _ _ _ _ _ Hob Hib).
  cbv beta iota zeta. rewrite write_props. cbv beta iota zeta.
  destruct (write_cases te fuel0 times willruns timestr h ob ib bs k
              ((((evs ++ [JOpen (k_group k)]) ++ ev_header) ++ ev_summary k timestr nx) ++ ev_props) (nx + 1) Hcj Hf)
    as [h' [E [Hcj' [Ll Fr]]]].
  rewrite E. cbv beta iota zeta. pose proof Hcj' as [Hob' [hd' [Hib' _]]].
  rewrite (write_ending fuel0 h' ob ib _ hd' (tail_ptr bs) _ _ _ _ _ Hob' Hib'). cbv beta iota zeta. cbn [finish].
  exists h'. split; [|split; [exact Hcj' | split; [exact Ll | exact Fr]]].
  unfold ev_group. cbn [k_with k_out]. rewrite <- !app_assoc. reflexivity.
Qed.

(* printCurrentGroupEnded: groupExecTime_ is set, the file is written, the results are reset (totalCheckCount_ keeps the count of the
   last node written) *)
Definition k_gx (k : cstate) (gx : Z) : cstate := k_with k (k_nodes k) (k_tc k) (k_fc k) (k_total k) (k_start k) gx (k_group k).
Theorem group_ended te fuel0 times willruns timestr h ob ib bs k rb r evs nx :
  cjunit_at h ob ib bs k -> (length (k_nodes k) < fuel0)%nat -> hblock h rb = tr_cells r -> rb <> ib ->
  exists h', src_junit_printCurrentGroupEnded te fuel0 h evs nx times willruns timestr (HPtr ob 0) (HPtr rb 0) =
             FOk (tt, h', evs ++ ev_group te (k_gx k (tr_group_ms r)) timestr nx ++ reset_events bs (k_nodes k),
                  cases_nx (nx + 1) (k_nodes k), times, willruns, timestr) /\
    cjunit_at h' ob ib [] (k_with k [] 0 0 (last_cc (k_total k) (k_nodes k)) (k_start k) (tr_group_ms r) 0) /\
    length h' = length h /\ (forall b, b <> ib -> hblock h' b = hblock h b).
Proof.
  intros Hcj Hf Hrb Nr. pose proof Hcj as [Hob [hd [Hib [_ [Hnd Hlt]]]]]. unfold src_junit_printCurrentGroupEnded.
  rewrite Forall_forall in Hlt. assert (Li : (ib < length h)%nat). { apply Hlt. right. left. reflexivity. }
  assert (Hsave : id (hblock h ib = impl_cells k hd (tail_ptr bs))) by exact Hib.
  hs_lds. hs_st h1. unfold id in Hsave.
  assert (Hcj1 : cjunit_at h1 ob ib bs (k_gx k (tr_group_ms r))).
  { apply (cj_impl_update h h1 ob ib bs k); [exact Hcj | exact F | exact Ln | reflexivity|].
    intros hd' Hib'. rewrite Hsave in Hib'. injection Hib' as <-. hb. }
  destruct (write_group_to_file te fuel0 times willruns timestr h1 ob ib bs _ evs nx Hcj1 Hf) as [h2 [E2 [Hcj2 [L2 F2]]]].
  rewrite E2. cbv beta iota zeta.
  destruct (fpost_tuple _ _ _ _ _ _ _ (reset_m fuel0 times willruns timestr h2 ob ib bs _
              (evs ++ ev_group te (k_gx k (tr_group_ms r)) timestr nx) (cases_nx (nx + 1) (k_nodes (k_gx k (tr_group_ms r)))) Hcj2 Hf))
    as [h3 [E3 [Hcj3 [L3 F3]]]].
  rewrite E3. cbv beta iota zeta. cbn [finish].
  exists h3. split; [rewrite <- app_assoc; reflexivity|]. split; [exact Hcj3|]. split; [lia|].
  intros b Hb. rewrite (F3 b Hb), (F2 b Hb). exact (F b Hb).
Qed.
