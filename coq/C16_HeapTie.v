(* C16: the member functions of JUnitTestOutput that collect the results of a group and write its file, as translated from source on
   every run (gen/Gen_HeapC16.v), run on a heap that represents a model state (C16_HeapRep.v), do what the hand-written model
   (C16_Model.v: junit_step, write_group with esc := Esc) says.
   Part 1 (concrete): each function on a heap holding a concrete state k (cjunit_at) returns FOk, the heap holds the updated concrete
   state, the events appended are an explicit function of k (started_node, reset_events, ev_header / ev_summary / ev_props /
   ev_failure / ev_case / ev_cases / ev_ending / ev_group), every block outside the structure is unchanged.  One lemma per
   translated function; the two loops by induction on the node list (fuel: length of the list < fuel).
   Part 2 (rendering, no hypothesis): the events of writeTestGroupToFile read as a file (files_of) are the bytes group_file = the
   model's printer applied to a tree built like the model's but with the numbers and times the code prints (suite_ptree_c).
   Part 3 (model): with all times 0, the model's time string and numbers below 2^31 that tree is the model's suite_ptree Esc, so the
   file is write_group Esc; the callbacks are junit_step on junit_at / junit_at_o.  te is the Section variable text_empty of the
   translation (isEmpty()), assumed to answer for txt; txt 0 = [].
   Part 4: examples (vm_compute) on a concrete heap, including the counterexamples reported in the comments.
   FINDINGS stated where they matter: (a) a started, not yet ended node breaks the cumulative reading of checkCount_ (junit_at_o true,
   ce_open_node); (b) resetTestGroupResult emits `delete` of the null failure_ of every node without failure (reset_events,
   reset_events_deleted) and does not reset totalCheckCount_; (c) the model prints time 0.000: the equality with write_group needs
   groupExecTime_ = 0 and every execTime_ = 0 (ex_times shows the general rendering). *)
From Coq Require Import ZArith NArith Bool List Lia.
From Coq Require String Ascii.
From CppUVerif Require Import lib.Str C16_Events C16_Model.
From CppUVerif Require Import lib.CSem lib.CMem lib.CMemFacts lib.CHeap gen.Gen_HeapC16 C16_HeapRep.
Import ListNotations.
Local Open Scope Z_scope.

(* ------------------------------------------------------------------ stepping through translated code *)
Lemma L_ldp h b cells k p : hblock h b = cells -> (0 <=? k) = true -> nth_error cells (Z.to_nat k) = Some (VPtr p) ->
  hload_ptr h (HPtr b k) = Some p.
Proof. intros Hb Hk Hn. unfold hload_ptr, hload. rewrite Hk, Hb, Hn. reflexivity. Qed.
Lemma L_ldi h b cells k z : hblock h b = cells -> (0 <=? k) = true -> nth_error cells (Z.to_nat k) = Some (VInt z) ->
  hload_int h (HPtr b k) = Some z.
Proof. intros Hb Hk Hn. unfold hload_int, hload. rewrite Hk, Hb, Hn. reflexivity. Qed.
Lemma L_padd h b cells i k j : hblock h b = cells -> j = i + k -> ((0 <=? j) && (j <=? Z.of_nat (length cells))) = true ->
  hpadd h (HPtr b i) k = Some (HPtr b j).
Proof. intros Hb -> Hc. unfold hpadd. rewrite Hb, Hc. reflexivity. Qed.
Lemma L_store h b cells i v : hblock h b = cells -> (b < length h)%nat -> ((0 <=? i) && (i <? Z.of_nat (length cells))) = true ->
  exists h', hstore h (HPtr b i) v = Some h' /\ hblock h' b = upd cells (Z.to_nat i) v /\ length h' = length h /\
             (forall b', b' <> b -> hblock h' b' = hblock h b').
Proof.
  intros Hb L Hc. exists (upd h b (upd cells (Z.to_nat i) v)). split; [|split; [|split]].
  - unfold hstore. rewrite Hb, Hc. replace (Nat.ltb b (length h)) with true by (symmetry; apply Nat.ltb_lt; exact L). reflexivity.
  - apply hblock_upd_same. exact L.
  - apply heap_upd_length.
  - intros b' Hne. apply hblock_upd_other. intro E. apply Hne. symmetry. exact E.
Qed.

(* one load / pointer step whose block content is known in the context *)
Ltac hs_ld :=
  match goal with
  | |- context [hload_ptr ?h (HPtr ?b ?k)] =>
      match goal with H : hblock h b = ?cells |- _ =>
        let r := eval simpl in (nth_error cells (Z.to_nat k)) in
        match r with Some (VPtr ?p) => rewrite (L_ldp h b cells k p H eq_refl eq_refl) end end
  | |- context [hload_int ?h (HPtr ?b ?k)] =>
      match goal with H : hblock h b = ?cells |- _ =>
        let r := eval simpl in (nth_error cells (Z.to_nat k)) in
        match r with Some (VInt ?z) => rewrite (L_ldi h b cells k z H eq_refl eq_refl) end end
  | |- context [hpadd ?h (HPtr ?b ?i) ?k] =>
      match goal with H : hblock h b = ?cells |- _ =>
        let j := eval cbv in (i + k) in rewrite (L_padd h b cells i k j H eq_refl eq_refl) end
  end; cbv beta iota zeta.
Ltac hs_lds := repeat hs_ld.

(* carrying the facts about the other blocks across a store into block b: h -> h' with frame F *)
Ltac hs_carry h h' F :=
  repeat match goal with
         | Hx : hblock h ?bx = ?cx |- _ =>
             first [ let Hn := fresh "Hk" in
                     assert (Hn : hblock h' bx = cx) by (rewrite (F bx ltac:(lia)); exact Hx); clear Hx
                   | clear Hx ]
         end.
(* one store; the block facts are moved to the new heap h' *)
Ltac hs_st h' :=
  match goal with
  | |- context [hstore ?h (HPtr ?b ?i) ?v] =>
      match goal with H : hblock h b = ?cells |- _ =>
        let S := fresh "S" in let B := fresh "Hk" in let Ln := fresh "Ln" in let F := fresh "F" in
        destruct (L_store h b cells i v H ltac:(lia) eq_refl) as [h' [S [B [Ln F]]]];
        rewrite S; clear S; simpl in B; clear H; hs_carry h h' F
      end
  end; cbv beta iota zeta.

(* closing a goal with one of the block facts of the context *)
Ltac hb := match goal with H : hblock _ _ = _ |- _ => exact H end.
Ltac hb_rw h b := match goal with H : hblock h b = _ |- _ => rewrite H end.

Definition fpost {R} (r : fres R) (P : R -> Prop) : Prop := match r with FOk x => P x | _ => False end.
Lemma fpost_ex {R} (r : fres R) P : fpost r P -> exists x, r = FOk x /\ P x.
Proof. destruct r as [x| |]; cbn; try contradiction. intro H. exists x. split; [reflexivity | exact H]. Qed.


(* from the post form to the existential form *)
Lemma fpost_tuple (r : fres (unit * heap * list hev * Z * list Z * list Z * Z)) E N T W S (Q : heap -> Prop) :
  fpost r (fun '(u, h', evs', nx', tm', wr', ts') => evs' = E /\ nx' = N /\ tm' = T /\ wr' = W /\ ts' = S /\ Q h') ->
  exists h', r = FOk (tt, h', E, N, T, W, S) /\ Q h'.
Proof.
  destruct r as [[[[[[[[] h'] evs'] nx'] tm'] wr'] ts']| |]; cbn; try contradiction.
  intros [-> [-> [-> [-> [-> HQ]]]]]. exists h'. split; [reflexivity | exact HQ].
Qed.
Definition cpost {R A} (r : cres R A) (P : A -> Prop) : Prop := match r with Go a => P a | _ => False end.
Lemma cpost_mono {R A} (r : cres R A) (P P' : A -> Prop) : cpost r P -> (forall a, P a -> P' a) -> cpost r P'.
Proof. destruct r; cbn; try contradiction. intros H HP. apply HP. exact H. Qed.

Lemma t_eq_null_null : z2b (hp_eq HNull HNull) = true. Proof. reflexivity. Qed.
Lemma t_eq_ptr_null b i : z2b (hp_eq (HPtr b i) HNull) = false. Proof. reflexivity. Qed.
Lemma t_bool_ptr b i : z2b (hp_bool (HPtr b i)) = true. Proof. reflexivity. Qed.
Lemma t_bool_null : z2b (hp_bool HNull) = false. Proof. reflexivity. Qed.

(* a fresh block appended to the heap *)
Lemma L_app_old (h : heap) x b cells : hblock h b = cells -> cells <> [] -> hblock (h ++ [x]) b = cells.
Proof.
  intros H Hne. unfold hblock in *. destruct (Nat.lt_ge_cases b (length h)) as [L|L].
  - rewrite app_nth1 by exact L. exact H.
  - rewrite nth_overflow in H by exact L. subst cells. contradiction Hne. reflexivity.
Qed.
Lemma hblock_lt (h : heap) b cells : hblock h b = cells -> cells <> [] -> (b < length h)%nat.
Proof.
  intros H Hne. destruct (Nat.lt_ge_cases b (length h)) as [L|L]; [exact L|]. unfold hblock in H. rewrite nth_overflow in H by exact L.
  subst cells. contradiction Hne. reflexivity.
Qed.
Lemma L_app_new (h : heap) x : hblock (h ++ [x]) (length h) = x.
Proof. unfold hblock. rewrite app_nth2 by lia. rewrite Nat.sub_diag. reflexivity. Qed.
Lemma L_app_frame (h : heap) x b : (b < length h)%nat -> hblock (h ++ [x]) b = hblock h b.
Proof. intro L. unfold hblock. apply app_nth1. exact L. Qed.
Ltac hs_carry_app h h' E :=
  repeat match goal with
         | Hx : hblock h ?bx = ?cx |- _ =>
             let Hn := fresh "Hk" in
             assert (Hn : hblock h' bx = cx) by (rewrite E; apply (L_app_old h _ bx cx Hx); discriminate); clear Hx
         end.
(* the heap grows by the block x: h' names the new heap, the block facts are moved to it *)
Ltac hs_new_ h0 x h' :=
  let E := fresh "E" in let Hn := fresh "Hnew" in let Ln := fresh "Ln" in let F := fresh "Fa" in
  remember (h0 ++ [x]) as h' eqn:E;
  assert (Hn : hblock h' (length h0) = x) by (rewrite E; apply L_app_new);
  assert (Ln : length h' = S (length h0)) by (rewrite E, app_length; cbn [length]; lia);
  assert (F : forall b, (b < length h0)%nat -> hblock h' b = hblock h0 b) by (intros ? ?; rewrite E; apply L_app_frame; assumption);
  simpl in Hn; hs_carry_app h0 h' E; clear E.
Ltac hs_new h' := match goal with |- context [hload_ptr (?h0 ++ [?x]) _] => hs_new_ h0 x h' end.

Lemma jblocks_facts ob ib bs cs : NoDup (jblocks ob ib bs cs) ->
  ob <> ib /\ ~ In ob (bs ++ fblocks cs) /\ ~ In ib (bs ++ fblocks cs) /\ NoDup (bs ++ fblocks cs).
Proof.
  unfold jblocks. intro H. inversion H as [|? ? H1 H2]; subst. inversion H2 as [|? ? H3 H4]; subst.
  split; [intro E; apply H1; left; symmetry; exact E|]. split; [intro Hin; apply H1; right; exact Hin|]. split; assumption.
Qed.
Lemma nodup_last {A} (l : list A) x fs : NoDup ((l ++ [x]) ++ fs) -> ~ In x (l ++ fs).
Proof. rewrite <- app_assoc. cbn [app]. apply NoDup_remove_2. Qed.
Lemma NoDup_app_snoc {A} (l : list A) x : NoDup l -> ~ In x l -> NoDup (l ++ [x]).
Proof.
  induction l as [|y l IH]; intros Hd Hn; cbn [app].
  - constructor; [intros [] | constructor].
  - inversion Hd as [|? ? H1 H2]; subst. constructor.
    + intro Hin. apply in_app_or in Hin. destruct Hin as [Hin|[E|[]]]; [exact (H1 Hin)|]. subst. apply Hn. left. reflexivity.
    + apply IH; [exact H2|]. intro Hin. apply Hn. right. exact Hin.
Qed.
Lemma in_snoc {A} (l : list A) x : In x (l ++ [x]). Proof. apply in_or_app. right. left. reflexivity. Qed.

Lemma ended_m fuel0 times willruns timestr h ob ib bs k cs c rb r evs nx :
  cjunit_at h ob ib bs k -> k_nodes k = cs ++ [c] ->
  hblock h rb = tr_cells r -> ~ In rb (jblocks ob ib bs (k_nodes k)) ->
  fpost (src_junit_printCurrentTestEnded fuel0 h evs nx times willruns timestr (HPtr ob 0) (HPtr rb 0))
    (fun '(u, h', evs', nx', tm', wr', ts') => evs' = evs /\ nx' = nx /\ tm' = times /\ wr' = willruns /\ ts' = timestr /\
       cjunit_at h' ob ib bs (k_with k (cs ++ [c_with c (tr_test_ms r) (c_fail c) (tr_checks r)])
                                (k_tc k) (k_fc k) (k_total k) (k_start k) (k_gexec k) (k_group k)) /\
       length h' = length h /\ (forall b, ~ In b (jblocks ob ib bs (k_nodes k)) -> hblock h' b = hblock h b)).
Proof.
  intros [Hob [hd [Hib [Hch [Hnd Hlt]]]]] Hk Hrb Hnin.
  unfold src_junit_printCurrentTestEnded, fpost.
  rewrite Hk in Hch. destruct (jchain_snoc_inv _ _ _ _ _ Hch) as [bs' [b [-> [Hl [Hb Hfo]]]]].
  rewrite tail_ptr_snoc in Hib.
  destruct (jblocks_facts _ _ _ _ Hnd) as [N1 [N2 [N3 N4]]].
  assert (N5 : b <> ob). { intro E. apply N2. subst. apply in_or_app. left. apply in_snoc. }
  assert (N6 : b <> ib). { intro E. apply N3. subst. apply in_or_app. left. apply in_snoc. }
  assert (N7 : b <> rb). { intro E. apply Hnin. subst. right. right. apply in_or_app. left. apply in_snoc. }
  assert (N8 : rb <> ob). { intro E. apply Hnin. subst. left. reflexivity. }
  assert (N9 : rb <> ib). { intro E. apply Hnin. subst. right. left. reflexivity. }
  assert (Lb : (b < length h)%nat).
  { rewrite Forall_forall in Hlt. apply Hlt. right. right. apply in_or_app. left. apply in_snoc. }
  hs_lds. hs_st h1. hs_lds. hs_st h2. cbn [finish].
  assert (FF : forall b', b' <> b -> hblock h2 b' = hblock h b') by (intros b' Hne; rewrite (F0 b' Hne); exact (F b' Hne)).
  repeat (split; [reflexivity|]). split; [|split; [lia|]].
  - split; [exact Hk0|]. exists hd. rewrite tail_ptr_snoc. split; [exact Hk3|]. cbn [k_with k_nodes].
    assert (EF : fblocks (cs ++ [c_with c (tr_test_ms r) (c_fail c) (tr_checks r)]) = fblocks (k_nodes k)).
    { rewrite Hk, !fblocks_app. reflexivity. }
    split; [|split].
    + pose proof (nodup_last _ _ _ N4) as N10. rewrite Hk, fblocks_app in N10.
      apply (jchain_set_last h h2 cs hd bs' b c); [exact Hch | exact Hl | | exact Hk4 |].
      * intros x Hin. apply FF. intro E. subst x. apply N10. apply in_app_or in Hin. apply in_or_app.
        destruct Hin as [Hin|Hin]; [left; exact Hin|]. right. apply in_or_app. left. exact Hin.
      * apply (fail_ok_frame h); [|exact Hfo]. intros x Hin. apply FF. intro E. subst x. apply N10.
        apply in_or_app. right. apply in_or_app. right. unfold fblocks. cbn [flat_map]. rewrite app_nil_r. exact Hin.
    + unfold jblocks. rewrite EF. exact Hnd.
    + unfold jblocks. rewrite EF. replace (length h2) with (length h) by lia. exact Hlt.
  - intros b0 Hn. apply FF. intro E. subst b0. apply Hn. right. right. apply in_or_app. left. apply in_snoc.
Qed.

(* ------------------------------------------------------------------ printFailure *)
(* a second failure of the same test changes nothing *)
Lemma failure_second fuel0 times willruns timestr h ob ib bs k cs c fb f fb0 evs nx :
  cjunit_at h ob ib bs k -> k_nodes k = cs ++ [c] -> c_fail c = Some (fb, f) ->
  src_junit_printFailure fuel0 h evs nx times willruns timestr (HPtr ob 0) (HPtr fb0 0) = FOk (tt, h, evs, nx, times, willruns, timestr).
Proof.
  intros [Hob [hd [Hib [Hch [Hnd Hlt]]]]] Hk Hcf. unfold src_junit_printFailure.
  rewrite Hk in Hch. destruct (jchain_snoc_inv _ _ _ _ _ Hch) as [bs' [b [-> [Hl [Hb Hfo]]]]].
  rewrite tail_ptr_snoc in Hib. hs_lds. rewrite Hcf. cbn [fptr]. rewrite t_eq_ptr_null. reflexivity.
Qed.

Lemma failure_first_m fuel0 times willruns timestr h ob ib bs k cs c fb0 f evs nx :
  cjunit_at h ob ib bs k -> k_nodes k = cs ++ [c] -> c_fail c = None ->
  hblock h fb0 = fail_cells f -> ~ In fb0 (jblocks ob ib bs (k_nodes k)) ->
  fpost (src_junit_printFailure fuel0 h evs nx times willruns timestr (HPtr ob 0) (HPtr fb0 0))
    (fun '(u, h', evs', nx', tm', wr', ts') =>
       evs' = evs ++ [JNew (HPtr (length h) 0)] /\ nx' = nx /\ tm' = times /\ wr' = willruns /\ ts' = timestr /\
       cjunit_at h' ob ib bs (k_with k (cs ++ [c_with c (c_exec c) (Some (length h, f)) (c_cc c)])
                                (k_tc k) (cw 64 false (k_fc k + 1)) (k_total k) (k_start k) (k_gexec k) (k_group k)) /\
       length h' = S (length h) /\ hblock h' (length h) = fail_cells f /\
       (forall b, (b < length h)%nat -> ~ In b (jblocks ob ib bs (k_nodes k)) -> hblock h' b = hblock h b)).
Proof.
  intros [Hob [hd [Hib [Hch [Hnd Hlt]]]]] Hk Hcf Hfb Hnin.
  unfold src_junit_printFailure, fpost.
  rewrite Hk in Hch. destruct (jchain_snoc_inv _ _ _ _ _ Hch) as [bs' [b [-> [Hl [Hb Hfo]]]]].
  rewrite tail_ptr_snoc in Hib.
  destruct (jblocks_facts _ _ _ _ Hnd) as [N1 [N2 [N3 N4]]].
  assert (N5 : b <> ob). { intro E. apply N2. subst. apply in_or_app. left. apply in_snoc. }
  assert (N6 : b <> ib). { intro E. apply N3. subst. apply in_or_app. left. apply in_snoc. }
  assert (N7 : b <> fb0). { intro E. apply Hnin. subst. right. right. apply in_or_app. left. apply in_snoc. }
  assert (N8 : fb0 <> ob). { intro E. apply Hnin. subst. left. reflexivity. }
  assert (N9 : fb0 <> ib). { intro E. apply Hnin. subst. right. left. reflexivity. }
  rewrite Forall_forall in Hlt.
  assert (Lb : (b < length h)%nat). { apply Hlt. right. right. apply in_or_app. left. apply in_snoc. }
  assert (Li : (ib < length h)%nat). { apply Hlt. right. left. reflexivity. }
  assert (Lo : (ob < length h)%nat). { apply Hlt. left. reflexivity. }
  hs_lds. rewrite Hcf. cbn [fptr]. rewrite t_eq_null_null. cbv beta iota zeta. hs_lds. hs_st h1.
  rewrite (hcells_whole h1 fb0 7) by (hb_rw h1 fb0; reflexivity). hb_rw h1 fb0. cbv beta iota zeta.
  hs_new h2. hs_lds. hs_st h3. cbn [finish].
  replace (length h1) with (length h) in * by lia.
  assert (FF : forall b', (b' < length h)%nat -> b' <> b -> b' <> ib -> hblock h3 b' = hblock h b').
  { intros b' L Hb1 Hb2. rewrite (F0 b' Hb1), (Fa b' ltac:(lia)). exact (F b' Hb2). }
  repeat (split; [reflexivity|]). split; [|split; [lia|split; [hb|]]].
  - split; [hb|]. exists hd. rewrite tail_ptr_snoc. split; [hb|]. cbn [k_with k_nodes].
    pose proof (nodup_last _ _ _ N4) as N10. rewrite Hk, fblocks_app in N10.
    assert (EF : fblocks (cs ++ [c_with c (c_exec c) (Some (length h, f)) (c_cc c)]) = fblocks (k_nodes k) ++ [length h]).
    { rewrite Hk, !fblocks_app. unfold fblocks at 2 4. cbn [flat_map fblock c_with c_fail]. unfold fblock. rewrite Hcf. cbn [app].
      rewrite app_nil_r. reflexivity. }
    split; [|split].
    + apply (jchain_set_last h h3 cs hd bs' b c); [exact Hch | exact Hl | | hb |].
      * intros x Hin. assert (Hx : In x ((bs' ++ [b]) ++ fblocks (k_nodes k))).
        { rewrite Hk, fblocks_app. apply in_app_or in Hin. apply in_or_app. destruct Hin as [Hin|Hin].
          - left. apply in_or_app. left. exact Hin.
          - right. apply in_or_app. left. exact Hin. }
        apply FF.
        -- apply Hlt. right. right. exact Hx.
        -- intro E. subst x. apply N10. apply in_app_or in Hin. apply in_or_app.
           destruct Hin as [Hin|Hin]; [left; exact Hin|]. right. apply in_or_app. left. exact Hin.
        -- intro E. subst x. apply N3. exact Hx.
      * unfold fail_ok. cbn [c_with c_fail]. hb.
    + unfold jblocks. rewrite EF. rewrite app_assoc.
      change (ob :: ib :: ((bs' ++ [b]) ++ fblocks (k_nodes k)) ++ [length h])
        with ((ob :: ib :: (bs' ++ [b]) ++ fblocks (k_nodes k)) ++ [length h]).
      apply NoDup_app_snoc. { exact Hnd. }
      intro Hin. apply Hlt in Hin. lia.
    + apply Forall_forall. intros x Hin. unfold jblocks in Hin. rewrite EF, app_assoc in Hin.
      change (ob :: ib :: ((bs' ++ [b]) ++ fblocks (k_nodes k)) ++ [length h])
        with ((ob :: ib :: (bs' ++ [b]) ++ fblocks (k_nodes k)) ++ [length h]) in Hin.
      apply in_app_or in Hin. destruct Hin as [Hin|[<-|[]]]; [apply Hlt in Hin; lia | lia].
  - intros b0 L Hn. apply FF; [exact L | |].
    + intro E. subst b0. apply Hn. right. right. apply in_or_app. left. apply in_snoc.
    + intro E. subst b0. apply Hn. right. left. reflexivity.
Qed.

(* ------------------------------------------------------------------ printCurrentTestStarted *)
Lemma snoc_case {A} (l : list A) : l = [] \/ exists l' x, l = l' ++ [x].
Proof. induction l as [|x l' _] using rev_ind; [left; reflexivity | right; exists l', x; reflexivity]. Qed.
Lemma jblocks_in_add ob ib bs cs n cn x : fblock cn = [] ->
  In x (jblocks ob ib (bs ++ [n]) (cs ++ [cn])) <-> x = n \/ In x (jblocks ob ib bs cs).
Proof.
  intro Hf. unfold jblocks. rewrite fblocks_app. unfold fblocks at 2. cbn [flat_map]. rewrite Hf. cbn [app]. rewrite app_nil_r.
  cbn [In]. rewrite !in_app_iff. cbn [In]. intuition (subst; tauto).
Qed.
Lemma jblocks_nodup_add ob ib bs cs n cn : fblock cn = [] ->
  NoDup (jblocks ob ib bs cs) -> ~ In n (jblocks ob ib bs cs) -> NoDup (jblocks ob ib (bs ++ [n]) (cs ++ [cn])).
Proof.
  intros Hf Hd Hn. unfold jblocks in *. rewrite fblocks_app. unfold fblocks at 2. cbn [flat_map]. rewrite Hf. cbn [app].
  rewrite app_nil_r, <- app_assoc. cbn [app].
  change (ob :: ib :: bs ++ n :: fblocks cs) with ((ob :: ib :: bs) ++ n :: fblocks cs).
  apply (NoDup_Add (a := n) (l := (ob :: ib :: bs) ++ fblocks cs)); [apply Add_app|]. split; [exact Hd | exact Hn].
Qed.

Definition started_node (t : cshell) (w : Z) : cnode :=
  {| c_name := sh_name t; c_exec := 0; c_fail := None; c_ign := z2b (c_lnot w); c_file := sh_file t; c_line := sh_line t; c_cc := 0 |}.

Lemma started_m fuel0 t0 times w willruns timestr h ob ib bs k tb t evs nx :
  cjunit_at h ob ib bs k -> hblock h tb = shell_cells t -> ~ In tb (jblocks ob ib bs (k_nodes k)) ->
  fpost (src_junit_printCurrentTestStarted fuel0 h evs nx (t0 :: times) (w :: willruns) timestr (HPtr ob 0) (HPtr tb 0))
    (fun '(u, h', evs', nx', tm', wr', ts') =>
       evs' = evs ++ [JNew (HPtr (length h) 0)] /\ nx' = nx /\ tm' = times /\ wr' = willruns /\ ts' = timestr /\
       cjunit_at h' ob ib (bs ++ [length h])
         (k_with k (k_nodes k ++ [started_node t w]) (cw 64 false (k_tc k + 1)) (k_fc k) (k_total k) t0 (k_gexec k) (sh_group t)) /\
       length h' = S (length h) /\
       (forall b, (b < length h)%nat -> ~ In b (jblocks ob ib bs (k_nodes k)) -> hblock h' b = hblock h b)).
Proof.
  intros [Hob [hd [Hib [Hch [Hnd Hlt]]]]] Htb Hnin.
  unfold src_junit_printCurrentTestStarted, fpost.
  destruct (jblocks_facts _ _ _ _ Hnd) as [N1 [N2 [N3 N4]]].
  assert (N8 : tb <> ob). { intro E. apply Hnin. subst. left. reflexivity. }
  assert (N9 : tb <> ib). { intro E. apply Hnin. subst. right. left. reflexivity. }
  pose proof Hlt as Hlt'. rewrite Forall_forall in Hlt.
  assert (Li : (ib < length h)%nat). { apply Hlt. right. left. reflexivity. }
  assert (Lo : (ob < length h)%nat). { apply Hlt. left. reflexivity. }
  assert (Hnew_nin : ~ In (length h) (jblocks ob ib bs (k_nodes k))). { intro Hin. apply Hlt in Hin. lia. }
  assert (Lt : (tb < length h)%nat) by (apply (hblock_lt h tb _ Htb); discriminate).
  destruct (snoc_case (k_nodes k)) as [Hk|[cs [c Hk]]].
  - (* the first test of the group *)
    rewrite Hk in Hch. apply jchain_nil_inv in Hch. destruct Hch as [-> ->]. change (tail_ptr []) with HNull in Hib.
    hs_lds. hs_st h1. hs_lds. hs_st h2. hs_lds. hs_st h3. hs_lds. rewrite t_eq_null_null. cbv beta iota zeta.
    hs_new h4. hs_lds. hs_st h5. hs_lds. hs_st h6. hs_lds. hs_st h7. hs_lds. hs_st h8. hs_lds. hs_st h9.
    assert (LL : length h3 = length h) by lia. rewrite LL in *.
    assert (FF : forall b', (b' < length h)%nat -> b' <> ib -> hblock h9 b' = hblock h b').
    { intros b' L Hb. rewrite (F6 b' ltac:(lia)), (F5 b' ltac:(lia)), (F4 b' ltac:(lia)), (F3 b' Hb), (F2 b' Hb), (Fa b' L), (F1 b' Hb), (F0 b' Hb).
      exact (F b' Hb). }
    assert (Fin : forall h' : heap, length h' = S (length h) ->
              hblock h' ob = [VPtr (HPtr ib 0)] ->
              hblock h' ib = [VInt (cw 64 false (k_tc k + 1)); VInt (k_fc k); VInt (k_total k); VInt t0; VInt (k_gexec k);
                              VInt (sh_group t); VPtr (HPtr (length h) 0); VPtr (HPtr (length h) 0); k_filev k; VInt (k_pkg k);
                              VInt (k_out k)] ->
              hblock h' (length h) = node_cells (started_node t w) HNull ->
              cjunit_at h' ob ib ([] ++ [length h])
                (k_with k (k_nodes k ++ [started_node t w]) (cw 64 false (k_tc k + 1)) (k_fc k) (k_total k) t0 (k_gexec k) (sh_group t))).
    { intros h' L' Ho Hi Hn. split; [exact Ho|]. exists (HPtr (length h) 0). split; [exact Hi|]. cbn [k_with k_nodes]. split; [|split].
      - rewrite Hk. cbn [app jchain]. split; [reflexivity|]. split; [exact I|]. exists HNull. split; [exact Hn | reflexivity].
      - apply jblocks_nodup_add; [reflexivity | exact Hnd | exact Hnew_nin].
      - apply Forall_forall. intros x Hin. apply jblocks_in_add in Hin; [|reflexivity]. destruct Hin as [->|Hin]; [lia|].
        apply Hlt in Hin. lia. }
    destruct (z2b (c_lnot w)) eqn:Ew.
    + hs_lds. hs_st h10. cbn [finish]. repeat (split; [reflexivity|]). split; [|split; [lia|]].
      * apply Fin; [lia | hb | hb |]. unfold started_node, node_cells. cbn [c_name c_exec c_fail c_ign c_file c_line c_cc fptr].
        rewrite Ew. hb.
      * intros b0 L Hn. rewrite (F7 b0 ltac:(lia)). apply FF; [exact L|]. intro E. subst b0. apply Hn. right. left. reflexivity.
    + cbn [finish]. repeat (split; [reflexivity|]). split; [|split; [lia|]].
      * apply Fin; [lia | hb | hb |]. unfold started_node, node_cells. cbn [c_name c_exec c_fail c_ign c_file c_line c_cc fptr].
        rewrite Ew. hb.
      * intros b0 L Hn. apply FF; [exact L|]. intro E. subst b0. apply Hn. right. left. reflexivity.
  - (* a further test: the new node goes behind tail_ *)
    rewrite Hk in Hch. destruct (jchain_snoc_inv _ _ _ _ _ Hch) as [bs' [b [-> [Hl [Hb Hfo]]]]].
    rewrite tail_ptr_snoc in Hib.
    assert (N5 : b <> ob). { intro E. apply N2. subst. apply in_or_app. left. apply in_snoc. }
    assert (N6 : b <> ib). { intro E. apply N3. subst. apply in_or_app. left. apply in_snoc. }
    assert (N7 : b <> tb). { intro E. apply Hnin. subst. right. right. apply in_or_app. left. apply in_snoc. }
    assert (Lb : (b < length h)%nat). { apply Hlt. right. right. apply in_or_app. left. apply in_snoc. }
    hs_lds. hs_st h1. hs_lds. hs_st h2. hs_lds. hs_st h3. hs_lds. rewrite t_eq_ptr_null. cbv beta iota zeta.
    hs_new h4. hs_lds. hs_st h5. hs_lds. hs_st h6. hs_lds. hs_st h7. hs_lds. hs_st h8. hs_lds. hs_st h9.
    assert (LL : length h3 = length h) by lia. rewrite LL in *.
    assert (FF : forall b', (b' < length h)%nat -> b' <> ib -> b' <> b -> hblock h9 b' = hblock h b').
    { intros b' L Hb1 Hb2. rewrite (F6 b' ltac:(lia)), (F5 b' ltac:(lia)), (F4 b' ltac:(lia)), (F3 b' Hb1), (F2 b' Hb2), (Fa b' L), (F1 b' Hb1),
        (F0 b' Hb1). exact (F b' Hb1). }
    pose proof (nodup_last _ _ _ N4) as N10.
    assert (Fin : forall h' : heap, length h' = S (length h) ->
              (forall b', (b' < length h)%nat -> b' <> ib -> b' <> b -> hblock h' b' = hblock h b') ->
              hblock h' ob = [VPtr (HPtr ib 0)] ->
              hblock h' ib = [VInt (cw 64 false (k_tc k + 1)); VInt (k_fc k); VInt (k_total k); VInt t0; VInt (k_gexec k);
                              VInt (sh_group t); VPtr hd; VPtr (HPtr (length h) 0); k_filev k; VInt (k_pkg k); VInt (k_out k)] ->
              hblock h' b = node_cells c (HPtr (length h) 0) ->
              hblock h' (length h) = node_cells (started_node t w) HNull ->
              cjunit_at h' ob ib ((bs' ++ [b]) ++ [length h])
                (k_with k (k_nodes k ++ [started_node t w]) (cw 64 false (k_tc k + 1)) (k_fc k) (k_total k) t0 (k_gexec k) (sh_group t))).
    { intros h' L' Hfr Ho Hi Hbb Hn. split; [exact Ho|]. exists hd. rewrite tail_ptr_snoc. split; [exact Hi|]. cbn [k_with k_nodes].
      split; [|split].
      - rewrite Hk. apply (jchain_append h h' cs hd bs' b c); [exact Hch | exact Hl | | exact Hbb | exact Hn | exact I].
        intros x Hin. assert (Hx : In x ((bs' ++ [b]) ++ fblocks (k_nodes k))).
        { rewrite Hk. apply in_app_or in Hin. apply in_or_app. destruct Hin as [Hin|Hin]; [|right; exact Hin].
          left. apply in_or_app. left. exact Hin. }
        apply Hfr.
        + apply Hlt. right. right. exact Hx.
        + intro E. subst x. apply N3. exact Hx.
        + intro E. subst x. apply N10. rewrite Hk. exact Hin.
      - apply jblocks_nodup_add; [reflexivity | exact Hnd | exact Hnew_nin].
      - apply Forall_forall. intros x Hin. apply jblocks_in_add in Hin; [|reflexivity]. destruct Hin as [->|Hin]; [lia|].
        apply Hlt in Hin. lia. }
    destruct (z2b (c_lnot w)) eqn:Ew.
    + hs_lds. hs_st h10. cbn [finish]. repeat (split; [reflexivity|]). split; [|split; [lia|]].
      * apply Fin; [lia | | hb | hb | hb |].
        -- intros b' L Hb1 Hb2. rewrite (F7 b' ltac:(lia)). apply FF; assumption.
        -- unfold started_node, node_cells. cbn [c_name c_exec c_fail c_ign c_file c_line c_cc fptr]. rewrite Ew. hb.
      * intros b0 L Hn. rewrite (F7 b0 ltac:(lia)). apply FF; [exact L | |].
        -- intro E. subst b0. apply Hn. right. left. reflexivity.
        -- intro E. subst b0. apply Hn. right. right. apply in_or_app. left. apply in_snoc.
    + cbn [finish]. repeat (split; [reflexivity|]). split; [|split; [lia|]].
      * apply Fin; [lia | exact FF | hb | hb | hb |].
        unfold started_node, node_cells. cbn [c_name c_exec c_fail c_ign c_file c_line c_cc fptr]. rewrite Ew. hb.
      * intros b0 L Hn. apply FF; [exact L | |].
        -- intro E. subst b0. apply Hn. right. left. reflexivity.
        -- intro E. subst b0. apply Hn. right. right. apply in_or_app. left. apply in_snoc.
Qed.

(* ------------------------------------------------------------------ resetTestGroupResult *)
(* delete cur->failure_ (NULL when the test did not fail: `delete` of a null pointer), then delete cur *)
Definition reset_events (bs : list nat) (cs : list cnode) : list hev :=
  flat_map (fun bc => [JDelete (fptr (c_fail (snd bc))); JDelete (HPtr (fst bc) 0)]) (combine bs cs).

Lemma reset_loop fuel0 nx times willruns timestr h : forall cs p bs fuel evs, jchain h p bs cs -> (length cs < fuel)%nat ->
  src_junit_resetTestGroupResult_loop1 fuel0 fuel h evs nx times willruns timestr p =
  Go (h, evs ++ reset_events bs cs, nx, times, willruns, timestr, HNull).
Proof.
  induction cs as [|c cs IH]; intros p bs fuel evs Hch Hf.
  - apply jchain_nil_inv in Hch. destruct Hch as [-> ->]. destruct fuel as [|fuel]; [cbn in Hf; lia|].
    cbn [src_junit_resetTestGroupResult_loop1]. rewrite t_bool_null. cbn [reset_events combine flat_map]. rewrite app_nil_r. reflexivity.
  - apply jchain_cons_inv in Hch. destruct Hch as [b [bs' [nxt [-> [-> [Hfo [Hb Hc]]]]]]].
    destruct fuel as [|fuel]; [cbn in Hf; lia|]. cbn [src_junit_resetTestGroupResult_loop1]. rewrite t_bool_ptr. cbv beta iota zeta.
    hs_lds. rewrite (IH nxt bs' fuel _ Hc ltac:(cbn in Hf; lia)). unfold reset_events. cbn [combine flat_map fst snd].
    rewrite <- !app_assoc. reflexivity.
Qed.

Lemma reset_m fuel0 times willruns timestr h ob ib bs k evs nx :
  cjunit_at h ob ib bs k -> (length (k_nodes k) < fuel0)%nat ->
  fpost (src_junit_resetTestGroupResult fuel0 h evs nx times willruns timestr (HPtr ob 0))
    (fun '(u, h', evs', nx', tm', wr', ts') =>
       evs' = evs ++ reset_events bs (k_nodes k) /\ nx' = nx /\ tm' = times /\ wr' = willruns /\ ts' = timestr /\
       cjunit_at h' ob ib [] (k_with k [] 0 0 (k_total k) (k_start k) (k_gexec k) 0) /\
       length h' = length h /\ (forall b, b <> ib -> hblock h' b = hblock h b)).
Proof.
  intros [Hob [hd [Hib [Hch [Hnd Hlt]]]]] Hf.
  unfold src_junit_resetTestGroupResult, fpost.
  destruct (jblocks_facts _ _ _ _ Hnd) as [N1 [N2 [N3 N4]]].
  rewrite Forall_forall in Hlt.
  assert (Li : (ib < length h)%nat). { apply Hlt. right. left. reflexivity. }
  assert (Lo : (ob < length h)%nat). { apply Hlt. left. reflexivity. }
  hs_lds. hs_st h1. hs_lds. hs_st h2. hs_lds. hs_st h3. hs_lds.
  assert (FF3 : forall b', b' <> ib -> hblock h3 b' = hblock h b').
  { intros b' Hb. rewrite (F1 b' Hb), (F0 b' Hb). exact (F b' Hb). }
  assert (Hch3 : jchain h3 hd bs (k_nodes k)).
  { apply (jchain_frame h); [|exact Hch]. intros x Hin. apply FF3. intro E. subst x. exact (N3 Hin). }
  rewrite (reset_loop fuel0 nx times willruns timestr h3 _ _ _ fuel0 evs Hch3 Hf). cbv beta iota zeta.
  hs_lds. hs_st h4. hs_lds. hs_st h5. cbn [finish].
  repeat (split; [reflexivity|]). split; [|split; [lia|]].
  - split; [hb|]. exists HNull. split; [hb|]. cbn [k_with k_nodes]. split; [reflexivity|]. split.
    + unfold jblocks. cbn [app fblocks flat_map]. constructor; [intros [E|[]]; exact (N1 (eq_sym E))|]. constructor; [intros []|constructor].
    + apply Forall_forall. intros x [<-|[<-|[]]]; lia.
  - intros b Hb. rewrite (F3 b Hb), (F2 b Hb). exact (FF3 b Hb).
Qed.

(* ------------------------------------------------------------------ the writers: their events as functions of the concrete state *)
Import String.StringSyntax.
Delimit Scope string_scope with string.
Definition NL (s : String.string) : String.string := String.append s (String.String (Ascii.ascii_of_nat 10) String.EmptyString).
Definition s_xml : String.string := NL "<?xml version=""1.0"" encoding=""UTF-8"" ?>"%string.
Definition fmt_suite : String.string :=
  NL "<testsuite errors=""0"" failures=""%d"" hostname=""localhost"" name=""%s"" tests=""%d"" time=""%d.%03d"" timestamp=""%s"">"%string.
Definition fmt_case : String.string :=
  NL "<testcase classname=""%s%s%s"" name=""%s"" assertions=""%d"" time=""%d.%03d"" file=""%s"" line=""%d"">"%string.
Definition fmt_fail : String.string := NL "<failure message=""%s:%d: %s"" type=""AssertionFailedError"">"%string.

Definition ev_header : list hev := [JWrite (JLit s_xml)].
Definition ev_summary (k : cstate) (timestr nx : Z) : list hev :=
  [JFormat nx fmt_suite
     [JNum (cw 32 true (k_fc k)); JEnc (k_group k); JNum (cw 32 true (k_tc k));
      JNum (cw 32 true (cw 64 false (c_div (k_gexec k) 1000))); JNum (cw 32 true (cw 64 false (c_rem (k_gexec k) 1000)));
      JEnc timestr];
   JWrite (JTxt nx)].
Definition ev_props : list hev := [JWrite (JLit (NL "<properties>"%string)); JWrite (JLit (NL "</properties>"%string))].
Definition ev_failure (f : cfail) (nx : Z) : list hev :=
  [JFormat nx fmt_fail [JEnc (cf_file f); JNum (cw 32 true (cf_line f)); JEnc (cf_msg f)]; JWrite (JTxt nx);
   JWrite (JLit (NL "</failure>"%string))].
(* one iteration of writeTestCases: total = totalCheckCount_ when the iteration starts *)
Definition ev_case (te : Z -> Z) (pkg group total nx : Z) (c : cnode) : list hev :=
  [JFormat nx fmt_case
     [JEnc pkg; JLit (if z2b (te pkg) then ""%string else "."%string); JEnc group; JEnc (c_name c);
      JNum (cw 32 true (cw 64 false (c_cc c - total)));
      JNum (cw 32 true (cw 64 false (c_div (c_exec c) 1000))); JNum (cw 32 true (cw 64 false (c_rem (c_exec c) 1000)));
      JEnc (c_file c); JNum (cw 32 true (c_line c))];
   JWrite (JTxt nx)] ++
  match c_fail c with
  | Some (_, f) => ev_failure f (nx + 1)
  | None => if c_ign c then [JWrite (JLit (NL "<skipped />"%string))] else []
  end ++
  [JWrite (JLit (NL "</testcase>"%string))].
Definition case_nx (nx : Z) (c : cnode) : Z := match c_fail c with Some _ => nx + 1 + 1 | None => nx + 1 end.
Fixpoint ev_cases (te : Z -> Z) (pkg group total nx : Z) (cs : list cnode) : list hev :=
  match cs with
  | [] => []
  | c :: r => ev_case te pkg group total nx c ++ ev_cases te pkg group (c_cc c) (case_nx nx c) r
  end.
Definition cases_nx (nx : Z) (cs : list cnode) : Z := fold_left case_nx cs nx.
Definition ev_ending (out : Z) : list hev :=
  [JWrite (JLit "<system-out>"%string); JWrite (JEnc out); JWrite (JLit (NL "</system-out>"%string));
   JWrite (JLit (NL "<system-err></system-err>"%string)); JWrite (JLit (NL "</testsuite>"%string))].
Definition ev_group (te : Z -> Z) (k : cstate) (timestr nx : Z) : list hev :=
  [JOpen (k_group k)] ++ ev_header ++ ev_summary k timestr nx ++ ev_props ++
  ev_cases te (k_pkg k) (k_group k) (k_total k) (nx + 1) (k_nodes k) ++ ev_ending (k_out k) ++ [JClose].

Lemma write_header fuel0 h evs nx times willruns timestr p :
  src_junit_writeXmlHeader fuel0 h evs nx times willruns timestr p = FOk (tt, h, evs ++ ev_header, nx, times, willruns, timestr).
Proof. reflexivity. Qed.
Lemma write_props fuel0 h evs nx times willruns timestr p :
  src_junit_writeProperties fuel0 h evs nx times willruns timestr p = FOk (tt, h, evs ++ ev_props, nx, times, willruns, timestr).
Proof. unfold src_junit_writeProperties, ev_props. cbn [finish]. rewrite <- app_assoc. reflexivity. Qed.

Lemma write_summary fuel0 h ob ib k hd tl evs nx times willruns timestr :
  hblock h ob = [VPtr (HPtr ib 0)] -> hblock h ib = impl_cells k hd tl ->
  src_junit_writeTestSuiteSummary fuel0 h evs nx times willruns timestr (HPtr ob 0) =
  FOk (tt, h, evs ++ ev_summary k timestr nx, nx + 1, times, willruns, timestr).
Proof.
  intros Hob Hib. unfold src_junit_writeTestSuiteSummary. hs_lds. cbn [finish]. unfold ev_summary. rewrite <- app_assoc. reflexivity.
Qed.

Lemma write_ending fuel0 h ob ib k hd tl evs nx times willruns timestr :
  hblock h ob = [VPtr (HPtr ib 0)] -> hblock h ib = impl_cells k hd tl ->
  src_junit_writeFileEnding fuel0 h evs nx times willruns timestr (HPtr ob 0) =
  FOk (tt, h, evs ++ ev_ending (k_out k), nx, times, willruns, timestr).
Proof.
  intros Hob Hib. unfold src_junit_writeFileEnding. cbv zeta. hs_lds. cbn [finish]. unfold ev_ending. rewrite <- !app_assoc. reflexivity.
Qed.

Lemma write_failure fuel0 h b c nxt fb f evs nx times willruns timestr p :
  hblock h b = node_cells c nxt -> c_fail c = Some (fb, f) -> hblock h fb = fail_cells f ->
  src_junit_writeFailure fuel0 h evs nx times willruns timestr p (HPtr b 0) =
  FOk (tt, h, evs ++ ev_failure f nx, nx + 1, times, willruns, timestr).
Proof.
  intros Hb Hcf Hfb. unfold src_junit_writeFailure. unfold node_cells in Hb. rewrite Hcf in Hb. cbn [fptr] in Hb.
  hs_lds. cbn [finish]. unfold ev_failure. rewrite <- !app_assoc. reflexivity.
Qed.

(* the loop of writeTestCases: each iteration stores the node's checkCount_ into totalCheckCount_ *)
Lemma cases_loop_m te fuel0 times willruns timestr ob ib hd tl : ob <> ib -> forall cs h k p bs fuel evs nx,
  hblock h ob = [VPtr (HPtr ib 0)] -> hblock h ib = impl_cells k hd tl -> jchain h p bs cs -> ~ In ib (bs ++ fblocks cs) ->
  (ib < length h)%nat -> (length cs < fuel)%nat ->
  cpost (src_junit_writeTestCases_loop1 te fuel0 fuel (HPtr ob 0) h evs nx times willruns timestr p)
    (fun '(h', evs', nx', tm', wr', ts', cur') =>
       evs' = evs ++ ev_cases te (k_pkg k) (k_group k) (k_total k) nx cs /\ nx' = cases_nx nx cs /\ tm' = times /\ wr' = willruns /\
       ts' = timestr /\ cur' = HNull /\
       hblock h' ib = impl_cells (k_with k (k_nodes k) (k_tc k) (k_fc k) (last_cc (k_total k) cs) (k_start k) (k_gexec k) (k_group k)) hd tl /\
       length h' = length h /\ (forall b, b <> ib -> hblock h' b = hblock h b)).
Proof.
  intros N1. induction cs as [|c cs IH]; intros h k p bs fuel evs nx Hob Hib Hch Hni Li Hf.
  - apply jchain_nil_inv in Hch. destruct Hch as [-> ->]. destruct fuel as [|fuel]; [cbn in Hf; lia|].
    cbn [src_junit_writeTestCases_loop1]. rewrite t_bool_null. cbn [cpost ev_cases cases_nx fold_left last_cc]. rewrite app_nil_r.
    repeat (split; [reflexivity|]). split; [exact Hib|]. split; [reflexivity|]. intros; reflexivity.
  - apply jchain_cons_inv in Hch. destruct Hch as [b [bs' [nxt [-> [-> [Hfo [Hb Hc]]]]]]].
    destruct fuel as [|fuel]; [cbn in Hf; lia|]. cbn [src_junit_writeTestCases_loop1]. rewrite t_bool_ptr. cbv beta iota zeta.
    assert (N2 : b <> ib). { intro E. apply Hni. subst. left. reflexivity. }
    assert (Hni' : ~ In ib (bs' ++ fblocks cs)).
    { intro Hin. apply Hni. cbn [app]. right. apply in_app_or in Hin. apply in_or_app. destruct Hin as [Hin|Hin]; [left; exact Hin|].
      right. unfold fblocks. cbn [flat_map]. apply in_or_app. right. exact Hin. }
    hs_lds. hs_st h1. hs_lds.
    set (k1 := k_with k (k_nodes k) (k_tc k) (k_fc k) (c_cc c) (k_start k) (k_gexec k) (k_group k)).
    assert (Hib1 : hblock h1 ib = impl_cells k1 hd tl) by hb.
    assert (Hch1 : jchain h1 nxt bs' cs).
    { apply (jchain_frame h); [|exact Hc]. intros x Hin. apply F. intro E. subst x. exact (Hni' Hin). }
    assert (Hob1 : hblock h1 ob = [VPtr (HPtr ib 0)]) by hb.
    assert (Post : forall evs1 nx1, evs1 = evs ++ ev_case te (k_pkg k) (k_group k) (k_total k) nx c -> nx1 = case_nx nx c ->
      cpost (src_junit_writeTestCases_loop1 te fuel0 fuel (HPtr ob 0) h1 evs1 nx1 times willruns timestr nxt)
        (fun '(h', evs', nx', tm', wr', ts', cur') =>
           evs' = evs ++ ev_cases te (k_pkg k) (k_group k) (k_total k) nx (c :: cs) /\ nx' = cases_nx nx (c :: cs) /\ tm' = times /\
           wr' = willruns /\ ts' = timestr /\ cur' = HNull /\
           hblock h' ib = impl_cells (k_with k (k_nodes k) (k_tc k) (k_fc k) (last_cc (k_total k) (c :: cs)) (k_start k) (k_gexec k)
                                        (k_group k)) hd tl /\
           length h' = length h /\ (forall b, b <> ib -> hblock h' b = hblock h b))).
    { intros evs1 nx1 -> ->.
      apply (cpost_mono _ _ _ (IH h1 k1 nxt bs' fuel _ _ Hob1 Hib1 Hch1 Hni' ltac:(lia) ltac:(cbn in Hf; lia))).
      intros [[[[[[h' evs'] nx'] tm'] wr'] ts'] cur']. cbn [k1 k_with k_pkg k_group k_total k_nodes k_tc k_fc k_start k_gexec].
      intros [-> [-> [-> [-> [-> [-> [Hi [Ll Fr]]]]]]]]. cbn [ev_cases cases_nx fold_left last_cc]. rewrite <- app_assoc.
      repeat (split; [reflexivity|]). split; [exact Hi|]. split; [lia|]. intros b0 Hb0. rewrite (Fr b0 Hb0). exact (F b0 Hb0). }
    destruct (c_fail c) as [[fb f]|] eqn:Hcf.
    + (* the test failed *)
      cbn [fptr]. rewrite t_bool_ptr. cbv beta iota zeta.
      assert (Hfb1 : hblock h1 fb = fail_cells f).
      { unfold fail_ok in Hfo. rewrite Hcf in Hfo. rewrite F; [exact Hfo|]. intro E. subst fb. apply Hni. cbn [app]. right.
        apply in_or_app. right. unfold fblocks. cbn [flat_map]. unfold fblock at 1. rewrite Hcf. left. reflexivity. }
      assert (Hb1 : hblock h1 b = node_cells c nxt).
      { hb. }
      rewrite (write_failure fuel0 h1 b c nxt fb f _ _ times willruns timestr (HPtr ob 0) Hb1 Hcf Hfb1). cbv beta iota zeta.
      hs_lds. apply Post.
      * unfold ev_case. rewrite Hcf. rewrite <- !app_assoc. reflexivity.
      * unfold case_nx. rewrite Hcf. reflexivity.
    + cbn [fptr]. rewrite t_bool_null. cbv beta iota zeta. hs_lds. destruct (c_ign c) eqn:Hig.
      * (* ignored *)
        cbn [b2z]. change (z2b 1) with true. cbv beta iota zeta. hs_lds. apply Post.
        -- unfold ev_case. rewrite Hcf, Hig. rewrite <- !app_assoc. reflexivity.
        -- unfold case_nx. rewrite Hcf. reflexivity.
      * cbn [b2z]. change (z2b 0) with false. cbv beta iota zeta. hs_lds. apply Post.
        -- unfold ev_case. rewrite Hcf, Hig. rewrite <- !app_assoc. reflexivity.
        -- unfold case_nx. rewrite Hcf. reflexivity.
Qed.

(* a store into the impl block that leaves head_, tail_ and the nodes alone *)
Lemma cj_impl_update h h' ob ib bs k k' :
  cjunit_at h ob ib bs k -> (forall b, b <> ib -> hblock h' b = hblock h b) -> length h' = length h -> k_nodes k' = k_nodes k ->
  (forall hd, hblock h ib = impl_cells k hd (tail_ptr bs) -> hblock h' ib = impl_cells k' hd (tail_ptr bs)) ->
  cjunit_at h' ob ib bs k'.
Proof.
  intros [Hob [hd [Hib [Hch [Hnd Hlt]]]]] Fr Ll Hn Hi. destruct (jblocks_facts _ _ _ _ Hnd) as [N1 [N2 [N3 N4]]].
  split; [rewrite (Fr ob N1); exact Hob|]. exists hd. split; [exact (Hi hd Hib)|]. rewrite Hn, Ll. split; [|split; assumption].
  apply (jchain_frame h); [|exact Hch]. intros x Hin. apply Fr. intro E. subst x. exact (N3 Hin).
Qed.

Lemma write_cases_m te fuel0 times willruns timestr h ob ib bs k evs nx :
  cjunit_at h ob ib bs k -> (length (k_nodes k) < fuel0)%nat ->
  fpost (src_junit_writeTestCases te fuel0 h evs nx times willruns timestr (HPtr ob 0))
    (fun '(u, h', evs', nx', tm', wr', ts') =>
       evs' = evs ++ ev_cases te (k_pkg k) (k_group k) (k_total k) nx (k_nodes k) /\ nx' = cases_nx nx (k_nodes k) /\ tm' = times /\
       wr' = willruns /\ ts' = timestr /\
       cjunit_at h' ob ib bs (k_with k (k_nodes k) (k_tc k) (k_fc k) (last_cc (k_total k) (k_nodes k)) (k_start k) (k_gexec k) (k_group k)) /\
       length h' = length h /\ (forall b, b <> ib -> hblock h' b = hblock h b)).
Proof.
  intros Hcj Hf. pose proof Hcj as [Hob [hd [Hib [Hch [Hnd Hlt]]]]].
  unfold src_junit_writeTestCases, fpost.
  destruct (jblocks_facts _ _ _ _ Hnd) as [N1 [N2 [N3 N4]]].
  rewrite Forall_forall in Hlt. assert (Li : (ib < length h)%nat). { apply Hlt. right. left. reflexivity. }
  hs_lds.
  pose proof (cases_loop_m te fuel0 times willruns timestr ob ib hd (tail_ptr bs) N1 (k_nodes k) h k hd bs fuel0 evs nx Hob Hib Hch N3 Li Hf)
    as HL.
  destruct (src_junit_writeTestCases_loop1 te fuel0 fuel0 (HPtr ob 0) h evs nx times willruns timestr hd)
    as [[[[[[[h' evs'] nx'] tm'] wr'] ts'] cur']| | |]; cbn [cpost] in HL; try contradiction.
  destruct HL as [-> [-> [-> [-> [-> [-> [Hi [Ll Fr]]]]]]]]. cbn [finish].
  repeat (split; [reflexivity|]). split; [|split; [exact Ll | exact Fr]].
  apply (cj_impl_update h h' ob ib bs k); [exact Hcj | exact Fr | exact Ll | reflexivity|].
  intros hd' Hib'. rewrite Hib in Hib'. injection Hib' as <-. exact Hi.
Qed.
Lemma write_cases te fuel0 times willruns timestr h ob ib bs k evs nx :
  cjunit_at h ob ib bs k -> (length (k_nodes k) < fuel0)%nat ->
  exists h', src_junit_writeTestCases te fuel0 h evs nx times willruns timestr (HPtr ob 0) =
             FOk (tt, h', evs ++ ev_cases te (k_pkg k) (k_group k) (k_total k) nx (k_nodes k), cases_nx nx (k_nodes k), times, willruns,
                  timestr) /\
    cjunit_at h' ob ib bs (k_with k (k_nodes k) (k_tc k) (k_fc k) (last_cc (k_total k) (k_nodes k)) (k_start k) (k_gexec k) (k_group k)) /\
    length h' = length h /\ (forall b, b <> ib -> hblock h' b = hblock h b).
Proof. intros H1 H2. apply fpost_tuple. exact (write_cases_m te fuel0 times willruns timestr h ob ib bs k evs nx H1 H2). Qed.

(* writeTestGroupToFile *)
Theorem write_group_to_file te fuel0 times willruns timestr h ob ib bs k evs nx :
  cjunit_at h ob ib bs k -> (length (k_nodes k) < fuel0)%nat ->
  exists h', src_junit_writeTestGroupToFile te fuel0 h evs nx times willruns timestr (HPtr ob 0) =
             FOk (tt, h', evs ++ ev_group te k timestr nx, cases_nx (nx + 1) (k_nodes k), times, willruns, timestr) /\
    cjunit_at h' ob ib bs (k_with k (k_nodes k) (k_tc k) (k_fc k) (last_cc (k_total k) (k_nodes k)) (k_start k) (k_gexec k) (k_group k)) /\
    length h' = length h /\ (forall b, b <> ib -> hblock h' b = hblock h b).
Proof.
  intros Hcj Hf. pose proof Hcj as [Hob [hd [Hib _]]]. unfold src_junit_writeTestGroupToFile.
  hs_lds. rewrite write_header. cbv beta iota zeta. rewrite (write_summary fuel0 h ob ib k hd (tail_ptr bs) _ _ _ _ _ Hob Hib).
  cbv beta iota zeta. rewrite write_props. cbv beta iota zeta.
  destruct (write_cases te fuel0 times willruns timestr h ob ib bs k
              ((((evs ++ [JOpen (k_group k)]) ++ ev_header) ++ ev_summary k timestr nx) ++ ev_props) (nx + 1) Hcj Hf)
    as [h' [E [Hcj' [Ll Fr]]]].
  rewrite E. cbv beta iota zeta. pose proof Hcj' as [Hob' [hd' [Hib' _]]].
  rewrite (write_ending fuel0 h' ob ib _ hd' (tail_ptr bs) _ _ _ _ _ Hob' Hib'). cbv beta iota zeta. cbn [finish].
  exists h'. split; [|split; [exact Hcj' | split; [exact Ll | exact Fr]]].
  unfold ev_group. cbn [k_with k_out]. rewrite <- !app_assoc. reflexivity.
Qed.

(* printCurrentGroupEnded: groupExecTime_ is set, the file is written, the results are reset (totalCheckCount_ keeps the count of the
   last node written) *)
Definition k_gx (k : cstate) (gx : Z) : cstate := k_with k (k_nodes k) (k_tc k) (k_fc k) (k_total k) (k_start k) gx (k_group k).
Theorem group_ended te fuel0 times willruns timestr h ob ib bs k rb r evs nx :
  cjunit_at h ob ib bs k -> (length (k_nodes k) < fuel0)%nat -> hblock h rb = tr_cells r -> rb <> ib ->
  exists h', src_junit_printCurrentGroupEnded te fuel0 h evs nx times willruns timestr (HPtr ob 0) (HPtr rb 0) =
             FOk (tt, h', evs ++ ev_group te (k_gx k (tr_group_ms r)) timestr nx ++ reset_events bs (k_nodes k),
                  cases_nx (nx + 1) (k_nodes k), times, willruns, timestr) /\
    cjunit_at h' ob ib [] (k_with k [] 0 0 (last_cc (k_total k) (k_nodes k)) (k_start k) (tr_group_ms r) 0) /\
    length h' = length h /\ (forall b, b <> ib -> hblock h' b = hblock h b).
Proof.
  intros Hcj Hf Hrb Nr. pose proof Hcj as [Hob [hd [Hib [_ [Hnd Hlt]]]]]. unfold src_junit_printCurrentGroupEnded.
  rewrite Forall_forall in Hlt. assert (Li : (ib < length h)%nat). { apply Hlt. right. left. reflexivity. }
  assert (Hsave : id (hblock h ib = impl_cells k hd (tail_ptr bs))) by exact Hib.
  hs_lds. hs_st h1. unfold id in Hsave.
  assert (Hcj1 : cjunit_at h1 ob ib bs (k_gx k (tr_group_ms r))).
  { apply (cj_impl_update h h1 ob ib bs k); [exact Hcj | exact F | exact Ln | reflexivity|].
    intros hd' Hib'. rewrite Hsave in Hib'. injection Hib' as <-. hb. }
  destruct (write_group_to_file te fuel0 times willruns timestr h1 ob ib bs _ evs nx Hcj1 Hf) as [h2 [E2 [Hcj2 [L2 F2]]]].
  rewrite E2. cbv beta iota zeta.
  destruct (fpost_tuple _ _ _ _ _ _ _ (reset_m fuel0 times willruns timestr h2 ob ib bs _
              (evs ++ ev_group te (k_gx k (tr_group_ms r)) timestr nx) (cases_nx (nx + 1) (k_nodes (k_gx k (tr_group_ms r)))) Hcj2 Hf))
    as [h3 [E3 [Hcj3 [L3 F3]]]].
  rewrite E3. cbv beta iota zeta. cbn [finish].
  exists h3. split; [rewrite <- app_assoc; reflexivity|]. split; [exact Hcj3|]. split; [lia|].
  intros b Hb. rewrite (F3 b Hb), (F2 b Hb). exact (F b Hb).
Qed.

(* ------------------------------------------------------------------ Part 1 in existential form *)
Theorem test_started fuel0 t0 times w willruns timestr h ob ib bs k tb t evs nx :
  cjunit_at h ob ib bs k -> hblock h tb = shell_cells t -> ~ In tb (jblocks ob ib bs (k_nodes k)) ->
  exists h', src_junit_printCurrentTestStarted fuel0 h evs nx (t0 :: times) (w :: willruns) timestr (HPtr ob 0) (HPtr tb 0) =
             FOk (tt, h', evs ++ [JNew (HPtr (length h) 0)], nx, times, willruns, timestr) /\
    cjunit_at h' ob ib (bs ++ [length h])
      (k_with k (k_nodes k ++ [started_node t w]) (cw 64 false (k_tc k + 1)) (k_fc k) (k_total k) t0 (k_gexec k) (sh_group t)) /\
    length h' = S (length h) /\
    (forall b, (b < length h)%nat -> ~ In b (jblocks ob ib bs (k_nodes k)) -> hblock h' b = hblock h b).
Proof. intros H1 H2 H3. apply fpost_tuple. exact (started_m fuel0 t0 times w willruns timestr h ob ib bs k tb t evs nx H1 H2 H3). Qed.
Theorem test_ended fuel0 times willruns timestr h ob ib bs k cs c rb r evs nx :
  cjunit_at h ob ib bs k -> k_nodes k = cs ++ [c] -> hblock h rb = tr_cells r -> ~ In rb (jblocks ob ib bs (k_nodes k)) ->
  exists h', src_junit_printCurrentTestEnded fuel0 h evs nx times willruns timestr (HPtr ob 0) (HPtr rb 0) =
             FOk (tt, h', evs, nx, times, willruns, timestr) /\
    cjunit_at h' ob ib bs (k_with k (cs ++ [c_with c (tr_test_ms r) (c_fail c) (tr_checks r)])
                             (k_tc k) (k_fc k) (k_total k) (k_start k) (k_gexec k) (k_group k)) /\
    length h' = length h /\ (forall b, ~ In b (jblocks ob ib bs (k_nodes k)) -> hblock h' b = hblock h b).
Proof. intros H1 H2 H3 H4. apply fpost_tuple. exact (ended_m fuel0 times willruns timestr h ob ib bs k cs c rb r evs nx H1 H2 H3 H4). Qed.
Theorem failure_first fuel0 times willruns timestr h ob ib bs k cs c fb0 f evs nx :
  cjunit_at h ob ib bs k -> k_nodes k = cs ++ [c] -> c_fail c = None ->
  hblock h fb0 = fail_cells f -> ~ In fb0 (jblocks ob ib bs (k_nodes k)) ->
  exists h', src_junit_printFailure fuel0 h evs nx times willruns timestr (HPtr ob 0) (HPtr fb0 0) =
             FOk (tt, h', evs ++ [JNew (HPtr (length h) 0)], nx, times, willruns, timestr) /\
    cjunit_at h' ob ib bs (k_with k (cs ++ [c_with c (c_exec c) (Some (length h, f)) (c_cc c)])
                             (k_tc k) (cw 64 false (k_fc k + 1)) (k_total k) (k_start k) (k_gexec k) (k_group k)) /\
    length h' = S (length h) /\ hblock h' (length h) = fail_cells f /\
    (forall b, (b < length h)%nat -> ~ In b (jblocks ob ib bs (k_nodes k)) -> hblock h' b = hblock h b).
Proof.
  intros H1 H2 H3 H4 H5. apply fpost_tuple. exact (failure_first_m fuel0 times willruns timestr h ob ib bs k cs c fb0 f evs nx H1 H2 H3 H4 H5).
Qed.
Theorem reset_group fuel0 times willruns timestr h ob ib bs k evs nx :
  cjunit_at h ob ib bs k -> (length (k_nodes k) < fuel0)%nat ->
  exists h', src_junit_resetTestGroupResult fuel0 h evs nx times willruns timestr (HPtr ob 0) =
             FOk (tt, h', evs ++ reset_events bs (k_nodes k), nx, times, willruns, timestr) /\
    cjunit_at h' ob ib [] (k_with k [] 0 0 (k_total k) (k_start k) (k_gexec k) 0) /\
    length h' = length h /\ (forall b, b <> ib -> hblock h' b = hblock h b).
Proof. intros H1 H2. apply fpost_tuple. exact (reset_m fuel0 times willruns timestr h ob ib bs k evs nx H1 H2). Qed.

(* ================================================================== Part 2: the events read as a file *)
(* the file of a group as a tree in the model's vocabulary (C16_Model.ptree), for arbitrary execution times and numbers: the
   numbers are the (int) casts the code makes, "%d.%03d" of s and ms is sdec s ++ "." ++ sdec03 ms *)
Definition time_attr (e : Z) : bytes :=
  sdec (cw 32 true (cw 64 false (c_div e 1000))) ++ [46%N] ++ sdec03 (cw 32 true (cw 64 false (c_rem e 1000))).
Definition fail_attrs_c (txt : Z -> bytes) (f : cfail) : list (bytes * list seg) :=
  [(L_message, [Esc (txt (cf_file f)); Raw [58%N]; Raw (sdec (cw 32 true (cf_line f))); Raw [58%N; 32%N]; Esc (txt (cf_msg f))]);
   (L_type, [Raw L_AssertionFailedError])].
Definition failure_ptree_c (txt : Z -> bytes) (f : cfail) : ptree := PElem L_failure (fail_attrs_c txt f) false [nl].
Definition case_attrs_c (txt : Z -> bytes) (te : Z -> Z) (pkg group total : Z) (c : cnode) : list (bytes * list seg) :=
  [(L_classname, [Esc (txt pkg); Raw (B (if z2b (te pkg) then ""%string else "."%string)); Esc (txt group)]);
   (L_name, [Esc (txt (c_name c))]); (L_assertions, [Raw (sdec (cw 32 true (cw 64 false (c_cc c - total))))]);
   (L_time, [Raw (time_attr (c_exec c))]); (L_file, [Esc (txt (c_file c))]); (L_line, [Raw (sdec (cw 32 true (c_line c)))])].
Definition case_ptrees_c (txt : Z -> bytes) (te : Z -> Z) (pkg group total : Z) (c : cnode) : list ptree :=
  [PElem L_testcase (case_attrs_c txt te pkg group total c) false
     (nl :: match c_fail c with
            | Some (_, f) => [failure_ptree_c txt f; nl]
            | None => if c_ign c then [PElem L_skipped [] true []; nl] else []
            end);
   nl].
Fixpoint cases_ptrees_c (txt : Z -> bytes) (te : Z -> Z) (pkg group total : Z) (cs : list cnode) : list ptree :=
  match cs with
  | [] => []
  | c :: r => case_ptrees_c txt te pkg group total c ++ cases_ptrees_c txt te pkg group (c_cc c) r
  end.
Definition suite_attrs_c (txt : Z -> bytes) (k : cstate) (timestr : Z) : list (bytes * list seg) :=
  [(L_errors, [Raw [48%N]]); (L_failures, [Raw (sdec (cw 32 true (k_fc k)))]); (L_hostname, [Raw L_localhost]);
   (L_name, [Esc (txt (k_group k))]); (L_tests, [Raw (sdec (cw 32 true (k_tc k)))]); (L_time, [Raw (time_attr (k_gexec k))]);
   (L_timestamp, [Esc (txt timestr)])].
Definition suite_ptree_c (txt : Z -> bytes) (te : Z -> Z) (k : cstate) (timestr : Z) : ptree :=
  PElem L_testsuite (suite_attrs_c txt k timestr) false
    ([nl; PElem L_properties [] false [nl]; nl] ++
     cases_ptrees_c txt te (k_pkg k) (k_group k) (k_total k) (k_nodes k) ++
     [PElem L_system_out [] false [PText [Esc (txt (k_out k))]]; nl; PElem L_system_err [] false []; nl]).
Definition group_file (txt : Z -> bytes) (te : Z -> Z) (k : cstate) (timestr : Z) : bytes :=
  L_xml_header ++ [10%N] ++ print encodeXmlText (suite_ptree_c txt te k timestr) ++ [10%N].

(* the three format strings, cut into pieces once *)
Lemma parse_suite : fmt_parse (B fmt_suite) 0 = ltac:(let r := eval vm_compute in (fmt_parse (B fmt_suite) 0) in exact r).
Proof. vm_compute. reflexivity. Qed.
Lemma parse_case : fmt_parse (B fmt_case) 0 = ltac:(let r := eval vm_compute in (fmt_parse (B fmt_case) 0) in exact r).
Proof. vm_compute. reflexivity. Qed.
Lemma parse_fail : fmt_parse (B fmt_fail) 0 = ltac:(let r := eval vm_compute in (fmt_parse (B fmt_fail) 0) in exact r).
Proof. vm_compute. reflexivity. Qed.

Ltac gen_flat := match goal with |- context [flat_map (attr_print encodeXmlText) ?l] => generalize (flat_map (attr_print encodeXmlText) l) end.

Lemma render_suite_tag txt d a g b s ms ts :
  fmt_render txt d fmt_suite [JNum a; JEnc g; JNum b; JNum s; JNum ms; JEnc ts] =
  [60%N] ++ L_testsuite ++ flat_map (attr_print encodeXmlText)
     [(L_errors, [Raw [48%N]]); (L_failures, [Raw (sdec a)]); (L_hostname, [Raw L_localhost]); (L_name, [Esc (txt g)]);
      (L_tests, [Raw (sdec b)]); (L_time, [Raw (sdec s ++ [46%N] ++ sdec03 ms)]); (L_timestamp, [Esc (txt ts)])] ++ [62%N; 10%N].
Proof.
  unfold fmt_render. rewrite parse_suite. cbn [fmt_fill arg_s arg_d arg_d03].
  cbn [flat_map]. unfold attr_print, segs_print. cbn [flat_map seg_print fst snd].
  generalize (sdec a) (encodeXmlText (txt g)) (sdec b) (sdec s) (sdec03 ms) (encodeXmlText (txt ts)). intros x1 x2 x3 x4 x5 x6.
  repeat rewrite <- app_assoc. cbn. reflexivity.
Qed.
Lemma render_case_tag txt d p dot g nm a s ms fl ln :
  fmt_render txt d fmt_case [JEnc p; JLit dot; JEnc g; JEnc nm; JNum a; JNum s; JNum ms; JEnc fl; JNum ln] =
  [60%N] ++ L_testcase ++ flat_map (attr_print encodeXmlText)
     [(L_classname, [Esc (txt p); Raw (B dot); Esc (txt g)]); (L_name, [Esc (txt nm)]); (L_assertions, [Raw (sdec a)]);
      (L_time, [Raw (sdec s ++ [46%N] ++ sdec03 ms)]); (L_file, [Esc (txt fl)]); (L_line, [Raw (sdec ln)])] ++ [62%N; 10%N].
Proof.
  unfold fmt_render. rewrite parse_case. cbn [fmt_fill arg_s arg_d arg_d03].
  cbn [flat_map]. unfold attr_print, segs_print. cbn [flat_map seg_print fst snd].
  generalize (encodeXmlText (txt p)) (B dot) (encodeXmlText (txt g)) (encodeXmlText (txt nm)) (sdec a) (sdec s) (sdec03 ms)
    (encodeXmlText (txt fl)) (sdec ln). intros x1 x2 x3 x4 x5 x6 x7 x8 x9.
  repeat rewrite <- app_assoc. cbn. reflexivity.
Qed.
Lemma render_fail_tag txt d f l m :
  fmt_render txt d fmt_fail [JEnc f; JNum l; JEnc m] =
  [60%N] ++ L_failure ++ flat_map (attr_print encodeXmlText)
     [(L_message, [Esc (txt f); Raw [58%N]; Raw (sdec l); Raw [58%N; 32%N]; Esc (txt m)]); (L_type, [Raw L_AssertionFailedError])] ++
  [62%N; 10%N].
Proof.
  unfold fmt_render. rewrite parse_fail. cbn [fmt_fill arg_s arg_d arg_d03].
  cbn [flat_map]. unfold attr_print, segs_print. cbn [flat_map seg_print fst snd].
  generalize (encodeXmlText (txt f)) (sdec l) (encodeXmlText (txt m)). intros x1 x2 x3.
  repeat rewrite <- app_assoc. cbn. reflexivity.
Qed.

(* reading events while a file is open *)
Definition fst_open (d : list (Z * bytes)) (g : Z) (acc : bytes) (dn : list (Z * bytes)) : fstate :=
  {| f_defs := d; f_cur := Some (g, acc); f_done := dn |}.
Lemma lookup_same id r d : lookup id ((id, r) :: d) = r.
Proof. unfold lookup. cbn [find fst]. rewrite Z.eqb_refl. reflexivity. Qed.
Lemma frun_cons txt s e r : frun txt s (e :: r) = frun txt (fstep txt s e) r. Proof. reflexivity. Qed.
Lemma frun_fw txt d g acc dn id fmt args rest :
  frun txt (fst_open d g acc dn) (JFormat id fmt args :: JWrite (JTxt id) :: rest) =
  frun txt (fst_open ((id, fmt_render txt d fmt args) :: d) g (acc ++ fmt_render txt d fmt args) dn) rest.
Proof. rewrite !frun_cons. cbn [fstep fst_open f_defs f_cur f_done arg_s]. rewrite lookup_same. reflexivity. Qed.
Lemma frun_wl txt d g acc dn s rest :
  frun txt (fst_open d g acc dn) (JWrite (JLit s) :: rest) = frun txt (fst_open d g (acc ++ B s) dn) rest.
Proof. reflexivity. Qed.
Lemma frun_we txt d g acc dn id rest :
  frun txt (fst_open d g acc dn) (JWrite (JEnc id) :: rest) = frun txt (fst_open d g (acc ++ encodeXmlText (txt id)) dn) rest.
Proof. reflexivity. Qed.
Lemma frun_nil txt s : frun txt s [] = s. Proof. reflexivity. Qed.

Lemma print_elem enc name attrs kids :
  print enc (PElem name attrs false kids) =
  [60%N] ++ name ++ flat_map (attr_print enc) attrs ++ [62%N] ++ flat_map (print enc) kids ++ [60%N; 47%N] ++ name ++ [62%N].
Proof. reflexivity. Qed.

Lemma fst_open_eq d g a a' dn : a = a' -> exists d', fst_open d g a dn = fst_open d' g a' dn.
Proof. intros ->. exists d. reflexivity. Qed.

Lemma render_case_tag' txt te d pkg group total c :
  fmt_render txt d fmt_case
     [JEnc pkg; JLit (if z2b (te pkg) then ""%string else "."%string); JEnc group; JEnc (c_name c);
      JNum (cw 32 true (cw 64 false (c_cc c - total)));
      JNum (cw 32 true (cw 64 false (c_div (c_exec c) 1000))); JNum (cw 32 true (cw 64 false (c_rem (c_exec c) 1000)));
      JEnc (c_file c); JNum (cw 32 true (c_line c))] =
  [60%N] ++ L_testcase ++ flat_map (attr_print encodeXmlText) (case_attrs_c txt te pkg group total c) ++ [62%N; 10%N].
Proof. apply render_case_tag. Qed.
Lemma render_fail_tag' txt d f :
  fmt_render txt d fmt_fail [JEnc (cf_file f); JNum (cw 32 true (cf_line f)); JEnc (cf_msg f)] =
  [60%N] ++ L_failure ++ flat_map (attr_print encodeXmlText) (fail_attrs_c txt f) ++ [62%N; 10%N].
Proof. apply render_fail_tag. Qed.
Lemma render_suite_tag' txt d k timestr :
  fmt_render txt d fmt_suite
     [JNum (cw 32 true (k_fc k)); JEnc (k_group k); JNum (cw 32 true (k_tc k));
      JNum (cw 32 true (cw 64 false (c_div (k_gexec k) 1000))); JNum (cw 32 true (cw 64 false (c_rem (k_gexec k) 1000)));
      JEnc timestr] =
  [60%N] ++ L_testsuite ++ flat_map (attr_print encodeXmlText) (suite_attrs_c txt k timestr) ++ [62%N; 10%N].
Proof. apply render_suite_tag. Qed.

Lemma fm_print_cons enc p l : flat_map (print enc) (p :: l) = print enc p ++ flat_map (print enc) l. Proof. reflexivity. Qed.
Lemma fm_print_nil enc : flat_map (print enc) [] = []. Proof. reflexivity. Qed.
Lemma print_nl enc : print enc nl = [10%N]. Proof. reflexivity. Qed.
Lemma print_text_esc enc s : print enc (PText [Esc s]) = enc s. Proof. cbn. apply app_nil_r. Qed.
Lemma print_skipped enc : print enc (PElem L_skipped [] true []) = [60%N] ++ L_skipped ++ [32%N; 47%N; 62%N]. Proof. reflexivity. Qed.

Lemma frun_case txt te pkg group total nx c d g acc dn :
  exists d', frun txt (fst_open d g acc dn) (ev_case te pkg group total nx c) =
             fst_open d' g (acc ++ flat_map (print encodeXmlText) (case_ptrees_c txt te pkg group total c)) dn.
Proof.
  unfold ev_case, case_ptrees_c.
  destruct (c_fail c) as [[fb f]|]; [|destruct (c_ign c)]; cbn [app ev_failure]; rewrite ?frun_fw, ?frun_wl, ?frun_nil;
    apply fst_open_eq; rewrite ?render_case_tag', ?render_fail_tag'; unfold failure_ptree_c;
    rewrite ?fm_print_cons, ?fm_print_nil, ?print_elem, ?fm_print_cons, ?fm_print_nil, ?print_elem, ?fm_print_cons, ?fm_print_nil,
      ?print_nl, ?print_skipped;
    generalize (flat_map (attr_print encodeXmlText) (case_attrs_c txt te pkg group total c)); intro X1.
  - generalize (flat_map (attr_print encodeXmlText) (fail_attrs_c txt f)); intro X2. generalize acc. clear. intro acc.
    repeat rewrite <- app_assoc. vm_compute. reflexivity.
  - generalize acc. clear. intro acc. repeat rewrite <- app_assoc. vm_compute. reflexivity.
  - generalize acc. clear. intro acc. repeat rewrite <- app_assoc. vm_compute. reflexivity.
Qed.

Lemma frun_cases txt te pkg group : forall cs total nx d g acc dn,
  exists d', frun txt (fst_open d g acc dn) (ev_cases te pkg group total nx cs) =
             fst_open d' g (acc ++ flat_map (print encodeXmlText) (cases_ptrees_c txt te pkg group total cs)) dn.
Proof.
  induction cs as [|c cs IH]; intros total nx d g acc dn.
  - exists d. cbn [ev_cases cases_ptrees_c flat_map]. rewrite app_nil_r. reflexivity.
  - cbn [ev_cases cases_ptrees_c]. rewrite frun_app. destruct (frun_case txt te pkg group total nx c d g acc dn) as [d1 E1]. rewrite E1.
    destruct (IH (c_cc c) (case_nx nx c) d1 g (acc ++ flat_map (print encodeXmlText) (case_ptrees_c txt te pkg group total c)) dn)
      as [d2 E2].
    rewrite E2. exists d2. rewrite flat_map_app, app_assoc. reflexivity.
Qed.

(* the events of writeTestGroupToFile, whatever was read before: one more file, named by the group id, holding group_file *)
Theorem frun_group txt te k timestr nx s :
  exists d', frun txt s (ev_group te k timestr nx) =
             {| f_defs := d'; f_cur := None; f_done := (k_group k, group_file txt te k timestr) :: f_done s |}.
Proof.
  unfold ev_group, ev_header, ev_summary, ev_props, ev_ending. cbn [app]. rewrite frun_cons. cbn [fstep].
  change {| f_defs := f_defs s; f_cur := Some (k_group k, []); f_done := f_done s |} with (fst_open (f_defs s) (k_group k) [] (f_done s)).
  rewrite frun_wl, frun_fw, !frun_wl, frun_app.
  destruct (frun_cases txt te (k_pkg k) (k_group k) (k_nodes k) (k_total k) (nx + 1)
              ((nx, fmt_render txt (f_defs s) fmt_suite
                      [JNum (cw 32 true (k_fc k)); JEnc (k_group k); JNum (cw 32 true (k_tc k));
                       JNum (cw 32 true (cw 64 false (c_div (k_gexec k) 1000))); JNum (cw 32 true (cw 64 false (c_rem (k_gexec k) 1000)));
                       JEnc timestr]) :: f_defs s) (k_group k)
              (((([] ++ B s_xml) ++ fmt_render txt (f_defs s) fmt_suite
                      [JNum (cw 32 true (k_fc k)); JEnc (k_group k); JNum (cw 32 true (k_tc k));
                       JNum (cw 32 true (cw 64 false (c_div (k_gexec k) 1000))); JNum (cw 32 true (cw 64 false (c_rem (k_gexec k) 1000)));
                       JEnc timestr]) ++ B (NL "<properties>"%string)) ++ B (NL "</properties>"%string)) (f_done s)) as [d1 E1].
  rewrite E1. cbn [app]. rewrite frun_wl, frun_we, !frun_wl. rewrite frun_cons, frun_nil. cbn [fstep fst_open f_cur f_defs f_done].
  exists d1. f_equal. f_equal. f_equal. rewrite render_suite_tag'. unfold group_file, suite_ptree_c.
  rewrite print_elem, !flat_map_app. rewrite !fm_print_cons, !fm_print_nil, !print_elem, !fm_print_cons, !fm_print_nil, !print_nl, print_text_esc.
  generalize (flat_map (attr_print encodeXmlText) (suite_attrs_c txt k timestr))
    (flat_map (print encodeXmlText) (cases_ptrees_c txt te (k_pkg k) (k_group k) (k_total k) (k_nodes k))) (encodeXmlText (txt (k_out k))).
  intros X1 X2 X3. clear. do 3 (cbn; repeat rewrite <- app_assoc). reflexivity.
Qed.

Lemma frun_reset_events txt s bs cs : frun txt s (reset_events bs cs) = s.
Proof.
  unfold reset_events. revert s cs. induction bs as [|b bs IH]; intros s [|c cs]; try reflexivity.
  cbn [combine flat_map app]. rewrite !frun_cons. cbn [fstep]. apply IH.
Qed.

Theorem files_of_group txt te k timestr nx evs :
  files_of txt (evs ++ ev_group te k timestr nx) = files_of txt evs ++ [(k_group k, group_file txt te k timestr)].
Proof.
  unfold files_of. rewrite frun_app. destruct (frun_group txt te k timestr nx (frun txt (f0) evs)) as [d' E]. rewrite E.
  cbn [f_done rev]. reflexivity.
Qed.
Theorem files_of_group_reset txt te k timestr nx evs bs cs :
  files_of txt (evs ++ ev_group te k timestr nx ++ reset_events bs cs) = files_of txt evs ++ [(k_group k, group_file txt te k timestr)].
Proof.
  rewrite app_assoc. unfold files_of at 1. rewrite frun_app, frun_reset_events. apply files_of_group.
Qed.

(* ================================================================== Part 3: the model *)
(* numbers that pass the (int) casts unchanged *)
Lemma cw32_N n : (n < 2 ^ 31)%N -> cw 32 true (Z.of_N n) = Z.of_N n.
Proof.
  intro H. apply cw_s_small; [lia|]. change (2 ^ (32 - 1)) with 2147483648. change (2 ^ 31)%N with 2147483648%N in H. lia.
Qed.
Lemma cw64_N n : (n < 2 ^ 31)%N -> cw 64 false (Z.of_N n) = Z.of_N n.
Proof.
  intro H. apply cw_u_small. change (2 ^ 64) with 18446744073709551616. change (2 ^ 31)%N with 2147483648%N in H. lia.
Qed.
Lemma sdec_cw32 n : (n < 2 ^ 31)%N -> sdec (cw 32 true (Z.of_N n)) = dec n.
Proof. intro H. rewrite (cw32_N n H). apply sdec_of_N. Qed.
(* the time attribute: "%d.%03d" of e / 1000 and e % 1000; the model's "0.000" is the instance e = 0 *)
Lemma time_attr_small e : 0 <= e < 1000 * 2 ^ 31 -> time_attr e = time_render e.
Proof.
  intro H. unfold time_attr, time_render, c_div, c_rem. rewrite Z.quot_div_nonneg, Z.rem_mod_nonneg by lia.
  assert (H1 : 0 <= e / 1000 < 2 ^ 31). { split; [apply Z.div_pos; lia | apply Z.div_lt_upper_bound; lia]. }
  assert (H2 : 0 <= e mod 1000 < 1000) by (apply Z.mod_pos_bound; lia).
  rewrite (cw_u_small 64 (e / 1000)) by (change (2 ^ 64) with 18446744073709551616; change (2 ^ 31) with 2147483648 in H1; lia).
  rewrite (cw_u_small 64 (e mod 1000)) by (change (2 ^ 64) with 18446744073709551616; lia).
  rewrite !cw_s_small by (try lia; change (2 ^ (32 - 1)) with 2147483648; change (2 ^ 31) with 2147483648 in H1; lia). reflexivity.
Qed.
Lemma time_attr_zero : time_attr 0 = L_zero_time. Proof. reflexivity. Qed.

(* what the theorems about the written file assume of a model state: the numbers printed through (int) / %d are below 2^31 *)
Definition node_small (n : jnode) : Prop :=
  (n_checks n < 2 ^ 31)%N /\ (n_line n < 2 ^ 31)%N /\ match n_failure n with Some (_, l, _) => (l < 2 ^ 31)%N | None => True end.
Definition state_small (st : jstate) : Prop :=
  (j_failureCount st < 2 ^ 31)%N /\ (j_testCount st < 2 ^ 31)%N /\ Forall node_small (j_nodes st).

Section Model.
  Variable txt : Z -> bytes.
  Variable te : Z -> Z.
  Hypothesis txt0 : txt 0 = [].
  Hypothesis Hte : forall id, te id = b2z (match txt id with [] => true | _ => false end).

  Lemma dot_lit id : B (if z2b (te id) then ""%string else "."%string) = match txt id with [] => [] | _ => [46%N] end.
  Proof. rewrite Hte. destruct (txt id); reflexivity. Qed.

  Lemma failure_tree f file line msg : fail_rel txt (Some f) (Some (file, line, msg)) -> (line < 2 ^ 31)%N ->
    failure_ptree_c txt (snd f) = failure_ptree Esc (file, line, msg).
  Proof.
    destruct f as [fb f]. cbn [fail_rel snd]. intros [H1 [H2 H3]] Hl. unfold failure_ptree_c, fail_attrs_c, failure_ptree.
    rewrite H1, H2, H3, (sdec_cw32 line Hl). reflexivity.
  Qed.

  Lemma case_tree pkg group total c n : node_rel txt c n -> c_cc c = total + Z.of_N (n_checks n) -> c_exec c = 0 -> node_small n ->
    case_ptrees_c txt te pkg group total c = testcase_ptrees Esc (txt pkg) (txt group) n.
  Proof.
    intros [H1 [H2 [H3 [H4 H5]]]] Hcc Hex [S1 [S2 S3]]. unfold case_ptrees_c, case_attrs_c, testcase_ptrees.
    rewrite dot_lit, H1, H2, H3, H4, Hex, time_attr_zero, (sdec_cw32 _ S2).
    replace (c_cc c - total) with (Z.of_N (n_checks n)) by lia. rewrite (cw64_N _ S1), (sdec_cw32 _ S1).
    f_equal. f_equal. f_equal.
    destruct (c_fail c) as [[fb f]|], (n_failure n) as [[[file line] msg]|]; cbn [fail_rel] in H5; try contradiction; [|reflexivity].
    rewrite <- (failure_tree (fb, f) file line msg H5 S3). reflexivity.
  Qed.

  Lemma cases_tree pkg group : forall cs total ns, nodes_rel txt total cs ns -> Forall (fun c => c_exec c = 0) cs -> Forall node_small ns ->
    cases_ptrees_c txt te pkg group total cs = flat_map (testcase_ptrees Esc (txt pkg) (txt group)) ns.
  Proof.
    induction cs as [|c cs IH]; intros total [|n ns] Hr He Hs; cbn [nodes_rel] in Hr; try contradiction; [reflexivity|].
    destruct Hr as [R1 [R2 R3]]. inversion He as [|? ? E1 E2]; subst. inversion Hs as [|? ? S1 S2]; subst.
    cbn [cases_ptrees_c flat_map]. rewrite (case_tree pkg group total c n R1 R2 E1 S1), (IH _ _ R3 E2 S2). reflexivity.
  Qed.

  (* the tree of the file written = the model's, when all times are 0 and the time string is the model's *)
  Theorem suite_tree k st total timestr :
    state_rel txt false k st total -> state_small st -> txt timestr = L_time_string ->
    k_gexec k = 0 -> Forall (fun c => c_exec c = 0) (k_nodes k) ->
    suite_ptree_c txt te k timestr = suite_ptree Esc (j_pkg st) st.
  Proof.
    intros [R1 [R2 [R3 [R4 [R5 [R6 R7]]]]]] [S1 [S2 S3]] Hts Hg He. unfold suite_ptree_c, suite_attrs_c, suite_ptree.
    rewrite R1, R2, R3, R6, Hts, Hg, time_attr_zero, (sdec_cw32 _ S1), (sdec_cw32 _ S2).
    rewrite (cases_tree (k_pkg k) (k_group k) (k_nodes k) (k_total k) (rev (j_nodes st))).
    - rewrite R3, R5. reflexivity.
    - rewrite R4. exact R7.
    - exact He.
    - apply Forall_rev. exact S3.
  Qed.
  Corollary group_file_model k st total timestr :
    state_rel txt false k st total -> state_small st -> txt timestr = L_time_string ->
    k_gexec k = 0 -> Forall (fun c => c_exec c = 0) (k_nodes k) ->
    group_file txt te k timestr = write_group Esc (j_pkg st) st.
  Proof. intros. unfold group_file, write_group. rewrite (suite_tree k st total timestr); auto. Qed.

  (* ---------------------------------------------------------------- the newest node *)
  Lemma sum_checks_app a b : sum_checks (a ++ b) = (sum_checks a + sum_checks b)%N.
  Proof. induction a as [|n a IH]; cbn [app sum_checks fold_right]; [reflexivity|]. fold (sum_checks (a ++ b)) (sum_checks a). lia. Qed.
  Lemma sum_checks_rev l : sum_checks (rev l) = sum_checks l.
  Proof.
    induction l as [|n l IH]; [reflexivity|]. cbn [rev]. rewrite sum_checks_app, IH. cbn [sum_checks fold_right]. fold (sum_checks l). lia.
  Qed.

  Lemma state_rel_newest o k st total cs cn : state_rel txt o k st total -> k_nodes k = cs ++ [cn] ->
    exists n ns', j_nodes st = n :: ns' /\ nodes_rel txt total cs (rev ns') /\ node_rel txt cn n /\
                  (if o then c_cc cn = 0 /\ n_checks n = 0%N else c_cc cn = last_cc total cs + Z.of_N (n_checks n)).
  Proof.
    intros [_ [_ [_ [_ [_ [_ R]]]]]] Hk. destruct o.
    - destruct R as [c [n [cs' [ns' [E1 [E2 [R1 [R2 [R3 R4]]]]]]]]]. rewrite Hk in E1. apply app_inj_tail in E1. destruct E1 as [-> ->].
      exists n, ns'. split; [exact E2|]. split; [exact R1|]. split; [exact R2|]. split; [exact R3 | exact R4].
    - rewrite Hk in R. apply nodes_rel_snoc_inv in R. destruct R as [ns' [n [E [R1 [R2 R3]]]]].
      exists n, (rev ns'). rewrite rev_involutive. split; [|split; [exact R1 | split; [exact R2 | exact R3]]].
      rewrite <- (rev_involutive (j_nodes st)), E, rev_unit. reflexivity.
  Qed.

  (* rebuilding the relation after the newest node changed *)
  Lemma state_rel_build (o : bool) total cs ns' k' st' cn' n' :
    nodes_rel txt total cs (rev ns') -> k_nodes k' = cs ++ [cn'] -> j_nodes st' = n' :: ns' -> node_rel txt cn' n' ->
    (if o then c_cc cn' = 0 /\ n_checks n' = 0%N else c_cc cn' = last_cc total cs + Z.of_N (n_checks n')) ->
    k_tc k' = Z.of_N (j_testCount st') -> k_fc k' = Z.of_N (j_failureCount st') -> txt (k_group k') = j_group st' ->
    k_total k' = total -> txt (k_pkg k') = j_pkg st' -> txt (k_out k') = j_stdout st' ->
    state_rel txt o k' st' total.
  Proof.
    intros Hr Hk' Hs' Hn Hc A1 A2 A3 A4 A5 A6. repeat (split; [assumption|]). destruct o.
    - exists cn', n', cs, ns'. destruct Hc as [C1 C2]. split; [exact Hk'|]. split; [exact Hs'|]. split; [exact Hr|].
      split; [exact Hn|]. split; [exact C1 | exact C2].
    - rewrite Hk', Hs'. cbn [rev]. apply nodes_rel_app; [exact Hr|]. cbn [nodes_rel]. split; [exact Hn|]. split; [exact Hc | exact I].
  Qed.

  (* ---------------------------------------------------------------- printCurrentTestStarted = junit_step (ETestStart t) *)
  Definition shell_rel (sh : cshell) (t : test) : Prop :=
    txt (sh_group sh) = t_group t /\ txt (sh_name sh) = t_name t /\ txt (sh_file sh) = t_file t /\ sh_line sh = Z.of_N (t_line t).

  (* In the theorems below the representation hypothesis junit_at_o is given unpacked (its witness k is named) so that the separation
     of the argument blocks from the blocks of the structure -- including the blocks of the kept failures -- can be stated. *)
  Theorem test_started_model fuel0 t0 times willruns timestr h ob ib bs k st total tb sh t evs nx :
    cjunit_at h ob ib bs k -> state_rel txt false k st total ->
    hblock h tb = shell_cells sh -> ~ In tb (jblocks ob ib bs (k_nodes k)) -> shell_rel sh t ->
    Z.of_N (j_testCount st) + 1 < 2 ^ 64 ->
    exists h', src_junit_printCurrentTestStarted fuel0 h evs nx (t0 :: times) (b2z (negb (t_ignored t)) :: willruns) timestr
                 (HPtr ob 0) (HPtr tb 0) = FOk (tt, h', evs ++ [JNew (HPtr (length h) 0)], nx, times, willruns, timestr) /\
      junit_at_o txt true h' ob ib (bs ++ [length h]) (junit_step Esc st (ETestStart t)) total /\
      hload_int h' (HPtr ib 3) = Some t0 /\ length h' = S (length h) /\
      (forall b, (b < length h)%nat -> ~ In b (jblocks ob ib bs (k_nodes k)) -> hblock h' b = hblock h b).
  Proof.
    intros Hcj Hr Htb Hnin [G1 [G2 [G3 G4]]] Htc.
    destruct (fpost_tuple _ _ _ _ _ _ _ (started_m fuel0 t0 times (b2z (negb (t_ignored t))) willruns timestr h ob ib bs k tb sh evs nx
                Hcj Htb Hnin)) as [h' [E [Hcj' [Ll Fr]]]].
    exists h'. split; [exact E|]. split; [|split; [|split; [exact Ll | exact Fr]]].
    - eexists. split; [exact Hcj'|]. destruct Hr as [R1 [R2 [R3 [R4 [R5 [R6 R7]]]]]]. unfold state_rel.
      cbn [k_with k_tc k_fc k_group k_total k_pkg k_out k_nodes junit_step j_testCount j_failureCount j_group j_stdout j_pkg j_nodes].
      split; [rewrite R1, cw_u_small by lia; lia|]. split; [exact R2|]. split; [exact G1|]. split; [exact R4|]. split; [exact R5|].
      split; [exact R6|]. eexists _, _, (k_nodes k), (j_nodes st). split; [reflexivity|]. split; [reflexivity|]. split; [exact R7|].
      split; [|split; reflexivity]. unfold node_rel, started_node. cbn [c_name c_file c_line c_ign c_fail n_name n_file n_line n_ignored n_failure fail_rel].
      repeat split; try assumption. destruct (t_ignored t); reflexivity.
    - destruct Hcj' as [_ [hd [Hib _]]]. unfold hload_int, hload. cbn [Z.leb Z.compare]. rewrite Hib. reflexivity.
  Qed.

  (* ---------------------------------------------------------------- printCurrentTestEnded = junit_step (ETestEnd c) *)
  (* the check count of the result is cumulative: what had been counted when the group started (total), the checks of the tests of
     the group that have ended, the checks c of this test *)
  Theorem test_ended_model fuel0 times willruns timestr o h ob ib bs k st total rb r c evs nx :
    cjunit_at h ob ib bs k -> state_rel txt o k st total -> j_nodes st <> [] ->
    hblock h rb = tr_cells r -> ~ In rb (jblocks ob ib bs (k_nodes k)) ->
    tr_checks r = total + Z.of_N (sum_checks (tl (j_nodes st))) + Z.of_N c ->
    exists h', src_junit_printCurrentTestEnded fuel0 h evs nx times willruns timestr (HPtr ob 0) (HPtr rb 0) =
               FOk (tt, h', evs, nx, times, willruns, timestr) /\
      junit_at txt h' ob ib bs (junit_step Esc st (ETestEnd c)) total /\ length h' = length h /\
      (forall b, ~ In b (jblocks ob ib bs (k_nodes k)) -> hblock h' b = hblock h b).
  Proof.
    intros Hcj Hr Hne Hrb Hnin Hcc.
    destruct (snoc_case (k_nodes k)) as [Hk|[cs [cn Hk]]].
    { exfalso. destruct Hr as [_ [_ [_ [_ [_ [_ R]]]]]]. rewrite Hk in R. destruct o.
      - destruct R as [? [? [cs' [? [E _]]]]]. destruct cs'; discriminate E.
      - destruct (rev (j_nodes st)) eqn:Er; [|contradiction R]. apply Hne. rewrite <- (rev_involutive (j_nodes st)), Er. reflexivity. }
    destruct (fpost_tuple _ _ _ _ _ _ _ (ended_m fuel0 times willruns timestr h ob ib bs k cs cn rb r evs nx Hcj Hk Hrb Hnin))
      as [h' [E [Hcj' [Ll Fr]]]].
    exists h'. split; [exact E|]. split; [|split; [exact Ll | exact Fr]].
    destruct (state_rel_newest o k st total cs cn Hr Hk) as [n [ns' [Hs [Hns [Hn Ho]]]]].
    eexists. split; [exact Hcj'|]. destruct Hr as [R1 [R2 [R3 [R4 [R5 [R6 R7]]]]]].
    cbn [junit_step]. rewrite Hs.
    apply (state_rel_build false total cs ns' _ _ (c_with cn (tr_test_ms r) (c_fail cn) (tr_checks r))
             {| n_name := n_name n; n_file := n_file n; n_line := n_line n; n_ignored := n_ignored n; n_failure := n_failure n;
                n_checks := c |}); try assumption; try reflexivity.
    cbn [c_with c_cc n_checks]. rewrite Hcc, Hs. cbn [tl]. rewrite (last_cc_sum txt cs total (rev ns') Hns), sum_checks_rev. reflexivity.
  Qed.

  Lemma state_rel_nonempty o k st total n r : state_rel txt o k st total -> j_nodes st = n :: r -> exists cs cn, k_nodes k = cs ++ [cn].
  Proof.
    intros Hr Hs. destruct (snoc_case (k_nodes k)) as [Hk|[cs [cn Hk]]]; [|exists cs, cn; exact Hk].
    exfalso. destruct Hr as [_ [_ [_ [_ [_ [_ R]]]]]]. rewrite Hk in R. destruct o.
    - destruct R as [? [? [cs' [? [E _]]]]]. destruct cs'; discriminate E.
    - rewrite Hs in R. cbn [rev] in R. destruct (rev r); cbn in R; contradiction R.
  Qed.
  Lemma state_rel_length o k st total : state_rel txt o k st total -> length (k_nodes k) = length (j_nodes st).
  Proof.
    intros [_ [_ [_ [_ [_ [_ R]]]]]]. destruct o.
    - destruct R as [c [n [cs' [ns' [E1 [E2 [R1 _]]]]]]]. rewrite E1, E2, app_length. apply nodes_rel_length in R1.
      rewrite R1, rev_length. cbn [length]. lia.
    - apply nodes_rel_length in R. rewrite R, rev_length. reflexivity.
  Qed.

  (* ---------------------------------------------------------------- printFailure = junit_step (EFailure ...) *)
  Theorem failure_first_model fuel0 times willruns timestr o h ob ib bs k st total fb0 f t file line msg n r evs nx :
    cjunit_at h ob ib bs k -> state_rel txt o k st total -> j_nodes st = n :: r -> n_failure n = None ->
    hblock h fb0 = fail_cells f -> ~ In fb0 (jblocks ob ib bs (k_nodes k)) ->
    txt (cf_file f) = file -> cf_line f = Z.of_N line -> txt (cf_msg f) = msg ->
    Z.of_N (j_failureCount st) + 1 < 2 ^ 64 ->
    exists h', src_junit_printFailure fuel0 h evs nx times willruns timestr (HPtr ob 0) (HPtr fb0 0) =
               FOk (tt, h', evs ++ [JNew (HPtr (length h) 0)], nx, times, willruns, timestr) /\
      junit_at_o txt o h' ob ib bs (junit_step Esc st (EFailure t file line msg)) total /\
      length h' = S (length h) /\ hblock h' (length h) = fail_cells f /\
      (forall b, (b < length h)%nat -> ~ In b (jblocks ob ib bs (k_nodes k)) -> hblock h' b = hblock h b).
  Proof.
    intros Hcj Hr Hs Hnf Hfb Hnin F1 F2 F3 Hfc.
    destruct (state_rel_nonempty o k st total n r Hr Hs) as [cs [cn Hk]].
    destruct (state_rel_newest o k st total cs cn Hr Hk) as [n0 [ns' [Hs' [Hns [Hn Ho]]]]].
    rewrite Hs in Hs'. injection Hs' as <- <-.
    assert (Hcf : c_fail cn = None).
    { destruct Hn as [_ [_ [_ [_ Hfr]]]]. rewrite Hnf in Hfr. destruct (c_fail cn) as [[? ?]|]; [contradiction Hfr | reflexivity]. }
    destruct (fpost_tuple _ _ _ _ _ _ _ (failure_first_m fuel0 times willruns timestr h ob ib bs k cs cn fb0 f evs nx Hcj Hk Hcf Hfb Hnin))
      as [h' [E [Hcj' [Ll [Hnew Fr]]]]].
    exists h'. split; [exact E|]. split; [|split; [exact Ll | split; [exact Hnew | exact Fr]]].
    eexists. split; [exact Hcj'|]. destruct Hr as [R1 [R2 [R3 [R4 [R5 [R6 R7]]]]]]. cbn [junit_step]. rewrite Hs, Hnf.
    apply (state_rel_build o total cs r _ _ (c_with cn (c_exec cn) (Some (length h, f)) (c_cc cn))
             {| n_name := n_name n; n_file := n_file n; n_line := n_line n; n_ignored := n_ignored n; n_failure := Some (file, line, msg);
                n_checks := n_checks n |}); try assumption; try reflexivity.
    - destruct Hn as [N1 [N2 [N3 [N4 N5]]]]. unfold node_rel. cbn [c_with c_name c_file c_line c_ign c_fail n_name n_file n_line n_ignored n_failure fail_rel].
      repeat split; assumption.
    - cbn [k_with k_fc j_failureCount]. rewrite R2, cw_u_small by lia. lia.
  Qed.
  Theorem failure_second_model fuel0 times willruns timestr o h ob ib bs k st total fb0 t file line msg n r x evs nx :
    cjunit_at h ob ib bs k -> state_rel txt o k st total -> j_nodes st = n :: r -> n_failure n = Some x ->
    src_junit_printFailure fuel0 h evs nx times willruns timestr (HPtr ob 0) (HPtr fb0 0) = FOk (tt, h, evs, nx, times, willruns, timestr) /\
    junit_step Esc st (EFailure t file line msg) = st.
  Proof.
    intros Hcj Hr Hs Hnf. split; [|cbn [junit_step]; rewrite Hs, Hnf; reflexivity].
    destruct (state_rel_nonempty o k st total n r Hr Hs) as [cs [cn Hk]].
    destruct (state_rel_newest o k st total cs cn Hr Hk) as [n0 [ns' [Hs' [Hns [Hn Ho]]]]].
    rewrite Hs in Hs'. injection Hs' as <- <-.
    destruct Hn as [_ [_ [_ [_ Hfr]]]]. rewrite Hnf in Hfr. destruct (c_fail cn) as [[fb f]|] eqn:Hcf; [|contradiction Hfr].
    exact (failure_second fuel0 times willruns timestr h ob ib bs k cs cn fb f fb0 evs nx Hcj Hk Hcf).
  Qed.

  (* ---------------------------------------------------------------- resetTestGroupResult *)
  Definition reset_state (st : jstate) : jstate :=
    {| j_nodes := []; j_testCount := 0; j_failureCount := 0; j_group := []; j_stdout := j_stdout st; j_files := j_files st;
       j_pkg := j_pkg st; j_names := j_names st |}.
  Theorem reset_model fuel0 times willruns timestr o h ob ib bs k st total evs nx :
    cjunit_at h ob ib bs k -> state_rel txt o k st total -> (length (j_nodes st) < fuel0)%nat ->
    exists h', src_junit_resetTestGroupResult fuel0 h evs nx times willruns timestr (HPtr ob 0) =
               FOk (tt, h', evs ++ reset_events bs (k_nodes k), nx, times, willruns, timestr) /\
      junit_at txt h' ob ib [] (reset_state st) total /\ length h' = length h /\ (forall b, b <> ib -> hblock h' b = hblock h b).
  Proof.
    intros Hcj Hr Hf. rewrite <- (state_rel_length o k st total Hr) in Hf.
    destruct (fpost_tuple _ _ _ _ _ _ _ (reset_m fuel0 times willruns timestr h ob ib bs k evs nx Hcj Hf)) as [h' [E [Hcj' [Ll Fr]]]].
    exists h'. split; [exact E|]. split; [|split; [exact Ll | exact Fr]].
    eexists. split; [exact Hcj'|]. destruct Hr as [R1 [R2 [R3 [R4 [R5 [R6 R7]]]]]]. unfold state_rel, reset_state.
    cbn [k_with k_tc k_fc k_group k_total k_pkg k_out k_nodes j_testCount j_failureCount j_group j_stdout j_pkg j_nodes rev nodes_rel].
    repeat split; assumption.
  Qed.
  (* what is deleted: every node and every kept failure (a node without failure contributes JDelete HNull, the `delete` of a null pointer) *)
  Definition deleted (e : hev) : list nat := match e with JDelete (HPtr b _) => [b] | _ => [] end.
  Lemma reset_events_deleted : forall bs cs,
    flat_map deleted (reset_events bs cs) = flat_map (fun bc => fblock (snd bc) ++ [fst bc]) (combine bs cs).
  Proof.
    unfold reset_events. induction bs as [|b bs IH]; intros [|c cs]; try reflexivity.
    cbn [combine flat_map app fst snd]. rewrite IH. unfold fblock, deleted, fptr. destruct (c_fail c) as [[fb f]|]; reflexivity.
  Qed.

  (* ---------------------------------------------------------------- writeTestGroupToFile = the model's write_group *)
  Theorem write_group_model fuel0 times willruns timestr h ob ib bs k st total evs nx :
    cjunit_at h ob ib bs k -> state_rel txt false k st total -> state_small st -> txt timestr = L_time_string ->
    k_gexec k = 0 -> Forall (fun c => c_exec c = 0) (k_nodes k) -> (length (j_nodes st) < fuel0)%nat ->
    exists h' mid nx',
      src_junit_writeTestGroupToFile te fuel0 h evs nx times willruns timestr (HPtr ob 0) =
      FOk (tt, h', evs ++ [JOpen (k_group k)] ++ mid ++ [JClose], nx', times, willruns, timestr) /\
      txt (k_group k) = j_group st /\
      files_of txt (evs ++ [JOpen (k_group k)] ++ mid ++ [JClose]) = files_of txt evs ++ [(k_group k, write_group Esc (j_pkg st) st)] /\
      hload_int h' (HPtr ib 2) = Some (total + Z.of_N (sum_checks (j_nodes st))) /\
      length h' = length h /\ (forall b, b <> ib -> hblock h' b = hblock h b).
  Proof.
    intros Hcj Hr Hsm Hts Hg He Hf. rewrite <- (state_rel_length false k st total Hr) in Hf.
    destruct (write_group_to_file te fuel0 times willruns timestr h ob ib bs k evs nx Hcj Hf) as [h' [E [Hcj' [Ll Fr]]]].
    exists h', (ev_header ++ ev_summary k timestr nx ++ ev_props ++ ev_cases te (k_pkg k) (k_group k) (k_total k) (nx + 1) (k_nodes k) ++
                ev_ending (k_out k)), (cases_nx (nx + 1) (k_nodes k)).
    assert (EE : [JOpen (k_group k)] ++ (ev_header ++ ev_summary k timestr nx ++ ev_props ++
                   ev_cases te (k_pkg k) (k_group k) (k_total k) (nx + 1) (k_nodes k) ++ ev_ending (k_out k)) ++ [JClose] =
                 ev_group te k timestr nx).
    { unfold ev_group. rewrite <- !app_assoc. reflexivity. }
    rewrite EE. split; [exact E|]. split; [apply Hr|]. split; [|split; [|split; [exact Ll | exact Fr]]].
    - rewrite files_of_group, (group_file_model k st total timestr Hr Hsm Hts Hg He). reflexivity.
    - destruct Hcj' as [_ [hd [Hib _]]]. unfold hload_int, hload. cbn [Z.leb Z.compare]. rewrite Hib.
      cbn [impl_cells k_with k_total nth_error Z.to_nat Pos.to_nat Pos.iter_op Nat.add]. destruct Hr as [_ [_ [_ [R4 [_ [_ R7]]]]]].
      rewrite R4, (last_cc_sum txt _ _ _ R7), sum_checks_rev. reflexivity.
  Qed.

  (* ---------------------------------------------------------------- printCurrentGroupEnded = junit_step EGroupEnd *)
  (* the model's EGroupEnd also records the NAME of the file through createFileName, which is not translated: the event JOpen carries
     the id of the group text the name is made from *)
  Theorem group_ended_model fuel0 times willruns timestr h ob ib bs k st total rb r evs nx :
    cjunit_at h ob ib bs k -> state_rel txt false k st total -> state_small st -> txt timestr = L_time_string ->
    Forall (fun c => c_exec c = 0) (k_nodes k) -> hblock h rb = tr_cells r -> rb <> ib -> tr_group_ms r = 0 ->
    (length (j_nodes st) < fuel0)%nat ->
    exists h' rest nx' content,
      src_junit_printCurrentGroupEnded te fuel0 h evs nx times willruns timestr (HPtr ob 0) (HPtr rb 0) =
      FOk (tt, h', evs ++ JOpen (k_group k) :: rest, nx', times, willruns, timestr) /\
      txt (k_group k) = j_group st /\
      j_files (junit_step Esc st EGroupEnd) = (createFileName (j_pkg st) (j_group st), content) :: j_files st /\
      files_of txt (evs ++ JOpen (k_group k) :: rest) = files_of txt evs ++ [(k_group k, content)] /\
      junit_at txt h' ob ib [] (junit_step Esc st EGroupEnd) (total + Z.of_N (sum_checks (j_nodes st))) /\
      length h' = length h /\ (forall b, b <> ib -> hblock h' b = hblock h b).
  Proof.
    intros Hcj Hr Hsm Hts He Hrb Nr Hgx Hf. pose proof Hr as [R1 [R2 [R3 [R4 [R5 [R6 R7]]]]]].
    rewrite <- (state_rel_length false k st total Hr) in Hf.
    destruct (group_ended te fuel0 times willruns timestr h ob ib bs k rb r evs nx Hcj Hf Hrb Nr) as [h' [E [Hcj' [Ll Fr]]]].
    assert (Hr1 : state_rel txt false (k_gx k (tr_group_ms r)) st total).
    { unfold state_rel, k_gx. cbn [k_with k_tc k_fc k_group k_total k_pkg k_out k_nodes]. repeat split; assumption. }
    exists h', (tl (ev_group te (k_gx k (tr_group_ms r)) timestr nx) ++ reset_events bs (k_nodes k)), (cases_nx (nx + 1) (k_nodes k)),
      (write_group Esc (j_pkg st) st).
    assert (EE : JOpen (k_group k) :: tl (ev_group te (k_gx k (tr_group_ms r)) timestr nx) ++ reset_events bs (k_nodes k) =
                 ev_group te (k_gx k (tr_group_ms r)) timestr nx ++ reset_events bs (k_nodes k)) by reflexivity.
    rewrite EE. split; [exact E|]. split; [exact R3|]. split; [reflexivity|]. split; [|split; [|split; [exact Ll | exact Fr]]].
    - rewrite files_of_group_reset. rewrite (group_file_model _ st total timestr Hr1 Hsm Hts); [reflexivity | exact Hgx | exact He].
    - eexists. split; [exact Hcj'|]. unfold state_rel.
      cbn [k_with k_tc k_fc k_group k_total k_pkg k_out k_nodes junit_step j_testCount j_failureCount j_group j_stdout j_pkg j_nodes rev
             nodes_rel].
      repeat split; try assumption. rewrite R4, (last_cc_sum txt _ _ _ R7), sum_checks_rev. reflexivity.
  Qed.
End Model.

(* ================================================================== Part 4: examples *)
Module Ex.
  Definition S (s : String.string) : bytes := B s.
  (* the texts: 0 empty, 1 the group, 2 / 4 test names, 3 the file, 5 a message, 6 the time string, 8 the captured output *)
  Definition txt (id : Z) : bytes :=
    match id with
    | 1 => S "G<1>"%string | 2 => S "first"%string | 3 => S "a.cpp"%string | 4 => S "second"%string | 5 => S "x & y"%string
    | 6 => L_time_string | 8 => S "out"%string | _ => []
    end.
  Definition te (id : Z) : Z := b2z (match txt id with [] => true | _ => false end).
  Definition shell (name line : Z) : list val := [VInt 1; VInt name; VInt 3; VInt line; VPtr HNull; VInt 0; VInt 0].
  Definition result (checks : Z) : list val :=
    [VInt 0; VInt 0; VInt 0; VInt checks; VInt 0; VInt 0; VInt 0; VInt 0; VInt 0; VInt 0; VInt 0; VInt 0; VInt 0].
  (* 0: the output object, 1: the impl (stdOutput_ = text 8), 2 / 3: two tests, 4: a failure at a.cpp:12, 5 / 6: the TestResult after
     the first test (3 checks) and after the second (ignored: still 3) *)
  Definition h0 (total : Z) : heap :=
    [[VPtr (HPtr 1 0)];
     [VInt 0; VInt 0; VInt total; VInt 0; VInt 0; VInt 0; VPtr HNull; VPtr HNull; VInt 0; VInt 0; VInt 8];
     shell 2 10; shell 4 20;
     [VInt 2; VInt 2; VInt 3; VInt 12; VInt 3; VInt 10; VInt 5];
     result (total + 3); result (total + 3)].
  Definition R := fres (unit * heap * list hev * Z * list Z * list Z * Z).
  Definition bind (r : R) (f : heap -> list hev -> Z -> list Z -> list Z -> R) : R :=
    match r with FOk (_, h, e, nx, tm, wr, _) => f h e nx tm wr | FOob => FOob | FNoFuel => FNoFuel end.
  Definition this_ := HPtr 0 0.
  (* first test: fails twice, 3 checks; second test: ignored; then the group ends *)
  Definition run (total : Z) : R :=
    bind (src_junit_printCurrentTestStarted 9 (h0 total) [] 100 [0; 0] [1; 0] 6 this_ (HPtr 2 0)) (fun h e nx tm wr =>
    bind (src_junit_printFailure 9 h e nx tm wr 6 this_ (HPtr 4 0)) (fun h e nx tm wr =>
    bind (src_junit_printFailure 9 h e nx tm wr 6 this_ (HPtr 4 0)) (fun h e nx tm wr =>
    bind (src_junit_printCurrentTestEnded 9 h e nx tm wr 6 this_ (HPtr 5 0)) (fun h e nx tm wr =>
    bind (src_junit_printCurrentTestStarted 9 h e nx tm wr 6 this_ (HPtr 3 0)) (fun h e nx tm wr =>
    bind (src_junit_printCurrentTestEnded 9 h e nx tm wr 6 this_ (HPtr 6 0)) (fun h e nx tm wr =>
    src_junit_printCurrentGroupEnded te 9 h e nx tm wr 6 this_ (HPtr 6 0))))))).
  Definition events (r : R) : list hev := match r with FOk (_, _, e, _, _, _, _) => e | _ => [] end.
  Definition final_heap (r : R) : heap := match r with FOk (_, h, _, _, _, _, _) => h | _ => [] end.

  (* the same run in the model *)
  Definition t1 : test := {| t_group := txt 1; t_name := txt 2; t_file := txt 3; t_line := 10; t_ignored := false; t_body := [] |}.
  Definition t2 : test := {| t_group := txt 1; t_name := txt 4; t_file := txt 3; t_line := 20; t_ignored := true; t_body := [] |}.
  Definition st0 : jstate :=
    {| j_nodes := []; j_testCount := 0; j_failureCount := 0; j_group := []; j_stdout := txt 8; j_files := []; j_pkg := []; j_names := [] |}.
  Definition st_end : jstate :=
    fold_left (junit_step Esc)
      [ETestStart t1; EFailure t1 (txt 3) 12 (txt 5); EFailure t1 (txt 3) 13 (txt 5); ETestEnd 3; ETestStart t2; ETestEnd 0] st0.

  Definition lines (l : list String.string) : bytes := flat_map (fun x => B (NL x)) l.
  Definition expected_file : bytes :=
    lines ["<?xml version=""1.0"" encoding=""UTF-8"" ?>";
           "<testsuite errors=""0"" failures=""1"" hostname=""localhost"" name=""G&lt;1&gt;"" tests=""2"" time=""0.000"" timestamp=""2000-01-01T00:00:00"">";
           "<properties>"; "</properties>";
           "<testcase classname=""G&lt;1&gt;"" name=""first"" assertions=""3"" time=""0.000"" file=""a.cpp"" line=""10"">";
           "<failure message=""a.cpp:12: x &amp; y"" type=""AssertionFailedError"">"; "</failure>"; "</testcase>";
           "<testcase classname=""G&lt;1&gt;"" name=""second"" assertions=""0"" time=""0.000"" file=""a.cpp"" line=""20"">";
           "<skipped />"; "</testcase>";
           "<system-out>out</system-out>"; "<system-err></system-err>"; "</testsuite>"]%string.

  (* a group that ends while its only test is still open (never happens under TestRegistry::runAllTests), 5 checks counted before *)
  Definition run_open : R :=
    bind (src_junit_printCurrentTestStarted 9 (h0 5) [] 100 [0] [1] 6 this_ (HPtr 2 0)) (fun h e nx tm wr =>
    src_junit_printCurrentGroupEnded te 9 h e nx tm wr 6 this_ (HPtr 6 0)).
  Definition st_open : jstate := junit_step Esc st0 (ETestStart t1).
  (* a test that took 1234 ms in a group that took 61005 ms *)
  Definition result_ms (checks ms gms : Z) : list val :=
    [VInt 0; VInt 0; VInt 0; VInt checks; VInt 0; VInt 0; VInt 0; VInt 0; VInt 0; VInt 0; VInt ms; VInt 0; VInt gms].
  Definition run_ms : R :=
    bind (src_junit_printCurrentTestStarted 9 (h0 0 ++ [result_ms 3 1234 61005]) [] 100 [0] [1] 6 this_ (HPtr 2 0)) (fun h e nx tm wr =>
    bind (src_junit_printCurrentTestEnded 9 h e nx tm wr 6 this_ (HPtr 7 0)) (fun h e nx tm wr =>
    src_junit_printCurrentGroupEnded te 9 h e nx tm wr 6 this_ (HPtr 7 0))).
End Ex.

(* the initial heap represents a model state (non-vacuity of junit_at) *)
Example ex_rep : junit_at Ex.txt (Ex.h0 0) 0 1 [] Ex.st0 0.
Proof.
  exists {| k_nodes := []; k_tc := 0; k_fc := 0; k_total := 0; k_start := 0; k_gexec := 0; k_group := 0; k_filev := VInt 0; k_pkg := 0;
            k_out := 8 |}.
  split.
  - split; [reflexivity|]. exists HNull. split; [reflexivity|]. split; [reflexivity|]. split.
    + repeat constructor; cbn; intuition discriminate.
    + repeat constructor.
  - repeat split.
Qed.

(* two tests, the first fails twice (only the first failure is kept: one JNew for it), the second is ignored; then the group ends:
   the events, in order (JDelete HNull = `delete` of the null failure_ of the second node) *)
Example ex_events :
  Ex.events (Ex.run 0) =
  [JNew (HPtr 7 0); JNew (HPtr 8 0); JNew (HPtr 9 0);
   JOpen 1; JWrite (JLit s_xml);
   JFormat 100 fmt_suite [JNum 1; JEnc 1; JNum 2; JNum 0; JNum 0; JEnc 6]; JWrite (JTxt 100);
   JWrite (JLit (NL "<properties>"%string)); JWrite (JLit (NL "</properties>"%string));
   JFormat 101 fmt_case [JEnc 0; JLit ""%string; JEnc 1; JEnc 2; JNum 3; JNum 0; JNum 0; JEnc 3; JNum 10]; JWrite (JTxt 101);
   JFormat 102 fmt_fail [JEnc 3; JNum 12; JEnc 5]; JWrite (JTxt 102); JWrite (JLit (NL "</failure>"%string));
   JWrite (JLit (NL "</testcase>"%string));
   JFormat 103 fmt_case [JEnc 0; JLit ""%string; JEnc 1; JEnc 4; JNum 0; JNum 0; JNum 0; JEnc 3; JNum 20]; JWrite (JTxt 103);
   JWrite (JLit (NL "<skipped />"%string)); JWrite (JLit (NL "</testcase>"%string));
   JWrite (JLit "<system-out>"%string); JWrite (JEnc 8); JWrite (JLit (NL "</system-out>"%string));
   JWrite (JLit (NL "<system-err></system-err>"%string)); JWrite (JLit (NL "</testsuite>"%string)); JClose;
   JDelete (HPtr 8 0); JDelete (HPtr 7 0); JDelete HNull; JDelete (HPtr 9 0)].
Proof. vm_compute. reflexivity. Qed.
(* the file they make, and the model's *)
Example ex_file : files_of Ex.txt (Ex.events (Ex.run 0)) = [(1, Ex.expected_file)].
Proof. vm_compute. reflexivity. Qed.
Example ex_model :
  j_files (junit_step Esc Ex.st_end EGroupEnd) = [(Ex.S "cpputest_G_1_.xml"%string, Ex.expected_file)].
Proof. vm_compute. reflexivity. Qed.
(* afterwards: counters 0, group empty, head_ = tail_ = NULL -- and totalCheckCount_ = 3, not reset *)
Example ex_final_impl :
  hblock (Ex.final_heap (Ex.run 0)) 1 = [VInt 0; VInt 0; VInt 3; VInt 0; VInt 0; VInt 0; VPtr HNull; VPtr HNull; VInt 0; VInt 0; VInt 8].
Proof. vm_compute. reflexivity. Qed.
(* the same run when 5 checks had been counted before the group: the cumulative counts differ, the file does not *)
Example ex_file_5 : files_of Ex.txt (Ex.events (Ex.run 5)) = [(1, Ex.expected_file)].
Proof. vm_compute. reflexivity. Qed.

(* COUNTEREXAMPLE (why junit_at_o true exists): a node that has been started and not ended has checkCount_ = 0; written in that state
   after 5 checks were counted, the code prints (int)(0 - 5), the model 0.  Hence printCurrentTestStarted does not take the cumulative
   reading junit_at to junit_at of the model's next state unless totalChecks = 0, and write_group_model needs the closed flavour. *)
Example ce_open_node :
  contains (match files_of Ex.txt (Ex.events Ex.run_open) with [(_, f)] => f | _ => [] end) (Ex.S "assertions=""-5"""%string) = true /\
  contains (write_group Esc [] Ex.st_open) (Ex.S "assertions=""0"""%string) = true.
Proof. vm_compute. split; reflexivity. Qed.
(* times that are not 0 (the model prints 0.000): "%d.%03d" of ms / 1000 and ms % 1000 *)
Example ex_times :
  contains (match files_of Ex.txt (Ex.events Ex.run_ms) with [(_, f)] => f | _ => [] end)
    (Ex.S "tests=""1"" time=""61.005"""%string) = true /\
  contains (match files_of Ex.txt (Ex.events Ex.run_ms) with [(_, f)] => f | _ => [] end)
    (Ex.S "assertions=""3"" time=""1.234"""%string) = true /\
  time_render 61005 = Ex.S "61.005"%string /\ time_attr 1234 = Ex.S "1.234"%string.
Proof. vm_compute. repeat split; reflexivity. Qed.

