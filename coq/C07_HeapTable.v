(* C07: the READ-ONLY functions of the translated MemoryLeakDetectorTable that the detector calls (gen/Gen_HeapC04.v:
   src_table_getTotalLeaks, src_table_getFirstLeak, src_table_getNextLeak) for a table object EMBEDDED in a block
   (C07_HeapRep.table_at_off: the table of a MemoryLeakDetector starts at cell 3 of the detector object).  The proofs are those of
   C04_HeapTable.v with `this` = cell o of the block; the list-level theorems of C04_HeapList.v take an arbitrary `this` and are
   used unchanged, and the pointers returned are the same tptr_first / tptr_next.
   Then the one STORE the detector makes into the table: period_ of the k-th record of bucket i (toff_set_period), and the facts
   about tptr_first / tptr_next at a known position that the walk of markCheckingPeriodLeaksAsNonCheckingPeriod needs. *)
From Coq Require Import ZArith NArith Bool List Lia.
From CppUVerif Require Import lib.CSem lib.CMem lib.CMemFacts lib.CHeap gen.Gen_Common gen.Gen_HeapC04
  C04_Model C04_HeapRep C04_HeapList C04_HeapTable C04_HeapTableW C07_HeapRep.
Import ListNotations.
Local Open Scope Z_scope.

(* ------------------------------------------------------------------ the embedded table object *)
(* &table_[i] : any index up to one past the array *)
Lemma toff_padd h bt o bss t i : table_at_off h bt o bss t -> (i <= nbuckets)%nat ->
  hpadd h (HPtr bt (Z.of_nat o)) (Z.of_nat i) = Some (HPtr bt (Z.of_nat (o + i))).
Proof. intros [_ [_ [Hlen _]]] Hi. apply (hpadd_cell h bt o i). lia. Qed.
Lemma toff_list h bt o bss t i : table_at_off h bt o bss t -> (i < nbuckets)%nat ->
  list_at h (HPtr bt (Z.of_nat (o + i))) (nth i bss []) (nth i t []).
Proof. intros [_ [_ [_ [_ [_ [_ Hall]]]]]] Hi. exact (Hall i Hi). Qed.
Lemma toff_chain h bt o bss t i : table_at_off h bt o bss t -> (i < nbuckets)%nat ->
  exists p, chain h p (nth i bss []) (nth i t []).
Proof. intros Ht Hi. destruct (toff_list h bt o bss t i Ht Hi) as [hd [_ [Hc _]]]. exists hd. exact Hc. Qed.
Lemma toff_nodes_ok h bt o bss t i : table_at_off h bt o bss t -> (i < nbuckets)%nat -> Forall node_ok (nth i t []).
Proof. intros Ht Hi. destruct (toff_list h bt o bss t i Ht Hi) as [hd [_ [_ [_ [Hok _]]]]]. exact Hok. Qed.
Lemma toff_chains h bt o bss t : table_at_off h bt o bss t -> Forall2 (fun bs b => exists p, chain h p bs b) bss t.
Proof.
  intro Ht. pose proof Ht as [Hlt [Hlb _]]. apply (Forall2_of_nth _ [] []); [exact (eq_trans Hlb (eq_sym Hlt))|].
  intros i Hi. apply (toff_chain h bt o bss t i Ht). lia.
Qed.
Lemma toff_lengths h bt o bss t : table_at_off h bt o bss t ->
  Forall2 (fun (bs : list nat) (b : bucket) => length bs = length b) bss t.
Proof. intro Ht. exact (chains_lengths h bss t (toff_chains h bt o bss t Ht)). Qed.
Lemma toff_key_small h bt o bss t i k d : table_at_off h bt o bss t -> (i < nbuckets)%nat -> (k < length (nth i t []))%nat ->
  (n_addr (nth k (nth i t []) d) < 2 ^ 64)%N.
Proof.
  intros Ht Hi Hk. pose proof (toff_nodes_ok h bt o bss t i Ht Hi) as Hok. rewrite Forall_forall in Hok.
  destruct (Hok (nth k (nth i t []) d) (nth_In _ d Hk)) as [Ha _]. exact Ha.
Qed.
(* the block of the k-th record of bucket i *)
Lemma toff_node h bt o bss t i k d : table_at_off h bt o bss t -> (i < nbuckets)%nat -> (k < length (nth i t []))%nat ->
  exists nxt, hblock h (nth k (nth i bss []) 0%nat) = node_cells (nth k (nth i t []) d) nxt /\
              In (nth k (nth i bss []) 0%nat) (nth i bss []) /\ (nth k (nth i bss []) 0%nat < length h)%nat.
Proof.
  intros Ht Hi Hk. destruct (toff_list h bt o bss t i Ht Hi) as [hd [_ [Hc [_ [_ [Hlt _]]]]]].
  destruct (chain_nth h d _ hd _ k Hc Hk) as [nxt [Hb _]]. exists nxt. split; [exact Hb|].
  assert (Hin : In (nth k (nth i bss []) 0%nat) (nth i bss [])).
  { apply nth_In. rewrite (chain_length h _ hd _ Hc). exact Hk. }
  split; [exact Hin|]. rewrite Forall_forall in Hlt. exact (Hlt _ Hin).
Qed.

(* ------------------------------------------------------------------ 1: getTotalLeaks *)
Lemma src_table_getTotalLeaks_loop1_off : forall per h bt o bss t fuel0, table_at_off h bt o bss t ->
  (forall i, (i < nbuckets)%nat -> (length (nth i t []) < fuel0)%nat) ->
  forall r j fuel acc, (j + r = 73)%nat -> (r < fuel)%nat -> 0 <= acc -> acc + Z.of_nat (t_count (skipn j t)) < 2 ^ 64 ->
  src_table_getTotalLeaks_loop1 fuel0 fuel h (HPtr bt (Z.of_nat o)) (period_code per) acc (Z.of_nat j) =
  Go (acc + Z.of_N (t_total per (skipn j t)), 73).
Proof.
  intros per h bt o bss t fuel0 Ht Hf0. pose proof Ht as [Hlt _]. rewrite nbuckets_73 in Hlt.
  induction r as [|r IH]; intros j fuel acc Hj Hf Ha Hr.
  - assert (Hj' : j = 73%nat) by lia. subst j. destruct fuel as [|fuel]; [lia|]. cbn [src_table_getTotalLeaks_loop1].
    rewrite lt73_false. rewrite (skipn_all2 (n := 73) t) by lia. cbn [t_total]. change (Z.of_N 0) with 0. rewrite Z.add_0_r.
    reflexivity.
  - assert (Hj' : (j < 73)%nat) by lia. assert (Hjn : (j < nbuckets)%nat) by (rewrite nbuckets_73; exact Hj').
    destruct fuel as [|fuel]; [lia|]. cbn [src_table_getTotalLeaks_loop1].
    rewrite (lt73_true j Hj'). rewrite (toff_padd h bt o bss t j Ht) by lia.
    rewrite (skipn_cons_nth (A := bucket) [] t j) in Hr |- * by lia. cbn [t_count t_total] in Hr |- *.
    rewrite (src_list_getTotalLeaks_spec fuel0 h _ _ _ per (toff_list h bt o bss t j Ht Hjn) (Hf0 j Hjn)) by lia.
    pose proof (l_total_le per (nth j t [])) as Hle.
    rewrite !(cw_u_small 64 (acc + Z.of_N (l_total per (nth j t [])))) by lia.
    rewrite (inc_s j Hj').
    rewrite (IH (S j) fuel (acc + Z.of_N (l_total per (nth j t [])))) by lia.
    f_equal. f_equal. rewrite N2Z.inj_add. lia.
Qed.
Theorem src_table_getTotalLeaks_off_spec : forall fuel h bt o bss t per, table_at_off h bt o bss t ->
  (forall i, (i < nbuckets)%nat -> (length (nth i t []) < fuel)%nat) -> Z.of_nat (t_count t) < 2 ^ 64 -> (73 < fuel)%nat ->
  src_table_getTotalLeaks fuel h (HPtr bt (Z.of_nat o)) (period_code per) = FOk (Z.of_N (t_total per t)).
Proof.
  intros fuel h bt o bss t per Ht Hf Hr Hfl. unfold src_table_getTotalLeaks. cbv zeta.
  pose proof (src_table_getTotalLeaks_loop1_off per h bt o bss t fuel Ht Hf 73 0 fuel 0) as E.
  change (Z.of_nat 0) with 0 in E. change (skipn 0 t) with t in E. rewrite E by lia. rewrite Z.add_0_l. reflexivity.
Qed.

(* ------------------------------------------------------------------ 2: getFirstLeak *)
Lemma src_table_getFirstLeak_loop1_off : forall per h bt o bss t fuel0, table_at_off h bt o bss t ->
  (forall i, (i < nbuckets)%nat -> (length (nth i t []) < fuel0)%nat) ->
  forall r j fuel, (j + r = 73)%nat -> (r < fuel)%nat ->
  src_table_getFirstLeak_loop1 fuel0 fuel h (HPtr bt (Z.of_nat o)) (period_code per) (Z.of_nat j) =
  tfound 73 (tptr_first (fun n => is_in_period n per) (skipn j bss) (skipn j t)).
Proof.
  intros per h bt o bss t fuel0 Ht Hf0. pose proof Ht as [Hlt [Hlb _]]. rewrite nbuckets_73 in Hlt, Hlb.
  induction r as [|r IH]; intros j fuel Hj Hf.
  - assert (Hj' : j = 73%nat) by lia. subst j. destruct fuel as [|fuel]; [lia|]. cbn [src_table_getFirstLeak_loop1].
    rewrite lt73_false. rewrite (skipn_all2 (n := 73) t), (skipn_all2 (n := 73) bss) by lia. reflexivity.
  - assert (Hj' : (j < 73)%nat) by lia. assert (Hjn : (j < nbuckets)%nat) by (rewrite nbuckets_73; exact Hj').
    destruct fuel as [|fuel]; [lia|]. cbn [src_table_getFirstLeak_loop1].
    rewrite (lt73_true j Hj'). rewrite (toff_padd h bt o bss t j Ht) by lia.
    rewrite (src_list_getFirstLeak_spec fuel0 h _ _ _ per (toff_list h bt o bss t j Ht Hjn) (Hf0 j Hjn)).
    rewrite (skipn_cons_nth (A := bucket) [] t j), (skipn_cons_nth [] bss j) by lia. cbn [tptr_first]. cbv beta iota zeta.
    destruct (ptr_first (fun n => is_in_period n per) (nth j bss []) (nth j t [])) as [|blk c].
    + rewrite z2b_false_null. rewrite (inc_s j Hj'). apply IH; lia.
    + rewrite z2b_true_ptr. reflexivity.
Qed.
Theorem src_table_getFirstLeak_off_spec : forall fuel h bt o bss t per, table_at_off h bt o bss t ->
  (forall i, (i < nbuckets)%nat -> (length (nth i t []) < fuel)%nat) -> (73 < fuel)%nat ->
  src_table_getFirstLeak fuel h (HPtr bt (Z.of_nat o)) (period_code per) = FOk (tptr_first (fun n => is_in_period n per) bss t).
Proof.
  intros fuel h bt o bss t per Ht Hf Hfl. unfold src_table_getFirstLeak. cbv zeta.
  pose proof (src_table_getFirstLeak_loop1_off per h bt o bss t fuel Ht Hf 73 0 fuel) as E.
  change (Z.of_nat 0) with 0 in E. change (skipn 0 t) with t in E. change (skipn 0 bss) with bss in E. rewrite E by lia.
  unfold tfound. destruct (tptr_first (fun n => is_in_period n per) bss t); reflexivity.
Qed.
(* what the pointer means: C04_HeapTable.tptr_first_none / tptr_first_some, for an embedded table *)
Theorem toff_first_none : forall h bt o bss t f, table_at_off h bt o bss t -> (tptr_first f bss t = HNull <-> t_first f t = None).
Proof. intros h bt o bss t f Ht. apply tptr_first_none. exact (toff_lengths h bt o bss t Ht). Qed.
Theorem toff_first_some : forall h bt o bss t f n, table_at_off h bt o bss t -> t_first f t = Some n ->
  exists b nxt, tptr_first f bss t = HPtr b 0 /\ In b (concat bss) /\ hblock h b = node_cells n nxt.
Proof. intros h bt o bss t f n Ht Hs. exact (tptr_first_some h f bss t n (toff_chains h bt o bss t Ht) Hs). Qed.

(* ------------------------------------------------------------------ 3: getNextLeak *)
Lemma src_table_getNextLeak_loop1_off : forall per h bt o bss t fuel0, table_at_off h bt o bss t ->
  (forall i, (i < nbuckets)%nat -> (length (nth i t []) < fuel0)%nat) ->
  forall r j fuel nd, (j + r = 73)%nat -> (r < fuel)%nat ->
  exists st, src_table_getNextLeak_loop1 fuel0 fuel h (HPtr bt (Z.of_nat o)) (period_code per) (Z.of_nat j) nd =
  tfound st (tptr_first (fun n => is_in_period n per) (skipn j bss) (skipn j t)).
Proof.
  intros per h bt o bss t fuel0 Ht Hf0. pose proof Ht as [Hlt [Hlb _]]. rewrite nbuckets_73 in Hlt, Hlb.
  induction r as [|r IH]; intros j fuel nd Hj Hf.
  - assert (Hj' : j = 73%nat) by lia. subst j. destruct fuel as [|fuel]; [lia|]. cbn [src_table_getNextLeak_loop1].
    rewrite lt73_false. rewrite (skipn_all2 (n := 73) t), (skipn_all2 (n := 73) bss) by lia. eexists. reflexivity.
  - assert (Hj' : (j < 73)%nat) by lia. assert (Hjn : (j < nbuckets)%nat) by (rewrite nbuckets_73; exact Hj').
    destruct fuel as [|fuel]; [lia|]. cbn [src_table_getNextLeak_loop1].
    rewrite (lt73_true j Hj'). rewrite (toff_padd h bt o bss t j Ht) by lia.
    rewrite (src_list_getFirstLeak_spec fuel0 h _ _ _ per (toff_list h bt o bss t j Ht Hjn) (Hf0 j Hjn)).
    rewrite (skipn_cons_nth (A := bucket) [] t j), (skipn_cons_nth [] bss j) by lia. cbn [tptr_first]. cbv beta iota zeta.
    destruct (ptr_first (fun n => is_in_period n per) (nth j bss []) (nth j t [])) as [|blk c].
    + rewrite z2b_false_null. rewrite (inc_u j Hj'). apply IH; lia.
    + rewrite z2b_true_ptr. exists (0, HNull). reflexivity.
Qed.
(* leak = the k-th record of bucket i, which is the bucket of its key *)
Theorem src_table_getNextLeak_off_spec : forall fuel h bt o bss t i k per d, table_at_off h bt o bss t -> (i < nbuckets)%nat ->
  (k < length (nth i t []))%nat -> hashN (n_addr (nth k (nth i t []) d)) = i ->
  (forall j, (j < nbuckets)%nat -> (length (nth j t []) < fuel)%nat) -> (72 - i < fuel)%nat ->
  src_table_getNextLeak fuel h (HPtr bt (Z.of_nat o)) (HPtr (nth k (nth i bss []) 0%nat) 0) (period_code per) =
  FOk (tptr_next (fun n => is_in_period n per) i k bss t).
Proof.
  intros fuel h bt o bss t i k per d Ht Hi Hk Hh Hf Hfl. unfold src_table_getNextLeak.
  pose proof Hi as Hi'. rewrite nbuckets_73 in Hi'.
  destruct (toff_chain h bt o bss t i Ht Hi) as [p Hc].
  destruct (chain_nth h d _ p _ k Hc Hk) as [nxt [Hb Hc']].
  assert (Hp2 : hpadd h (HPtr (nth k (nth i bss []) 0%nat) 0) 2 = Some (HPtr (nth k (nth i bss []) 0%nat) 2))
    by (apply (node_padd h _ _ nxt 2 Hb); lia).
  rewrite Hp2, (node_memory h _ _ nxt Hb).
  rewrite (src_table_hash_spec fuel h (HPtr bt (Z.of_nat o)) _ (toff_key_small h bt o bss t i k d Ht Hi Hk)), Hh.
  cbv beta iota zeta.
  rewrite (toff_padd h bt o bss t i Ht) by lia.
  rewrite (src_list_getNextLeak_spec fuel h (HPtr bt (Z.of_nat (o + i))) p _ _ k per Hc Hk (Hf i Hi)). cbv beta iota zeta.
  unfold tptr_next.
  destruct (ptr_first (fun n => is_in_period n per) (skipn (S k) (nth i bss [])) (skipn (S k) (nth i t []))) as [|blk c].
  - rewrite z2b_false_null. rewrite (inc_u i Hi').
    destruct (src_table_getNextLeak_loop1_off per h bt o bss t fuel Ht Hf (72 - i) (S i) fuel HNull) as [[st1 st2] E]; [lia | lia|].
    rewrite E. unfold tfound.
    destruct (tptr_first (fun n => is_in_period n per) (skipn (S i) bss) (skipn (S i) t)); reflexivity.
  - rewrite z2b_true_ptr. reflexivity.
Qed.
(* what the pointer means: the model's t_next of that record (keys of its bucket distinct) *)
Theorem toff_next_none : forall h bt o bss t f i k d, table_at_off h bt o bss t -> (i < nbuckets)%nat ->
  (k < length (nth i t []))%nat -> hashN (n_addr (nth k (nth i t []) d)) = i -> NoDup (map n_addr (nth i t [])) ->
  (tptr_next f i k bss t = HNull <-> t_next f (nth k (nth i t []) d) t = None).
Proof.
  intros h bt o bss t f i k d Ht Hi Hk Hh Hnd. rewrite (t_next_skipn f i k d t Hk Hh Hnd). unfold tptr_next.
  destruct (toff_chain h bt o bss t i Ht Hi) as [p Hc]. destruct (chain_nth h d _ p _ k Hc Hk) as [nxt [_ Hc']].
  pose proof (ptr_first_none f _ _ (chain_length h _ nxt _ Hc')) as Hn.
  pose proof (tptr_first_none f _ _ (chains_lengths h _ _ (Forall2_skipn _ (S i) _ _ (toff_chains h bt o bss t Ht)))) as Ht'.
  destruct (ptr_first f (skipn (S k) (nth i bss [])) (skipn (S k) (nth i t []))) as [|blk c].
  - destruct Hn as [Hn _]. rewrite (Hn eq_refl). exact Ht'.
  - destruct (l_leak_from f (skipn (S k) (nth i t []))) as [n|].
    + split; discriminate.
    + destruct Hn as [_ Hn]. discriminate (Hn eq_refl).
Qed.
Theorem toff_next_some : forall h bt o bss t f i k d n, table_at_off h bt o bss t -> (i < nbuckets)%nat ->
  (k < length (nth i t []))%nat -> hashN (n_addr (nth k (nth i t []) d)) = i -> NoDup (map n_addr (nth i t [])) ->
  t_next f (nth k (nth i t []) d) t = Some n ->
  exists b nxt, tptr_next f i k bss t = HPtr b 0 /\ In b (concat bss) /\ hblock h b = node_cells n nxt.
Proof.
  intros h bt o bss t f i k d n Ht Hi Hk Hh Hnd. rewrite (t_next_skipn f i k d t Hk Hh Hnd). unfold tptr_next. intro Hs.
  destruct (toff_chain h bt o bss t i Ht Hi) as [p Hc]. destruct (chain_nth h d _ p _ k Hc Hk) as [nxt [_ Hc']].
  destruct (l_leak_from f (skipn (S k) (nth i t []))) as [n0|] eqn:E.
  - inversion Hs; subst n0. destruct (ptr_first_some h f _ nxt _ n Hc' E) as [blk [nxt' [Hp [Hin Hb]]]].
    exists blk, nxt'. rewrite Hp. split; [reflexivity|]. split; [|exact Hb].
    apply (in_bucket_in_table bss i). exact (in_skipn blk (S k) _ Hin).
  - assert (Hn : ptr_first f (skipn (S k) (nth i bss [])) (skipn (S k) (nth i t [])) = HNull)
      by (apply ptr_first_none; [exact (chain_length h _ nxt _ Hc') | exact E]).
    rewrite Hn.
    destruct (tptr_first_some h f _ _ n (Forall2_skipn _ (S i) _ _ (toff_chains h bt o bss t Ht)) Hs) as [blk [nxt' [Hp [Hin Hb]]]].
    exists blk, nxt'. split; [exact Hp|]. split; [exact (in_rest_in_table bss (S i) blk Hin) | exact Hb].
Qed.

(* ------------------------------------------------------------------ 4: node->period_ = s through a pointer into the table *)
Definition set_period (n : node) (s : stamp) : node :=
  mkNode (n_addr n) (n_size n) (n_number n) (n_file n) (n_line n) (n_kind n) s (n_stage n).
(* the table with the k-th record of bucket i replaced *)
Definition t_set (t : table) (i k : nat) (n' : node) : table := upd t i (upd (nth i t []) k n').

Lemma node_cells_set_period n nxt s : upd (node_cells n nxt) 6 (VInt (stamp_code s)) = node_cells (set_period n s) nxt.
Proof. reflexivity. Qed.
Lemma node_ok_set_period n s : node_ok n -> node_ok (set_period n s).
Proof. intro H. exact H. Qed.
Lemma t_set_length t i k n' : length (t_set t i k n') = length t.
Proof. apply upd_length. Qed.
Lemma t_set_nth_same t i k n' : (i < length t)%nat -> nth i (t_set t i k n') [] = upd (nth i t []) k n'.
Proof. intro H. apply nth_upd_same. exact H. Qed.
Lemma t_set_nth_other t i k n' j : j <> i -> nth j (t_set t i k n') [] = nth j t [].
Proof. intro H. apply nth_upd_other. intro E. apply H. symmetry. exact E. Qed.
Lemma t_set_bucket_length t i k n' j : length (nth j (t_set t i k n') []) = length (nth j t []).
Proof.
  destruct (Nat.eq_dec j i) as [->|Hne]; [|rewrite t_set_nth_other by exact Hne; reflexivity].
  destruct (Nat.lt_ge_cases i (length t)) as [L|L]; [rewrite t_set_nth_same by exact L; apply upd_length|].
  rewrite !nth_overflow; [reflexivity | exact L | rewrite t_set_length; exact L].
Qed.

(* a chain whose k-th block got another period cell is the chain of the list with the k-th record re-stamped *)
Lemma chain_set_period h h' d s : forall ns p bs k, chain h p bs ns -> NoDup bs -> (k < length ns)%nat ->
  hblock h' (nth k bs 0%nat) = upd (hblock h (nth k bs 0%nat)) 6 (VInt (stamp_code s)) ->
  (forall b, b <> nth k bs 0%nat -> hblock h' b = hblock h b) ->
  chain h' p bs (upd ns k (set_period (nth k ns d) s)).
Proof.
  induction ns as [|n ns IH]; intros p bs k Hc Hnd Hk Hb Hfr; [cbn [length] in Hk; lia|].
  apply chain_cons_inv in Hc. destruct Hc as [b [bs' [nxt [-> [-> [Hbn Hc]]]]]].
  inversion Hnd as [|x l Hnotin Hnd']; subst x l. destruct k as [|k].
  - cbn [nth] in Hb, Hfr. cbn [upd nth chain]. split; [reflexivity|]. exists nxt. split.
    + rewrite Hb, Hbn. apply node_cells_set_period.
    + apply chain_frame with (h := h); [|exact Hc]. intros b' Hin. apply Hfr. intro E. subst b'. exact (Hnotin Hin).
  - cbn [nth] in Hb, Hfr. cbn [length] in Hk. cbn [upd nth chain]. split; [reflexivity|]. exists nxt. split.
    + rewrite Hfr; [exact Hbn|]. intro E. apply Hnotin. rewrite E. apply nth_In.
      rewrite (chain_length h ns nxt bs' Hc). lia.
    + apply IH; [exact Hc | exact Hnd' | lia | exact Hb | exact Hfr].
Qed.

(* the heap after the store represents the table with that record re-stamped: same blocks, same order *)
Theorem toff_set_period : forall h bt o bss t i k d s, table_at_off h bt o bss t -> (i < nbuckets)%nat ->
  (k < length (nth i t []))%nat ->
  table_at_off (set_cell h (nth k (nth i bss []) 0%nat) 6 (VInt (stamp_code s))) bt o bss
               (t_set t i k (set_period (nth k (nth i t []) d) s)).
Proof.
  intros h bt o bss t i k d s Ht Hi Hk. set (b := nth k (nth i bss []) 0%nat).
  destruct (toff_node h bt o bss t i k d Ht Hi Hk) as [nxt [Hb [Hin Hlt]]]. fold b in Hb, Hin, Hlt.
  pose proof Ht as [Hlt_t [Hlb [Hbl [Hbt [Hnd [Hnt Hall]]]]]].
  assert (Hbbt : b <> bt). { intro E. apply Hnt. rewrite <- E. exact (tw_in_nth_concat b bss i Hin). }
  unfold table_at_off. rewrite t_set_length.
  split; [exact Hlt_t|]. split; [exact Hlb|]. split; [rewrite set_cell_block_length; exact Hbl|].
  split; [rewrite set_cell_length; exact Hbt|]. split; [exact Hnd|]. split; [exact Hnt|].
  intros j Hj. destruct (Nat.eq_dec j i) as [->|Hne].
  - rewrite t_set_nth_same by (rewrite Hlt_t; exact Hi).
    destruct (Hall i Hi) as [hd [Hl [Hc [Hd [Hok [Hltb Hth]]]]]]. exists hd.
    split. { unfold hload_ptr, hload. rewrite set_cell_other by (intro E; apply Hbbt; symmetry; exact E). exact Hl. }
    split.
    { apply (chain_set_period h _ d s _ hd _ k Hc Hd Hk).
      - fold b. apply set_cell_same. exact Hlt.
      - fold b. intros b' Hb'. apply set_cell_other. exact Hb'. }
    split; [exact Hd|]. split.
    { apply Forall_upd; [exact Hok|]. apply node_ok_set_period. rewrite Forall_forall in Hok. apply Hok. apply nth_In. exact Hk. }
    split; [rewrite set_cell_length; exact Hltb|]. rewrite set_cell_length. exact Hth.
  - rewrite t_set_nth_other by exact Hne. apply (list_at_frame h _ _ _ _ (Hall j Hj)); [apply set_cell_length | |].
    + unfold hload_ptr, hload. rewrite set_cell_other by (intro E; apply Hbbt; symmetry; exact E). reflexivity.
    + intros b' Hb'. apply set_cell_other. intro E. subst b'.
      exact (tw_concat_disjoint b bss i j Hnd (fun E => Hne (eq_sym E)) Hin Hb').
Qed.

(* ------------------------------------------------------------------ 5: tptr_first at a known position *)
(* the pointer found by ptr_first is the block at some position k; all records before k fail the test; once record k fails it
   too (it was rewritten), the search from the head finds what the search from k + 1 finds *)
Lemma ptr_first_found f d : forall ns bs b c, length bs = length ns -> ptr_first f bs ns = HPtr b c ->
  exists k, (k < length ns)%nat /\ b = nth k bs 0%nat /\ c = 0 /\ f (nth k ns d) = true /\
            forall n', f n' = false -> ptr_first f bs (upd ns k n') = ptr_first f (skipn (S k) bs) (skipn (S k) (upd ns k n')).
Proof.
  induction ns as [|n ns IH]; intros bs b c Hl Hp; [destruct bs; discriminate Hp|].
  destruct bs as [|b0 bs]; [discriminate Hl|]. cbn [length] in Hl. cbn [ptr_first] in Hp. destruct (f n) eqn:E.
  - inversion Hp; subst b c. exists 0%nat. cbn [length nth upd skipn]. split; [lia|]. split; [reflexivity|]. split; [reflexivity|].
    split; [exact E|]. intros n' Hn'. cbn [ptr_first]. rewrite Hn'. reflexivity.
  - destruct (IH bs b c) as [k [Hk [Hb [Hc [Hfk Hrest]]]]]; [lia | exact Hp|]. exists (S k). cbn [length nth upd].
    split; [lia|]. split; [exact Hb|]. split; [exact Hc|]. split; [exact Hfk|]. intros n' Hn'. cbn [ptr_first]. rewrite E.
    rewrite (Hrest n' Hn'). reflexivity.
Qed.

(* the same for the table: the pointer is the k-th block of bucket i; once that record fails the test, getFirstLeak of the
   new table is getNextLeak of that record *)
Lemma tptr_first_found f d : forall t bss b c, Forall2 (fun (bs : list nat) (bk : bucket) => length bs = length bk) bss t ->
  tptr_first f bss t = HPtr b c ->
  exists i k, (i < length t)%nat /\ (k < length (nth i t []))%nat /\ b = nth k (nth i bss []) 0%nat /\ c = 0 /\
              f (nth k (nth i t []) d) = true /\
              forall n', f n' = false -> tptr_first f bss (t_set t i k n') = tptr_next f i k bss (t_set t i k n').
Proof.
  intros t bss b c H. revert b c. induction H as [|bs bk bss t Hl H IH]; intros b c Hp; [discriminate Hp|].
  cbn [tptr_first] in Hp. destruct (ptr_first f bs bk) as [|b1 c1] eqn:E.
  - destruct (IH b c Hp) as [i [k [Hi [Hk [Hb [Hc [Hf Hrest]]]]]]]. exists (S i), k. cbn [length nth].
    split; [lia|]. split; [exact Hk|]. split; [exact Hb|]. split; [exact Hc|]. split; [exact Hf|]. intros n' Hn'.
    unfold t_set. cbn [nth upd tptr_first]. rewrite E. unfold t_set in Hrest. rewrite (Hrest n' Hn').
    unfold tptr_next. cbn [nth skipn]. reflexivity.
  - inversion Hp; subst b1 c1. destruct (ptr_first_found f d bk bs b c Hl E) as [k [Hk [Hb [Hc [Hf Hrest]]]]].
    exists 0%nat, k. cbn [length nth]. split; [lia|]. split; [exact Hk|]. split; [exact Hb|]. split; [exact Hc|].
    split; [exact Hf|]. intros n' Hn'. unfold t_set, tptr_next. cbn [nth upd tptr_first skipn]. rewrite (Hrest n' Hn'). reflexivity.
Qed.

(* ------------------------------------------------------------------ the statements are not vacuous *)
(* the detector-shaped block: 3 cells, the 73 heads of C04_HeapTable.ext_block, 4 cells; the records of ext_heap moved up by one *)
Definition exo_block : list val := [VInt 0; VInt 2; VInt 0] ++ ext_block ++ [VInt 1; VInt 7; VInt 0; VInt 0].
Definition exo_heap : heap := [exo_block; node_cells ex_n1 HNull; node_cells ex_n2 (HPtr 1 0); node_cells ext_n3 HNull].
Example exo_getTotalLeaks : src_table_getTotalLeaks 100 exo_heap (HPtr 0 3) (period_code PEnabled) = FOk 2.
Proof. vm_compute. reflexivity. Qed.
Example exo_getFirstLeak : src_table_getFirstLeak 100 exo_heap (HPtr 0 3) (period_code PEnabled) = FOk (HPtr 1 0).
Proof. vm_compute. reflexivity. Qed.
Example exo_getNextLeak : src_table_getNextLeak 100 exo_heap (HPtr 0 3) (HPtr 1 0) (period_code PEnabled) = FOk (HPtr 3 0).
Proof. vm_compute. reflexivity. Qed.
Example exo_getNextLeak_last : src_table_getNextLeak 100 exo_heap (HPtr 0 3) (HPtr 3 0) (period_code PAll) = FOk HNull.
Proof. vm_compute. reflexivity. Qed.
(* with `this` at cell 0 the walk reads the three leading scalar cells as heads: an error, not an answer *)
Example exo_wrong_offset : src_table_getTotalLeaks 100 exo_heap (HPtr 0 0) (period_code PEnabled) = FOob.
Proof. vm_compute. reflexivity. Qed.
