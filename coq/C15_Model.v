(* C15 -- injected out-of-memory hits exactly the designated allocations.
   Executable mirror of FailableMemoryAllocator / LocationToFailAllocNode (src/CppUTest/TestMemoryAllocator.cpp)
   and of the C-level out-of-memory simulation (src/CppUTest/TestHarness_c.cpp), plus the model-free oracle `spec`.
   No proofs in this file. *)
From Coq Require Import ZArith NArith Bool List.
From CppUVerif Require Import lib.Str.
Import ListNotations.
Local Open Scope Z_scope.

(* ------------------------------------------------------------------ scenario / observation types *)
Definition loc := (list N * N)%type.                       (* file name (C string, no NUL) and line *)
Definition loc_eqb (a b : loc) : bool := bytes_eqb (fst a) (fst b) && N.eqb (snd a) (snd b).

(* how the allocation reaches the allocator (the allocator family of the history) *)
Inductive family := FDirect | FMalloc | FCalloc | FStrdup | FStrndup | FNew | FNewArr | FNewNT | FNewArrNT.

Inductive op :=
| FailG (n : Z)                    (* failAllocNumber(n) *)
| FailAt (n : Z) (l : loc)         (* failNthAllocAt(n, file, line) *)
| Alloc (f : family) (l : loc)     (* one allocation request reaching alloc_memory(size, file, line) *)
| Check                            (* checkAllFailedAllocsWereDone() inside a test *)
| Clear.                           (* clearFailedAllocs() *)

Inductive ares := ROk | RNull | RBadAlloc | RCrash.
Inductive report := RepG (n : Z) | RepL (l : loc)            (* what the "never done" failure names *)
                  | RepAnon.                                (* a failure whose text names nothing recognisable (never produced by the model) *)
Inductive alloc_id := ADefault | ACustom | ANull.           (* which allocator is the current malloc allocator *)
Inductive oitem :=
| OAlloc (r : ares)
| OCheck (rep : option report)                              (* None = the check passes *)
| OReset (a : alloc_id).                                    (* current malloc allocator after set_not_out_of_memory *)

Inductive cfam := CMalloc | CCalloc | CStrdup | CStrndup.
Inductive cop :=
| CSetOOM                          (* cpputest_malloc_set_out_of_memory() *)
| CSetNot                          (* cpputest_malloc_set_not_out_of_memory() *)
| CCountdown (n : Z)               (* cpputest_malloc_set_out_of_memory_countdown(n) *)
| CAlloc (f : cfam).               (* cpputest_malloc / calloc / strdup / strndup *)

Inductive scenario :=
| SFail (ops : list op)
| SCount (custom : bool) (cops : list cop).   (* custom: a test-installed malloc allocator is current at the start *)

(* ------------------------------------------------------------------ model: FailableMemoryAllocator *)
Record node := { n_num : Z; n_act : Z; n_loc : option loc }.    (* allocNumberToFail_, actualAllocNumber_, file_/line_ *)
Record st := { s_nodes : list node; s_cur : Z }.                (* head_ (head insertion), currentAllocNumber_ *)
Definition st0 : st := {| s_nodes := []; s_cur := 0 |}.

(* LocationToFailAllocNode::shouldFail (after the repair of D6: a location node never looks at the global index) *)
Definition should_fail (g : Z) (l : loc) (nd : node) : node * bool :=
  match n_loc nd with
  | Some l' =>
      if loc_eqb l l' then
        let nd' := {| n_num := n_num nd; n_act := n_act nd + 1; n_loc := n_loc nd |} in
        (nd', n_act nd' =? n_num nd')
      else (nd, false)
  | None => (nd, g =? n_num nd)
  end.

(* the loop of FailableMemoryAllocator::alloc_memory (after the repair of D7): every node sees the allocation,
   the first one that fires is remembered (found) and unlinked *)
Fixpoint walk (g : Z) (l : loc) (found : bool) (nodes : list node) : list node * bool :=
  match nodes with
  | [] => ([], found)
  | nd :: r =>
      let (nd', f) := should_fail g l nd in
      if f && negb found then walk g l true r
      else let (r', fd) := walk g l found r in (nd' :: r', fd)
  end.

(* how a failed allocation is delivered to the caller: throwing operator new -> bad_alloc, everything else NULL
   (strdup/strndup after the repair of D5) *)
Definition deliver (f : family) (failed : bool) : ares :=
  if failed then match f with FNew | FNewArr => RBadAlloc | _ => RNull end else ROk.

Definition new_node (n : Z) (l : option loc) : node := {| n_num := n; n_act := 0; n_loc := l |}.
Definition check_report (s : st) : option report :=
  match s_nodes s with
  | [] => None
  | nd :: _ => Some (match n_loc nd with Some l => RepL l | None => RepG (n_num nd) end)
  end.

Definition mstep (s : st) (o : op) : st * option oitem :=
  match o with
  | FailG n => ({| s_nodes := new_node n None :: s_nodes s; s_cur := s_cur s |}, None)
  | FailAt n l => ({| s_nodes := new_node n (Some l) :: s_nodes s; s_cur := s_cur s |}, None)
  | Alloc f l =>
      let g := s_cur s + 1 in
      let (ns, failed) := walk g l false (s_nodes s) in
      ({| s_nodes := ns; s_cur := g |}, Some (OAlloc (deliver f failed)))
  | Check => (s, Some (OCheck (check_report s)))
  | Clear => (st0, None)
  end.

Fixpoint run_from (s : st) (ops : list op) : list oitem :=
  match ops with
  | [] => []
  | o :: r => let (s', it) := mstep s o in
              match it with Some i => i :: run_from s' r | None => run_from s' r end
  end.
Fixpoint mrun (s : st) (ops : list op) : st :=
  match ops with [] => s | o :: r => mrun (fst (mstep s o)) r end.

(* ---- the code before the repairs (kept for the refutation lemmas) *)
Definition should_fail_old (g : Z) (l : loc) (nd : node) : node * bool :=
  match n_loc nd with
  | Some l' =>
      if loc_eqb l l' then
        let nd' := {| n_num := n_num nd; n_act := n_act nd + 1; n_loc := n_loc nd |} in
        (nd', n_act nd' =? n_num nd')
      else (nd, g =? n_num nd)              (* D6: falls through to the global comparison *)
  | None => (nd, g =? n_num nd)
  end.
Fixpoint walk_old (g : Z) (l : loc) (nodes : list node) : list node * bool :=
  match nodes with
  | [] => ([], false)
  | nd :: r =>
      let (nd', f) := should_fail_old g l nd in
      if f then (r, true)                    (* D7: the walk stops here, later nodes do not see the allocation *)
      else let (r', fd) := walk_old g l r in (nd' :: r', fd)
  end.
Definition deliver_old (f : family) (failed : bool) : ares :=
  if failed then match f with FNew | FNewArr => RBadAlloc | FStrdup | FStrndup => RCrash | _ => RNull end else ROk.   (* D5 *)
Definition mstep_old (s : st) (o : op) : st * option oitem :=
  match o with
  | Alloc f l =>
      let g := s_cur s + 1 in
      let (ns, failed) := walk_old g l (s_nodes s) in
      ({| s_nodes := ns; s_cur := g |}, Some (OAlloc (deliver_old f failed)))
  | _ => mstep s o
  end.
Fixpoint run_from_old (s : st) (ops : list op) : list oitem :=
  match ops with
  | [] => []
  | o :: r => let (s', it) := mstep_old s o in
              match it with Some i => i :: run_from_old s' r | None => run_from_old s' r end
  end.

(* ------------------------------------------------------------------ model: C-level out-of-memory simulation *)
(* malloc_out_of_memory_counter, originalAllocator, currentMallocAllocator (None = null pointer) *)
Record cst := { c_counter : Z; c_orig : option alloc_id; c_cur : option alloc_id }.
Definition get_cur (s : cst) : alloc_id := match c_cur s with None => ADefault | Some a => a end.   (* getCurrentMallocAllocator *)
Definition c_set_oom (s : cst) : cst :=
  {| c_counter := c_counter s;
     c_orig := match c_orig s with None => Some (get_cur s) | Some a => Some a end;
     c_cur := Some ANull |}.
Definition c_set_not (s : cst) : cst := {| c_counter := -1; c_orig := None; c_cur := c_orig s |}.
Definition c_countdown_arm (s : cst) (n : Z) : cst :=
  let s1 := {| c_counter := n; c_orig := c_orig s; c_cur := c_cur s |} in
  if n =? 0 then c_set_oom s1 else s1.
(* static void countdown() *)
Definition c_tick (s : cst) : cst :=
  if c_counter s <=? -1 then s
  else if c_counter s =? 0 then s
  else let s1 := {| c_counter := c_counter s - 1; c_orig := c_orig s; c_cur := c_cur s |} in
       if c_counter s1 =? 0 then c_set_oom s1 else s1.
Definition cdeliver (f : cfam) (failed : bool) : ares := if failed then RNull else ROk.
Definition cdeliver_old (f : cfam) (failed : bool) : ares :=
  if failed then match f with CStrdup | CStrndup => RCrash | _ => RNull end else ROk.
Definition is_null (a : alloc_id) : bool := match a with ANull => true | _ => false end.
Definition cstep (s : cst) (o : cop) : cst * option oitem :=
  match o with
  | CSetOOM => (c_set_oom s, None)
  | CSetNot => let s' := c_set_not s in (s', Some (OReset (get_cur s')))
  | CCountdown n => (c_countdown_arm s n, None)
  | CAlloc f => let s' := c_tick s in (s', Some (OAlloc (cdeliver f (is_null (get_cur s')))))
  end.
Fixpoint crun_from (s : cst) (ops : list cop) : list oitem :=
  match ops with
  | [] => []
  | o :: r => let (s', it) := cstep s o in
              match it with Some i => i :: crun_from s' r | None => crun_from s' r end
  end.
Definition cst0 (custom : bool) : cst :=
  {| c_counter := -1; c_orig := None; c_cur := Some (if custom then ACustom else ADefault) |}.

Definition run (s : scenario) : list oitem :=
  match s with
  | SFail ops => run_from st0 ops
  | SCount custom cops => crun_from (cst0 custom) cops
  end.

(* ------------------------------------------------------------------ spec (model-free): designated allocations by counting *)
(* position of the n-th allocation satisfying m among ops (which start at position pos), before the next Clear *)
Fixpoint find_nth (m : loc -> bool) (n : Z) (ops : list op) (pos : nat) : option nat :=
  match ops with
  | [] => None
  | Clear :: _ => None
  | Alloc _ l :: r =>
      if m l then (if n =? 1 then Some pos else find_nth m (n - 1) r (S pos)) else find_nth m n r (S pos)
  | _ :: r => find_nth m n r (S pos)
  end.

Inductive desig := DG (n : Z) | DL (n : Z) (l : loc).
(* the allocation a designation denotes: installed when g allocations were made since the last clear, `rest` still to come *)
Definition target (g : Z) (d : desig) (rest : list op) (pos : nat) : option nat :=
  match d with
  | DG n => find_nth (fun _ => true) (n - g) rest pos        (* the allocation with global index n *)
  | DL n l => find_nth (fun la => loc_eqb la l) n rest pos   (* the n-th allocation at l from now on *)
  end.
Record entry := { e_d : desig; e_tgt : option nat }.

(* designations installed since the last clear, each with the allocation it denotes *)
Definition sstep (g : Z) (ins : list entry) (o : op) (rest : list op) (pos : nat) : Z * list entry :=
  match o with
  | FailG n => (g, {| e_d := DG n; e_tgt := target g (DG n) rest (S pos) |} :: ins)
  | FailAt n l => (g, {| e_d := DL n l; e_tgt := target g (DL n l) rest (S pos) |} :: ins)
  | Alloc _ _ => (g + 1, ins)
  | Check => (g, ins)
  | Clear => (0, [])
  end.
Definition hits (pos : nat) (e : entry) : bool :=
  match e_tgt e with Some t => Nat.eqb t pos | None => false end.
Definition pending (pos : nat) (e : entry) : bool :=
  match e_tgt e with Some t => Nat.leb pos t | None => true end.
Definition rep_matches (d : desig) (r : report) : bool :=
  match d, r with
  | DG n, RepG m => n =? m
  | DL _ l, RepL l' => loc_eqb l l'
  | _, RepAnon => true                (* the property does not fix the wording of the failure *)
  | _, _ => false
  end.
Definition fail_res (f : family) : ares := match f with FNew | FNewArr => RBadAlloc | _ => RNull end.
Definition ares_eqb (a b : ares) : bool :=
  match a, b with ROk, ROk | RNull, RNull | RBadAlloc, RBadAlloc | RCrash, RCrash => true | _, _ => false end.
Definition alloc_id_eqb (a b : alloc_id) : bool :=
  match a, b with ADefault, ADefault | ACustom, ACustom | ANull, ANull => true | _, _ => false end.

Definition produces (o : op) : bool := match o with Alloc _ _ | Check => true | _ => false end.
Definition item_ok (ins : list entry) (o : op) (pos : nat) (it : oitem) : bool :=
  match o, it with
  | Alloc f _, OAlloc r => ares_eqb r (if existsb (hits pos) ins then fail_res f else ROk)
  | Check, OCheck None => negb (existsb (pending pos) ins)
  | Check, OCheck (Some rp) => existsb (fun e => pending pos e && rep_matches (e_d e) rp) ins
  | _, _ => false
  end.
Fixpoint check (g : Z) (ins : list entry) (ops : list op) (pos : nat) (obs : list oitem) : bool :=
  match ops with
  | [] => match obs with [] => true | _ => false end
  | o :: r =>
      let (g', ins') := sstep g ins o r pos in
      if produces o then
        match obs with
        | it :: obs' => item_ok ins o pos it && check g' ins' r (S pos) obs'
        | [] => false
        end
      else check g' ins' r (S pos) obs
  end.

(* precondition: no allocation is denoted by two designations; un-located operator new reports <unknown>:0 *)
Definition unknown_loc : loc := ([60; 117; 110; 107; 110; 111; 119; 110; 62]%N, 0%N).
Definition fam_loc_ok (f : family) (l : loc) : bool :=
  match f with FNewNT | FNewArrNT => loc_eqb l unknown_loc | _ => true end.
Definition step_valid (ins : list entry) (o : op) (pos : nat) : bool :=
  match o with
  | Alloc f l => Nat.leb (length (filter (hits pos) ins)) 1 && fam_loc_ok f l
  | _ => true
  end.
Fixpoint valid_from (g : Z) (ins : list entry) (ops : list op) (pos : nat) : bool :=
  match ops with
  | [] => true
  | o :: r => step_valid ins o pos && (let (g', ins') := sstep g ins o r pos in valid_from g' ins' r (S pos))
  end.

(* ------------------------------------------------------------------ spec: countdown in closed form *)
Inductive arming := ArmOOM | ArmCount (n : Z).
(* out of memory for the k-th allocation after the arming operation *)
Definition oom_at (arm : option arming) (k : Z) : bool :=
  match arm with
  | None => false
  | Some ArmOOM => true
  | Some (ArmCount n) => (0 <=? n) && (n <=? k)
  end.
Fixpoint ccheck (custom : bool) (arm : option arming) (k : Z) (ops : list cop) (obs : list oitem) : bool :=
  match ops with
  | [] => match obs with [] => true | _ => false end
  | CSetOOM :: r => ccheck custom (Some ArmOOM) 0 r obs
  | CCountdown n :: r => ccheck custom (Some (ArmCount n)) 0 r obs
  | CSetNot :: r =>
      match obs with
      | OReset a :: obs' => alloc_id_eqb a (if custom then ACustom else ADefault) && ccheck custom None 0 r obs'
      | _ => false
      end
  | CAlloc f :: r =>
      match obs with
      | OAlloc res :: obs' => ares_eqb res (if oom_at arm (k + 1) then RNull else ROk) && ccheck custom arm (k + 1) r obs'
      | _ => false
      end
  end.
(* documented usage: out-of-memory is armed from a not-out-of-memory state, at most one arming between two resets;
   a reset issued before out-of-memory was reached restores nothing (only judged when no custom allocator is installed) *)
Fixpoint cvalid (custom : bool) (arm : option arming) (k : Z) (ops : list cop) : bool :=
  match ops with
  | [] => true
  | CSetOOM :: r => match arm with None => cvalid custom (Some ArmOOM) 0 r | Some _ => false end
  | CCountdown n :: r => match arm with None => cvalid custom (Some (ArmCount n)) 0 r | Some _ => false end
  | CSetNot :: r => (negb custom || oom_at arm k) && cvalid custom None 0 r
  | CAlloc _ :: r => cvalid custom arm (k + 1) r
  end.

Definition spec (s : scenario) (obs : list oitem) : bool :=
  match s with
  | SFail ops => check 0 [] ops 0 obs
  | SCount custom cops => ccheck custom None 0 cops obs
  end.
Definition valid (s : scenario) : bool :=
  match s with
  | SFail ops => valid_from 0 [] ops 0
  | SCount custom cops => cvalid custom None 0 cops
  end.

(* ------------------------------------------------------------------ projections used by the Prop-level theorems *)
Fixpoint alloc_results (obs : list oitem) : list ares :=
  match obs with [] => [] | OAlloc r :: t => r :: alloc_results t | _ :: t => alloc_results t end.
Fixpoint check_flags (obs : list oitem) : list bool :=
  match obs with
  | [] => []
  | OCheck rep :: t => (match rep with Some _ => true | None => false end) :: check_flags t
  | _ :: t => check_flags t
  end.
(* per allocation of the history: fail (in the way of its family) iff an installed designation denotes it *)
Fixpoint expected_allocs (g : Z) (ins : list entry) (ops : list op) (pos : nat) : list ares :=
  match ops with
  | [] => []
  | o :: r =>
      let (g', ins') := sstep g ins o r pos in
      match o with
      | Alloc f _ => (if existsb (hits pos) ins then fail_res f else ROk) :: expected_allocs g' ins' r (S pos)
      | _ => expected_allocs g' ins' r (S pos)
      end
  end.
(* per check of the history: does some installed designation still wait for its allocation *)
Fixpoint expected_checks (g : Z) (ins : list entry) (ops : list op) (pos : nat) : list bool :=
  match ops with
  | [] => []
  | o :: r =>
      let (g', ins') := sstep g ins o r pos in
      match o with
      | Check => existsb (pending pos) ins :: expected_checks g' ins' r (S pos)
      | _ => expected_checks g' ins' r (S pos)
      end
  end.
Fixpoint zseq (start : Z) (len : nat) : list Z :=
  match len with O => [] | S k => start :: zseq (start + 1) k end.

(* the old code, for replaying the refutation witnesses *)
Definition run_old (s : scenario) : list oitem :=
  match s with
  | SFail ops => run_from_old st0 ops
  | SCount custom cops => crun_from (cst0 custom) cops
  end.
