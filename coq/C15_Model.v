(* C15 -- injected out-of-memory hits exactly the designated allocations.
   Executable mirror of FailableMemoryAllocator / LocationToFailAllocNode (src/CppUTest/TestMemoryAllocator.cpp)
   and of the C-level out-of-memory simulation (src/CppUTest/TestHarness_c.cpp), plus the model-free oracle `spec`.
   No proofs in this file. *)
From Coq Require Import ZArith NArith Bool List.
From CppUVerif Require Import lib.Str.
Import ListNotations.
Local Open Scope Z_scope.

(* ------------------------------------------------------------------ scenario / observation types *)
Definition loc := (list N * N)%type.                       (* file name (C string, no NUL) and line *)
Definition loc_eqb (a b : loc) : bool := bytes_eqb (fst a) (fst b) && N.eqb (snd a) (snd b).
Definition unknown_loc : loc := ([60; 117; 110; 107; 110; 111; 119; 110; 62]%N, 0%N).     (* "<unknown>", 0 *)

(* how the allocation reaches the allocator (the allocator family of the history) *)
Inductive family := FDirect | FMalloc | FCalloc | FStrdup | FStrndup | FNew | FNewArr | FNewNT | FNewArrNT.

Inductive op :=
| FailG (n : Z)                    (* failAllocNumber(n) *)
| FailAt (n : Z) (l : loc)         (* failNthAllocAt(n, file, line) *)
| Alloc (f : family) (l : loc)     (* one allocation request reaching alloc_memory(size, file, line) *)
| Check                            (* checkAllFailedAllocsWereDone() inside a test *)
| Clear.                           (* clearFailedAllocs() *)

Inductive ares := ROk | RNull | RBadAlloc | RCrash.
Inductive report := RepG (n : Z) | RepL (l : loc)            (* what the "never done" failure names *)
                  | RepAnon.                                (* a failure whose text names nothing recognisable (never produced by the model) *)
Inductive alloc_id := ADefault | ACustom | ANull             (* which allocator is the current malloc allocator; ANull = the one that *)
                    | AFailable.                            (* stands in while out-of-memory is simulated; AFailable = a FailableMemoryAllocator *)
Inductive oitem :=
| OAlloc (r : ares)
| OCheck (rep : option report)                              (* None = the check passes *)
| OReset (a : alloc_id)                                     (* current malloc allocator after set_not_out_of_memory *)
| OFree (failure given : bool)                              (* cpputest_free: a failure was reported / the block reached the allocator that handed it out *)
| ORealloc (r : ares) (failure intact : bool)               (* cpputest_realloc: result, failure reported, the bytes of the (old or moved) block are as written *)
| ODup (r : ares) (src_intact : bool)                       (* strdup / strndup of the string held by a tracked block *)
| OEnd (tracked : Z) (clean : bool)                         (* blocks the detector still tracks; everything handed out came back once they are released *)
| OCheckT (before after : Z) (rep : option report)          (* the check asked inside a running test: failures of that test before / after, what was reported *)
| OPhase (executed : nat).                                  (* end of setup / body / teardown: how many of its events were started *)

Definition ares_eqb (a b : ares) : bool :=
  match a, b with ROk, ROk | RNull, RNull | RBadAlloc, RBadAlloc | RCrash, RCrash => true | _, _ => false end.
Definition alloc_id_eqb (a b : alloc_id) : bool :=
  match a, b with ADefault, ADefault | ACustom, ACustom | ANull, ANull | AFailable, AFailable => true | _, _ => false end.

Inductive cfam := CMalloc | CCalloc | CStrdup | CStrndup.
Inductive cop :=
| CSetOOM                          (* cpputest_malloc_set_out_of_memory() *)
| CSetNot                          (* cpputest_malloc_set_not_out_of_memory() *)
| CCountdown (n : Z)               (* cpputest_malloc_set_out_of_memory_countdown(n) *)
| CAlloc (f : cfam).               (* cpputest_malloc / calloc / strdup / strndup *)

(* releases and reallocs interleaved with the injected failures: blocks live in slots numbered in the order of the requests *)
Inductive rop :=
| RSetOOM | RSetNot | RCountdown (n : Z)
| RAlloc (f : cfam)                (* cpputest_malloc / calloc / strdup / strndup; the result (block or NULL) takes the next slot *)
| RDup (f : cfam) (i : nat)        (* cpputest_strdup / strndup of the string held by the block in slot i; result in the next slot *)
| RFree (i : nat)                  (* cpputest_free(slot i) *)
| RRealloc (i : nat) (sz : N)      (* slot i = cpputest_realloc(slot i, sz), the slot keeps its block when NULL comes back *)
| RFailG (n : Z)                   (* failAllocNumber(n) on the FailableMemoryAllocator that is the test's malloc allocator *)
| RClearF.                         (* its clearFailedAllocs() *)

(* what a running test does besides talking to the failable allocator *)
Inductive tev :=
| TOp (o : op)                     (* designate / request / ask for the check / clear, from inside the test *)
| TAdd                             (* UtestShell::addFailure: a failure is recorded and the test function goes on *)
| TFail.                           (* a failed CHECK / FAIL(): failWith = addFailure, then the current test function is left *)

Inductive scenario :=
| SFail (ops : list op)
| SCount (custom : bool) (cops : list cop)    (* custom: a test-installed malloc allocator is current at the start *)
| SRel (backing : alloc_id) (rops : list rop)  (* backing: the malloc allocator that is current at the start (default, the test's, a failable one) *)
| STest (pre : Z) (su bo td : list tev).       (* one test: failures a plugin recorded before it starts, events of setup / body / teardown *)

(* ------------------------------------------------------------------ model: FailableMemoryAllocator *)
Record node := { n_num : Z; n_act : Z; n_loc : option loc }.    (* allocNumberToFail_, actualAllocNumber_, file_/line_ *)
Record st := { s_nodes : list node; s_cur : Z }.                (* head_ (head insertion), currentAllocNumber_ *)
Definition st0 : st := {| s_nodes := []; s_cur := 0 |}.

(* LocationToFailAllocNode::shouldFail (after the repair of D6: a location node never looks at the global index) *)
Definition should_fail (g : Z) (l : loc) (nd : node) : node * bool :=
  match n_loc nd with
  | Some l' =>
      if loc_eqb l l' then
        let nd' := {| n_num := n_num nd; n_act := n_act nd + 1; n_loc := n_loc nd |} in
        (nd', n_act nd' =? n_num nd')
      else (nd, false)
  | None => (nd, g =? n_num nd)
  end.

(* the loop of FailableMemoryAllocator::alloc_memory (after the repair of D7): every node sees the allocation,
   the first one that fires is remembered (found) and unlinked *)
Fixpoint walk (g : Z) (l : loc) (found : bool) (nodes : list node) : list node * bool :=
  match nodes with
  | [] => ([], found)
  | nd :: r =>
      let (nd', f) := should_fail g l nd in
      if f && negb found then walk g l true r
      else let (r', fd) := walk g l found r in (nd' :: r', fd)
  end.

(* how a failed allocation is delivered to the caller: throwing operator new -> bad_alloc, everything else NULL
   (strdup/strndup after the repair of D5) *)
Definition deliver (f : family) (failed : bool) : ares :=
  if failed then match f with FNew | FNewArr => RBadAlloc | _ => RNull end else ROk.

Definition new_node (n : Z) (l : option loc) : node := {| n_num := n; n_act := 0; n_loc := l |}.
Definition check_report (s : st) : option report :=
  match s_nodes s with
  | [] => None
  | nd :: _ => Some (match n_loc nd with Some l => RepL l | None => RepG (n_num nd) end)
  end.

Definition mstep (s : st) (o : op) : st * option oitem :=
  match o with
  | FailG n => ({| s_nodes := new_node n None :: s_nodes s; s_cur := s_cur s |}, None)
  | FailAt n l => ({| s_nodes := new_node n (Some l) :: s_nodes s; s_cur := s_cur s |}, None)
  | Alloc f l =>
      let g := s_cur s + 1 in
      let (ns, failed) := walk g l false (s_nodes s) in
      ({| s_nodes := ns; s_cur := g |}, Some (OAlloc (deliver f failed)))
  | Check => (s, Some (OCheck (check_report s)))
  | Clear => (st0, None)
  end.

Fixpoint run_from (s : st) (ops : list op) : list oitem :=
  match ops with
  | [] => []
  | o :: r => let (s', it) := mstep s o in
              match it with Some i => i :: run_from s' r | None => run_from s' r end
  end.
Fixpoint mrun (s : st) (ops : list op) : st :=
  match ops with [] => s | o :: r => mrun (fst (mstep s o)) r end.

(* ---- the code before the repairs (kept for the refutation lemmas) *)
Definition should_fail_old (g : Z) (l : loc) (nd : node) : node * bool :=
  match n_loc nd with
  | Some l' =>
      if loc_eqb l l' then
        let nd' := {| n_num := n_num nd; n_act := n_act nd + 1; n_loc := n_loc nd |} in
        (nd', n_act nd' =? n_num nd')
      else (nd, g =? n_num nd)              (* D6: falls through to the global comparison *)
  | None => (nd, g =? n_num nd)
  end.
Fixpoint walk_old (g : Z) (l : loc) (nodes : list node) : list node * bool :=
  match nodes with
  | [] => ([], false)
  | nd :: r =>
      let (nd', f) := should_fail_old g l nd in
      if f then (r, true)                    (* D7: the walk stops here, later nodes do not see the allocation *)
      else let (r', fd) := walk_old g l r in (nd' :: r', fd)
  end.
Definition deliver_old (f : family) (failed : bool) : ares :=
  if failed then match f with FNew | FNewArr => RBadAlloc | FStrdup | FStrndup => RCrash | _ => RNull end else ROk.   (* D5 *)
Definition mstep_old (s : st) (o : op) : st * option oitem :=
  match o with
  | Alloc f l =>
      let g := s_cur s + 1 in
      let (ns, failed) := walk_old g l (s_nodes s) in
      ({| s_nodes := ns; s_cur := g |}, Some (OAlloc (deliver_old f failed)))
  | _ => mstep s o
  end.
Fixpoint run_from_old (s : st) (ops : list op) : list oitem :=
  match ops with
  | [] => []
  | o :: r => let (s', it) := mstep_old s o in
              match it with Some i => i :: run_from_old s' r | None => run_from_old s' r end
  end.

(* ------------------------------------------------------------------ model: C-level out-of-memory simulation *)
(* malloc_out_of_memory_counter, originalAllocator, currentMallocAllocator (None = null pointer) *)
Record cst := { c_counter : Z; c_orig : option alloc_id; c_cur : option alloc_id }.
Definition get_cur (s : cst) : alloc_id := match c_cur s with None => ADefault | Some a => a end.   (* getCurrentMallocAllocator *)
Definition c_set_oom (s : cst) : cst :=
  {| c_counter := c_counter s;
     c_orig := match c_orig s with None => Some (get_cur s) | Some a => Some a end;
     c_cur := Some ANull |}.
Definition c_set_not (s : cst) : cst := {| c_counter := -1; c_orig := None; c_cur := c_orig s |}.
Definition c_countdown_arm (s : cst) (n : Z) : cst :=
  let s1 := {| c_counter := n; c_orig := c_orig s; c_cur := c_cur s |} in
  if n =? 0 then c_set_oom s1 else s1.
(* static void countdown() *)
Definition c_tick (s : cst) : cst :=
  if c_counter s <=? -1 then s
  else if c_counter s =? 0 then s
  else let s1 := {| c_counter := c_counter s - 1; c_orig := c_orig s; c_cur := c_cur s |} in
       if c_counter s1 =? 0 then c_set_oom s1 else s1.
Definition cdeliver (f : cfam) (failed : bool) : ares := if failed then RNull else ROk.
Definition cdeliver_old (f : cfam) (failed : bool) : ares :=
  if failed then match f with CStrdup | CStrndup => RCrash | _ => RNull end else ROk.
Definition is_null (a : alloc_id) : bool := match a with ANull => true | _ => false end.
Definition cstep (s : cst) (o : cop) : cst * option oitem :=
  match o with
  | CSetOOM => (c_set_oom s, None)
  | CSetNot => let s' := c_set_not s in (s', Some (OReset (get_cur s')))
  | CCountdown n => (c_countdown_arm s n, None)
  | CAlloc f => let s' := c_tick s in (s', Some (OAlloc (cdeliver f (is_null (get_cur s')))))
  end.
Fixpoint crun_from (s : cst) (ops : list cop) : list oitem :=
  match ops with
  | [] => []
  | o :: r => let (s', it) := cstep s o in
              match it with Some i => i :: crun_from s' r | None => crun_from s' r end
  end.
Definition cst0 (custom : bool) : cst :=
  {| c_counter := -1; c_orig := None; c_cur := Some (if custom then ACustom else ADefault) |}.


(* ------------------------------------------------------------------ model: releases and reallocs while failures are injected *)
(* The saved allocator (originalAllocator, c_orig), the allocator the stand-in was told it stands for
   (OutOfMemoryAllocator::realAllocator_, r_for) and the current one (c_cur; ANull = the stand-in) are three variables, as
   in TestHarness_c.cpp.  Every tracked block remembers the allocator that was current when it was handed out. *)
Inductive slot := SNull | SLive (a : alloc_id) | SFreed.
Record rst := { r_c : cst; r_for : option alloc_id; r_f : st; r_slots : list slot; r_lost : bool }.
Definition with_c (r : rst) (c : cst) : rst :=
  {| r_c := c; r_for := r_for r; r_f := r_f r; r_slots := r_slots r; r_lost := r_lost r |}.
Definition with_f (r : rst) (f : st) : rst :=
  {| r_c := r_c r; r_for := r_for r; r_f := f; r_slots := r_slots r; r_lost := r_lost r |}.
Definition with_slots (r : rst) (l : list slot) : rst :=
  {| r_c := r_c r; r_for := r_for r; r_f := r_f r; r_slots := l; r_lost := r_lost r |}.
Definition with_lost (r : rst) (b : bool) : rst :=
  {| r_c := r_c r; r_for := r_for r; r_f := r_f r; r_slots := r_slots r; r_lost := b |}.

(* cpputest_malloc_set_out_of_memory: save the current allocator once, tell the stand-in whom it stands for, install it *)
Definition r_set_oom (r : rst) : rst :=
  let c' := c_set_oom (r_c r) in
  {| r_c := c'; r_for := c_orig c'; r_f := r_f r; r_slots := r_slots r; r_lost := r_lost r |}.
Definition r_set_not (r : rst) : rst := with_c r (c_set_not (r_c r)).
Definition r_countdown_arm (r : rst) (n : Z) : rst :=
  let r1 := with_c r {| c_counter := n; c_orig := c_orig (r_c r); c_cur := c_cur (r_c r) |} in
  if n =? 0 then r_set_oom r1 else r1.
(* static void countdown() *)
Definition r_tick (r : rst) : rst :=
  let c := r_c r in
  if c_counter c <=? -1 then r
  else if c_counter c =? 0 then r
  else let r1 := with_c r {| c_counter := c_counter c - 1; c_orig := c_orig c; c_cur := c_cur c |} in
       if c_counter (r_c r1) =? 0 then r_set_oom r1 else r1.

(* the allocator an allocator stands for: its actualAllocator() and the receiver of its free_memory / freeMemoryLeakNode.
   OutOfMemoryAllocator forwards to realAllocator_ (never unset when it is current; ANull is the total function's default),
   every other allocator is itself *)
Definition resolve (r : rst) (a : alloc_id) : alloc_id :=
  match a with ANull => match r_for r with Some x => x | None => ANull end | _ => a end.
(* before 4104eb1 NullUnknownAllocator itself was installed: its own actual allocator, and its free_memory does nothing *)
Definition resolve_old (r : rst) (a : alloc_id) : alloc_id := a.

Fixpoint set_slot (l : list slot) (i : nat) (s : slot) : list slot :=
  match l, i with
  | [], _ => []
  | _ :: t, O => s :: t
  | x :: t, S j => x :: set_slot t j s
  end.
Fixpoint count_live (l : list slot) : Z :=
  match l with [] => 0 | SLive _ :: t => 1 + count_live t | _ :: t => count_live t end.

(* one request reaching alloc_memory of the current malloc allocator: refused by the stand-in, shown to the pending
   failures of a FailableMemoryAllocator (at <unknown>:0 ... the walk above), granted by anything else.  The record of the
   block comes from allocMemoryLeakNode: the same refusal from the stand-in, never a pending failure *)
Definition r_request (r : rst) : rst * bool :=
  match get_cur (r_c r) with
  | ANull => (r, true)
  | AFailable =>
      let g := s_cur (r_f r) + 1 in
      let (ns, failed) := walk g unknown_loc false (s_nodes (r_f r)) in
      (with_f r {| s_nodes := ns; s_cur := g |}, failed)
  | _ => (r, false)
  end.
(* cpputest_malloc_location: countdown(), then the request; calloc / strdup / strndup are built on it *)
Definition r_alloc (r : rst) : rst * ares :=
  let r1 := r_tick r in
  let cur := get_cur (r_c r1) in
  let (r2, failed) := r_request r1 in
  (with_slots r2 (r_slots r2 ++ [if failed then SNull else SLive cur]), if failed then RNull else ROk).

(* MemoryLeakDetector::deallocMemory with the current malloc allocator: checkForCorruption compares the actual allocators
   (different allocators here have different names), then the current allocator's free_memory gets the block *)
Definition r_free (rs : rst -> alloc_id -> alloc_id) (r : rst) (i : nat) : rst * oitem :=
  match nth_error (r_slots r) i with
  | Some (SLive a) =>
      let cur := get_cur (r_c r) in
      let mismatch := negb (alloc_id_eqb (rs r a) (rs r cur)) in
      let given := alloc_id_eqb (rs r cur) a in
      (with_lost (with_slots r (set_slot (r_slots r) i SFreed)) (r_lost r || negb given), OFree mismatch given)
  | _ => (r, OFree false false)                         (* free(NULL): nothing happens *)
  end.
(* MemoryLeakDetector::reallocMemory: the same comparison, then the record for the new block is asked from the current
   allocator; refused -> NULL and the old record is put back; granted -> PlatformSpecificRealloc, recorded under the current one *)
Definition r_realloc (rs : rst -> alloc_id -> alloc_id) (r : rst) (i : nat) : rst * oitem :=
  let cur := get_cur (r_c r) in
  match nth_error (r_slots r) i with
  | Some (SLive a) =>
      let mismatch := negb (alloc_id_eqb (rs r a) (rs r cur)) in
      if is_null cur then (r, ORealloc RNull mismatch true)
      else (with_slots r (set_slot (r_slots r) i (SLive cur)), ORealloc ROk mismatch true)
  | Some SNull =>                                       (* realloc(NULL, n) *)
      if is_null cur then (r, ORealloc RNull false true)
      else (with_slots r (set_slot (r_slots r) i (SLive cur)), ORealloc ROk false true)
  | _ => (r, ORealloc RNull false false)                (* a released block / no such slot: outside the precondition *)
  end.

Definition rstep_gen (rs : rst -> alloc_id -> alloc_id) (r : rst) (o : rop) : rst * option oitem :=
  match o with
  | RSetOOM => (r_set_oom r, None)
  | RSetNot => let r' := r_set_not r in (r', Some (OReset (get_cur (r_c r'))))
  | RCountdown n => (r_countdown_arm r n, None)
  | RAlloc _ => let (r', res) := r_alloc r in (r', Some (OAlloc res))
  | RDup _ _ => let (r', res) := r_alloc r in (r', Some (ODup res true))
  | RFree i => let (r', it) := r_free rs r i in (r', Some it)
  | RRealloc i _ => let (r', it) := r_realloc rs r i in (r', Some it)
  | RFailG n => (with_f r {| s_nodes := new_node n None :: s_nodes (r_f r); s_cur := s_cur (r_f r) |}, None)
  | RClearF => (with_f r st0, None)
  end.
Fixpoint rrun_gen (rs : rst -> alloc_id -> alloc_id) (r : rst) (ops : list rop) : list oitem :=
  match ops with
  | [] => [OEnd (count_live (r_slots r)) (negb (r_lost r))]
  | o :: t => let (r', it) := rstep_gen rs r o in
              match it with Some i => i :: rrun_gen rs r' t | None => rrun_gen rs r' t end
  end.
Fixpoint rmrun_gen (rs : rst -> alloc_id -> alloc_id) (r : rst) (ops : list rop) : rst :=
  match ops with [] => r | o :: t => rmrun_gen rs (fst (rstep_gen rs r o)) t end.
Definition rstep := rstep_gen resolve.
Definition rrun_from := rrun_gen resolve.
Definition rmrun := rmrun_gen resolve.
Definition rst0 (b : alloc_id) : rst :=
  {| r_c := {| c_counter := -1; c_orig := None; c_cur := Some b |}; r_for := None; r_f := st0; r_slots := []; r_lost := false |}.


(* ------------------------------------------------------------------ model: the check asked from inside a running test *)
(* checkAllFailedAllocsWereDone() reports through UtestShell::getCurrent()->failWith(...): the failure is added to the
   running test (whatever that test has recorded before) and the current test function -- setup, body or teardown -- is
   left.  Utest::run: the body runs only when setup was not left, teardown always.
   t_n = failures recorded so far for the running test (UtestShell::hasFailed_ is set by every addFailure of the test). *)
Record tst := { t_f : st; t_n : Z }.
Definition with_n (t : tst) (n : Z) : tst := {| t_f := t_f t; t_n := n |}.
(* mute = the variant that keeps quiet once the test has a failure (not the code; kept for the refutation lemma) *)
Definition tstep_gen (mute : bool) (t : tst) (e : tev) : tst * option oitem * bool :=
  match e with
  | TOp Check =>
      match (if mute && (0 <? t_n t) then None else check_report (t_f t)) with
      | None => (t, Some (OCheckT (t_n t) (t_n t) None), false)
      | Some r => (with_n t (t_n t + 1), Some (OCheckT (t_n t) (t_n t + 1) (Some r)), true)
      end
  | TOp o => let (s', it) := mstep (t_f t) o in ({| t_f := s'; t_n := t_n t |}, it, false)
  | TAdd => (with_n t (t_n t + 1), None, false)
  | TFail => (with_n t (t_n t + 1), None, true)
  end.
Definition tnext (mute : bool) (t : tst) (e : tev) : tst := fst (fst (tstep_gen mute t e)).
Definition tleaves (mute : bool) (t : tst) (e : tev) : bool := snd (tstep_gen mute t e).
(* how many events of a test function are started (the one that leaves it included), and whether it was left *)
Fixpoint texec (mute : bool) (t : tst) (evs : list tev) : nat * bool :=
  match evs with
  | [] => (O, false)
  | e :: r => if tleaves mute t e then (1%nat, true)
              else let (k, l) := texec mute (tnext mute t e) r in (S k, l)
  end.
(* items and final state of a list of events that are all carried out *)
Fixpoint titems (mute : bool) (t : tst) (evs : list tev) : list oitem :=
  match evs with
  | [] => []
  | e :: r => match snd (fst (tstep_gen mute t e)) with
              | Some i => i :: titems mute (tnext mute t e) r
              | None => titems mute (tnext mute t e) r
              end
  end.
Fixpoint tmrun (mute : bool) (t : tst) (evs : list tev) : tst :=
  match evs with [] => t | e :: r => tmrun mute (tnext mute t e) r end.
Definition tst0 (pre : Z) : tst := {| t_f := st0; t_n := pre |}.
(* the events carried out in setup, body, teardown *)
Definition tparts (mute : bool) (pre : Z) (su bo td : list tev) : list tev * list tev * list tev :=
  let t0 := tst0 pre in
  let (k1, l1) := texec mute t0 su in
  let e1 := firstn k1 su in
  let t1 := tmrun mute t0 e1 in
  let k2 := if l1 then O else fst (texec mute t1 bo) in
  let e2 := firstn k2 bo in
  let t2 := tmrun mute t1 e2 in
  let e3 := firstn (fst (texec mute t2 td)) td in
  (e1, e2, e3).
Definition trun_gen (mute : bool) (pre : Z) (su bo td : list tev) : list oitem :=
  let '(e1, e2, e3) := tparts mute pre su bo td in
  let t0 := tst0 pre in
  let t1 := tmrun mute t0 e1 in
  let t2 := tmrun mute t1 e2 in
  titems mute t0 e1 ++ OPhase (length e1) :: titems mute t1 e2 ++ OPhase (length e2) :: titems mute t2 e3 ++ [OPhase (length e3)].
Fixpoint ops_of (evs : list tev) : list op :=
  match evs with [] => [] | TOp o :: r => o :: ops_of r | _ :: r => ops_of r end.
(* the allocator's history as the test goes through it *)
Definition teff (pre : Z) (su bo td : list tev) : list tev :=
  let '(e1, e2, e3) := tparts false pre su bo td in e1 ++ e2 ++ e3.

Definition run (s : scenario) : list oitem :=
  match s with
  | SFail ops => run_from st0 ops
  | SCount custom cops => crun_from (cst0 custom) cops
  | SRel b rops => rrun_from (rst0 b) rops
  | STest pre su bo td => trun_gen false pre su bo td
  end.

(* ------------------------------------------------------------------ spec (model-free): designated allocations by counting *)
(* position of the n-th allocation satisfying m among ops (which start at position pos), before the next Clear *)
Fixpoint find_nth (m : loc -> bool) (n : Z) (ops : list op) (pos : nat) : option nat :=
  match ops with
  | [] => None
  | Clear :: _ => None
  | Alloc _ l :: r =>
      if m l then (if n =? 1 then Some pos else find_nth m (n - 1) r (S pos)) else find_nth m n r (S pos)
  | _ :: r => find_nth m n r (S pos)
  end.

Inductive desig := DG (n : Z) | DL (n : Z) (l : loc).
(* the allocation a designation denotes: installed when g allocations were made since the last clear, `rest` still to come *)
Definition target (g : Z) (d : desig) (rest : list op) (pos : nat) : option nat :=
  match d with
  | DG n => find_nth (fun _ => true) (n - g) rest pos        (* the allocation with global index n *)
  | DL n l => find_nth (fun la => loc_eqb la l) n rest pos   (* the n-th allocation at l from now on *)
  end.
Record entry := { e_d : desig; e_tgt : option nat }.

(* designations installed since the last clear, each with the allocation it denotes *)
Definition sstep (g : Z) (ins : list entry) (o : op) (rest : list op) (pos : nat) : Z * list entry :=
  match o with
  | FailG n => (g, {| e_d := DG n; e_tgt := target g (DG n) rest (S pos) |} :: ins)
  | FailAt n l => (g, {| e_d := DL n l; e_tgt := target g (DL n l) rest (S pos) |} :: ins)
  | Alloc _ _ => (g + 1, ins)
  | Check => (g, ins)
  | Clear => (0, [])
  end.
Definition hits (pos : nat) (e : entry) : bool :=
  match e_tgt e with Some t => Nat.eqb t pos | None => false end.
Definition pending (pos : nat) (e : entry) : bool :=
  match e_tgt e with Some t => Nat.leb pos t | None => true end.
Definition rep_matches (d : desig) (r : report) : bool :=
  match d, r with
  | DG n, RepG m => n =? m
  | DL _ l, RepL l' => loc_eqb l l'
  | _, RepAnon => true                (* the property does not fix the wording of the failure *)
  | _, _ => false
  end.
Definition fail_res (f : family) : ares := match f with FNew | FNewArr => RBadAlloc | _ => RNull end.

Definition produces (o : op) : bool := match o with Alloc _ _ | Check => true | _ => false end.
Definition item_ok (ins : list entry) (o : op) (pos : nat) (it : oitem) : bool :=
  match o, it with
  | Alloc f _, OAlloc r => ares_eqb r (if existsb (hits pos) ins then fail_res f else ROk)
  | Check, OCheck None => negb (existsb (pending pos) ins)
  | Check, OCheck (Some rp) => existsb (fun e => pending pos e && rep_matches (e_d e) rp) ins
  | _, _ => false
  end.
Fixpoint check (g : Z) (ins : list entry) (ops : list op) (pos : nat) (obs : list oitem) : bool :=
  match ops with
  | [] => match obs with [] => true | _ => false end
  | o :: r =>
      let (g', ins') := sstep g ins o r pos in
      if produces o then
        match obs with
        | it :: obs' => item_ok ins o pos it && check g' ins' r (S pos) obs'
        | [] => false
        end
      else check g' ins' r (S pos) obs
  end.

(* precondition: no allocation is denoted by two designations; un-located operator new reports <unknown>:0 *)
Definition fam_loc_ok (f : family) (l : loc) : bool :=
  match f with FNewNT | FNewArrNT => loc_eqb l unknown_loc | _ => true end.
Definition step_valid (ins : list entry) (o : op) (pos : nat) : bool :=
  match o with
  | Alloc f l => Nat.leb (length (filter (hits pos) ins)) 1 && fam_loc_ok f l
  | _ => true
  end.
Fixpoint valid_from (g : Z) (ins : list entry) (ops : list op) (pos : nat) : bool :=
  match ops with
  | [] => true
  | o :: r => step_valid ins o pos && (let (g', ins') := sstep g ins o r pos in valid_from g' ins' r (S pos))
  end.

(* ------------------------------------------------------------------ spec: countdown in closed form *)
Inductive arming := ArmOOM | ArmCount (n : Z).
(* out of memory for the k-th allocation after the arming operation *)
Definition oom_at (arm : option arming) (k : Z) : bool :=
  match arm with
  | None => false
  | Some ArmOOM => true
  | Some (ArmCount n) => (0 <=? n) && (n <=? k)
  end.
Fixpoint ccheck (custom : bool) (arm : option arming) (k : Z) (ops : list cop) (obs : list oitem) : bool :=
  match ops with
  | [] => match obs with [] => true | _ => false end
  | CSetOOM :: r => ccheck custom (Some ArmOOM) 0 r obs
  | CCountdown n :: r => ccheck custom (Some (ArmCount n)) 0 r obs
  | CSetNot :: r =>
      match obs with
      | OReset a :: obs' => alloc_id_eqb a (if custom then ACustom else ADefault) && ccheck custom None 0 r obs'
      | _ => false
      end
  | CAlloc f :: r =>
      match obs with
      | OAlloc res :: obs' => ares_eqb res (if oom_at arm (k + 1) then RNull else ROk) && ccheck custom arm (k + 1) r obs'
      | _ => false
      end
  end.
(* documented usage: out-of-memory is armed from a not-out-of-memory state, at most one arming between two resets;
   a reset issued before out-of-memory was reached restores nothing (only judged when no custom allocator is installed) *)
Fixpoint cvalid (custom : bool) (arm : option arming) (k : Z) (ops : list cop) : bool :=
  match ops with
  | [] => true
  | CSetOOM :: r => match arm with None => cvalid custom (Some ArmOOM) 0 r | Some _ => false end
  | CCountdown n :: r => match arm with None => cvalid custom (Some (ArmCount n)) 0 r | Some _ => false end
  | CSetNot :: r => (negb custom || oom_at arm k) && cvalid custom None 0 r
  | CAlloc _ :: r => cvalid custom arm (k + 1) r
  end.


(* ------------------------------------------------------------------ spec: releases and reallocs (model-free, by counting) *)
(* what the property fixes, told from the scenario alone: which requests are refused (closed form of the arming, the
   global index among the requests that reach a failable allocator), that no release and no realloc raises a failure,
   that a released block reaches the allocator it came from, that realloc returns NULL exactly while out-of-memory is
   simulated and then keeps the block valid and tracked, and that a reset brings back the allocator of the start *)
Inductive sslot := QNull | QLive | QFreed.
Record qst := { q_arm : option arming; q_k : Z; q_g : Z; q_D : list Z; q_slots : list sslot }.
Definition qst0 : qst := {| q_arm := None; q_k := 0; q_g := 0; q_D := []; q_slots := [] |}.
Definition is_failable (a : alloc_id) : bool := match a with AFailable => true | _ => false end.
Definition is_default (a : alloc_id) : bool := match a with ADefault => true | _ => false end.
Definition q_oom_next (s : qst) : bool := oom_at (q_arm s) (q_k s + 1).      (* the next request finds out-of-memory *)
Definition q_oom_now (s : qst) : bool := oom_at (q_arm s) (q_k s).           (* out-of-memory is being simulated now *)
Definition q_fails (b : alloc_id) (s : qst) : bool :=
  q_oom_next s || (is_failable b && existsb (Z.eqb (q_g s + 1)) (q_D s)).
Definition q_get (s : qst) (i : nat) : sslot := nth i (q_slots s) QFreed.
Fixpoint q_set (l : list sslot) (i : nat) (x : sslot) : list sslot :=
  match l, i with
  | [], _ => []
  | _ :: t, O => x :: t
  | y :: t, S j => y :: q_set t j x
  end.
Fixpoint q_count (l : list sslot) : Z :=
  match l with [] => 0 | QLive :: t => 1 + q_count t | _ :: t => q_count t end.
Definition q_is_live (x : sslot) : bool := match x with QLive => true | _ => false end.
Definition q_is_freed (x : sslot) : bool := match x with QFreed => true | _ => false end.
Definition with_q (s : qst) (l : list sslot) : qst :=
  {| q_arm := q_arm s; q_k := q_k s; q_g := q_g s; q_D := q_D s; q_slots := l |}.
Definition q_request (b : alloc_id) (s : qst) : qst :=
  {| q_arm := q_arm s; q_k := q_k s + 1; q_g := if q_oom_next s then q_g s else q_g s + 1; q_D := q_D s;
     q_slots := q_slots s ++ [if q_fails b s then QNull else QLive] |}.
Definition qstep (b : alloc_id) (s : qst) (o : rop) : qst :=
  match o with
  | RSetOOM => {| q_arm := Some ArmOOM; q_k := 0; q_g := q_g s; q_D := q_D s; q_slots := q_slots s |}
  | RCountdown n => {| q_arm := Some (ArmCount n); q_k := 0; q_g := q_g s; q_D := q_D s; q_slots := q_slots s |}
  | RSetNot => {| q_arm := None; q_k := 0; q_g := q_g s; q_D := q_D s; q_slots := q_slots s |}
  | RAlloc _ | RDup _ _ => q_request b s
  | RFree i => if q_is_live (q_get s i) then with_q s (q_set (q_slots s) i QFreed) else s
  | RRealloc i _ => if q_oom_now s then s else with_q s (q_set (q_slots s) i QLive)
  | RFailG n => {| q_arm := q_arm s; q_k := q_k s; q_g := q_g s; q_D := n :: q_D s; q_slots := q_slots s |}
  | RClearF => {| q_arm := q_arm s; q_k := q_k s; q_g := 0; q_D := []; q_slots := q_slots s |}
  end.
Definition is_dup (f : cfam) : bool := match f with CStrdup | CStrndup => true | _ => false end.
(* documented usage: a countdown is armed from a not-out-of-memory state (set_out_of_memory may come at any time); a reset
   before out-of-memory was reached restores nothing unless the default allocator was current; blocks are released once *)
Definition rop_valid (b : alloc_id) (s : qst) (o : rop) : bool :=
  match o with
  | RSetOOM | RAlloc _ => true
  | RCountdown _ => match q_arm s with None => true | Some _ => false end
  | RSetNot => is_default b || q_oom_now s
  | RDup f i => is_dup f && q_is_live (q_get s i)
  | RFree i | RRealloc i _ => negb (q_is_freed (q_get s i))
  | RFailG _ | RClearF => is_failable b
  end.
Definition rproduces (o : rop) : bool :=
  match o with RSetOOM | RCountdown _ | RFailG _ | RClearF => false | _ => true end.
Definition bool_eqb (a b : bool) : bool := if a then b else negb b.
Definition ritem_ok (b : alloc_id) (s : qst) (o : rop) (it : oitem) : bool :=
  match o, it with
  | RSetNot, OReset a => alloc_id_eqb a b
  | RAlloc _, OAlloc res => ares_eqb res (if q_fails b s then RNull else ROk)
  | RDup _ _, ODup res intact => ares_eqb res (if q_fails b s then RNull else ROk) && intact
  | RFree i, OFree failure given => negb failure && bool_eqb given (q_is_live (q_get s i))
  | RRealloc _ _, ORealloc res failure intact => ares_eqb res (if q_oom_now s then RNull else ROk) && negb failure && intact
  | _, _ => false
  end.
Fixpoint rcheck (b : alloc_id) (s : qst) (ops : list rop) (obs : list oitem) : bool :=
  match ops with
  | [] => match obs with [OEnd tracked clean] => (tracked =? q_count (q_slots s)) && clean | _ => false end
  | o :: r =>
      if rproduces o then
        match obs with
        | it :: obs' => ritem_ok b s o it && rcheck b (qstep b s o) r obs'
        | [] => false
        end
      else rcheck b (qstep b s o) r obs
  end.
Fixpoint rvalid_from (b : alloc_id) (s : qst) (ops : list rop) : bool :=
  match ops with
  | [] => true
  | o :: r => rop_valid b s o && rvalid_from b (qstep b s o) r
  end.
Fixpoint qrun (b : alloc_id) (s : qst) (ops : list rop) : qst :=
  match ops with [] => s | o :: r => qrun b (qstep b s o) r end.


(* ------------------------------------------------------------------ spec: the check asked from inside a running test *)
(* The observation tells which events of setup / body / teardown were started (the property does not say when a test
   function is left).  Over that history the old oracle decides every request and every check -- a report iff a designation
   still waits, naming one that does -- and it never looks at the failures the test had before: a report makes the count
   grow, no report leaves it alone, whatever the count was. *)
Fixpoint take_phase (obs : list oitem) : option (list oitem * nat * list oitem) :=
  match obs with
  | [] => None
  | OPhase k :: r => Some ([], k, r)
  | it :: r => match take_phase r with Some (a, k, r') => Some (it :: a, k, r') | None => None end
  end.
Definition strip (it : oitem) : oitem := match it with OCheckT _ _ rep => OCheck rep | _ => it end.
Definition count_ok (it : oitem) : bool :=
  match it with
  | OCheckT b a None => a =? b
  | OCheckT b a (Some _) => b <? a
  | OCheck _ => false                 (* inside a test every check comes with the counts *)
  | _ => true
  end.
Definition tcheck (su bo td : list tev) (obs : list oitem) : bool :=
  match take_phase obs with
  | Some (i1, k1, r1) =>
    match take_phase r1 with
    | Some (i2, k2, r2) =>
      match take_phase r2 with
      | Some (i3, k3, []) =>
          Nat.leb k1 (length su) && Nat.leb k2 (length bo) && Nat.leb k3 (length td) &&
          (let ops := ops_of (firstn k1 su ++ firstn k2 bo ++ firstn k3 td) in
           let items := i1 ++ i2 ++ i3 in
           negb (valid_from 0 [] ops 0) || (check 0 [] ops 0 (map strip items) && forallb count_ok items))
      | _ => false
      end
    | None => false
    end
  | None => false
  end.

Definition spec (s : scenario) (obs : list oitem) : bool :=
  match s with
  | SFail ops => check 0 [] ops 0 obs
  | SCount custom cops => ccheck custom None 0 cops obs
  | SRel b rops => rcheck b qst0 rops obs
  | STest _ su bo td => tcheck su bo td obs
  end.
Definition valid (s : scenario) : bool :=
  match s with
  | SFail ops => valid_from 0 [] ops 0
  | SCount custom cops => cvalid custom None 0 cops
  | SRel b rops => negb (is_null b) && rvalid_from b qst0 rops
  | STest pre su bo td => (0 <=? pre) && valid_from 0 [] (ops_of (teff pre su bo td)) 0
  end.

(* ------------------------------------------------------------------ projections used by the Prop-level theorems *)
Fixpoint alloc_results (obs : list oitem) : list ares :=
  match obs with [] => [] | OAlloc r :: t => r :: alloc_results t | _ :: t => alloc_results t end.
Fixpoint check_flags (obs : list oitem) : list bool :=
  match obs with
  | [] => []
  | OCheck rep :: t => (match rep with Some _ => true | None => false end) :: check_flags t
  | _ :: t => check_flags t
  end.
(* per allocation of the history: fail (in the way of its family) iff an installed designation denotes it *)
Fixpoint expected_allocs (g : Z) (ins : list entry) (ops : list op) (pos : nat) : list ares :=
  match ops with
  | [] => []
  | o :: r =>
      let (g', ins') := sstep g ins o r pos in
      match o with
      | Alloc f _ => (if existsb (hits pos) ins then fail_res f else ROk) :: expected_allocs g' ins' r (S pos)
      | _ => expected_allocs g' ins' r (S pos)
      end
  end.
(* per check of the history: does some installed designation still wait for its allocation *)
Fixpoint expected_checks (g : Z) (ins : list entry) (ops : list op) (pos : nat) : list bool :=
  match ops with
  | [] => []
  | o :: r =>
      let (g', ins') := sstep g ins o r pos in
      match o with
      | Check => existsb (pending pos) ins :: expected_checks g' ins' r (S pos)
      | _ => expected_checks g' ins' r (S pos)
      end
  end.
Fixpoint zseq (start : Z) (len : nat) : list Z :=
  match len with O => [] | S k => start :: zseq (start + 1) k end.

(* the old code, for replaying the refutation witnesses *)
Definition run_old (s : scenario) : list oitem :=
  match s with
  | SFail ops => run_from_old st0 ops
  | SCount custom cops => crun_from (cst0 custom) cops
  | SRel b rops => rrun_gen resolve_old (rst0 b) rops
  | STest pre su bo td => trun_gen false pre su bo td
  end.
(* the variant that reports nothing once the running test has a failure *)
Definition run_mute (s : scenario) : list oitem :=
  match s with STest pre su bo td => trun_gen true pre su bo td | _ => run s end.
