(* C18 -- environment mode: the simulation.  Every valid scenario: the model's observation passes the oracle, and at the end
   the books of all allocators are balanced. *)
From Coq Require Import NArith Arith Bool List Lia Permutation.
From CppUVerif Require Import gen.Gen_C18 C18_Model C18_Lists C18_Inv C18_Sim C18_ModelG C18_GInv C18_GSim C18_ModelE C18_EInv C18_EBooks C18_ELife C18_EOps C18_EPop C18_GProofs.
Import ListNotations.
Local Open Scope N_scope.

(* ---------------------------------------------------------------- the script of the environment *)
Definition tagc (v : env) : N := match v_obj v with Some ser => 2 + ser | None => 2 + v_nser v end.
Definition env_ok (v : env) : Prop :=
  match v_obj v with
  | None => v_cur v <> FC /\ (v_cur v = FT -> v_tsv v = FU)
  | Some _ => v_cur v <> FU /\ (v_cur v = FT -> v_tsv v = FC)
  end.

(* one step of validity: the requests still in use afterwards *)
Definition vstep (v : env) (reqs : list (option N)) (o : eop) : option (list (option N)) :=
  match o with
  | EMal k => if k <=? 2 then Some reqs else None
  | EPush kind =>
      if (kind <=? 1) && match v_obj v with None => true | Some _ => false end && force_eqb (v_cur v) FU then Some reqs else None
  | EPop => match v_obj v with Some ser => Some (kill_tag (2 + ser) reqs) | None => None end
  | ETop => if negb (force_eqb (v_cur v) FT) then Some reqs else None
  | EUntop => Some reqs
  | EAlloc _ => Some (reqs ++ [Some (tag_of v)])
  | ERel k =>
      match nth_error reqs k with
      | Some (Some t) => if t =? tag_of v then Some (set_nth_opt k reqs) else None
      | _ => None
      end
  end.
Lemma evalid_step : forall v reqs o r, evalid_ops v reqs (o :: r) = true ->
  exists reqs', vstep v reqs o = Some reqs' /\ evalid_ops (env_step v o) reqs' r = true.
Proof.
  intros v reqs o r H. destruct o as [k|kind| | | |n|k]; cbn [evalid_ops vstep] in *.
  - apply andb_true_iff in H. destruct H as [H1 H2]. rewrite H1. eauto.
  - apply andb_true_iff in H. destruct H as [H1 H2]. rewrite H1. eauto.
  - destruct (v_obj v); [eauto | discriminate].
  - apply andb_true_iff in H. destruct H as [H1 H2]. rewrite H1. eauto.
  - eauto.
  - eauto.
  - destruct (nth_error reqs k) as [[t|]|]; try discriminate. apply andb_true_iff in H. destruct H as [H1 H2]. rewrite H1. eauto.
Qed.

(* ---------------------------------------------------------------- requests and the buffers in use *)
Record VR (reqs : list (option N)) (res : list (N * N)) (live : list lentry) : Prop := {
  vr_len : length reqs = length res;
  vr_in : forall k tg, nth_error reqs k = Some (Some tg) -> exists id n, nth_error res k = Some (id, n) /\ In (id, 0, n, tg) live;
  vr_inj : forall k k' tg tg' id n n', nth_error reqs k = Some (Some tg) -> nth_error reqs k' = Some (Some tg') ->
           nth_error res k = Some (id, n) -> nth_error res k' = Some (id, n') -> k = k'
}.

Lemma kill_tag_len : forall t l, length (kill_tag t l) = length l.
Proof. intros t l. induction l as [|[x|] r IH]; simpl; congruence. Qed.
Lemma kill_tag_nth : forall t l k tg, nth_error (kill_tag t l) k = Some (Some tg) -> nth_error l k = Some (Some tg) /\ tg <> t.
Proof.
  intros t l. induction l as [|[x|] r IH]; intros k tg H; destruct k; simpl in *; try discriminate; try (apply IH; exact H).
  destruct (x =? t) eqn:E; [discriminate|]. inversion H; subst. apply N.eqb_neq in E. auto.
Qed.
Lemma set_nth_opt_len : forall k l, length (set_nth_opt k l) = length l.
Proof. intros k l. revert k. induction l as [|x r IH]; intros [|k]; simpl; try reflexivity. rewrite IH. reflexivity. Qed.
Lemma set_nth_opt_nth : forall k l k' tg, nth_error (set_nth_opt k l) k' = Some (Some tg) -> k' <> k /\ nth_error l k' = Some (Some tg).
Proof.
  intros k l. revert k. induction l as [|x r IH]; intros [|k] [|k'] tg H; simpl in *; try discriminate; auto.
  destruct (IH k k' tg H) as [H1 H2]. split; [congruence | exact H2].
Qed.

(* ---------------------------------------------------------------- the relation between the model's world and the oracle's state *)
Record WI (w : eworld) (q : es) (reqs : list (option N)) : Prop := {
  wi_nx : ew_nx w = xlen (q_b q);
  wi_bi : BI [] (ew_obj w) (tagc (q_env q)) 0 (q_b q) (q_lv q);
  wi_ki : KIo (ew_obj w) (tagc (q_env q)) (q_b q) (q_lv q);
  wi_obj : ew_obj w = None <-> v_obj (q_env q) = None;
  wi_cur : ew_cur w = v_cur (q_env q);
  wi_tsv : ew_tsv w = v_tsv (q_env q);
  wi_env : env_ok (q_env q);
  wi_pt : q_pt q = map (fun r => (fst r, 0)) (ew_res w);
  wi_req : VR reqs (ew_res w) (q_lv q)
}.

Lemma BI_retag : forall pend t t' base b live, BI pend None t base b live -> BI pend None t' base b live.
Proof.
  intros pend t t' base b live [B1 B2 B3 B4 B5 B6 B7 B8 B9]. constructor; auto.
  intros e H. destruct (B6 e H) as [G|[G _]]; [left; exact G | congruence].
Qed.

Lemma tag_of_FC : forall v, env_ok v -> v_cur v = FC -> tag_of v = tagc v /\ v_obj v <> None.
Proof.
  intros v E C. unfold tag_of, tagc, env_ok in *. rewrite C. destruct (v_obj v); [split; [reflexivity | discriminate]|]. destruct E as [E _]. congruence.
Qed.

Lemma nth_map_res : forall (res : list (N * N)) k id n, nth_error res k = Some (id, n) ->
  nth_error (map (fun r => (fst r, 0)) res) k = Some (id, 0).
Proof. intros res k id n H. rewrite nth_error_map, H. reflexivity. Qed.

Lemma VR_alloc : forall reqs res live p n tg, VR reqs res live -> ~ In p (lids live) ->
  VR (reqs ++ [Some tg]) (res ++ [(p, n)]) ((p, 0, n, tg) :: live).
Proof.
  intros reqs res live p n tg [V1 V2 V3] Hn.
  assert (Hold : forall k tg0, nth_error reqs k = Some (Some tg0) -> (k < length reqs)%nat).
  { intros k tg0 H. apply nth_error_Some. congruence. }
  assert (Hid : forall k tg0 id n0, nth_error reqs k = Some (Some tg0) -> nth_error res k = Some (id, n0) -> In id (lids live)).
  { intros k tg0 id n0 H1 H2. destruct (V2 k tg0 H1) as [id' [n' [G1 G2]]]. rewrite G1 in H2. inversion H2; subst.
    unfold lids. apply in_map_iff. exists (id, 0, n0, tg0). auto. }
  assert (Hsplit : forall k tg0, nth_error (reqs ++ [Some tg]) k = Some (Some tg0) ->
            (nth_error reqs k = Some (Some tg0)) \/ (k = length reqs /\ tg0 = tg)).
  { intros k tg0 H. destruct (Nat.lt_ge_cases k (length reqs)) as [L|L].
    - left. rewrite nth_error_app1 in H; assumption.
    - right. rewrite nth_error_app2 in H by exact L. destruct (k - length reqs)%nat as [|j] eqn:E; [|destruct j; discriminate].
      simpl in H. inversion H. split; [lia | reflexivity]. }
  constructor.
  - rewrite !app_length. simpl. lia.
  - intros k tg0 H. destruct (Hsplit k tg0 H) as [G|[G1 G2]].
    + destruct (V2 k tg0 G) as [id [n0 [A1 A2]]]. exists id, n0. split; [|right; exact A2].
      rewrite nth_error_app1; [exact A1|]. rewrite <- V1. eapply Hold; eauto.
    + subst. exists p, n. split; [|left; reflexivity]. rewrite nth_error_app2 by lia. rewrite V1, Nat.sub_diag. reflexivity.
  - intros k k' tg1 tg2 id n1 n2 H1 H2 R1 R2.
    destruct (Hsplit k tg1 H1) as [G|[G1 G2]]; destruct (Hsplit k' tg2 H2) as [G'|[G1' G2']].
    + rewrite nth_error_app1 in R1 by (rewrite <- V1; eapply Hold; eauto).
      rewrite nth_error_app1 in R2 by (rewrite <- V1; eapply Hold; eauto). eapply V3; eauto.
    + exfalso. subst k'. rewrite nth_error_app1 in R1 by (rewrite <- V1; eapply Hold; eauto).
      rewrite nth_error_app2 in R2 by lia. rewrite V1, Nat.sub_diag in R2. simpl in R2. inversion R2; subst. apply Hn. eapply Hid; eauto.
    + exfalso. subst k. rewrite nth_error_app1 in R2 by (rewrite <- V1; eapply Hold; eauto).
      rewrite nth_error_app2 in R1 by lia. rewrite V1, Nat.sub_diag in R1. simpl in R1. inversion R1; subst. apply Hn. eapply Hid; eauto.
    + lia.
Qed.

Lemma VR_release : forall reqs res l1 l2 k id n tg, VR reqs res (l1 ++ (id, 0, n, tg) :: l2) ->
  nth_error reqs k = Some (Some tg) -> nth_error res k = Some (id, n) -> VR (set_nth_opt k reqs) res (l1 ++ l2).
Proof.
  intros reqs res l1 l2 k id n tg [V1 V2 V3] Hk Rk. constructor.
  - rewrite set_nth_opt_len. exact V1.
  - intros k' tg' H. apply set_nth_opt_nth in H. destruct H as [Hne H]. destruct (V2 k' tg' H) as [id' [n' [A1 A2]]].
    exists id', n'. split; [exact A1|]. apply in_app_iff in A2. apply in_or_app. destruct A2 as [A2|[A2|A2]]; [left; exact A2 | | right; exact A2].
    exfalso. inversion A2; subst. apply Hne. eapply V3; eauto.
  - intros k1 k2 tg1 tg2 id' n1 n2 H1 H2 R1 R2. apply set_nth_opt_nth in H1. apply set_nth_opt_nth in H2. destruct H1 as [_ H1]. destruct H2 as [_ H2].
    eapply V3; eauto.
Qed.

Lemma VR_pop : forall reqs res live t, VR reqs res live -> VR (kill_tag t reqs) res (others_of t live).
Proof.
  intros reqs res live t [V1 V2 V3]. constructor.
  - rewrite kill_tag_len. exact V1.
  - intros k tg H. apply kill_tag_nth in H. destruct H as [H Hne]. destruct (V2 k tg H) as [id [n [A1 A2]]]. exists id, n. split; [exact A1|].
    unfold others_of. apply filter_In. split; [exact A2|]. unfold owned_by, le_own. cbn [snd]. apply negb_true_iff. apply N.eqb_neq. exact Hne.
  - intros k1 k2 tg1 tg2 id n1 n2 H1 H2 R1 R2. apply kill_tag_nth in H1. apply kill_tag_nth in H2. destruct H1 as [H1 _]. destruct H2 as [H2 _].
    eapply V3; eauto.
Qed.
Lemma VR_find : forall reqs res live k tg, VR reqs res live -> NoDup (lids live) -> nth_error reqs k = Some (Some tg) ->
  exists id n l1 l2, nth_error res k = Some (id, n) /\ gfind_live live id 0 = Some (n, tg) /\ live = l1 ++ (id, 0, n, tg) :: l2 /\ gdrop_live live id 0 = l1 ++ l2.
Proof.
  intros reqs res live k tg V N H. destruct (vr_in _ _ _ V k tg H) as [id [n [A1 A2]]].
  pose proof (gfind_in live id 0 n tg N A2) as F. destruct (gfind_split _ _ _ _ _ F) as [l1 [l2 [E1 E2]]].
  exists id, n, l1, l2. auto.
Qed.

(* ---------------------------------------------------------------- one operation *)
Lemma step_quiet : forall w q reqs o w', WI w q reqs ->
  (o = ETop \/ o = EUntop \/ exists k, o = EMal k) ->
  (o = ETop -> v_cur (q_env q) <> FT) ->
  ew_obj w' = ew_obj w -> ew_nx w' = ew_nx w -> ew_res w' = ew_res w ->
  ew_cur w' = v_cur (env_step (q_env q) o) -> ew_tsv w' = v_tsv (env_step (q_env q) o) ->
  exists q', echeck q o ei_none = Some q' /\ WI w' q' reqs /\ q_env q' = env_step (q_env q) o.
Proof.
  intros w q reqs o w' W Ho Hv E1 E2 E3 E4 E5. destruct W as [W1 W2 W3 W4 W5 W6 W7 W8 W9].
  exists (mk_es (q_b q) (q_lv q) (q_pt q) (env_step (q_env q) o) (q_base q)). split; [|split; [|reflexivity]].
  - destruct Ho as [->|[->|[k ->]]]; reflexivity.
  - assert (Ht : tagc (env_step (q_env q) o) = tagc (q_env q)) by (destruct Ho as [->|[->|[k ->]]]; reflexivity).
    assert (Hobj : v_obj (env_step (q_env q) o) = v_obj (q_env q)) by (destruct Ho as [->|[->|[k ->]]]; reflexivity).
    constructor; cbn [mk_es q_b q_lv q_pt q_env q_base]; rewrite ?Ht, ?E1, ?E2, ?E3, ?Hobj; auto.
    unfold env_ok in *. rewrite Hobj. destruct Ho as [->|[->|[k ->]]]; cbn [env_step v_cur v_tsv] in *.
    + specialize (Hv eq_refl). destruct (v_obj (q_env q)); destruct W7 as [A B]; (split; [discriminate|]); intros _;
        destruct (v_cur (q_env q)); congruence.
    + destruct (v_obj (q_env q)); destruct W7 as [A B]; destruct (v_cur (q_env q)) eqn:C; try (split; [congruence|]; intros; congruence).
      * rewrite (B eq_refl). split; [discriminate | discriminate].
      * rewrite (B eq_refl). split; [discriminate | discriminate].
    + exact W7.
Qed.

Lemma step_push : forall w q reqs kind, WI w q reqs -> v_obj (q_env q) = None -> v_cur (q_env q) = FU ->
  exists q', echeck q (EPush kind) (mk_ei [XA who_D (ew_nx w) node_array_size] None false) = Some q' /\
             WI {| ew_obj := Some (fresh_cache, ew_nx w); ew_nx := ew_nx w + 1; ew_cur := FC; ew_tsv := ew_tsv w; ew_res := ew_res w |} q' reqs /\
             q_env q' = env_step (q_env q) (EPush kind).
Proof.
  intros w q reqs kind [W1 W2 W3 W4 W5 W6 W7 W8 W9] Ho Hc.
  assert (Eo : ew_obj w = None) by (apply W4; exact Ho). rewrite Eo in *.
  set (v' := env_step (q_env q) (EPush kind)).
  assert (Ht : tagc v' = tagc (q_env q)) by (unfold tagc, v'; cbn [env_step v_obj]; rewrite Ho; reflexivity).
  destruct (push_ok _ 0 (q_b q) (q_lv q) (tagc v') W2) as [B K]; [unfold tagc, v'; cbn [env_step v_obj]; lia|].
  exists (mk_es (grow1 (q_b q) who_D node_array_size) (q_lv q) (q_pt q) v' (xlen (q_b q))). split; [|split; [|reflexivity]].
  - unfold echeck. cbn [mk_ei ei_warn ei_evs ei_ret x_applies]. rewrite W1, apply_XA. reflexivity.
  - constructor; cbn [mk_es q_b q_lv q_pt q_env q_base ew_obj ew_nx ew_cur ew_tsv ew_res].
    + rewrite xlen_grow1, W1. reflexivity.
    + rewrite W1. exact B.
    + simpl. rewrite W1. exact K.
    + split; discriminate.
    + reflexivity.
    + exact W6.
    + unfold env_ok, v'. cbn [env_step v_obj v_cur]. split; discriminate.
    + exact W8.
    + exact W9.
Qed.

Lemma step_pop : forall rf w q reqs st tab ser e nx', WI w q reqs -> ew_obj w = Some (st, tab) -> v_obj (q_env q) = Some ser ->
  direct_frees rf (ew_nx w) (o_evs (snd (clear_all st))) = (e, nx') ->
  exists q', echeck q EPop (mk_ei (e ++ [XF who_D tab node_array_size]) None false) = Some q' /\
             WI {| ew_obj := None; ew_nx := nx'; ew_cur := FU; ew_tsv := ew_tsv w; ew_res := ew_res w |} q' (kill_tag (2 + ser) reqs) /\
             q_env q' = env_step (q_env q) EPop.
Proof.
  intros rf w q reqs st tab ser e nx' [W1 W2 W3 W4 W5 W6 W7 W8 W9] Eo Ho D.
  rewrite Eo in *. simpl in W3. assert (Ht : tagc (q_env q) = 2 + ser) by (unfold tagc; rewrite Ho; reflexivity). rewrite Ht in *.
  rewrite W1 in D. destruct (pop_ok st tab (2 + ser) 0 (q_b q) (q_lv q) rf e nx' W2 W3 D) as [b' [X [P1 [P2 P3]]]].
  set (v' := env_step (q_env q) EPop).
  exists (mk_es b' (others_of (2 + ser) (q_lv q)) (q_pt q) v' (q_base q)). split; [|split; [|reflexivity]].
  - unfold echeck. cbn [mk_ei ei_warn ei_evs ei_ret]. rewrite Ho. fold (others_of (2 + ser) (q_lv q)). rewrite X.
    rewrite (cover_check (2 + ser) b' _ (q_base q) P3). reflexivity.
  - constructor; cbn [mk_es q_b q_lv q_pt q_env q_base ew_obj ew_nx ew_cur ew_tsv ew_res].
    + exact P1.
    + eapply BI_retag. exact P3.
    + exact I.
    + split; reflexivity.
    + reflexivity.
    + exact W6.
    + unfold env_ok, v'. cbn [env_step v_obj v_cur]. split; [discriminate | discriminate].
    + exact W8.
    + apply VR_pop. exact W9.
Qed.

Lemma step_alloc : forall rf ra w q reqs n w' it, WI w q reqs -> estep rf ra w (EAlloc n) = (w', it) ->
  exists q', echeck q (EAlloc n) it = Some q' /\ WI w' q' (reqs ++ [Some (tag_of (q_env q))]) /\ q_env q' = q_env q.
Proof.
  intros rf ra w q reqs n w' it [W1 W2 W3 W4 W5 W6 W7 W8 W9] S. cbn [estep] in S. rewrite W5 in S.
  destruct (v_cur (q_env q)) eqn:C.
  - (* straight at the base allocator *)
    assert (S' : match dlife ra (ew_nx w + 1) with
                 | (e, nx') => ({| ew_obj := ew_obj w; ew_nx := nx'; ew_cur := FU; ew_tsv := ew_tsv w; ew_res := ew_res w ++ [(ew_nx w, n)] |},
                                mk_ei (XA who_U (ew_nx w) n :: e) (Some (ew_nx w)) false) end = (w', it)).
    { destruct (ew_obj w) as [[? ?]|]; exact S. }
    clear S. destruct (dlife ra (ew_nx w + 1)) as [e nx'] eqn:D. inversion S'; subst w' it. clear S'.
    rewrite W1 in D. destruct (direct_alloc_ok _ _ 0 (q_b q) (q_lv q) 0 n ra e nx' W2 W3 ltac:(lia) D) as [b1 [b' [X [HO [P1 [P2 [P3 [P4 P5]]]]]]]].
    assert (Tg : tag_of (q_env q) = 0) by (unfold tag_of; rewrite C; reflexivity).
    exists (mk_es b' ((xlen (q_b q), 0, n, 0) :: q_lv q) (q_pt q ++ [(xlen (q_b q), 0)]) (q_env q) (q_base q)). split; [|split; [|reflexivity]].
    + unfold echeck. cbn [mk_ei ei_warn ei_evs ei_ret]. rewrite W1. change (who_of_tag 0) with who_U in X. rewrite X, HO, Tg. reflexivity.
    + rewrite Tg. constructor; cbn [mk_es q_b q_lv q_pt q_env q_base ew_obj ew_nx ew_cur ew_tsv ew_res]; auto.
      * rewrite W8, map_app, W1. reflexivity.
      * rewrite W1. apply VR_alloc; assumption.
  - (* at the cache *)
    destruct (tag_of_FC _ W7 C) as [Tg Hobj].
    destruct (ew_obj w) as [[st tab]|] eqn:Eo; [|exfalso; apply Hobj; apply W4; reflexivity].
    destruct (r_alloc ra st (ew_nx w) n) as [[[st' nx'] p] e] eqn:R. inversion S; subst w' it. clear S.
    simpl in W3. rewrite W1 in R.
    destruct (r_alloc_ok st tab _ 0 (q_b q) (q_lv q) ra n st' nx' p e W2 W3 R) as [b1 [b' [X [HO [P1 [P2 [P3 [P4 P5]]]]]]]].
    exists (mk_es b' ((p, 0, n, tagc (q_env q)) :: q_lv q) (q_pt q ++ [(p, 0)]) (q_env q) (q_base q)). split; [|split; [|reflexivity]].
    + unfold echeck. cbn [mk_ei ei_warn ei_evs ei_ret]. rewrite X, HO, Tg. reflexivity.
    + rewrite Tg. constructor; cbn [mk_es q_b q_lv q_pt q_env q_base ew_obj ew_nx ew_cur ew_tsv ew_res]; auto.
      * split; [discriminate|]. intros H. exfalso. apply Hobj. exact H.
      * rewrite W8, map_app. reflexivity.
      * apply VR_alloc; assumption.
  - (* at the allocator installed on top *)
    assert (S' : ({| ew_obj := ew_obj w; ew_nx := ew_nx w + 1; ew_cur := FT; ew_tsv := ew_tsv w; ew_res := ew_res w ++ [(ew_nx w, n)] |},
                  mk_ei [XA who_T (ew_nx w) n] (Some (ew_nx w)) false) = (w', it)).
    { destruct (ew_obj w) as [[? ?]|]; exact S. }
    clear S. inversion S'; subst w' it. clear S'.
    assert (D : dlife None (xlen (q_b q) + 1) = ([], xlen (q_b q) + 1)) by reflexivity.
    destruct (direct_alloc_ok _ _ 0 (q_b q) (q_lv q) 1 n None [] _ W2 W3 ltac:(lia) D) as [b1 [b' [X [HO [P1 [P2 [P3 [P4 P5]]]]]]]].
    assert (Tg : tag_of (q_env q) = 1) by (unfold tag_of; rewrite C; reflexivity).
    exists (mk_es b' ((xlen (q_b q), 0, n, 1) :: q_lv q) (q_pt q ++ [(xlen (q_b q), 0)]) (q_env q) (q_base q)). split; [|split; [|reflexivity]].
    + unfold echeck. cbn [mk_ei ei_warn ei_evs ei_ret]. rewrite W1. change (who_of_tag 1) with who_T in X. rewrite X, HO, Tg. reflexivity.
    + rewrite Tg. constructor; cbn [mk_es q_b q_lv q_pt q_env q_base ew_obj ew_nx ew_cur ew_tsv ew_res]; auto.
      * rewrite W1. exact P1.
      * rewrite W8, map_app, W1. reflexivity.
      * rewrite W1. apply VR_alloc; assumption.
Qed.

Lemma step_rel : forall rf ra w q reqs k tg w' it, WI w q reqs -> nth_error reqs k = Some (Some tg) -> tg = tag_of (q_env q) ->
  estep rf ra w (ERel k) = (w', it) ->
  exists q', echeck q (ERel k) it = Some q' /\ WI w' q' (set_nth_opt k reqs) /\ q_env q' = q_env q.
Proof.
  intros rf ra w q reqs k tg w' it [W1 W2 W3 W4 W5 W6 W7 W8 W9] Hk Htg S.
  destruct (VR_find _ _ _ k tg W9 (bi_lnd _ _ _ _ _ _ W2) Hk) as [id [n [l1 [l2 [Rk [F [EL ED]]]]]]].
  cbn [estep] in S. rewrite Rk, W5 in S.
  assert (Hpt : nth_error (q_pt q) k = Some (id, 0)) by (rewrite W8; eapply nth_map_res; eauto).
  assert (Hchk : forall b', x_applies n (l1 ++ l2) (q_b q) (ei_evs it) = Some b' -> ei_ret it = None -> ei_warn it = false ->
            echeck q (ERel k) it = Some (mk_es b' (l1 ++ l2) (q_pt q) (q_env q) (q_base q))).
  { intros b' X R Wn. unfold echeck. rewrite Wn, Hpt, R, F, Htg, N.eqb_refl, ED, X. reflexivity. }
  pose proof (VR_release _ _ _ _ _ _ _ _ ltac:(rewrite <- EL; exact W9) Hk Rk) as V'.
  rewrite EL in W2, W3.
  destruct (v_cur (q_env q)) eqn:C.
  - assert (S' : match dlife rf (ew_nx w) with
                 | (e, nx') => ({| ew_obj := ew_obj w; ew_nx := nx'; ew_cur := FU; ew_tsv := ew_tsv w; ew_res := ew_res w |},
                                mk_ei (XF who_U id n :: e) None false) end = (w', it)).
    { destruct (ew_obj w) as [[? ?]|]; exact S. }
    clear S. destruct (dlife rf (ew_nx w)) as [e nx'] eqn:D. inversion S'; subst w' it. clear S'.
    assert (Tg : tag_of (q_env q) = 0) by (unfold tag_of; rewrite C; reflexivity). subst tg. rewrite Tg in *.
    rewrite W1 in D. destruct (direct_rel_ok _ _ 0 (q_b q) l1 l2 id n 0 rf e nx' W2 W3 ltac:(lia) D) as [b' [X [P1 [P2 [P3 P4]]]]].
    exists (mk_es b' (l1 ++ l2) (q_pt q) (q_env q) (q_base q)). split; [apply Hchk; [exact X | reflexivity | reflexivity]|]. split; [|reflexivity].
    constructor; cbn [mk_es q_b q_lv q_pt q_env q_base ew_obj ew_nx ew_cur ew_tsv ew_res]; auto.
  - destruct (tag_of_FC _ W7 C) as [Tg Hobj].
    destruct (ew_obj w) as [[st tab]|] eqn:Eo; [|exfalso; apply Hobj; apply W4; reflexivity].
    destruct (r_dealloc rf st (ew_nx w) (PId id) n) as [[[st' nx'] e] wn] eqn:R. inversion S; subst w' it. clear S.
    simpl in W3. rewrite W1 in R. subst tg. rewrite Tg in *.
    destruct (r_dealloc_ok st tab _ 0 (q_b q) l1 l2 id n rf st' nx' e wn W2 W3 R) as [b' [X [Wn [P1 [P2 [P3 P4]]]]]]. subst wn.
    exists (mk_es b' (l1 ++ l2) (q_pt q) (q_env q) (q_base q)). split; [apply Hchk; [exact X | reflexivity | reflexivity]|]. split; [|reflexivity].
    constructor; cbn [mk_es q_b q_lv q_pt q_env q_base ew_obj ew_nx ew_cur ew_tsv ew_res]; auto.
    split; [discriminate|]. intros H. exfalso. apply Hobj. exact H.
  - assert (S' : (w, mk_ei [XF who_T id n] None false) = (w', it)).
    { destruct (ew_obj w) as [[? ?]|]; exact S. }
    clear S. inversion S'; subst w' it. clear S'.
    assert (Tg : tag_of (q_env q) = 1) by (unfold tag_of; rewrite C; reflexivity). subst tg. rewrite Tg in *.
    assert (D : dlife None (xlen (q_b q)) = ([], xlen (q_b q))) by reflexivity.
    destruct (direct_rel_ok _ _ 0 (q_b q) l1 l2 id n 1 None [] _ W2 W3 ltac:(lia) D) as [b' [X [P1 [P2 [P3 P4]]]]].
    exists (mk_es b' (l1 ++ l2) (q_pt q) (q_env q) (q_base q)). split; [apply Hchk; [exact X | reflexivity | reflexivity]|]. split; [|reflexivity].
    constructor; cbn [mk_es q_b q_lv q_pt q_env q_base]; auto; try congruence.
Qed.

Lemma estep_ok : forall rf ra w q reqs o reqs' w' it,
  WI w q reqs -> vstep (q_env q) reqs o = Some reqs' -> estep rf ra w o = (w', it) ->
  exists q', echeck q o it = Some q' /\ WI w' q' reqs' /\ q_env q' = env_step (q_env q) o.
Proof.
  intros rf ra w q reqs o reqs' w' it W V S. destruct o as [k|kind| | | |n|k].
  - cbn [vstep] in V. destruct (k <=? 2); [|discriminate]. inversion V; subst reqs'. cbn [estep] in S. inversion S; subst w' it.
    apply (step_quiet w q reqs (EMal k) w W); auto; try discriminate; [right; right; eauto | exact (wi_cur _ _ _ W) | exact (wi_tsv _ _ _ W)].
  - cbn [vstep] in V. destruct (v_obj (q_env q)) eqn:Ho; [rewrite andb_false_r in V; discriminate|].
    destruct (force_eqb (v_cur (q_env q)) FU) eqn:Hc; [|rewrite andb_false_r in V; discriminate].
    destruct (kind <=? 1); [|discriminate]. inversion V; subst reqs'. cbn [estep] in S. inversion S; subst w' it.
    apply step_push; [exact W | exact Ho|]. destruct (v_cur (q_env q)); try discriminate. reflexivity.
  - cbn [vstep] in V. destruct (v_obj (q_env q)) as [ser|] eqn:Ho; [|discriminate]. inversion V; subst reqs'.
    destruct (ew_obj w) as [[st tab]|] eqn:Eo; [|apply (wi_obj _ _ _ W) in Eo; congruence].
    cbn [estep] in S. rewrite Eo in S. destruct (clear_all st) as [stx x] eqn:CA.
    destruct (direct_frees rf (ew_nx w) (o_evs x)) as [e nx'] eqn:D. inversion S; subst w' it.
    apply (step_pop rf w q reqs st tab ser e nx' W Eo Ho). rewrite CA. exact D.
  - cbn [vstep] in V. destruct (force_eqb (v_cur (q_env q)) FT) eqn:Hc; [discriminate|]. inversion V; subst reqs'.
    cbn [estep] in S. inversion S; subst w' it.
    apply (step_quiet w q reqs ETop _ W); auto.
    + intros _ E. rewrite E in Hc. discriminate.
    + cbn [ew_tsv env_step v_tsv]. exact (wi_cur _ _ _ W).
  - cbn [vstep] in V. inversion V; subst reqs'. cbn [estep] in S. inversion S; subst w' it.
    apply (step_quiet w q reqs EUntop _ W); auto; try discriminate.
    + cbn [ew_cur env_step v_cur]. rewrite (wi_cur _ _ _ W), (wi_tsv _ _ _ W). reflexivity.
    + cbn [ew_tsv env_step v_tsv]. exact (wi_tsv _ _ _ W).
  - cbn [vstep] in V. inversion V; subst reqs'. apply (step_alloc rf ra w q reqs n w' it W S).
  - cbn [vstep] in V. destruct (nth_error reqs k) as [[tg|]|] eqn:Hk; try discriminate.
    destruct (tg =? tag_of (q_env q)) eqn:Et; [|discriminate]. apply N.eqb_eq in Et. inversion V; subst reqs'.
    apply (step_rel rf ra w q reqs k tg w' it W Hk Et S).
Qed.

Lemma WI_init : WI eworld0 es0 [].
Proof.
  constructor.
  - reflexivity.
  - constructor; cbn.
    + constructor.
    + intros id [].
    + intros id _ H. lia.
    + intros id [].
    + intros e [].
    + intros e [].
    + intros id c [].
    + constructor.
    + lia.
  - exact I.
  - split; reflexivity.
  - reflexivity.
  - reflexivity.
  - split; [discriminate | discriminate].
  - reflexivity.
  - constructor; [reflexivity | intros [|k] tg H; discriminate H | intros [|k] ? ? ? ? ? ? H; discriminate H].
Qed.

Lemma erun_ops_ok : forall rf ra ops w q reqs, WI w q reqs -> evalid_ops (q_env q) reqs ops = true ->
  exists qf wf reqsf, echeck_ops q ops (erun_ops rf ra w ops) = Some qf /\ WI wf qf reqsf /\ v_obj (q_env qf) = None.
Proof.
  intros rf ra ops. induction ops as [|o r IH]; intros w q reqs W V.
  - cbn [erun_ops echeck_ops]. destruct (ew_obj w) as [[st tab]|] eqn:Eo.
    + destruct (v_obj (q_env q)) as [ser|] eqn:Ho; [|apply (wi_obj _ _ _ W) in Ho; congruence].
      destruct (estep rf ra w EPop) as [w' it] eqn:S. cbn [snd].
      destruct (estep_ok rf ra w q reqs EPop (kill_tag (2 + ser) reqs) w' it W) as [q' [C [W' E]]]; [cbn [vstep]; rewrite Ho; reflexivity | exact S|].
      exists q', w', (kill_tag (2 + ser) reqs). split; [exact C|]. split; [exact W'|]. rewrite E. reflexivity.
    + assert (Ho : v_obj (q_env q) = None) by (apply (wi_obj _ _ _ W); exact Eo). rewrite Ho. exists q, w, reqs. auto.
  - destruct (evalid_step _ _ _ _ V) as [reqs' [V1 V2]]. cbn [erun_ops]. destruct (estep rf ra w o) as [w' it] eqn:S.
    destruct (estep_ok rf ra w q reqs o reqs' w' it W V1 S) as [q' [C [W' E]]]. cbn [echeck_ops]. rewrite C.
    apply (IH w' q' reqs' W'). rewrite E. exact V2.
Qed.

Theorem erun_meets_espec : forall s, evalid s = true -> espec s (erun s) = true.
Proof.
  intros s V. unfold espec, efinal, erun. destruct (erun_ops_ok (e_rf s) (e_ra s) (e_ops s) eworld0 es0 [] WI_init V) as [qf [wf [rq [C _]]]].
  rewrite C. reflexivity.
Qed.

Theorem yrun_meets_yspec : forall s, yvalid s = true -> yspec s (yrun s) = true.
Proof. intros [x|e] V; simpl in *; [apply xrun_meets_xspec; exact V | apply erun_meets_espec; exact V]. Qed.
