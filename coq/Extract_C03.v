From Coq Require Import ExtrOcamlBasic.
From CppUVerif Require Import lib.CInt lib.Dbl C03_Model.
Extraction "c03_model.ml" C03_Model.run C03_Model.spec C03_Model.valid Dbl.dbl_of_bits.
