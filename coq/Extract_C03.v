From Coq Require Import ExtrOcamlBasic.
From CppUVerif Require Import lib.CInt lib.Dbl C03_Model C03_SideFx.
Extraction "c03_model.ml" C03_Model.run C03_Model.spec C03_Model.valid C03_SideFx.x_run C03_SideFx.x_spec C03_SideFx.x_valid Dbl.dbl_of_bits.
