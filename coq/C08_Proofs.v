(* C08 -- proofs, part 1: the low-level model L (flags, candidate bits) processes one actual call exactly as the flag-free
   reference semantics M does (call-level refinement), for arbitrary expectation sets without ignoreOtherParameters and
   actual calls that do not pass a parameter name twice. *)
From Coq Require Import ZArith NArith Bool List Lia.
From CppUVerif Require Import lib.CInt lib.Str C08_Model.
Import ListNotations.
Local Open Scope N_scope.

(* ------------------------------------------------------------------ values *)
Lemma veq_refl v : veq v v = true.
Proof. destruct v; cbn; [apply eqb_reflx | apply Z.eqb_refl | apply bytes_eqb_refl | apply Z.eqb_refl]. Qed.
Lemma veq_sym a b : veq a b = veq b a.
Proof.
  destruct a, b; cbn; try reflexivity; [destruct b, b0; reflexivity | apply Z.eqb_sym | apply bytes_eqb_sym | apply Z.eqb_sym].
Qed.
Lemma veq_trans a b c : veq a b = true -> veq b c = true -> veq a c = true.
Proof.
  destruct a, b, c; cbn; try discriminate; intros H1 H2.
  - apply eqb_prop in H1, H2. subst. apply eqb_reflx.
  - apply Z.eqb_eq in H1, H2. subst. apply Z.eqb_refl.
  - apply bytes_eqb_eq in H1, H2. subst. apply bytes_eqb_refl.
  - apply Z.eqb_eq in H1, H2. subst. apply Z.eqb_refl.
Qed.
Lemma veq_trans_l a b c : veq a b = true -> veq a c = veq b c.
Proof.
  intro H. destruct (veq b c) eqn:E.
  - eapply veq_trans; eauto.
  - destruct (veq a c) eqn:E2; [|reflexivity]. rewrite veq_sym in H. rewrite <- E. symmetry. eapply veq_trans; eauto.
Qed.
Lemma pv_eqb_refl v : pv_eqb v v = true.
Proof. destruct v; cbn; [apply eqb_reflx | | apply bytes_eqb_refl | apply Z.eqb_refl]. rewrite Z.eqb_refl. destruct t; reflexivity. Qed.

(* ------------------------------------------------------------------ list helpers *)
Lemma existsb_map {A B} (f : B -> bool) (g : A -> B) l : existsb f (map g l) = existsb (fun x => f (g x)) l.
Proof. induction l; cbn; congruence. Qed.
Lemma forallb_map {A B} (f : B -> bool) (g : A -> B) l : forallb f (map g l) = forallb (fun x => f (g x)) l.
Proof. induction l; cbn; congruence. Qed.
Lemma existsb_ext' {A} (f g : A -> bool) l : (forall x, In x l -> f x = g x) -> existsb f l = existsb g l.
Proof. induction l; cbn; intro H; [reflexivity|]. rewrite H by auto. rewrite IHl; auto. Qed.
Lemma forallb_ext' {A} (f g : A -> bool) l : (forall x, In x l -> f x = g x) -> forallb f l = forallb g l.
Proof. induction l; cbn; intro H; [reflexivity|]. rewrite H by auto. rewrite IHl; auto. Qed.
Lemma existsb_false {A} (f : A -> bool) l : existsb f l = false <-> forall x, In x l -> f x = false.
Proof.
  split.
  - intros H x Hx. destruct (f x) eqn:E; [|reflexivity]. rewrite <- H. symmetry. apply existsb_exists. eauto.
  - intro H. destruct (existsb f l) eqn:E; [|reflexivity]. apply existsb_exists in E. destruct E as [x [Hx Hf]]. rewrite H in Hf; auto.
Qed.

Lemma cons_eq_inv {A} (a b : A) l m : a :: l = b :: m -> a = b /\ l = m.
Proof. intro H. inversion H. auto. Qed.

(* ------------------------------------------------------------------ what the matching reads of an expectation *)
Definition pl (e : expn) : list (name * pv) := map (fun p => (p_name p, p_val p)) (e_params e).

Lemma find_param_lookup n ps :
  lookup n (map (fun p => (p_name p, p_val p)) ps) = match find_param n ps with Some q => Some (p_val q) | None => None end.
Proof.
  unfold lookup, find_param. induction ps as [|p r IH]; cbn; [reflexivity|].
  destruct (p_name p =? n); [reflexivity|]. exact IH.
Qed.
Lemma has_input_pl n v e : has_input n v e = match lookup n (pl e) with Some w => veq w v | None => e_ign e end.
Proof. unfold has_input, pl. rewrite find_param_lookup. destruct (find_param n (e_params e)); reflexivity. Qed.
Lemma has_input_name_pl n e : has_input_name n e = existsb (fun q => fst q =? n) (pl e).
Proof.
  unfold has_input_name, find_param, pl. rewrite existsb_map. cbn. induction (e_params e) as [|p r IH]; cbn; [reflexivity|].
  destruct (p_name p =? n); [reflexivity|]. exact IH.
Qed.
Lemma has_input_noign n v e : e_ign e = false -> has_input n v e = has_pv (pl e) (n, v).
Proof. intro H. rewrite has_input_pl. unfold has_pv. cbn. rewrite H. reflexivity. Qed.

(* the part of an expectation the operations of one call never change *)
Definition stat (e : expn) := (e_name e, pl e, e_ign e, (e_lo e, e_hi e, e_ooo e), e_ret e, (e_act e, e_exp e)).
Lemma pl_set_flags e (g : param -> param) :
  (forall p, p_name (g p) = p_name p /\ p_val (g p) = p_val p) -> pl (set_params e (map g (e_params e))) = pl e.
Proof. intro H. unfold pl. cbn. rewrite map_map. apply map_ext. intro p. destruct (H p) as [A B]. rewrite A, B. reflexivity. Qed.
Lemma stat_reset e : stat (reset_e e) = stat e.
Proof. unfold stat, reset_e. cbn. f_equal. f_equal. f_equal. f_equal. f_equal. apply (pl_set_flags e (fun p => set_flag p false)). intro p. split; reflexivity. Qed.
Lemma stat_mark n e : stat (mark n e) = stat e.
Proof.
  unfold stat, mark. cbn. f_equal. f_equal. f_equal. f_equal. f_equal.
  apply (pl_set_flags e (fun p => if p_name p =? n then set_flag p true else p)). intro p. destruct (p_name p =? n); split; reflexivity.
Qed.
Lemma stat_set_pot e b : stat (set_pot e b) = stat e. Proof. reflexivity. Qed.
Lemma stat_set_cur e b : stat (set_cur e b) = stat e. Proof. reflexivity. Qed.
Lemma stat_set_fin e b : stat (set_fin e b) = stat e. Proof. reflexivity. Qed.

Definition can_match_s (s : N * N) := fst s <? snd s.
Lemma stat_name e e' : stat e = stat e' -> e_name e = e_name e'. Proof. unfold stat. intro H. inversion H. reflexivity. Qed.
Lemma stat_pl e e' : stat e = stat e' -> pl e = pl e'. Proof. unfold stat. intro H. inversion H. reflexivity. Qed.
Lemma stat_ign e e' : stat e = stat e' -> e_ign e = e_ign e'. Proof. unfold stat. intro H. inversion H. reflexivity. Qed.
Lemma stat_cnt e e' : stat e = stat e' -> e_act e = e_act e' /\ e_exp e = e_exp e'. Proof. unfold stat. intro H. inversion H. auto. Qed.
Lemma stat_ret e e' : stat e = stat e' -> e_ret e = e_ret e'. Proof. unfold stat. intro H. inversion H. reflexivity. Qed.
Lemma stat_ord e e' : stat e = stat e' -> e_lo e = e_lo e' /\ e_hi e = e_hi e' /\ e_ooo e = e_ooo e'. Proof. unfold stat. intro H. inversion H. auto. Qed.

Lemma stat_has_input n v e e' : stat e = stat e' -> has_input n v e = has_input n v e'.
Proof. intro H. rewrite !has_input_pl. rewrite (stat_pl _ _ H), (stat_ign _ _ H). reflexivity. Qed.
Lemma stat_can_match e e' : stat e = stat e' -> can_match e = can_match e'.
Proof. intro H. unfold can_match. destruct (stat_cnt _ _ H) as [A B]. rewrite A, B. reflexivity. Qed.
Lemma stat_relates f e e' : stat e = stat e' -> relates f e = relates f e'.
Proof. intro H. unfold relates. rewrite (stat_name _ _ H). reflexivity. Qed.

(* ------------------------------------------------------------------ static predicates of a call (f, P) on an expectation *)
Definition agreesL (P : list (name * pv)) (e : expn) : bool := forallb (fun x => has_input (fst x) (snd x) e) P.
Definition passed (P : list (name * pv)) (n : name) : bool := existsb (fun x => fst x =? n) P.
Definition coveredL (P : list (name * pv)) (e : expn) : bool := forallb (fun q => passed P (fst q)) (pl e).
Definition liveL (f : name) (P : list (name * pv)) (e : expn) : bool := can_match e && relates f e && agreesL P e.
Definition flags_ok (P : list (name * pv)) (e : expn) : bool :=
  forallb (fun q => Bool.eqb (p_flag q) (passed P (p_name q))) (e_params e).

Lemma stat_agrees P e e' : stat e = stat e' -> agreesL P e = agreesL P e'.
Proof. intro H. unfold agreesL. apply forallb_ext'. intros x _. apply stat_has_input. exact H. Qed.
Lemma stat_covered P e e' : stat e = stat e' -> coveredL P e = coveredL P e'.
Proof. intro H. unfold coveredL. rewrite (stat_pl _ _ H). reflexivity. Qed.
Lemma stat_live f P e e' : stat e = stat e' -> liveL f P e = liveL f P e'.
Proof. intro H. unfold liveL. rewrite (stat_can_match _ _ H), (stat_relates f _ _ H), (stat_agrees P _ _ H). reflexivity. Qed.

Lemma flags_covered P e : flags_ok P e = true -> params_matching e = coveredL P e.
Proof.
  unfold flags_ok, params_matching, coveredL, pl. rewrite forallb_map. cbn.
  induction (e_params e) as [|q r IH]; cbn; [reflexivity|]. intro H. apply andb_true_iff in H. destruct H as [H1 H2].
  apply eqb_prop in H1. rewrite H1. rewrite IH by exact H2. reflexivity.
Qed.

Lemma agrees_app P Q e : agreesL (P ++ Q) e = agreesL P e && agreesL Q e.
Proof. unfold agreesL. apply forallb_app. Qed.
Lemma passed_app P Q n : passed (P ++ Q) n = passed P n || passed Q n.
Proof. unfold passed. apply existsb_app. Qed.

(* an expectation whose parameters were all passed already has no parameter named n when n was not passed yet *)
Lemma covered_lacks P e n v :
  coveredL P e = true -> passed P n = false -> e_ign e = false -> has_input n v e = false.
Proof.
  intros Hc Hn Hi. rewrite has_input_pl, Hi. unfold lookup.
  destruct (find (fun x => fst x =? n) (pl e)) as [x|] eqn:E; [|reflexivity].
  apply find_some in E. destruct E as [Hin Hx]. apply N.eqb_eq in Hx.
  unfold coveredL in Hc. rewrite forallb_forall in Hc. specialize (Hc x Hin). change (passed P (fst x) = true) in Hc. rewrite Hx in Hc. congruence.
Qed.

(* ------------------------------------------------------------------ invariant of one expectation during a call (f, P):
   P = the parameters passed so far.  Candidates and the current match are exactly the expectations alive for (f, P); their
   flags say which of their parameters were passed; nothing is finalized. *)
Definition okE (f : name) (P : list (name * pv)) (e : expn) : Prop :=
  e_ign e = false /\
  (e_pot e = true -> e_cur e = false /\ liveL f P e = true /\ flags_ok P e = true /\ e_fin e = false) /\
  (e_cur e = true -> liveL f P e = true /\ flags_ok P e = true /\ e_fin e = false /\ coveredL P e = true) /\
  (liveL f P e = true -> e_pot e || e_cur e = true).

(* checkInputParameter on one expectation: discard, the two pruning passes, then the marking pass *)
Definition stepE (n : name) (v : pv) (e : expn) : expn :=
  let e1 := if e_cur e then set_cur (reset_e e) false else e in
  let e2 := if e_pot e1 && is_matching_fin e1 then drop (reset_e e1) else e1 in
  if e_pot e2 && negb (has_input n v e2) then drop e2 else e2.
Definition markE (n : name) (e : expn) : expn := if e_pot e then mark n e else e.

Lemma step_list n v es : keep_if (has_input n v) (discard es) = map (stepE n v) es.
Proof. unfold keep_if, discard, only_keep_unmatching, for_cur. rewrite !map_map. apply map_ext. intro e. reflexivity. Qed.
Lemma mark_list n es : for_pot (mark n) es = map (markE n) es.
Proof. reflexivity. Qed.

Lemma live_snoc f P n v e : liveL f (P ++ [(n, v)]) e = liveL f P e && has_input n v e.
Proof. unfold liveL. rewrite agrees_app. unfold agreesL at 2. cbn. rewrite andb_true_r. rewrite !andb_assoc. reflexivity. Qed.

Lemma flags_ok_mark P n v e : flags_ok P e = true -> flags_ok (P ++ [(n, v)]) (mark n e) = true.
Proof.
  unfold flags_ok, mark. cbn. rewrite forallb_map. intro H. rewrite forallb_forall in *. intros q Hq. specialize (H q Hq).
  apply eqb_prop in H. rewrite passed_app. unfold passed at 2. cbn. rewrite orb_false_r.
  destruct (p_name q =? n) eqn:E; cbn.
  - rewrite N.eqb_sym, E. rewrite orb_true_r. reflexivity.
  - rewrite H. rewrite N.eqb_sym, E. rewrite orb_false_r. apply eqb_reflx.
Qed.

Lemma is_matching_fin_ok P e : e_ign e = false -> flags_ok P e = true -> is_matching_fin e = coveredL P e.
Proof. intros Hi Hf. unfold is_matching_fin, is_matching. rewrite (flags_covered P e Hf), Hi. cbn. apply andb_true_r. Qed.

Lemma markE_off n x : e_pot x = false -> markE n x = x. Proof. unfold markE. intros ->. reflexivity. Qed.
Lemma markE_on n x : e_pot x = true -> markE n x = mark n x. Proof. unfold markE. intros ->. reflexivity. Qed.

Lemma step_elem f P n v e :
  okE f P e -> passed P n = false ->
  let e' := markE n (stepE n v e) in
  stat e' = stat e /\ e_cur e' = false /\ e_pot e' = liveL f (P ++ [(n, v)]) e /\ e_pot (stepE n v e) = e_pot e' /\ e_ign e' = false /\
  (e_pot e' = true -> flags_ok (P ++ [(n, v)]) e' = true /\ e_fin e' = false).
Proof.
  intros [Hi [Hp [Hc Hl]]] Hn. cbn zeta. rewrite live_snoc.
  destruct (e_cur e) eqn:Ecur.
  - destruct (Hc eq_refl) as [L [F [Fi C]]].
    assert (Epot : e_pot e = false). { destruct (e_pot e) eqn:E; [|reflexivity]. destruct (Hp eq_refl) as [X _]. discriminate X. }
    assert (S : stepE n v e = set_cur (reset_e e) false).
    { unfold stepE. rewrite Ecur. cbn. rewrite Epot. cbn. rewrite Epot. reflexivity. }
    rewrite S. rewrite markE_off by exact Epot.
    rewrite (covered_lacks P e n v C Hn Hi), andb_false_r.
    split; [apply stat_reset|]. split; [reflexivity|]. split; [exact Epot|]. split; [reflexivity|]. split; [exact Hi|].
    intro X. exfalso. change (e_pot e = true) in X. congruence.
  - destruct (e_pot e) eqn:Epot.
    + destruct (Hp eq_refl) as [_ [L [F Fi]]].
      destruct (coveredL P e) eqn:C.
      * assert (S : stepE n v e = drop (reset_e e)).
        { unfold stepE. rewrite Ecur. cbn zeta. rewrite Epot, (is_matching_fin_ok P e Hi F), C. reflexivity. }
        rewrite S. rewrite markE_off by reflexivity.
        rewrite (covered_lacks P e n v C Hn Hi), andb_false_r.
        split; [apply stat_reset|]. split; [exact Ecur|]. split; [reflexivity|]. split; [reflexivity|]. split; [exact Hi|]. discriminate.
      * destruct (has_input n v e) eqn:Hin.
        -- assert (S : stepE n v e = e).
           { unfold stepE. rewrite Ecur. cbn zeta. rewrite Epot, (is_matching_fin_ok P e Hi F), C. cbn. rewrite Epot, Hin. reflexivity. }
           rewrite S. rewrite markE_on by exact Epot. rewrite L. cbn [andb].
           split; [apply stat_mark|]. split; [exact Ecur|]. split; [exact Epot|]. split; [reflexivity|]. split; [exact Hi|].
           intros _. split; [apply flags_ok_mark; exact F|exact Fi].
        -- assert (S : stepE n v e = drop e).
           { unfold stepE. rewrite Ecur. cbn zeta. rewrite Epot, (is_matching_fin_ok P e Hi F), C. cbn. rewrite Epot, Hin. reflexivity. }
           rewrite S. rewrite markE_off by reflexivity. rewrite L. cbn [andb].
           split; [reflexivity|]. split; [exact Ecur|]. split; [reflexivity|]. split; [reflexivity|]. split; [exact Hi|]. discriminate.
    + assert (S : stepE n v e = e). { unfold stepE. rewrite Ecur. cbn zeta. rewrite Epot. cbn. rewrite Epot. reflexivity. }
      rewrite S. rewrite markE_off by exact Epot.
      assert (L : liveL f P e = false).
      { destruct (liveL f P e) eqn:E; [|reflexivity]. specialize (Hl eq_refl). discriminate Hl. }
      rewrite L. cbn [andb].
      split; [reflexivity|]. split; [exact Ecur|]. split; [exact Epot|]. split; [reflexivity|]. split; [exact Hi|]. rewrite Epot. discriminate.
Qed.

(* take_first: what removeFirst... does *)
Lemma take_first_none pred g es : take_first pred g es = None <-> forall e, In e es -> e_pot e && pred e = false.
Proof.
  induction es as [|e r IH]; cbn; [tauto|]. destruct (e_pot e && pred e) eqn:E.
  - split; [discriminate|]. intro H. specialize (H e (or_introl eq_refl)). congruence.
  - destruct (take_first pred g r) eqn:T.
    + split; [discriminate|]. intro H. exfalso. assert (X : Some l = None) by (apply IH; intros x Hx; apply H; auto). discriminate X.
    + split; [|reflexivity]. intros _ x [Hx|Hx]; [subst; exact E|]. apply IH; auto.
Qed.
Lemma take_first_some pred g es es' :
  take_first pred g es = Some es' ->
  exists l1 e l2, es = l1 ++ e :: l2 /\ es' = l1 ++ g (set_cur (drop e) true) :: l2 /\ e_pot e && pred e = true /\
                  forall x, In x l1 -> e_pot x && pred x = false.
Proof.
  revert es'. induction es as [|e r IH]; cbn; intros es' H; [discriminate|]. destruct (e_pot e && pred e) eqn:E.
  - inversion H; subst. exists [], e, r. cbn. repeat split; auto. intros x [].
  - destruct (take_first pred g r) eqn:T; [|discriminate]. inversion H; subst.
    destruct (IH l eq_refl) as [l1 [x [l2 [A [B [C D]]]]]]. exists (e :: l1), x, l2. subst. cbn. repeat split; auto.
    intros y [Hy|Hy]; [subst; exact E|]. apply D. exact Hy.
Qed.

(* the state of the call after the parameters P *)
Definition curS (P : list (name * pv)) (es : list expn) (st : cstate) : Prop :=
  (st = InProgress /\ (forall e, In e es -> e_cur e = false) /\ (forall e, In e es -> e_pot e = true -> coveredL P e = false) /\
   exists e, In e es /\ e_pot e = true)
  \/ (st = Succeeded /\ exists l1 e l2, es = l1 ++ e :: l2 /\ e_cur e = true /\ (forall x, In x (l1 ++ l2) -> e_cur x = false) /\
      forall x, In x l1 -> e_pot x = true -> coveredL P x = false).
Definition Inv (f : name) (P : list (name * pv)) (es : list expn) (c : acall) : Prop :=
  Forall (okE f P) es /\ c_name c = f /\ c_checked c = false /\ curS P es (c_state c).

(* completeCallWhenMatchIsFound re-establishes the invariant from a list without current match *)
Lemma complete_inv f P es c :
  Forall (okE f P) es -> (forall e, In e es -> e_cur e = false) -> (exists e, In e es /\ e_pot e = true) ->
  c_name c = f -> c_checked c = false -> c_state c = InProgress ->
  let (es', c') := complete es c in Inv f P es' c' /\ map stat es' = map stat es.
Proof.
  intros Hok Hnc Hne Hn Hch Hst. unfold complete. destruct (take_first is_matching_fin (fun e => e) es) as [es'|] eqn:T.
  - apply take_first_some in T. destruct T as [l1 [e [l2 [A [B [C D]]]]]]. subst es es'.
    apply andb_true_iff in C. destruct C as [Cp Cm].
    assert (He : okE f P e). { rewrite Forall_forall in Hok. apply Hok. apply in_or_app. right. left. reflexivity. }
    destruct He as [Hi [Hp [Hc Hl]]]. destruct (Hp Cp) as [_ [L [F Fi]]]. rewrite (is_matching_fin_ok P e Hi F) in Cm.
    split.
    + split; [|split; [exact Hn|split; [exact Hch|]]].
      * apply Forall_app. apply Forall_app in Hok. destruct Hok as [H1 H2]. split; [exact H1|]. inversion H2; subst.
        constructor; [|assumption]. split; [exact Hi|]. cbn. split; [discriminate|]. split; [intros _; auto|]. intros _. reflexivity.
      * right. cbn. split; [reflexivity|]. exists l1, (set_cur (drop e) true), l2. split; [reflexivity|]. split; [reflexivity|]. split.
        -- intros x Hx. apply Hnc. apply in_app_or in Hx. apply in_or_app. destruct Hx; [left|right; right]; assumption.
        -- intros x Hx Hpx. specialize (D x Hx). rewrite Hpx in D. cbn in D.
           assert (Hox : okE f P x). { rewrite Forall_forall in Hok. apply Hok. apply in_or_app. left. exact Hx. }
           destruct Hox as [Hix [Hpx' _]]. destruct (Hpx' Hpx) as [_ [_ [Fx _]]]. rewrite (is_matching_fin_ok P x Hix Fx) in D. exact D.
    + rewrite !map_app. cbn. reflexivity.
  - split; [|reflexivity]. split; [exact Hok|]. split; [exact Hn|]. split; [exact Hch|]. left. rewrite Hst. split; [reflexivity|].
    split; [exact Hnc|]. split; [|exact Hne]. intros e He Hpe.
    pose proof (proj1 (take_first_none _ _ _) T e He) as X. rewrite Hpe in X. cbn in X.
    assert (Hoe : okE f P e). { rewrite Forall_forall in Hok. apply Hok. exact He. }
    destruct Hoe as [Hi [Hp _]]. destruct (Hp Hpe) as [_ [_ [F _]]]. rewrite (is_matching_fin_ok P e Hi F) in X. exact X.
Qed.

Lemma stat_markE n e : stat (markE n e) = stat e.
Proof. unfold markE. destruct (e_pot e); [apply stat_mark|reflexivity]. Qed.
Lemma stat_has_input_name n e e' : stat e = stat e' -> has_input_name n e = has_input_name n e'.
Proof. intro H. rewrite !has_input_name_pl, (stat_pl _ _ H). reflexivity. Qed.

(* checkInputParameter on the whole list *)
Lemma check_input_inv f P n v es c :
  Inv f P es c -> passed P n = false ->
  match check_input n v es c with
  | inr fl => (forall e, In e es -> liveL f (P ++ [(n, v)]) e = false) /\
              f_kind fl = (if existsb (fun e => relates f e && has_input_name n e) es then FParamValue f n else FParamName f n)
  | inl (es', c') => Inv f (P ++ [(n, v)]) es' c' /\ map stat es' = map stat es /\ c_order c' = c_order c /\
                     exists e, In e es /\ liveL f (P ++ [(n, v)]) e = true
  end.
Proof.
  intros [Hok [Hn [Hch Hcs]]] Hp. unfold check_input. rewrite step_list.
  assert (E : forall e, In e es -> okE f P e) by (apply Forall_forall; exact Hok).
  assert (Hpot : existsb e_pot (map (stepE n v) es) = existsb (liveL f (P ++ [(n, v)])) es).
  { rewrite existsb_map. apply existsb_ext'. intros e He. destruct (step_elem f P n v e (E e He) Hp) as [_ [_ [A [B _]]]]. congruence. }
  unfold pot_empty. rewrite Hpot. destruct (existsb (liveL f (P ++ [(n, v)])) es) eqn:X; cbn [negb].
  - (* candidates left *)
    apply existsb_exists in X. destruct X as [e0 [He0 Hl0]].
    rewrite mark_list, map_map.
    pose proof (complete_inv f (P ++ [(n, v)]) (map (fun e => markE n (stepE n v e)) es) (set_state c InProgress)) as CI.
    destruct (complete (map (fun e => markE n (stepE n v e)) es) (set_state c InProgress)) as [es' c'] eqn:Ec.
    assert (CO : c_order c' = c_order c).
    { unfold complete in Ec. destruct (take_first is_matching_fin (fun e => e) _); inversion Ec; reflexivity. }
    destruct CI as [I S].
    + apply Forall_forall. intros x Hx. apply in_map_iff in Hx. destruct Hx as [e [Hx He]]. subst x.
      destruct (step_elem f P n v e (E e He) Hp) as [S1 [S2 [S3 [_ [S5 S6]]]]].
      split; [exact S5|]. split.
      * intro Hq. split; [exact S2|]. split; [rewrite (stat_live _ _ _ _ S1); congruence|]. apply S6. exact Hq.
      * split; [intro Hq; congruence|]. intro Hq. rewrite (stat_live _ _ _ _ S1) in Hq. rewrite S3, Hq. reflexivity.
    + intros x Hx. apply in_map_iff in Hx. destruct Hx as [e [Hx He]]. subst x.
      destruct (step_elem f P n v e (E e He) Hp) as [_ [S2 _]]. exact S2.
    + exists (markE n (stepE n v e0)). split; [apply in_map_iff; exists e0; auto|].
      destruct (step_elem f P n v e0 (E e0 He0) Hp) as [_ [_ [S3 _]]]. congruence.
    + exact Hn.
    + exact Hch.
    + reflexivity.
    + split; [exact I|]. split.
      * rewrite S, map_map. apply map_ext_in. intros e He. destruct (step_elem f P n v e (E e He) Hp) as [S1 _]. exact S1.
      * split; [exact CO|]. exists e0. auto.
  - (* no candidate left *)
    split; [apply existsb_false; exact X|]. cbn. rewrite Hn.
    assert (Y : existsb (fun e => relates f e && has_input_name n e) (map (stepE n v) es) = existsb (fun e => relates f e && has_input_name n e) es).
    { rewrite existsb_map. apply existsb_ext'. intros e He. destruct (step_elem f P n v e (E e He) Hp) as [S1 _].
      rewrite stat_markE in S1. rewrite (stat_relates f _ _ S1), (stat_has_input_name n _ _ S1). reflexivity. }
    cbn in Y. rewrite Y. reflexivity.
Qed.

Lemma fulfilled_for_stat f (g : expn -> expn) es : (forall e, stat (g e) = stat e) -> fulfilled_for f (map g es) = fulfilled_for f es.
Proof.
  intro H. unfold fulfilled_for. induction es as [|e r IH]; cbn; [reflexivity|].
  rewrite (stat_relates f _ _ (H e)). destruct (stat_cnt _ _ (H e)) as [A _]. rewrite A, IH. reflexivity.
Qed.

(* the constructor and withName *)
Lemma with_name_inv f es c :
  (forall e, In e es -> e_ign e = false) -> c_name c = f -> c_checked c = false ->
  match with_name (create true es) c with
  | inr fl => (forall e, In e es -> can_match e && relates f e = false) /\
              f_kind fl = (let n := fulfilled_for f es in if 0 <? n then FAdditionalCall f (n + 1) else FUnexpectedCall f)
  | inl (es', c') => Inv f [] es' c' /\ map stat es' = map stat es /\ c_order c' = c_order c /\
                     exists e, In e es /\ can_match e && relates f e = true
  end.
Proof.
  intros Hi Hn Hch. unfold with_name. cbn [c_name set_state]. rewrite Hn.
  set (g := fun e => let e1 := (fun e => let e := set_cur e false in if can_match e then set_pot (reset_e e) true else set_pot e false) e in
                     if e_pot e1 && negb (relates f e1) then drop e1 else e1).
  assert (G : keep_if (relates f) (create true es) = map g es).
  { unfold keep_if, create. rewrite map_map. apply map_ext. intro e. reflexivity. }
  rewrite G.
  assert (P1 : forall e, stat (g e) = stat e /\ e_cur (g e) = false /\ e_pot (g e) = can_match e && relates f e /\
                         (e_pot (g e) = true -> flags_ok [] (g e) = true /\ e_fin (g e) = false)).
  { intro e. unfold g. cbn zeta. change (can_match (set_cur e false)) with (can_match e). destruct (can_match e) eqn:Cm.
    - change (e_pot (set_pot (reset_e (set_cur e false)) true)) with true. cbn [andb].
      change (relates f (set_pot (reset_e (set_cur e false)) true)) with (relates f e).
      destruct (relates f e) eqn:R; cbn [negb].
      + split; [apply (stat_reset (set_cur e false))|]. split; [reflexivity|]. split; [reflexivity|]. intros _. split; [|reflexivity].
        unfold flags_ok. cbn. rewrite forallb_map. apply forallb_forall. intros q _. reflexivity.
      + split; [apply (stat_reset (set_cur e false))|]. split; [reflexivity|]. split; [reflexivity|]. discriminate.
    - change (e_pot (set_pot (set_cur e false) false)) with false. cbn [andb]. split; [reflexivity|]. split; [reflexivity|]. split; [reflexivity|]. discriminate. }
  assert (Hpot : existsb e_pot (map g es) = existsb (fun e => can_match e && relates f e) es).
  { rewrite existsb_map. apply existsb_ext'. intros e _. apply P1. }
  unfold pot_empty. rewrite Hpot. destruct (existsb (fun e => can_match e && relates f e) es) eqn:X; cbn [negb].
  - apply existsb_exists in X. destruct X as [e0 [He0 Hl0]].
    pose proof (complete_inv f [] (map g es) (set_state c InProgress)) as CI.
    destruct (complete (map g es) (set_state c InProgress)) as [es' c'] eqn:Ec.
    assert (CO : c_order c' = c_order c).
    { unfold complete in Ec. destruct (take_first is_matching_fin (fun e => e) _); inversion Ec; reflexivity. }
    destruct CI as [I S].
    + apply Forall_forall. intros x Hx. apply in_map_iff in Hx. destruct Hx as [e [Hx He]]. subst x.
      destruct (P1 e) as [S1 [S2 [S3 S4]]]. split; [rewrite (stat_ign _ _ S1); apply Hi; exact He|]. split.
      * intro Hq. split; [exact S2|]. split; [|apply S4; exact Hq]. unfold liveL. rewrite (stat_can_match _ _ S1), (stat_relates f _ _ S1).
        rewrite <- S3, Hq. reflexivity.
      * split; [intro Hq; congruence|]. unfold liveL. rewrite (stat_can_match _ _ S1), (stat_relates f _ _ S1). cbn. rewrite andb_true_r.
        intro Hq. rewrite S3, Hq. reflexivity.
    + intros x Hx. apply in_map_iff in Hx. destruct Hx as [e [Hx He]]. subst x. apply P1.
    + exists (g e0). split; [apply in_map_iff; exists e0; auto|]. destruct (P1 e0) as [_ [_ [S3 _]]]. congruence.
    + exact Hn.
    + exact Hch.
    + reflexivity.
    + split; [exact I|]. split; [|split; [exact CO|exists e0; auto]]. rewrite S, map_map. apply map_ext. intro e. apply P1.
  - split; [apply existsb_false; exact X|]. cbn.
    assert (Y : fulfilled_for f (map g es) = fulfilled_for f es) by (apply fulfilled_for_stat; intro e; apply P1).
    rewrite Y. reflexivity.
Qed.

(* ------------------------------------------------------------------ abstraction to the reference semantics M *)
Definition abs (e : expn) : mexp :=
  {| x_e := (e_exp e, e_name e, pl e, e_ret e); x_left := e_exp e - e_act e; x_done := e_act e;
     x_lo := e_lo e; x_hi := e_hi e; x_ooo := e_ooo e |}.
Lemma abs_stat e e' : stat e = stat e' -> abs e = abs e'.
Proof.
  intro H. unfold abs. rewrite (stat_name _ _ H), (stat_pl _ _ H), (stat_ret _ _ H). destruct (stat_cnt _ _ H) as [A B].
  destruct (stat_ord _ _ H) as [C [D E]]. rewrite A, B, C, D, E. reflexivity.
Qed.
Lemma map_abs_stat es es' : map stat es = map stat es' -> map abs es = map abs es'.
Proof.
  revert es'. induction es as [|e r IH]; destruct es' as [|e' r']; cbn; intro H; try discriminate; [reflexivity|].
  destruct (cons_eq_inv _ _ _ _ H) as [H1 H2]. rewrite (abs_stat _ _ H1), (IH _ H2). reflexivity.
Qed.
Lemma open_abs e : x_open (abs e) = can_match e.
Proof.
  unfold x_open, can_match, abs. cbn. destruct (e_act e <? e_exp e) eqn:E.
  - apply N.ltb_lt in E. apply N.ltb_lt. lia.
  - apply N.ltb_ge in E. apply N.ltb_ge. lia.
Qed.
Lemma agrees_abs P e : e_ign e = false -> agrees_upto (x_e (abs e)) P = agreesL P e.
Proof.
  intro H. unfold agrees_upto, agreesL. apply forallb_ext'. intros [n v] _. cbn [fst snd]. rewrite (has_input_noign n v e H). reflexivity.
Qed.
Lemma live_abs f P e : e_ign e = false -> x_open (abs e) && (sx_f (x_e (abs e)) =? f) && agrees_upto (x_e (abs e)) P = liveL f P e.
Proof. intro H. rewrite open_abs, (agrees_abs P e H). reflexivity. Qed.
Lemma matches_abs f P e : e_ign e = false -> matches (x_e (abs e)) f P = relates f e && agreesL P e && coveredL P e.
Proof. intro H. unfold matches. fold (agrees_upto (x_e (abs e)) P). rewrite (agrees_abs P e H). reflexivity. Qed.

Definition no_ign (es : list expn) : Prop := forall e, In e es -> e_ign e = false.
Lemma no_ign_stat es es' : map stat es = map stat es' -> no_ign es -> no_ign es'.
Proof.
  revert es'. induction es as [|e r IH]; destruct es' as [|e' r']; cbn; intros H N; try discriminate; [exact N|].
  destruct (cons_eq_inv _ _ _ _ H) as [H1 H2]. intros x [Hx|Hx]; [subst; rewrite <- (stat_ign _ _ H1); apply N; left; reflexivity|].
  apply (IH r' H2); [intros y Hy; apply N; right; exact Hy|exact Hx].
Qed.
Lemma Inv_no_ign f P es c : Inv f P es c -> no_ign es.
Proof. intros [H _] e He. rewrite Forall_forall in H. apply (H e He). Qed.

Lemma live_exists_abs f P es : no_ign es ->
  existsb (fun x => x_open x && (sx_f (x_e x) =? f) && agrees_upto (x_e x) P) (map abs es) = existsb (liveL f P) es.
Proof. intro N. rewrite existsb_map. apply existsb_ext'. intros e He. apply live_abs. apply N. exact He. Qed.

(* the parameters of the call, one after the other: L fails at the first parameter after which M has no candidate left *)
Lemma with_params_inv f : forall ps P es c,
  Inv f P es c -> nodup_names (map fst ps) = true -> (forall x, In x ps -> passed P (fst x) = false) ->
  match with_params ps es c with
  | inr fl => exists p, first_dead f (map abs es) P ps = Some p /\
                        f_kind fl = (if existsb (fun e => relates f e && has_input_name p e) es then FParamValue f p else FParamName f p)
  | inl (es', c') => first_dead f (map abs es) P ps = None /\ Inv f (P ++ ps) es' c' /\ map stat es' = map stat es /\ c_order c' = c_order c
  end.
Proof.
  induction ps as [|[n v] r IH]; intros P es c HI Hnd Hfr.
  - cbn. rewrite app_nil_r. auto.
  - cbn [with_params]. cbn in Hnd. apply andb_true_iff in Hnd. destruct Hnd as [Hn1 Hn2].
    assert (Hp : passed P n = false) by (apply (Hfr (n, v)); left; reflexivity).
    pose proof (check_input_inv f P n v es c HI Hp) as CI.
    cbn [first_dead]. rewrite (live_exists_abs f (P ++ [(n, v)]) es (Inv_no_ign _ _ _ _ HI)).
    destruct (check_input n v es c) as [[es1 c1]|fl].
    + destruct CI as [I1 [S1 [O1 [e0 [He0 Hl0]]]]].
      assert (X : existsb (liveL f (P ++ [(n, v)])) es = true) by (apply existsb_exists; eauto). rewrite X.
      specialize (IH (P ++ [(n, v)]) es1 c1 I1 Hn2).
      assert (Hfr' : forall x, In x r -> passed (P ++ [(n, v)]) (fst x) = false).
      { intros x Hx. rewrite passed_app. rewrite (Hfr x (or_intror Hx)). unfold passed. cbn. rewrite orb_false_r.
        apply negb_true_iff in Hn1. rewrite existsb_false in Hn1. apply Hn1. apply in_map. exact Hx. }
      specialize (IH Hfr'). rewrite (map_abs_stat _ _ S1) in IH.
      destruct (with_params r es1 c1) as [[es2 c2]|fl].
      * destruct IH as [A [B [C D]]]. rewrite <- app_assoc in B. cbn [app] in B.
        split; [exact A|]. split; [exact B|]. split; [rewrite C; exact S1|rewrite D; exact O1].
      * destruct IH as [p [A B]]. exists p. split; [exact A|]. rewrite B.
        assert (Y : existsb (fun e => relates f e && has_input_name p e) es1 = existsb (fun e => relates f e && has_input_name p e) es).
        { clear - S1. revert es S1. induction es1 as [|a l IHl]; destruct es as [|b m]; cbn; intro H; try discriminate; [reflexivity|].
          destruct (cons_eq_inv _ _ _ _ H) as [H1 H2]. rewrite (stat_relates f _ _ H1), (stat_has_input_name p _ _ H1), (IHl _ H2). reflexivity. }
        rewrite Y. reflexivity.
    + destruct CI as [A B]. assert (X : existsb (liveL f (P ++ [(n, v)])) es = false) by (apply existsb_false; exact A).
      rewrite X. exists n. cbn [fst]. auto.
Qed.

(* ------------------------------------------------------------------ finishing the call (MockCheckedActualCall::checkExpectations) *)
Definition wfE (e : expn) : Prop := e_ign e = false /\ e_act e <= e_exp e.
Definition upd_m (order : N) (x : mexp) : mexp :=
  {| x_e := x_e x; x_left := x_left x - 1; x_done := x_done x + 1; x_lo := x_lo x; x_hi := x_hi x;
     x_ooo := if negb (x_lo x =? 0) && ((order <? x_lo x) || (x_hi x <? order)) then true else x_ooo x |}.
Lemma consume_none f P o xs : (forall x, In x xs -> x_open x && matches (x_e x) f P = false) -> consume f P o xs = None.
Proof.
  induction xs as [|x r IH]; cbn; intro H; [reflexivity|]. rewrite (H x (or_introl eq_refl)). rewrite IH; [reflexivity|]. intros y Hy. apply H. auto.
Qed.
Lemma consume_app f P o l1 y l2 :
  (forall x, In x l1 -> x_open x && matches (x_e x) f P = false) -> x_open y && matches (x_e y) f P = true ->
  consume f P o (l1 ++ y :: l2) = Some (l1 ++ upd_m o y :: l2, sx_ret (x_e y)).
Proof.
  intros H Hy. induction l1 as [|x r IH]; cbn.
  - rewrite Hy. reflexivity.
  - rewrite (H x (or_introl eq_refl)). rewrite IH; [reflexivity|]. intros z Hz. apply H. right. exact Hz.
Qed.
Lemma abs_cwm o e : can_match e = true -> abs (call_was_made o e) = upd_m o (abs e).
Proof.
  intro H. unfold call_was_made. rewrite (abs_stat _ _ (stat_reset _)). unfold abs, upd_m. cbn. f_equal.
  apply N.ltb_lt in H. lia.
Qed.
Lemma for_cur_id g l : (forall x, In x l -> e_cur x = false) -> for_cur g l = l.
Proof.
  intro H. unfold for_cur. induction l as [|x r IH]; cbn; [reflexivity|]. rewrite (H x (or_introl eq_refl)). rewrite IH; [reflexivity|].
  intros y Hy. apply H. right. exact Hy.
Qed.
Lemma map_abs_for_pot_reset l : map abs (for_pot reset_e l) = map abs l.
Proof. unfold for_pot. rewrite map_map. apply map_ext. intro e. destruct (e_pot e); [apply abs_stat, stat_reset|reflexivity]. Qed.
Lemma live_matches f P e : e_ign e = false ->
  x_open (abs e) && matches (x_e (abs e)) f P = liveL f P e && coveredL P e.
Proof. intro H. rewrite open_abs, (matches_abs f P e H). unfold liveL. rewrite !andb_assoc. reflexivity. Qed.

Lemma finish_inv f P es c :
  Inv f P es c -> Forall wfE es ->
  match check_call es c with
  | inl (es', c') => exists v, consume f P (c_order c) (map abs es) = Some (map abs es', v) /\ cur_ret es' = v /\
                               c_state c' = Succeeded /\ c_checked c' = true /\ Forall wfE es'
  | inr fl => consume f P (c_order c) (map abs es) = None /\ f_kind fl = FParamMissing f (N.of_nat (length (filter e_pot es))) /\
              exists e, In e es /\ liveL f P e = true
  end.
Proof.
  intros [Hok [Hn [Hch Hcs]]] Hwf. assert (E : forall e, In e es -> okE f P e) by (apply Forall_forall; exact Hok).
  unfold check_call. rewrite Hch. cbn [c_state set_checked c_order c_name].
  destruct Hcs as [[Hst [Hnc [Hcov [e0 [He0 Hp0]]]]]|[Hst [l1 [e [l2 [Hes [Hce [Hnc Hl1]]]]]]]]; rewrite Hst.
  - assert (A : existsb (fun e => e_pot e && is_matching_fin e) es = false).
    { apply existsb_false. intros x Hx. destruct (e_pot x) eqn:Px; [|reflexivity]. cbn.
      destruct (E x Hx) as [Hi [Hp _]]. destruct (Hp Px) as [_ [_ [F _]]]. rewrite (is_matching_fin_ok P x Hi F). apply Hcov; assumption. }
    rewrite A.
    assert (B : take_first is_matching (fun e => call_was_made (c_order c) (set_fin e true)) es = None).
    { apply take_first_none. intros x Hx. destruct (e_pot x) eqn:Px; [|reflexivity]. cbn.
      destruct (E x Hx) as [Hi [Hp _]]. destruct (Hp Px) as [_ [_ [F _]]]. unfold is_matching. rewrite (flags_covered P x F). apply Hcov; assumption. }
    rewrite B.
    assert (C : existsb (fun e => e_pot e && negb (params_matching e)) es = true).
    { apply existsb_exists. exists e0. split; [exact He0|]. rewrite Hp0. cbn.
      destruct (E e0 He0) as [Hi [Hp _]]. destruct (Hp Hp0) as [_ [_ [F _]]]. rewrite (flags_covered P e0 F), (Hcov e0 He0 Hp0). reflexivity. }
    rewrite C. split; [|split].
    + apply consume_none. intros x Hx. apply in_map_iff in Hx. destruct Hx as [y [Hy Hin]]. subst x.
      destruct (E y Hin) as [Hi [Hp [_ Hl]]]. rewrite (live_matches f P y Hi).
      destruct (liveL f P y) eqn:L; [|reflexivity]. cbn. specialize (Hl eq_refl). rewrite (Hnc y Hin), orb_false_r in Hl. apply Hcov; assumption.
    + cbn. rewrite Hn. reflexivity.
    + exists e0. split; [exact He0|]. destruct (E e0 He0) as [_ [Hp _]]. apply (Hp Hp0).
  - subst es. destruct (E e) as [Hi [Hp [Hc Hl]]]; [apply in_or_app; right; left; reflexivity|].
    destruct (Hc Hce) as [L [F [Fi C]]].
    assert (Pe : e_pot e = false). { destruct (e_pot e) eqn:X; [|reflexivity]. destruct (Hp eq_refl) as [Y _]. congruence. }
    assert (Cm : can_match e = true). { unfold liveL in L. apply andb_true_iff in L. destruct L as [L _]. apply andb_true_iff in L. apply L. }
    assert (FC : for_cur (call_was_made (c_order c)) (l1 ++ e :: l2) = l1 ++ call_was_made (c_order c) e :: l2).
    { unfold for_cur. rewrite map_app. cbn. rewrite Hce. fold (for_cur (call_was_made (c_order c)) l1). fold (for_cur (call_was_made (c_order c)) l2).
      rewrite !for_cur_id; [reflexivity| |]; intros x Hx; apply Hnc; apply in_or_app; [right|left]; exact Hx. }
    rewrite FC. exists (e_ret e). split; [|split; [|split; [exact Hst|split; [reflexivity|]]]].
    + rewrite map_abs_for_pot_reset, !map_app. cbn [map]. rewrite (abs_cwm _ _ Cm).
      apply (consume_app f P (c_order c) (map abs l1) (abs e) (map abs l2)).
      * intros x Hx. apply in_map_iff in Hx. destruct Hx as [y [Hy Hin]]. subst x.
        destruct (E y) as [Hiy [Hpy [_ Hly]]]; [apply in_or_app; left; exact Hin|]. rewrite (live_matches f P y Hiy).
        destruct (liveL f P y) eqn:Ly; [|reflexivity]. cbn. specialize (Hly eq_refl).
        rewrite (Hnc y (in_or_app _ _ _ (or_introl Hin))), orb_false_r in Hly. apply Hl1; assumption.
      * rewrite (live_matches f P e Hi), L, C. reflexivity.
    + unfold cur_ret, for_pot. rewrite map_app. cbn [map].
      assert (X : forall l, (forall x, In x l -> e_cur x = false) -> forall t, find e_cur (map (fun e => if e_pot e then reset_e e else e) l ++ t) = find e_cur t).
      { induction l as [|a l IHl]; intros H t; [reflexivity|]. cbn. replace (e_cur (if e_pot a then reset_e a else a)) with (e_cur a) by (destruct (e_pot a); reflexivity).
        rewrite (H a (or_introl eq_refl)). apply IHl. intros y Hy. apply H. right. exact Hy. }
      rewrite X by (intros x Hx; apply Hnc; apply in_or_app; left; exact Hx). cbn.
      change (e_pot (call_was_made (c_order c) e)) with (e_pot e). rewrite Pe.
      change (e_cur (call_was_made (c_order c) e)) with (e_cur e). rewrite Hce. reflexivity.
    + unfold for_pot. apply Forall_forall. intros x Hx. apply in_map_iff in Hx. destruct Hx as [y [Hy Hin]].
      assert (W : wfE y).
      { apply in_app_or in Hin. rewrite Forall_forall in Hwf. destruct Hin as [Hin|[Hin|Hin]].
        - apply Hwf. apply in_or_app. left. exact Hin.
        - subst y. destruct (Hwf e) as [W1 W2]; [apply in_or_app; right; left; reflexivity|]. split; [exact W1|].
          unfold call_was_made. cbn. unfold can_match in Cm. apply N.ltb_lt in Cm. lia.
        - apply Hwf. apply in_or_app. right. right. exact Hin. }
      subst x. destruct (e_pot y); [|exact W]. destruct W as [W1 W2]. split; [exact W1|exact W2].
Qed.
