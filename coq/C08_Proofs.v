From Coq Require Import ZArith NArith Bool List Lia.
From CppUVerif Require Import lib.CInt lib.Str C08_Model.
Import ListNotations.

Lemma veq_refl v : pv_valid v = true -> veq v v = true.
Proof. destruct v; cbn; intros _; [apply eqb_reflx | apply Z.eqb_refl | apply bytes_eqb_refl | apply Z.eqb_refl]. Qed.
