(* C08 -- proofs, part 1: the low-level model L (flags, candidate bits, object flag, output buffers) processes one actual call
   exactly as the flag-free reference semantics M does (call-level refinement), for arbitrary expectation sets without
   ignoreOtherParameters whose functions are uniform in naming an object, and actual calls that pass no parameter name twice and
   at most one object. *)
From Coq Require Import ZArith NArith Bool List Lia.
From CppUVerif Require Import lib.CInt lib.Str C08_Model.
Import ListNotations.
Local Open Scope N_scope.

(* ------------------------------------------------------------------ values *)
Lemma veq_refl v : veq v v = true.
Proof. destruct v; cbn; [apply eqb_reflx | apply Z.eqb_refl | apply bytes_eqb_refl | apply Z.eqb_refl]. Qed.
Lemma veq_sym a b : veq a b = veq b a.
Proof.
  destruct a, b; cbn; try reflexivity; [destruct b, b0; reflexivity | apply Z.eqb_sym | apply bytes_eqb_sym | apply Z.eqb_sym].
Qed.
Lemma veq_trans a b c : veq a b = true -> veq b c = true -> veq a c = true.
Proof.
  destruct a, b, c; cbn; try discriminate; intros H1 H2.
  - apply eqb_prop in H1, H2. subst. apply eqb_reflx.
  - apply Z.eqb_eq in H1, H2. subst. apply Z.eqb_refl.
  - apply bytes_eqb_eq in H1, H2. subst. apply bytes_eqb_refl.
  - apply Z.eqb_eq in H1, H2. subst. apply Z.eqb_refl.
Qed.
Lemma veq_trans_l a b c : veq a b = true -> veq a c = veq b c.
Proof.
  intro H. destruct (veq b c) eqn:E.
  - eapply veq_trans; eauto.
  - destruct (veq a c) eqn:E2; [|reflexivity]. rewrite veq_sym in H. rewrite <- E. symmetry. eapply veq_trans; eauto.
Qed.
Lemma pv_eqb_refl v : pv_eqb v v = true.
Proof. destruct v; cbn; [apply eqb_reflx | | apply bytes_eqb_refl | apply Z.eqb_refl]. rewrite Z.eqb_refl. destruct t; reflexivity. Qed.

(* ------------------------------------------------------------------ list helpers *)
Lemma existsb_map {A B} (f : B -> bool) (g : A -> B) l : existsb f (map g l) = existsb (fun x => f (g x)) l.
Proof. induction l; cbn; congruence. Qed.
Lemma forallb_map {A B} (f : B -> bool) (g : A -> B) l : forallb f (map g l) = forallb (fun x => f (g x)) l.
Proof. induction l; cbn; congruence. Qed.
Lemma existsb_ext' {A} (f g : A -> bool) l : (forall x, In x l -> f x = g x) -> existsb f l = existsb g l.
Proof. induction l; cbn; intro H; [reflexivity|]. rewrite H by auto. rewrite IHl; auto. Qed.
Lemma forallb_ext' {A} (f g : A -> bool) l : (forall x, In x l -> f x = g x) -> forallb f l = forallb g l.
Proof. induction l; cbn; intro H; [reflexivity|]. rewrite H by auto. rewrite IHl; auto. Qed.
Lemma existsb_false {A} (f : A -> bool) l : existsb f l = false <-> forall x, In x l -> f x = false.
Proof.
  split.
  - intros H x Hx. destruct (f x) eqn:E; [|reflexivity]. rewrite <- H. symmetry. apply existsb_exists. eauto.
  - intro H. destruct (existsb f l) eqn:E; [|reflexivity]. apply existsb_exists in E. destruct E as [x [Hx Hf]]. rewrite H in Hf; auto.
Qed.
Lemma cons_eq_inv {A} (a b : A) l m : a :: l = b :: m -> a = b /\ l = m.
Proof. intro H. inversion H. auto. Qed.
Lemma flat_map_app' {A B} (f : A -> list B) l m : flat_map f (l ++ m) = flat_map f l ++ flat_map f m.
Proof. induction l; cbn; [reflexivity|]. rewrite IHl, app_assoc. reflexivity. Qed.

(* ------------------------------------------------------------------ what the matching reads of an expectation *)
Definition pl (e : expn) : list (name * pv) := map (fun p => (p_name p, p_val p)) (e_params e).
Definition ol (e : expn) : list (name * list N) := map (fun q => (q_name q, q_bytes q)) (e_outs e).

Lemma find_param_lookup n ps :
  lookup n (map (fun p => (p_name p, p_val p)) ps) = match find_param n ps with Some q => Some (p_val q) | None => None end.
Proof.
  unfold lookup, find_param. induction ps as [|p r IH]; cbn; [reflexivity|].
  destruct (p_name p =? n); [reflexivity|]. exact IH.
Qed.
Lemma has_input_pl n v e : has_input n v e = match lookup n (pl e) with Some w => veq w v | None => e_ign e end.
Proof. unfold has_input, pl. rewrite find_param_lookup. destruct (find_param n (e_params e)); reflexivity. Qed.
Lemma has_input_name_pl n e : has_input_name n e = has_name n (pl e).
Proof.
  unfold has_input_name, find_param, pl, has_name. rewrite existsb_map. cbn. induction (e_params e) as [|p r IH]; cbn; [reflexivity|].
  destruct (p_name p =? n); [reflexivity|]. exact IH.
Qed.
Lemma has_input_noign n v e : e_ign e = false -> has_input n v e = has_pv (pl e) (n, v).
Proof. intro H. rewrite has_input_pl. unfold has_pv. cbn. rewrite H. reflexivity. Qed.
Lemma has_output_name_ol n e : has_output_name n e = has_name n (ol e).
Proof.
  unfold has_output_name, find_oparam, ol, has_name. rewrite existsb_map. cbn. induction (e_outs e) as [|p r IH]; cbn; [reflexivity|].
  destruct (q_name p =? n); [reflexivity|]. exact IH.
Qed.
Lemma has_output_noign n e : e_ign e = false -> has_output n e = has_name n (ol e).
Proof.
  intro H. rewrite <- has_output_name_ol. unfold has_output, has_output_name. rewrite H. destruct (find_oparam n (e_outs e)); reflexivity.
Qed.
Lemma find_oparam_lookup n qs :
  lookup_out n (map (fun q => (q_name q, q_bytes q)) qs) = match find_oparam n qs with Some q => q_bytes q | None => [] end.
Proof.
  unfold lookup_out, find_oparam. induction qs as [|p r IH]; cbn; [reflexivity|].
  destruct (q_name p =? n); [reflexivity|]. exact IH.
Qed.

(* the part of an expectation the operations of one call never change *)
Definition stat (e : expn) := (e_name e, pl e, ol e, e_ign e, (e_lo e, e_hi e, e_ooo e), e_ret e, e_obj e, (e_act e, e_exp e)).
Lemma pl_reset e : pl (reset_e e) = pl e.
Proof. unfold pl, reset_e. cbn. rewrite map_map. reflexivity. Qed.
Lemma ol_reset e : ol (reset_e e) = ol e.
Proof. unfold ol, reset_e. cbn. rewrite map_map. reflexivity. Qed.
Lemma stat_reset e : stat (reset_e e) = stat e.
Proof. unfold stat. rewrite pl_reset, ol_reset. reflexivity. Qed.
Lemma pl_mark n e : pl (mark n e) = pl e.
Proof. unfold pl, mark. cbn. rewrite map_map. apply map_ext. intro p. destruct (p_name p =? n); reflexivity. Qed.
Lemma ol_mark_out n e : ol (mark_out n e) = ol e.
Proof. unfold ol, mark_out. cbn. rewrite map_map. apply map_ext. intro p. destruct (q_name p =? n); reflexivity. Qed.
Lemma stat_mark n e : stat (mark n e) = stat e.
Proof. unfold stat. rewrite pl_mark. reflexivity. Qed.
Lemma stat_mark_out n e : stat (mark_out n e) = stat e.
Proof. unfold stat. rewrite ol_mark_out. reflexivity. Qed.
Lemma stat_set_pot e b : stat (set_pot e b) = stat e. Proof. reflexivity. Qed.
Lemma stat_set_cur e b : stat (set_cur e b) = stat e. Proof. reflexivity. Qed.
Lemma stat_set_fin e b : stat (set_fin e b) = stat e. Proof. reflexivity. Qed.
Lemma stat_set_pobj e b : stat (set_pobj e b) = stat e. Proof. reflexivity. Qed.

Lemma stat_name e e' : stat e = stat e' -> e_name e = e_name e'. Proof. unfold stat. intro H. inversion H. reflexivity. Qed.
Lemma stat_pl e e' : stat e = stat e' -> pl e = pl e'. Proof. unfold stat. intro H. inversion H. reflexivity. Qed.
Lemma stat_ol e e' : stat e = stat e' -> ol e = ol e'. Proof. unfold stat. intro H. inversion H. reflexivity. Qed.
Lemma stat_ign e e' : stat e = stat e' -> e_ign e = e_ign e'. Proof. unfold stat. intro H. inversion H. reflexivity. Qed.
Lemma stat_cnt e e' : stat e = stat e' -> e_act e = e_act e' /\ e_exp e = e_exp e'. Proof. unfold stat. intro H. inversion H. auto. Qed.
Lemma stat_ret e e' : stat e = stat e' -> e_ret e = e_ret e'. Proof. unfold stat. intro H. inversion H. reflexivity. Qed.
Lemma stat_obj e e' : stat e = stat e' -> e_obj e = e_obj e'. Proof. unfold stat. intro H. inversion H. reflexivity. Qed.
Lemma stat_ord e e' : stat e = stat e' -> e_lo e = e_lo e' /\ e_hi e = e_hi e' /\ e_ooo e = e_ooo e'. Proof. unfold stat. intro H. inversion H. auto. Qed.

Lemma stat_has_input n v e e' : stat e = stat e' -> has_input n v e = has_input n v e'.
Proof. intro H. rewrite !has_input_pl. rewrite (stat_pl _ _ H), (stat_ign _ _ H). reflexivity. Qed.
Lemma has_output_ol n e : has_output n e = (has_name n (ol e) || e_ign e).
Proof.
  rewrite <- has_output_name_ol. unfold has_output, has_output_name. destruct (find_oparam n (e_outs e)); reflexivity.
Qed.
Lemma stat_has_output n e e' : stat e = stat e' -> has_output n e = has_output n e'.
Proof. intro H. rewrite !has_output_ol, (stat_ol _ _ H), (stat_ign _ _ H). reflexivity. Qed.
Lemma stat_relates_obj a e e' : stat e = stat e' -> relates_obj a e = relates_obj a e'.
Proof. intro H. unfold relates_obj. rewrite (stat_obj _ _ H). reflexivity. Qed.
Lemma stat_specific e e' : stat e = stat e' -> specific e = specific e'.
Proof. intro H. unfold specific. rewrite (stat_obj _ _ H). reflexivity. Qed.
Lemma stat_can_match e e' : stat e = stat e' -> can_match e = can_match e'.
Proof. intro H. unfold can_match. destruct (stat_cnt _ _ H) as [A B]. rewrite A, B. reflexivity. Qed.
Lemma stat_relates f e e' : stat e = stat e' -> relates f e = relates f e'.
Proof. intro H. unfold relates. rewrite (stat_name _ _ H). reflexivity. Qed.
Lemma stat_has_input_name n e e' : stat e = stat e' -> has_input_name n e = has_input_name n e'.
Proof. intro H. rewrite !has_input_name_pl, (stat_pl _ _ H). reflexivity. Qed.
Lemma stat_has_output_name n e e' : stat e = stat e' -> has_output_name n e = has_output_name n e'.
Proof. intro H. rewrite !has_output_name_ol, (stat_ol _ _ H). reflexivity. Qed.

(* ------------------------------------------------------------------ static predicates of a call (f, P) on an expectation;
   P = the items passed so far *)
Definition acceptsL (it : item) (e : expn) : bool :=
  match it with IIn n v => has_input n v e | IOut n _ => has_output n e | IObj a => relates_obj a e end.
Definition agreesL (P : list item) (e : expn) : bool := forallb (fun it => acceptsL it e) P.
Definition passed_in (P : list item) (n : name) : bool := existsb (N.eqb n) (in_names P).
Definition passed_out (P : list item) (n : name) : bool := existsb (N.eqb n) (out_names P).
Definition passed_obj (P : list item) : bool := negb (match objs_of P with [] => true | _ => false end).
Definition pcoveredL (P : list item) (e : expn) : bool :=
  forallb (fun q => passed_in P (fst q)) (pl e) && forallb (fun q => passed_out P (fst q)) (ol e).
Definition coveredL (P : list item) (e : expn) : bool := pcoveredL P e && (negb (specific e) || passed_obj P).
Definition liveL (f : name) (P : list item) (e : expn) : bool := can_match e && relates f e && agreesL P e.
Definition flags_ok (P : list item) (e : expn) : bool :=
  forallb (fun q => Bool.eqb (p_flag q) (passed_in P (p_name q))) (e_params e) &&
  forallb (fun q => Bool.eqb (q_flag q) (passed_out P (q_name q))) (e_outs e) &&
  Bool.eqb (e_pobj e) (negb (specific e) || passed_obj P).
(* the item was not passed before *)
Definition fresh (P : list item) (it : item) : bool :=
  match it with IIn n _ => negb (passed_in P n) | IOut n _ => negb (passed_out P n) | IObj _ => negb (passed_obj P) end.

Lemma stat_accepts it e e' : stat e = stat e' -> acceptsL it e = acceptsL it e'.
Proof. intro H. destruct it; cbn; [apply stat_has_input | apply stat_has_output | apply stat_relates_obj]; exact H. Qed.
Lemma stat_agrees P e e' : stat e = stat e' -> agreesL P e = agreesL P e'.
Proof. intro H. unfold agreesL. apply forallb_ext'. intros x _. apply stat_accepts. exact H. Qed.
Lemma stat_pcovered P e e' : stat e = stat e' -> pcoveredL P e = pcoveredL P e'.
Proof. intro H. unfold pcoveredL. rewrite (stat_pl _ _ H), (stat_ol _ _ H). reflexivity. Qed.
Lemma stat_covered P e e' : stat e = stat e' -> coveredL P e = coveredL P e'.
Proof. intro H. unfold coveredL. rewrite (stat_pcovered _ _ _ H), (stat_specific _ _ H). reflexivity. Qed.
Lemma stat_live f P e e' : stat e = stat e' -> liveL f P e = liveL f P e'.
Proof. intro H. unfold liveL. rewrite (stat_can_match _ _ H), (stat_relates f _ _ H), (stat_agrees P _ _ H). reflexivity. Qed.

Lemma flags_pcovered P e : flags_ok P e = true -> params_matching e = pcoveredL P e.
Proof.
  unfold flags_ok, params_matching, pcoveredL, pl, ol. rewrite !forallb_map. cbn. intro H.
  apply andb_true_iff in H. destruct H as [H H3]. apply andb_true_iff in H. destruct H as [H1 H2]. f_equal.
  - clear H2 H3. induction (e_params e) as [|q r IH]; cbn in *; [reflexivity|]. apply andb_true_iff in H1. destruct H1 as [A B].
    apply eqb_prop in A. rewrite A, (IH B). reflexivity.
  - clear H1 H3. induction (e_outs e) as [|q r IH]; cbn in *; [reflexivity|]. apply andb_true_iff in H2. destruct H2 as [A B].
    apply eqb_prop in A. rewrite A, (IH B). reflexivity.
Qed.
Lemma flags_covered P e : flags_ok P e = true -> is_matching e = coveredL P e.
Proof.
  intro H. unfold is_matching, coveredL. rewrite (flags_pcovered P e H). f_equal.
  unfold flags_ok in H. apply andb_true_iff in H. destruct H as [_ H]. apply eqb_prop in H. exact H.
Qed.
Lemma is_matching_fin_ok P e : e_ign e = false -> flags_ok P e = true -> is_matching_fin e = coveredL P e.
Proof. intros Hi Hf. unfold is_matching_fin. rewrite (flags_covered P e Hf), Hi. cbn. apply andb_true_r. Qed.

Lemma agrees_app P Q e : agreesL (P ++ Q) e = agreesL P e && agreesL Q e.
Proof. unfold agreesL. apply forallb_app. Qed.
Lemma in_names_app P Q : in_names (P ++ Q) = in_names P ++ in_names Q. Proof. apply flat_map_app'. Qed.
Lemma out_names_app P Q : out_names (P ++ Q) = out_names P ++ out_names Q. Proof. apply flat_map_app'. Qed.
Lemma objs_of_app P Q : objs_of (P ++ Q) = objs_of P ++ objs_of Q. Proof. apply flat_map_app'. Qed.
Lemma passed_in_app P Q n : passed_in (P ++ Q) n = passed_in P n || passed_in Q n.
Proof. unfold passed_in. rewrite in_names_app. apply existsb_app. Qed.
Lemma passed_out_app P Q n : passed_out (P ++ Q) n = passed_out P n || passed_out Q n.
Proof. unfold passed_out. rewrite out_names_app. apply existsb_app. Qed.
Lemma passed_obj_app P Q : passed_obj (P ++ Q) = passed_obj P || passed_obj Q.
Proof. unfold passed_obj. rewrite objs_of_app. destruct (objs_of P), (objs_of Q); reflexivity. Qed.
Lemma live_snoc f P it e : liveL f (P ++ [it]) e = liveL f P e && acceptsL it e.
Proof. unfold liveL. rewrite agrees_app. unfold agreesL at 2. cbn. rewrite andb_true_r. rewrite !andb_assoc. reflexivity. Qed.

(* an expectation all of whose parameters were passed has no room for an input / output parameter not passed yet *)
Lemma covered_lacks_in P e n v :
  pcoveredL P e = true -> passed_in P n = false -> e_ign e = false -> has_input n v e = false.
Proof.
  intros Hc Hn Hi. rewrite has_input_pl, Hi. unfold lookup.
  destruct (find (fun x => fst x =? n) (pl e)) as [x|] eqn:E; [|reflexivity].
  apply find_some in E. destruct E as [Hin Hx]. apply N.eqb_eq in Hx.
  unfold pcoveredL in Hc. apply andb_true_iff in Hc. destruct Hc as [Hc _]. rewrite forallb_forall in Hc. specialize (Hc x Hin).
  change (passed_in P (fst x) = true) in Hc. rewrite Hx in Hc. congruence.
Qed.
Lemma covered_lacks_out P e n :
  pcoveredL P e = true -> passed_out P n = false -> e_ign e = false -> has_output n e = false.
Proof.
  intros Hc Hn Hi. rewrite has_output_ol, Hi, orb_false_r. unfold has_name. apply existsb_false. intros x Hin.
  destruct (fst x =? n) eqn:Hx; [|reflexivity]. apply N.eqb_eq in Hx.
  unfold pcoveredL in Hc. apply andb_true_iff in Hc. destruct Hc as [_ Hc]. rewrite forallb_forall in Hc. specialize (Hc x Hin).
  change (passed_out P (fst x) = true) in Hc. rewrite Hx in Hc. congruence.
Qed.

(* ------------------------------------------------------------------ invariant of one expectation during a call (f, P):
   Candidates and the current match are exactly the expectations alive for (f, P); their flags say which of their parameters
   (and whether the object) were passed; nothing is finalized. *)
Definition okE (f : name) (P : list item) (e : expn) : Prop :=
  e_ign e = false /\
  (e_pot e = true -> e_cur e = false /\ liveL f P e = true /\ flags_ok P e = true /\ e_fin e = false) /\
  (e_cur e = true -> liveL f P e = true /\ flags_ok P e = true /\ e_fin e = false /\ coveredL P e = true) /\
  (liveL f P e = true -> e_pot e || e_cur e = true).

Definition is_param (it : item) : bool := match it with IObj _ => false | _ => true end.
Definition markL (it : item) (e : expn) : expn :=
  match it with IIn n _ => mark n e | IOut n _ => mark_out n e | IObj _ => pass_obj e end.
(* checkInputParameter / checkOutputParameter on one expectation: discard, the two pruning passes, then the marking pass *)
Definition stepE (it : item) (e : expn) : expn :=
  let e1 := if e_cur e then set_cur (reset_e e) false else e in
  let e2 := if e_pot e1 && is_matching_fin e1 then drop (reset_e e1) else e1 in
  if e_pot e2 && negb (acceptsL it e2) then drop e2 else e2.
Definition markE (it : item) (e : expn) : expn := if e_pot e then markL it e else e.

Lemma step_list it es : keep_if (acceptsL it) (discard es) = map (stepE it) es.
Proof. unfold keep_if, discard, only_keep_unmatching, for_cur. rewrite !map_map. apply map_ext. intro e. reflexivity. Qed.
Lemma mark_list it es : for_pot (markL it) es = map (markE it) es.
Proof. reflexivity. Qed.

Lemma stat_markL it e : stat (markL it e) = stat e.
Proof. destruct it; cbn; [apply stat_mark | apply stat_mark_out | reflexivity]. Qed.
Lemma stat_markE it e : stat (markE it e) = stat e.
Proof. unfold markE. destruct (e_pot e); [apply stat_markL|reflexivity]. Qed.

Lemma specific_mark n e : specific (mark n e) = specific e. Proof. reflexivity. Qed.
Lemma specific_mark_out n e : specific (mark_out n e) = specific e. Proof. reflexivity. Qed.

Lemma flags_ok_markL P it e : flags_ok P e = true -> flags_ok (P ++ [it]) (markL it e) = true.
Proof.
  unfold flags_ok. intro H. apply andb_true_iff in H. destruct H as [H H3]. apply andb_true_iff in H. destruct H as [H1 H2].
  apply eqb_prop in H3. rewrite forallb_forall in H1, H2.
  destruct it as [n v|n buf|a]; cbn [markL].
  - unfold mark. cbn [e_params e_outs e_pobj set_params]. change (specific (set_params e _)) with (specific e).
    rewrite passed_obj_app. change (passed_obj [IIn n v]) with false. rewrite orb_false_r, H3, eqb_reflx, andb_true_r.
    apply andb_true_iff. split.
    + rewrite forallb_map. apply forallb_forall. intros q Hq. specialize (H1 q Hq). apply eqb_prop in H1.
      rewrite passed_in_app. change (passed_in [IIn n v] ?m) with (N.eqb m n || false). rewrite orb_false_r.
      destruct (p_name q =? n) eqn:E; cbn.
      * rewrite E, orb_true_r. reflexivity.
      * rewrite H1, E, orb_false_r. apply eqb_reflx.
    + apply forallb_forall. intros q Hq. specialize (H2 q Hq). apply eqb_prop in H2. rewrite passed_out_app, H2.
      change (passed_out [IIn n v] (q_name q)) with false. rewrite orb_false_r. apply eqb_reflx.
  - unfold mark_out. cbn [e_params e_outs e_pobj set_outs]. change (specific (set_outs e _)) with (specific e).
    rewrite passed_obj_app. change (passed_obj [IOut n buf]) with false. rewrite orb_false_r, H3, eqb_reflx, andb_true_r.
    apply andb_true_iff. split.
    + apply forallb_forall. intros q Hq. specialize (H1 q Hq). apply eqb_prop in H1. rewrite passed_in_app, H1.
      change (passed_in [IOut n buf] (p_name q)) with false. rewrite orb_false_r. apply eqb_reflx.
    + rewrite forallb_map. apply forallb_forall. intros q Hq. specialize (H2 q Hq). apply eqb_prop in H2.
      rewrite passed_out_app. change (passed_out [IOut n buf] ?m) with (N.eqb m n || false). rewrite orb_false_r.
      destruct (q_name q =? n) eqn:E; cbn.
      * rewrite E, orb_true_r. reflexivity.
      * rewrite H2, E, orb_false_r. apply eqb_reflx.
  - unfold pass_obj. cbn [e_params e_outs e_pobj set_pobj]. change (specific (set_pobj e true)) with (specific e).
    rewrite passed_obj_app. change (passed_obj [IObj a]) with true. rewrite orb_true_r, orb_true_r. cbn [Bool.eqb]. rewrite andb_true_r.
    apply andb_true_iff. split.
    + apply forallb_forall. intros q Hq. specialize (H1 q Hq). apply eqb_prop in H1. rewrite passed_in_app, H1.
      change (passed_in [IObj a] (p_name q)) with false. rewrite orb_false_r. apply eqb_reflx.
    + apply forallb_forall. intros q Hq. specialize (H2 q Hq). apply eqb_prop in H2. rewrite passed_out_app, H2.
      change (passed_out [IObj a] (q_name q)) with false. rewrite orb_false_r. apply eqb_reflx.
Qed.

Lemma covered_lacks P it e :
  coveredL P e = true -> fresh P it = true -> is_param it = true -> e_ign e = false -> acceptsL it e = false.
Proof.
  intros Hc Hf Hp Hi. unfold coveredL in Hc. apply andb_true_iff in Hc. destruct Hc as [Hc _].
  destruct it as [n v|n buf|a]; cbn in *; [|  |discriminate].
  - apply negb_true_iff in Hf. apply (covered_lacks_in P e n v Hc Hf Hi).
  - apply negb_true_iff in Hf. apply (covered_lacks_out P e n Hc Hf Hi).
Qed.

Lemma markE_off it x : e_pot x = false -> markE it x = x. Proof. unfold markE. intros ->. reflexivity. Qed.
Lemma markE_on it x : e_pot x = true -> markE it x = markL it x. Proof. unfold markE. intros ->. reflexivity. Qed.
Lemma fin_markL it e : e_fin (markL it e) = e_fin e. Proof. destruct it; reflexivity. Qed.
Lemma pot_markL it e : e_pot (markL it e) = e_pot e. Proof. destruct it; reflexivity. Qed.
Lemma cur_markL it e : e_cur (markL it e) = e_cur e. Proof. destruct it; reflexivity. Qed.
Lemma ign_markL it e : e_ign (markL it e) = e_ign e. Proof. destruct it; reflexivity. Qed.

Lemma step_elem f P it e :
  okE f P e -> fresh P it = true -> is_param it = true ->
  let e' := markE it (stepE it e) in
  stat e' = stat e /\ e_cur e' = false /\ e_pot e' = liveL f (P ++ [it]) e /\ e_pot (stepE it e) = e_pot e' /\ e_ign e' = false /\
  (e_pot e' = true -> flags_ok (P ++ [it]) e' = true /\ e_fin e' = false).
Proof.
  intros [Hi [Hp [Hc Hl]]] Hn Hpar. cbn zeta. rewrite live_snoc.
  destruct (e_cur e) eqn:Ecur.
  - destruct (Hc eq_refl) as [L [F [Fi C]]].
    assert (Epot : e_pot e = false). { destruct (e_pot e) eqn:E; [|reflexivity]. destruct (Hp eq_refl) as [X _]. discriminate X. }
    assert (S : stepE it e = set_cur (reset_e e) false).
    { unfold stepE. rewrite Ecur. change (e_pot (set_cur (reset_e e) false)) with (e_pot e). rewrite Epot. cbn [andb].
      change (e_pot (set_cur (reset_e e) false)) with (e_pot e). rewrite Epot. reflexivity. }
    rewrite S. rewrite markE_off by exact Epot.
    rewrite (covered_lacks P it e C Hn Hpar Hi), andb_false_r.
    split; [apply stat_reset|]. split; [reflexivity|]. split; [exact Epot|]. split; [reflexivity|]. split; [exact Hi|].
    intro X. exfalso. change (e_pot e = true) in X. congruence.
  - destruct (e_pot e) eqn:Epot.
    + destruct (Hp eq_refl) as [_ [L [F Fi]]].
      destruct (coveredL P e) eqn:C.
      * assert (S : stepE it e = drop (reset_e e)).
        { unfold stepE. rewrite Ecur. cbn zeta. rewrite Epot, (is_matching_fin_ok P e Hi F), C. reflexivity. }
        rewrite S. rewrite markE_off by reflexivity.
        rewrite (covered_lacks P it e C Hn Hpar Hi), andb_false_r.
        split; [apply stat_reset|]. split; [exact Ecur|]. split; [reflexivity|]. split; [reflexivity|]. split; [exact Hi|]. discriminate.
      * destruct (acceptsL it e) eqn:Hin.
        -- assert (S : stepE it e = e).
           { unfold stepE. rewrite Ecur. cbn zeta. rewrite Epot, (is_matching_fin_ok P e Hi F), C. cbn [andb]. rewrite Epot, Hin. reflexivity. }
           rewrite S. rewrite markE_on by exact Epot. rewrite L. cbn [andb].
           split; [apply stat_markL|]. split; [rewrite cur_markL; exact Ecur|]. split; [rewrite pot_markL; exact Epot|].
           split; [rewrite pot_markL; reflexivity|]. split; [rewrite ign_markL; exact Hi|].
           intros _. split; [apply flags_ok_markL; exact F|rewrite fin_markL; exact Fi].
        -- assert (S : stepE it e = drop e).
           { unfold stepE. rewrite Ecur. cbn zeta. rewrite Epot, (is_matching_fin_ok P e Hi F), C. cbn [andb]. rewrite Epot, Hin. reflexivity. }
           rewrite S. rewrite markE_off by reflexivity. rewrite L. cbn [andb].
           split; [reflexivity|]. split; [exact Ecur|]. split; [reflexivity|]. split; [reflexivity|]. split; [exact Hi|]. discriminate.
    + assert (S : stepE it e = e). { unfold stepE. rewrite Ecur. cbn zeta. rewrite Epot. cbn [andb]. rewrite Epot. reflexivity. }
      rewrite S. rewrite markE_off by exact Epot.
      assert (L : liveL f P e = false).
      { destruct (liveL f P e) eqn:E; [|reflexivity]. specialize (Hl eq_refl). discriminate Hl. }
      rewrite L. cbn [andb].
      split; [reflexivity|]. split; [exact Ecur|]. split; [exact Epot|]. split; [reflexivity|]. split; [exact Hi|]. rewrite Epot. discriminate.
Qed.

(* take_first: what removeFirst... does; first_pot: the member it finds *)
Lemma take_first_none pred g es : take_first pred g es = None <-> forall e, In e es -> e_pot e && pred e = false.
Proof.
  induction es as [|e r IH]; cbn; [tauto|]. destruct (e_pot e && pred e) eqn:E.
  - split; [discriminate|]. intro H. specialize (H e (or_introl eq_refl)). congruence.
  - destruct (take_first pred g r) eqn:T.
    + split; [discriminate|]. intro H. exfalso. assert (X : Some l = None) by (apply IH; intros x Hx; apply H; auto). discriminate X.
    + split; [|reflexivity]. intros _ x [Hx|Hx]; [subst; exact E|]. apply IH; auto.
Qed.
Lemma take_first_some pred g es es' :
  take_first pred g es = Some es' ->
  exists l1 e l2, es = l1 ++ e :: l2 /\ es' = l1 ++ g (set_cur (drop e) true) :: l2 /\ e_pot e && pred e = true /\
                  forall x, In x l1 -> e_pot x && pred x = false.
Proof.
  revert es'. induction es as [|e r IH]; cbn; intros es' H; [discriminate|]. destruct (e_pot e && pred e) eqn:E.
  - inversion H; subst. exists [], e, r. cbn. repeat split; auto. intros x [].
  - destruct (take_first pred g r) eqn:T; [|discriminate]. inversion H; subst.
    destruct (IH l eq_refl) as [l1 [x [l2 [A [B [C D]]]]]]. exists (e :: l1), x, l2. subst. cbn. repeat split; auto.
    intros y [Hy|Hy]; [subst; exact E|]. apply D. exact Hy.
Qed.
Lemma first_pot_some pred l1 e l2 :
  e_pot e && pred e = true -> (forall x, In x l1 -> e_pot x && pred x = false) -> first_pot pred (l1 ++ e :: l2) = Some e.
Proof.
  intros He H. unfold first_pot. induction l1 as [|x r IH]; cbn.
  - rewrite He. reflexivity.
  - rewrite (H x (or_introl eq_refl)). apply IH. intros y Hy. apply H. right. exact Hy.
Qed.
Lemma first_pot_none pred es : (forall e, In e es -> e_pot e && pred e = false) -> first_pot pred es = None.
Proof.
  intro H. unfold first_pot. induction es as [|x r IH]; cbn; [reflexivity|]. rewrite (H x (or_introl eq_refl)). apply IH.
  intros y Hy. apply H. right. exact Hy.
Qed.

(* output buffers *)
Definition filled (e : expn) (outs : list (name * list N)) : Prop :=
  Forall (fun o => is_prefix (lookup_out (fst o) (ol e)) (snd o) = true) outs.
Lemma is_prefix_app p q : is_prefix p (p ++ q) = true.
Proof. apply is_prefix_spec. exists q. reflexivity. Qed.
Lemma is_prefix_nil s : is_prefix [] s = true.
Proof. apply is_prefix_spec. exists s. reflexivity. Qed.
Lemma copy_outputs_names e outs : map fst (copy_outputs e outs) = map fst outs.
Proof. unfold copy_outputs. rewrite map_map. apply map_ext. intro o. destruct (find_oparam (fst o) (e_outs e)); reflexivity. Qed.
Lemma copy_outputs_filled e outs : filled e (copy_outputs e outs).
Proof.
  unfold filled, copy_outputs. apply Forall_forall. intros o Ho. apply in_map_iff in Ho. destruct Ho as [o0 [Ho _]]. subst o.
  unfold ol. rewrite find_oparam_lookup.
  destruct (find_oparam (fst o0) (e_outs e)) as [q|] eqn:E; cbn [fst snd].
  - rewrite E. unfold overwrite. apply is_prefix_app.
  - rewrite E. apply is_prefix_nil.
Qed.
Lemma filled_stat e e' outs : stat e = stat e' -> filled e outs -> filled e' outs.
Proof. intros H F. unfold filled in *. rewrite <- (stat_ol _ _ H). exact F. Qed.

(* the state of the call after the items P *)
Definition curS (P : list item) (es : list expn) (c : acall) : Prop :=
  (c_state c = InProgress /\ (forall e, In e es -> e_cur e = false) /\ (forall e, In e es -> e_pot e = true -> coveredL P e = false) /\
   exists e, In e es /\ e_pot e = true)
  \/ (c_state c = Succeeded /\ exists l1 e l2, es = l1 ++ e :: l2 /\ e_cur e = true /\ (forall x, In x (l1 ++ l2) -> e_cur x = false) /\
      (forall x, In x l1 -> e_pot x = true -> coveredL P x = false) /\ filled e (c_outs c)).
Definition Inv (f : name) (P : list item) (es : list expn) (c : acall) : Prop :=
  Forall (okE f P) es /\ c_name c = f /\ c_checked c = false /\ map fst (c_outs c) = out_names P /\ curS P es c.

(* completeCallWhenMatchIsFound re-establishes the invariant from a list without current match *)
Lemma complete_inv f P es c :
  Forall (okE f P) es -> (forall e, In e es -> e_cur e = false) -> (exists e, In e es /\ e_pot e = true) ->
  c_name c = f -> c_checked c = false -> c_state c = InProgress -> map fst (c_outs c) = out_names P ->
  let (es', c') := complete es c in Inv f P es' c' /\ map stat es' = map stat es /\ c_order c' = c_order c.
Proof.
  intros Hok Hnc Hne Hn Hch Hst Hon. unfold complete.
  assert (E : forall e, In e es -> okE f P e) by (apply Forall_forall; exact Hok).
  assert (MF : forall e, In e es -> e_pot e = true -> is_matching_fin e = coveredL P e /\ is_matching e = coveredL P e).
  { intros e He Hp. destruct (E e He) as [Hi [Hpp _]]. destruct (Hpp Hp) as [_ [_ [F _]]].
    split; [apply (is_matching_fin_ok P e Hi F)|apply (flags_covered P e F)]. }
  destruct (take_first is_matching_fin (fun e => e) es) as [es'|] eqn:T.
  - apply take_first_some in T. destruct T as [l1 [e [l2 [A [B [C D]]]]]]. subst es es'.
    rewrite (first_pot_some is_matching_fin l1 e l2 C D).
    apply andb_true_iff in C. destruct C as [Cp Cm].
    assert (Hin : In e (l1 ++ e :: l2)) by (apply in_or_app; right; left; reflexivity).
    destruct (E e Hin) as [Hi [Hp [Hc Hl]]]. destruct (Hp Cp) as [_ [L [F Fi]]]. rewrite (is_matching_fin_ok P e Hi F) in Cm.
    split; [|split; [rewrite !map_app; reflexivity|reflexivity]].
    split; [|split; [exact Hn|split; [exact Hch|split; [cbn; rewrite copy_outputs_names; exact Hon|]]]].
    + apply Forall_app. apply Forall_app in Hok. destruct Hok as [H1 H2]. split; [exact H1|]. inversion H2; subst.
      constructor; [|assumption]. split; [exact Hi|]. cbn. split; [discriminate|]. split; [intros _; auto|]. intros _. reflexivity.
    + right. cbn. split; [reflexivity|]. exists l1, (set_cur (drop e) true), l2. split; [reflexivity|]. split; [reflexivity|]. split; [|split].
      * intros x Hx. apply Hnc. apply in_app_or in Hx. apply in_or_app. destruct Hx; [left|right; right]; assumption.
      * intros x Hx Hpx. specialize (D x Hx). rewrite Hpx in D. cbn in D.
        destruct (MF x (in_or_app _ _ _ (or_introl Hx)) Hpx) as [M1 _]. rewrite M1 in D. exact D.
      * apply (filled_stat e); [reflexivity|]. apply copy_outputs_filled.
  - pose proof (proj1 (take_first_none _ _ _) T) as TN.
    rewrite (first_pot_none is_matching_fin es TN).
    assert (TN2 : forall e, In e es -> e_pot e && is_matching e = false).
    { intros e He. specialize (TN e He). destruct (e_pot e) eqn:Hp; [|reflexivity]. cbn in *.
      destruct (MF e He Hp) as [M1 M2]. congruence. }
    rewrite (first_pot_none is_matching es TN2).
    split; [|split; reflexivity]. split; [exact Hok|]. split; [exact Hn|]. split; [exact Hch|]. split; [exact Hon|]. left. split; [exact Hst|].
    split; [exact Hnc|]. split; [|exact Hne]. intros e He Hpe.
    specialize (TN e He). rewrite Hpe in TN. cbn in TN. destruct (MF e He Hpe) as [M1 _]. congruence.
Qed.

Lemma existsb_stat (g : expn -> bool) (h : expn -> expn) es :
  (forall e e', stat e = stat e' -> g e = g e') -> (forall e, stat (h e) = stat e) -> existsb g (map h es) = existsb g es.
Proof. intros Hg Hh. rewrite existsb_map. apply existsb_ext'. intros e _. apply Hg. apply Hh. Qed.

(* checkInputParameter / checkOutputParameter on the whole list, after the call record was prepared *)
Lemma param_core f P it es c1 :
  Forall (okE f P) es -> fresh P it = true -> is_param it = true ->
  c_name c1 = f -> c_checked c1 = false -> c_state c1 = InProgress -> map fst (c_outs c1) = out_names (P ++ [it]) ->
  let es1 := keep_if (acceptsL it) (discard es) in
  (forall e, stat (stepE it e) = stat e) /\
  if pot_empty es1 then forall e, In e es -> liveL f (P ++ [it]) e = false
  else let (es', c') := complete (for_pot (markL it) es1) c1 in
       Inv f (P ++ [it]) es' c' /\ map stat es' = map stat es /\ c_order c' = c_order c1 /\
       exists e, In e es /\ liveL f (P ++ [it]) e = true.
Proof.
  intros Hok Hp Hpar Hn Hch Hst Hon. cbn zeta. rewrite step_list.
  assert (E : forall e, In e es -> okE f P e) by (apply Forall_forall; exact Hok).
  split.
  { intro e. unfold stepE.
    set (e1 := if e_cur e then set_cur (reset_e e) false else e).
    assert (S1 : stat e1 = stat e) by (unfold e1; destruct (e_cur e); [apply stat_reset|reflexivity]).
    set (e2 := if e_pot e1 && is_matching_fin e1 then drop (reset_e e1) else e1).
    assert (S2 : stat e2 = stat e) by (unfold e2; destruct (e_pot e1 && is_matching_fin e1); [rewrite <- S1; apply stat_reset|exact S1]).
    destruct (e_pot e2 && negb (acceptsL it e2)); exact S2. }
  assert (Hpot : existsb e_pot (map (stepE it) es) = existsb (liveL f (P ++ [it])) es).
  { rewrite existsb_map. apply existsb_ext'. intros e He. destruct (step_elem f P it e (E e He) Hp Hpar) as [_ [_ [A [B _]]]]. congruence. }
  unfold pot_empty. rewrite Hpot. destruct (existsb (liveL f (P ++ [it])) es) eqn:X; cbn [negb].
  - apply existsb_exists in X. destruct X as [e0 [He0 Hl0]].
    rewrite mark_list, map_map.
    pose proof (complete_inv f (P ++ [it]) (map (fun e => markE it (stepE it e)) es) c1) as CI.
    destruct (complete (map (fun e => markE it (stepE it e)) es) c1) as [es' c'] eqn:Ec.
    destruct CI as [I [S CO]].
    + apply Forall_forall. intros x Hx. apply in_map_iff in Hx. destruct Hx as [e [Hx He]]. subst x.
      destruct (step_elem f P it e (E e He) Hp Hpar) as [S1 [S2 [S3 [_ [S5 S6]]]]].
      split; [exact S5|]. split.
      * intro Hq. split; [exact S2|]. split; [rewrite (stat_live _ _ _ _ S1); congruence|]. apply S6. exact Hq.
      * split; [intro Hq; congruence|]. intro Hq. rewrite (stat_live _ _ _ _ S1) in Hq. rewrite S3, Hq. reflexivity.
    + intros x Hx. apply in_map_iff in Hx. destruct Hx as [e [Hx He]]. subst x.
      destruct (step_elem f P it e (E e He) Hp Hpar) as [_ [S2 _]]. exact S2.
    + exists (markE it (stepE it e0)). split; [apply in_map_iff; exists e0; auto|].
      destruct (step_elem f P it e0 (E e0 He0) Hp Hpar) as [_ [_ [S3 _]]]. congruence.
    + exact Hn.
    + exact Hch.
    + exact Hst.
    + exact Hon.
    + split; [exact I|]. split.
      * rewrite S, map_map. apply map_ext_in. intros e He. destruct (step_elem f P it e (E e He) Hp Hpar) as [S1 _]. exact S1.
      * split; [exact CO|]. exists e0. auto.
  - apply existsb_false. exact X.
Qed.

Definition fail_kind (f : name) (it : item) (es : list expn) : fkind :=
  match it with
  | IIn n _ => if existsb (fun e => relates f e && has_input_name n e) es then FParamValue f n else FParamName f n
  | IOut n _ => if existsb (fun e => relates f e && has_output_name n e) es then FOutType f n else FOutName f n
  | IObj _ => FObjectUnexpected f
  end.

Lemma Inv_okE f P es c : Inv f P es c -> Forall (okE f P) es. Proof. intros [H _]. exact H. Qed.

Lemma with_item_param_inv f P it es c :
  Inv f P es c -> fresh P it = true -> is_param it = true ->
  match with_item it es c with
  | inr fl => (forall e, In e es -> liveL f (P ++ [it]) e = false) /\ f_kind fl = fail_kind f it es
  | inl (es', c') => Inv f (P ++ [it]) es' c' /\ map stat es' = map stat es /\ c_order c' = c_order c /\
                     exists e, In e es /\ liveL f (P ++ [it]) e = true
  end.
Proof.
  intros [Hok [Hn [Hch [Hon Hcs]]]] Hp Hpar.
  destruct it as [n v|n buf|a]; [| |discriminate Hpar].
  - cbn [with_item]. unfold check_input.
    assert (HON : map fst (c_outs (set_state c InProgress)) = out_names (P ++ [IIn n v])).
    { cbn. rewrite out_names_app, Hon. cbn. rewrite app_nil_r. reflexivity. }
    pose proof (param_core f P (IIn n v) es (set_state c InProgress) Hok Hp Hpar Hn Hch eq_refl HON) as PC.
    cbn zeta in PC. destruct PC as [ST PC].
    change (keep_if (has_input n v) (discard es)) with (keep_if (acceptsL (IIn n v)) (discard es)).
    change (for_pot (mark n)) with (for_pot (markL (IIn n v))).
    destruct (pot_empty (keep_if (acceptsL (IIn n v)) (discard es))).
    + split; [exact PC|]. cbn [f_kind history_related history c_name set_state fail_kind]. rewrite Hn. rewrite step_list.
      rewrite (existsb_stat (fun e => relates f e && has_input_name n e) (stepE (IIn n v)) es); [reflexivity| |exact ST].
      intros e e' H. rewrite (stat_relates f _ _ H), (stat_has_input_name n _ _ H). reflexivity.
    + exact PC.
  - cbn [with_item]. unfold check_output.
    assert (HON : map fst (c_outs (set_state (set_couts c (c_outs c ++ [(n, buf)])) InProgress)) = out_names (P ++ [IOut n buf])).
    { cbn. rewrite map_app, out_names_app, Hon. reflexivity. }
    pose proof (param_core f P (IOut n buf) es (set_state (set_couts c (c_outs c ++ [(n, buf)])) InProgress) Hok Hp Hpar Hn Hch eq_refl HON) as PC.
    cbn zeta in PC. destruct PC as [ST PC].
    change (keep_if (has_output n) (discard es)) with (keep_if (acceptsL (IOut n buf)) (discard es)).
    change (for_pot (mark_out n)) with (for_pot (markL (IOut n buf))).
    destruct (pot_empty (keep_if (acceptsL (IOut n buf)) (discard es))).
    + split; [exact PC|]. cbn [f_kind history_related history c_name set_state set_couts fail_kind]. rewrite Hn. rewrite step_list.
      rewrite (existsb_stat (fun e => relates f e && has_output_name n e) (stepE (IOut n buf)) es); [reflexivity| |exact ST].
      intros e e' H. rewrite (stat_relates f _ _ H), (stat_has_output_name n _ _ H). reflexivity.
    + exact PC.
Qed.

(* ------------------------------------------------------------------ onObject *)
(* per function either every expectation names an object or none does *)
Definition unif (f : name) (es : list expn) : Prop :=
  forall e e', In e es -> In e' es -> relates f e = true -> relates f e' = true -> specific e = specific e'.
Definition objE (a : Z) (e : expn) : expn :=
  let e1 := if e_pot e && negb (relates_obj a e) then drop e else e in
  if e_pot e1 then pass_obj e1 else e1.
Lemma obj_list a es : for_pot pass_obj (keep_if (relates_obj a) es) = map (objE a) es.
Proof. unfold for_pot, keep_if. rewrite map_map. reflexivity. Qed.
Lemma pass_obj_id e : e_pobj e = true -> pass_obj e = e.
Proof. destruct e. cbn. intros ->. reflexivity. Qed.
Lemma coveredL_obj P a e : coveredL (P ++ [IObj a]) e = pcoveredL P e.
Proof.
  unfold coveredL, pcoveredL. rewrite passed_obj_app. change (passed_obj [IObj a]) with true. rewrite orb_true_r, orb_true_r, andb_true_r.
  f_equal; apply forallb_ext'; intros q _.
  - rewrite passed_in_app. change (passed_in [IObj a] (fst q)) with false. apply orb_false_r.
  - rewrite passed_out_app. change (passed_out [IObj a] (fst q)) with false. apply orb_false_r.
Qed.
Lemma coveredL_nonspecific P e : specific e = false -> coveredL P e = pcoveredL P e.
Proof. intro H. unfold coveredL. rewrite H. cbn. apply andb_true_r. Qed.
Lemma live_relates f P e : liveL f P e = true -> relates f e = true.
Proof. unfold liveL. intro H. apply andb_true_iff in H. destruct H as [H _]. apply andb_true_iff in H. apply H. Qed.

Lemma obj_elem f P a e :
  okE f P e -> passed_obj P = false -> (e_cur e = true -> specific e = false) ->
  let e' := objE a e in
  stat e' = stat e /\ e_cur e' = e_cur e /\ e_pot e' = e_pot e && relates_obj a e /\ okE f (P ++ [IObj a]) e'.
Proof.
  intros [Hi [Hp [Hc Hl]]] Ho Hs. cbn zeta. unfold objE.
  destruct (e_pot e) eqn:Epot.
  - destruct (Hp eq_refl) as [Cu [L [F Fi]]]. destruct (relates_obj a e) eqn:Ro; cbn [andb negb].
    + rewrite Epot. split; [reflexivity|]. split; [reflexivity|]. split; [exact Epot|].
      split; [exact Hi|]. split; [|split].
      * intros _. split; [exact Cu|]. split; [|split; [apply (flags_ok_markL P (IObj a) e F)|exact Fi]].
        rewrite live_snoc. change (liveL f P (pass_obj e)) with (liveL f P e). rewrite L. exact Ro.
      * intro X. change (e_cur e = true) in X. congruence.
      * intros _. change (e_pot e || e_cur e = true). rewrite Epot. reflexivity.
    + change (e_pot (drop e)) with false. cbn iota. split; [reflexivity|]. split; [reflexivity|]. split; [reflexivity|].
      split; [exact Hi|]. split; [discriminate|]. split; [intro X; change (e_cur e = true) in X; congruence|].
      rewrite live_snoc. change (liveL f P (drop e)) with (liveL f P e). change (acceptsL (IObj a) (drop e)) with (relates_obj a e).
      rewrite Ro, andb_false_r. discriminate.
  - cbn [andb]. cbn iota. rewrite Epot. split; [reflexivity|]. split; [reflexivity|]. split; [exact Epot|].
    split; [exact Hi|]. split; [intro X; congruence|]. split.
    + intro Cu. destruct (Hc Cu) as [L [F [Fi C]]]. specialize (Hs Cu).
      assert (Ro : relates_obj a e = true). { unfold relates_obj. unfold specific in Hs. destruct (e_obj e); [discriminate|reflexivity]. }
      assert (Pb : e_pobj e = true).
      { unfold flags_ok in F. apply andb_true_iff in F. destruct F as [_ F]. apply eqb_prop in F. rewrite F, Hs. reflexivity. }
      split; [rewrite live_snoc, L; exact Ro|]. split; [|split; [exact Fi|]].
      * rewrite <- (pass_obj_id e Pb). apply (flags_ok_markL P (IObj a) e F).
      * rewrite coveredL_obj. rewrite <- (coveredL_nonspecific P e Hs). exact C.
    + rewrite live_snoc. intro X. apply andb_true_iff in X. destruct X as [X _]. rewrite Epot. apply (Hl X).
Qed.

Lemma Inv_cur_nonspecific f P es c e :
  Inv f P es c -> passed_obj P = false -> In e es -> e_cur e = true -> specific e = false.
Proof.
  intros [Hok _] Ho He Cu. rewrite Forall_forall in Hok. destruct (Hok e He) as [_ [_ [Hc _]]]. destruct (Hc Cu) as [_ [_ [_ C]]].
  unfold coveredL in C. apply andb_true_iff in C. destruct C as [_ C]. rewrite Ho, orb_false_r in C. apply negb_true_iff in C. exact C.
Qed.

Lemma on_object_inv f P a es c :
  Inv f P es c -> passed_obj P = false -> unif f es ->
  match on_object a es c with
  | inr fl => (forall e, In e es -> liveL f (P ++ [IObj a]) e = false) /\ f_kind fl = FObjectUnexpected f
  | inl (es', c') => Inv f (P ++ [IObj a]) es' c' /\ map stat es' = map stat es /\ c_order c' = c_order c /\
                     exists e, In e es /\ liveL f (P ++ [IObj a]) e = true
  end.
Proof.
  intros HI Ho Hu. pose proof HI as [Hok [Hn [Hch [Hon Hcs]]]].
  assert (E : forall e, In e es -> okE f P e) by (apply Forall_forall; exact Hok).
  assert (OE : forall e, In e es -> let e' := objE a e in
               stat e' = stat e /\ e_cur e' = e_cur e /\ e_pot e' = e_pot e && relates_obj a e /\ okE f (P ++ [IObj a]) e').
  { intros e He. apply obj_elem; [apply E; exact He|exact Ho|]. intro Cu. apply (Inv_cur_nonspecific f P es c e HI Ho He Cu). }
  assert (HON : map fst (c_outs c) = out_names (P ++ [IObj a])).
  { rewrite out_names_app, Hon. cbn. rewrite app_nil_r. reflexivity. }
  assert (CurK : existsb e_cur (keep_if (relates_obj a) es) = existsb e_cur es).
  { unfold keep_if. rewrite existsb_map. apply existsb_ext'. intros e _. destruct (e_pot e && negb (relates_obj a e)); reflexivity. }
  assert (PotK : forall e, In e es -> e_pot (if e_pot e && negb (relates_obj a e) then drop e else e) = e_pot e && relates_obj a e).
  { intros e _. destruct (e_pot e) eqn:X; [|cbn; exact X]. destruct (relates_obj a e); cbn; [exact X|reflexivity]. }
  assert (SM : map stat (map (objE a) es) = map stat es).
  { rewrite map_map. apply map_ext_in. intros e He. apply (OE e He). }
  assert (OK' : Forall (okE f (P ++ [IObj a])) (map (objE a) es)).
  { apply Forall_forall. intros x Hx. apply in_map_iff in Hx. destruct Hx as [e [Hx He]]. subst x. apply (OE e He). }
  unfold on_object. rewrite CurK.
  destruct Hcs as [[Hst [Hnc [Hcov [e0 [He0 Hp0]]]]]|[Hst [l1 [e [l2 [Hes [Hce [Hnc [Hl1 Hfil]]]]]]]]].
  - (* no current match *)
    assert (NC : existsb e_cur es = false) by (apply existsb_false; exact Hnc). rewrite NC. cbn [negb andb].
    assert (PL : forall e, In e es -> e_pot e && relates_obj a e = liveL f (P ++ [IObj a]) e).
    { intros e He. rewrite live_snoc. cbn [acceptsL]. destruct (E e He) as [_ [Hp [_ Hl]]].
      destruct (e_pot e) eqn:Ep; cbn [andb].
      - destruct (Hp eq_refl) as [_ [L _]]. rewrite L. reflexivity.
      - destruct (liveL f P e) eqn:L; [|reflexivity]. specialize (Hl eq_refl). rewrite (Hnc e He) in Hl. discriminate Hl. }
    assert (PE : existsb e_pot (keep_if (relates_obj a) es) = existsb (liveL f (P ++ [IObj a])) es).
    { unfold keep_if. rewrite existsb_map. apply existsb_ext'. intros e He. rewrite (PotK e He). apply PL. exact He. }
    unfold pot_empty. rewrite PE. destruct (existsb (liveL f (P ++ [IObj a])) es) eqn:X; cbn [negb].
    + rewrite obj_list. apply existsb_exists in X. destruct X as [e1 [He1 Hl1]].
      pose proof (complete_inv f (P ++ [IObj a]) (map (objE a) es) c OK') as CI.
      destruct (complete (map (objE a) es) c) as [es' c'] eqn:Ec.
      destruct CI as [I [S CO]].
      * intros x Hx. apply in_map_iff in Hx. destruct Hx as [e [Hx He]]. subst x. destruct (OE e He) as [_ [Cu _]]. rewrite Cu. apply Hnc. exact He.
      * exists (objE a e1). split; [apply in_map_iff; exists e1; auto|]. destruct (OE e1 He1) as [_ [_ [Pt _]]]. rewrite Pt, (PL e1 He1). exact Hl1.
      * exact Hn.
      * exact Hch.
      * exact Hst.
      * exact HON.
      * split; [exact I|]. split; [rewrite S; exact SM|]. split; [exact CO|]. exists e1. auto.
    + split; [apply existsb_false; exact X|]. cbn. rewrite Hn. reflexivity.
  - (* a current match exists: it does not name an object, so no expectation of this function does *)
    subst es.
    assert (Hine : In e (l1 ++ e :: l2)) by (apply in_or_app; right; left; reflexivity).
    assert (YC : existsb e_cur (l1 ++ e :: l2) = true) by (apply existsb_exists; exists e; auto). rewrite YC. cbn [negb andb].
    rewrite obj_list.
    assert (Se : specific e = false) by (apply (Inv_cur_nonspecific f P _ c e HI Ho Hine Hce)).
    destruct (E e Hine) as [_ [Hpe [Hcc _]]]. destruct (Hcc Hce) as [Le [Fe [_ Ce]]].
    assert (Pe : e_pot e = false). { destruct (e_pot e) eqn:X; [|reflexivity]. destruct (Hpe eq_refl) as [Y _]. congruence. }
    assert (Oe : objE a e = e). { unfold objE. rewrite Pe. cbn [andb]. rewrite Pe. reflexivity. }
    split; [|split; [exact SM|split; [reflexivity|]]].
    + split; [exact OK'|]. split; [exact Hn|]. split; [exact Hch|]. split; [exact HON|]. right. split; [exact Hst|].
      exists (map (objE a) l1), e, (map (objE a) l2). split; [rewrite map_app; cbn [map]; rewrite Oe; reflexivity|]. split; [exact Hce|]. split; [|split].
      * intros x Hx. rewrite <- map_app in Hx. apply in_map_iff in Hx. destruct Hx as [y [Hx Hy]]. subst x.
        assert (Hy' : In y (l1 ++ e :: l2)). { apply in_app_or in Hy. apply in_or_app. destruct Hy; [left|right; right]; assumption. }
        destruct (OE y Hy') as [_ [Cu _]]. rewrite Cu. apply Hnc. exact Hy.
      * intros x Hx Hpx. apply in_map_iff in Hx. destruct Hx as [y [Hx Hy]]. subst x.
        assert (Hy' : In y (l1 ++ e :: l2)) by (apply in_or_app; left; exact Hy).
        destruct (OE y Hy') as [Sy [_ [Pt _]]]. rewrite Pt in Hpx. apply andb_true_iff in Hpx. destruct Hpx as [Py _].
        rewrite (stat_covered _ _ _ Sy), coveredL_obj.
        destruct (E y Hy') as [_ [Hpy _]]. destruct (Hpy Py) as [_ [Ly _]].
        assert (Sy2 : specific y = false). { rewrite (Hu y e Hy' Hine (live_relates _ _ _ Ly) (live_relates _ _ _ Le)). exact Se. }
        rewrite <- (coveredL_nonspecific P y Sy2). apply Hl1; assumption.
      * exact Hfil.
    + exists e. split; [exact Hine|]. rewrite live_snoc, Le. cbn. unfold relates_obj. unfold specific in Se. destruct (e_obj e); [discriminate|reflexivity].
Qed.

Lemma fulfilled_for_stat f (g : expn -> expn) es : (forall e, stat (g e) = stat e) -> fulfilled_for f (map g es) = fulfilled_for f es.
Proof.
  intro H. unfold fulfilled_for. induction es as [|e r IH]; cbn; [reflexivity|].
  rewrite (stat_relates f _ _ (H e)). destruct (stat_cnt _ _ (H e)) as [A _]. rewrite A, IH. reflexivity.
Qed.

(* the constructor and withName *)
Lemma with_name_inv f es c :
  (forall e, In e es -> e_ign e = false) -> c_name c = f -> c_checked c = false -> c_outs c = [] ->
  match with_name (create true es) c with
  | inr fl => (forall e, In e es -> can_match e && relates f e = false) /\
              f_kind fl = (let n := fulfilled_for f es in if 0 <? n then FAdditionalCall f (n + 1) else FUnexpectedCall f)
  | inl (es', c') => Inv f [] es' c' /\ map stat es' = map stat es /\ c_order c' = c_order c /\
                     exists e, In e es /\ can_match e && relates f e = true
  end.
Proof.
  intros Hi Hn Hch Hco. unfold with_name. cbn [c_name set_state]. rewrite Hn.
  set (g := fun e => let e1 := (fun e => let e := set_cur e false in if can_match e then set_pot (reset_e e) true else set_pot e false) e in
                     if e_pot e1 && negb (relates f e1) then drop e1 else e1).
  assert (G : keep_if (relates f) (create true es) = map g es).
  { unfold keep_if, create. rewrite map_map. apply map_ext. intro e. reflexivity. }
  rewrite G.
  assert (P1 : forall e, stat (g e) = stat e /\ e_cur (g e) = false /\ e_pot (g e) = can_match e && relates f e /\
                         (e_pot (g e) = true -> flags_ok [] (g e) = true /\ e_fin (g e) = false)).
  { intro e. unfold g. cbn zeta. change (can_match (set_cur e false)) with (can_match e). destruct (can_match e) eqn:Cm.
    - change (e_pot (set_pot (reset_e (set_cur e false)) true)) with true. cbn [andb].
      change (relates f (set_pot (reset_e (set_cur e false)) true)) with (relates f e).
      destruct (relates f e) eqn:R; cbn [negb].
      + split; [apply (stat_reset (set_cur e false))|]. split; [reflexivity|]. split; [reflexivity|]. intros _. split; [|reflexivity].
        unfold flags_ok. cbn. rewrite !forallb_map. rewrite orb_false_r, eqb_reflx, andb_true_r. apply andb_true_iff.
        split; apply forallb_forall; intros q _; reflexivity.
      + split; [apply (stat_reset (set_cur e false))|]. split; [reflexivity|]. split; [reflexivity|]. discriminate.
    - change (e_pot (set_pot (set_cur e false) false)) with false. cbn [andb]. split; [reflexivity|]. split; [reflexivity|]. split; [reflexivity|]. discriminate. }
  assert (Hpot : existsb e_pot (map g es) = existsb (fun e => can_match e && relates f e) es).
  { rewrite existsb_map. apply existsb_ext'. intros e _. apply P1. }
  unfold pot_empty. rewrite Hpot. destruct (existsb (fun e => can_match e && relates f e) es) eqn:X; cbn [negb].
  - apply existsb_exists in X. destruct X as [e0 [He0 Hl0]].
    pose proof (complete_inv f [] (map g es) (set_state c InProgress)) as CI.
    destruct (complete (map g es) (set_state c InProgress)) as [es' c'] eqn:Ec.
    destruct CI as [I [S CO]].
    + apply Forall_forall. intros x Hx. apply in_map_iff in Hx. destruct Hx as [e [Hx He]]. subst x.
      destruct (P1 e) as [S1 [S2 [S3 S4]]]. split; [rewrite (stat_ign _ _ S1); apply Hi; exact He|]. split.
      * intro Hq. split; [exact S2|]. split; [|apply S4; exact Hq]. unfold liveL. rewrite (stat_can_match _ _ S1), (stat_relates f _ _ S1).
        rewrite <- S3, Hq. reflexivity.
      * split; [intro Hq; congruence|]. unfold liveL. rewrite (stat_can_match _ _ S1), (stat_relates f _ _ S1). cbn. rewrite andb_true_r.
        intro Hq. rewrite S3, Hq. reflexivity.
    + intros x Hx. apply in_map_iff in Hx. destruct Hx as [e [Hx He]]. subst x. apply P1.
    + exists (g e0). split; [apply in_map_iff; exists e0; auto|]. destruct (P1 e0) as [_ [_ [S3 _]]]. congruence.
    + exact Hn.
    + exact Hch.
    + reflexivity.
    + cbn. rewrite Hco. reflexivity.
    + split; [exact I|]. split; [|split; [exact CO|exists e0; auto]]. rewrite S, map_map. apply map_ext. intro e. apply P1.
  - split; [apply existsb_false; exact X|]. cbn.
    assert (Y : fulfilled_for f (map g es) = fulfilled_for f es) by (apply fulfilled_for_stat; intro e; apply P1).
    rewrite Y. reflexivity.
Qed.

(* ------------------------------------------------------------------ abstraction to the reference semantics M *)
Definition sx_of (e : expn) : sexp :=
  {| sx_n := e_exp e; sx_f := e_name e; sx_ps := pl e; sx_ret := e_ret e; sx_obj := e_obj e; sx_outs := ol e |}.
Definition abs (e : expn) : mexp :=
  {| x_e := sx_of e; x_left := e_exp e - e_act e; x_done := e_act e; x_lo := e_lo e; x_hi := e_hi e; x_ooo := e_ooo e |}.
Lemma sx_of_stat e e' : stat e = stat e' -> sx_of e = sx_of e'.
Proof.
  intro H. unfold sx_of. rewrite (stat_name _ _ H), (stat_pl _ _ H), (stat_ol _ _ H), (stat_ret _ _ H), (stat_obj _ _ H).
  destruct (stat_cnt _ _ H) as [_ B]. rewrite B. reflexivity.
Qed.
Lemma abs_stat e e' : stat e = stat e' -> abs e = abs e'.
Proof.
  intro H. unfold abs. rewrite (sx_of_stat _ _ H). destruct (stat_cnt _ _ H) as [A B].
  destruct (stat_ord _ _ H) as [C [D E]]. rewrite A, B, C, D, E. reflexivity.
Qed.
Lemma map_abs_stat es es' : map stat es = map stat es' -> map abs es = map abs es'.
Proof.
  revert es'. induction es as [|e r IH]; destruct es' as [|e' r']; cbn; intro H; try discriminate; [reflexivity|].
  destruct (cons_eq_inv _ _ _ _ H) as [H1 H2]. rewrite (abs_stat _ _ H1), (IH _ H2). reflexivity.
Qed.
Lemma open_abs e : x_open (abs e) = can_match e.
Proof.
  unfold x_open, can_match, abs. cbn. destruct (e_act e <? e_exp e) eqn:E.
  - apply N.ltb_lt in E. apply N.ltb_lt. lia.
  - apply N.ltb_ge in E. apply N.ltb_ge. lia.
Qed.
Lemma accepts_abs it e : e_ign e = false -> accepts (sx_of e) it = acceptsL it e.
Proof.
  intro H. destruct it as [n v|n buf|a]; cbn.
  - symmetry. apply (has_input_noign n v e H).
  - symmetry. apply (has_output_noign n e H).
  - reflexivity.
Qed.
Lemma agrees_abs P e : e_ign e = false -> agrees_upto (x_e (abs e)) P = agreesL P e.
Proof. intro H. unfold agrees_upto, agreesL. apply forallb_ext'. intros it _. apply accepts_abs. exact H. Qed.
Lemma covers_abs P e : covers (sx_of e) P = coveredL P e.
Proof.
  unfold covers, coveredL, pcoveredL, passed_obj, specific. cbn [sx_ps sx_outs sx_obj sx_of]. f_equal.
  destruct (e_obj e); [|reflexivity]. cbn. reflexivity.
Qed.
Lemma live_abs f P e : e_ign e = false -> x_open (abs e) && (sx_f (x_e (abs e)) =? f) && agrees_upto (x_e (abs e)) P = liveL f P e.
Proof. intro H. rewrite open_abs, (agrees_abs P e H). reflexivity. Qed.
Lemma matches_abs f P e : e_ign e = false -> matches (x_e (abs e)) f P = relates f e && agreesL P e && coveredL P e.
Proof. intro H. unfold matches. rewrite (agrees_abs P e H). cbn [x_e abs]. rewrite covers_abs. reflexivity. Qed.

Definition no_ign (es : list expn) : Prop := forall e, In e es -> e_ign e = false.
Lemma no_ign_stat es es' : map stat es = map stat es' -> no_ign es -> no_ign es'.
Proof.
  revert es'. induction es as [|e r IH]; destruct es' as [|e' r']; cbn; intros H N; try discriminate; [exact N|].
  destruct (cons_eq_inv _ _ _ _ H) as [H1 H2]. intros x [Hx|Hx]; [subst; rewrite <- (stat_ign _ _ H1); apply N; left; reflexivity|].
  apply (IH r' H2); [intros y Hy; apply N; right; exact Hy|exact Hx].
Qed.
Lemma Inv_no_ign f P es c : Inv f P es c -> no_ign es.
Proof. intros [H _] e He. rewrite Forall_forall in H. apply (H e He). Qed.
Lemma live_exists_abs f P es : no_ign es ->
  existsb (fun x => x_open x && (sx_f (x_e x) =? f) && agrees_upto (x_e x) P) (map abs es) = existsb (liveL f P) es.
Proof. intro N. rewrite existsb_map. apply existsb_ext'. intros e He. apply live_abs. apply N. exact He. Qed.

Lemma In_stat es es' : map stat es = map stat es' -> forall e', In e' es' -> exists e, In e es /\ stat e = stat e'.
Proof.
  revert es'. induction es as [|e r IH]; destruct es' as [|x r']; cbn; intros H y Hy; try discriminate; [destruct Hy|].
  destruct (cons_eq_inv _ _ _ _ H) as [H1 H2]. destruct Hy as [Hy|Hy].
  - subst y. exists e. auto.
  - destruct (IH r' H2 y Hy) as [z [Hz Sz]]. exists z. auto.
Qed.
Lemma unif_stat f es es' : map stat es = map stat es' -> unif f es -> unif f es'.
Proof.
  intros H U x y Hx Hy Rx Ry. destruct (In_stat _ _ H x Hx) as [x0 [Hx0 Sx]]. destruct (In_stat _ _ H y Hy) as [y0 [Hy0 Sy]].
  rewrite <- (stat_specific _ _ Sx), <- (stat_specific _ _ Sy). apply U; try assumption.
  - rewrite (stat_relates f _ _ Sx). exact Rx.
  - rewrite (stat_relates f _ _ Sy). exact Ry.
Qed.
Lemma fail_kind_stat f it es es' : map stat es = map stat es' -> fail_kind f it es = fail_kind f it es'.
Proof.
  intro H. assert (G : forall g : expn -> bool, (forall e e', stat e = stat e' -> g e = g e') -> existsb g es = existsb g es').
  { intros g Hg. revert es' H. induction es as [|a l IHl]; destruct es' as [|b m]; cbn; intro H; try discriminate; [reflexivity|].
    destruct (cons_eq_inv _ _ _ _ H) as [H1 H2]. rewrite (Hg _ _ H1), (IHl _ H2). reflexivity. }
  destruct it as [n v|n buf|a]; cbn; [| |reflexivity].
  - rewrite (G (fun e => relates f e && has_input_name n e)); [reflexivity|].
    intros e e' S. rewrite (stat_relates f _ _ S), (stat_has_input_name n _ _ S). reflexivity.
  - rewrite (G (fun e => relates f e && has_output_name n e)); [reflexivity|].
    intros e e' S. rewrite (stat_relates f _ _ S), (stat_has_output_name n _ _ S). reflexivity.
Qed.

(* the items of the call, one after the other: L fails at the first item after which M has no candidate left *)
Fixpoint fresh_list (P : list item) (its : list item) : bool :=
  match its with [] => true | it :: r => fresh P it && fresh_list (P ++ [it]) r end.

Lemma with_item_inv f P it es c :
  Inv f P es c -> fresh P it = true -> unif f es ->
  match with_item it es c with
  | inr fl => (forall e, In e es -> liveL f (P ++ [it]) e = false) /\ f_kind fl = fail_kind f it es
  | inl (es', c') => Inv f (P ++ [it]) es' c' /\ map stat es' = map stat es /\ c_order c' = c_order c /\
                     exists e, In e es /\ liveL f (P ++ [it]) e = true
  end.
Proof.
  intros HI Hf Hu. destruct (is_param it) eqn:Hp.
  - apply with_item_param_inv; assumption.
  - destruct it as [n v|n buf|a]; try discriminate Hp. cbn [with_item fail_kind]. cbn in Hf. apply negb_true_iff in Hf.
    apply on_object_inv; assumption.
Qed.

Lemma with_items_inv f : forall its P es c,
  Inv f P es c -> fresh_list P its = true -> unif f es ->
  match with_items its es c with
  | inr fl => exists it, first_dead f (map abs es) P its = Some it /\ f_kind fl = fail_kind f it es
  | inl (es', c') => first_dead f (map abs es) P its = None /\ Inv f (P ++ its) es' c' /\ map stat es' = map stat es /\ c_order c' = c_order c
  end.
Proof.
  induction its as [|it r IH]; intros P es c HI Hfr Hu.
  - cbn. rewrite app_nil_r. auto.
  - cbn [with_items]. cbn in Hfr. apply andb_true_iff in Hfr. destruct Hfr as [Hf1 Hf2].
    pose proof (with_item_inv f P it es c HI Hf1 Hu) as CI.
    cbn [first_dead]. rewrite (live_exists_abs f (P ++ [it]) es (Inv_no_ign _ _ _ _ HI)).
    destruct (with_item it es c) as [[es1 c1]|fl].
    + destruct CI as [I1 [S1 [O1 [e0 [He0 Hl0]]]]].
      assert (X : existsb (liveL f (P ++ [it])) es = true) by (apply existsb_exists; eauto). rewrite X.
      assert (U1 : unif f es1) by (apply (unif_stat f es es1); [symmetry; exact S1|exact Hu]).
      specialize (IH (P ++ [it]) es1 c1 I1 Hf2 U1). rewrite (map_abs_stat _ _ S1) in IH.
      destruct (with_items r es1 c1) as [[es2 c2]|fl].
      * destruct IH as [A [B [C D]]]. rewrite <- app_assoc in B. cbn [app] in B.
        split; [exact A|]. split; [exact B|]. split; [rewrite C; exact S1|rewrite D; exact O1].
      * destruct IH as [p [A B]]. exists p. split; [exact A|]. rewrite B. apply fail_kind_stat. exact S1.
    + destruct CI as [A B]. assert (X : existsb (liveL f (P ++ [it])) es = false) by (apply existsb_false; exact A).
      rewrite X. exists it. auto.
Qed.

(* ------------------------------------------------------------------ finishing the call (MockCheckedActualCall::checkExpectations) *)
Definition wfE (e : expn) : Prop := e_ign e = false /\ e_act e <= e_exp e.
Definition upd_m (order : N) (x : mexp) : mexp :=
  {| x_e := x_e x; x_left := x_left x - 1; x_done := x_done x + 1; x_lo := x_lo x; x_hi := x_hi x;
     x_ooo := if negb (x_lo x =? 0) && ((order <? x_lo x) || (x_hi x <? order)) then true else x_ooo x |}.
Lemma consume_none f P o xs : (forall x, In x xs -> x_open x && matches (x_e x) f P = false) -> consume f P o xs = None.
Proof.
  induction xs as [|x r IH]; cbn; intro H; [reflexivity|]. rewrite (H x (or_introl eq_refl)). rewrite IH; [reflexivity|]. intros y Hy. apply H. auto.
Qed.
Lemma consume_app f P o l1 y l2 :
  (forall x, In x l1 -> x_open x && matches (x_e x) f P = false) -> x_open y && matches (x_e y) f P = true ->
  consume f P o (l1 ++ y :: l2) = Some (l1 ++ upd_m o y :: l2, x_e y).
Proof.
  intros H Hy. induction l1 as [|x r IH]; cbn.
  - rewrite Hy. reflexivity.
  - rewrite (H x (or_introl eq_refl)). rewrite IH; [reflexivity|]. intros z Hz. apply H. right. exact Hz.
Qed.
Lemma abs_cwm o e : can_match e = true -> abs (call_was_made o e) = upd_m o (abs e).
Proof.
  intro H. unfold call_was_made. rewrite (abs_stat _ _ (stat_reset _)). unfold abs, upd_m. cbn. f_equal.
  apply N.ltb_lt in H. lia.
Qed.
Lemma for_cur_id g l : (forall x, In x l -> e_cur x = false) -> for_cur g l = l.
Proof.
  intro H. unfold for_cur. induction l as [|x r IH]; cbn; [reflexivity|]. rewrite (H x (or_introl eq_refl)). rewrite IH; [reflexivity|].
  intros y Hy. apply H. right. exact Hy.
Qed.
Lemma map_abs_for_pot_reset l : map abs (for_pot reset_e l) = map abs l.
Proof. unfold for_pot. rewrite map_map. apply map_ext. intro e. destruct (e_pot e); [apply abs_stat, stat_reset|reflexivity]. Qed.
Lemma live_matches f P e : e_ign e = false ->
  x_open (abs e) && matches (x_e (abs e)) f P = liveL f P e && coveredL P e.
Proof. intro H. rewrite open_abs, (matches_abs f P e H). unfold liveL. rewrite !andb_assoc. reflexivity. Qed.

Lemma filled_outs_ok e outs : filled e outs -> outs_ok (map (fun n => lookup_out n (ol e)) (map fst outs)) (map snd outs) = true.
Proof.
  unfold outs_ok, filled. induction outs as [|o r IH]; intro H; [reflexivity|]. inversion H as [|? ? H1 H2]; subst. cbn. rewrite H1. apply IH. exact H2.
Qed.
Lemma nothing_outs_ok (l : list name) (bufs : list (list N)) : length l = length bufs -> outs_ok (map (fun _ => @nil N) l) bufs = true.
Proof.
  unfold outs_ok. revert bufs. induction l as [|n r IH]; destruct bufs as [|b bs]; cbn; intro H; try discriminate; [reflexivity|].
  change (is_prefix [] b && list_eqb is_prefix (map (fun _ => @nil N) r) bs = true). rewrite is_prefix_nil. apply IH. lia.
Qed.

Lemma finish_inv f P es c :
  Inv f P es c -> Forall wfE es ->
  match check_call es c with
  | inl (es', c') => exists e, consume f P (c_order c) (map abs es) = Some (map abs es', e) /\ cur_ret es' = sx_ret e /\
                               outs_ok (out_bytes e P) (map snd (c_outs c')) = true /\
                               c_state c' = Succeeded /\ c_checked c' = true /\ Forall wfE es'
  | inr fl => consume f P (c_order c) (map abs es) = None /\
              f_kind fl = (if existsb (fun e => liveL f P e && negb (pcoveredL P e)) es
                           then FParamMissing f (N.of_nat (length (filter e_pot es))) else FObjectMissing f) /\
              exists e, In e es /\ liveL f P e = true
  end.
Proof.
  intros [Hok [Hn [Hch [Hon Hcs]]]] Hwf. assert (E : forall e, In e es -> okE f P e) by (apply Forall_forall; exact Hok).
  unfold check_call. rewrite Hch. cbn [c_state set_checked c_order c_name].
  destruct Hcs as [[Hst [Hnc [Hcov [e0 [He0 Hp0]]]]]|[Hst [l1 [e [l2 [Hes [Hce [Hnc [Hl1 Hfil]]]]]]]]]; rewrite Hst.
  - assert (A : existsb (fun e => e_pot e && is_matching_fin e) es = false).
    { apply existsb_false. intros x Hx. destruct (e_pot x) eqn:Px; [|reflexivity]. cbn.
      destruct (E x Hx) as [Hi [Hp _]]. destruct (Hp Px) as [_ [_ [F _]]]. rewrite (is_matching_fin_ok P x Hi F). apply Hcov; assumption. }
    rewrite A.
    assert (B : take_first is_matching (fun e => call_was_made (c_order c) (set_fin e true)) es = None).
    { apply take_first_none. intros x Hx. destruct (e_pot x) eqn:Px; [|reflexivity]. cbn.
      destruct (E x Hx) as [Hi [Hp _]]. destruct (Hp Px) as [_ [_ [F _]]]. rewrite (flags_covered P x F). apply Hcov; assumption. }
    rewrite B.
    assert (C : existsb (fun e => e_pot e && negb (params_matching e)) es = existsb (fun e => liveL f P e && negb (pcoveredL P e)) es).
    { apply existsb_ext'. intros x Hx. destruct (E x Hx) as [Hi [Hp [_ Hl]]]. destruct (e_pot x) eqn:Px.
      - destruct (Hp eq_refl) as [_ [L [F _]]]. rewrite L, (flags_pcovered P x F). reflexivity.
      - destruct (liveL f P x) eqn:L; [|reflexivity]. specialize (Hl eq_refl). rewrite (Hnc x Hx) in Hl. discriminate Hl. }
    rewrite C.
    assert (CN : consume f P (c_order c) (map abs es) = None).
    { apply consume_none. intros x Hx. apply in_map_iff in Hx. destruct Hx as [y [Hy Hin]]. subst x.
      destruct (E y Hin) as [Hi [Hp [_ Hl]]]. rewrite (live_matches f P y Hi).
      destruct (liveL f P y) eqn:L; [|reflexivity]. cbn. specialize (Hl eq_refl). rewrite (Hnc y Hin), orb_false_r in Hl. apply Hcov; assumption. }
    assert (EX : exists e, In e es /\ liveL f P e = true).
    { exists e0. split; [exact He0|]. destruct (E e0 He0) as [_ [Hp _]]. apply (Hp Hp0). }
    destruct (existsb (fun e => liveL f P e && negb (pcoveredL P e)) es); (split; [exact CN|]; split; [cbn; rewrite Hn; reflexivity|exact EX]).
  - subst es. destruct (E e) as [Hi [Hp [Hc Hl]]]; [apply in_or_app; right; left; reflexivity|].
    destruct (Hc Hce) as [L [F [Fi C]]].
    assert (Pe : e_pot e = false). { destruct (e_pot e) eqn:X; [|reflexivity]. destruct (Hp eq_refl) as [Y _]. congruence. }
    assert (Cm : can_match e = true). { unfold liveL in L. apply andb_true_iff in L. destruct L as [L _]. apply andb_true_iff in L. apply L. }
    assert (FC : for_cur (call_was_made (c_order c)) (l1 ++ e :: l2) = l1 ++ call_was_made (c_order c) e :: l2).
    { unfold for_cur. rewrite map_app. cbn. rewrite Hce. fold (for_cur (call_was_made (c_order c)) l1). fold (for_cur (call_was_made (c_order c)) l2).
      rewrite !for_cur_id; [reflexivity| |]; intros x Hx; apply Hnc; apply in_or_app; [right|left]; exact Hx. }
    rewrite FC. exists (sx_of e). split; [|split; [|split; [|split; [exact Hst|split; [reflexivity|]]]]].
    + rewrite map_abs_for_pot_reset, !map_app. cbn [map]. rewrite (abs_cwm _ _ Cm).
      apply (consume_app f P (c_order c) (map abs l1) (abs e) (map abs l2)).
      * intros x Hx. apply in_map_iff in Hx. destruct Hx as [y [Hy Hin]]. subst x.
        destruct (E y) as [Hiy [Hpy [_ Hly]]]; [apply in_or_app; left; exact Hin|]. rewrite (live_matches f P y Hiy).
        destruct (liveL f P y) eqn:Ly; [|reflexivity]. cbn. specialize (Hly eq_refl).
        rewrite (Hnc y (in_or_app _ _ _ (or_introl Hin))), orb_false_r in Hly. apply Hl1; assumption.
      * rewrite (live_matches f P e Hi), L, C. reflexivity.
    + unfold cur_ret, for_pot. rewrite map_app. cbn [map].
      assert (X : forall l, (forall x, In x l -> e_cur x = false) -> forall t, find e_cur (map (fun e => if e_pot e then reset_e e else e) l ++ t) = find e_cur t).
      { induction l as [|a l IHl]; intros H t; [reflexivity|]. cbn. replace (e_cur (if e_pot a then reset_e a else a)) with (e_cur a) by (destruct (e_pot a); reflexivity).
        rewrite (H a (or_introl eq_refl)). apply IHl. intros y Hy. apply H. right. exact Hy. }
      rewrite X by (intros x Hx; apply Hnc; apply in_or_app; left; exact Hx). cbn.
      change (e_pot (call_was_made (c_order c) e)) with (e_pot e). rewrite Pe.
      change (e_cur (call_was_made (c_order c) e)) with (e_cur e). rewrite Hce. reflexivity.
    + cbn [c_outs set_checked]. unfold out_bytes. rewrite <- Hon. cbn [sx_outs sx_of]. apply filled_outs_ok. exact Hfil.
    + unfold for_pot. apply Forall_forall. intros x Hx. apply in_map_iff in Hx. destruct Hx as [y [Hy Hin]].
      assert (W : wfE y).
      { apply in_app_or in Hin. rewrite Forall_forall in Hwf. destruct Hin as [Hin|[Hin|Hin]].
        - apply Hwf. apply in_or_app. left. exact Hin.
        - subst y. destruct (Hwf e) as [W1 W2]; [apply in_or_app; right; left; reflexivity|]. split; [exact W1|].
          unfold call_was_made. cbn. unfold can_match in Cm. apply N.ltb_lt in Cm. lia.
        - apply Hwf. apply in_or_app. right. right. exact Hin. }
      subst x. destruct (e_pot y); [|exact W]. destruct W as [W1 W2]. split; [exact W1|exact W2].
Qed.
