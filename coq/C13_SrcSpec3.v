(* C13: what the TRANSLATED SOURCE of the looping SimpleString methods count / findFrom / find (gen/Gen_LoopC13.v, regenerated
   from SimpleString.cpp on every run) computes on well-formed C strings: the textbook functions t_count / t_find_from of
   C13_Text.v.  `FOk v`: terminated within the fuel, no access outside the blocks of the arguments, returned v. *)
From Coq Require Import ZArith NArith Bool List Lia.
From CppUVerif Require Import lib.CSem lib.CMem lib.CMemFacts lib.Str gen.Gen_LeafC13 gen.Gen_LoopC13 C13_Text C13_Model C13_Proofs C13_LeafTie C13_SrcTie C13_SrcTie2 C13_SrcSpec.
Import ListNotations.
Local Open Scope Z_scope.

(* ------------------------------------------------------------------ views of a moved pointer *)
Lemma skipn_S_tl {A} k : forall l : list A, skipn (S k) l = tl (skipn k l).
Proof.
  induction k as [|k IH]; intros [|x l]; try reflexivity.
  change (skipn (S (S k)) (x :: l)) with (skipn (S k) l). change (skipn (S k) (x :: l)) with (skipn k l). apply IH.
Qed.

Lemma skipn_add {A} k n : forall l : list A, skipn (k + n) l = skipn k (skipn n l).
Proof.
  induction n as [|n IH]; intro l; [rewrite Nat.add_0_r; reflexivity|].
  rewrite Nat.add_succ_r. destruct l as [|x l]; [rewrite !skipn_nil; reflexivity|].
  change (skipn (S (k + n)) (x :: l)) with (skipn (k + n) l). change (skipn (S n) (x :: l)) with (skipn n l). apply IH.
Qed.

(* p + k for k up to the length of what p sees: the pointer can be formed and sees the rest *)
Lemma view_shift m b o l k : view m (Ptr b o) = l -> l <> [] -> (k <= length l)%nat ->
  padd m (Ptr b o) (Z.of_nat k) = Some (Ptr b (o + Z.of_nat k)) /\ view m (Ptr b (o + Z.of_nat k)) = skipn k l.
Proof.
  cbn [view padd]. destruct (0 <=? o) eqn:Ho; [|intros <- H; exfalso; apply H; reflexivity].
  apply Z.leb_le in Ho. intros Hv Hne Hk.
  assert (Hl : length l = (length (block m b) - Z.to_nat o)%nat) by (rewrite <- Hv; apply skipn_length).
  assert (Hp : (0 < length l)%nat) by (destruct l; [contradiction | cbn; lia]).
  replace (0 <=? o + Z.of_nat k) with true by (symmetry; apply Z.leb_le; lia).
  replace (o + Z.of_nat k <=? Z.of_nat (length (block m b))) with true by (symmetry; apply Z.leb_le; lia).
  split; [reflexivity|].
  replace (Z.to_nat (o + Z.of_nat k)) with (k + Z.to_nat o)%nat by lia.
  rewrite skipn_add, Hv. reflexivity.
Qed.

(* the same for a C string: the haystack pointer moved by k <= strlen sees the suffix, still NUL-terminated *)
Lemma cstr_shift m b o a r k : cstr_at m (Ptr b o) a r -> (k <= length a)%nat ->
  padd m (Ptr b o) (Z.of_nat k) = Some (Ptr b (o + Z.of_nat k)) /\ cstr_at m (Ptr b (o + Z.of_nat k)) (skipn k a) r.
Proof.
  intros [Hv Hn] Hk. destruct (view_shift m b o _ k Hv) as [Hp Hv'].
  - intro E. apply app_eq_nil in E. destruct E as [_ E]. discriminate E.
  - rewrite app_length. lia.
  - split; [exact Hp|]. split; [|apply NN_skipn; exact Hn].
    rewrite Hv', skipn_app. replace (k - length a)%nat with 0%nat by lia. reflexivity.
Qed.

Lemma cstr_head_byte m b o x s r : mem_ok m -> view m (Ptr b o) = x :: s ++ 0%N :: r -> (x < 256)%N.
Proof. intros Hm Hv. pose proof (view_ok m (Ptr b o) Hm) as Hb. rewrite Hv in Hb. exact (Forall_inv Hb). Qed.

(* ------------------------------------------------------------------ count *)
(* the loop: str sees s, strpart is StrStr(str, substr) (anything when *str == 0, where it is not looked at) *)
Lemma src_count_loop_spec m b1 b2 o2 c rc fuel0 : mem_ok m -> cstr_at m (Ptr b2 o2) c rc ->
  (length (c ++ 0%N :: rc) < fuel0)%nat -> Z.of_nat (length (c ++ 0%N :: rc)) < M64 ->
  forall fuel s ra o num sp, cstr_at m (Ptr b1 o) s ra -> (length s < fuel)%nat -> (length (s ++ 0%N :: ra) < fuel0)%nat ->
    0 <= num -> num + Z.of_nat (length s) < M64 ->
    (s <> [] -> sp = match find_sub s c with Some j => Ptr b1 (o + Z.of_nat j) | None => Null end) ->
    exists st sp', src_count_loop1 fuel0 fuel m (Ptr b2 o2) num (Ptr b1 o) sp = Go (num + Z.of_nat (t_count s c), st, sp').
Proof.
  intros Hm Hc Hfc Hlc. induction fuel as [|fuel IH]; intros s ra o num sp Hs Hf Hf0 Hn0 Hn Hsp; [lia|].
  cbn [src_count_loop1]. destruct Hs as [Hv Hnn]. destruct s as [|x s].
  - cbn [app] in Hv. rewrite (view_cons_load _ _ _ _ _ Hv). change (z2b (c_ne (schar 0%N) 0)) with false.
    cbn [t_count Z.of_nat]. rewrite Z.add_0_r. eauto.
  - cbn [app] in Hv. rewrite (view_cons_load _ _ _ _ _ Hv).
    pose proof (cstr_head_byte _ _ _ _ _ _ Hm Hv) as Hx. apply NN_cons in Hnn as Hnn'. destruct Hnn' as [Hx0 _].
    unfold c_ne. rewrite (schar_zero x Hx), b2z_z2b. destruct (N.eqb_spec x 0) as [E|_]; [contradiction|]. cbn [negb].
    rewrite (Hsp ltac:(discriminate)). destruct (find_sub (x :: s) c) as [off|] eqn:F.
    + change (z2b (p_bool (Ptr b1 (o + Z.of_nat off)))) with true. cbv iota.
      pose proof (find_sub_lt (x :: s) c off ltac:(discriminate) F) as Lo.
      destruct (cstr_shift m b1 o (x :: s) ra off (conj Hv Hnn) ltac:(lia)) as [_ [Hv1 Hn1]].
      pose proof (skipn_S_tl off (x :: s)) as Et.
      assert (Lt : (length (skipn (S off) (x :: s)) = length (x :: s) - S off)%nat) by apply skipn_length.
      destruct (skipn off (x :: s)) as [|y t] eqn:Es.
      { apply (f_equal (@length _)) in Es. rewrite skipn_length in Es. cbn [length] in Es, Lo. lia. }
      cbn [tl] in Et. rewrite Et in Lt. cbn [app] in Hv1. destruct (view_padd1 _ _ _ _ _ Hv1) as [Hp Hv2]. rewrite Hp.
      apply NN_cons in Hn1. destruct Hn1 as [_ Hnt].
      assert (Hct : cstr_at m (Ptr b1 (o + Z.of_nat off + 1)) t ra) by (split; assumption).
      assert (Lapp : forall u, length (u ++ 0%N :: ra) = S (length u + length ra)) by (intro u; rewrite app_length; cbn; lia).
      rewrite Lapp in Hf0. cbn [length] in Hf0, Hf, Hn, Lt.
      rewrite cw_u_small by (unfold M64 in *; lia).
      rewrite (src_StrStr_spec fuel0 m b1 (o + Z.of_nat off + 1) b2 o2 t ra c rc Hm Hct Hc) by (try rewrite Lapp; try assumption; lia).
      edestruct (IH t ra (o + Z.of_nat off + 1) (num + 1)
                   (match find_sub t c with Some j => Ptr b1 (o + Z.of_nat off + 1 + Z.of_nat j) | None => Null end) Hct)
        as [st [sp' E]];
        [lia | rewrite Lapp; lia | lia | lia | exact (fun _ => eq_refl) |].
      rewrite E. exists st, sp'.
      rewrite (find_some_count (x :: s) c off ltac:(discriminate) F), Et.
      replace (num + Z.of_nat (S (t_count t c))) with (num + 1 + Z.of_nat (t_count t c)) by lia. reflexivity.
    + change (z2b (p_bool Null)) with false. cbv iota. rewrite (find_none_count _ _ F). cbn [Z.of_nat]. rewrite Z.add_0_r. eauto.
Qed.

(* count(substr): the textbook number of (possibly overlapping) occurrences -- the source restarts the search one cell
   after each hit.  The empty needle needs no separate case: StrStr then returns the haystack pointer itself, the loop advances
   by one cell per round up to the NUL, and t_count a [] = length a as well (t_count_nil below). *)
Lemma src_count_spec fuel m b1 o1 b2 o2 a ra c rc : mem_ok m -> cstr_at m (Ptr b1 o1) a ra -> cstr_at m (Ptr b2 o2) c rc ->
  (length (a ++ 0%N :: ra) < fuel)%nat -> (length (c ++ 0%N :: rc) < fuel)%nat ->
  Z.of_nat (length (a ++ 0%N :: ra)) < M64 -> Z.of_nat (length (c ++ 0%N :: rc)) < M64 ->
  src_count fuel m (Ptr b1 o1) (Ptr b2 o2) = FOk (Z.of_nat (t_count a c)).
Proof.
  intros Hm Ha Hc Hfa Hfc Hla Hlc. unfold src_count. cbv zeta.
  assert (La : length (a ++ 0%N :: ra) = S (length a + length ra)) by (rewrite app_length; cbn; lia).
  destruct a as [|x a].
  - pose proof Ha as [Hv _]. cbn [app] in Hv. rewrite (view_cons_load _ _ _ _ _ Hv).
    change (z2b (c_ne (schar 0%N) 0)) with false. cbv iota beta.
    edestruct (src_count_loop_spec m b1 b2 o2 c rc fuel Hm Hc Hfc Hlc fuel [] ra o1 0 Null Ha) as [st [sp' E]];
      [cbn; lia | assumption | lia | cbn; unfold M64; lia | intro H; exfalso; apply H; reflexivity |].
    rewrite E. reflexivity.
  - pose proof Ha as [Hv Hnn]. cbn [app] in Hv. rewrite (view_cons_load _ _ _ _ _ Hv).
    pose proof (cstr_head_byte _ _ _ _ _ _ Hm Hv) as Hx. apply NN_cons in Hnn. destruct Hnn as [Hx0 _].
    unfold c_ne. rewrite (schar_zero x Hx), b2z_z2b. destruct (N.eqb_spec x 0) as [E|_]; [contradiction|]. cbn [negb].
    rewrite (src_StrStr_spec fuel m b1 o1 b2 o2 (x :: a) ra c rc Hm Ha Hc Hfa Hfc Hlc). cbv iota beta.
    edestruct (src_count_loop_spec m b1 b2 o2 c rc fuel Hm Hc Hfc Hlc fuel (x :: a) ra o1 0
                  (match find_sub (x :: a) c with Some j => Ptr b1 (o1 + Z.of_nat j) | None => Null end) Ha) as [st [sp' E]];
      [lia | assumption | lia | lia | exact (fun _ => eq_refl) |].
    rewrite E. reflexivity.
Qed.

Lemma t_count_nil a : t_count a [] = length a.
Proof. induction a as [|x a IH]; [reflexivity|]. cbn [t_count is_prefix length]. rewrite IH. reflexivity. Qed.

(* the empty needle: count("") is the length of the string (source and textbook agree) *)
Lemma src_count_empty_needle fuel m b1 o1 b2 o2 a ra rc : mem_ok m -> cstr_at m (Ptr b1 o1) a ra -> cstr_at m (Ptr b2 o2) [] rc ->
  (length (a ++ 0%N :: ra) < fuel)%nat -> (length (0%N :: rc) < fuel)%nat ->
  Z.of_nat (length (a ++ 0%N :: ra)) < M64 -> Z.of_nat (length (0%N :: rc)) < M64 ->
  src_count fuel m (Ptr b1 o1) (Ptr b2 o2) = FOk (Z.of_nat (length a)).
Proof.
  intros Hm Ha Hc Hfa Hfc Hla Hlc. rewrite (src_count_spec fuel m b1 o1 b2 o2 a ra [] rc) by assumption.
  rewrite t_count_nil. reflexivity.
Qed.

(* ------------------------------------------------------------------ findFrom / find *)
Lemma src_findFrom_loop_spec m b o a r ch fuel0 : mem_ok m -> cstr_at m (Ptr b o) a r -> (ch < 256)%N ->
  Z.of_nat (length a) < M64 ->
  forall n k fuel, (length a - k = n)%nat -> (k <= length a)%nat -> (n < fuel)%nat ->
  src_findFrom_loop1 fuel0 fuel m (schar ch) (Z.of_nat (length a)) (Ptr b o) (Z.of_nat k) =
    match t_index ch (skipn k a) with Some j => Done (Z.of_nat (k + j)) | None => Go (Z.of_nat (length a)) end.
Proof.
  intros Hm Ha Hch Hl. induction n as [|n IH]; intros k fuel Hn Hk Hf; (destruct fuel as [|fuel]; [lia|]); cbn [src_findFrom_loop1].
  - assert (k = length a) by lia. subst k. unfold c_lt. rewrite Z.ltb_irrefl, b2z_z2b. rewrite skipn_all. reflexivity.
  - unfold c_lt. replace (Z.of_nat k <? Z.of_nat (length a)) with true by (symmetry; apply Z.ltb_lt; lia).
    rewrite b2z_z2b. cbv iota. unfold src_at.
    destruct (cstr_shift m b o a r k Ha Hk) as [Hp [Hv Hnn]]. rewrite Hp.
    destruct (skipn k a) as [|x t] eqn:Es.
    { apply (f_equal (@length _)) in Es. rewrite skipn_length in Es. cbn [length] in Es. lia. }
    cbn [app] in Hv. rewrite (view_cons_load _ _ _ _ _ Hv). cbn [finish].
    pose proof (cstr_head_byte _ _ _ _ _ _ Hm Hv) as Hx.
    unfold c_eq. rewrite (schar_inj x ch Hx Hch), b2z_z2b. cbn [t_index]. destruct (x =? ch)%N.
    + rewrite Nat.add_0_r. reflexivity.
    + rewrite cw_u_small by (unfold M64 in *; lia). replace (Z.of_nat k + 1) with (Z.of_nat (S k)) by lia.
      rewrite (IH (S k) fuel) by lia. rewrite skipn_S_tl, Es. cbn [tl].
      destruct (t_index ch t) as [j|]; cbn [option_map]; [f_equal; lia | reflexivity].
Qed.

(* findFrom(start, ch): the first position >= start holding ch, or npos = (size_t) -1.  `0 <= o` is implied by the cstr_at
   hypothesis (a pointer with a negative offset sees nothing); it is kept because the statement was asked for in this form. *)
Lemma src_findFrom_spec fuel m b o a r start ch : mem_ok m -> cstr_at m (Ptr b o) a r ->
  (length (a ++ 0%N :: r) < fuel)%nat -> Z.of_nat (length (a ++ 0%N :: r)) < M64 -> 0 <= start < M64 -> 0 <= o ->
  (ch < 256)%N ->
  src_findFrom fuel m (Ptr b o) start (schar ch) =
    FOk (match t_find_from a (Z.to_N start) ch with Some i => Z.of_N i | None => 18446744073709551615 end).
Proof.
  intros Hm Ha Hf Hl Hs _ Hch. unfold src_findFrom, src_size. cbv zeta.
  rewrite (src_StrLen_spec fuel m b o a r Hm Ha Hf Hl). cbn [finish].
  assert (La : length (a ++ 0%N :: r) = S (length a + length r)) by (rewrite app_length; cbn; lia).
  unfold t_find_from, t_skipN. destruct (N.leb_spec (N.of_nat (length a)) (Z.to_N start)) as [L|L].
  - cbn [t_index option_map]. destruct fuel as [|fuel']; [lia|]. cbn [src_findFrom_loop1]. unfold c_lt.
    replace (start <? Z.of_nat (length a)) with false by (symmetry; apply Z.ltb_ge; lia). rewrite b2z_z2b. reflexivity.
  - pose proof (src_findFrom_loop_spec m b o a r ch fuel Hm Ha Hch ltac:(lia) _ (Z.to_nat start) fuel eq_refl
                  ltac:(lia) ltac:(lia)) as E.
    rewrite Z2Nat.id in E by lia. rewrite E.
    replace (N.to_nat (Z.to_N start)) with (Z.to_nat start) by lia.
    destruct (t_index ch (skipn (Z.to_nat start) a)) as [j|]; cbn [option_map finish]; [f_equal; lia | reflexivity].
Qed.

Lemma src_find_spec fuel m b o a r ch : mem_ok m -> cstr_at m (Ptr b o) a r ->
  (length (a ++ 0%N :: r) < fuel)%nat -> Z.of_nat (length (a ++ 0%N :: r)) < M64 -> 0 <= o -> (ch < 256)%N ->
  src_find fuel m (Ptr b o) (schar ch) =
    FOk (match t_find_from a 0%N ch with Some i => Z.of_N i | None => 18446744073709551615 end).
Proof.
  intros Hm Ha Hf Hl Ho Hch. unfold src_find.
  rewrite (src_findFrom_spec fuel m b o a r 0 ch Hm Ha Hf Hl ltac:(unfold M64; lia) Ho Hch). reflexivity.
Qed.

(* ------------------------------------------------------------------ non-vacuity: the translated methods on a concrete memory *)
(* block 0 = "ababa", block 1 = "aba", block 2 = "" *)
Definition ex_mem : memory := [[97; 98; 97; 98; 97; 0]; [97; 98; 97; 0; 7]; [0]]%N.

Example src_count_ex : src_count 20 ex_mem (Ptr 0 0) (Ptr 1 0) = FOk 2 /\ t_count [97; 98; 97; 98; 97]%N [97; 98; 97]%N = 2%nat.
Proof. vm_compute. split; reflexivity. Qed.
Example src_count_empty_needle_ex : src_count 20 ex_mem (Ptr 0 0) (Ptr 2 0) = FOk 5 /\ src_count 20 ex_mem (Ptr 2 0) (Ptr 1 0) = FOk 0.
Proof. vm_compute. split; reflexivity. Qed.
Example src_findFrom_ex :
  src_findFrom 20 ex_mem (Ptr 0 0) 1 (schar 97) = FOk 2 /\ src_findFrom 20 ex_mem (Ptr 0 0) 3 (schar 98) = FOk 3 /\
  src_findFrom 20 ex_mem (Ptr 0 0) 4 (schar 98) = FOk 18446744073709551615 /\
  src_findFrom 20 ex_mem (Ptr 0 0) 18446744073709551615 (schar 97) = FOk 18446744073709551615.
Proof. vm_compute. repeat split; reflexivity. Qed.
Example src_find_ex : src_find 20 ex_mem (Ptr 0 0) (schar 98) = FOk 1 /\ src_find 20 ex_mem (Ptr 0 0) (schar 99) = FOk 18446744073709551615.
Proof. vm_compute. split; reflexivity. Qed.
