(* C18 -- list lemmas: the unlink loop, node replacement, id collections, the allocator's books *)
From Coq Require Import NArith Arith Bool List Lia Permutation.
From CppUVerif Require Import gen.Gen_C18 C18_Model.
Import ListNotations.
Local Open Scope N_scope.

(* ---------------------------------------------------------------- membership tests *)
Lemma memN_In : forall x l, memN x l = true <-> In x l.
Proof.
  intros x l. unfold memN. rewrite existsb_exists. split.
  - intros [y [Hy He]]. apply N.eqb_eq in He. subst. exact Hy.
  - intros H. exists x. split; [exact H | apply N.eqb_refl].
Qed.
Lemma memN_false : forall x l, memN x l = false <-> ~ In x l.
Proof.
  intros x l. rewrite <- memN_In. destruct (memN x l); split; intros H.
  - discriminate. - elim H; reflexivity. - discriminate. - reflexivity.
Qed.

(* ---------------------------------------------------------------- the unlink loop = remove the first block whose buffer is p *)
(* the loop never looks at cur's own buffer, so the precise statement carries the head test as a hypothesis *)
Lemma unlink_next_some : forall rest cur p b l,
  mem_is cur p = false ->
  unlink_next cur rest p = Some (b, l) ->
  mem_is b p = true /\
  exists l1 l2, cur :: rest = l1 ++ b :: l2 /\ l = l1 ++ l2 /\ l1 <> [] /\ forall x, In x l1 -> mem_is x p = false.
Proof.
  induction rest as [|nxt rest IH]; intros cur p b l Hc H; simpl in H; [discriminate|].
  destruct (mem_is nxt p) eqn:E.
  - inversion H; subst. split; [exact E|].
    exists [cur], rest. repeat split; try reflexivity; try discriminate.
    intros x [<-|[]]. exact Hc.
  - destruct (unlink_next nxt rest p) as [[b' l']|] eqn:U; [|discriminate].
    inversion H; subst. destruct (IH nxt p b l' E U) as [Hb [l1 [l2 [H1 [H2 [H3 H4]]]]]].
    split; [exact Hb|]. exists (cur :: l1), l2. rewrite H1, H2. repeat split; try reflexivity; try discriminate.
    intros x [<-|Hx]; [exact Hc | apply H4; exact Hx].
Qed.
Lemma unlink_next_none : forall rest cur p, unlink_next cur rest p = None -> forall x, In x rest -> mem_is x p = false.
Proof.
  induction rest as [|nxt rest IH]; intros cur p H x Hx; [destruct Hx|].
  simpl in H. destruct (mem_is nxt p) eqn:E; [discriminate|].
  destruct (unlink_next nxt rest p) as [[b' l']|] eqn:U; [discriminate|].
  destruct Hx as [<-|Hx]; [exact E | eapply IH; eauto].
Qed.

Lemma unlink_some : forall l p b l',
  unlink l p = Some (b, l') ->
  mem_is b p = true /\ exists l1 l2, l = l1 ++ b :: l2 /\ l' = l1 ++ l2 /\ forall x, In x l1 -> mem_is x p = false.
Proof.
  intros [|h r] p b l' H; simpl in H; [discriminate|].
  destruct (mem_is h p) eqn:E.
  - inversion H; subst. split; [exact E|]. exists [], l'. repeat split; try reflexivity. intros x [].
  - destruct (unlink_next_some _ _ _ _ _ E H) as [Hb [l1 [l2 [H1 [H2 [_ H4]]]]]].
    split; [exact Hb|]. exists l1, l2. auto.
Qed.
Lemma unlink_none : forall l p, unlink l p = None -> forall x, In x l -> mem_is x p = false.
Proof.
  intros [|h r] p H x Hx; [destruct Hx|]. simpl in H.
  destruct (mem_is h p) eqn:E; [discriminate|].
  destruct Hx as [<-|Hx]; [exact E | eapply unlink_next_none; eauto].
Qed.
(* the head-vs-interior split of the code is one textbook operation *)
Fixpoint remove_first (l : list block) (p : ptr) : option (block * list block) :=
  match l with
  | [] => None
  | h :: r => if mem_is h p then Some (h, r)
              else match remove_first r p with Some (b, r') => Some (b, h :: r') | None => None end
  end.
Lemma unlink_next_remove_first : forall rest cur p, mem_is cur p = false ->
  unlink_next cur rest p = match remove_first rest p with Some (b, r') => Some (b, cur :: r') | None => None end.
Proof.
  induction rest as [|nxt rest IH]; intros cur p Hc; simpl; [reflexivity|].
  destruct (mem_is nxt p) eqn:E; [reflexivity|].
  rewrite (IH nxt p E). destruct (remove_first rest p) as [[b r']|]; reflexivity.
Qed.
Lemma unlink_remove_first : forall l p, unlink l p = remove_first l p.
Proof.
  intros [|h r] p; simpl; [reflexivity|]. destruct (mem_is h p) eqn:E; [reflexivity|].
  apply unlink_next_remove_first. exact E.
Qed.

(* ---------------------------------------------------------------- replacing one node *)
Lemma set_nth_split : forall i (c : list node), (i < length c)%nat ->
  exists l1 l2, c = l1 ++ nth i c dnode :: l2 /\ forall x, set_nth i x c = l1 ++ x :: l2.
Proof.
  induction i as [|i IH]; intros [|y r] H; simpl in H; try lia.
  - exists [], r. split; reflexivity.
  - destruct (IH r) as [l1 [l2 [H1 H2]]]; [lia|].
    exists (y :: l1), l2. split; simpl; [f_equal; exact H1 | intros x; f_equal; apply H2].
Qed.

(* getIndexForCache finds the first node that holds the request *)
Lemma index_from_spec : forall c k n i, index_from k c n = Some i ->
  (k <= i)%nat /\ (i - k < length c)%nat /\ n <= n_size (nth (i - k) c dnode) /\
  find (fun s => n <=? s) (map n_size c) = Some (n_size (nth (i - k) c dnode)).
Proof.
  induction c as [|nd r IH]; intros k n i H; simpl in H; [discriminate|].
  destruct (n <=? n_size nd) eqn:E.
  - inversion H; subst. replace (i - i)%nat with O by lia. simpl. rewrite E. apply N.leb_le in E. repeat split; auto; lia.
  - apply IH in H. destruct H as [H1 [H2 [H3 H4]]].
    replace (i - k)%nat with (S (i - S k)) by lia. simpl. rewrite E. repeat split; auto; lia.
Qed.
Lemma index_from_none : forall c k n, index_from k c n = None -> forall nd, In nd c -> n_size nd < n.
Proof.
  induction c as [|nd r IH]; intros k n H x Hx; [destruct Hx|]. simpl in H.
  destruct (n <=? n_size nd) eqn:E; [discriminate|]. apply N.leb_gt in E.
  destruct Hx as [<-|Hx]; [exact E | eapply IH; eauto].
Qed.

(* ---------------------------------------------------------------- ids *)
Definition mems (l : list block) : list N := map b_mem l.
Definition bids (l : list block) : list N := flat_map (fun b => [b_hdr b; b_mem b]) l.
Definition node_ids (nd : node) : list N := bids (n_free nd) ++ bids (n_used nd).
Definition all_ids (st : state) : list N := flat_map node_ids (s_cache st) ++ bids (s_non st).

Lemma bids_app : forall a b, bids (a ++ b) = bids a ++ bids b.
Proof. intros. unfold bids. apply flat_map_app. Qed.
Lemma mems_bids : forall l id, In id (mems l) -> In id (bids l).
Proof.
  induction l as [|b r IH]; intros id H; [destruct H|]. simpl in *.
  destruct H as [<-|H]; [right; left; reflexivity | right; right; apply IH; exact H].
Qed.
Lemma in_bids : forall l id, In id (bids l) <-> exists b, In b l /\ (id = b_hdr b \/ id = b_mem b).
Proof.
  intros l id. unfold bids. rewrite in_flat_map. split.
  - intros [b [Hb [H|[H|[]]]]]; exists b; auto.
  - intros [b [Hb [H|H]]]; exists b; split; auto; simpl; auto.
Qed.
Lemma in_mems : forall l id, In id (mems l) <-> exists b, In b l /\ id = b_mem b.
Proof. intros. unfold mems. rewrite in_map_iff. split; intros [b [H1 H2]]; exists b; auto. Qed.

Lemma range_from_In : forall k a id, In id (range_from a k) <-> a <= id < a + N.of_nat k.
Proof.
  induction k as [|k IH]; intros a id; simpl.
  - split; [intros [] | lia].
  - rewrite IH. split; [intros [<-|H]; lia | intros H; destruct (N.eq_dec a id); [left; auto | right; lia]].
Qed.

Lemma seen_cls_In : forall l id c, seen_cls l id = Some c -> In (id, c) l.
Proof.
  induction l as [|[id' c'] r IH]; intros id c H; simpl in H; [discriminate|].
  destruct (id =? id') eqn:E.
  - apply N.eqb_eq in E. inversion H; subst. left; reflexivity.
  - right. apply IH. exact H.
Qed.
Lemma seen_cls_None : forall l id, (forall c, ~ In (id, c) l) -> seen_cls l id = None.
Proof.
  intros l id H. destruct (seen_cls l id) eqn:E; [|reflexivity]. apply seen_cls_In in E. elim (H _ E).
Qed.

Lemma szof_app_old : forall sizes x id a, szof sizes id = Some a -> szof (sizes ++ x) id = Some a.
Proof.
  intros sizes x id a H. unfold szof in *. destruct (id <? N.of_nat (length sizes)) eqn:E; [|discriminate H].
  apply N.ltb_lt in E. replace (id <? N.of_nat (length (sizes ++ x))) with true by (symmetry; apply N.ltb_lt; rewrite app_length; lia).
  rewrite nth_error_app1; [exact H|]. apply nth_error_Some. congruence.
Qed.
Lemma szof_lt : forall sizes id a, szof sizes id = Some a -> id < N.of_nat (length sizes).
Proof.
  intros sizes id a H. unfold szof in H. destruct (id <? N.of_nat (length sizes)) eqn:E; [|discriminate H]. apply N.ltb_lt in E. exact E.
Qed.
Lemma szof_new : forall sizes sz, szof (sizes ++ [sz]) (N.of_nat (length sizes)) = Some sz.
Proof.
  intros. unfold szof. replace (N.of_nat (length sizes) <? N.of_nat (length (sizes ++ [sz]))) with true
    by (symmetry; apply N.ltb_lt; rewrite app_length; cbn [length]; lia).
  rewrite Nat2N.id. rewrite nth_error_app2; [|lia]. rewrite Nat.sub_diag. reflexivity.
Qed.
